package main

import (
	"fmt"
	"go/ast"
	"go/parser"
	"go/token"
	"path/filepath"
	"strings"
	"time"
)

// Auth (C41): the constants and the expiry / level comparisons of the auth native contract, regenerated from source.
//
// Sites are located by ROLE with the deep guarded walk of facts_headersync.go (same-package helpers followed, parameters
// substituted by the caller's arguments, locals inlined, if/else / switch / early-return normalised to guard literals):
//   * verifyToken: "the expiry literals on the path to the call <role functions>.ContainsFunc(fn)", once for the loop over
//     the caller's permanent tokens (range over a `.tokens` field) and once for the loop over its delegation records
//     (range over a `.status` field); a token is skipped when they do not all hold;
//   * getAuthToken: "the expiry literals on the path to a return of a non-nil token" inside the loop over `.status`
//     (and: none inside the loop over `.tokens`);
//   * delegate: "the literals over the requested level, the delegator's level and the two expiry times on the path to the
//     call putDelegateStatus(..)"; the equality test of the delegator's level is the outer guard, the rest the inner one.
// Expiry times / levels are recognised as struct fields (`<..>.expireTime`, `<..>.level`, `<..>.Time`), never by the
// names of locals; a mutable local is resolved through its only field assignment (`fromLevel = fromToken.level`).
func init() { Register("Auth", genAuth) }

const authDir = "smartcontract/service/native/auth"

// literals that may sit on a path without being a fact: nil tests, error tests, role equality, boolean helper results
func authNeutral(fset *token.FileSet, c cond) bool {
	e := stripParens(c.e)
	if be, ok := e.(*ast.BinaryExpr); ok && (be.Op == token.EQL || be.Op == token.NEQ) {
		for _, side := range []ast.Expr{be.X, be.Y} {
			if id, ok := stripParens(side).(*ast.Ident); ok && id.Name == "nil" {
				return true
			}
		}
		if ce, ok := stripParens(be.X).(*ast.CallExpr); ok && flat(fset, ce.Fun) == "bytes.Compare" {
			return true
		}
	}
	switch x := e.(type) {
	case *ast.CallExpr:
		f := flat(fset, x.Fun)
		return f == "bytes.Equal" || strings.HasSuffix(f, "VerifyID")
	case *ast.Ident:
		return true // a boolean local (`granted`, `ret`, `fromHasRole` ...)
	}
	return false
}

// the loop of the ENTRY function a site was reached from, classified by the field it ranges over
func authLoopClass(fset *token.FileSet, entry *ast.FuncDecl, root ast.Stmt) string {
	cls := ""
	ast.Inspect(entry.Body, func(n ast.Node) bool {
		if n == nil {
			return true
		}
		if n.Pos() > root.Pos() || n.End() < root.End() {
			return false // only nodes that contain root
		}
		classify := func(x string) {
			switch {
			case strings.HasSuffix(x, ".tokens"):
				cls = "tokens"
			case strings.HasSuffix(x, ".status"):
				cls = "status"
			default:
				cls = "?" + x
			}
		}
		switch l := n.(type) {
		case *ast.RangeStmt:
			classify(flat(fset, l.X))
		case *ast.ForStmt: // index loop: `for i := 0; i < len(x.tokens) [&& ..]; i++`
			if l.Cond != nil {
				ast.Inspect(l.Cond, func(m ast.Node) bool {
					if ce, ok := m.(*ast.CallExpr); ok && flat(fset, ce.Fun) == "len" && len(ce.Args) == 1 {
						classify(flat(fset, ce.Args[0]))
					}
					return true
				})
			}
		}
		return true
	})
	return cls
}

// authStructFields: the declared field names of a struct type of the package, in order (embedded fields by type name)
func authStructFields(repo, typ string) []string {
	fset := token.NewFileSet()
	pkgs, err := parser.ParseDir(fset, filepath.Join(repo, authDir), nil, 0)
	if err != nil {
		return nil
	}
	var out []string
	for _, p := range pkgs {
		for _, f := range p.Files {
			for _, d := range f.Decls {
				gd, ok := d.(*ast.GenDecl)
				if !ok || gd.Tok != token.TYPE {
					continue
				}
				for _, sp := range gd.Specs {
					ts := sp.(*ast.TypeSpec)
					st, ok := ts.Type.(*ast.StructType)
					if !ok || ts.Name.Name != typ || out != nil {
						continue
					}
					for _, fl := range st.Fields.List {
						if len(fl.Names) == 0 {
							out = append(out, recvTypeName(fl.Type))
						}
						for _, n := range fl.Names {
							out = append(out, n.Name)
						}
					}
				}
			}
		}
	}
	return out
}

func authExpiryAtom(s string) (string, bool) {
	if !dgPureRef(s) {
		return "", false
	}
	switch {
	case strings.HasSuffix(s, ".expireTime"):
		return "expire", true
	case strings.HasSuffix(s, ".Time"):
		return "now", true
	}
	return "", false
}

// conjunction of literals as a Lean Bool, left-associated; "true" when empty
func authConj(fset *token.FileSet, lits []cond, atom func(string) (string, bool)) (string, error) {
	out := ""
	for _, l := range lits {
		s, err := dgLitToLean(fset, l, atom)
		if err != nil {
			return "", err
		}
		if out == "" {
			out = s
		} else {
			out = "(" + out + " && " + s + ")"
		}
	}
	if out == "" {
		return "true", nil
	}
	return out, nil
}

// "skipped unless all literals hold": a single literal is printed without double negation so that
// `if expired { continue }` and `if !expired { use }` give the same text
func authSkip(fset *token.FileSet, lits []cond, atom func(string) (string, bool)) (string, error) {
	if len(lits) == 1 {
		return dgLitToLean(fset, dgNegate(lits[0]), atom)
	}
	c, err := authConj(fset, lits, atom)
	if err != nil {
		return "", err
	}
	return "(!" + c + ")", nil
}

func authSrc(fset *token.FileSet, lits []cond) string {
	var s []string
	for _, l := range lits {
		t := flat(fset, l.e)
		if !l.pos {
			t = "!(" + t + ")"
		}
		s = append(s, t)
	}
	return strings.Join(s, " && ")
}

func genAuth(repo string) (string, error) {
	fset, funcs, err := pkgFuncs(repo, authDir)
	if err != nil {
		return "", err
	}
	consts := pkgConsts(repo, authDir)
	var sb strings.Builder
	sb.WriteString("set_option linter.unusedVariables false\nnamespace OntVerif.Gen.Auth\n\n")

	// ---- future = time.Date(y, m, d, h, mi, s, ns, time.UTC) (package-level var, any file of the package)
	var fv ast.Expr
	{
		_, f, err := parseFile(repo, authDir+"/auth.go")
		if err != nil {
			return "", err
		}
		fv, err = ongTopValue(f, authDir+"/auth.go", "future")
		if err != nil {
			return "", err
		}
	}
	dc, ok := fv.(*ast.CallExpr)
	if !ok || flat(fset, dc.Fun) != "time.Date" || len(dc.Args) != 8 || flat(fset, dc.Args[7]) != "time.UTC" {
		return "", fmt.Errorf("%s: future: expected time.Date(y, m, d, h, mi, s, ns, time.UTC), found %s", authDir, flat(fset, fv))
	}
	var nums [7]int
	for i := 0; i < 7; i++ {
		v, err := ongIntLit(dc.Args[i], authDir+":future")
		if err != nil {
			return "", err
		}
		nums[i] = int(v)
	}
	t := time.Date(nums[0], time.Month(nums[1]), nums[2], nums[3], nums[4], nums[5], nums[6], time.UTC)
	if t.Unix() < 0 || t.Unix() >= 1<<32 {
		return "", fmt.Errorf("%s: future does not fit uint32", authDir)
	}
	fmt.Fprintf(&sb, "/-- %s: `future` = %s, stored as `uint32(future.Unix())` in permanent tokens -/\ndef FUTURE : Nat := %d\n\n",
		authDir, t.Format("2006-01-02T15:04:05Z"), t.Unix())

	// ---- assignToRole: the permanent token's `.level = <lit>` and `.expireTime = uint32(future.Unix())`
	ar := funcs["assignToRole"]
	if ar == nil {
		return "", fmt.Errorf("%s: func assignToRole not found", authDir)
	}
	var lvls, exps []ast.Expr
	field := func(name string, val ast.Expr) {
		// the permanent token is the one built from constants: a literal level and an expiry derived from `future`
		// (helpers reached from here also copy a delegation record's fields into a temporary token: not constants)
		switch name {
		case "level":
			if _, isLit := stripConv(val).(*ast.BasicLit); isLit {
				lvls = append(lvls, val)
			}
		case "expireTime":
			if strings.Contains(flat(fset, val), "future") {
				exps = append(exps, val)
			}
		}
	}
	for _, st := range dgSites(funcs, consts, ar, 2) {
		ast.Inspect(st.stmt, func(n ast.Node) bool {
			switch x := n.(type) {
			case *ast.AssignStmt:
				if len(x.Lhs) == len(x.Rhs) {
					for i, l := range x.Lhs {
						if se, ok := l.(*ast.SelectorExpr); ok {
							field(se.Sel.Name, st.f.norm(x.Rhs[i]))
						}
					}
				}
			case *ast.CompositeLit: // &AuthToken{level: 2, expireTime: ...} or, unkeyed, by the declared field order
				order := authStructFields(repo, flat(fset, x.Type))
				for i, el := range x.Elts {
					if kv, ok := el.(*ast.KeyValueExpr); ok {
						if id, ok := kv.Key.(*ast.Ident); ok {
							field(id.Name, st.f.norm(kv.Value))
						}
					} else if i < len(order) {
						field(order[i], st.f.norm(el))
					}
				}
			}
			return true
		})
	}
	if len(lvls) != 1 || len(exps) != 1 {
		return "", fmt.Errorf("%s:assignToRole: expected one assignment to a .level and one to an .expireTime field, found %d / %d", authDir, len(lvls), len(exps))
	}
	if s := flat(fset, stripParens(exps[0])); s != "uint32(future.Unix())" {
		return "", fmt.Errorf("%s:assignToRole: token expireTime = %s, expected uint32(future.Unix())", authDir, s)
	}
	lv, err := ongIntLit(stripConv(lvls[0]), authDir+":assignToRole:token.level")
	if err != nil {
		return "", err
	}
	fmt.Fprintf(&sb, "/-- %s:assignToRole — `token.level = %d` -/\ndef permanentLevel : Nat := %d\n\n", authDir, lv, lv)

	// ---- verifyToken: expiry literals on the path to <funcs>.ContainsFunc(fn), per loop
	vt := funcs["verifyToken"]
	if vt == nil {
		return "", fmt.Errorf("%s: func verifyToken not found", authDir)
	}
	skip := map[string]string{}
	hasContains := func(n ast.Node) bool {
		has := false
		ast.Inspect(n, func(n ast.Node) bool {
			if ce, ok := n.(*ast.CallExpr); ok {
				if se, ok := ce.Fun.(*ast.SelectorExpr); ok && se.Sel.Name == "ContainsFunc" {
					has = true
				}
			}
			return true
		})
		return has
	}
	for _, st := range dgSites(funcs, consts, vt, 3) {
		// the consultation is either inside the statement (`return funcs.ContainsFunc(fn), nil`) or a guard of it
		// (`if funcs.ContainsFunc(fn) { return true, nil }`); the path is what guards the consultation
		path := dgLiterals(st.guards)
		if !hasContains(st.stmt) {
			k := -1
			for i, l := range path {
				if hasContains(l.e) {
					k = i
					break
				}
			}
			if k < 0 {
				continue
			}
			path = path[:k] // `a && b && funcs.ContainsFunc(fn)`: what stands to the left holds when it is consulted
		}
		cls := authLoopClass(fset, vt, st.root)
		if cls != "tokens" && cls != "status" {
			return "", fmt.Errorf("%s:verifyToken: ContainsFunc is consulted outside the loops over .tokens / .status (%q)", authDir, cls)
		}
		var lits []cond
		for _, l := range path {
			switch {
			case dgMentions(fset, l.e, authExpiryAtom, "expire"):
				lits = append(lits, l)
			case authNeutral(fset, l):
			default:
				return "", fmt.Errorf("%s:verifyToken: condition on the path to ContainsFunc not understood: %s", authDir, flat(fset, l.e))
			}
		}
		lean, err := authSkip(fset, lits, authExpiryAtom)
		if err != nil {
			return "", fmt.Errorf("%s:verifyToken: %v", authDir, err)
		}
		if len(lits) == 0 {
			lean = "false"
		}
		if old, dup := skip[cls]; dup && old != lean {
			return "", fmt.Errorf("%s:verifyToken: two different expiry tests in the loop over .%s", authDir, cls)
		}
		skip[cls] = lean
	}
	for _, c := range []struct{ cls, lean, doc string }{
		{"tokens", "tokenSkipped", "a permanent token is skipped when this holds"},
		{"status", "statusSkipped", "a delegation record is skipped when this holds"},
	} {
		lean, ok := skip[c.cls]
		if !ok {
			return "", fmt.Errorf("%s:verifyToken: no ContainsFunc consultation found in the loop over .%s", authDir, c.cls)
		}
		fmt.Fprintf(&sb, "/-- %s:verifyToken — %s (expiry test on the path to ContainsFunc, loop over .%s) -/\ndef %s (expire now : Nat) : Bool := %s\n\n",
			authDir, c.doc, c.cls, c.lean, lean)
	}

	// ---- getAuthToken: expiry literals on the path to a return of a non-nil token
	ga := funcs["getAuthToken"]
	if ga == nil {
		return "", fmt.Errorf("%s: func getAuthToken not found", authDir)
	}
	live := ""
	for _, st := range dgSites(funcs, consts, ga, 2) {
		r, ok := st.stmt.(*ast.ReturnStmt)
		if !ok || st.f.fn != ga || len(r.Results) != 2 {
			continue
		}
		if id, ok := stripParens(r.Results[0]).(*ast.Ident); ok && id.Name == "nil" {
			continue
		}
		cls := authLoopClass(fset, ga, st.root)
		var lits []cond
		for _, l := range dgLiterals(st.guards) {
			switch {
			case dgMentions(fset, l.e, authExpiryAtom, "expire"):
				lits = append(lits, l)
			case authNeutral(fset, l):
			default:
				return "", fmt.Errorf("%s:getAuthToken: condition on the path to a returned token not understood: %s", authDir, flat(fset, l.e))
			}
		}
		switch cls {
		case "tokens":
			if len(lits) != 0 {
				return "", fmt.Errorf("%s:getAuthToken: a permanent token is returned under an expiry test (%s); the model has none", authDir, authSrc(fset, lits))
			}
		case "status":
			lean, err := authConj(fset, lits, authExpiryAtom)
			if err != nil {
				return "", fmt.Errorf("%s:getAuthToken: %v", authDir, err)
			}
			if live != "" && live != lean {
				return "", fmt.Errorf("%s:getAuthToken: two different liveness tests for delegation records", authDir)
			}
			live = lean
		default:
			return "", fmt.Errorf("%s:getAuthToken: a token is returned outside the loops over .tokens / .status (%q)", authDir, cls)
		}
	}
	if live == "" {
		return "", fmt.Errorf("%s:getAuthToken: no token returned from the loop over .status", authDir)
	}
	fmt.Fprintf(&sb, "/-- %s:getAuthToken — a delegation record of the role counts as a (temporary) token when this holds (expiry test on the path to the returned token) -/\ndef delegationLive (expire now : Nat) : Bool := %s\n\n",
		authDir, live)

	// ---- delegate: literals over level / delegator's level / expiry times on the path to putDelegateStatus(..)
	dg := funcs["delegate"]
	if dg == nil {
		return "", fmt.Errorf("%s: func delegate not found", authDir)
	}
	ps := paramNames(dg)
	if len(ps) != 8 {
		return "", fmt.Errorf("%s:delegate: expected 8 parameters (.., period, level, keyNo), found %d", authDir, len(ps))
	}
	levelParam := ps[6]
	// the local stored into the new record's .expireTime is the requested expiry; mutable locals fed from a token's
	// .level / .expireTime are the delegator's level / expiry
	roleOf := map[string]string{levelParam: "level"}
	dgLocal := dgDefs(dg, consts)
	expireIs := func(v ast.Expr) { // the value stored into a record's .expireTime: the local, and what it is defined as
		if id, ok := stripConv(v).(*ast.Ident); ok {
			roleOf[id.Name] = "expire"
			roleOf[flat(fset, stripParens(inlineLocals(id, dgLocal)))] = "expire"
		}
	}
	ast.Inspect(dg.Body, func(n ast.Node) bool {
		if cl, ok := n.(*ast.CompositeLit); ok {
			order := authStructFields(repo, flat(fset, cl.Type))
			for i, el := range cl.Elts {
				if kv, ok := el.(*ast.KeyValueExpr); ok {
					if id, ok := kv.Key.(*ast.Ident); ok && id.Name == "expireTime" {
						expireIs(kv.Value)
					}
				} else if i < len(order) && order[i] == "expireTime" {
					expireIs(el)
				}
			}
			return true
		}
		as, ok := n.(*ast.AssignStmt)
		if !ok || len(as.Lhs) != len(as.Rhs) {
			return true
		}
		for i, l := range as.Lhs {
			r := stripConv(as.Rhs[i])
			if se, ok := l.(*ast.SelectorExpr); ok && se.Sel.Name == "expireTime" {
				expireIs(r)
			}
			if id, ok := l.(*ast.Ident); ok {
				if se, ok := r.(*ast.SelectorExpr); ok {
					switch se.Sel.Name {
					case "level":
						roleOf[id.Name] = "fromLevel"
					case "expireTime":
						roleOf[id.Name] = "fromExpire"
					}
				}
			}
		}
		return true
	})
	dgAtom := func(s string) (string, bool) {
		if v, ok := roleOf[s]; ok {
			return v, true
		}
		if !dgPureRef(s) {
			return "", false
		}
		switch {
		case strings.HasSuffix(s, ".level"):
			return "fromLevel", true
		case strings.HasSuffix(s, ".expireTime"):
			return "fromExpire", true
		}
		return "", false
	}
	var outer, inner []cond
	found := 0
	for _, st := range dgSites(funcs, consts, dg, 2) {
		has := false
		ast.Inspect(st.stmt, func(n ast.Node) bool {
			if ce, ok := n.(*ast.CallExpr); ok && flat(fset, ce.Fun) == "putDelegateStatus" {
				has = true
			}
			return true
		})
		if !has {
			continue
		}
		found++
		var o, in []cond
		for _, l := range dgLiterals(st.guards) {
			if !dgMentions(fset, l.e, dgAtom, "level", "fromLevel", "fromExpire") {
				continue // signature / id / overflow / error / role tests: not facts of this group (tied by the harness)
			}
			be, isCmp := stripParens(l.e).(*ast.BinaryExpr)
			if isCmp && be.Op == token.EQL && l.pos && dgMentions(fset, l.e, dgAtom, "fromLevel") && !dgMentions(fset, l.e, dgAtom, "level", "fromExpire", "expire") {
				o = append(o, l)
			} else {
				in = append(in, l)
			}
		}
		if found > 1 && (authSrc(fset, o) != authSrc(fset, outer) || authSrc(fset, in) != authSrc(fset, inner)) {
			return "", fmt.Errorf("%s:delegate: putDelegateStatus is reached under different level/expiry conditions", authDir)
		}
		outer, inner = o, in
	}
	if found == 0 {
		return "", fmt.Errorf("%s:delegate: call putDelegateStatus(..) not found", authDir)
	}
	for _, c := range []struct {
		lean, doc string
		lits      []cond
	}{
		{"delegateOuter", "outer guard: equality test(s) on the delegator's level on the path to putDelegateStatus", outer},
		{"delegateInner", "inner guard: the other level / expiry literals on the path to putDelegateStatus", inner},
	} {
		lean, err := authConj(fset, c.lits, dgAtom)
		if err != nil {
			return "", fmt.Errorf("%s:delegate: %v", authDir, err)
		}
		fmt.Fprintf(&sb, "/-- %s:delegate — %s -/\ndef %s (fromLevel level expire fromExpire : Nat) : Bool := %s\n\n", authDir, c.doc, c.lean, lean)
	}
	sb.WriteString("end OntVerif.Gen.Auth\n")
	return sb.String(), nil
}
