package main

// Fact group "SealGates" (property C34): every place in consensus/vbft where sealing of a block is initiated, and the
// decision function whose result guards it.
//
// Seal entry points (by name): setCommitDone, makeSealed, sealProposal, sealBlock, fastForwardBlock, setBlockSealed,
// chainStore.AddBlock. For EVERY call of one of them in the non-test, non-hook files of the package a `Site` is emitted:
//
//	file, func          where the call is
//	callee, args        the entry point called and its printed arguments
//	guard               how the call is guarded, found structurally:
//	                      "<f>"        the call sits in the body of `if r0, r1, done := <recv>.<f>(guardArgs); done [&& …] {`
//	                                   (f = commitDone in the shipped code; endorseDone or anything else is reported as is)
//	                      "not:<f>"    … in the else branch of such an `if`, or the condition negates the result
//	                      "getCommitConsensus"  preceded in an enclosing block by `p, e := getCommitConsensus(guardArgs)` and
//	                                   `if p == math.MaxUint32 { … break|return|continue }`
//	                      "action:SealBlock"    inside `case SealBlock:` of the action loop (consumer of makeSealed's action)
//	                      "relay"      inside another seal entry point (sealProposal -> sealBlock -> setBlockSealed -> AddBlock)
//	                      "sync"       a call of fastForwardBlock (blocks fetched from peers by the syncer)
//	                      "none"       nothing of the above: an unguarded seal site
//	guardArgs/Results   printed arguments of the guarding call and the names its results are bound to
//	proposalFrom        for makeSealed(proposal, …): the right-hand side of the assignment to `proposal` inside the guard body
//
// Nothing here is an error: an unexpected shape yields a site with guard "none" (or the unexpected function name) and the
// theorem C34_seal_sites_guarded in Props/C34.lean fails. `msgCommitGate`, `commitTimeoutGate`, `newRoundGate` name the guard
// of the setCommitDone site of processMsgEvent / processTimerEvent / startNewRound; the C34 model and harness evaluate THAT
// function when a node handles a commit message / a commit timeout (the harness asks the freshly built model driver: `GATES`).

import (
	"fmt"
	"go/ast"
	"go/token"
	"os"
	"path/filepath"
	"sort"
	"strings"
)

func init() { Register("SealGates", genSealGates) }

var sealEntries = map[string]bool{"setCommitDone": true, "makeSealed": true, "sealProposal": true, "sealBlock": true,
	"fastForwardBlock": true, "setBlockSealed": true}

type sealSite struct {
	file, fn, callee    string
	args                []string
	guard               string
	guardArgs, guardRes []string
	proposalFrom        string
	pos                 token.Pos
}

func sgCallee(fset *token.FileSet, ce *ast.CallExpr) string {
	switch fn := ce.Fun.(type) {
	case *ast.Ident:
		return fn.Name
	case *ast.SelectorExpr:
		if fn.Sel.Name == "AddBlock" {
			if strings.HasSuffix(exprString(fset, fn.X), "chainStore") {
				return "AddBlock"
			}
			return ""
		}
		return fn.Sel.Name
	}
	return ""
}

func sgStrings(fset *token.FileSet, es []ast.Expr) []string {
	out := []string{}
	for _, e := range es {
		out = append(out, exprString(fset, e))
	}
	return out
}

// does cond use identifier name positively (name, or a conjunction with name as a conjunct)?
func sgCondUses(cond ast.Expr, name string) (positive, negative bool) {
	switch c := cond.(type) {
	case *ast.Ident:
		return c.Name == name, false
	case *ast.ParenExpr:
		return sgCondUses(c.X, name)
	case *ast.UnaryExpr:
		if c.Op == token.NOT {
			p, n := sgCondUses(c.X, name)
			return n, p
		}
	case *ast.BinaryExpr:
		if c.Op == token.LAND {
			p1, n1 := sgCondUses(c.X, name)
			p2, n2 := sgCondUses(c.Y, name)
			return p1 || p2, n1 || n2
		}
	}
	return false, false
}

func sgContains(outer ast.Node, pos token.Pos) bool {
	return outer != nil && outer.Pos() <= pos && pos < outer.End()
}

func sgEndsWithJump(b *ast.BlockStmt) bool {
	if len(b.List) == 0 {
		return false
	}
	switch s := b.List[len(b.List)-1].(type) {
	case *ast.BranchStmt:
		return s.Tok == token.BREAK || s.Tok == token.CONTINUE
	case *ast.ReturnStmt:
		return true
	}
	return false
}

func sgStmtLists(n ast.Node) [][]ast.Stmt {
	switch b := n.(type) {
	case *ast.BlockStmt:
		return [][]ast.Stmt{b.List}
	case *ast.CaseClause:
		return [][]ast.Stmt{b.Body}
	case *ast.CommClause:
		return [][]ast.Stmt{b.Body}
	}
	return nil
}

func sgAnalyse(fset *token.FileSet, rel string, fd *ast.FuncDecl) []sealSite {
	var sites []sealSite
	var path []ast.Node
	var visit func(n ast.Node) bool
	visit = func(n ast.Node) bool {
		if n == nil {
			path = path[:len(path)-1]
			return true
		}
		path = append(path, n)
		ce, ok := n.(*ast.CallExpr)
		if !ok {
			return true
		}
		callee := sgCallee(fset, ce)
		if !sealEntries[callee] && callee != "AddBlock" {
			return true
		}
		s := sealSite{file: rel, fn: fd.Name.Name, callee: callee, args: sgStrings(fset, ce.Args), guard: "none",
			guardArgs: []string{}, guardRes: []string{}, pos: ce.Pos()}
		// 1. nearest enclosing `if … := f(…); done {`
		var guardIf *ast.IfStmt
		for i := len(path) - 2; i >= 0 && guardIf == nil; i-- {
			is, ok := path[i].(*ast.IfStmt)
			if !ok || is.Init == nil {
				continue
			}
			as, ok := is.Init.(*ast.AssignStmt)
			if !ok || len(as.Rhs) != 1 || len(as.Lhs) == 0 {
				continue
			}
			gc, ok := as.Rhs[0].(*ast.CallExpr)
			if !ok {
				continue
			}
			last, ok := as.Lhs[len(as.Lhs)-1].(*ast.Ident)
			if !ok {
				continue
			}
			pos, neg := sgCondUses(is.Cond, last.Name)
			if !pos && !neg {
				continue
			}
			name := sgCallee(fset, gc)
			if name == "" {
				name = exprString(fset, gc.Fun)
			}
			inBody := sgContains(is.Body, ce.Pos())
			if (pos && inBody) || (neg && !inBody) {
				s.guard = name
			} else {
				s.guard = "not:" + name
			}
			s.guardArgs = sgStrings(fset, gc.Args)
			s.guardRes = sgStrings(fset, as.Lhs)
			guardIf = is
		}
		if guardIf != nil && len(ce.Args) > 0 {
			// right-hand side of the assignment to the first argument inside the guard body, before the call
			if id, ok := ce.Args[0].(*ast.Ident); ok {
				ast.Inspect(guardIf.Body, func(m ast.Node) bool {
					if as, ok := m.(*ast.AssignStmt); ok && as.Pos() < ce.Pos() && len(as.Lhs) == 1 && len(as.Rhs) == 1 {
						if l, ok := as.Lhs[0].(*ast.Ident); ok && l.Name == id.Name {
							s.proposalFrom = exprString(fset, as.Rhs[0])
						}
					}
					return true
				})
			}
		}
		// 2. `p, e := getCommitConsensus(…)` + `if p == math.MaxUint32 { … jump }` earlier in an enclosing block
		if guardIf == nil {
			for i := len(path) - 2; i >= 0 && s.guard == "none"; i-- {
				for _, list := range sgStmtLists(path[i]) {
					var resName string
					var gargs []string
					var gres []string
					rejected := false
					for _, st := range list {
						if st.Pos() >= ce.Pos() {
							break
						}
						if as, ok := st.(*ast.AssignStmt); ok && len(as.Rhs) == 1 && len(as.Lhs) >= 1 {
							if gc, ok := as.Rhs[0].(*ast.CallExpr); ok && sgCallee(fset, gc) == "getCommitConsensus" {
								if id, ok := as.Lhs[0].(*ast.Ident); ok {
									resName, gargs, gres, rejected = id.Name, sgStrings(fset, gc.Args), sgStrings(fset, as.Lhs), false
								}
							}
						}
						if is, ok := st.(*ast.IfStmt); ok && resName != "" {
							if be, ok := is.Cond.(*ast.BinaryExpr); ok && be.Op == token.EQL &&
								exprString(fset, be.X) == resName && exprString(fset, be.Y) == "math.MaxUint32" && sgEndsWithJump(is.Body) {
								rejected = true
							}
						}
					}
					if resName != "" && rejected {
						s.guard, s.guardArgs, s.guardRes = "getCommitConsensus", gargs, gres
					}
				}
			}
		}
		// 3. consumer of the SealBlock action / relay / syncer
		if s.guard == "none" {
			for i := len(path) - 2; i >= 0; i-- {
				if cc, ok := path[i].(*ast.CaseClause); ok {
					for _, e := range cc.List {
						if exprString(fset, e) == "SealBlock" {
							s.guard = "action:SealBlock"
						}
					}
				}
			}
		}
		if s.guard == "none" && (sealEntries[fd.Name.Name]) {
			s.guard = "relay"
		}
		if s.guard == "none" && callee == "fastForwardBlock" {
			s.guard = "sync"
		}
		sites = append(sites, s)
		return true
	}
	ast.Inspect(fd.Body, func(n ast.Node) bool { return visit(n) })
	return sites
}

func sgLeanStr(s string) string {
	return "\"" + strings.NewReplacer("\\", "\\\\", "\"", "\\\"", "\n", " ", "\t", " ").Replace(s) + "\""
}

func sgLeanList(xs []string) string {
	q := []string{}
	for _, x := range xs {
		q = append(q, sgLeanStr(x))
	}
	return "[" + strings.Join(q, ", ") + "]"
}

func genSealGates(repo string) (string, error) {
	dir := filepath.Join(repo, "consensus", "vbft")
	ents, err := os.ReadDir(dir)
	if err != nil {
		return "", err
	}
	var sites []sealSite
	for _, e := range ents {
		n := e.Name()
		if e.IsDir() || !strings.HasSuffix(n, ".go") || strings.HasSuffix(n, "_test.go") || strings.HasPrefix(n, "verif_export") {
			continue
		}
		rel := filepath.Join("consensus", "vbft", n)
		fset, f, err := parseFile(repo, rel)
		if err != nil {
			return "", err
		}
		for _, d := range f.Decls {
			if fd, ok := d.(*ast.FuncDecl); ok && fd.Body != nil {
				sites = append(sites, sgAnalyse(fset, rel, fd)...)
			}
		}
	}
	sort.SliceStable(sites, func(i, j int) bool {
		if sites[i].file != sites[j].file {
			return sites[i].file < sites[j].file
		}
		return sites[i].pos < sites[j].pos
	})
	gate := func(fn string) string {
		g := "absent"
		for _, s := range sites {
			if s.fn == fn && s.callee == "setCommitDone" {
				return s.guard
			}
		}
		return g
	}
	var b strings.Builder
	fmt.Fprintf(&b, "-- GATES processMsgEvent=%s processTimerEvent=%s startNewRound=%s\n", gate("processMsgEvent"), gate("processTimerEvent"), gate("startNewRound"))
	b.WriteString("namespace OntVerif.Gen.SealGates\n\n")
	b.WriteString("/-- one call of a seal entry point in consensus/vbft and how it is guarded (see harness/cmd/factgen/facts_sealgates.go) -/\n")
	b.WriteString("structure Site where\n  file : String\n  func : String\n  callee : String\n  args : List String\n  guard : String\n  guardArgs : List String\n  guardResults : List String\n  proposalFrom : String\n  deriving Repr, DecidableEq\n\n")
	b.WriteString("def sites : List Site := [\n")
	for i, s := range sites {
		sep := ","
		if i == len(sites)-1 {
			sep = ""
		}
		fmt.Fprintf(&b, "  ⟨%s, %s, %s, %s, %s, %s, %s, %s⟩%s\n", sgLeanStr(s.file), sgLeanStr(s.fn), sgLeanStr(s.callee), sgLeanList(s.args),
			sgLeanStr(s.guard), sgLeanList(s.guardArgs), sgLeanList(s.guardRes), sgLeanStr(s.proposalFrom), sep)
	}
	b.WriteString("]\n\n")
	fmt.Fprintf(&b, "/-- guard of the setCommitDone site in processMsgEvent (commit message branch) -/\ndef msgCommitGate : String := %s\n", sgLeanStr(gate("processMsgEvent")))
	fmt.Fprintf(&b, "/-- guard of the setCommitDone site in processTimerEvent (EventCommitBlockTimeout) -/\ndef commitTimeoutGate : String := %s\n", sgLeanStr(gate("processTimerEvent")))
	fmt.Fprintf(&b, "/-- guard of the setCommitDone site in startNewRound -/\ndef newRoundGate : String := %s\n", sgLeanStr(gate("startNewRound")))
	b.WriteString("\nend OntVerif.Gen.SealGates\n")
	return b.String(), nil
}
