package main

import (
	"fmt"
	"go/ast"
	"go/token"
	"strings"
)

// HeaderSync (C33): the count condition of header_sync.VerifyHeader and the arguments it hands to
// signature.VerifyMultiSignature, regenerated from source.
func init() { Register("HeaderSync", genHeaderSync) }

func genHeaderSync(repo string) (string, error) {
	const file = "smartcontract/service/native/cross_chain/header_sync/utils.go"
	const fnName = "VerifyHeader"
	fset, f, err := parseFile(repo, file)
	if err != nil {
		return "", err
	}
	fn := findFunc(f, fnName)
	if fn == nil {
		return "", fmt.Errorf("%s: func %s not found", file, fnName)
	}
	atoms := map[string]string{"len(header.Bookkeepers)": "b", "len(consensusPeer.PeerMap)": "p"}

	// the first `if <lhs> OP <rhs> { return <error> }` whose condition mentions len(header.Bookkeepers)
	var cmp *ast.BinaryExpr
	ast.Inspect(fn.Body, func(n ast.Node) bool {
		ifs, ok := n.(*ast.IfStmt)
		if !ok || cmp != nil {
			return true
		}
		be, ok := ifs.Cond.(*ast.BinaryExpr)
		if !ok || !strings.Contains(exprString(fset, be), "len(header.Bookkeepers)") {
			return true
		}
		if len(ifs.Body.List) == 0 {
			return true
		}
		if _, isRet := ifs.Body.List[len(ifs.Body.List)-1].(*ast.ReturnStmt); !isRet {
			return true
		}
		cmp = be
		return true
	})
	if cmp == nil {
		return "", fmt.Errorf("%s:%s: rejecting comparison on len(header.Bookkeepers) not found", file, fnName)
	}
	lhs, err := intExprToLean(fset, cmp.X, atoms)
	if err != nil {
		return "", fmt.Errorf("%s:%s: %v", file, fnName, err)
	}
	rhs, err := intExprToLean(fset, cmp.Y, atoms)
	if err != nil {
		return "", fmt.Errorf("%s:%s: %v", file, fnName, err)
	}
	var rel string
	switch cmp.Op {
	case token.LSS:
		rel = "decide (%s < %s)"
	case token.LEQ:
		rel = "decide (%s ≤ %s)"
	case token.GTR:
		rel = "decide (%s > %s)"
	case token.GEQ:
		rel = "decide (%s ≥ %s)"
	default:
		return "", fmt.Errorf("%s:%s: unexpected operator %s in the count condition", file, fnName, cmp.Op)
	}

	// signature.VerifyMultiSignature(hash[:], header.Bookkeepers, <m>, header.SigData)
	var call *ast.CallExpr
	ast.Inspect(fn.Body, func(n ast.Node) bool {
		if ce, ok := n.(*ast.CallExpr); ok && call == nil && exprString(fset, ce.Fun) == "signature.VerifyMultiSignature" {
			call = ce
		}
		return true
	})
	if call == nil || len(call.Args) != 4 {
		return "", fmt.Errorf("%s:%s: call signature.VerifyMultiSignature(data, keys, m, sigs) not found", file, fnName)
	}
	if k := exprString(fset, call.Args[1]); k != "header.Bookkeepers" {
		return "", fmt.Errorf("%s:%s: VerifyMultiSignature keys argument is %q, expected header.Bookkeepers", file, fnName, k)
	}
	if k := exprString(fset, call.Args[3]); k != "header.SigData" {
		return "", fmt.Errorf("%s:%s: VerifyMultiSignature sigs argument is %q, expected header.SigData", file, fnName, k)
	}
	m, err := intExprToLean(fset, call.Args[2], atoms)
	if err != nil {
		return "", fmt.Errorf("%s:%s: %v", file, fnName, err)
	}

	var sb strings.Builder
	sb.WriteString("set_option linter.unusedVariables false\nnamespace OntVerif.Gen.HeaderSync\n\n")
	fmt.Fprintf(&sb, "/-- %s:%s — the header is rejected when this holds (b = len(header.Bookkeepers), p = len(consensusPeer.PeerMap)). Go source: `%s` -/\n",
		file, fnName, exprString(fset, cmp))
	fmt.Fprintf(&sb, "def countRejects (b p : Nat) : Bool := "+rel+"\n\n", lhs, rhs)
	fmt.Fprintf(&sb, "/-- %s:%s — the m handed to VerifyMultiSignature(hash, header.Bookkeepers, m, header.SigData). Go source: `%s` -/\n",
		file, fnName, exprString(fset, call.Args[2]))
	fmt.Fprintf(&sb, "def multisigM (b p : Nat) : Nat := %s\n\n", m)
	sb.WriteString("end OntVerif.Gen.HeaderSync\n")
	return sb.String(), nil
}
