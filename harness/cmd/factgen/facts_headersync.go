package main

import (
	"fmt"
	"go/ast"
	"go/token"
	"strings"
)

// HeaderSync (C33): the count condition of header_sync.VerifyHeader and the arguments it hands to
// signature.VerifyMultiSignature, regenerated from source.
//
// Sites are located by ROLE (astnorm.go): the count condition is "the guard directly under which VerifyHeader — or an
// unexported helper of the package it calls — returns a non-nil error and which compares the number of the header's
// bookkeepers with the number of stored consensus peers"; both numbers are recognised after inlining locals (also the
// parallel form `a, b := len(x), len(y)`) and substituting the helper's parameters by the caller's arguments, as
// `len(<..>.Bookkeepers)` and `len(<..>.PeerMap)` (struct fields, not locals). `x < y`, `y > x`, negated / else-branch /
// early-return spellings give the same fact.
func init() { Register("HeaderSync", genHeaderSync) }

// ---------------------------------------------------------------------------------------------------------------
// deep guarded walk (shared with facts_auth.go): every simple statement reachable from an entry function through
// same-package helpers, with the conditions guarding it, everything expressed in the ENTRY function's terms.

type dgFrame struct {
	fn    *ast.FuncDecl
	defs  *defTable
	subst map[string]ast.Expr // parameter -> caller's argument (already in entry terms)
}

func (f *dgFrame) norm(e ast.Expr) ast.Expr { return substIdents(inlineLocals(e, f.defs), f.subst) }

type dgSite struct {
	stmt   ast.Stmt
	guards []cond // outermost first, normalised to entry terms
	f      *dgFrame
	root   ast.Stmt // the statement of the entry function this site was reached from (the site itself at depth 0)
}

// dgDefs is singleDefsWith (locals and package-level constants) plus the parallel definition `a, b := x, y` (as many values as names): each name gets its value.
func dgDefs(fn *ast.FuncDecl, consts map[string]ast.Expr) *defTable {
	t := singleDefsWith(fn, consts)
	ast.Inspect(fn.Body, func(n ast.Node) bool {
		as, ok := n.(*ast.AssignStmt)
		if !ok || as.Tok != token.DEFINE || len(as.Lhs) < 2 || len(as.Lhs) != len(as.Rhs) {
			return true
		}
		for i, l := range as.Lhs {
			id, ok := l.(*ast.Ident)
			if !ok || id.Name == "_" {
				continue
			}
			for k := range t.defs {
				if t.defs[k].name == id.Name && t.defs[k].pos == as.End() && t.defs[k].rhs == nil {
					t.defs[k].rhs = as.Rhs[i]
				}
			}
		}
		return true
	})
	return t
}

func dgSites(funcs map[string]*ast.FuncDecl, consts map[string]ast.Expr, entry *ast.FuncDecl, depth int) []dgSite {
	var out []dgSite
	onStack := map[*ast.FuncDecl]bool{}
	var rec func(f *dgFrame, outer []cond, root ast.Stmt, d int)
	rec = func(f *dgFrame, outer []cond, root ast.Stmt, d int) {
		onStack[f.fn] = true
		defer func() { onStack[f.fn] = false }()
		guardsOf(f.fn.Body.List, nil, func(s ast.Stmt, gs []cond) {
			all := append([]cond{}, outer...)
			for _, g := range gs {
				all = append(all, cond{f.norm(g.e), g.pos})
			}
			r := root
			if r == nil {
				r = s
			}
			out = append(out, dgSite{s, all, f, r})
			if d == 0 {
				return
			}
			ast.Inspect(s, func(n ast.Node) bool {
				if _, isLit := n.(*ast.FuncLit); isLit {
					return false
				}
				ce, ok := n.(*ast.CallExpr)
				if !ok {
					return true
				}
				callee := calleeOf(funcs, ce)
				if callee == nil || onStack[callee] {
					return true
				}
				if se, ok := ce.Fun.(*ast.SelectorExpr); ok { // pkg.F(..) of another package is not a helper of this one
					if id, ok := se.X.(*ast.Ident); ok && id.Obj == nil && callee.Recv == nil {
						return true
					}
				}
				ps := paramNames(callee)
				if len(ps) != len(ce.Args) {
					return true
				}
				sub := map[string]ast.Expr{}
				for i, p := range ps {
					sub[p] = f.norm(ce.Args[i])
				}
				rec(&dgFrame{callee, dgDefs(callee, consts), sub}, all, r, d-1)
				return true
			})
		})
	}
	rec(&dgFrame{entry, dgDefs(entry, consts), nil}, nil, nil, depth)
	return out
}

// dgLiterals splits guards into the literals that all hold at the site: `a && b` (true) and `a || b` (false) are split,
// `!a` flips the polarity, parentheses go.
func dgLiterals(gs []cond) []cond {
	var out []cond
	var add func(e ast.Expr, pos bool)
	add = func(e ast.Expr, pos bool) {
		e = stripParens(e)
		switch x := e.(type) {
		case *ast.UnaryExpr:
			if x.Op == token.NOT {
				add(x.X, !pos)
				return
			}
		case *ast.BinaryExpr:
			if (x.Op == token.LAND && pos) || (x.Op == token.LOR && !pos) {
				add(x.X, pos)
				add(x.Y, pos)
				return
			}
		}
		out = append(out, dgCanon(cond{e, pos}))
	}
	for _, g := range gs {
		add(g.e, g.pos)
	}
	return out
}

var dgFlip = map[token.Token]token.Token{token.LSS: token.GEQ, token.GEQ: token.LSS, token.GTR: token.LEQ, token.LEQ: token.GTR,
	token.EQL: token.NEQ, token.NEQ: token.EQL}

// dgCanon: a negated comparison is written as the positive comparison with the complementary operator, so that
// `if a < b { reject }`, `if a >= b { accept } else { reject }` and the early-return spelling give the same literal
func dgCanon(c cond) cond {
	if be, ok := stripParens(c.e).(*ast.BinaryExpr); ok && !c.pos {
		if f, ok := dgFlip[be.Op]; ok {
			if id, isNil := stripParens(be.Y).(*ast.Ident); !(isNil && id.Name == "nil") {
				return cond{&ast.BinaryExpr{X: be.X, Op: f, Y: be.Y}, true}
			}
		}
	}
	return c
}

// dgNegate: the complementary literal
func dgNegate(c cond) cond { return dgCanon(cond{c.e, !c.pos}) }

// dgBoolToLean translates a boolean expression over integer comparisons (&&, ||, !, < <= > >= == !=) into a Lean Bool term.
func dgBoolToLean(fset *token.FileSet, e ast.Expr, atom func(string) (string, bool)) (string, error) {
	e = stripParens(e)
	switch x := e.(type) {
	case *ast.UnaryExpr:
		if x.Op == token.NOT {
			in, err := dgBoolToLean(fset, x.X, atom)
			if err != nil {
				return "", err
			}
			return "(!" + in + ")", nil
		}
	case *ast.BinaryExpr:
		switch x.Op {
		case token.LAND, token.LOR:
			l, err := dgBoolToLean(fset, x.X, atom)
			if err != nil {
				return "", err
			}
			r, err := dgBoolToLean(fset, x.Y, atom)
			if err != nil {
				return "", err
			}
			return "(" + l + " " + x.Op.String() + " " + r + ")", nil
		case token.LSS, token.LEQ, token.GTR, token.GEQ, token.EQL, token.NEQ:
			l, err := intExprToLeanF(fset, x.X, atom)
			if err != nil {
				return "", err
			}
			r, err := intExprToLeanF(fset, x.Y, atom)
			if err != nil {
				return "", err
			}
			op := map[token.Token]string{token.LSS: "<", token.LEQ: "≤", token.GTR: ">", token.GEQ: "≥", token.EQL: "=", token.NEQ: "≠"}[x.Op]
			return "(decide (" + l + " " + op + " " + r + "))", nil
		}
	}
	return "", fmt.Errorf("unsupported boolean expression shape: %s", flat(fset, e))
}

// dgLitToLean: a literal with its polarity
func dgLitToLean(fset *token.FileSet, c cond, atom func(string) (string, bool)) (string, error) {
	s, err := dgBoolToLean(fset, c.e, atom)
	if err != nil {
		return "", err
	}
	if !c.pos {
		return "(!" + s + ")", nil
	}
	return s, nil
}

// dgMentions: does the printed expression contain a sub-expression the atom function maps to one of the wanted names?
func dgMentions(fset *token.FileSet, e ast.Expr, atom func(string) (string, bool), want ...string) bool {
	hit := false
	ast.Inspect(e, func(n ast.Node) bool {
		x, ok := n.(ast.Expr)
		if !ok || hit {
			return !hit
		}
		switch x.(type) {
		case *ast.Ident, *ast.SelectorExpr, *ast.CallExpr:
		default:
			return true
		}
		if v, ok := atom(flat(fset, stripParens(x))); ok {
			for _, w := range want {
				if v == w {
					hit = true
				}
			}
			return false
		}
		return true
	})
	return hit
}

// dgPureRef: the printed form of a variable / field reference (identifiers, selectors, indexing, & and *), no operators
func dgPureRef(s string) bool {
	if s == "" {
		return false
	}
	for _, c := range s {
		switch {
		case c >= 'a' && c <= 'z', c >= 'A' && c <= 'Z', c >= '0' && c <= '9':
		case c == '_' || c == '.' || c == '(' || c == ')' || c == '[' || c == ']' || c == '&' || c == '*':
		default:
			return false
		}
	}
	return true
}

func dgReturnsNonNilLast(s ast.Stmt) bool {
	r, ok := s.(*ast.ReturnStmt)
	if !ok || len(r.Results) == 0 {
		return false
	}
	id, isId := stripParens(r.Results[len(r.Results)-1]).(*ast.Ident)
	return !(isId && id.Name == "nil")
}

// ---------------------------------------------------------------------------------------------------------------

const hsDir = "smartcontract/service/native/cross_chain/header_sync"

// b = len(<anything>.Bookkeepers), p = len(<anything>.PeerMap)
func hsAtom(s string) (string, bool) {
	if strings.HasPrefix(s, "len(") && strings.HasSuffix(s, ")") && balanced(s[4:len(s)-1]) {
		in := s[4 : len(s)-1]
		switch {
		case strings.HasSuffix(in, ".Bookkeepers"):
			return "b", true
		case strings.HasSuffix(in, ".PeerMap"):
			return "p", true
		}
	}
	return "", false
}

func genHeaderSync(repo string) (string, error) {
	const fnName = "VerifyHeader"
	site := hsDir + ":" + fnName
	fset, funcs, err := pkgFuncs(repo, hsDir)
	if err != nil {
		return "", err
	}
	fn := funcs[fnName]
	if fn == nil {
		return "", fmt.Errorf("%s: func %s not found", hsDir, fnName)
	}
	sites := dgSites(funcs, pkgConsts(repo, hsDir), fn, 3)

	// (1) the count condition: innermost guard of an error return that compares b with p
	type rej struct {
		lean, src string
	}
	var rejects []rej
	for _, st := range sites {
		if !dgReturnsNonNilLast(st.stmt) || len(st.guards) == 0 {
			continue
		}
		g := st.guards[len(st.guards)-1]
		if !(dgMentions(fset, g.e, hsAtom, "b") && dgMentions(fset, g.e, hsAtom, "p")) {
			continue
		}
		// the literals of that guard (a conjunction): all of them must be about the two counts
		lits := dgLiterals([]cond{g})
		lean := ""
		for _, l := range lits {
			one, err := dgLitToLean(fset, l, hsAtom)
			if err != nil {
				return "", fmt.Errorf("%s: count condition: %v", site, err)
			}
			if lean == "" {
				lean = one
			} else {
				lean = "(" + lean + " && " + one + ")"
			}
		}
		src := flat(fset, g.e)
		if !g.pos {
			src = "!(" + src + ")"
		}
		rejects = append(rejects, rej{lean, src})
	}
	if len(rejects) == 0 {
		return "", fmt.Errorf("%s: no error return guarded by a comparison of len(..Bookkeepers) with len(..PeerMap) found (helpers of the package followed)", site)
	}
	for _, r := range rejects[1:] {
		if r.lean != rejects[0].lean {
			return "", fmt.Errorf("%s: several different count conditions reject a header: %s / %s", site, rejects[0].src, r.src)
		}
	}

	// (2) signature.VerifyMultiSignature(hash, <..>.Bookkeepers, m, <..>.SigData)
	type vm struct{ keys, sigs, m string }
	var calls []vm
	for _, st := range sites {
		var err2 error
		ast.Inspect(st.stmt, func(n ast.Node) bool {
			ce, ok := n.(*ast.CallExpr)
			if !ok || !strings.HasSuffix(flat(fset, ce.Fun), "VerifyMultiSignature") || len(ce.Args) != 4 {
				return true
			}
			m, e := intExprToLeanF(fset, st.f.norm(ce.Args[2]), hsAtom)
			if e != nil {
				err2 = e
				return false
			}
			calls = append(calls, vm{flat(fset, st.f.norm(ce.Args[1])), flat(fset, st.f.norm(ce.Args[3])), m})
			return true
		})
		if err2 != nil {
			return "", fmt.Errorf("%s: threshold argument of VerifyMultiSignature: %v", site, err2)
		}
	}
	if len(calls) != 1 {
		return "", fmt.Errorf("%s: expected exactly one call VerifyMultiSignature(data, keys, m, sigs), found %d", site, len(calls))
	}
	if !strings.HasSuffix(calls[0].keys, ".Bookkeepers") {
		return "", fmt.Errorf("%s: VerifyMultiSignature keys argument is %q, expected the header's Bookkeepers", site, calls[0].keys)
	}
	if !strings.HasSuffix(calls[0].sigs, ".SigData") {
		return "", fmt.Errorf("%s: VerifyMultiSignature sigs argument is %q, expected the header's SigData", site, calls[0].sigs)
	}

	var sb strings.Builder
	sb.WriteString("set_option linter.unusedVariables false\nnamespace OntVerif.Gen.HeaderSync\n\n")
	fmt.Fprintf(&sb, "/-- %s — the header is rejected when this holds (b = len(header.Bookkeepers), p = len(consensusPeer.PeerMap)); "+
		"guard of the error return, locals inlined, helper parameters substituted -/\n", site)
	fmt.Fprintf(&sb, "def countRejects (b p : Nat) : Bool := %s\n\n", rejects[0].lean)
	fmt.Fprintf(&sb, "/-- %s — the m handed to VerifyMultiSignature(hash, header.Bookkeepers, m, header.SigData) -/\n", site)
	fmt.Fprintf(&sb, "def multisigM (b p : Nat) : Nat := %s\n\n", calls[0].m)
	sb.WriteString("end OntVerif.Gen.HeaderSync\n")
	return sb.String(), nil
}
