package main

// Fact group "BloomCollect" (property C43): how executeBlock collects the logs the block bloom is computed from, read off
// core/store/ledgerstore/ledger_store.go by shape.
//
// The model (Model/Bloom.lean: allLogs) says: every transaction WITH a receipt contributes all its logs, whatever the receipt
// status. That is the code's `if receipt != nil { allLogs = append(allLogs, receipt.Logs...) }` inside the loop over
// block.Transactions. Emitted:
//   * the append expression,
//   * the conditions of every `if` around it inside the loop (expected: exactly `receipt != nil`, then-branch, no init statement),
//   * every other statement that assigns allLogs (expected: none besides its `var` declaration),
//   * every continue / break / goto inside the loop (expected: none — nothing skips a transaction silently).
// Nothing is guessed: a missing function / loop / append is an error; another shape is emitted as it is and Props/C43.lean stops
// checking.

import (
	"fmt"
	"go/ast"
	"go/token"
	"strings"
)

func init() { Register("BloomCollect", genBloomCollect) }

func genBloomCollect(repo string) (string, error) {
	const rel = "core/store/ledgerstore/ledger_store.go"
	fset, f, err := parseFile(repo, rel)
	if err != nil {
		return "", err
	}
	fn := findFunc(f, "executeBlock")
	if fn == nil || fn.Body == nil {
		return "", fmt.Errorf("%s: func executeBlock not found", rel)
	}
	// the loop over block.Transactions
	var loop *ast.RangeStmt
	ast.Inspect(fn.Body, func(n ast.Node) bool {
		if rs, ok := n.(*ast.RangeStmt); ok && loop == nil && exprString(fset, rs.X) == "block.Transactions" {
			loop = rs
			return false
		}
		return true
	})
	if loop == nil {
		return "", fmt.Errorf("%s:executeBlock: no `range block.Transactions` loop", rel)
	}
	isAllLogs := func(e ast.Expr) bool { id, ok := e.(*ast.Ident); return ok && id.Name == "allLogs" }
	var appendExpr string
	var guards, skips, others []string
	found := 0
	var stack []ast.Node
	ast.Inspect(loop.Body, func(n ast.Node) bool {
		if n == nil {
			stack = stack[:len(stack)-1]
			return true
		}
		switch x := n.(type) {
		case *ast.BranchStmt:
			if x.Tok == token.CONTINUE || x.Tok == token.BREAK || x.Tok == token.GOTO {
				skips = append(skips, exprString(fset, x))
			}
		case *ast.AssignStmt:
			for i, l := range x.Lhs {
				if !isAllLogs(l) {
					continue
				}
				ri := i
				if ri >= len(x.Rhs) {
					ri = len(x.Rhs) - 1
				}
				ce, ok := x.Rhs[ri].(*ast.CallExpr)
				if ok && exprString(fset, ce.Fun) == "append" && len(ce.Args) > 0 && isAllLogs(ce.Args[0]) && found == 0 {
					found++
					appendExpr = exprString(fset, ce)
					// enclosing ifs, innermost last
					for j := 0; j < len(stack); j++ {
						is, ok := stack[j].(*ast.IfStmt)
						if !ok {
							continue
						}
						g := exprString(fset, is.Cond)
						if is.Init != nil {
							g = exprString(fset, is.Init) + "; " + g
						}
						inBody := is.Body.Pos() <= x.Pos() && x.End() <= is.Body.End()
						if !inBody {
							g = "else of: " + g
						}
						guards = append(guards, g)
					}
				} else {
					others = append(others, exprString(fset, x))
				}
			}
		}
		stack = append(stack, n)
		return true
	})
	if found == 0 {
		return "", fmt.Errorf("%s:executeBlock: no `allLogs = append(allLogs, …)` inside the transaction loop", rel)
	}
	// assignments to allLogs outside the loop
	ast.Inspect(fn.Body, func(n ast.Node) bool {
		if n == ast.Node(loop) {
			return false
		}
		if as, ok := n.(*ast.AssignStmt); ok {
			for _, l := range as.Lhs {
				if isAllLogs(l) {
					others = append(others, exprString(fset, as))
				}
			}
		}
		return true
	})
	list := func(xs []string) string {
		var it []string
		for _, x := range xs {
			it = append(it, baStr(x))
		}
		return "[" + strings.Join(it, ",\n   ") + "]"
	}
	var sb strings.Builder
	sb.WriteString("namespace OntVerif.Gen.BloomCollect\n\n")
	fmt.Fprintf(&sb, "/-- %s:executeBlock — the statement that collects the logs of a transaction for the block bloom -/\n", rel)
	fmt.Fprintf(&sb, "def collectAppend : String := %s\n\n", baStr(appendExpr))
	sb.WriteString("/-- conditions of every `if` around it inside the loop over block.Transactions, outermost first -/\n")
	fmt.Fprintf(&sb, "def collectGuards : List String :=\n  %s\n\n", list(guards))
	sb.WriteString("/-- every other assignment to allLogs in executeBlock -/\n")
	fmt.Fprintf(&sb, "def collectOtherWrites : List String :=\n  %s\n\n", list(others))
	sb.WriteString("/-- continue / break / goto statements inside the loop over block.Transactions -/\n")
	fmt.Fprintf(&sb, "def loopSkips : List String :=\n  %s\n\n", list(skips))
	sb.WriteString("end OntVerif.Gen.BloomCollect\n")
	return sb.String(), nil
}
