package main

import (
	"fmt"
	"go/ast"
	"go/token"
	"sort"
	"strings"
)

// Fee arithmetic of invoke transactions (C05), read from core/store/ledgerstore (whole package) and neovm/config.go:
//
//   - constants MIN_TRANSACTION_GAS, PER_UNIT_CODE_LEN, UINT_INVOKE_CODE_LEN_GAS;
//   - calcGasByCodeLen and tuneGasFeeByHeight translated into Lean `UInt64` code (Go's wrapping + - *, truncating /; a
//     division whose divisor is not a literal returns `none` = Go panic, at the program point where Go evaluates it);
//   - the order of fee effects of HandleInvokeTransaction: every call of tuneGasFeeByHeight / costInvalidGas /
//     chargeCostGas reachable from it (also through same-package helpers), with the ROLE of its arguments.
//
// Nothing is located by the names of locals. A function is read as a DECISION LIST (guardsOf): every `return e` with the
// conditions under which it is reached, in source order — so nested if/else, guard clauses with early returns and tag-less
// switches give the same fact; locals are inlined (inlineLocals); parameters are renamed by position; a call of a
// same-package helper whose body is itself a pure decision list over its parameters (minUint64 …) or of the builtin
// min/max is inlined; `height > tuneHeight` in any orientation / polarity becomes the Lean parameter `tuned`.
// What is not understood is an error naming the site, never a guess.
func init() { Register("Gas", genGas) }

const gasPkg = "core/store/ledgerstore"
const neovmCfg = "smartcontract/service/neovm/config.go"

// ---------------------------------------------------------------------------------------------------------------------
// expression translation

type gasTr struct {
	fset  *token.FileSet
	funcs map[string]*ast.FuncDecl
	site  string
	u64   map[string]string // Go identifier -> Lean term (UInt64)
	nat   map[string]string // Go identifier / printed expression -> Lean term (Nat), for int expressions under uint64(..)
	flag  func(e ast.Expr) (lean string, ok bool) // comparisons that become a boolean parameter
	depth int
}

func (t *gasTr) errf(format string, a ...interface{}) error {
	return fmt.Errorf("%s: %s", t.site, fmt.Sprintf(format, a...))
}

// val translates a uint64-valued expression; divisors collects the Lean text of every non-literal divisor.
func (t *gasTr) val(e ast.Expr, divisors *[]string) (string, error) {
	switch x := e.(type) {
	case *ast.ParenExpr:
		return t.val(x.X, divisors)
	case *ast.Ident:
		if v, ok := t.u64[x.Name]; ok {
			return v, nil
		}
		return "", t.errf("identifier `%s` is neither a parameter nor a simply-defined local", x.Name)
	case *ast.BasicLit:
		if x.Kind == token.INT {
			return x.Value, nil
		}
	case *ast.SelectorExpr:
		if flat(t.fset, x) == "math.MaxUint64" {
			return "18446744073709551615", nil
		}
	case *ast.BinaryExpr:
		switch x.Op {
		case token.ADD, token.SUB, token.MUL, token.QUO:
			l, err := t.val(x.X, divisors)
			if err != nil {
				return "", err
			}
			r, err := t.val(x.Y, divisors)
			if err != nil {
				return "", err
			}
			if x.Op == token.QUO {
				if _, lit := stripParens(x.Y).(*ast.BasicLit); !lit {
					*divisors = append(*divisors, r)
				}
			}
			return "(" + l + " " + x.Op.String() + " " + r + ")", nil
		}
	case *ast.CallExpr:
		if id, ok := x.Fun.(*ast.Ident); ok {
			if id.Name == "uint64" && len(x.Args) == 1 { // conversion of a non-negative int expression
				in, err := intExprToLean(t.fset, stripParens(x.Args[0]), t.nat)
				if err != nil {
					return "", t.errf("%v", err)
				}
				return "(UInt64.ofNat " + in + ")", nil
			}
			if (id.Name == "min" || id.Name == "max") && len(x.Args) == 2 && t.funcs[id.Name] == nil { // builtin
				a, err := t.val(x.Args[0], divisors)
				if err != nil {
					return "", err
				}
				b, err := t.val(x.Args[1], divisors)
				if err != nil {
					return "", err
				}
				if id.Name == "min" {
					return "(if " + b + " < " + a + " then " + b + " else " + a + ")", nil
				}
				return "(if " + a + " < " + b + " then " + b + " else " + a + ")", nil
			}
		}
		if fd := calleeOf(t.funcs, x); fd != nil {
			return t.inlineHelper(fd, x.Args, divisors)
		}
	}
	return "", t.errf("unsupported expression shape: %s", flat(t.fset, e))
}

// inlineHelper: a same-package function all of whose parameters and whose single result are uint64 and whose body is a
// division-free decision list over its parameters is replaced by that decision list applied to the arguments.
func (t *gasTr) inlineHelper(fd *ast.FuncDecl, args []ast.Expr, divisors *[]string) (string, error) {
	if t.depth > 3 {
		return "", t.errf("helper nesting too deep at %s", fd.Name.Name)
	}
	var params []string
	for _, fl := range fd.Type.Params.List {
		if flat(t.fset, fl.Type) != "uint64" {
			return "", t.errf("helper %s: parameter type %s is not uint64", fd.Name.Name, flat(t.fset, fl.Type))
		}
		for _, n := range fl.Names {
			params = append(params, n.Name)
		}
	}
	if fd.Type.Results == nil || len(fd.Type.Results.List) != 1 || flat(t.fset, fd.Type.Results.List[0].Type) != "uint64" || len(params) != len(args) {
		return "", t.errf("helper %s is not of the form func(uint64…) uint64", fd.Name.Name)
	}
	sub := &gasTr{fset: t.fset, funcs: t.funcs, site: t.site + " -> " + fd.Name.Name, u64: map[string]string{}, nat: map[string]string{}, depth: t.depth + 1}
	for i, p := range params {
		a, err := t.val(args[i], divisors)
		if err != nil {
			return "", err
		}
		sub.u64[p] = a
	}
	entries, err := sub.decisionList(fd)
	if err != nil {
		return "", err
	}
	for _, en := range entries {
		if en.check || len(en.divs) > 0 {
			return "", sub.errf("helper with a division is not inlined")
		}
	}
	return "(" + renderPure(entries) + ")", nil
}

// prop translates a condition.
func (t *gasTr) prop(e ast.Expr, divisors *[]string) (string, error) {
	e = stripParens(e)
	if t.flag != nil {
		if s, ok := t.flag(e); ok {
			return s, nil
		}
	}
	switch x := e.(type) {
	case *ast.UnaryExpr:
		if x.Op == token.NOT {
			in, err := t.prop(x.X, divisors)
			if err != nil {
				return "", err
			}
			return "(¬ " + in + ")", nil
		}
	case *ast.BinaryExpr:
		switch x.Op {
		case token.LAND, token.LOR:
			l, err := t.prop(x.X, divisors)
			if err != nil {
				return "", err
			}
			r, err := t.prop(x.Y, divisors)
			if err != nil {
				return "", err
			}
			return "(" + l + map[token.Token]string{token.LAND: " ∧ ", token.LOR: " ∨ "}[x.Op] + r + ")", nil
		case token.GTR, token.LSS, token.GEQ, token.LEQ, token.EQL, token.NEQ:
			l, err := t.val(x.X, divisors)
			if err != nil {
				return "", err
			}
			r, err := t.val(x.Y, divisors)
			if err != nil {
				return "", err
			}
			op := map[token.Token]string{token.GTR: ">", token.LSS: "<", token.GEQ: "≥", token.LEQ: "≤", token.EQL: "=", token.NEQ: "≠"}[x.Op]
			return "(" + l + " " + op + " " + r + ")", nil
		}
	}
	return "", t.errf("unsupported condition shape: %s", flat(t.fset, e))
}

// ---------------------------------------------------------------------------------------------------------------------
// decision lists

type dlEntry struct {
	guards []string // conjunction; empty = always
	check  bool     // true: a definition whose right-hand side divides (only the zero test matters here)
	divs   []string
	value  string
}

// decisionList reads fd's body: every `return e` (and every definition that divides) with its guards, in source order.
func (t *gasTr) decisionList(fd *ast.FuncDecl) ([]dlEntry, error) {
	defs := singleDefs(fd)
	var out []dlEntry
	var firstErr error
	fail := func(err error) {
		if firstErr == nil {
			firstErr = err
		}
	}
	// a condition that divides (directly or through an inlined local) is evaluated before the statement it guards: its
	// zero test is put in front, under the conditions that precede it
	emitted := map[string]bool{}
	guardStrings := func(gs []cond, _ *[]string) []string {
		var ss []string
		for _, g := range gs {
			var ds []string
			p, err := t.prop(inlineLocals(g.e, defs), &ds)
			if err != nil {
				fail(err)
				return nil
			}
			if len(ds) > 0 {
				key := conj(ss) + "|" + strings.Join(ds, ",")
				if !emitted[key] {
					emitted[key] = true
					out = append(out, dlEntry{guards: append([]string{}, ss...), check: true, divs: ds})
				}
			}
			if !g.pos {
				p = "(¬ " + p + ")"
			}
			ss = append(ss, p)
		}
		return ss
	}
	guardsOf(fd.Body.List, nil, func(s ast.Stmt, gs []cond) {
		switch x := s.(type) {
		case *ast.ReturnStmt:
			if len(x.Results) != 1 {
				fail(t.errf("return with %d results", len(x.Results)))
				return
			}
			var gd, vd []string
			g := guardStrings(gs, &gd)
			v, err := t.val(inlineLocals(x.Results[0], defs), &vd)
			if err != nil {
				fail(err)
				return
			}
			out = append(out, dlEntry{guards: g, divs: vd, value: v})
		case *ast.AssignStmt:
			// a definition is inlined where it is used; but Go evaluates its right-hand side HERE, so a division in
			// it panics here whatever happens later: keep the zero test at this point of the list
			if x.Tok != token.DEFINE || len(x.Lhs) != 1 || len(x.Rhs) != 1 {
				fail(t.errf("unsupported assignment: %s", flat(t.fset, x)))
				return
			}
			if t.flag != nil && t.isFlagSource(x.Rhs[0]) {
				return
			}
			id, ok := x.Lhs[0].(*ast.Ident)
			if !ok || defs.resolve(&ast.Ident{Name: id.Name, NamePos: x.End()}) == nil {
				fail(t.errf("local `%s` is re-assigned or not simply defined: %s", flat(t.fset, x.Lhs[0]), flat(t.fset, x)))
				return
			}
			var gd, vd []string
			g := guardStrings(gs, &gd)
			if _, err := t.val(inlineLocals(x.Rhs[0], defs), &vd); err != nil {
				fail(err)
				return
			}
			if key := conj(g) + "|" + strings.Join(vd, ","); len(vd) > 0 && !emitted[key] {
				emitted[key] = true
				out = append(out, dlEntry{guards: g, check: true, divs: vd})
			}
		case *ast.DeclStmt, *ast.EmptyStmt:
		default:
			fail(t.errf("unsupported statement: %s", flat(t.fset, s)))
		}
	})
	if firstErr != nil {
		return nil, firstErr
	}
	if len(out) == 0 || out[len(out)-1].check {
		return nil, t.errf("no final return found")
	}
	return out, nil
}

func (t *gasTr) isFlagSource(e ast.Expr) bool { return strings.Contains(flat(t.fset, e), "GetGasRoundTuneHeight(") }

func conj(gs []string) string {
	if len(gs) == 0 {
		return "True"
	}
	return strings.Join(gs, " ∧ ")
}

// renderPure: division-free decision list as a Lean expression; the last return closes the list (Go guarantees that
// every path returns).
func renderPure(es []dlEntry) string {
	s := es[len(es)-1].value
	for i := len(es) - 2; i >= 0; i-- {
		s = "if " + conj(es[i].guards) + " then " + es[i].value + " else " + s
	}
	return s
}

// renderOpt: decision list as `Option UInt64` (none = integer divide by zero), one entry per line.
func renderOpt(es []dlEntry, ind string) string {
	zero := func(ds []string) string {
		var z []string
		for _, d := range ds {
			z = append(z, d+" = 0")
		}
		return strings.Join(z, " ∨ ")
	}
	val := func(e dlEntry) string {
		if len(e.divs) > 0 {
			return "(if " + zero(e.divs) + " then none else some " + e.value + ")"
		}
		return "some " + e.value
	}
	var sb strings.Builder
	for i, e := range es {
		last := i == len(es)-1
		switch {
		case e.check:
			fmt.Fprintf(&sb, "%sif (%s) ∧ (%s) then none else\n", ind, conj(e.guards), zero(e.divs))
		case last:
			fmt.Fprintf(&sb, "%s%s", ind, val(e))
		default:
			fmt.Fprintf(&sb, "%sif %s then %s else\n", ind, conj(e.guards), val(e))
		}
	}
	return sb.String()
}

// ---------------------------------------------------------------------------------------------------------------------
// fee effects of HandleInvokeTransaction

// canonMul: a product of uint64 factors printed with sorted factors (A*B ≡ B*A); fields of the transaction parameter are
// printed as Tx.<Field> whatever the parameter is called.
func canonTerm(fset *token.FileSet, e ast.Expr, txParam string) string {
	e = stripParens(e)
	if be, ok := e.(*ast.BinaryExpr); ok && be.Op == token.MUL {
		var fs []string
		var collect func(x ast.Expr)
		collect = func(x ast.Expr) {
			x = stripParens(x)
			if b, ok := x.(*ast.BinaryExpr); ok && b.Op == token.MUL {
				collect(b.X)
				collect(b.Y)
				return
			}
			fs = append(fs, canonTerm(fset, x, txParam))
		}
		collect(be)
		sort.Strings(fs)
		return "mul(" + strings.Join(fs, ",") + ")"
	}
	if se, ok := e.(*ast.SelectorExpr); ok {
		if id, ok := se.X.(*ast.Ident); ok && id.Name == txParam && txParam != "" {
			return "Tx." + se.Sel.Name
		}
	}
	return flat(fset, e)
}

type feeWalker struct {
	fset    *token.FileSet
	funcs   map[string]*ast.FuncDecl
	effects []string
	err     error
}

// paramOfType returns the name of the (first) parameter whose printed type contains typ.
func paramOfType(fset *token.FileSet, fd *ast.FuncDecl, typ string) string {
	for _, fl := range fd.Type.Params.List {
		if strings.Contains(flat(fset, fl.Type), typ) {
			for _, n := range fl.Names {
				return n.Name
			}
		}
	}
	return ""
}

// walk visits fd in source order; env maps a parameter of fd to the role of the argument it was called with.
//
// Calls are EVALUATED (evalCall): arguments first, left to right — so `failWithFee(tuneFee(fee, balance), err)` is a tune
// followed by a charge — and a call yields the role of its result (`tuned`, `old`, `new`). A call of a locally defined
// closure (`name := func(params) {…}`, a simple single definition) is followed like a same-package helper: its body is
// walked with parameter -> argument-role substitution, its free variables are those of the enclosing function, looked
// up at the position of the call. if / switch / early-return forms need nothing special: effects are listed in source order.
func (w *feeWalker) walk(fd *ast.FuncDecl, env map[string]string, depth int) {
	defs := singleDefs(fd)
	txParam := paramOfType(w.fset, fd, "types.Transaction")
	type asg struct {
		pos  token.Pos
		name string
		role string
	}
	var asgs []asg
	balanceReads := 0
	closureDepth := 0
	var evalCall func(ce *ast.CallExpr, at token.Pos, penv map[string]string) string
	var descend func(n ast.Node, at token.Pos, penv map[string]string, override bool)

	roleOf := func(e ast.Expr, at token.Pos, penv map[string]string) string {
		e = stripParens(e)
		if ce, ok := e.(*ast.CallExpr); ok {
			if r := evalCall(ce, at, penv); r != "" {
				return r
			}
			return canonTerm(w.fset, ce, txParam)
		}
		if id, ok := e.(*ast.Ident); ok {
			if r, ok := penv[id.Name]; ok { // parameter of the closure being walked
				return r
			}
			role := ""
			for _, a := range asgs {
				if a.name == id.Name && a.pos < at {
					role = a.role
				}
			}
			if role != "" {
				return role
			}
			if r, ok := env[id.Name]; ok {
				return r
			}
		}
		return canonTerm(w.fset, inlineLocals(e, defs), txParam)
	}
	bind := func(lhs []ast.Expr, at token.Pos, role string) {
		if len(lhs) > 0 && role != "" {
			if id, ok := lhs[0].(*ast.Ident); ok && id.Name != "_" {
				asgs = append(asgs, asg{at, id.Name, role})
			}
		}
	}
	closureOf := func(ce *ast.CallExpr) *ast.FuncLit {
		id, ok := ce.Fun.(*ast.Ident)
		if !ok {
			return nil
		}
		if d := defs.resolve(id); d != nil {
			if fl, ok := stripParens(d).(*ast.FuncLit); ok {
				return fl
			}
		}
		return nil
	}
	evalCall = func(ce *ast.CallExpr, at token.Pos, penv map[string]string) string {
		if w.err != nil {
			return ""
		}
		name := ""
		switch f := ce.Fun.(type) {
		case *ast.Ident:
			name = f.Name
		case *ast.SelectorExpr:
			name = f.Sel.Name
		}
		// roles of the arguments listed in `want` (evaluated in order with the others, which are only searched for calls)
		argRoles := func(want map[int]bool) map[int]string {
			out := map[int]string{}
			for i, a := range ce.Args {
				if want == nil || want[i] {
					out[i] = roleOf(a, at, penv)
				} else {
					descend(a, at, penv, true)
				}
			}
			return out
		}
		switch name {
		case "getBalanceFromNative":
			argRoles(map[int]bool{})
			if depth == 0 && closureDepth == 0 { // only the reads of HandleInvokeTransaction itself define old / new
				k := balanceReads
				if k > 2 {
					k = 2
				}
				balanceReads++
				return []string{"old", "new", "balance#3"}[k]
			}
			return ""
		case "tuneGasFeeByHeight":
			if len(ce.Args) != 4 {
				w.err = fmt.Errorf("%s: tuneGasFeeByHeight called with %d arguments", fd.Name.Name, len(ce.Args))
				return ""
			}
			r := argRoles(map[int]bool{2: true, 3: true})
			w.effects = append(w.effects, fmt.Sprintf("tune(round=%s,balance=%s)", r[2], r[3]))
			return "tuned"
		case "costInvalidGas", "chargeCostGas":
			if len(ce.Args) < 2 {
				w.err = fmt.Errorf("%s: %s called with %d arguments", fd.Name.Name, name, len(ce.Args))
				return ""
			}
			r := argRoles(map[int]bool{1: true})
			w.effects = append(w.effects, fmt.Sprintf("%s(%s)", name, r[1]))
			return ""
		}
		if fl := closureOf(ce); fl != nil {
			if closureDepth >= 3 {
				w.err = fmt.Errorf("%s: closures nested too deep at %s", fd.Name.Name, name)
				return ""
			}
			r := argRoles(nil)
			sub := map[string]string{}
			i := 0
			for _, fld := range fl.Type.Params.List {
				for _, n := range fld.Names {
					if v, ok := r[i]; ok {
						sub[n.Name] = v
					}
					i++
				}
			}
			before := len(w.effects)
			closureDepth++
			descend(fl.Body, at, sub, true)
			closureDepth--
			for _, e := range w.effects[before:] {
				if strings.HasPrefix(e, "tune(") {
					return "tuned" // a closure / helper that tunes hands the tuned fee back
				}
			}
			return ""
		}
		callee := calleeOf(w.funcs, ce)
		if callee == nil || depth >= 3 || !w.reaches(callee, 3) {
			argRoles(map[int]bool{})
			return ""
		}
		r := argRoles(nil)
		sub := map[string]string{}
		i := 0
		for _, fld := range callee.Type.Params.List {
			for _, n := range fld.Names {
				if v, ok := r[i]; ok {
					sub[n.Name] = v
				}
				i++
			}
		}
		before := len(w.effects)
		w.walk(callee, sub, depth+1)
		for _, e := range w.effects[before:] {
			if strings.HasPrefix(e, "tune(") {
				return "tuned"
			}
		}
		return ""
	}
	// descend walks a node in source order; `override`: positions inside (a closure body, an argument) are looked up as `at`
	descend = func(n ast.Node, at token.Pos, penv map[string]string, override bool) {
		ast.Inspect(n, func(m ast.Node) bool {
			if w.err != nil || m == nil {
				return false
			}
			pos := func(p token.Pos) token.Pos {
				if override {
					return at
				}
				return p
			}
			switch x := m.(type) {
			case *ast.FuncLit:
				return false // a closure acts where it is called
			case *ast.AssignStmt:
				if len(x.Rhs) == 1 {
					if ce, ok := stripParens(x.Rhs[0]).(*ast.CallExpr); ok {
						role := evalCall(ce, pos(x.Pos()), penv)
						bind(x.Lhs, pos(x.End()), role)
						return false
					}
				}
			case *ast.CallExpr:
				evalCall(x, pos(x.Pos()), penv)
				return false
			}
			return true
		})
	}
	descend(fd.Body, token.NoPos, map[string]string{}, false)
}

// reaches: does fd (transitively, same package) call one of the fee functions?
func (w *feeWalker) reaches(fd *ast.FuncDecl, depth int) bool {
	found := false
	walkDeep(w.funcs, fd, depth, func(n ast.Node, _ *ast.FuncDecl) bool {
		if ce, ok := n.(*ast.CallExpr); ok {
			if id, ok := ce.Fun.(*ast.Ident); ok && (id.Name == "tuneGasFeeByHeight" || id.Name == "costInvalidGas" || id.Name == "chargeCostGas") {
				found = true
			}
		}
		return true
	})
	return found
}

// ---------------------------------------------------------------------------------------------------------------------

func constValue(repo, file, name string) (string, error) {
	fset, f, err := parseFile(repo, file)
	if err != nil {
		return "", err
	}
	found := ""
	ast.Inspect(f, func(n ast.Node) bool {
		vs, ok := n.(*ast.ValueSpec)
		if !ok {
			return true
		}
		for i, id := range vs.Names {
			if id.Name == name && i < len(vs.Values) {
				if bl, ok := vs.Values[i].(*ast.BasicLit); ok && bl.Kind == token.INT {
					found = bl.Value
				} else {
					found = "?" + exprString(fset, vs.Values[i])
				}
			}
		}
		return true
	})
	if found == "" {
		return "", fmt.Errorf("%s: constant %s not found", file, name)
	}
	if strings.HasPrefix(found, "?") {
		return "", fmt.Errorf("%s: constant %s is not an integer literal: %s", file, name, found[1:])
	}
	return found, nil
}

// gasParamNames returns the parameter names of fd after checking their printed types.
func gasParamNames(fset *token.FileSet, fd *ast.FuncDecl, types ...string) ([]string, error) {
	var names, got []string
	for _, fl := range fd.Type.Params.List {
		for _, n := range fl.Names {
			names = append(names, n.Name)
			got = append(got, flat(fset, fl.Type))
		}
	}
	if strings.Join(got, ",") != strings.Join(types, ",") {
		return nil, fmt.Errorf("%s: parameter types (%s), expected (%s)", fd.Name.Name, strings.Join(got, ","), strings.Join(types, ","))
	}
	return names, nil
}

func genGas(repo string) (string, error) {
	var sb strings.Builder
	sb.WriteString("namespace OntVerif.Gen.Gas\n\n")
	for _, c := range []struct{ lean, name, ty string }{
		{"minTransactionGas", "MIN_TRANSACTION_GAS", "UInt64"},
		{"perUnitCodeLen", "PER_UNIT_CODE_LEN", "Nat"},
		{"uintInvokeCodeLenGas", "UINT_INVOKE_CODE_LEN_GAS", "UInt64"},
	} {
		v, err := constValue(repo, neovmCfg, c.name)
		if err != nil {
			return "", err
		}
		fmt.Fprintf(&sb, "/-- %s: `%s` -/\ndef %s : %s := %s\n\n", neovmCfg, c.name, c.lean, c.ty, v)
	}
	fset, funcs, err := pkgFuncs(repo, gasPkg)
	if err != nil {
		return "", err
	}

	// calcGasByCodeLen(codeLen int, codeGas uint64) uint64
	fn := funcs["calcGasByCodeLen"]
	if fn == nil {
		return "", fmt.Errorf("%s: calcGasByCodeLen not found", gasPkg)
	}
	ps, err := gasParamNames(fset, fn, "int", "uint64")
	if err != nil {
		return "", fmt.Errorf("%s: %v", gasPkg, err)
	}
	ct := &gasTr{fset: fset, funcs: funcs, site: gasPkg + ":calcGasByCodeLen", u64: map[string]string{ps[1]: "codeGas"},
		nat: map[string]string{ps[0]: "codeLen", "neovm.PER_UNIT_CODE_LEN": "perUnitCodeLen"}}
	ces, err := ct.decisionList(fn)
	if err != nil {
		return "", err
	}
	for _, e := range ces {
		if e.check || len(e.divs) > 0 {
			return "", fmt.Errorf("%s:calcGasByCodeLen: unexpected uint64 division", gasPkg)
		}
	}
	fmt.Fprintf(&sb, "/-- %s:calcGasByCodeLen (the int quotient is non-negative; the conversion truncates to 64 bits) -/\n"+
		"def calcGasByCodeLen (codeLen : Nat) (codeGas : UInt64) : UInt64 := %s\n\n", gasPkg, renderPure(ces))

	// tuneGasFeeByHeight(height uint32, gas, gasRound, curBalance uint64) uint64
	fn = funcs["tuneGasFeeByHeight"]
	if fn == nil {
		return "", fmt.Errorf("%s: tuneGasFeeByHeight not found", gasPkg)
	}
	ps, err = gasParamNames(fset, fn, "uint32", "uint64", "uint64", "uint64")
	if err != nil {
		return "", fmt.Errorf("%s: %v", gasPkg, err)
	}
	tt := &gasTr{fset: fset, funcs: funcs, site: gasPkg + ":tuneGasFeeByHeight",
		u64: map[string]string{ps[1]: "gas", ps[2]: "gasRound", ps[3]: "curBalance"}, nat: map[string]string{}}
	heightParam := ps[0]
	tt.flag = func(e ast.Expr) (string, bool) {
		be, ok := e.(*ast.BinaryExpr)
		if !ok {
			return "", false
		}
		isH := func(x ast.Expr) bool { id, ok := stripParens(x).(*ast.Ident); return ok && id.Name == heightParam }
		isT := func(x ast.Expr) bool { return tt.isFlagSource(x) }
		// `height > tuneHeight` (the parameter `tuned`) in any orientation; its negation `height <= tuneHeight`
		switch {
		case isH(be.X) && isT(be.Y) && be.Op == token.GTR, isT(be.X) && isH(be.Y) && be.Op == token.LSS:
			return "(tuned = true)", true
		case isH(be.X) && isT(be.Y) && be.Op == token.LEQ, isT(be.X) && isH(be.Y) && be.Op == token.GEQ:
			return "(tuned = false)", true
		}
		return "", false
	}
	tes, err := tt.decisionList(fn)
	if err != nil {
		return "", err
	}
	fmt.Fprintf(&sb, "/-- %s:tuneGasFeeByHeight as a decision list (every `return` with the conditions under which it is reached, in source order);\n"+
		"`tuned` = `height > GetGasRoundTuneHeight(networkId)`; `none` = integer divide by zero -/\n"+
		"def tuneGasFeeByHeight (tuned : Bool) (gas gasRound curBalance : UInt64) : Option UInt64 :=\n%s\n\n", gasPkg, renderOpt(tes, "  "))

	// fee effects of HandleInvokeTransaction
	fn = funcs["HandleInvokeTransaction"]
	if fn == nil {
		return "", fmt.Errorf("%s: HandleInvokeTransaction not found", gasPkg)
	}
	fw := &feeWalker{fset: fset, funcs: funcs}
	fw.walk(fn, map[string]string{}, 0)
	if fw.err != nil {
		return "", fmt.Errorf("%s:HandleInvokeTransaction: %v", gasPkg, fw.err)
	}
	if len(fw.effects) == 0 {
		return "", fmt.Errorf("%s:HandleInvokeTransaction: no fee effect found", gasPkg)
	}
	sb.WriteString("/-- " + gasPkg + ":HandleInvokeTransaction — every call of tuneGasFeeByHeight / costInvalidGas / chargeCostGas reachable from it\n" +
		"(same-package helpers followed), in source order, with the role of the arguments: `old` / `new` = the first / second\n" +
		"balance read of the function, `tuned` = the result of the preceding tuneGasFeeByHeight, products with sorted factors -/\n" +
		"def feeEffects : List String := [\n")
	for i, e := range fw.effects {
		sep := ","
		if i == len(fw.effects)-1 {
			sep = ""
		}
		fmt.Fprintf(&sb, "  %q%s\n", e, sep)
	}
	sb.WriteString("]\n\nend OntVerif.Gen.Gas\n")
	return sb.String(), nil
}
