package main

import (
	"fmt"
	"go/ast"
	"go/token"
	"strings"
)

// Fee arithmetic of invoke transactions (C05): the loop-free uint64 helpers of core/store/ledgerstore/tx_handler.go
// and the constants they use, translated statement by statement into Lean `UInt64` code (Go's wrapping + - *,
// truncating /; a division whose divisor is not a literal is guarded: the function returns `none` = Go panic).
//
// Statement shapes accepted (anything else is an error naming the site):
//   x := e | if c { … return … } [else { … }] | return e
// where every block that is translated ends in a return. Expressions: identifiers that are parameters or locals,
// integer literals, math.MaxUint64, + - * /, comparisons, parentheses.
func init() { Register("Gas", genGas) }

const gasFile = "core/store/ledgerstore/tx_handler.go"
const neovmCfg = "smartcontract/service/neovm/config.go"

type u64tr struct {
	fset   *token.FileSet
	idents map[string]bool // known UInt64 variables
}

func (t *u64tr) expr(e ast.Expr, divisors *[]string) (string, error) {
	switch x := e.(type) {
	case *ast.ParenExpr:
		in, err := t.expr(x.X, divisors)
		if err != nil {
			return "", err
		}
		return "(" + in + ")", nil
	case *ast.Ident:
		if t.idents[x.Name] {
			return x.Name, nil
		}
	case *ast.BasicLit:
		if x.Kind == token.INT {
			return x.Value, nil
		}
	case *ast.SelectorExpr:
		if exprString(t.fset, x) == "math.MaxUint64" {
			return "18446744073709551615", nil
		}
	case *ast.BinaryExpr:
		l, err := t.expr(x.X, divisors)
		if err != nil {
			return "", err
		}
		r, err := t.expr(x.Y, divisors)
		if err != nil {
			return "", err
		}
		switch x.Op {
		case token.ADD, token.SUB, token.MUL:
			return "(" + l + " " + x.Op.String() + " " + r + ")", nil
		case token.QUO:
			if _, lit := x.Y.(*ast.BasicLit); !lit {
				*divisors = append(*divisors, r)
			}
			return "(" + l + " / " + r + ")", nil
		case token.GTR, token.LSS, token.GEQ, token.LEQ:
			return "(" + l + " " + x.Op.String() + " " + r + ")", nil
		case token.EQL:
			return "(" + l + " = " + r + ")", nil
		case token.NEQ:
			return "(" + l + " ≠ " + r + ")", nil
		}
	}
	return "", fmt.Errorf("unsupported expression shape: %s", exprString(t.fset, e))
}

// guard prefixes `body` (already indented by ind) with one zero test per non-literal divisor
func guard(ind string, divs []string, body string) string {
	for _, d := range divs {
		body = ind + "if " + d + " = 0 then none else\n" + body
	}
	return body
}

// stmts translates a statement list that must end by returning on every path; `rest` is appended when a block falls through.
func (t *u64tr) stmts(list []ast.Stmt, ind string) (string, error) {
	if len(list) == 0 {
		return "", fmt.Errorf("statement list falls through without a return")
	}
	s, rest := list[0], list[1:]
	switch x := s.(type) {
	case *ast.ReturnStmt:
		if len(x.Results) != 1 {
			return "", fmt.Errorf("return with %d results", len(x.Results))
		}
		var divs []string
		e, err := t.expr(x.Results[0], &divs)
		if err != nil {
			return "", err
		}
		return guard(ind, divs, ind+"some "+e), nil
	case *ast.AssignStmt:
		if len(x.Lhs) != 1 || len(x.Rhs) != 1 || x.Tok != token.DEFINE {
			return "", fmt.Errorf("unsupported assignment: %s", exprString(t.fset, x))
		}
		id, ok := x.Lhs[0].(*ast.Ident)
		if !ok {
			return "", fmt.Errorf("unsupported assignment target: %s", exprString(t.fset, x))
		}
		var divs []string
		e, err := t.expr(x.Rhs[0], &divs)
		if err != nil {
			return "", err
		}
		t.idents[id.Name] = true
		tail, err := t.stmts(rest, ind)
		if err != nil {
			return "", err
		}
		return guard(ind, divs, ind+"let "+id.Name+" := "+e+"\n"+tail), nil
	case *ast.IfStmt:
		if x.Init != nil {
			return "", fmt.Errorf("if with init statement: %s", exprString(t.fset, x.Cond))
		}
		var divs []string
		c, err := t.expr(x.Cond, &divs)
		if err != nil {
			return "", err
		}
		thenS, err := t.stmts(x.Body.List, ind+"  ")
		if err != nil {
			return "", fmt.Errorf("in `if %s`: %v", exprString(t.fset, x.Cond), err)
		}
		var elseS string
		if x.Else != nil {
			eb, ok := x.Else.(*ast.BlockStmt)
			if !ok {
				return "", fmt.Errorf("else-if chains are not supported")
			}
			if len(rest) != 0 {
				return "", fmt.Errorf("statements after if/else")
			}
			elseS, err = t.stmts(eb.List, ind+"  ")
		} else {
			elseS, err = t.stmts(rest, ind+"  ")
		}
		if err != nil {
			return "", err
		}
		return guard(ind, divs, ind+"if "+c+" then\n"+thenS+"\n"+ind+"else\n"+elseS), nil
	}
	return "", fmt.Errorf("unsupported statement: %s", exprString(t.fset, s))
}

func constValue(repo, file, name string) (string, error) {
	fset, f, err := parseFile(repo, file)
	if err != nil {
		return "", err
	}
	found := ""
	ast.Inspect(f, func(n ast.Node) bool {
		vs, ok := n.(*ast.ValueSpec)
		if !ok {
			return true
		}
		for i, id := range vs.Names {
			if id.Name == name && i < len(vs.Values) {
				if bl, ok := vs.Values[i].(*ast.BasicLit); ok && bl.Kind == token.INT {
					found = bl.Value
				} else {
					found = "?" + exprString(fset, vs.Values[i])
				}
			}
		}
		return true
	})
	if found == "" {
		return "", fmt.Errorf("%s: constant %s not found", file, name)
	}
	if strings.HasPrefix(found, "?") {
		return "", fmt.Errorf("%s: constant %s is not an integer literal: %s", file, name, found[1:])
	}
	return found, nil
}

func genGas(repo string) (string, error) {
	var sb strings.Builder
	sb.WriteString("namespace OntVerif.Gen.Gas\n\n")
	for _, c := range []struct{ lean, name, ty string }{
		{"minTransactionGas", "MIN_TRANSACTION_GAS", "UInt64"},
		{"perUnitCodeLen", "PER_UNIT_CODE_LEN", "Nat"},
		{"uintInvokeCodeLenGas", "UINT_INVOKE_CODE_LEN_GAS", "UInt64"},
	} {
		v, err := constValue(repo, neovmCfg, c.name)
		if err != nil {
			return "", err
		}
		fmt.Fprintf(&sb, "/-- %s: `%s` -/\ndef %s : %s := %s\n\n", neovmCfg, c.name, c.lean, c.ty, v)
	}
	fset, f, err := parseFile(repo, gasFile)
	if err != nil {
		return "", err
	}
	// calcGasByCodeLen: `return uint64(codeLen/neovm.PER_UNIT_CODE_LEN) * codeGas`
	fn := findFunc(f, "calcGasByCodeLen")
	if fn == nil || len(fn.Body.List) != 1 {
		return "", fmt.Errorf("%s: calcGasByCodeLen not found or not a single return", gasFile)
	}
	ret, ok := fn.Body.List[0].(*ast.ReturnStmt)
	if !ok || len(ret.Results) != 1 {
		return "", fmt.Errorf("%s:calcGasByCodeLen: body is not `return e`", gasFile)
	}
	mul, ok := ret.Results[0].(*ast.BinaryExpr)
	if !ok || mul.Op != token.MUL || exprString(fset, mul.Y) != "codeGas" {
		return "", fmt.Errorf("%s:calcGasByCodeLen: expected `uint64(…) * codeGas`, found `%s`", gasFile, exprString(fset, ret.Results[0]))
	}
	conv, ok := mul.X.(*ast.CallExpr)
	if !ok || exprString(fset, conv.Fun) != "uint64" || len(conv.Args) != 1 {
		return "", fmt.Errorf("%s:calcGasByCodeLen: expected a uint64(…) conversion, found `%s`", gasFile, exprString(fset, mul.X))
	}
	inner, err := intExprToLean(fset, conv.Args[0], map[string]string{"codeLen": "codeLen", "neovm.PER_UNIT_CODE_LEN": "perUnitCodeLen"})
	if err != nil {
		return "", fmt.Errorf("%s:calcGasByCodeLen: %v", gasFile, err)
	}
	fmt.Fprintf(&sb, "/-- %s:calcGasByCodeLen. Go source: `%s` (the int quotient is non-negative; the conversion truncates to 64 bits) -/\n"+
		"def calcGasByCodeLen (codeLen : Nat) (codeGas : UInt64) : UInt64 := UInt64.ofNat %s * codeGas\n\n", gasFile, exprString(fset, ret.Results[0]), inner)

	// tuneGasFeeByHeight(height uint32, gas, gasRound, curBalance uint64) uint64
	fn = findFunc(f, "tuneGasFeeByHeight")
	if fn == nil {
		return "", fmt.Errorf("%s: tuneGasFeeByHeight not found", gasFile)
	}
	var params []string
	for _, fl := range fn.Type.Params.List {
		for _, n := range fl.Names {
			params = append(params, n.Name+":"+exprString(fset, fl.Type))
		}
	}
	if strings.Join(params, ",") != "height:uint32,gas:uint64,gasRound:uint64,curBalance:uint64" {
		return "", fmt.Errorf("%s:tuneGasFeeByHeight: unexpected parameters %v", gasFile, params)
	}
	body := fn.Body.List
	// first statement: gasTuneheight := sysconfig.GetGasRoundTuneHeight(…) — becomes a parameter
	as, ok := body[0].(*ast.AssignStmt)
	if !ok || len(as.Lhs) != 1 || exprString(fset, as.Lhs[0]) != "gasTuneheight" || !strings.Contains(exprString(fset, as.Rhs[0]), "GetGasRoundTuneHeight(") {
		return "", fmt.Errorf("%s:tuneGasFeeByHeight: first statement is not `gasTuneheight := …GetGasRoundTuneHeight(…)`", gasFile)
	}
	// second: if height > gasTuneheight { … }   third: return gas
	ifs, ok := body[1].(*ast.IfStmt)
	if !ok || len(body) != 3 || exprString(fset, ifs.Cond) != "height > gasTuneheight" || ifs.Else != nil {
		return "", fmt.Errorf("%s:tuneGasFeeByHeight: expected `if height > gasTuneheight {…}; return gas`", gasFile)
	}
	tr := &u64tr{fset: fset, idents: map[string]bool{"gas": true, "gasRound": true, "curBalance": true}}
	inside, err := tr.stmts(ifs.Body.List, "    ")
	if err != nil {
		return "", fmt.Errorf("%s:tuneGasFeeByHeight: %v", gasFile, err)
	}
	tr2 := &u64tr{fset: fset, idents: map[string]bool{"gas": true, "gasRound": true, "curBalance": true}}
	after, err := tr2.stmts(body[2:], "    ")
	if err != nil {
		return "", fmt.Errorf("%s:tuneGasFeeByHeight: %v", gasFile, err)
	}
	fmt.Fprintf(&sb, "/-- %s:tuneGasFeeByHeight, `tuned` = `height > GetGasRoundTuneHeight(networkId)`; `none` = integer divide by zero -/\n"+
		"def tuneGasFeeByHeight (tuned : Bool) (gas gasRound curBalance : UInt64) : Option UInt64 :=\n  if tuned then\n%s\n  else\n%s\n\n", gasFile, inside, after)
	sb.WriteString("end OntVerif.Gen.Gas\n")
	return sb.String(), nil
}
