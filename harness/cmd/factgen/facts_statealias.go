package main

// Fact group "StateAlias" (property C08): the Go aliasing facts the value-based Lean model of StateDB snapshots relies on,
// read off the source by shape.
//
//   * core/store/overlaydb/memdb.go   MemDB.DeepClone builds a new MemDB whose slice fields are fresh copies
//     (`append([]T{}, self.f...)`), and MemDB has no other slice/map field that would stay shared;
//   * smartcontract/storage/statedb.go Snapshot() clones the memdb with DeepClone, allocates a fresh map with make(), copies
//     self.Suicided into it entry by entry and stores THAT map, the length of the log slice and the refund counter;
//     the snapshot struct holds no slice; RevertToSnapshot assigns all four parts back and cuts the stack;
//     self.logs is only ever appended to (AddLog) or truncated (RevertToSnapshot); the CacheDB.memdb pointer is only replaced
//     by RevertToSnapshot.
//
// Nothing is guessed: a missing function/struct is an error; a shape that is not the expected one is emitted as it is (strings
// / `false`), and `Props/C08.lean` stops checking.

import (
	"fmt"
	"go/ast"
	"go/token"
	"sort"
	"strings"
)

func init() { Register("StateAlias", genStateAlias) }

func saStr(s string) string {
	s = strings.ReplaceAll(s, "\\", "\\\\")
	s = strings.ReplaceAll(s, "\"", "\\\"")
	s = strings.ReplaceAll(s, "\n", " ")
	s = strings.ReplaceAll(s, "\t", " ")
	return "\"" + s + "\""
}

func saPairs(ps [][2]string) string {
	if len(ps) == 0 {
		return "[]"
	}
	var it []string
	for _, p := range ps {
		it = append(it, "("+saStr(p[0])+", "+saStr(p[1])+")")
	}
	return "[" + strings.Join(it, ",\n   ") + "]"
}

func saBool(b bool) string {
	if b {
		return "true"
	}
	return "false"
}

// structFields returns (name, printed type) of every field of struct `name` declared in f.
func structFields(fset *token.FileSet, f *ast.File, name string) ([][2]string, bool) {
	var out [][2]string
	found := false
	ast.Inspect(f, func(n ast.Node) bool {
		ts, ok := n.(*ast.TypeSpec)
		if !ok || ts.Name.Name != name {
			return true
		}
		st, ok := ts.Type.(*ast.StructType)
		if !ok {
			return true
		}
		found = true
		for _, fl := range st.Fields.List {
			t := exprString(fset, fl.Type)
			if len(fl.Names) == 0 {
				out = append(out, [2]string{"(embedded)", t})
			}
			for _, nm := range fl.Names {
				out = append(out, [2]string{nm.Name, t})
			}
		}
		return false
	})
	return out, found
}

// litFields returns the (key, printed value) pairs of the first composite literal of type `typ` (or &typ) inside fn.
func litFields(fset *token.FileSet, fn *ast.FuncDecl, typ string) ([][2]string, map[string]ast.Expr, bool) {
	var out [][2]string
	exprs := map[string]ast.Expr{}
	found := false
	ast.Inspect(fn.Body, func(n ast.Node) bool {
		cl, ok := n.(*ast.CompositeLit)
		if !ok || found {
			return true
		}
		if id, ok := cl.Type.(*ast.Ident); !ok || id.Name != typ {
			return true
		}
		found = true
		for _, el := range cl.Elts {
			if kv, ok := el.(*ast.KeyValueExpr); ok {
				k := exprString(fset, kv.Key)
				out = append(out, [2]string{k, exprString(fset, kv.Value)})
				exprs[k] = kv.Value
			} else {
				out = append(out, [2]string{"(positional)", exprString(fset, el)})
			}
		}
		return false
	})
	return out, exprs, found
}

// isFreshCopyOf: `append([]T{}, <src>...)` — a new backing array holding a copy of src
func isFreshCopyOf(fset *token.FileSet, e ast.Expr, src string) bool {
	ce, ok := e.(*ast.CallExpr)
	if !ok || len(ce.Args) != 2 || !ce.Ellipsis.IsValid() {
		return false
	}
	if id, ok := ce.Fun.(*ast.Ident); !ok || id.Name != "append" {
		return false
	}
	cl, ok := ce.Args[0].(*ast.CompositeLit)
	if !ok || len(cl.Elts) != 0 {
		return false
	}
	if _, ok := cl.Type.(*ast.ArrayType); !ok {
		return false
	}
	return exprString(fset, ce.Args[1]) == src
}

func genStateAlias(repo string) (string, error) {
	const memFile = "core/store/overlaydb/memdb.go"
	const sdbFile = "smartcontract/storage/statedb.go"
	const cdbFile = "smartcontract/storage/cachedb.go"
	mfset, mf, err := parseFile(repo, memFile)
	if err != nil {
		return "", err
	}
	sfset, sf, err := parseFile(repo, sdbFile)
	if err != nil {
		return "", err
	}
	cfset, cf, err := parseFile(repo, cdbFile)
	if err != nil {
		return "", err
	}

	// ---- MemDB struct and DeepClone
	memFields, ok := structFields(mfset, mf, "MemDB")
	if !ok {
		return "", fmt.Errorf("%s: struct MemDB not found", memFile)
	}
	var memRefFields [][2]string // fields whose type is a slice, map, pointer (or the comparer interface)
	for _, f := range memFields {
		t := f[1]
		if strings.HasPrefix(t, "[]") || strings.HasPrefix(t, "map[") || strings.HasPrefix(t, "*") || strings.Contains(t, "Comparer") {
			memRefFields = append(memRefFields, f)
		}
	}
	dc := findFunc(mf, "DeepClone")
	if dc == nil {
		return "", fmt.Errorf("%s: func DeepClone not found", memFile)
	}
	dcFields, dcExprs, ok := litFields(mfset, dc, "MemDB")
	if !ok {
		return "", fmt.Errorf("%s:DeepClone: composite literal MemDB{…} not found", memFile)
	}
	recv := "self"
	if dc.Recv != nil && len(dc.Recv.List) == 1 && len(dc.Recv.List[0].Names) == 1 {
		recv = dc.Recv.List[0].Names[0].Name
	}
	fresh := true
	for _, f := range memFields {
		if strings.HasPrefix(f[1], "[]") || strings.HasPrefix(f[1], "map[") {
			e, ok := dcExprs[f[0]]
			if !ok || !isFreshCopyOf(mfset, e, recv+"."+f[0]) {
				fresh = false
			}
		}
	}
	// every field of the struct is set by the literal (nothing silently left zero / shared)
	allSet := true
	for _, f := range memFields {
		if _, ok := dcExprs[f[0]]; !ok {
			allSet = false
		}
	}

	// ---- snapshot struct, Snapshot(), RevertToSnapshot()
	snapFields, ok := structFields(sfset, sf, "snapshot")
	if !ok {
		return "", fmt.Errorf("%s: struct snapshot not found", sdbFile)
	}
	snap := findFunc(sf, "Snapshot")
	rev := findFunc(sf, "RevertToSnapshot")
	if snap == nil || rev == nil {
		return "", fmt.Errorf("%s: Snapshot / RevertToSnapshot not found", sdbFile)
	}
	snapLit, snapExprs, ok := litFields(sfset, snap, "snapshot")
	if !ok {
		return "", fmt.Errorf("%s:Snapshot: composite literal snapshot{…} not found", sdbFile)
	}
	// the map stored in the snapshot: a local allocated by make(map…) and filled by a range loop over self.Suicided
	mapFresh := false
	if id, ok := snapExprs["suicided"].(*ast.Ident); ok {
		madeByMake, copied := false, false
		for _, rhs := range assignsTo(snap, id.Name) {
			if ce, ok := rhs.(*ast.CallExpr); ok {
				if f, ok := ce.Fun.(*ast.Ident); ok && f.Name == "make" && len(ce.Args) >= 1 {
					if _, ok := ce.Args[0].(*ast.MapType); ok {
						madeByMake = true
					}
				}
			}
		}
		ast.Inspect(snap.Body, func(n ast.Node) bool {
			rs, ok := n.(*ast.RangeStmt)
			if !ok || !strings.HasSuffix(exprString(sfset, rs.X), ".Suicided") || rs.Key == nil || rs.Value == nil || len(rs.Body.List) != 1 {
				return true
			}
			want := id.Name + "[" + exprString(sfset, rs.Key) + "] = " + exprString(sfset, rs.Value)
			if exprString(sfset, rs.Body.List[0]) == want {
				copied = true
			}
			return true
		})
		nAssign := len(assignsTo(snap, id.Name))
		mapFresh = madeByMake && copied && nAssign == 1
	}
	// the memdb stored in the snapshot: a local assigned exactly once from ….DeepClone()
	memCloned := false
	if id, ok := snapExprs["changes"].(*ast.Ident); ok {
		as := assignsTo(snap, id.Name)
		if len(as) == 1 && strings.HasSuffix(exprString(sfset, as[0]), ".cacheDB.memdb.DeepClone()") {
			memCloned = true
		}
	} else if e, ok := snapExprs["changes"]; ok && strings.HasSuffix(exprString(sfset, e), ".cacheDB.memdb.DeepClone()") {
		memCloned = true
	}
	var revAssigns []string
	for _, st := range rev.Body.List {
		if as, ok := st.(*ast.AssignStmt); ok && as.Tok == token.ASSIGN {
			revAssigns = append(revAssigns, exprString(sfset, as))
		}
	}

	// ---- who writes self.logs / the CacheDB.memdb pointer / the Suicided map
	
	collect := func(fset *token.FileSet, f *ast.File, match func(lhs string) bool) [][2]string {
		var out [][2]string
		for _, d := range f.Decls {
			fd, ok := d.(*ast.FuncDecl)
			if !ok || fd.Body == nil {
				continue
			}
			ast.Inspect(fd.Body, func(n ast.Node) bool {
				as, ok := n.(*ast.AssignStmt)
				if !ok {
					return true
				}
				for _, l := range as.Lhs {
					if match(exprString(fset, l)) {
						out = append(out, [2]string{fd.Name.Name, exprString(fset, as)})
						break
					}
				}
				return true
			})
		}
		sort.SliceStable(out, func(i, j int) bool { return out[i][0] < out[j][0] })
		return out
	}
	logsWrites := collect(sfset, sf, func(l string) bool { return strings.HasSuffix(l, ".logs") || strings.Contains(l, ".logs[") })
	memdbPtrWrites := append(collect(sfset, sf, func(l string) bool { return strings.HasSuffix(l, ".memdb") }),
		collect(cfset, cf, func(l string) bool { return strings.HasSuffix(l, ".memdb") })...)
	suicidedWrites := collect(sfset, sf, func(l string) bool { return strings.HasSuffix(l, ".Suicided") || strings.Contains(l, ".Suicided[") })

	var sb strings.Builder
	sb.WriteString("namespace OntVerif.Gen.StateAlias\n\n")
	fmt.Fprintf(&sb, "/-- %s: fields of `MemDB` of slice / map / pointer / interface type (everything that can be shared between two MemDB values) -/\n", memFile)
	fmt.Fprintf(&sb, "def memDBRefFields : List (String × String) :=\n  %s\n\n", saPairs(memRefFields))
	fmt.Fprintf(&sb, "/-- %s:DeepClone — the fields of the literal it returns -/\n", memFile)
	fmt.Fprintf(&sb, "def deepCloneLiteral : List (String × String) :=\n  %s\n\n", saPairs(dcFields))
	fmt.Fprintf(&sb, "/-- every slice/map field of MemDB is set to `append([]T{}, %s.f...)` (new backing array) by DeepClone -/\n", recv)
	fmt.Fprintf(&sb, "def deepCloneSlicesFresh : Bool := %s\n\n", saBool(fresh))
	fmt.Fprintf(&sb, "/-- DeepClone's literal sets every field of MemDB -/\ndef deepCloneSetsAllFields : Bool := %s\n\n", saBool(allSet))
	fmt.Fprintf(&sb, "/-- %s: fields of `snapshot` -/\ndef snapshotStruct : List (String × String) :=\n  %s\n\n", sdbFile, saPairs(snapFields))
	fmt.Fprintf(&sb, "/-- %s:Snapshot — the fields of the snapshot literal -/\ndef snapshotLiteral : List (String × String) :=\n  %s\n\n", sdbFile, saPairs(snapLit))
	fmt.Fprintf(&sb, "/-- the `suicided` stored by Snapshot() is a local assigned once from `make(map…)` and filled by `for k, v := range self.Suicided { m[k] = v }` -/\n")
	fmt.Fprintf(&sb, "def snapshotMapFreshCopy : Bool := %s\n\n", saBool(mapFresh))
	fmt.Fprintf(&sb, "/-- the `changes` stored by Snapshot() is the result of `self.cacheDB.memdb.DeepClone()` -/\n")
	fmt.Fprintf(&sb, "def snapshotMemdbCloned : Bool := %s\n\n", saBool(memCloned))
	fmt.Fprintf(&sb, "/-- %s:RevertToSnapshot — its top-level assignments in source order -/\ndef revertAssignments : List String :=\n  [%s]\n\n", sdbFile,
		strings.Join(func() []string {
			var o []string
			for _, s := range revAssigns {
				o = append(o, saStr(s))
			}
			return o
		}(), ",\n   "))
	fmt.Fprintf(&sb, "/-- every assignment to a `.logs` field in %s: (function, statement) -/\ndef logsWrites : List (String × String) :=\n  %s\n\n", sdbFile, saPairs(logsWrites))
	fmt.Fprintf(&sb, "/-- every assignment to a `.memdb` field in %s and %s -/\ndef memdbPointerWrites : List (String × String) :=\n  %s\n\n", sdbFile, cdbFile, saPairs(memdbPtrWrites))
	fmt.Fprintf(&sb, "/-- every assignment to `.Suicided` / `.Suicided[…]` in %s -/\ndef suicidedWrites : List (String × String) :=\n  %s\n\n", sdbFile, saPairs(suicidedWrites))
	sb.WriteString("end OntVerif.Gen.StateAlias\n")
	return sb.String(), nil
}
