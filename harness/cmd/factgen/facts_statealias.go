package main

// Fact group "StateAlias" (property C08): the Go aliasing facts the value-based Lean model of StateDB snapshots relies on,
// read off the source by ROLE (not by the names of locals / receivers, not by where a literal is built, looking through
// unexported same-package helpers):
//
//   * core/store/overlaydb: `MemDB.DeepClone` yields a `MemDB{…}` literal (returned directly or through a local) that sets
//     every field of the struct and whose slice/map fields are `append([]T{}, <receiver>.f...)` (new backing array);
//     the reference-typed fields of MemDB are listed (a new shared field is noticed).
//   * smartcontract/storage: `Snapshot()` pushes (append to <receiver>.snapshots) a `snapshot{…}` literal — built inline or in a
//     local — whose `changes` is `<receiver>.cacheDB.memdb.DeepClone()`, whose `suicided` is a FRESH COPY of
//     `<receiver>.Suicided` (a map made by make() in this function or in a helper, assigned nowhere else, filled by one
//     `for k, v := range <receiver>.Suicided { m[k] = v }`, on every path), whose `logsSize` is `len(<receiver>.logs)` and whose
//     `refund` is `<receiver>.refund`;
//     `RevertToSnapshot(idx)` executes, unconditionally at the top level of its body, exactly the five restoring assignments
//     (set, order-free; the saved snapshot's local and the receiver are normalised);
//     who writes `.logs` (append / truncate), the `CacheDB.memdb` pointer and `.Suicided` (set entry / fresh make / the popped
//     snapshot's map), by function and KIND of write.
//
// Nothing is guessed: a missing function/struct is an error; a shape that is not understood yields `false` / the printed
// expression, and `Props/C08.lean` stops checking.

import (
	"fmt"
	"go/ast"
	"go/parser"
	"go/token"
	"os"
	"path/filepath"
	"sort"
	"strings"
)

func init() { Register("StateAlias", genStateAlias) }

func saStr(s string) string {
	s = strings.ReplaceAll(s, "\\", "\\\\")
	s = strings.ReplaceAll(s, "\"", "\\\"")
	s = strings.ReplaceAll(s, "\n", " ")
	s = strings.ReplaceAll(s, "\t", " ")
	return "\"" + s + "\""
}

func saPairs(ps [][2]string) string {
	if len(ps) == 0 {
		return "[]"
	}
	var it []string
	for _, p := range ps {
		it = append(it, "("+saStr(p[0])+", "+saStr(p[1])+")")
	}
	return "[" + strings.Join(it, ",\n   ") + "]"
}

func saList(xs []string) string {
	if len(xs) == 0 {
		return "[]"
	}
	var it []string
	for _, x := range xs {
		it = append(it, saStr(x))
	}
	return "[" + strings.Join(it, ",\n   ") + "]"
}

func saBool(b bool) string {
	if b {
		return "true"
	}
	return "false"
}

// saStruct finds `type <name> struct` in any non-test file of the package and returns (field, printed type).
func saStruct(repo, dir, name string) ([][2]string, error) {
	ents, err := os.ReadDir(filepath.Join(repo, dir))
	if err != nil {
		return nil, err
	}
	for _, e := range ents {
		n := e.Name()
		if e.IsDir() || !strings.HasSuffix(n, ".go") || strings.HasSuffix(n, "_test.go") || strings.HasPrefix(n, "verif_export_") {
			continue
		}
		fset := token.NewFileSet()
		f, err := parser.ParseFile(fset, filepath.Join(repo, dir, n), nil, 0)
		if err != nil {
			return nil, err
		}
		var out [][2]string
		found := false
		ast.Inspect(f, func(nd ast.Node) bool {
			ts, ok := nd.(*ast.TypeSpec)
			if !ok || ts.Name.Name != name {
				return true
			}
			st, ok := ts.Type.(*ast.StructType)
			if !ok {
				return true
			}
			found = true
			for _, fl := range st.Fields.List {
				t := flat(fset, fl.Type)
				if len(fl.Names) == 0 {
					out = append(out, [2]string{"(embedded)", t})
				}
				for _, nm := range fl.Names {
					out = append(out, [2]string{nm.Name, t})
				}
			}
			return false
		})
		if found {
			return out, nil
		}
	}
	return nil, fmt.Errorf("%s: struct %s not found", dir, name)
}

func recvName(fd *ast.FuncDecl) string {
	if fd.Recv != nil && len(fd.Recv.List) == 1 && len(fd.Recv.List[0].Names) == 1 {
		return fd.Recv.List[0].Names[0].Name
	}
	return ""
}

// saNorm prints e on one line with the given identifiers renamed (receiver -> recv, saved-snapshot local -> saved, …).
func saNorm(fset *token.FileSet, e ast.Node, ren map[string]string) string {
	// go/printer on a copy with renamed identifiers: identifiers are leaves, rename textually on the token level
	var sb strings.Builder
	s := exprString(fset, e)
	// tokenise identifiers
	i := 0
	isID := func(c byte) bool { return c == '_' || c >= 'a' && c <= 'z' || c >= 'A' && c <= 'Z' || c >= '0' && c <= '9' }
	for i < len(s) {
		if isID(s[i]) && !(s[i] >= '0' && s[i] <= '9') {
			j := i
			for j < len(s) && isID(s[j]) {
				j++
			}
			w := s[i:j]
			prevDot := i > 0 && s[i-1] == '.'
			if r, ok := ren[w]; ok && !prevDot {
				sb.WriteString(r)
			} else {
				sb.WriteString(w)
			}
			i = j
			continue
		}
		sb.WriteByte(s[i])
		i++
	}
	return strings.Join(strings.Fields(sb.String()), "")
}

// litOf finds the composite literal of struct type `typ` (plain or &-ed) that `fn` builds, wherever it stands
// (assigned to a local, returned, passed to append). Exactly one is expected.
func litOf(fn *ast.FuncDecl, typ string) (*ast.CompositeLit, int) {
	var lit *ast.CompositeLit
	n := 0
	ast.Inspect(fn.Body, func(nd ast.Node) bool {
		cl, ok := nd.(*ast.CompositeLit)
		if !ok {
			return true
		}
		if id, ok := cl.Type.(*ast.Ident); ok && id.Name == typ {
			n++
			if lit == nil {
				lit = cl
			}
		}
		return true
	})
	return lit, n
}

func litFieldExprs(cl *ast.CompositeLit) (map[string]ast.Expr, bool) {
	out := map[string]ast.Expr{}
	for _, el := range cl.Elts {
		kv, ok := el.(*ast.KeyValueExpr)
		if !ok {
			return nil, false
		}
		id, ok := kv.Key.(*ast.Ident)
		if !ok {
			return nil, false
		}
		out[id.Name] = kv.Value
	}
	return out, true
}

// isFreshSliceCopy: `append([]T{}, <recv>.<field>...)`
func isFreshSliceCopy(fset *token.FileSet, e ast.Expr, recv, field string) bool {
	ce, ok := stripParens(e).(*ast.CallExpr)
	if !ok || len(ce.Args) != 2 || !ce.Ellipsis.IsValid() {
		return false
	}
	if id, ok := ce.Fun.(*ast.Ident); !ok || id.Name != "append" {
		return false
	}
	cl, ok := ce.Args[0].(*ast.CompositeLit)
	if !ok || len(cl.Elts) != 0 {
		return false
	}
	if _, ok := cl.Type.(*ast.ArrayType); !ok {
		return false
	}
	return flat(fset, ce.Args[1]) == recv+"."+field
}

// isMakeMap: `make(map[…]…[, n])`
func isMakeMap(e ast.Expr) bool {
	ce, ok := stripParens(e).(*ast.CallExpr)
	if !ok || len(ce.Args) < 1 {
		return false
	}
	if f, ok := ce.Fun.(*ast.Ident); !ok || f.Name != "make" {
		return false
	}
	_, ok = ce.Args[0].(*ast.MapType)
	return ok
}

// freshMapCopyIn: inside fn the map denoted by `target` (a local `m`, or a field `v.f` of the local holding the snapshot
// literal) is a fresh copy of `<recv>.<field>` on every path: it is created exactly once by make(map…) — `target := make(..)` /
// `target = make(..)` at the top level of the body, or (litMakes = 1) as the field value of the literal —, never assigned
// again, never address-taken or delete()d from, and written only by the body `target[k] = v` of exactly one top-level
// `for k, v := range <recv>.<field>`.
func freshMapCopyIn(fset *token.FileSet, fn *ast.FuncDecl, target, recv, field string, litMakes int) bool {
	defs, loops, otherWrites := litMakes, 0, 0
	for _, st := range fn.Body.List {
		switch s := st.(type) {
		case *ast.AssignStmt:
			if len(s.Lhs) == 1 && len(s.Rhs) == 1 && flat(fset, s.Lhs[0]) == target {
				if isMakeMap(s.Rhs[0]) {
					defs++
					otherWrites-- // counted again by the inspection below
				}
			}
		case *ast.RangeStmt:
			if flat(fset, s.X) == recv+"."+field && s.Tok == token.DEFINE && s.Key != nil && s.Value != nil && len(s.Body.List) == 1 {
				k, ok1 := s.Key.(*ast.Ident)
				v, ok2 := s.Value.(*ast.Ident)
				as, ok3 := s.Body.List[0].(*ast.AssignStmt)
				if ok1 && ok2 && ok3 && as.Tok == token.ASSIGN && len(as.Lhs) == 1 && len(as.Rhs) == 1 &&
					flat(fset, as.Lhs[0]) == target+"["+k.Name+"]" && flat(fset, as.Rhs[0]) == v.Name {
					loops++
					otherWrites-- // counted again by the inspection below
				}
			}
		}
	}
	// every write of the target anywhere in the function (assignment, entry write, &target, var decl, delete)
	ast.Inspect(fn.Body, func(n ast.Node) bool {
		switch s := n.(type) {
		case *ast.AssignStmt:
			for _, l := range s.Lhs {
				if flat(fset, l) == target {
					otherWrites++
				}
				if ix, ok := l.(*ast.IndexExpr); ok && flat(fset, ix.X) == target {
					otherWrites++
				}
			}
		case *ast.UnaryExpr:
			if s.Op == token.AND && flat(fset, s.X) == target {
				otherWrites += 10
			}
		case *ast.ValueSpec:
			for _, nm := range s.Names {
				if nm.Name == target {
					otherWrites += 10
				}
			}
		case *ast.CallExpr:
			if f, ok := s.Fun.(*ast.Ident); ok && f.Name == "delete" && len(s.Args) > 0 && flat(fset, s.Args[0]) == target {
				otherWrites += 10
			}
		}
		return true
	})
	return defs == 1 && loops == 1 && otherWrites == 0
}

// isFreshMapCopyExpr: the expression (a field value of the snapshot literal inside fn) denotes a fresh copy of <recv>.<field>:
// a local of fn with freshMapCopyIn, or a call `<recv>.h()` of a same-package helper h whose every return returns a local of
// h with freshMapCopyIn (relative to h's own receiver).
func isFreshMapCopyExpr(fset *token.FileSet, funcs map[string]*ast.FuncDecl, fn *ast.FuncDecl, e ast.Expr, field string) bool {
	switch x := stripParens(e).(type) {
	case *ast.Ident:
		return freshMapCopyIn(fset, fn, x.Name, recvName(fn), field, 0)
	case *ast.CallExpr:
		if len(x.Args) != 0 {
			return false
		}
		sel, ok := x.Fun.(*ast.SelectorExpr)
		if !ok || flat(fset, sel.X) != recvName(fn) {
			return false
		}
		h := calleeOf(funcs, x)
		if h == nil || recvName(h) == "" {
			return false
		}
		rets, ok2 := 0, true
		var local string
		ast.Inspect(h.Body, func(n ast.Node) bool {
			if _, isLit := n.(*ast.FuncLit); isLit {
				return false
			}
			if r, ok := n.(*ast.ReturnStmt); ok {
				rets++
				if len(r.Results) != 1 {
					ok2 = false
					return true
				}
				id, ok := r.Results[0].(*ast.Ident)
				if !ok || (local != "" && local != id.Name) {
					ok2 = false
					return true
				}
				local = id.Name
			}
			return true
		})
		return ok2 && rets >= 1 && freshMapCopyIn(fset, h, local, recvName(h), field, 0)
	}
	return false
}

func genStateAlias(repo string) (string, error) {
	const memDir = "core/store/overlaydb"
	const stoDir = "smartcontract/storage"
	mfset, mfuncs, err := pkgFuncs(repo, memDir)
	if err != nil {
		return "", err
	}
	sfset, sfuncs, err := pkgFuncs(repo, stoDir)
	if err != nil {
		return "", err
	}

	// ---- MemDB struct and DeepClone
	memFields, err := saStruct(repo, memDir, "MemDB")
	if err != nil {
		return "", err
	}
	var memRefFields [][2]string
	for _, f := range memFields {
		t := f[1]
		if strings.HasPrefix(t, "[]") || strings.HasPrefix(t, "map[") || strings.HasPrefix(t, "*") || strings.Contains(t, "Comparer") {
			memRefFields = append(memRefFields, f)
		}
	}
	dc := mfuncs["MemDB.DeepClone"]
	if dc == nil {
		return "", fmt.Errorf("%s: method MemDB.DeepClone not found", memDir)
	}
	dcLit, nLit := litOf(dc, "MemDB")
	if dcLit == nil {
		return "", fmt.Errorf("%s:DeepClone: no MemDB{…} literal", memDir)
	}
	dcExprs, keyed := litFieldExprs(dcLit)
	fresh, allSet := keyed && nLit == 1, keyed && nLit == 1
	if keyed {
		for _, f := range memFields {
			e, ok := dcExprs[f[0]]
			if !ok {
				allSet = false
				continue
			}
			if strings.HasPrefix(f[1], "[]") || strings.HasPrefix(f[1], "map[") {
				if !isFreshSliceCopy(mfset, e, recvName(dc), f[0]) {
					fresh = false
				}
			}
		}
	}
	// the literal is what DeepClone returns (directly, &-ed, or through a local that is only defined by it)
	returnsLit := false
	dcDefs := singleDefs(dc)
	ast.Inspect(dc.Body, func(n ast.Node) bool {
		if r, ok := n.(*ast.ReturnStmt); ok && len(r.Results) == 1 {
			e := stripParens(inlineLocals(r.Results[0], dcDefs))
			if u, ok := e.(*ast.UnaryExpr); ok && u.Op == token.AND {
				e = u.X
			}
			returnsLit = e == ast.Expr(dcLit)
		}
		return true
	})

	// ---- snapshot struct, Snapshot()
	snapFields, err := saStruct(repo, stoDir, "snapshot")
	if err != nil {
		return "", err
	}
	snap, rev := sfuncs["StateDB.Snapshot"], sfuncs["StateDB.RevertToSnapshot"]
	if snap == nil || rev == nil {
		return "", fmt.Errorf("%s: StateDB.Snapshot / StateDB.RevertToSnapshot not found", stoDir)
	}
	sr := recvName(snap)
	snapLit, nSnapLit := litOf(snap, "snapshot")
	if snapLit == nil {
		return "", fmt.Errorf("%s:Snapshot: no snapshot{…} literal", stoDir)
	}
	snapExprs, keyed2 := litFieldExprs(snapLit)
	sdefs := singleDefs(snap)
	mapFresh, memCloned, logsLen, refundVal, pushed := false, false, false, false, false
	// the local holding the literal (if any), and the fields set afterwards by `holder.f = e` at the top level of the body:
	// the snapshot that is pushed has the literal's fields overridden by those assignments
	holder := ""
	for _, st := range snap.Body.List {
		if as, ok := st.(*ast.AssignStmt); ok && as.Tok == token.DEFINE && len(as.Lhs) == 1 && len(as.Rhs) == 1 {
			e := stripParens(as.Rhs[0])
			if u, ok := e.(*ast.UnaryExpr); ok && u.Op == token.AND {
				e = u.X
			}
			if id, ok := as.Lhs[0].(*ast.Ident); ok && e == ast.Expr(snapLit) {
				holder = id.Name
			}
		}
	}
	fieldSetTwice := false
	if keyed2 && holder != "" {
		seen := map[string]bool{}
		for _, st := range snap.Body.List {
			as, ok := st.(*ast.AssignStmt)
			if !ok || as.Tok != token.ASSIGN || len(as.Lhs) != 1 || len(as.Rhs) != 1 {
				continue
			}
			sel, ok := as.Lhs[0].(*ast.SelectorExpr)
			if !ok || flat(sfset, sel.X) != holder {
				continue
			}
			if seen[sel.Sel.Name] {
				fieldSetTwice = true
			}
			seen[sel.Sel.Name] = true
			snapExprs[sel.Sel.Name] = as.Rhs[0]
		}
		// a field assignment that is not at the top level (conditional) is not understood
		ast.Inspect(snap.Body, func(n ast.Node) bool {
			as, ok := n.(*ast.AssignStmt)
			if !ok {
				return true
			}
			for _, l := range as.Lhs {
				if sel, ok := l.(*ast.SelectorExpr); ok && flat(sfset, sel.X) == holder {
					top := false
					for _, st := range snap.Body.List {
						if st == ast.Stmt(as) {
							top = true
						}
					}
					if !top {
						fieldSetTwice = true
					}
				}
			}
			return true
		})
	}
	if keyed2 && nSnapLit == 1 && sr != "" && !fieldSetTwice {
		if e, ok := snapExprs["suicided"]; ok {
			if isMakeMap(e) && holder != "" {
				// made in the literal (or by a field assignment) and filled through the holder: `holder.suicided[k] = v`
				lit := 0
				for _, el := range snapLit.Elts {
					if kv, ok := el.(*ast.KeyValueExpr); ok && flat(sfset, kv.Key) == "suicided" && kv.Value == e {
						lit = 1
					}
				}
				mapFresh = freshMapCopyIn(sfset, snap, holder+".suicided", sr, "Suicided", lit)
			} else {
				mapFresh = isFreshMapCopyExpr(sfset, sfuncs, snap, e, "Suicided")
			}
		}
		if e, ok := snapExprs["changes"]; ok {
			memCloned = flat(sfset, stripParens(inlineLocals(e, sdefs))) == sr+".cacheDB.memdb.DeepClone()"
		}
		if e, ok := snapExprs["logsSize"]; ok {
			logsLen = flat(sfset, stripParens(inlineLocals(e, sdefs))) == "len("+sr+".logs)"
		}
		if e, ok := snapExprs["refund"]; ok {
			refundVal = flat(sfset, stripParens(inlineLocals(e, sdefs))) == sr+".refund"
		}
		// <recv>.snapshots = append(<recv>.snapshots, <the literal>) at the top level of the body
		for _, st := range snap.Body.List {
			as, ok := st.(*ast.AssignStmt)
			if !ok || as.Tok != token.ASSIGN || len(as.Lhs) != 1 || len(as.Rhs) != 1 || flat(sfset, as.Lhs[0]) != sr+".snapshots" {
				continue
			}
			ce, ok := as.Rhs[0].(*ast.CallExpr)
			if !ok || len(ce.Args) != 2 || flat(sfset, ce.Fun) != "append" || flat(sfset, ce.Args[0]) != sr+".snapshots" {
				continue
			}
			e := stripParens(inlineLocals(ce.Args[1], sdefs))
			if u, ok := e.(*ast.UnaryExpr); ok && u.Op == token.AND {
				e = u.X
			}
			if e == ast.Expr(snapLit) {
				pushed = true
			}
		}
	}
	var snapFieldNames []string
	for k := range snapExprs {
		snapFieldNames = append(snapFieldNames, k)
	}
	sort.Strings(snapFieldNames)

	// ---- RevertToSnapshot: unconditional top-level assignments, normalised
	rr := recvName(rev)
	idx := ""
	if rev.Type.Params != nil && len(rev.Type.Params.List) == 1 && len(rev.Type.Params.List[0].Names) == 1 {
		idx = rev.Type.Params.List[0].Names[0].Name
	}
	ren := map[string]string{rr: "recv", idx: "idx"}
	// the local holding the saved snapshot: defined as <recv>.snapshots[<idx>]
	for _, st := range rev.Body.List {
		if as, ok := st.(*ast.AssignStmt); ok && as.Tok == token.DEFINE && len(as.Lhs) == 1 && len(as.Rhs) == 1 {
			if id, ok := as.Lhs[0].(*ast.Ident); ok && flat(sfset, as.Rhs[0]) == rr+".snapshots["+idx+"]" {
				ren[id.Name] = "saved"
			}
		}
	}
	// straightLine: the body of h is nothing but top-level plain assignments
	straightLine := func(h *ast.FuncDecl) bool {
		if h == nil || h.Body == nil || len(h.Body.List) == 0 {
			return false
		}
		for _, st := range h.Body.List {
			as, ok := st.(*ast.AssignStmt)
			if !ok || as.Tok != token.ASSIGN {
				return false
			}
		}
		return true
	}
	writesNothing := func(h *ast.FuncDecl) bool {
		w := false
		ast.Inspect(h.Body, func(n ast.Node) bool {
			switch n.(type) {
			case *ast.AssignStmt, *ast.IncDecStmt:
				if as, ok := n.(*ast.AssignStmt); ok && as.Tok == token.DEFINE {
					return true
				}
				w = true
			}
			return true
		})
		return !w
	}
	isBoundsCheck := func(s *ast.IfStmt) bool {
		if s.Else != nil || !alwaysExits(s.Body.List) {
			return false
		}
		if s.Init != nil {
			if as, ok := s.Init.(*ast.AssignStmt); !ok || as.Tok != token.DEFINE {
				return false
			}
		}
		for _, b := range s.Body.List {
			es, ok := b.(*ast.ExprStmt)
			if !ok {
				return false
			}
			ce, ok := es.X.(*ast.CallExpr)
			if !ok || flat(sfset, ce.Fun) != "panic" {
				return false
			}
		}
		return true
	}
	var revSet, revOther []string
	for _, st := range rev.Body.List {
		switch s := st.(type) {
		case *ast.AssignStmt:
			if s.Tok == token.ASSIGN {
				t := saNorm(sfset, s, ren)
				revSet = append(revSet, strings.ReplaceAll(t, "recv.snapshots[idx].", "saved."))
				continue
			}
			if s.Tok == token.DEFINE && len(s.Rhs) == 1 && flat(sfset, s.Rhs[0]) == rr+".snapshots["+idx+"]" {
				continue
			}
		case *ast.IfStmt:
			if isBoundsCheck(s) {
				continue
			}
		case *ast.ExprStmt:
			if ce, ok := s.X.(*ast.CallExpr); ok {
				if h := calleeOf(sfuncs, ce); h != nil {
					if writesNothing(h) {
						continue // e.g. the extracted bounds check
					}
					// a straight-line helper or method (`saved.restore(recv)`, `recv.restoreFrom(saved)`): its assignments
					// with its receiver / parameters replaced by the (normalised) receiver / arguments of the call
					if straightLine(h) {
						ren2 := map[string]string{}
						okSub := true
						if hr := recvName(h); hr != "" {
							if sel, ok := ce.Fun.(*ast.SelectorExpr); ok {
								ren2[hr] = strings.ReplaceAll(saNorm(sfset, sel.X, ren), "recv.snapshots[idx]", "saved")
							} else {
								okSub = false
							}
						}
						var params []string
						if h.Type.Params != nil {
							for _, f := range h.Type.Params.List {
								for _, nm := range f.Names {
									params = append(params, nm.Name)
								}
							}
						}
						if len(params) != len(ce.Args) {
							okSub = false
						} else {
							for i, pn := range params {
								ren2[pn] = strings.ReplaceAll(saNorm(sfset, ce.Args[i], ren), "recv.snapshots[idx]", "saved")
							}
						}
						for _, v := range ren2 { // only plain names may be substituted (no side effects, no precedence issues)
							for _, c := range v {
								if !(c == '_' || c == '.' || c >= 'a' && c <= 'z' || c >= 'A' && c <= 'Z' || c >= '0' && c <= '9') {
									okSub = false
								}
							}
						}
						if okSub {
							for _, hs := range h.Body.List {
								revSet = append(revSet, saNorm(sfset, hs, ren2))
							}
							continue
						}
					}
				}
			}
		}
		revOther = append(revOther, saNorm(sfset, st, ren))
	}
	sort.Strings(revSet)

	// ---- who writes .logs / .memdb / .Suicided in package storage: (exported entry point, kind of write).
	// A write inside an unexported function or method is attributed to the exported functions that reach it.
	snapFieldSet := map[string]bool{}
	for _, f := range snapFields {
		snapFieldSet[f[0]] = true
	}
	rootOf := func(e ast.Expr) string {
		for {
			switch x := e.(type) {
			case *ast.SelectorExpr:
				e = x.X
			case *ast.IndexExpr:
				e = x.X
			case *ast.ParenExpr:
				e = x.X
			case *ast.StarExpr:
				e = x.X
			case *ast.Ident:
				return x.Name
			default:
				return ""
			}
		}
	}
	pathOf := func(fset *token.FileSet, e ast.Expr) string { // the printed expression without its root identifier
		s := flat(fset, e)
		if r := rootOf(e); r != "" && strings.HasPrefix(s, r+".") {
			return s[len(r)+1:]
		}
		return s
	}
	kindOf := func(fset *token.FileSet, lhs, rhs ast.Expr) string {
		l := flat(fset, lhs)
		if ix, ok := lhs.(*ast.IndexExpr); ok {
			return "set-entry:" + pathOf(fset, ix.X)
		}
		switch x := stripParens(rhs).(type) {
		case *ast.CallExpr:
			f := flat(fset, x.Fun)
			if f == "append" && len(x.Args) >= 1 && flat(fset, x.Args[0]) == l && !x.Ellipsis.IsValid() {
				return "append"
			}
			if isMakeMap(x) {
				return "fresh-make"
			}
		case *ast.SliceExpr:
			if flat(fset, x.X) == l && x.Low == nil && x.High != nil && x.Max == nil {
				return "truncate"
			}
		case *ast.SelectorExpr:
			// a field of the snapshot struct read from another variable than the one written: `<other>.<snapshot field>`
			if id, ok := x.X.(*ast.Ident); ok && id.Name != rootOf(lhs) && snapFieldSet[x.Sel.Name] {
				return "snapshot-field:" + x.Sel.Name
			}
		}
		return "other:" + flat(fset, rhs)
	}
	// distinct declarations and the exported entry points reaching each of them
	var decls []*ast.FuncDecl
	{
		seen := map[*ast.FuncDecl]bool{}
		var names []string
		for n := range sfuncs {
			names = append(names, n)
		}
		sort.Strings(names)
		for _, n := range names {
			if fd := sfuncs[n]; !seen[fd] {
				seen[fd] = true
				decls = append(decls, fd)
			}
		}
	}
	callers := map[*ast.FuncDecl][]*ast.FuncDecl{}
	for _, fd := range decls {
		ast.Inspect(fd.Body, func(n ast.Node) bool {
			if ce, ok := n.(*ast.CallExpr); ok {
				if h := calleeOf(sfuncs, ce); h != nil && h != fd {
					callers[h] = append(callers[h], fd)
				}
			}
			return true
		})
	}
	entriesOf := func(fd *ast.FuncDecl) []string {
		out := map[string]bool{}
		seen := map[*ast.FuncDecl]bool{}
		var rec func(f *ast.FuncDecl)
		rec = func(f *ast.FuncDecl) {
			if seen[f] {
				return
			}
			seen[f] = true
			if ast.IsExported(f.Name.Name) || len(callers[f]) == 0 {
				out[f.Name.Name] = true
				return
			}
			for _, c := range callers[f] {
				rec(c)
			}
		}
		rec(fd)
		var l []string
		for k := range out {
			l = append(l, k)
		}
		sort.Strings(l)
		return l
	}
	collect := func(match func(path string) bool) [][2]string {
		set := map[[2]string]bool{}
		for _, fd := range decls {
			ast.Inspect(fd.Body, func(nd ast.Node) bool {
				as, ok := nd.(*ast.AssignStmt)
				if !ok || len(as.Lhs) != len(as.Rhs) {
					return true
				}
				for i, l := range as.Lhs {
					if _, isIdent := l.(*ast.Ident); isIdent {
						continue
					}
					if match(pathOf(sfset, l)) {
						k := kindOf(sfset, l, as.Rhs[i])
						for _, en := range entriesOf(fd) {
							set[[2]string{en, k}] = true
						}
					}
				}
				return true
			})
		}
		var out [][2]string
		for k := range set {
			out = append(out, k)
		}
		sort.Slice(out, func(i, j int) bool {
			if out[i][0] != out[j][0] {
				return out[i][0] < out[j][0]
			}
			return out[i][1] < out[j][1]
		})
		return out
	}
	logsWrites := collect(func(l string) bool {
		return l == "logs" || strings.HasSuffix(l, ".logs") || strings.HasPrefix(l, "logs[") || strings.Contains(l, ".logs[")
	})
	memdbPtrWrites := collect(func(l string) bool { return l == "memdb" || strings.HasSuffix(l, ".memdb") })
	suicidedWrites := collect(func(l string) bool {
		return l == "Suicided" || strings.HasSuffix(l, ".Suicided") || strings.HasPrefix(l, "Suicided[") || strings.Contains(l, ".Suicided[")
	})

	var sb strings.Builder
	sb.WriteString("namespace OntVerif.Gen.StateAlias\n\n")
	fmt.Fprintf(&sb, "/-- %s: fields of `MemDB` of slice / map / pointer / interface type (everything two MemDB values can share) -/\n", memDir)
	fmt.Fprintf(&sb, "def memDBRefFields : List (String × String) :=\n  %s\n\n", saPairs(memRefFields))
	sb.WriteString("/-- DeepClone builds exactly one `MemDB{…}` literal whose slice/map fields are `append([]T{}, <receiver>.f...)` (new backing array) -/\n")
	fmt.Fprintf(&sb, "def deepCloneSlicesFresh : Bool := %s\n\n", saBool(fresh))
	fmt.Fprintf(&sb, "/-- that literal sets every field of MemDB -/\ndef deepCloneSetsAllFields : Bool := %s\n\n", saBool(allSet))
	fmt.Fprintf(&sb, "/-- and it is what DeepClone returns (directly or through a local) -/\ndef deepCloneReturnsLiteral : Bool := %s\n\n", saBool(returnsLit))
	fmt.Fprintf(&sb, "/-- %s: fields of `snapshot` -/\ndef snapshotStruct : List (String × String) :=\n  %s\n\n", stoDir, saPairs(snapFields))
	fmt.Fprintf(&sb, "/-- the fields the one `snapshot{…}` literal of Snapshot() sets -/\ndef snapshotLiteralFields : List String :=\n  %s\n\n", saList(snapFieldNames))
	sb.WriteString("/-- its `suicided` is a fresh copy of `<receiver>.Suicided`: a map from make(), assigned nowhere else, filled by one range loop (in Snapshot or in a helper) -/\n")
	fmt.Fprintf(&sb, "def snapshotMapFreshCopy : Bool := %s\n\n", saBool(mapFresh))
	fmt.Fprintf(&sb, "/-- its `changes` is `<receiver>.cacheDB.memdb.DeepClone()` -/\ndef snapshotMemdbCloned : Bool := %s\n\n", saBool(memCloned))
	fmt.Fprintf(&sb, "/-- its `logsSize` is `len(<receiver>.logs)` -/\ndef snapshotRecordsLogsLen : Bool := %s\n\n", saBool(logsLen))
	fmt.Fprintf(&sb, "/-- its `refund` is `<receiver>.refund` -/\ndef snapshotRecordsRefund : Bool := %s\n\n", saBool(refundVal))
	fmt.Fprintf(&sb, "/-- it is appended to `<receiver>.snapshots` unconditionally -/\ndef snapshotPushed : Bool := %s\n\n", saBool(pushed))
	fmt.Fprintf(&sb, "/-- RevertToSnapshot: its unconditional top-level assignments (sorted; receiver = recv, parameter = idx, the local holding `recv.snapshots[idx]` = saved) -/\n")
	fmt.Fprintf(&sb, "def revertAssignments : List String :=\n  %s\n\n", saList(revSet))
	fmt.Fprintf(&sb, "/-- RevertToSnapshot: top-level statements that are neither such an assignment, nor the definition of `saved`, nor the bounds check (inline or in a helper that writes nothing) -/\n")
	fmt.Fprintf(&sb, "def revertOtherStatements : List String :=\n  %s\n\n", saList(revOther))
	fmt.Fprintf(&sb, "/-- every assignment to a `.logs` field in package %s: (function, kind of write) -/\ndef logsWrites : List (String × String) :=\n  %s\n\n", stoDir, saPairs(logsWrites))
	fmt.Fprintf(&sb, "/-- every assignment to a `.memdb` field in package %s -/\ndef memdbPointerWrites : List (String × String) :=\n  %s\n\n", stoDir, saPairs(memdbPtrWrites))
	fmt.Fprintf(&sb, "/-- every assignment to `.Suicided` / `.Suicided[…]` in package %s -/\ndef suicidedWrites : List (String × String) :=\n  %s\n\n", stoDir, saPairs(suicidedWrites))
	sb.WriteString("end OntVerif.Gen.StateAlias\n")
	return sb.String(), nil
}
