package main

import (
	"fmt"
	"go/ast"
	"go/token"
	"path/filepath"
	"strings"
)

// Quorum thresholds (C28, C31, C32, C33, C34): the integer formulas at the sites that seal / commit / verify blocks.
//
// Sites are located by ROLE, not by the names of locals, and formulas are translated after inlining single-definition
// locals (astnorm.go), so that hoisting `N-(N-1)/3` into `quorum`, naming `len(vbftPeerInfo)`, renaming loop variables or
// extracting the counting loop into an unexported helper of the package leave the facts unchanged, while any change of a
// formula, of an operator's strictness or of what is compared still changes (or breaks) them.
func init() { Register("Quorum", genQuorum) }

// atom functions: map the printed form of a Go sub-expression to the Lean variable of the fact.
func atomsExact(m map[string]string) func(string) (string, bool) {
	return func(s string) (string, bool) { v, ok := m[s]; return v, ok }
}

// any len(...) of anything is the counted quantity k
func atomLenIsK(s string) (string, bool) {
	if strings.HasPrefix(s, "len(") && strings.HasSuffix(s, ")") && balanced(s[4:len(s)-1]) {
		return "k", true
	}
	return "", false
}

func balanced(s string) bool {
	d := 0
	for _, c := range s {
		switch c {
		case '(', '[':
			d++
		case ')', ']':
			d--
			if d < 0 {
				return false
			}
		}
	}
	return d == 0
}

// the fault bound of a chain configuration: the local `c`, or any selector chain ending in `.C`
func atomConfigC(s string) (string, bool) {
	if s == "c" || s == "C" || strings.HasSuffix(s, ".C") {
		return "c", true
	}
	return "", false
}

// intExprToLeanF is intExprToLean with an atom function.
func intExprToLeanF(fset *token.FileSet, e ast.Expr, atom func(string) (string, bool)) (string, error) {
	e = stripParens(e)
	s := flat(fset, e)
	if v, ok := atom(s); ok {
		return v, nil
	}
	switch x := e.(type) {
	case *ast.BasicLit:
		if x.Kind == token.INT {
			return x.Value, nil
		}
	case *ast.BinaryExpr:
		l, err := intExprToLeanF(fset, x.X, atom)
		if err != nil {
			return "", err
		}
		r, err := intExprToLeanF(fset, x.Y, atom)
		if err != nil {
			return "", err
		}
		switch x.Op {
		case token.ADD, token.SUB, token.MUL, token.QUO, token.REM:
			return "(" + l + " " + x.Op.String() + " " + r + ")", nil
		}
	case *ast.CallExpr:
		if id, ok := x.Fun.(*ast.Ident); ok && len(x.Args) == 1 {
			switch id.Name {
			case "int", "uint32", "uint64", "int64", "uint", "int32":
				return intExprToLeanF(fset, x.Args[0], atom)
			}
		}
	}
	return "", fmt.Errorf("unsupported expression shape: %s", s)
}

// stripConv removes integer conversions and parentheses around an expression.
func stripConv(e ast.Expr) ast.Expr {
	for {
		e = stripParens(e)
		ce, ok := e.(*ast.CallExpr)
		if !ok || len(ce.Args) != 1 {
			return e
		}
		id, ok := ce.Fun.(*ast.Ident)
		if !ok {
			return e
		}
		switch id.Name {
		case "int", "uint32", "uint64", "int64", "uint", "int32":
			e = ce.Args[0]
		default:
			return e
		}
	}
}

// paramReassign: the right-hand side of the only plain assignment `p = e` to parameter p in fn (nil if none / several).
func paramReassign(fn *ast.FuncDecl, p string) ast.Expr {
	var rhs []ast.Expr
	ast.Inspect(fn.Body, func(n ast.Node) bool {
		if as, ok := n.(*ast.AssignStmt); ok && as.Tok == token.ASSIGN && len(as.Lhs) == 1 && len(as.Rhs) == 1 {
			if id, ok := as.Lhs[0].(*ast.Ident); ok && id.Name == p {
				rhs = append(rhs, as.Rhs[0])
			}
		}
		return true
	})
	if len(rhs) == 1 {
		return rhs[0]
	}
	return nil
}

type qctx struct {
	fset  *token.FileSet
	funcs map[string]*ast.FuncDecl
}

func (q *qctx) fn(name string) (*ast.FuncDecl, error) {
	fd := q.funcs[name]
	if fd == nil {
		return nil, fmt.Errorf("func %s not found", name)
	}
	return fd, nil
}

// mOfVerifyMulti: the threshold argument (index 2) of the idx-th call of signature.VerifyMultiSignature reachable from fn
// (same-package helpers included), with the locals of the function that contains the call inlined.
func (q *qctx) mOfVerifyMulti(fnName string, idx int) (ast.Expr, error) {
	fn, err := q.fn(fnName)
	if err != nil {
		return nil, err
	}
	var found []ast.Expr
	walkDeep(q.funcs, fn, 2, func(n ast.Node, in *ast.FuncDecl) bool {
		if ce, ok := n.(*ast.CallExpr); ok && strings.HasSuffix(flat(q.fset, ce.Fun), "VerifyMultiSignature") && len(ce.Args) == 4 {
			found = append(found, inlineLocals(ce.Args[2], singleDefs(in)))
		}
		return true
	})
	if len(found) <= idx {
		return nil, fmt.Errorf("%s: call #%d of VerifyMultiSignature not found (found %d)", fnName, idx, len(found))
	}
	return found[idx], nil
}

type cmpSite struct {
	x, y ast.Expr // operands after inlining, normalised so that the comparison reads `x OP y` with OP in {>, >=}
	op   token.Token
	in   *ast.FuncDecl
}

// comparisons lists the order comparisons reachable from fn, each normalised to `big OP small` with OP > or >=
// (a < b becomes b > a), operands inlined; guards of if statements and switch cases only.
func (q *qctx) comparisons(fn *ast.FuncDecl, skip map[string]bool) []cmpSite {
	var out []cmpSite
	// `if a <= b { continue }` (body only skips the rest of the iteration) says the same as `if a > b { rest }`:
	// such conditions are recorded negated, so that both spellings give the same site
	negate := map[ast.Expr]bool{}
	walkDeep(q.funcs, fn, 2, func(n ast.Node, in *ast.FuncDecl) bool {
		if skip[in.Name.Name] {
			return false
		}
		if is, ok := n.(*ast.IfStmt); ok && is.Else == nil && len(is.Body.List) > 0 {
			if br, ok := is.Body.List[len(is.Body.List)-1].(*ast.BranchStmt); ok && br.Tok == token.CONTINUE && len(is.Body.List) == 1 {
				negate[stripParens(is.Cond)] = true
			}
		}
		be, ok := n.(*ast.BinaryExpr)
		if !ok {
			return true
		}
		defs := singleDefs(in)
		x, y := inlineLocals(be.X, defs), inlineLocals(be.Y, defs)
		op := be.Op
		if negate[be] {
			switch op {
			case token.GTR:
				op = token.LEQ
			case token.GEQ:
				op = token.LSS
			case token.LSS:
				op = token.GEQ
			case token.LEQ:
				op = token.GTR
			}
		}
		switch op {
		case token.GTR, token.GEQ:
			out = append(out, cmpSite{x, y, op, in})
		case token.LSS:
			out = append(out, cmpSite{y, x, token.GTR, in})
		case token.LEQ:
			out = append(out, cmpSite{y, x, token.GEQ, in})
		}
		return true
	})
	return out
}

func genQuorum(repo string) (string, error) {
	var sb strings.Builder
	sb.WriteString("namespace OntVerif.Gen.Quorum\n\n")
	emit := func(lean, where, doc, param string, e ast.Expr, fset *token.FileSet, atom func(string) (string, bool)) error {
		l, err := intExprToLeanF(fset, e, atom)
		if err != nil {
			return fmt.Errorf("%s: %v", where, err)
		}
		fmt.Fprintf(&sb, "/-- %s — %s. Go source (locals inlined): `%s` -/\ndef %s (%s : Nat) : Nat := %s\n\n", where, doc, flat(fset, stripParens(e)), lean, param, l)
		return nil
	}
	pkg := func(dir string) (*qctx, error) {
		fset, funcs, err := pkgFuncs(repo, dir)
		if err != nil {
			return nil, fmt.Errorf("%s: %v", dir, err)
		}
		return &qctx{fset, funcs}, nil
	}
	nOf := func(names ...string) func(string) (string, bool) {
		m := map[string]string{}
		for _, n := range names {
			m[n] = "n"
		}
		return atomsExact(m)
	}

	// --- VerifyMultiSignature thresholds
	val, err := pkg("core/validation")
	if err != nil {
		return "", err
	}
	e, err := val.mOfVerifyMulti("VerifyBlock", 0)
	if err != nil {
		return "", err
	}
	if err := emit("blockValidator_m", "core/validation:VerifyBlock", "signatures required by the block validator for n bookkeepers", "n", e, val.fset, nOf("len(header.Bookkeepers)", "len(block.Header.Bookkeepers)")); err != nil {
		return "", err
	}

	vb, err := pkg("consensus/vbft")
	if err != nil {
		return "", err
	}
	// getCommitConsensus: the guard of the return of a proposer other than the math.MaxUint32 sentinel
	gcc, err := vb.fn("getCommitConsensus")
	if err != nil {
		return "", err
	}
	var ccX, ccY ast.Expr
	defs := singleDefs(gcc)
	guardsOf(gcc.Body.List, nil, func(s ast.Stmt, gs []cond) {
		rs, ok := s.(*ast.ReturnStmt)
		if !ok || len(rs.Results) != 2 || strings.Contains(flat(vb.fset, rs.Results[0]), "MaxUint32") || len(gs) == 0 || ccX != nil {
			return
		}
		g := gs[len(gs)-1]
		be, ok := stripParens(g.e).(*ast.BinaryExpr)
		if !ok {
			return
		}
		op := be.Op
		if !g.pos { // reached because the condition was FALSE: `if k+1 < q { continue }; return proposer`
			switch op {
			case token.LSS:
				op = token.GEQ
			case token.GTR:
				op = token.LEQ
			default:
				return
			}
		}
		x, y := inlineLocals(be.X, defs), inlineLocals(be.Y, defs)
		switch op {
		case token.GEQ:
			ccX, ccY = x, y
		case token.LEQ:
			ccX, ccY = y, x
		}
	})
	if ccX == nil {
		return "", fmt.Errorf("consensus/vbft:getCommitConsensus: no `count >= quorum` guard of a return of a proposer found")
	}
	if err := emit("commitConsensus_q", "consensus/vbft:getCommitConsensus", "right-hand side of the guard `k+1 >= q` under which a proposer is returned", "N", ccY, vb.fset, atomsExact(map[string]string{"N": "N"})); err != nil {
		return "", err
	}
	if err := emit("commitConsensus_lhs", "consensus/vbft:getCommitConsensus", "left-hand side of that guard, k = distinct signers counted for the proposer", "k", ccX, vb.fset, atomLenIsK); err != nil {
		return "", err
	}

	// commitDone (signature-count fallback): `cnt[proposer] > T` with T the signature quorum bound; T is either the
	// reassigned parameter C or a local; located as the comparison whose big side is a map lookup
	cd, err := vb.fn("commitDone")
	if err != nil {
		return "", err
	}
	var cdT ast.Expr
	cdOp := token.ILLEGAL
	for _, c := range vb.comparisons(cd, map[string]bool{"getCommitConsensus": true, "isEndorser": true}) {
		if _, ok := stripParens(c.x).(*ast.IndexExpr); !ok {
			continue
		}
		t := c.y
		if id, ok := stripParens(t).(*ast.Ident); ok {
			if r := paramReassign(c.in, id.Name); r != nil {
				t = inlineLocals(r, singleDefs(c.in))
			}
		}
		cdT, cdOp = t, c.op
		break
	}
	if cdT == nil {
		return "", fmt.Errorf("consensus/vbft:commitDone: no `count[proposer] > bound` comparison found")
	}
	if err := emit("commitDone_C", "consensus/vbft:commitDone", "signature-quorum bound T, consensus when count OP T", "N", cdT, vb.fset, atomsExact(map[string]string{"N": "N"})); err != nil {
		return "", err
	}

	ty, err := pkg("core/types")
	if err != nil {
		return "", err
	}
	afb, err := ty.fn("AddressFromBookkeepers")
	if err != nil {
		return "", err
	}
	var afbM ast.Expr
	ast.Inspect(afb.Body, func(n ast.Node) bool {
		if ce, ok := n.(*ast.CallExpr); ok && afbM == nil && strings.HasSuffix(flat(ty.fset, ce.Fun), "AddressFromMultiPubKeys") && len(ce.Args) == 2 {
			afbM = inlineLocals(ce.Args[1], singleDefs(afb))
		}
		return true
	})
	if afbM == nil {
		return "", fmt.Errorf("core/types:AddressFromBookkeepers: call of AddressFromMultiPubKeys not found")
	}
	if err := emit("addrFromBookkeepers_m", "core/types:AddressFromBookkeepers", "m of the m-of-n bookkeeper address", "n", afbM, ty.fset, nOf("len(bookkeepers)")); err != nil {
		return "", err
	}

	ls, err := pkg(filepath.Join("core", "store", "ledgerstore"))
	if err != nil {
		return "", err
	}
	e, err = ls.mOfVerifyMulti("verifyHeader", 0)
	if err != nil {
		return "", err
	}
	if err := emit("ledgerStore_vbft_m", "core/store/ledgerstore:verifyHeader", "VBFT branch: signatures verified for a peer set of size n", "n", e, ls.fset, nOf("len(vbftPeerInfo)")); err != nil {
		return "", err
	}
	// distinct listed members: the comparison `len(<set of distinct members>) < bound` with bound built from the config's C
	vh, _ := ls.fn("verifyHeader")
	var memB ast.Expr
	for _, c := range ls.comparisons(vh, nil) {
		// normalised: bound > len(set)  (from len(set) < bound)
		if c.op != token.GTR {
			continue
		}
		if ce, ok := stripConv(c.y).(*ast.CallExpr); ok && flat(ls.fset, ce.Fun) == "len" {
			if l, err := intExprToLeanF(ls.fset, c.x, atomConfigC); err == nil && strings.Contains(l, "c") {
				memB = c.x
				break
			}
		}
	}
	if memB == nil {
		return "", fmt.Errorf("core/store/ledgerstore:verifyHeader: no `len(distinct members) < bound(C)` comparison found")
	}
	if err := emit("ledgerStore_vbft_members", "core/store/ledgerstore:verifyHeader", "VBFT branch: distinct listed members required (`len(members) < bound` rejects)", "c", memB, ls.fset, atomConfigC); err != nil {
		return "", err
	}
	e, err = ls.mOfVerifyMulti("verifyHeader", 1)
	if err != nil {
		return "", err
	}
	if err := emit("ledgerStore_m", "core/store/ledgerstore:verifyHeader", "non-VBFT branch", "n", e, ls.fset, nOf("len(header.Bookkeepers)")); err != nil {
		return "", err
	}
	e, err = ls.mOfVerifyMulti("verifyCrossChainMsg", 1)
	if err != nil {
		return "", err
	}
	if err := emit("crossChainMsg_m", "core/store/ledgerstore:verifyCrossChainMsg", "non-VBFT branch", "n", e, ls.fset, nOf("len(bookkeepers)")); err != nil {
		return "", err
	}

	// endorseDone: minimum number of endorsers (`len(EndorseSigs) < bound` gives up) and the strict count comparison
	ed, err := vb.fn("endorseDone")
	if err != nil {
		return "", err
	}
	var edMin ast.Expr
	edOp := token.ILLEGAL
	for _, c := range vb.comparisons(ed, map[string]bool{"isEndorser": true}) {
		if ce, ok := stripConv(c.y).(*ast.CallExpr); ok && flat(vb.fset, ce.Fun) == "len" && c.op == token.GTR && edMin == nil {
			edMin = c.x // bound > len(..)
		}
		if _, ok := stripParens(c.x).(*ast.IndexExpr); ok && edOp == token.ILLEGAL {
			if flat(vb.fset, stripConv(c.y)) != "C" {
				return "", fmt.Errorf("consensus/vbft:endorseDone: count compared with `%s`, expected C", flat(vb.fset, c.y))
			}
			edOp = c.op
		}
	}
	if edMin == nil || edOp == token.ILLEGAL {
		return "", fmt.Errorf("consensus/vbft:endorseDone: comparisons `len(EndorseSigs) < bound` / `count[proposer] > C` not found")
	}
	if err := emit("endorseDone_min", "consensus/vbft:endorseDone", "minimum number of endorsers before counting", "C", edMin, vb.fset, atomsExact(map[string]string{"C": "C"})); err != nil {
		return "", err
	}
	strict := map[token.Token]string{token.GTR: "C + 1", token.GEQ: "C"}
	fmt.Fprintf(&sb, "/-- consensus/vbft:endorseDone — `count[proposer] %s C` declares consensus; as a threshold on the count -/\ndef endorseDone_strict (C : Nat) : Nat := %s\n\n", edOp, strict[edOp])
	fmt.Fprintf(&sb, "/-- consensus/vbft:commitDone — `count[proposer] %s T` declares consensus; as a threshold on the count -/\ndef commitDone_strict (C : Nat) : Nat := %s\n\n", cdOp, strict[cdOp])
	sb.WriteString("end OntVerif.Gen.Quorum\n")
	return sb.String(), nil
}
