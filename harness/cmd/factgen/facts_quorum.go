package main

import (
	"fmt"
	"go/ast"
	"go/token"
	"strings"
)

// Quorum thresholds (C28, C31, C32): the integer formulas at the five sites that seal / commit / verify blocks.
func init() { Register("Quorum", genQuorum) }

type qsite struct {
	lean, file, fn string
	pick           func(fset *token.FileSet, fn *ast.FuncDecl) (ast.Expr, error)
	atoms          map[string]string
	param          string
	doc            string
}

func nthAssign(name string, n int) func(*token.FileSet, *ast.FuncDecl) (ast.Expr, error) {
	return func(fset *token.FileSet, fn *ast.FuncDecl) (ast.Expr, error) {
		as := assignsTo(fn, name)
		if len(as) <= n {
			return nil, fmt.Errorf("assignment #%d to %q not found", n, name)
		}
		return as[n], nil
	}
}

// rhsOfCompare: the right operand of the first comparison `lhs OP rhs` whose printed left operand contains lhsHas.
func rhsOfCompare(op token.Token, lhsHas string) func(*token.FileSet, *ast.FuncDecl) (ast.Expr, error) {
	return func(fset *token.FileSet, fn *ast.FuncDecl) (ast.Expr, error) {
		var found ast.Expr
		ast.Inspect(fn.Body, func(n ast.Node) bool {
			if be, ok := n.(*ast.BinaryExpr); ok && found == nil && be.Op == op && strings.Contains(exprString(fset, be.X), lhsHas) {
				found = be.Y
			}
			return true
		})
		if found == nil {
			return nil, fmt.Errorf("comparison %s with left operand containing %q not found", op, lhsHas)
		}
		return found, nil
	}
}

func lhsOfCompare(op token.Token, lhsHas string) func(*token.FileSet, *ast.FuncDecl) (ast.Expr, error) {
	return func(fset *token.FileSet, fn *ast.FuncDecl) (ast.Expr, error) {
		var found ast.Expr
		ast.Inspect(fn.Body, func(n ast.Node) bool {
			if be, ok := n.(*ast.BinaryExpr); ok && found == nil && be.Op == op && strings.Contains(exprString(fset, be.X), lhsHas) {
				found = be.X
			}
			return true
		})
		if found == nil {
			return nil, fmt.Errorf("comparison %s with left operand containing %q not found", op, lhsHas)
		}
		return found, nil
	}
}

// second argument of the first call to callee
func argOfCall(callee string, idx int) func(*token.FileSet, *ast.FuncDecl) (ast.Expr, error) {
	return func(fset *token.FileSet, fn *ast.FuncDecl) (ast.Expr, error) {
		var found ast.Expr
		ast.Inspect(fn.Body, func(n ast.Node) bool {
			if ce, ok := n.(*ast.CallExpr); ok && found == nil && exprString(fset, ce.Fun) == callee && len(ce.Args) > idx {
				found = ce.Args[idx]
			}
			return true
		})
		if found == nil {
			return nil, fmt.Errorf("call %s not found", callee)
		}
		return found, nil
	}
}

func genQuorum(repo string) (string, error) {
	sites := []qsite{
		{"blockValidator_m", "core/validation/block_validator.go", "VerifyBlock", nthAssign("m", 0),
			map[string]string{"len(header.Bookkeepers)": "n"}, "n", "signatures required by the block validator for n bookkeepers"},
		{"commitConsensus_q", "consensus/vbft/node_utils.go", "getCommitConsensus", rhsOfCompare(token.GEQ, "len(signCount["),
			map[string]string{"N": "N"}, "N", "getCommitConsensus: right-hand side of `len(signers)+1 >= q`"},
		{"commitConsensus_lhs", "consensus/vbft/node_utils.go", "getCommitConsensus", lhsOfCompare(token.GEQ, "len(signCount["),
			map[string]string{"len(signCount[c.BlockProposer])": "k"}, "k", "getCommitConsensus: left-hand side, k = distinct signers counted for the proposer"},
		{"commitDone_C", "consensus/vbft/block_pool.go", "commitDone", nthAssign("C", 0),
			map[string]string{"N": "N"}, "N", "commitDone: signature-quorum bound, consensus when count > C"},
		{"addrFromBookkeepers_m", "core/types/address.go", "AddressFromBookkeepers", argOfCall("AddressFromMultiPubKeys", 1),
			map[string]string{"len(bookkeepers)": "n"}, "n", "m of the m-of-n bookkeeper address"},
		{"ledgerStore_vbft_m", "core/store/ledgerstore/ledger_store.go", "verifyHeader", nthAssign("m", 0),
			map[string]string{"len(vbftPeerInfo)": "n"}, "n", "verifyHeader, VBFT branch: signatures verified for a peer set of size n"},
		{"ledgerStore_vbft_members", "core/store/ledgerstore/ledger_store.go", "verifyHeader", rhsOfCompare(token.LSS, "len(usedPubKey)"),
			map[string]string{"c": "c"}, "c", "verifyHeader, VBFT branch: distinct listed members required (`len(usedPubKey) < c+1` rejects)"},
		{"ledgerStore_m", "core/store/ledgerstore/ledger_store.go", "verifyHeader", nthAssign("m", 1),
			map[string]string{"len(header.Bookkeepers)": "n"}, "n", "verifyHeader, non-VBFT branch"},
		{"crossChainMsg_m", "core/store/ledgerstore/ledger_store.go", "verifyCrossChainMsg", nthAssign("m", 0),
			map[string]string{"len(bookkeepers)": "n"}, "n", "verifyCrossChainMsg, non-VBFT branch"},
		{"endorseDone_min", "consensus/vbft/block_pool.go", "endorseDone", rhsOfCompare(token.LSS, "len(candidate.EndorseSigs)"),
			map[string]string{"C": "C"}, "C", "endorseDone: minimum number of endorsers before counting"},
	}
	var sb strings.Builder
	sb.WriteString("namespace OntVerif.Gen.Quorum\n\n")
	for _, s := range sites {
		fset, f, err := parseFile(repo, s.file)
		if err != nil {
			return "", err
		}
		fn := findFunc(f, s.fn)
		if fn == nil {
			return "", fmt.Errorf("%s: func %s not found", s.file, s.fn)
		}
		e, err := s.pick(fset, fn)
		if err != nil {
			return "", fmt.Errorf("%s:%s: %v", s.file, s.fn, err)
		}
		lean, err := intExprToLean(fset, e, s.atoms)
		if err != nil {
			return "", fmt.Errorf("%s:%s: %v", s.file, s.fn, err)
		}
		fmt.Fprintf(&sb, "/-- %s:%s — %s. Go source: `%s` -/\ndef %s (%s : Nat) : Nat := %s\n\n", s.file, s.fn, s.doc, exprString(fset, e), s.lean, s.param, lean)
	}
	// endorseDone / commitDone compare `count > C`: extract the operator to be sure it is strict
	for _, c := range []struct{ lean, file, fn, lhsHas string }{
		{"endorseDone_strict", "consensus/vbft/block_pool.go", "endorseDone", "endorseCount[esig.EndorsedProposer]"},
		{"commitDone_strict", "consensus/vbft/block_pool.go", "commitDone", "endorseCnt[sig.EndorsedProposer]"},
	} {
		fset, f, err := parseFile(repo, c.file)
		if err != nil {
			return "", err
		}
		fn := findFunc(f, c.fn)
		if fn == nil {
			return "", fmt.Errorf("%s: func %s not found", c.file, c.fn)
		}
		op := ""
		ast.Inspect(fn.Body, func(n ast.Node) bool {
			if be, ok := n.(*ast.BinaryExpr); ok && op == "" && exprString(fset, be.X) == c.lhsHas && exprString(fset, be.Y) == "C" {
				op = be.Op.String()
			}
			return true
		})
		if op != ">" && op != ">=" {
			return "", fmt.Errorf("%s:%s: comparison `%s OP C` not found", c.file, c.fn, c.lhsHas)
		}
		fmt.Fprintf(&sb, "/-- %s:%s — `%s %s C` declares consensus; as a threshold on the count -/\ndef %s (C : Nat) : Nat := %s\n\n",
			c.file, c.fn, c.lhsHas, op, c.lean, map[string]string{">": "C + 1", ">=": "C"}[op])
	}
	sb.WriteString("end OntVerif.Gen.Quorum\n")
	return sb.String(), nil
}
