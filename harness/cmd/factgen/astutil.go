package main

import (
	"fmt"
	"go/ast"
	"go/parser"
	"go/printer"
	"go/token"
	"path/filepath"
	"strings"
)

// parseFile parses one Go file of the repository.
func parseFile(repo, rel string) (*token.FileSet, *ast.File, error) {
	fset := token.NewFileSet()
	f, err := parser.ParseFile(fset, filepath.Join(repo, rel), nil, parser.ParseComments)
	if err != nil {
		return nil, nil, fmt.Errorf("%s: %v", rel, err)
	}
	return fset, f, nil
}

// findFunc returns the function (or method) declaration with the given name.
func findFunc(f *ast.File, name string) *ast.FuncDecl {
	for _, d := range f.Decls {
		if fd, ok := d.(*ast.FuncDecl); ok && fd.Name.Name == name {
			return fd
		}
	}
	return nil
}

func exprString(fset *token.FileSet, e ast.Node) string {
	var sb strings.Builder
	printer.Fprint(&sb, fset, e)
	return sb.String()
}

// assignsTo returns the right-hand sides of every `name := expr` / `name = expr` inside fn, in source order.
func assignsTo(fn *ast.FuncDecl, name string) []ast.Expr {
	var out []ast.Expr
	ast.Inspect(fn.Body, func(n ast.Node) bool {
		if as, ok := n.(*ast.AssignStmt); ok && len(as.Lhs) == 1 && len(as.Rhs) == 1 {
			if id, ok := as.Lhs[0].(*ast.Ident); ok && id.Name == name {
				out = append(out, as.Rhs[0])
			}
		}
		return true
	})
	return out
}

// intExprToLean translates a loop-free Go integer expression into a Lean Nat expression.
// atoms maps the printed form of a Go sub-expression (e.g. "len(header.Bookkeepers)", "N", "int(C)") to a Lean variable.
// Supported: + - * / %, parentheses, integer literals, conversions int(..)/uint32(..)/uint64(..)/int64(..) of supported terms.
// Go's truncated subtraction on non-negative operands is NOT Nat subtraction when the result would be negative; callers
// state the non-negativity side conditions in the theorems (documented in DESIGN §7).
func intExprToLean(fset *token.FileSet, e ast.Expr, atoms map[string]string) (string, error) {
	s := exprString(fset, e)
	if v, ok := atoms[s]; ok {
		return v, nil
	}
	switch x := e.(type) {
	case *ast.ParenExpr:
		in, err := intExprToLean(fset, x.X, atoms)
		if err != nil {
			return "", err
		}
		return "(" + in + ")", nil
	case *ast.BasicLit:
		if x.Kind == token.INT {
			return x.Value, nil
		}
	case *ast.BinaryExpr:
		l, err := intExprToLean(fset, x.X, atoms)
		if err != nil {
			return "", err
		}
		r, err := intExprToLean(fset, x.Y, atoms)
		if err != nil {
			return "", err
		}
		switch x.Op {
		case token.ADD, token.SUB, token.MUL, token.QUO, token.REM:
			return "(" + l + " " + x.Op.String() + " " + r + ")", nil
		}
	case *ast.CallExpr:
		if id, ok := x.Fun.(*ast.Ident); ok && len(x.Args) == 1 {
			switch id.Name {
			case "int", "uint32", "uint64", "int64", "uint", "int32":
				return intExprToLean(fset, x.Args[0], atoms)
			}
		}
	}
	return "", fmt.Errorf("unsupported expression shape: %s", s)
}
