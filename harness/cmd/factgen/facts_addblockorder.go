package main

// Fact group "AddBlockOrder" (property C39): the order of validation guards and state-changing calls in the add-block pipeline
// of core/store/ledgerstore/ledger_store.go.
//
// For each of AddBlock, SubmitBlock, AddHeader, saveBlock, submitBlock the TOP-LEVEL statements of the body are turned into
// events, in source order:
//   guard:<cond>     `if <cond> { … return <non-nil error> }` where <cond> is not a bare `err != nil`
//   errguard:<call>  `if err != nil { return … }` (propagation of the error of the preceding call)
//   stop:<cond>      `if <cond> { return nil }`
//   write:<callee>   a call (statement, or right-hand side of an assignment / return) of an in-package function from which a
//                    store-writing method or one of the in-memory mutators (setHeaderIndex, setCurrentBlock, addHeaderCache,
//                    delHeaderCache, AddBlockMerkleTreeRoot, AddStateMerkleTreeRoot, cache.AddBlock) is reachable (by name), or of
//                    such a method itself
//   call:<callee>    any other call statement
//   block:<cond>     an `if` that is none of the above (e.g. `if ccMsg != nil { … }`); its inner guards are listed after it
// and for verifyHeader: the list of write calls reachable from it (must be empty for the non-VBFT path; the VBFT path records the
// peer table in memory after its signature check and is reported separately).
// Props/C39.lean proves from these lists that no guard / stop follows a write in any of the five functions.

import (
	"fmt"
	"go/ast"
	"go/token"
	"strings"
)

func init() { Register("AddBlockOrder", genAddBlockOrder) }

var memMutators = map[string]bool{"setHeaderIndex": true, "setCurrentBlock": true, "addHeaderCache": true, "delHeaderCache": true,
	"AddBlockMerkleTreeRoot": true, "AddStateMerkleTreeRoot": true, "AddBlock": false}

func aboWrites(byName map[string][]*peFunc, callee string) bool {
	if storeWriteNames[callee] || memMutators[callee] {
		return true
	}
	fs := byName[callee]
	if len(fs) == 0 {
		return false
	}
	seen := map[string]bool{}
	queue := append([]*peFunc{}, fs...)
	for len(queue) > 0 {
		f := queue[0]
		queue = queue[1:]
		if seen[f.name] {
			continue
		}
		seen[f.name] = true
		for _, c := range f.calls {
			if storeWriteNames[c] || memMutators[c] {
				return true
			}
			for _, g := range byName[c] {
				if !seen[g.name] {
					queue = append(queue, g)
				}
			}
		}
	}
	return false
}

func aboCallee(e ast.Expr) (*ast.CallExpr, string, bool) {
	ce, ok := e.(*ast.CallExpr)
	if !ok {
		return nil, "", false
	}
	switch fn := ce.Fun.(type) {
	case *ast.Ident:
		return ce, fn.Name, true
	case *ast.SelectorExpr:
		return ce, fn.Sel.Name, true
	}
	return nil, "", false
}

// a function literal among the arguments that (transitively, by name) writes makes the call a write
func aboFuncLitWrites(byName map[string][]*peFunc, ce *ast.CallExpr) bool {
	found := false
	for _, a := range ce.Args {
		fl, ok := a.(*ast.FuncLit)
		if !ok {
			continue
		}
		ast.Inspect(fl.Body, func(n ast.Node) bool {
			if c, ok := n.(*ast.CallExpr); ok {
				if _, name, ok := aboCallee(c); ok && aboWrites(byName, name) {
					found = true
				}
			}
			return true
		})
	}
	return found
}

func aboReturnsNil(body *ast.BlockStmt) (isReturn, isNil bool) {
	if len(body.List) == 0 {
		return false, false
	}
	rs, ok := body.List[len(body.List)-1].(*ast.ReturnStmt)
	if !ok {
		return false, false
	}
	if len(rs.Results) == 0 {
		return true, false // named results (`err = …; return`): treated as an error return
	}
	last := rs.Results[len(rs.Results)-1]
	if id, ok := last.(*ast.Ident); ok && id.Name == "nil" {
		return true, true
	}
	return true, false
}

func aboEvents(fset *token.FileSet, byName map[string][]*peFunc, stmts []ast.Stmt) []string {
	var ev []string
	lastCall := ""
	emitCall := func(e ast.Expr) {
		if ce, name, ok := aboCallee(e); ok {
			lastCall = name
			text := exprString(fset, ce.Fun) // the printed callee expression, e.g. this.blockStore.NewBatch
			if aboWrites(byName, name) || aboFuncLitWrites(byName, ce) {
				ev = append(ev, "write:"+text)
			} else {
				ev = append(ev, "call:"+text)
			}
		}
	}
	for _, st := range stmts {
		switch s := st.(type) {
		case *ast.ExprStmt:
			emitCall(s.X)
		case *ast.AssignStmt:
			for _, r := range s.Rhs {
				emitCall(r)
			}
		case *ast.ReturnStmt:
			for _, r := range s.Results {
				emitCall(r)
			}
		case *ast.RangeStmt:
			ev = append(ev, "loop:"+exprString(fset, s.X))
			ev = append(ev, aboEvents(fset, byName, s.Body.List)...)
			ev = append(ev, "endloop")
		case *ast.ForStmt:
			ev = append(ev, "loop:")
			ev = append(ev, aboEvents(fset, byName, s.Body.List)...)
			ev = append(ev, "endloop")
		case *ast.IfStmt:
			if s.Init != nil {
				if as, ok := s.Init.(*ast.AssignStmt); ok {
					for _, r := range as.Rhs {
						emitCall(r)
					}
				}
			}
			cond := exprString(fset, s.Cond)
			isRet, isNil := aboReturnsNil(s.Body)
			switch {
			case isRet && isNil:
				ev = append(ev, "stop:"+cond)
			case isRet && cond == "err != nil":
				ev = append(ev, "errguard:"+lastCall)
			case isRet:
				ev = append(ev, "guard:"+cond)
			default:
				ev = append(ev, "block:"+cond)
				ev = append(ev, aboEvents(fset, byName, s.Body.List)...)
				if eb, ok := s.Else.(*ast.BlockStmt); ok {
					ev = append(ev, "else")
					ev = append(ev, aboEvents(fset, byName, eb.List)...)
				}
				ev = append(ev, "endblock")
			}
		}
	}
	return ev
}

func leanPairList(evs []string) string {
	var q []string
	for _, e := range evs {
		kind, text := e, ""
		if i := strings.Index(e, ":"); i >= 0 {
			kind, text = e[:i], e[i+1:]
		}
		q = append(q, fmt.Sprintf("(%q, %q)", kind, text))
	}
	return "[" + strings.Join(q, ",\n   ") + "]"
}

func genAddBlockOrder(repo string) (string, error) {
	const file = "core/store/ledgerstore/ledger_store.go"
	byName, err := peCollect(repo, "core/store/ledgerstore")
	if err != nil {
		return "", err
	}
	fset, f, err := parseFile(repo, file)
	if err != nil {
		return "", err
	}
	var sb strings.Builder
	sb.WriteString("namespace OntVerif.Gen.AddBlockOrder\n\n")
	for _, fn := range []string{"AddBlock", "SubmitBlock", "AddHeader", "saveBlock", "submitBlock"} {
		fd := findFunc(f, fn)
		if fd == nil {
			return "", fmt.Errorf("%s: func %s not found", file, fn)
		}
		ev := aboEvents(fset, byName, fd.Body.List)
		hasGuard := false
		for _, e := range ev {
			if strings.HasPrefix(e, "guard:") || strings.HasPrefix(e, "errguard:") {
				hasGuard = true
			}
		}
		if !hasGuard {
			return "", fmt.Errorf("%s:%s: no guard found — unexpected shape", file, fn)
		}
		lean := strings.ToLower(fn[:1]) + fn[1:]
		if fn == "SubmitBlock" {
			lean = "submitBlockPublic"
		}
		fmt.Fprintf(&sb, "/-- %s:%s — top-level statements as (kind, text) events, in source order -/\ndef %s : List (String × String) :=\n  %s\n\n", file, fn, lean, leanPairList(ev))
	}
	for _, fn := range []string{"saveBlockToBlockStore", "saveBlockToStateStore", "saveBlockToEventStore"} {
		fd := findFunc(f, fn)
		if fd == nil {
			return "", fmt.Errorf("%s: func %s not found", file, fn)
		}
		fmt.Fprintf(&sb, "/-- %s:%s — statements as (kind, text) events, in source order -/\ndef %s : List (String × String) :=\n  %s\n\n", file, fn, fn, leanPairList(aboEvents(fset, byName, fd.Body.List)))
	}
	// verifyHeader, non-VBFT path: the statements before `if consensusType == "vbft"` and the statements of its else branch
	vh := findFunc(f, "verifyHeader")
	if vh == nil {
		return "", fmt.Errorf("%s: func verifyHeader not found", file)
	}
	var solo []string
	foundSplit := false
	for i, st := range vh.Body.List {
		if is, ok := st.(*ast.IfStmt); ok && strings.Contains(exprString(fset, is.Cond), "\"vbft\"") {
			eb, ok := is.Else.(*ast.BlockStmt)
			if !ok {
				return "", fmt.Errorf("%s:verifyHeader: the vbft `if` has no else block", file)
			}
			solo = append(aboEvents(fset, byName, vh.Body.List[:i]), aboEvents(fset, byName, eb.List)...)
			for _, rest := range vh.Body.List[i+1:] {
				if _, ok := rest.(*ast.ReturnStmt); !ok {
					return "", fmt.Errorf("%s:verifyHeader: unexpected statement after the consensus-type branch", file)
				}
			}
			foundSplit = true
			break
		}
	}
	if !foundSplit {
		return "", fmt.Errorf("%s:verifyHeader: `if consensusType == \"vbft\"` not found", file)
	}
	fmt.Fprintf(&sb, "/-- %s:verifyHeader — non-VBFT path (statements before the consensus-type branch, then its else block) -/\ndef verifyHeaderSolo : List (String × String) :=\n  %s\n\n", file, leanPairList(solo))
	_, vw, err := peWalk(byName, []string{"verifyHeader"})
	if err != nil {
		return "", err
	}
	fmt.Fprintf(&sb, "/-- store-writing calls reachable (by name) from verifyHeader -/\ndef verifyHeaderStoreWrites : List String :=\n  %s\n\n", leanStrList(vw))
	sb.WriteString("end OntVerif.Gen.AddBlockOrder\n")
	return sb.String(), nil
}
