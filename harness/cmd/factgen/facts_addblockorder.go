package main

// Fact group "AddBlockOrder" (property C39): the order of validation guards and state-changing calls in the add-block pipeline
// of core/store/ledgerstore/ledger_store.go.
//
// For each of AddBlock, SubmitBlock, AddHeader, saveBlock, submitBlock the TOP-LEVEL statements of the body are turned into
// events, in source order:
//   guard:<cond>     `if <cond> { … return <non-nil error> }` where <cond> is not a bare `err != nil`
//   errguard:<call>  `if err != nil { return … }` (propagation of the error of the preceding call)
//   stop:<cond>      `if <cond> { return nil }`
//   write:<callee>   a call (statement, or right-hand side of an assignment / return) of an in-package function from which a
//                    store-writing method or one of the in-memory mutators (setHeaderIndex, setCurrentBlock, addHeaderCache,
//                    delHeaderCache, AddBlockMerkleTreeRoot, AddStateMerkleTreeRoot, cache.AddBlock) is reachable (by name), or of
//                    such a method itself
//   call:<callee>    any other call statement
//   block:<cond>     an `if` that is none of the above (e.g. `if ccMsg != nil { … }`); its inner guards are listed after it
// and for verifyHeader: the list of write calls reachable from it (must be empty for the non-VBFT path; the VBFT path records the
// peer table in memory after its signature check and is reported separately).
// Props/C39.lean proves from these lists that no guard / stop follows a write in any of the five functions.

import (
	"fmt"
	"go/ast"
	"go/scanner"
	"go/token"
	"strings"
)

func init() { Register("AddBlockOrder", genAddBlockOrder) }

var memMutators = map[string]bool{"setHeaderIndex": true, "setCurrentBlock": true, "addHeaderCache": true, "delHeaderCache": true,
	"AddBlockMerkleTreeRoot": true, "AddStateMerkleTreeRoot": true, "AddBlock": false}

func aboWrites(byName map[string][]*peFunc, callee string) bool {
	if storeWriteNames[callee] || memMutators[callee] {
		return true
	}
	fs := byName[callee]
	if len(fs) == 0 {
		return false
	}
	seen := map[string]bool{}
	queue := append([]*peFunc{}, fs...)
	for len(queue) > 0 {
		f := queue[0]
		queue = queue[1:]
		if seen[f.name] {
			continue
		}
		seen[f.name] = true
		for _, c := range f.calls {
			if storeWriteNames[c] || memMutators[c] {
				return true
			}
			for _, g := range byName[c] {
				if !seen[g.name] {
					queue = append(queue, g)
				}
			}
		}
	}
	return false
}

func aboCallee(e ast.Expr) (*ast.CallExpr, string, bool) {
	ce, ok := e.(*ast.CallExpr)
	if !ok {
		return nil, "", false
	}
	switch fn := ce.Fun.(type) {
	case *ast.Ident:
		return ce, fn.Name, true
	case *ast.SelectorExpr:
		return ce, fn.Sel.Name, true
	}
	return nil, "", false
}

// a function literal among the arguments that (transitively, by name) writes makes the call a write
func aboFuncLitWrites(byName map[string][]*peFunc, ce *ast.CallExpr) bool {
	found := false
	for _, a := range ce.Args {
		fl, ok := a.(*ast.FuncLit)
		if !ok {
			continue
		}
		ast.Inspect(fl.Body, func(n ast.Node) bool {
			if c, ok := n.(*ast.CallExpr); ok {
				if _, name, ok := aboCallee(c); ok && aboWrites(byName, name) {
					found = true
				}
			}
			return true
		})
	}
	return found
}

func aboReturnsNil(body *ast.BlockStmt) (isReturn, isNil bool) {
	if len(body.List) == 0 {
		return false, false
	}
	rs, ok := body.List[len(body.List)-1].(*ast.ReturnStmt)
	if !ok {
		return false, false
	}
	if len(rs.Results) == 0 {
		return true, false // named results (`err = …; return`): treated as an error return
	}
	last := rs.Results[len(rs.Results)-1]
	if id, ok := last.(*ast.Ident); ok && id.Name == "nil" {
		return true, true
	}
	return true, false
}

// ---- flattened, canonical event extraction -------------------------------------------------------------------------------
//
// An entry point (AddBlock, SubmitBlock, AddHeader) is turned into ONE list of events in execution order.  Calls of same-package
// pipeline helpers are expanded in place (their parameters replaced by the actual arguments), so it does not matter whether a
// block of statements lives in the entry point, in `saveBlock`/`submitBlock`/`saveBlockTo*Store`/`verifyHeader` or in a helper that
// was extracted from (or inlined into) one of them.  Texts are canonical: simply-defined locals are inlined (astnorm.inlineLocals),
// locals bound by a multi-value call are written `<callee>#<i>`, the receiver is written `this`, white space is dropped — renaming
// a local or hoisting a sub-expression does not change them.  `if c { return e }`, `if !c { … } else { return e }` and
// `if c { return e } else { … }` give the same guard event.
//
// kinds: guard (return of an error under a condition), stop (return nil under a condition), errguard (propagation of the error of
// the preceding leaf call, text = its bare name), write (leaf call from which a store-writing method or in-memory mutator is
// reachable; text = canonical callee), and the same with prefix `c` for events inside a conditional block that does not return
// (cguard, cstop, cerrguard, cwrite).  Plain calls are not listed.

type aboFlat struct {
	fset   *token.FileSet
	byName map[string][]*peFunc
	funcs  map[string]*ast.FuncDecl
	ev     []string
	stack  map[string]bool
	// file that declares the entry points (plain-function helpers are recognised by living in the same file)
	pipelineFile string
}

// rename identifiers of a flat expression text (not those that follow a '.')
func aboRename(text string, ren map[string]string) string {
	var sc scanner.Scanner
	fs := token.NewFileSet()
	file := fs.AddFile("", fs.Base(), len(text))
	sc.Init(file, []byte(text), nil, 0)
	var out strings.Builder
	prevDot := false
	last := 0
	for {
		pos, tok, lit := sc.Scan()
		if tok == token.EOF {
			break
		}
		off := file.Offset(pos)
		if tok == token.SEMICOLON && lit == "\n" {
			continue
		}
		out.WriteString(text[last:off])
		switch {
		case tok == token.IDENT:
			if r, ok := ren[lit]; ok && !prevDot {
				out.WriteString(r)
			} else {
				out.WriteString(lit)
			}
			last = off + len(lit)
		default:
			l := lit
			if l == "" {
				l = tok.String()
			}
			out.WriteString(text[off : off+len(l)])
			last = off + len(l)
		}
		prevDot = tok == token.PERIOD
	}
	if last < len(text) {
		out.WriteString(text[last:])
	}
	return out.String()
}

type aboScope struct {
	fd   *ast.FuncDecl
	defs *defTable
	ren  map[string]string
}

func (a *aboFlat) scopeOf(fd *ast.FuncDecl, args map[string]string) *aboScope {
	sc := &aboScope{fd: fd, defs: singleDefs(fd), ren: map[string]string{}}
	if fd.Recv != nil && len(fd.Recv.List) == 1 && len(fd.Recv.List[0].Names) == 1 {
		sc.ren[fd.Recv.List[0].Names[0].Name] = "this"
	}
	for k, v := range args {
		sc.ren[k] = v
	}
	ast.Inspect(fd.Body, func(n ast.Node) bool {
		as, ok := n.(*ast.AssignStmt)
		if !ok || len(as.Rhs) != 1 || len(as.Lhs) < 2 {
			return true
		}
		if _, name, ok := aboCallee(as.Rhs[0]); ok {
			for i, l := range as.Lhs {
				if id, ok := l.(*ast.Ident); ok && id.Name != "_" && id.Name != "err" {
					if _, had := sc.ren[id.Name]; !had {
						sc.ren[id.Name] = fmt.Sprintf("%s#%d", name, i)
					}
				}
			}
		}
		return true
	})
	return sc
}

func (a *aboFlat) canon(sc *aboScope, e ast.Expr) string {
	return aboRename(flat(a.fset, stripParens(inlineLocals(e, sc.defs))), sc.ren)
}

func aboReturnsErrorLast(fd *ast.FuncDecl) bool {
	if fd.Type.Results == nil || len(fd.Type.Results.List) == 0 {
		return true // no result: a procedure of the pipeline
	}
	last := fd.Type.Results.List[len(fd.Type.Results.List)-1]
	id, ok := last.Type.(*ast.Ident)
	return ok && id.Name == "error"
}

var aboOpaque = map[string]bool{"executeBlock": true, "verifyCrossChainMsg": true}

// expandable: a same-package function of the pipeline whose statements are listed in place of the call
func (a *aboFlat) expandable(ce *ast.CallExpr, name string, inVerify bool) *ast.FuncDecl {
	fd := calleeOf(a.funcs, ce)
	if fd == nil || fd.Name.Name != name || aboOpaque[name] || a.stack[name] || !aboReturnsErrorLast(fd) {
		return nil
	}
	switch {
	case fd.Recv == nil:
		// a plain function is a pipeline helper only when it is declared in the file of the pipeline itself (helpers extracted from
		// verifyHeader / submitBlock live there; SaveNotify & co. of other files stay leaves) and is called by its bare name
		if _, bare := ce.Fun.(*ast.Ident); !bare || a.fset.Position(fd.Pos()).Filename != a.pipelineFile {
			return nil
		}
	case len(fd.Recv.List) != 1 || recvTypeName(fd.Recv.List[0].Type) != "LedgerStoreImp":
		return nil // a method of one of the stores / caches: a leaf
	default:
		if se, ok := ce.Fun.(*ast.SelectorExpr); ok { // this.f(..) only, not this.blockStore.f(..) or pkg.f(..)
			if _, ok := se.X.(*ast.Ident); !ok {
				return nil
			}
		}
	}
	if aboWrites(a.byName, name) && !memMutators[name] {
		return fd
	}
	if name == "verifyHeader" || (inVerify && !strings.HasPrefix(strings.ToLower(name), "get")) {
		return fd
	}
	return nil
}

// entryArgs names the parameters of an entry point by their TYPE, so the texts do not depend on the parameter names and are the
// same for the block paths and the header path: a `*types.Block` parameter b is written `block`, `b.Header` is written `header`
func (a *aboFlat) entryArgs(fd *ast.FuncDecl) (map[string]string, string) {
	args := map[string]string{}
	blockParam := ""
	for _, fl := range fd.Type.Params.List {
		t := flat(a.fset, fl.Type)
		for _, n := range fl.Names {
			switch t {
			case "*types.Block":
				args[n.Name] = "block"
				blockParam = n.Name
			case "*types.Header":
				args[n.Name] = "header"
			case "*types.CrossChainMsg":
				args[n.Name] = "ccMsg"
			case "common.Uint256":
				args[n.Name] = "stateMerkleRoot"
			case "store.ExecuteResult":
				args[n.Name] = "result"
			}
		}
	}
	return args, blockParam
}

func (a *aboFlat) run(fd *ast.FuncDecl, args map[string]string, cond bool, inVerify bool) {
	a.stack[fd.Name.Name] = true
	defer delete(a.stack, fd.Name.Name)
	sc := a.scopeOf(fd, args)
	a.stmts(sc, fd.Body.List, cond, inVerify || fd.Name.Name == "verifyHeader")
}

func (a *aboFlat) emit(cond bool, kind, text string) {
	if cond {
		kind = "c" + kind
	}
	a.ev = append(a.ev, kind+":"+text)
}

func (a *aboFlat) stmts(sc *aboScope, list []ast.Stmt, cond bool, inVerify bool) {
	lastCall := ""
	errVars := map[string]bool{} // identifiers bound to a result of the most recent call statement
	bind := func(lhs []ast.Expr) {
		errVars = map[string]bool{}
		for _, l := range lhs {
			if id, ok := l.(*ast.Ident); ok {
				errVars[id.Name] = true
			}
		}
	}
	var call func(e ast.Expr) (leaf bool)
	call = func(e ast.Expr) (leaf bool) {
		ce, name, ok := aboCallee(e)
		if !ok {
			return false
		}
		for _, arg := range ce.Args { // calls nested in the arguments run first
			if _, _, ok := aboCallee(arg); ok {
				call(arg)
			}
		}
		if fd := a.expandable(ce, name, inVerify); fd != nil {
			args := map[string]string{}
			i := 0
			for _, fl := range fd.Type.Params.List {
				for _, n := range fl.Names {
					if i < len(ce.Args) {
						args[n.Name] = a.canon(sc, ce.Args[i])
					}
					i++
				}
			}
			a.run(fd, args, cond, inVerify)
			lastCall = "" // its own guards were listed; the caller's `if err != nil` only passes them on
			return false
		}
		lastCall = name
		leaf = true
		if aboWrites(a.byName, name) || aboFuncLitWrites(a.byName, ce) {
			text := a.canon(sc, ce.Fun)
			// a method of a value held in a parameter / local (not reached through the receiver): the variable is dropped, so the
			// text does not depend on whether the value was passed in or computed here
			if i := strings.Index(text, "."); i > 0 && !strings.HasPrefix(text, "this.") {
				text = text[i:]
			}
			a.emit(cond, "write", text)
		}
		return leaf
	}
	exits := func(b *ast.BlockStmt) (bool, bool) { return aboReturnsNil(b) }
	// a conditional `return nil` after which the rest of this statement list raises no event at all (only logging, publishing, …)
	// is the same as wrapping that rest into `if !c { … }`: it is not a stop of the pipeline
	restSilent := func(i int) bool {
		dry := &aboFlat{fset: a.fset, byName: a.byName, funcs: a.funcs, stack: a.stack, pipelineFile: a.pipelineFile}
		dry.stmts(sc, list[i+1:], cond, inVerify)
		return len(dry.ev) == 0
	}
	for idx, st := range list {
		switch s := st.(type) {
		case *ast.ExprStmt:
			call(s.X)
		case *ast.AssignStmt:
			for _, r := range s.Rhs {
				call(r)
			}
			bind(s.Lhs)
		case *ast.ReturnStmt:
			for _, r := range s.Results {
				// `return f(..)` of a leaf call in a pipeline function = `err := f(..); if err != nil { return err }; return nil`
				if call(r) && len(s.Results) == 1 && aboReturnsErrorLast(sc.fd) && sc.fd.Type.Results != nil {
					a.emit(cond, "errguard", lastCall)
				}
			}
		case *ast.DeclStmt, *ast.DeferStmt, *ast.IncDecStmt, *ast.EmptyStmt:
		case *ast.RangeStmt:
			a.stmts(sc, s.Body.List, cond, inVerify)
		case *ast.ForStmt:
			a.stmts(sc, s.Body.List, cond, inVerify)
		case *ast.BlockStmt:
			a.stmts(sc, s.List, cond, inVerify)
		case *ast.IfStmt:
			if s.Init != nil {
				if as, ok := s.Init.(*ast.AssignStmt); ok {
					for _, r := range as.Rhs {
						call(r)
					}
					bind(as.Lhs)
				}
			}
			ctext := a.canon(sc, s.Cond)
			// `x != nil` where x was just bound to a result of the preceding call: propagation of that call's error
			if be, ok := stripParens(s.Cond).(*ast.BinaryExpr); ok && be.Op == token.NEQ {
				if x, ok := be.X.(*ast.Ident); ok && errVars[x.Name] {
					if y, ok := be.Y.(*ast.Ident); ok && y.Name == "nil" {
						ctext = "err!=nil"
					}
				}
			}
			if strings.Contains(ctext, "\"vbft\"") { // the consensus-type branch of verifyHeader: the non-VBFT path is modelled
				switch eb := s.Else.(type) {
				case *ast.BlockStmt:
					a.stmts(sc, eb.List, cond, inVerify)
				case *ast.IfStmt: // `} else if err := helper(..); err != nil { return err }`
					a.stmts(sc, []ast.Stmt{eb}, cond, inVerify)
				}
				continue
			}
			guardEv := func(text string, isNil bool) {
				switch {
				case isNil && restSilent(idx):
					// nothing of the pipeline is skipped by this early `return nil`
				case isNil:
					a.emit(cond, "stop", text)
				case text == "err!=nil" && lastCall != "":
					a.emit(cond, "errguard", lastCall)
				case text == "err!=nil":
					// passes on the error of an expanded helper: nothing of its own
				default:
					a.emit(cond, "guard", text)
				}
			}
			isRet, isNil := exits(s.Body)
			eb, hasElse := s.Else.(*ast.BlockStmt)
			switch {
			case isRet:
				for _, inner := range s.Body.List[:len(s.Body.List)-1] { // statements before the return (logging…)
					a.stmts(sc, []ast.Stmt{inner}, true, inVerify)
				}
				guardEv(ctext, isNil)
				if hasElse {
					a.stmts(sc, eb.List, cond, inVerify)
				}
			case hasElse:
				if eRet, eNil := exits(eb); eRet {
					guardEv("!("+ctext+")", eNil)
					a.stmts(sc, s.Body.List, cond, inVerify)
				} else {
					a.stmts(sc, s.Body.List, true, inVerify)
					a.stmts(sc, eb.List, true, inVerify)
				}
			default:
				a.stmts(sc, s.Body.List, true, inVerify)
				if ei, ok := s.Else.(*ast.IfStmt); ok {
					a.stmts(sc, []ast.Stmt{ei}, true, inVerify)
				}
			}
		case *ast.SwitchStmt:
			for _, c := range s.Body.List {
				cc := c.(*ast.CaseClause)
				isRet, isNil := aboReturnsNil(&ast.BlockStmt{List: cc.Body})
				if s.Tag == nil && cc.List != nil && isRet { // `case c: return e` of a tag-less switch = `if c { return e }`
					var texts []string
					for _, ce := range cc.List {
						texts = append(texts, a.canon(sc, ce))
					}
					for _, inner := range cc.Body[:len(cc.Body)-1] {
						a.stmts(sc, []ast.Stmt{inner}, true, inVerify)
					}
					text := strings.Join(texts, "||")
					if isNil {
						a.emit(cond, "stop", text)
					} else {
						a.emit(cond, "guard", text)
					}
					continue
				}
				a.stmts(sc, cc.Body, true, inVerify)
			}
		}
	}
}

func leanPairList(evs []string) string {
	var q []string
	for _, e := range evs {
		kind, text := e, ""
		if i := strings.Index(e, ":"); i >= 0 {
			kind, text = e[:i], e[i+1:]
		}
		q = append(q, fmt.Sprintf("(%q, %q)", kind, text))
	}
	return "[" + strings.Join(q, ",\n   ") + "]"
}

func genAddBlockOrder(repo string) (string, error) {
	const dir = "core/store/ledgerstore"
	byName, err := peCollect(repo, dir)
	if err != nil {
		return "", err
	}
	fset, funcs, err := pkgFuncs(repo, dir)
	if err != nil {
		return "", err
	}
	var sb strings.Builder
	sb.WriteString("namespace OntVerif.Gen.AddBlockOrder\n\n")
	for _, e := range []struct{ fn, lean string }{{"AddBlock", "addBlockFlat"}, {"SubmitBlock", "submitBlockFlat"}, {"AddHeader", "addHeaderFlat"}} {
		fd := funcs["LedgerStoreImp."+e.fn]
		if fd == nil {
			return "", fmt.Errorf("%s: method LedgerStoreImp.%s not found", dir, e.fn)
		}
		a := &aboFlat{fset: fset, byName: byName, funcs: funcs, stack: map[string]bool{}, pipelineFile: fset.Position(fd.Pos()).Filename}
		args, _ := a.entryArgs(fd)
		a.run(fd, args, false, false)
		for i := range a.ev {
			a.ev[i] = strings.ReplaceAll(a.ev[i], "block.Header", "header")
		}
		nG, nW := 0, 0
		for _, x := range a.ev {
			if strings.HasPrefix(x, "guard:") || strings.HasPrefix(x, "errguard:") {
				nG++
			}
			if strings.HasPrefix(x, "write:") {
				nW++
			}
		}
		if nG == 0 || nW == 0 {
			return "", fmt.Errorf("%s:%s: flattened pipeline has %d guards and %d writes — unexpected shape", dir, e.fn, nG, nW)
		}
		fmt.Fprintf(&sb, "/-- %s: LedgerStoreImp.%s with its same-package pipeline helpers expanded in place — (kind, canonical text) events in execution\norder (non-VBFT path of verifyHeader) -/\ndef %s : List (String × String) :=\n  %s\n\n", dir, e.fn, e.lean, leanPairList(a.ev))
	}
	_, vw, err := peWalk(byName, []string{"verifyHeader"})
	if err != nil {
		return "", err
	}
	fmt.Fprintf(&sb, "/-- store-writing calls reachable (by name) from verifyHeader -/\ndef verifyHeaderStoreWrites : List String :=\n  %s\n\n", leanStrList(vw))
	sb.WriteString("end OntVerif.Gen.AddBlockOrder\n")
	return sb.String(), nil
}
