package main

import (
	"fmt"
	"go/ast"
	"go/token"
	"path/filepath"
	"sort"
	"strings"
)

// WalletScrypt (C38): where a WalletData gets its `Scrypt` object from, in account/file_store.go.
//   - newWalletScrypt: the initialiser of the `Scrypt` field in NewWalletData's composite literal ("call:<callee>" for a call
//     expression = a fresh object per wallet, "ident:<name>" for a variable, else "other:<text>");
//   - reencryptAssigns: every right-hand side assigned to `this.Scrypt` in reencrypt, same encoding ("ident:param" is the
//     function's own parameter);
//   - pkgScryptVars: the package-level variables of package account (all non-test files) whose declared type or initialiser
//     mentions ScryptParam / GetScryptParameters - the objects that COULD be shared between wallets;
//   - pkgScryptVarUses: for each of them, the functions that mention it.
// The wallet model treats the scrypt parameters as per-wallet state that no other wallet can change (Op.openOther is a no-op);
// that rests on every wallet owning a fresh object: theorem C38_scrypt_sources (Props/C38.lean) is a `decide` over these lists.
// Truthfully about today's code: `lowSecurityParam` IS a package-level ScryptParam; ToLowSecurity passes `&lowSecurityParam` to
// reencrypt, which stores that pointer in `this.Scrypt` (aliasing). It is harmless only because the sole caller
// (cmd/account_cmd.go accountExport) does it on a Clone() that is saved and dropped, never Load()ed into again.
func init() { Register("WalletScrypt", genWalletScrypt) }

func wsClassify(fset *token.FileSet, e ast.Expr) string {
	switch x := e.(type) {
	case *ast.CallExpr:
		return "call:" + exprString(fset, x.Fun)
	case *ast.Ident:
		return "ident:" + x.Name
	}
	return "other:" + exprString(fset, e)
}

func genWalletScrypt(repo string) (string, error) {
	const rel = "account/file_store.go"
	fset, f, err := parseFile(repo, rel)
	if err != nil {
		return "", err
	}
	nw := findFunc(f, "NewWalletData")
	if nw == nil {
		return "", fmt.Errorf("%s: NewWalletData not found", rel)
	}
	newInit := ""
	ast.Inspect(nw.Body, func(n ast.Node) bool {
		if cl, ok := n.(*ast.CompositeLit); ok {
			if id, ok := cl.Type.(*ast.Ident); ok && id.Name == "WalletData" {
				for _, el := range cl.Elts {
					if kv, ok := el.(*ast.KeyValueExpr); ok {
						if k, ok := kv.Key.(*ast.Ident); ok && k.Name == "Scrypt" {
							newInit = wsClassify(fset, kv.Value)
						}
					}
				}
			}
		}
		return true
	})
	if newInit == "" {
		return "", fmt.Errorf("%s: NewWalletData: `Scrypt:` initialiser of the WalletData literal not found", rel)
	}
	re := findFunc(f, "reencrypt")
	if re == nil {
		return "", fmt.Errorf("%s: reencrypt not found", rel)
	}
	var reAssigns []string
	ast.Inspect(re.Body, func(n ast.Node) bool {
		if as, ok := n.(*ast.AssignStmt); ok {
			for i, lhs := range as.Lhs {
				if se, ok := lhs.(*ast.SelectorExpr); ok && se.Sel.Name == "Scrypt" && i < len(as.Rhs) {
					reAssigns = append(reAssigns, wsClassify(fset, as.Rhs[i]))
				}
			}
		}
		return true
	})
	if len(reAssigns) == 0 {
		return "", fmt.Errorf("%s: reencrypt assigns no Scrypt field", rel)
	}
	// package-level variables that can hold scrypt parameters, over the whole package
	files, err := goFilesOf(repo, "account")
	if err != nil {
		return "", err
	}
	vars := map[string]bool{}
	uses := map[string]map[string]bool{}
	var parsed []*ast.File
	for _, gf := range files {
		_, pf, err := parseFile(repo, gf)
		if err != nil {
			return "", err
		}
		parsed = append(parsed, pf)
		for _, d := range pf.Decls {
			gd, ok := d.(*ast.GenDecl)
			if !ok || gd.Tok != token.VAR {
				continue
			}
			for _, sp := range gd.Specs {
				vs := sp.(*ast.ValueSpec)
				txt := exprString(fset, vs)
				if strings.Contains(txt, "ScryptParam") || strings.Contains(txt, "GetScryptParameters") {
					for _, n := range vs.Names {
						vars[n.Name] = true
						uses[n.Name] = map[string]bool{}
					}
				}
			}
		}
	}
	for _, pf := range parsed {
		for _, d := range pf.Decls {
			fd, ok := d.(*ast.FuncDecl)
			if !ok || fd.Body == nil {
				continue
			}
			ast.Inspect(fd.Body, func(n ast.Node) bool {
				if id, ok := n.(*ast.Ident); ok && vars[id.Name] {
					uses[id.Name][fd.Name.Name] = true
				}
				return true
			})
		}
	}
	var names []string
	for n := range vars {
		names = append(names, n)
	}
	sort.Strings(names)
	q := func(l []string) string {
		var o []string
		for _, s := range l {
			o = append(o, fmt.Sprintf("%q", s))
		}
		return "[" + strings.Join(o, ", ") + "]"
	}
	var sb strings.Builder
	sb.WriteString("/-! Facts about `account/file_store.go`: where a `WalletData` gets its `Scrypt` object from, and the package-level variables\nof package `account` that can hold scrypt parameters (with the functions that mention them). -/\nnamespace OntVerif.Gen.WalletScrypt\n\n")
	fmt.Fprintf(&sb, "def newWalletScrypt : String := %q\n", newInit)
	fmt.Fprintf(&sb, "def reencryptAssigns : List String := %s\n", q(reAssigns))
	fmt.Fprintf(&sb, "def pkgScryptVars : List String := %s\n", q(names))
	sb.WriteString("def pkgScryptVarUses : List (String × List String) := [")
	for i, n := range names {
		var fs []string
		for fn := range uses[n] {
			fs = append(fs, fn)
		}
		sort.Strings(fs)
		if i > 0 {
			sb.WriteString(", ")
		}
		fmt.Fprintf(&sb, "(%q, %s)", n, q(fs))
	}
	sb.WriteString("]\n\nend OntVerif.Gen.WalletScrypt\n")
	return sb.String(), nil
}

// goFilesOf lists the non-test Go files of a package directory, relative to the repository root.
func goFilesOf(repo, dir string) ([]string, error) {
	files, err := filepath.Glob(filepath.Join(repo, dir, "*.go"))
	if err != nil {
		return nil, err
	}
	var out []string
	for _, f := range files {
		if strings.HasSuffix(f, "_test.go") {
			continue
		}
		out = append(out, filepath.Join(dir, filepath.Base(f)))
	}
	sort.Strings(out)
	return out, nil
}
