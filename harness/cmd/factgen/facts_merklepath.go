package main

import (
	"fmt"
	"go/ast"
	"strings"
)

// MerklePath (C27): which hash the cross-chain path functions of merkle/merkle_hasher.go start from.
//   - MerkleProve:    `hash := HashLeaf(value)` with `value` the first result of `source.NextVarBytes()`
//   - MerkleLeafPath: `getIndex(HashLeaf(data), hashes)` with `data` the first parameter
// The model (`merkleProve`, `merkleLeafPath`) applies H0 = HashLeaf to the value unconditionally; these facts say the
// code does the same.  Unrecognised shape => `false` (never an error: only the C27 obligation breaks).
func init() { Register("MerklePath", genMerklePath) }

func mkpIsCall(e ast.Expr, fn, arg string) bool {
	ce, ok := e.(*ast.CallExpr)
	if !ok || len(ce.Args) != 1 {
		return false
	}
	f, ok1 := ce.Fun.(*ast.Ident)
	a, ok2 := ce.Args[0].(*ast.Ident)
	return ok1 && ok2 && f.Name == fn && a.Name == arg
}

func genMerklePath(repo string) (string, error) {
	const file = "merkle/merkle_hasher.go"
	prove, leafPath, hashLeafPlain := false, false, false
	note := ""
	_, f, err := parseFile(repo, file)
	if err != nil {
		note = "file not parsed: " + strings.ReplaceAll(err.Error(), "\n", " ")
	} else {
		if fn := findFunc(f, "MerkleProve"); fn != nil && fn.Body != nil {
			// value, _, irr, eof := source.NextVarBytes()  …  hash := HashLeaf(value); `hash` is assigned from nothing else
			// but HashChildren(...) afterwards
			valueVar := ""
			ok := true
			n := 0
			ast.Inspect(fn.Body, func(nd ast.Node) bool {
				as, isAs := nd.(*ast.AssignStmt)
				if !isAs {
					return true
				}
				if len(as.Rhs) == 1 && len(as.Lhs) == 4 {
					if ce, isCall := as.Rhs[0].(*ast.CallExpr); isCall {
						if sel, isSel := ce.Fun.(*ast.SelectorExpr); isSel && sel.Sel.Name == "NextVarBytes" {
							if id, isId := as.Lhs[0].(*ast.Ident); isId {
								valueVar = id.Name
							}
						}
					}
				}
				if len(as.Lhs) == 1 && len(as.Rhs) == 1 {
					if id, isId := as.Lhs[0].(*ast.Ident); isId && id.Name == "hash" {
						if ce, isCall := as.Rhs[0].(*ast.CallExpr); isCall {
							if fid, isF := ce.Fun.(*ast.Ident); isF && fid.Name == "HashChildren" {
								return true
							}
						}
						n++
						if valueVar == "" || !mkpIsCall(as.Rhs[0], "HashLeaf", valueVar) {
							ok = false
						}
					}
				}
				return true
			})
			prove = ok && n == 1
		}
		if fn := findFunc(f, "MerkleLeafPath"); fn != nil && fn.Body != nil && fn.Type.Params != nil && len(fn.Type.Params.List) > 0 &&
			len(fn.Type.Params.List[0].Names) > 0 {
			dataVar := fn.Type.Params.List[0].Names[0].Name
			n, ok := 0, true
			ast.Inspect(fn.Body, func(nd ast.Node) bool {
				ce, isCall := nd.(*ast.CallExpr)
				if !isCall {
					return true
				}
				if id, isId := ce.Fun.(*ast.Ident); isId && id.Name == "getIndex" {
					n++
					if len(ce.Args) != 2 || !mkpIsCall(ce.Args[0], "HashLeaf", dataVar) {
						ok = false
					}
				}
				return true
			})
			leafPath = ok && n == 1
		}
		if fn := findFunc(f, "HashLeaf"); fn != nil && fn.Body != nil && len(fn.Body.List) == 2 {
			// tmp := append([]byte{0}, data...); return sha256.Sum256(tmp): no branch on the data
			branch := false
			ast.Inspect(fn.Body, func(nd ast.Node) bool {
				switch nd.(type) {
				case *ast.IfStmt, *ast.SwitchStmt, *ast.ForStmt, *ast.RangeStmt:
					branch = true
				}
				return true
			})
			hashLeafPlain = !branch
		}
	}
	b := func(x bool) string {
		if x {
			return "true"
		}
		return "false"
	}
	var sb strings.Builder
	sb.WriteString("namespace OntVerif.Gen.MerklePath\n\n")
	fmt.Fprintf(&sb, "/-- %s:MerkleProve — the start hash is `HashLeaf(value)` of the parsed var-bytes value, nothing else. %s -/\n", file, note)
	fmt.Fprintf(&sb, "def proveStartsFromHashLeafOfValue : Bool := %s\n", b(prove))
	fmt.Fprintf(&sb, "/-- %s:MerkleLeafPath — the index looked up is that of `HashLeaf(data)` -/\n", file)
	fmt.Fprintf(&sb, "def leafPathLooksUpHashLeafOfData : Bool := %s\n", b(leafPath))
	fmt.Fprintf(&sb, "/-- %s:HashLeaf — two straight-line statements, no branch on the data -/\n", file)
	fmt.Fprintf(&sb, "def hashLeafIsBranchFree : Bool := %s\n", b(hashLeafPlain))
	sb.WriteString("\nend OntVerif.Gen.MerklePath\n")
	return sb.String(), nil
}
