package main

import (
	"fmt"
	"go/ast"
	"go/token"
	"strconv"
	"strings"
)

// Crash recovery of the ledger store (C01): the replay loop of recoverStore and the order of the durable steps of a
// block commit, read from core/store/ledgerstore/ledger_store.go.
//
//	for i := stateHeight + LO; i < blockHeight + HI; i++ { ... GetBlockHash(i + ARG) ... }
//
// becomes loopLo / loopHi / blockArg (`<=` is translated to `<` with HI+1). The generator refuses every other shape.
func init() { Register("Recover", genRecover) }

const recoverFile = "core/store/ledgerstore/ledger_store.go"

// affine parses `base`, `base + c`, `c + base` (c a non-negative integer literal) and returns c.
func affine(fset *token.FileSet, e ast.Expr, base string) (int, error) {
	for {
		p, ok := e.(*ast.ParenExpr)
		if !ok {
			break
		}
		e = p.X
	}
	if id, ok := e.(*ast.Ident); ok && id.Name == base {
		return 0, nil
	}
	if be, ok := e.(*ast.BinaryExpr); ok && be.Op == token.ADD {
		lit := func(x ast.Expr) (int, bool) {
			if bl, ok := x.(*ast.BasicLit); ok && bl.Kind == token.INT {
				v, err := strconv.Atoi(bl.Value)
				return v, err == nil
			}
			return 0, false
		}
		isBase := func(x ast.Expr) bool { id, ok := x.(*ast.Ident); return ok && id.Name == base }
		if c, ok := lit(be.Y); ok && isBase(be.X) {
			return c, nil
		}
		if c, ok := lit(be.X); ok && isBase(be.Y) {
			return c, nil
		}
	}
	return 0, fmt.Errorf("expression `%s` is not of the form `%s` or `%s + <literal>`", exprString(fset, e), base, base)
}

// callsIn lists the printed callee expressions of every call inside n, in source order.
func callsIn(fset *token.FileSet, n ast.Node) []string {
	var out []string
	ast.Inspect(n, func(x ast.Node) bool {
		if ce, ok := x.(*ast.CallExpr); ok {
			out = append(out, exprString(fset, ce.Fun))
		}
		return true
	})
	return out
}

// orderOf returns the indexes (into names) of the calls of `names` in the order they occur in calls; every name must
// occur exactly once.
func orderOf(calls []string, names []string) ([]int, error) {
	var order []int
	for _, c := range calls {
		for i, n := range names {
			if c == n {
				order = append(order, i)
			}
		}
	}
	if len(order) != len(names) {
		return nil, fmt.Errorf("expected exactly one call of each of %v, found %d such calls", names, len(order))
	}
	seen := map[int]bool{}
	for _, i := range order {
		if seen[i] {
			return nil, fmt.Errorf("%s is called more than once", names[i])
		}
		seen[i] = true
	}
	return order, nil
}

func indexOf(xs []string, s string) int {
	for i, x := range xs {
		if x == s {
			return i
		}
	}
	return -1
}

func natList(xs []int) string {
	var s []string
	for _, x := range xs {
		s = append(s, strconv.Itoa(x))
	}
	return "[" + strings.Join(s, ", ") + "]"
}

func genRecover(repo string) (string, error) {
	fset, f, err := parseFile(repo, recoverFile)
	if err != nil {
		return "", err
	}
	site := recoverFile + ":recoverStore"
	fn := findFunc(f, "recoverStore")
	if fn == nil {
		return "", fmt.Errorf("%s: func not found", site)
	}
	// the two heights the loop runs between
	bh := assignsTo(fn, "blockHeight")
	if len(bh) != 1 || exprString(fset, bh[0]) != "this.GetCurrentBlockHeight()" {
		return "", fmt.Errorf("%s: expected exactly `blockHeight := this.GetCurrentBlockHeight()`", site)
	}
	stOK := 0
	ast.Inspect(fn.Body, func(n ast.Node) bool {
		if as, ok := n.(*ast.AssignStmt); ok && len(as.Lhs) == 3 && len(as.Rhs) == 1 {
			if id, ok := as.Lhs[1].(*ast.Ident); ok && id.Name == "stateHeight" && exprString(fset, as.Rhs[0]) == "this.stateStore.GetCurrentBlock()" {
				stOK++
			}
		}
		return true
	})
	if stOK != 1 {
		return "", fmt.Errorf("%s: expected exactly `_, stateHeight, err := this.stateStore.GetCurrentBlock()`", site)
	}
	// exactly one loop, directly in the function body
	var loop *ast.ForStmt
	nloops := 0
	ast.Inspect(fn.Body, func(n ast.Node) bool {
		switch n.(type) {
		case *ast.ForStmt, *ast.RangeStmt:
			nloops++
		}
		return true
	})
	for _, s := range fn.Body.List {
		if fs, ok := s.(*ast.ForStmt); ok {
			loop = fs
		}
	}
	if loop == nil || nloops != 1 {
		return "", fmt.Errorf("%s: expected exactly one `for` statement at the top level of the function (found %d loops)", site, nloops)
	}
	hdr := func() string {
		return fmt.Sprintf("for %s; %s; %s", exprString(fset, loop.Init), exprString(fset, loop.Cond), exprString(fset, loop.Post))
	}
	if loop.Init == nil || loop.Cond == nil || loop.Post == nil {
		return "", fmt.Errorf("%s: loop header incomplete", site)
	}
	init, ok := loop.Init.(*ast.AssignStmt)
	if !ok || init.Tok != token.DEFINE || len(init.Lhs) != 1 || len(init.Rhs) != 1 {
		return "", fmt.Errorf("%s: loop init `%s` is not `i := <expr>`", site, exprString(fset, loop.Init))
	}
	ivar, ok := init.Lhs[0].(*ast.Ident)
	if !ok {
		return "", fmt.Errorf("%s: loop variable not an identifier", site)
	}
	lo, err := affine(fset, init.Rhs[0], "stateHeight")
	if err != nil {
		return "", fmt.Errorf("%s: loop init: %v", site, err)
	}
	cond, ok := loop.Cond.(*ast.BinaryExpr)
	if !ok || (cond.Op != token.LSS && cond.Op != token.LEQ) || exprString(fset, cond.X) != ivar.Name {
		return "", fmt.Errorf("%s: loop condition `%s` is not `%s < <expr>` / `%s <= <expr>`", site, exprString(fset, loop.Cond), ivar.Name, ivar.Name)
	}
	hi, err := affine(fset, cond.Y, "blockHeight")
	if err != nil {
		return "", fmt.Errorf("%s: loop condition: %v", site, err)
	}
	if cond.Op == token.LEQ {
		hi++
	}
	post, ok := loop.Post.(*ast.IncDecStmt)
	if !ok || post.Tok != token.INC || exprString(fset, post.X) != ivar.Name {
		return "", fmt.Errorf("%s: loop post statement `%s` is not `%s++`", site, exprString(fset, loop.Post), ivar.Name)
	}
	// the loop variable, stateHeight and blockHeight must not be assigned inside the body
	bad := ""
	ast.Inspect(loop.Body, func(n ast.Node) bool {
		switch s := n.(type) {
		case *ast.AssignStmt:
			for _, l := range s.Lhs {
				if id, ok := l.(*ast.Ident); ok && (id.Name == ivar.Name || id.Name == "stateHeight" || id.Name == "blockHeight") {
					bad = id.Name
				}
			}
		case *ast.IncDecStmt:
			if id, ok := s.X.(*ast.Ident); ok && (id.Name == ivar.Name || id.Name == "stateHeight" || id.Name == "blockHeight") {
				bad = id.Name
			}
		}
		return true
	})
	if bad != "" {
		return "", fmt.Errorf("%s: `%s` is modified inside the loop body", site, bad)
	}
	// which block an iteration executes
	var args []ast.Expr
	ast.Inspect(loop.Body, func(n ast.Node) bool {
		if ce, ok := n.(*ast.CallExpr); ok && exprString(fset, ce.Fun) == "this.blockStore.GetBlockHash" && len(ce.Args) == 1 {
			args = append(args, ce.Args[0])
		}
		return true
	})
	if len(args) != 1 {
		return "", fmt.Errorf("%s: expected exactly one call this.blockStore.GetBlockHash(<expr>) in the loop body, found %d", site, len(args))
	}
	arg, err := affine(fset, args[0], ivar.Name)
	if err != nil {
		return "", fmt.Errorf("%s: argument of GetBlockHash: %v", site, err)
	}
	// an iteration: fetch, execute, save to state store (this is where the hash file is appended), save to event store,
	// then the two commits
	calls := callsIn(fset, loop.Body)
	seq := []string{"this.blockStore.GetBlockHash", "this.blockStore.GetBlock", "this.executeBlock", "this.saveBlockToStateStore", "this.saveBlockToEventStore"}
	last := -1
	for _, s := range seq {
		i := indexOf(calls, s)
		if i < 0 || i < last {
			return "", fmt.Errorf("%s: loop body does not call %v in this order (missing or misplaced: %s)", site, seq, s)
		}
		last = i
	}
	stores := []string{"this.blockStore.CommitTo", "this.eventStore.CommitTo", "this.stateStore.CommitTo"}
	var recCommits []int
	for _, c := range calls {
		if i := indexOf(stores, c); i >= 0 {
			recCommits = append(recCommits, i)
		}
	}
	for _, c := range recCommits {
		if indexOf(calls, stores[c]) < last {
			return "", fmt.Errorf("%s: %s is called before the batches are filled", site, stores[c])
		}
	}

	// submitBlock: the hash file is appended while the state batch is built (saveBlockToStateStore ->
	// AddBlockMerkleTreeRoot -> CompactMerkleTree.AppendHash -> Append+Flush); then the three commits.
	site2 := recoverFile + ":submitBlock"
	sb := findFunc(f, "submitBlock")
	if sb == nil {
		return "", fmt.Errorf("%s: func not found", site2)
	}
	sbCalls := callsIn(fset, sb.Body)
	order, err := orderOf(sbCalls, stores)
	if err != nil {
		return "", fmt.Errorf("%s: %v", site2, err)
	}
	fill := indexOf(sbCalls, "this.saveBlockToStateStore")
	if fill < 0 || indexOf(sbCalls, "this.saveBlockToEventStore") < 0 || indexOf(sbCalls, "this.saveBlockToBlockStore") < 0 {
		return "", fmt.Errorf("%s: expected calls of saveBlockToBlockStore, saveBlockToStateStore and saveBlockToEventStore", site2)
	}
	fileFirst := true
	for _, s := range stores {
		if indexOf(sbCalls, s) < fill {
			fileFirst = false
		}
	}
	// saveBlockToStateStore must be the function that appends the block merkle tree (and with it the hash file)
	ss := findFunc(f, "saveBlockToStateStore")
	if ss == nil || indexOf(callsIn(fset, ss.Body), "this.stateStore.AddBlockMerkleTreeRoot") < 0 {
		return "", fmt.Errorf("%s:saveBlockToStateStore: call of this.stateStore.AddBlockMerkleTreeRoot not found", recoverFile)
	}

	var out strings.Builder
	out.WriteString("/-! Facts of the ledger store's commit and recovery protocol (property C01), extracted from\n`" + recoverFile + "`. Store numbering: 0 = block store, 1 = event store, 2 = state store. -/\n")
	out.WriteString("namespace OntVerif.Gen.Recover\n\n")
	fmt.Fprintf(&out, "/-- %s — the replay loop is `%s`; an iteration executes the block `GetBlockHash(%s)`.\nRead as `for i := stateHeight + loopLo; i < blockHeight + loopHi; i++ { execute block (i + blockArg) }`. -/\n", site, hdr(), exprString(fset, args[0]))
	fmt.Fprintf(&out, "def loopLo : Nat := %d\n", lo)
	fmt.Fprintf(&out, "/-- see `loopLo` -/\ndef loopHi : Nat := %d\n", hi)
	fmt.Fprintf(&out, "/-- see `loopLo` -/\ndef blockArg : Nat := %d\n\n", arg)
	fmt.Fprintf(&out, "/-- %s — stores committed by one iteration of the replay loop, in source order -/\ndef recoverCommits : List Nat := %s\n\n", site, natList(recCommits))
	fmt.Fprintf(&out, "/-- %s — order of the three `CommitTo` calls -/\ndef commitOrder : List Nat := %s\n\n", site2, natList(order))
	fmt.Fprintf(&out, "/-- %s — `saveBlockToStateStore` (which appends and syncs the merkle hash file through `AddBlockMerkleTreeRoot`) is called before every `CommitTo` -/\ndef fileAppendFirst : Bool := %v\n\n", site2, fileFirst)
	out.WriteString("end OntVerif.Gen.Recover\n")
	return out.String(), nil
}
