package main

import (
	"fmt"
	"go/ast"
	"go/token"
	"strconv"
	"strings"

	"verif/harness/internal/ledgersrc"
)

// Crash recovery of the ledger store (C01): the replay loop of recoverStore and the order of the durable steps of a
// block commit, read from core/store/ledgerstore.
//
//	for i := <state height> + LO; i < <block height> + HI; i++ { ... blockStore.GetBlockHash(i + ARG) ... }
//
// becomes loopLo / loopHi / blockArg (`<=` is translated to `<` with HI+1). Sites are located by ROLE (package
// ledgersrc): the loop body and the commit sequence are followed into unexported same-receiver helpers, the loop
// variable and the two heights may have any name (the state height is "the height returned by stateStore.GetCurrentBlock",
// the block height "GetCurrentBlockHeight() / the height returned by blockStore.GetCurrentBlock"), hoisted or named
// sub-expressions are inlined first. What is not understood is an error naming the site, never a default.
func init() { Register("Recover", genRecover) }

const recoverFile = "core/store/ledgerstore/ledger_store.go"

func recoverStripParens(e ast.Expr) ast.Expr {
	for {
		switch x := e.(type) {
		case *ast.ParenExpr:
			e = x.X
			continue
		case *ast.CallExpr: // integer conversions uint32(x), uint64(x), int(x)
			if id, ok := x.Fun.(*ast.Ident); ok && len(x.Args) == 1 {
				switch id.Name {
				case "uint32", "uint64", "int", "int64", "uint":
					e = x.Args[0]
					continue
				}
			}
		}
		return e
	}
}

// recoverAffine parses `base`, `base + c`, `c + base` (c a non-negative integer literal) and returns c.
func recoverAffine(fset *token.FileSet, e ast.Expr, isBase func(ast.Expr) bool, what string) (int, error) {
	e = recoverStripParens(e)
	if isBase(e) {
		return 0, nil
	}
	if be, ok := e.(*ast.BinaryExpr); ok && be.Op == token.ADD {
		lit := func(x ast.Expr) (int, bool) {
			if bl, ok := recoverStripParens(x).(*ast.BasicLit); ok && bl.Kind == token.INT {
				v, err := strconv.Atoi(bl.Value)
				return v, err == nil
			}
			return 0, false
		}
		if c, ok := lit(be.Y); ok {
			if d, err := recoverAffine(fset, be.X, isBase, what); err == nil {
				return c + d, nil
			}
		}
		if c, ok := lit(be.X); ok {
			if d, err := recoverAffine(fset, be.Y, isBase, what); err == nil {
				return c + d, nil
			}
		}
	}
	return 0, fmt.Errorf("expression `%s` is not of the form `%s` or `%s + <literal>`", flat(fset, e), what, what)
}

func natList(xs []int) string {
	var s []string
	for _, x := range xs {
		s = append(s, strconv.Itoa(x))
	}
	return "[" + strings.Join(s, ", ") + "]"
}

func indexOf(xs []string, s string) int {
	for i, x := range xs {
		if x == s {
			return i
		}
	}
	return -1
}

func countOf(xs []string, s string) int {
	n := 0
	for _, x := range xs {
		if x == s {
			n++
		}
	}
	return n
}

var recoverStoreNo = map[string]int{"b": 0, "e": 1, "s": 2}

func genRecover(repo string) (string, error) {
	p, err := ledgersrc.Load(repo)
	if err != nil {
		return "", err
	}
	fset := p.Fset
	site := ledgersrc.Dir + ":recoverStore"
	fn := p.Funcs["LedgerStoreImp.recoverStore"]
	if fn == nil {
		return "", fmt.Errorf("%s: method of LedgerStoreImp not found", site)
	}
	recv := ledgersrc.RecvName(fn)
	defsOf := map[*ast.FuncDecl]*defTable{}
	inline := func(fd *ast.FuncDecl, e ast.Expr) ast.Expr {
		d, ok := defsOf[fd]
		if !ok {
			d = singleDefs(fd)
			defsOf[fd] = d
		}
		return inlineLocals(e, d)
	}
	// the locals that hold the two heights: second value of <recv>.stateStore.GetCurrentBlock() / <recv>.blockStore.GetCurrentBlock()
	heightVar := map[string]string{} // local name -> "state" | "block"
	assigned := map[string]int{}
	ast.Inspect(fn.Body, func(n ast.Node) bool {
		as, ok := n.(*ast.AssignStmt)
		if !ok {
			return true
		}
		for _, l := range as.Lhs {
			if id, ok := l.(*ast.Ident); ok {
				assigned[id.Name]++
			}
		}
		if len(as.Lhs) == 3 && len(as.Rhs) == 1 {
			if id, ok := as.Lhs[1].(*ast.Ident); ok && id.Name != "_" {
				switch flat(fset, as.Rhs[0]) {
				case recv + ".stateStore.GetCurrentBlock()":
					heightVar[id.Name] = "state"
				case recv + ".blockStore.GetCurrentBlock()":
					heightVar[id.Name] = "block"
				}
			}
		}
		return true
	})
	isHeight := func(kind string) func(ast.Expr) bool {
		return func(e ast.Expr) bool {
			switch x := e.(type) {
			case *ast.Ident:
				return heightVar[x.Name] == kind && assigned[x.Name] == 1
			case *ast.CallExpr:
				return kind == "block" && flat(fset, x) == recv+".GetCurrentBlockHeight()"
			}
			return false
		}
	}
	loop := ledgersrc.FirstLoop(fn)
	if loop == nil {
		return "", fmt.Errorf("%s: expected exactly one `for` statement, at the top level of the function", site)
	}
	if loop.Init == nil || loop.Cond == nil || loop.Post == nil {
		return "", fmt.Errorf("%s: loop header incomplete (only three-clause loops are understood)", site)
	}
	hdr := fmt.Sprintf("for %s; %s; %s", exprString(fset, loop.Init), exprString(fset, loop.Cond), exprString(fset, loop.Post))
	// the loop variable is the one the post statement increments; the init clause may define further names in parallel
	// (`for h, last := a, b; h <= last; h++`): each is resolved to its own expression
	var postVar *ast.Ident
	switch s := loop.Post.(type) {
	case *ast.IncDecStmt:
		postVar, _ = s.X.(*ast.Ident)
	case *ast.AssignStmt:
		if len(s.Lhs) == 1 {
			postVar, _ = s.Lhs[0].(*ast.Ident)
		}
	}
	if postVar == nil {
		return "", fmt.Errorf("%s: loop post statement `%s` does not update a single variable", site, exprString(fset, loop.Post))
	}
	init, ok := loop.Init.(*ast.AssignStmt)
	if !ok || init.Tok != token.DEFINE || len(init.Lhs) != len(init.Rhs) || len(init.Lhs) == 0 {
		return "", fmt.Errorf("%s: loop init `%s` is not `<vars> := <exprs>` with one expression per variable", site, exprString(fset, loop.Init))
	}
	initDefs := map[string]ast.Expr{}
	var ivar *ast.Ident
	for i, l := range init.Lhs {
		id, ok := l.(*ast.Ident)
		if !ok {
			return "", fmt.Errorf("%s: loop init defines a non-identifier", site)
		}
		if id.Name == postVar.Name {
			ivar = id
		}
		initDefs[id.Name] = init.Rhs[i]
	}
	if ivar == nil {
		return "", fmt.Errorf("%s: the variable `%s` updated by the post statement is not defined by the loop init `%s`", site, postVar.Name, exprString(fset, loop.Init))
	}
	isVar := func(e ast.Expr) bool { id, ok := e.(*ast.Ident); return ok && id.Name == ivar.Name }
	// the other names of the init clause are evaluated once before the loop: substitute them in the bound
	others := map[string]ast.Expr{}
	for n, e := range initDefs {
		if n != ivar.Name {
			others[n] = inline(fn, e)
		}
	}
	lo, err := recoverAffine(fset, inline(fn, initDefs[ivar.Name]), isHeight("state"), "<state-store height>")
	if err != nil {
		return "", fmt.Errorf("%s: loop init: %v", site, err)
	}
	lcond, ok := loop.Cond.(*ast.BinaryExpr)
	if !ok {
		return "", fmt.Errorf("%s: loop condition `%s` is not a comparison", site, exprString(fset, loop.Cond))
	}
	var bound ast.Expr
	inclusive := false
	switch {
	case isVar(recoverStripParens(lcond.X)) && (lcond.Op == token.LSS || lcond.Op == token.LEQ):
		bound, inclusive = lcond.Y, lcond.Op == token.LEQ
	case isVar(recoverStripParens(lcond.Y)) && (lcond.Op == token.GTR || lcond.Op == token.GEQ):
		bound, inclusive = lcond.X, lcond.Op == token.GEQ
	default:
		return "", fmt.Errorf("%s: loop condition `%s` is not `%s < / <= <expr>` (or mirrored)", site, exprString(fset, loop.Cond), ivar.Name)
	}
	hi, err := recoverAffine(fset, ledgersrc.SubstIdents(inline(fn, bound), others), isHeight("block"), "<block-store height>")
	if err != nil {
		return "", fmt.Errorf("%s: loop condition: %v", site, err)
	}
	if inclusive {
		hi++
	}
	postOK := false
	switch s := loop.Post.(type) {
	case *ast.IncDecStmt:
		postOK = s.Tok == token.INC && isVar(s.X)
	case *ast.AssignStmt:
		if len(s.Lhs) == 1 && len(s.Rhs) == 1 && isVar(s.Lhs[0]) {
			one := func(e ast.Expr) bool { bl, ok := e.(*ast.BasicLit); return ok && bl.Value == "1" }
			if s.Tok == token.ADD_ASSIGN && one(s.Rhs[0]) {
				postOK = true
			}
			if be, ok := s.Rhs[0].(*ast.BinaryExpr); ok && s.Tok == token.ASSIGN && be.Op == token.ADD &&
				((isVar(be.X) && one(be.Y)) || (isVar(be.Y) && one(be.X))) {
				postOK = true
			}
		}
	}
	if !postOK {
		return "", fmt.Errorf("%s: loop post statement `%s` does not increment `%s` by one", site, exprString(fset, loop.Post), ivar.Name)
	}
	// the loop variable and the two heights must not be modified inside the loop body
	bad := ""
	ast.Inspect(loop.Body, func(n ast.Node) bool {
		check := func(e ast.Expr) {
			if id, ok := e.(*ast.Ident); ok && (id.Name == ivar.Name || heightVar[id.Name] != "" || others[id.Name] != nil) {
				bad = id.Name
			}
		}
		switch s := n.(type) {
		case *ast.AssignStmt:
			if s.Tok != token.DEFINE {
				for _, l := range s.Lhs {
					check(l)
				}
			}
		case *ast.IncDecStmt:
			check(s.X)
		case *ast.UnaryExpr:
			if s.Op == token.AND {
				check(s.X)
			}
		}
		return true
	})
	if bad != "" {
		return "", fmt.Errorf("%s: `%s` is modified inside the loop body", site, bad)
	}

	// one iteration, by order of effects, wherever the calls live
	ev := p.Trace(fn, loop.Body, inline)
	roles := ledgersrc.Roles(ev)
	idx := map[string]int{}
	for _, r := range []string{"blockStore.GetBlockHash", "blockStore.GetBlock", "eventStore.NewBatch", "stateStore.NewBatch",
		"executeBlock", "saveBlockToStateStore", "saveBlockToEventStore"} {
		if c := countOf(roles, r); c != 1 {
			return "", fmt.Errorf("%s: expected exactly one call of %s in one iteration of the replay loop (helpers included), found %d; trace: %v", site, r, c, roles)
		}
		idx[r] = indexOf(roles, r)
	}
	before := func(a, b string) error {
		if idx[a] > idx[b] {
			return fmt.Errorf("%s: %s must precede %s in the replay loop; trace: %v", site, a, b, roles)
		}
		return nil
	}
	for _, pr := range [][2]string{{"blockStore.GetBlockHash", "blockStore.GetBlock"}, {"blockStore.GetBlock", "executeBlock"},
		{"executeBlock", "saveBlockToStateStore"}, {"executeBlock", "saveBlockToEventStore"},
		{"stateStore.NewBatch", "saveBlockToStateStore"}, {"eventStore.NewBatch", "saveBlockToStateStore"}, {"eventStore.NewBatch", "saveBlockToEventStore"}} {
		if err := before(pr[0], pr[1]); err != nil {
			return "", err
		}
	}
	recLetters, err := ledgersrc.CommitLetters(ev)
	if err != nil {
		return "", fmt.Errorf("%s: %v", site, err)
	}
	var recCommits []int
	for i, r := range roles {
		if strings.HasSuffix(r, ".CommitTo") && (i < idx["saveBlockToStateStore"] || i < idx["saveBlockToEventStore"]) {
			return "", fmt.Errorf("%s: %s is called before the batches are filled; trace: %v", site, r, roles)
		}
	}
	for _, c := range recLetters {
		recCommits = append(recCommits, recoverStoreNo[string(c)])
	}
	// every iteration reaches every effect: the statements that carry the effects (role calls and calls of the helpers
	// they were extracted into) may be guarded by nothing but the absence of an earlier error (`if err != nil { return }`);
	// a `continue` / conditional skip in front of them (e.g. "skip empty blocks") makes the fact false
	unconditional, skipNote := true, ""
	isErrGuard := func(c cond) bool {
		be, ok := stripParens(c.e).(*ast.BinaryExpr)
		if !ok {
			return false
		}
		_, lhsIdent := stripParens(be.X).(*ast.Ident)
		nilRhs := flat(fset, be.Y) == "nil"
		return lhsIdent && nilRhs && ((be.Op == token.NEQ && !c.pos) || (be.Op == token.EQL && c.pos))
	}
	checked := map[*ast.FuncDecl]bool{}
	checkBody := func(fd *ast.FuncDecl, list []ast.Stmt) {
		guardsOf(list, nil, func(st ast.Stmt, guards []cond) {
			carries := false
			ast.Inspect(st, func(n ast.Node) bool {
				if ce, ok := n.(*ast.CallExpr); ok {
					role, helper := ledgersrc.Classify(fd, ce)
					if role != "" || (helper != "" && helper[0] >= 'a' && helper[0] <= 'z' && p.Funcs[ledgersrc.RecvType(fd)+"."+helper] != nil) {
						carries = true
					}
				}
				return true
			})
			if !carries {
				return
			}
			for _, g := range guards {
				if !isErrGuard(g) && unconditional {
					unconditional = false
					neg := ""
					if !g.pos {
						neg = "not "
					}
					skipNote = fmt.Sprintf("in %s, `%s` runs only when %s(%s)", fd.Name.Name, flat(fset, st), neg, flat(fset, g.e))
				}
			}
		})
	}
	checkBody(fn, loop.Body.List)
	checked[fn] = true
	for _, e := range ev {
		if !checked[e.In] {
			checked[e.In] = true
			checkBody(e.In, e.In.Body.List)
		}
	}

	// which block an iteration executes
	gbh := ev[idx["blockStore.GetBlockHash"]]
	if len(gbh.Call.Args) != 1 {
		return "", fmt.Errorf("%s: GetBlockHash call with %d arguments", site, len(gbh.Call.Args))
	}
	argExpr := ledgersrc.SubstIdents(inline(gbh.In, gbh.Call.Args[0]), gbh.Subst)
	arg, err := recoverAffine(fset, argExpr, isVar, "<loop variable>")
	if err != nil {
		return "", fmt.Errorf("%s: argument of blockStore.GetBlockHash (in %s): %v", site, gbh.In.Name.Name, err)
	}

	// submitBlock: the hash file is appended while the state batch is built (saveBlockToStateStore ->
	// AddBlockMerkleTreeRoot -> CompactMerkleTree.AppendHash -> Append+Flush); then the three commits.
	site2 := ledgersrc.Dir + ":submitBlock"
	sb := p.Funcs["LedgerStoreImp.submitBlock"]
	if sb == nil {
		return "", fmt.Errorf("%s: method of LedgerStoreImp not found", site2)
	}
	sev := p.Trace(sb, sb.Body, inline)
	sroles := ledgersrc.Roles(sev)
	letters, err := ledgersrc.CommitLetters(sev)
	if err != nil {
		return "", fmt.Errorf("%s: %v", site2, err)
	}
	if len(letters) != 3 {
		return "", fmt.Errorf("%s: expected exactly one CommitTo of each of the block, event and state store, found %q; trace: %v", site2, letters, sroles)
	}
	var order []int
	for _, c := range letters {
		order = append(order, recoverStoreNo[string(c)])
	}
	for _, r := range []string{"saveBlockToBlockStore", "saveBlockToStateStore", "saveBlockToEventStore"} {
		if countOf(sroles, r) != 1 {
			return "", fmt.Errorf("%s: expected exactly one call of %s; trace: %v", site2, r, sroles)
		}
	}
	fill := indexOf(sroles, "saveBlockToStateStore")
	fileFirst := true
	for i, r := range sroles {
		if strings.HasSuffix(r, ".CommitTo") && i < fill {
			fileFirst = false
		}
	}
	// saveBlockToStateStore must be the function that appends the block merkle tree (and with it the hash file)
	ss := p.Funcs["LedgerStoreImp.saveBlockToStateStore"]
	appends := false
	if ss != nil {
		_, funcs, err := pkgFuncs(repo, ledgersrc.Dir)
		if err != nil {
			return "", err
		}
		walkDeep(funcs, funcs["saveBlockToStateStore"], 2, func(n ast.Node, in *ast.FuncDecl) bool {
			if ce, ok := n.(*ast.CallExpr); ok {
				if sel, ok := ce.Fun.(*ast.SelectorExpr); ok && sel.Sel.Name == "AddBlockMerkleTreeRoot" {
					appends = true
				}
			}
			return true
		})
	}
	if !appends {
		return "", fmt.Errorf("%s:saveBlockToStateStore: call of AddBlockMerkleTreeRoot not found (helpers included)", ledgersrc.Dir)
	}

	var out strings.Builder
	out.WriteString("/-! Facts of the ledger store's commit and recovery protocol (property C01), extracted from\n`" + recoverFile + "`. Store numbering: 0 = block store, 1 = event store, 2 = state store. -/\n")
	out.WriteString("namespace OntVerif.Gen.Recover\n\n")
	fmt.Fprintf(&out, "/-- %s — the replay loop is `%s`; an iteration executes the block `GetBlockHash(%s)` (written in `%s`).\nRead as `for i := stateHeight + loopLo; i < blockHeight + loopHi; i++ { execute block (i + blockArg) }`. -/\n", site, hdr, flat(fset, gbh.Call.Args[0]), gbh.In.Name.Name)
	fmt.Fprintf(&out, "def loopLo : Nat := %d\n", lo)
	fmt.Fprintf(&out, "/-- see `loopLo` -/\ndef loopHi : Nat := %d\n", hi)
	fmt.Fprintf(&out, "/-- see `loopLo` -/\ndef blockArg : Nat := %d\n\n", arg)
	fmt.Fprintf(&out, "/-- %s — stores committed by one iteration of the replay loop, in source order -/\ndef recoverCommits : List Nat := %s\n\n", site, natList(recCommits))
	note := "every effect of an iteration is guarded only by the absence of an earlier error"
	if !unconditional {
		note = "CONDITIONAL: " + skipNote
	}
	fmt.Fprintf(&out, "/-- %s — one iteration of the replay loop reaches all its effects whatever the block contains: %s -/\ndef replayUnconditional : Bool := %v\n\n", site, strings.ReplaceAll(note, "-/", "- /"), unconditional)
	fmt.Fprintf(&out, "/-- %s — order of the three `CommitTo` calls -/\ndef commitOrder : List Nat := %s\n\n", site2, natList(order))
	fmt.Fprintf(&out, "/-- %s — `saveBlockToStateStore` (which appends and syncs the merkle hash file through `AddBlockMerkleTreeRoot`) is called before every `CommitTo` -/\ndef fileAppendFirst : Bool := %v\n\n", site2, fileFirst)
	out.WriteString("end OntVerif.Gen.Recover\n")
	return out.String(), nil
}
