package main

// Fact group "Gov" (properties C10, C11): constants and tables of the governance contract.
//
// Sites read (an error names the site that is missing or has an unexpected shape):
//   smartcontract/service/native/governance/governance.go :
//       const PRECISE, NEW_VERSION_VIEW, NEW_VERSION_BLOCK, NEW_WITHDRAW_BLOCK; the Status iota block
//       (RegisterCandidateStatus … BlackStatus, order checked); var Xi ([]uint32 literal);
//       func InitConfig: the `globalParam := &GlobalParam{…}` literal (CandidateFee, CandidateNum, PosLimit, A, B, Yita,
//       Penalty) and the `splitCurve := &SplitCurve{Yi: []uint32{…}}` literal
//   smartcontract/service/native/governance/utils.go :
//       func getGlobalParam2: the default literal (MinAuthorizePos); func getPeerAttributes: the default literal
//       (T2PeerCost, T1PeerCost, TPeerCost, MaxAuthorize)
//   common/constants/constants.go : BLOCKHEIGHT_SELFGOV_REGISTER_MAINNET, BLOCKHEIGHT_NEW_PEER_COST_MAINNET,
//       USER_FEE_SPLIT_OVERFLOW_MAINNET, ONG_DECIMALS (MIN_CANDIDATE_FEE = 10^ONG_DECIMALS)
//
// The control flow of the contract is modelled by hand in Model/Gov.lean over these definitions and tied by the
// C10/C11 correspondence harnesses.

import (
	"fmt"
	"go/ast"
	"go/token"
	"strconv"
	"strings"
)

func init() { Register("Gov", genGov) }

const (
	govFile      = "smartcontract/service/native/governance/governance.go"
	govUtilsFile = "smartcontract/service/native/governance/utils.go"
)

// govConstInt evaluates integer literals and products of integer literals (`7 * 7`).
func govConstInt(e ast.Expr, site string) (uint64, error) {
	e = ongStripConv(e)
	if be, ok := e.(*ast.BinaryExpr); ok && be.Op == token.MUL {
		l, err := govConstInt(be.X, site)
		if err != nil {
			return 0, err
		}
		r, err := govConstInt(be.Y, site)
		if err != nil {
			return 0, err
		}
		return l * r, nil
	}
	return ongIntLit(e, site)
}

// govUint32Slice reads `[]uint32{a, b, …}`.
func govUint32Slice(e ast.Expr, site string) ([]uint64, error) {
	cl, ok := ongUnparen(e).(*ast.CompositeLit)
	if !ok {
		return nil, fmt.Errorf("%s: expected a slice literal", site)
	}
	at, ok := cl.Type.(*ast.ArrayType)
	if !ok || at.Len != nil {
		return nil, fmt.Errorf("%s: expected a []uint32 slice type", site)
	}
	if id, ok := at.Elt.(*ast.Ident); !ok || id.Name != "uint32" {
		return nil, fmt.Errorf("%s: expected element type uint32", site)
	}
	var out []uint64
	for _, el := range cl.Elts {
		if _, isKV := el.(*ast.KeyValueExpr); isKV {
			return nil, fmt.Errorf("%s: keyed elements are not supported", site)
		}
		v, err := ongIntLit(el, site+" (element)")
		if err != nil {
			return nil, err
		}
		if v >= 1<<32 {
			return nil, fmt.Errorf("%s: element does not fit uint32", site)
		}
		out = append(out, v)
	}
	return out, nil
}

// govStructLit finds, inside fn, the first composite literal `&T{…}` / `T{…}` of the named type and returns its
// keyed fields.
func govStructLit(fn *ast.FuncDecl, typeName, site string) (map[string]ast.Expr, error) {
	var found *ast.CompositeLit
	ast.Inspect(fn.Body, func(n ast.Node) bool {
		if cl, ok := n.(*ast.CompositeLit); ok && found == nil {
			if id, ok := cl.Type.(*ast.Ident); ok && id.Name == typeName {
				found = cl
			}
		}
		return true
	})
	if found == nil {
		return nil, fmt.Errorf("%s: composite literal of type %s not found", site, typeName)
	}
	out := map[string]ast.Expr{}
	for _, el := range found.Elts {
		kv, ok := el.(*ast.KeyValueExpr)
		if !ok {
			return nil, fmt.Errorf("%s: %s literal has positional fields", site, typeName)
		}
		k, ok := kv.Key.(*ast.Ident)
		if !ok {
			return nil, fmt.Errorf("%s: %s literal has a non-identifier key", site, typeName)
		}
		out[k.Name] = kv.Value
	}
	return out, nil
}

func govList(vs []uint64) string {
	var parts []string
	for i, v := range vs {
		s := strconv.FormatUint(v, 10)
		if i > 0 && i%12 == 0 {
			s = "\n  " + s
		}
		parts = append(parts, s)
	}
	return "[" + strings.Join(parts, ", ") + "]"
}

func genGov(repo string) (string, error) {
	_, gf, err := parseFile(repo, govFile)
	if err != nil {
		return "", err
	}
	_, uf, err := parseFile(repo, govUtilsFile)
	if err != nil {
		return "", err
	}
	_, cf, err := parseFile(repo, ongConstFile)
	if err != nil {
		return "", err
	}
	var b strings.Builder
	b.WriteString("/-! Facts of the governance contract (properties C10, C11), extracted from\n")
	b.WriteString("`" + govFile + "`, `" + govUtilsFile + "` and `" + ongConstFile + "`. -/\n")
	b.WriteString("namespace OntVerif.Gen.Gov\n\n")

	for _, name := range []string{"PRECISE", "NEW_VERSION_VIEW", "NEW_VERSION_BLOCK", "NEW_WITHDRAW_BLOCK"} {
		e, err := ongTopValue(gf, govFile, name)
		if err != nil {
			return "", err
		}
		v, err := ongIntLit(e, govFile+":"+name)
		if err != nil {
			return "", err
		}
		fmt.Fprintf(&b, "/-- `%s:%s` -/\ndef %s : Nat := %d\n", govFile, name, name, v)
	}
	for _, name := range []string{"BLOCKHEIGHT_SELFGOV_REGISTER_MAINNET", "BLOCKHEIGHT_NEW_PEER_COST_MAINNET",
		"USER_FEE_SPLIT_OVERFLOW_MAINNET", "ONG_DECIMALS"} {
		e, err := ongTopValue(cf, ongConstFile, name)
		if err != nil {
			return "", err
		}
		v, err := ongIntLit(e, ongConstFile+":"+name)
		if err != nil {
			return "", err
		}
		fmt.Fprintf(&b, "/-- `%s:%s` -/\ndef %s : Nat := %d\n", ongConstFile, name, name, v)
	}
	// MIN_CANDIDATE_FEE = uint64(math.Pow(10, constants.ONG_DECIMALS))
	{
		site := govFile + ":MIN_CANDIDATE_FEE"
		e, err := ongTopValue(gf, govFile, "MIN_CANDIDATE_FEE")
		if err != nil {
			return "", err
		}
		s := exprStringNoFset(e)
		if s != "uint64(math.Pow(10, constants.ONG_DECIMALS))" {
			return "", fmt.Errorf("%s: expected uint64(math.Pow(10, constants.ONG_DECIMALS)), found %s", site, s)
		}
		fmt.Fprintf(&b, "/-- `%s` = uint64(math.Pow(10, constants.ONG_DECIMALS)) -/\ndef MIN_CANDIDATE_FEE : Nat := 10 ^ ONG_DECIMALS\n", site)
	}

	// Status iota block: the six names in this order
	{
		site := govFile + ":Status constants"
		want := []string{"RegisterCandidateStatus", "CandidateStatus", "ConsensusStatus", "QuitConsensusStatus", "QuitingStatus", "BlackStatus"}
		ok := false
		for _, d := range gf.Decls {
			gd, isGen := d.(*ast.GenDecl)
			if !isGen || gd.Tok != token.CONST || len(gd.Specs) == 0 {
				continue
			}
			first := gd.Specs[0].(*ast.ValueSpec)
			if len(first.Names) != 1 || first.Names[0].Name != want[0] {
				continue
			}
			if len(first.Values) != 1 || exprStringNoFset(first.Values[0]) != "iota" {
				return "", fmt.Errorf("%s: first constant is not `= iota`", site)
			}
			if len(gd.Specs) != len(want) {
				return "", fmt.Errorf("%s: expected %d status constants, found %d", site, len(want), len(gd.Specs))
			}
			for i, s := range gd.Specs {
				vs := s.(*ast.ValueSpec)
				if len(vs.Names) != 1 || vs.Names[0].Name != want[i] || (i > 0 && len(vs.Values) != 0) {
					return "", fmt.Errorf("%s: constant #%d is not %s", site, i, want[i])
				}
			}
			ok = true
		}
		if !ok {
			return "", fmt.Errorf("%s: iota block starting with %s not found", site, want[0])
		}
		for i, n := range want {
			fmt.Fprintf(&b, "/-- `%s:%s` (iota) -/\ndef %s : Nat := %d\n", govFile, n, n, i)
		}
	}

	// Xi
	xe, err := ongTopValue(gf, govFile, "Xi")
	if err != nil {
		return "", err
	}
	xi, err := govUint32Slice(xe, govFile+":Xi")
	if err != nil {
		return "", err
	}
	fmt.Fprintf(&b, "/-- `%s:Xi` ([]uint32, %d entries) -/\ndef Xi : List Nat := %s\n", govFile, len(xi), govList(xi))

	// InitConfig literals
	initFn := findFunc(gf, "InitConfig")
	if initFn == nil || initFn.Body == nil {
		return "", fmt.Errorf("%s:InitConfig: function not found", govFile)
	}
	gp, err := govStructLit(initFn, "GlobalParam", govFile+":InitConfig")
	if err != nil {
		return "", err
	}
	for _, f := range []struct{ field, lean string }{{"CandidateFee", "INIT_CANDIDATE_FEE"}, {"CandidateNum", "INIT_CANDIDATE_NUM"},
		{"PosLimit", "INIT_POS_LIMIT"}, {"A", "INIT_A"}, {"B", "INIT_B"}, {"Yita", "INIT_YITA"}, {"Penalty", "INIT_PENALTY"}} {
		e, ok := gp[f.field]
		if !ok {
			return "", fmt.Errorf("%s:InitConfig: GlobalParam literal has no field %s", govFile, f.field)
		}
		v, err := govConstInt(e, govFile+":InitConfig GlobalParam."+f.field)
		if err != nil {
			return "", err
		}
		fmt.Fprintf(&b, "/-- `%s:InitConfig` GlobalParam.%s -/\ndef %s : Nat := %d\n", govFile, f.field, f.lean, v)
	}
	if e, ok := gp["MinInitStake"]; !ok || exprStringNoFset(e) != "configuration.MinInitStake" {
		return "", fmt.Errorf("%s:InitConfig: GlobalParam.MinInitStake is not taken from configuration.MinInitStake", govFile)
	}
	sc, err := govStructLit(initFn, "SplitCurve", govFile+":InitConfig")
	if err != nil {
		return "", err
	}
	ye, ok := sc["Yi"]
	if !ok {
		return "", fmt.Errorf("%s:InitConfig: SplitCurve literal has no field Yi", govFile)
	}
	yi, err := govUint32Slice(ye, govFile+":InitConfig SplitCurve.Yi")
	if err != nil {
		return "", err
	}
	fmt.Fprintf(&b, "/-- `%s:InitConfig` SplitCurve.Yi ([]uint32, %d entries) -/\ndef Yi0 : List Nat := %s\n", govFile, len(yi), govList(yi))
	if len(yi) != len(xi) {
		return "", fmt.Errorf("%s: len(Yi)=%d differs from len(Xi)=%d", govFile, len(yi), len(xi))
	}

	// defaults in utils.go
	g2 := findFunc(uf, "getGlobalParam2")
	if g2 == nil || g2.Body == nil {
		return "", fmt.Errorf("%s:getGlobalParam2: function not found", govUtilsFile)
	}
	g2l, err := govStructLit(g2, "GlobalParam2", govUtilsFile+":getGlobalParam2")
	if err != nil {
		return "", err
	}
	if e, ok := g2l["MinAuthorizePos"]; ok {
		v, err := ongIntLit(e, govUtilsFile+":getGlobalParam2 MinAuthorizePos")
		if err != nil {
			return "", err
		}
		fmt.Fprintf(&b, "/-- `%s:getGlobalParam2` default MinAuthorizePos -/\ndef DEFAULT_MIN_AUTHORIZE_POS : Nat := %d\n", govUtilsFile, v)
	} else {
		return "", fmt.Errorf("%s:getGlobalParam2: default literal has no MinAuthorizePos", govUtilsFile)
	}
	if e, ok := g2l["CandidateFeeSplitNum"]; !ok || exprStringNoFset(e) != "globalParam.CandidateNum" {
		return "", fmt.Errorf("%s:getGlobalParam2: default CandidateFeeSplitNum is not globalParam.CandidateNum", govUtilsFile)
	}
	if _, ok := g2l["DappFee"]; ok {
		return "", fmt.Errorf("%s:getGlobalParam2: default literal sets DappFee (model assumes the zero default)", govUtilsFile)
	}
	pa := findFunc(uf, "getPeerAttributes")
	if pa == nil || pa.Body == nil {
		return "", fmt.Errorf("%s:getPeerAttributes: function not found", govUtilsFile)
	}
	pal, err := govStructLit(pa, "PeerAttributes", govUtilsFile+":getPeerAttributes")
	if err != nil {
		return "", err
	}
	for _, f := range []struct{ field, lean string }{{"MaxAuthorize", "DEFAULT_MAX_AUTHORIZE"}, {"T2PeerCost", "DEFAULT_T2_PEER_COST"},
		{"T1PeerCost", "DEFAULT_T1_PEER_COST"}, {"TPeerCost", "DEFAULT_T_PEER_COST"}} {
		e, ok := pal[f.field]
		if !ok {
			return "", fmt.Errorf("%s:getPeerAttributes: default literal has no field %s", govUtilsFile, f.field)
		}
		v, err := ongIntLit(e, govUtilsFile+":getPeerAttributes "+f.field)
		if err != nil {
			return "", err
		}
		fmt.Fprintf(&b, "/-- `%s:getPeerAttributes` default %s -/\ndef %s : Nat := %d\n", govUtilsFile, f.field, f.lean, v)
	}
	for _, f := range []string{"T2StakeCost", "T1StakeCost", "TStakeCost"} {
		if _, ok := pal[f]; ok {
			return "", fmt.Errorf("%s:getPeerAttributes: default literal sets %s (model assumes the zero default)", govUtilsFile, f)
		}
	}
	b.WriteString("\nend OntVerif.Gen.Gov\n")
	return b.String(), nil
}

func exprStringNoFset(e ast.Node) string { return exprString(token.NewFileSet(), e) }
