package main

// Normalisation helpers shared by the fact groups. Their purpose: a fact must survive the rewrites a maintainer calls
// "no functional change" — a loop-invariant expression hoisted into a local, a repeated expression given a name, a block
// extracted into an unexported helper of the same package, an if/else chain turned into a tag-less switch or into early
// returns, renamed locals — and still change when the computed value, the guard or the order of effects changes.
// So extractors should (1) locate a site by its ROLE (what is returned / called / assigned under the guard), not by the
// names of locals, (2) translate expressions after inlineLocals, (3) look through same-package helpers with walkDeep /
// calleeOf, (4) read conditions through guardsOf.  None of this guesses: what is not understood is still reported.

import (
	"go/ast"
	"go/parser"
	"go/token"
	"os"
	"path/filepath"
	"strings"
)

// pkgFuncs parses every non-test .go file of a package directory (build-tagged files included) and returns its function
// and method declarations by name (methods are keyed by their bare name; a second declaration of a name is keyed
// "Recv.name" as well, so callers that care can disambiguate).
func pkgFuncs(repo, dir string) (*token.FileSet, map[string]*ast.FuncDecl, error) {
	fset := token.NewFileSet()
	out := map[string]*ast.FuncDecl{}
	ents, err := os.ReadDir(filepath.Join(repo, dir))
	if err != nil {
		return nil, nil, err
	}
	for _, e := range ents {
		n := e.Name()
		if e.IsDir() || !strings.HasSuffix(n, ".go") || strings.HasSuffix(n, "_test.go") || strings.HasPrefix(n, "verif_export_") {
			continue
		}
		f, err := parser.ParseFile(fset, filepath.Join(repo, dir, n), nil, parser.ParseComments)
		if err != nil {
			return nil, nil, err
		}
		for _, d := range f.Decls {
			if fd, ok := d.(*ast.FuncDecl); ok && fd.Body != nil {
				if prev, dup := out[fd.Name.Name]; !dup {
					out[fd.Name.Name] = fd
				} else {
					// the bare name is declared more than once (methods of several types, or a function and a method):
					// remember that, calleeOf refuses to resolve a method call by such a name
					out["?"+fd.Name.Name] = prev
					if fd.Recv == nil {
						out[fd.Name.Name] = fd // a plain call f(..) can only mean the function
					}
				}
				if fd.Recv != nil && len(fd.Recv.List) == 1 {
					out[recvTypeName(fd.Recv.List[0].Type)+"."+fd.Name.Name] = fd
				}
			}
		}
	}
	return fset, out, nil
}

// pkgConsts returns the package-level constants (and `var x = <literal>`) of a package directory whose value is a basic
// literal or a constant expression over other such constants: name -> defining expression. Use with singleDefsWith so
// that `const quorumDenominator = 3` is inlined like a local.
func pkgConsts(repo, dir string) map[string]ast.Expr {
	out := map[string]ast.Expr{}
	ents, err := os.ReadDir(filepath.Join(repo, dir))
	if err != nil {
		return out
	}
	fset := token.NewFileSet()
	for _, e := range ents {
		n := e.Name()
		if e.IsDir() || !strings.HasSuffix(n, ".go") || strings.HasSuffix(n, "_test.go") || strings.HasPrefix(n, "verif_export_") {
			continue
		}
		f, err := parser.ParseFile(fset, filepath.Join(repo, dir, n), nil, 0)
		if err != nil {
			continue
		}
		for _, d := range f.Decls {
			gd, ok := d.(*ast.GenDecl)
			if !ok || gd.Tok != token.CONST {
				continue
			}
			for _, sp := range gd.Specs {
				vs := sp.(*ast.ValueSpec)
				if len(vs.Names) == len(vs.Values) {
					for i, nm := range vs.Names {
						out[nm.Name] = vs.Values[i]
					}
				}
			}
		}
	}
	return out
}

// singleDefsWith is singleDefs plus package-level constants as a fallback for names that have no local definition.
func singleDefsWith(fn *ast.FuncDecl, consts map[string]ast.Expr) *defTable {
	t := singleDefs(fn)
	t.consts = consts
	return t
}

func recvTypeName(e ast.Expr) string {
	switch x := e.(type) {
	case *ast.StarExpr:
		return recvTypeName(x.X)
	case *ast.Ident:
		return x.Name
	case *ast.IndexExpr:
		return recvTypeName(x.X)
	}
	return ""
}

// calleeOf returns the same-package declaration a call refers to: `f(..)`, `recv.f(..)`, `this.field.f(..)` are all
// resolved by the bare name f (good enough inside one package for unexported helpers; nil when the name is unknown).
func calleeOf(funcs map[string]*ast.FuncDecl, call *ast.CallExpr) *ast.FuncDecl {
	switch f := call.Fun.(type) {
	case *ast.Ident:
		if fd := funcs[f.Name]; fd != nil && (fd.Recv == nil || funcs["?"+f.Name] == nil) {
			return fd
		}
	case *ast.SelectorExpr:
		if funcs["?"+f.Sel.Name] != nil {
			return nil // several declarations of that name in the package: cannot tell which without types
		}
		if fd := funcs[f.Sel.Name]; fd != nil && fd.Recv != nil {
			return fd
		}
	}
	return nil
}

// walkDeep visits fn's body and, at every call of a same-package function, the body of that function too (depth-limited,
// each declaration at most once). visit gets the node and the declaration it belongs to.
func walkDeep(funcs map[string]*ast.FuncDecl, fn *ast.FuncDecl, depth int, visit func(n ast.Node, in *ast.FuncDecl) bool) {
	seen := map[*ast.FuncDecl]bool{}
	var rec func(fd *ast.FuncDecl, d int)
	rec = func(fd *ast.FuncDecl, d int) {
		if fd == nil || fd.Body == nil || seen[fd] {
			return
		}
		seen[fd] = true
		ast.Inspect(fd.Body, func(n ast.Node) bool {
			if n == nil {
				return true
			}
			if !visit(n, fd) {
				return false
			}
			if ce, ok := n.(*ast.CallExpr); ok && d > 0 {
				rec(calleeOf(funcs, ce), d-1)
			}
			return true
		})
	}
	rec(fn, depth)
}

// defTable knows, for every use of a local in a function, the one definition it refers to (Go scoping), if that
// definition is "simple": `x := e` / `var x = e` / `var x T = e` with one name and one value, the name is not assigned,
// incremented, ranged over or address-taken anywhere later in the scope of that definition, and e does not mention x.
// Parameters and named results are never resolved (see paramReassign in facts_quorum.go for the one idiom that needs it).
type defSite struct {
	name       string
	rhs        ast.Expr // nil: a definition that cannot be inlined (multi-value, no initialiser), it still shadows
	pos        token.Pos
	from, upto token.Pos // scope of the definition
}

type defTable struct {
	consts map[string]ast.Expr // package-level constants (optional)
	defs   []defSite
	muts   map[string][]token.Pos // positions at which a name is assigned / incremented / address-taken / range-assigned
}

func isScope(n ast.Node) bool {
	switch n.(type) {
	case *ast.BlockStmt, *ast.IfStmt, *ast.ForStmt, *ast.RangeStmt, *ast.SwitchStmt, *ast.TypeSwitchStmt, *ast.CaseClause, *ast.CommClause, *ast.FuncLit:
		return true
	}
	return false
}

func singleDefs(fn *ast.FuncDecl) *defTable {
	t := &defTable{muts: map[string][]token.Pos{}}
	var stack []ast.Node
	scope := func() (token.Pos, token.Pos) {
		for i := len(stack) - 1; i >= 0; i-- {
			if isScope(stack[i]) {
				return stack[i].Pos(), stack[i].End()
			}
		}
		return fn.Body.Pos(), fn.Body.End()
	}
	mut := func(e ast.Expr, p token.Pos) {
		if id, ok := e.(*ast.Ident); ok {
			t.muts[id.Name] = append(t.muts[id.Name], p)
		}
	}
	ast.Inspect(fn.Body, func(n ast.Node) bool {
		if n == nil {
			stack = stack[:len(stack)-1]
			return true
		}
		switch s := n.(type) {
		case *ast.AssignStmt:
			from, upto := scope()
			if s.Tok == token.DEFINE {
				for i, l := range s.Lhs {
					id, ok := l.(*ast.Ident)
					if !ok || id.Name == "_" {
						continue
					}
					var rhs ast.Expr
					if len(s.Lhs) == len(s.Rhs) {
						rhs = s.Rhs[i] // `x := e` and the parallel define `a, b := x, y`
					}
					// NOTE: in a multi-name `:=` some names may be re-assigned rather than declared; treating them as
					// (un-inlinable) definitions is the conservative choice
					t.defs = append(t.defs, defSite{id.Name, rhs, s.End(), from, upto})
				}
			} else {
				for _, l := range s.Lhs {
					mut(l, s.Pos())
				}
			}
		case *ast.IncDecStmt:
			mut(s.X, s.Pos())
		case *ast.UnaryExpr:
			if s.Op == token.AND {
				mut(s.X, s.Pos())
			}
		case *ast.RangeStmt:
			if s.Tok == token.DEFINE {
				for _, kv := range []ast.Expr{s.Key, s.Value} {
					if id, ok := kv.(*ast.Ident); ok && id.Name != "_" {
						t.defs = append(t.defs, defSite{id.Name, nil, s.Body.Pos(), s.Pos(), s.End()})
					}
				}
			} else {
				if s.Key != nil {
					mut(s.Key, s.Pos())
				}
				if s.Value != nil {
					mut(s.Value, s.Pos())
				}
			}
		case *ast.GenDecl:
			if s.Tok == token.VAR || s.Tok == token.CONST {
				from, upto := scope()
				for _, sp := range s.Specs {
					vs := sp.(*ast.ValueSpec)
					for _, nm := range vs.Names {
						var rhs ast.Expr
						if len(vs.Names) == 1 && len(vs.Values) == 1 {
							rhs = vs.Values[0]
						}
						t.defs = append(t.defs, defSite{nm.Name, rhs, s.End(), from, upto})
					}
				}
			}
		}
		stack = append(stack, n)
		return true
	})
	return t
}

// resolve returns the definition an identifier use refers to, or nil.
func (t *defTable) resolve(id *ast.Ident) ast.Expr {
	if t == nil {
		return nil
	}
	if !id.Pos().IsValid() {
		return nil
	}
	var best *defSite
	for i := range t.defs {
		d := &t.defs[i]
		if d.name == id.Name && d.pos <= id.Pos() && d.from <= id.Pos() && id.Pos() < d.upto && (best == nil || d.pos > best.pos) {
			best = d
		}
	}
	if best == nil {
		if c, ok := t.consts[id.Name]; ok && len(t.muts[id.Name]) == 0 {
			shadow := false
			for i := range t.defs {
				if t.defs[i].name == id.Name {
					shadow = true
				}
			}
			if !shadow {
				return c
			}
		}
		return nil
	}
	if best.rhs == nil {
		return nil
	}
	for _, p := range t.muts[id.Name] {
		if p >= best.pos && p < best.upto {
			return nil
		}
	}
	self := false
	ast.Inspect(best.rhs, func(n ast.Node) bool {
		if x, ok := n.(*ast.Ident); ok && x.Name == id.Name {
			self = true
		}
		return true
	})
	if self {
		return nil
	}
	return best.rhs
}

// inlineLocals returns e with every use of a simply-defined local replaced by (a parenthesised copy of) its definition,
// repeatedly (depth-limited). Only expression forms that occur in guards and integer formulas are rebuilt; anything else
// is returned as it is.
func inlineLocals(e ast.Expr, defs *defTable) ast.Expr { return inlineN(e, defs, 6) }

func inlineN(e ast.Expr, defs *defTable, depth int) ast.Expr {
	if e == nil || depth == 0 {
		return e
	}
	switch x := e.(type) {
	case *ast.Ident:
		if d := defs.resolve(x); d != nil {
			in := inlineN(d, defs, depth-1)
			switch in.(type) {
			case *ast.Ident, *ast.BasicLit, *ast.CallExpr, *ast.SelectorExpr, *ast.IndexExpr, *ast.ParenExpr:
				return in
			}
			return &ast.ParenExpr{X: in}
		}
		return x
	case *ast.ParenExpr:
		return &ast.ParenExpr{X: inlineN(x.X, defs, depth)}
	case *ast.BinaryExpr:
		return &ast.BinaryExpr{X: inlineN(x.X, defs, depth), Op: x.Op, Y: inlineN(x.Y, defs, depth)}
	case *ast.UnaryExpr:
		return &ast.UnaryExpr{Op: x.Op, X: inlineN(x.X, defs, depth)}
	case *ast.StarExpr:
		return &ast.StarExpr{X: inlineN(x.X, defs, depth)}
	case *ast.CallExpr:
		args := make([]ast.Expr, len(x.Args))
		for i, a := range x.Args {
			args[i] = inlineN(a, defs, depth)
		}
		return &ast.CallExpr{Fun: x.Fun, Args: args, Ellipsis: x.Ellipsis}
	case *ast.IndexExpr:
		return &ast.IndexExpr{X: inlineN(x.X, defs, depth), Index: inlineN(x.Index, defs, depth)}
	case *ast.SelectorExpr:
		return &ast.SelectorExpr{X: inlineN(x.X, defs, depth), Sel: x.Sel}
	case *ast.SliceExpr:
		return &ast.SliceExpr{X: inlineN(x.X, defs, depth), Low: inlineN(x.Low, defs, depth), High: inlineN(x.High, defs, depth), Max: inlineN(x.Max, defs, depth), Slice3: x.Slice3}
	}
	return e
}

// flat prints an expression on one line without any white space (synthesised nodes have no positions, so go/printer may
// break lines inside them); the canonical form for comparing and for atom tables.
func flat(fset *token.FileSet, e ast.Node) string {
	return strings.Join(strings.Fields(exprString(fset, e)), "")
}

// stripParens removes redundant outer parentheses.
func stripParens(e ast.Expr) ast.Expr {
	for {
		p, ok := e.(*ast.ParenExpr)
		if !ok {
			return e
		}
		e = p.X
	}
}

// guarded is one statement list together with the conditions under which it runs, innermost last. A condition is an
// expression plus a polarity (false: the statement runs when the expression is FALSE, i.e. it sits in an else branch or
// after an `if cond { return/continue/break/panic }`).
type cond struct {
	e   ast.Expr
	pos bool
}

// guardsOf walks a statement list and calls visit for every non-compound statement with the conditions that guard it
// inside this list (if / else / tag-less switch / tagged switch written as equality / early exits of preceding ifs).
// Loops are entered (their own condition is not recorded). init statements of if/switch are visited as statements.
func guardsOf(stmts []ast.Stmt, outer []cond, visit func(s ast.Stmt, guards []cond)) {
	cur := append([]cond{}, outer...)
	for _, s := range stmts {
		switch x := s.(type) {
		case *ast.IfStmt:
			if x.Init != nil {
				visit(x.Init, cur)
			}
			guardsOf(x.Body.List, append(append([]cond{}, cur...), cond{x.Cond, true}), visit)
			switch el := x.Else.(type) {
			case *ast.BlockStmt:
				guardsOf(el.List, append(append([]cond{}, cur...), cond{x.Cond, false}), visit)
			case *ast.IfStmt:
				guardsOf([]ast.Stmt{el}, append(append([]cond{}, cur...), cond{x.Cond, false}), visit)
			}
			if x.Else == nil && alwaysExits(x.Body.List) {
				cur = append(cur, cond{x.Cond, false}) // the rest of the list runs only when the condition was false
			} else if el, ok := x.Else.(*ast.BlockStmt); ok && alwaysExits(el.List) && !alwaysExits(x.Body.List) {
				cur = append(cur, cond{x.Cond, true}) // `if c { .. } else { return }`: the rest runs only when c held
			} else if ok && alwaysExits(x.Body.List) && !alwaysExits(el.List) {
				cur = append(cur, cond{x.Cond, false})
			}
		case *ast.SwitchStmt:
			if x.Init != nil {
				visit(x.Init, cur)
			}
			prev := append([]cond{}, cur...)
			for _, c := range x.Body.List {
				cc := c.(*ast.CaseClause)
				g := append([]cond{}, prev...)
				if cc.List == nil { // default: all previous cases false (already accumulated in prev)
					guardsOf(cc.Body, g, visit)
					continue
				}
				var ce ast.Expr
				for _, v := range cc.List {
					var one ast.Expr = v
					if x.Tag != nil {
						one = &ast.BinaryExpr{X: x.Tag, Op: token.EQL, Y: v}
					}
					if ce == nil {
						ce = one
					} else {
						ce = &ast.BinaryExpr{X: ce, Op: token.LOR, Y: one}
					}
				}
				guardsOf(cc.Body, append(g, cond{ce, true}), visit)
				prev = append(prev, cond{ce, false})
			}
		case *ast.BlockStmt:
			guardsOf(x.List, cur, visit)
		case *ast.ForStmt:
			if x.Init != nil {
				visit(x.Init, cur)
			}
			guardsOf(x.Body.List, cur, visit)
		case *ast.RangeStmt:
			guardsOf(x.Body.List, cur, visit)
		case *ast.LabeledStmt:
			guardsOf([]ast.Stmt{x.Stmt}, cur, visit)
		default:
			visit(s, cur)
		}
	}
}

// alwaysExits: the list ends by leaving the enclosing list (return, continue, break, goto, panic(..)).
func alwaysExits(list []ast.Stmt) bool {
	if len(list) == 0 {
		return false
	}
	switch l := list[len(list)-1].(type) {
	case *ast.ReturnStmt:
		return true
	case *ast.BranchStmt:
		return l.Tok == token.CONTINUE || l.Tok == token.BREAK || l.Tok == token.GOTO
	case *ast.ExprStmt:
		if ce, ok := l.X.(*ast.CallExpr); ok {
			if id, ok := ce.Fun.(*ast.Ident); ok && id.Name == "panic" {
				return true
			}
		}
	case *ast.IfStmt:
		if el, ok := l.Else.(*ast.BlockStmt); ok {
			return alwaysExits(l.Body.List) && alwaysExits(el.List)
		}
	}
	return false
}

// condString prints a guard list canonically: each condition after inlineLocals, negations written with "!(..)".
func condString(fset *token.FileSet, gs []cond, defs *defTable) []string {
	var out []string
	for _, g := range gs {
		s := flat(fset, stripParens(inlineLocals(g.e, defs)))
		if !g.pos {
			s = "!(" + s + ")"
		}
		out = append(out, s)
	}
	return out
}
