// C10 harness: (a) direct fee-split cases — the state executeSplit2 reads is injected into the REAL contract's storage
// (verif hooks), executeSplit2 runs, the credited SplitFeeAddress amounts / dapp transfer / returned sum are compared with
// the Lean model and the C10 predicates are evaluated on them whenever GovInv holds for the input;
// (b) governance histories (same executor as C11) on which GovInv itself, SplitFee = Σ SplitFeeAddress ≤ ONG balance and
// Σ credits ≤ income are monitored after every operation of the real contract.
package main

import (
	"strings"

	"verif/harness/internal/govkit"
	"verif/harness/internal/hx"
)

func exec(line string) hx.Result {
	if strings.HasPrefix(line, "S ") {
		var fs []string
		for _, f := range strings.Split(line[2:], " ") {
			if f != "" {
				fs = append(fs, f)
			}
		}
		out, v := govkit.ExecSplit(fs)
		kind := "split:" + strings.SplitN(out, " ", 2)[0]
		if v.Feat["authorizer-credit"] > 0 {
			kind = "split:authorizer-credit"
		} else if v.Feat["credits"] > 0 {
			kind = "split:owner-credit-only"
		}
		if v.Feat["govinv-false"] > 0 {
			kind += "/govinv-false"
		}
		return hx.Result{Out: out, Fail: v.Fail, Class: v.Class, Kind: kind, Key: line}
	}
	tag, ops, ok := govkit.SplitLine(line)
	if !ok {
		return hx.Result{Out: "bad-op", Kind: "bad-line"}
	}
	out, v := govkit.History(tag, ops, true)
	kind, key := v.KindKey()
	return hx.Result{Out: out, Fail: v.Fail, Class: v.Class, Kind: "history:" + kind, Key: key}
}

func gen(r *hx.Rand, tier string, i int) string {
	if i%10 < 7 {
		return govkit.GenSplit(r)
	}
	return govkit.GenHistory(r, tier, true)
}

func main() {
	hx.Main(hx.Prop{
		ID:   "C10",
		Rule: "70% direct split cases (1-9 candidates with 0-3 authorize records each, K/A/B/yita/split-num/dapp-fee/gas address, income over the whole range up to 10^18 incl. 2^64/100 boundary, peer/stake cost incl. 0/100/101, all three height regimes; ~10% of them violate one clause of GovInv) executed by the real executeSplit2 on injected storage; 30% state-aware governance histories (see C11) with GovInv and the SplitFee invariants monitored after every operation; key = line / feature set",
		Gen:  gen,
		Exec: exec,
		Init: govkit.Init,
		Corpus: []string{
			"S 1 1 2 50 50 5 3 10 13 1000000000000 0 1:1:10000:1500:1:1:10:0:9,1000,0+10,500,0/2:2:20000:0:1:1:100:0:-/3:6:10000:500:0:0:0:101:11,0,500",
			"S 1 1 1 50 50 5 1 0 - 1000000000000000000 0 1:1:1:1000000:1:1:0:101:9,1000000,0",
			"S 0 0 1 100 0 5 1 0 - 18446744073709551615 0 1:1:10000:1000:1:1:0:0:9,1000,0",
			"G1 ht:9500356;ht:9500357;commit:12;ht:9500358;commit:12;ht:9500359;commit:12;ht:9500360;commit:12;ht:9500361;commit:12;ht:9500362;commit:12;promise:12:5:0;redpos:4:5:4:10000;ht:9500363;commit:12;ht:9500364;commit:12;addpos:4:5:4:10000;ht:9500365;commit:12",
			"S 1 1 2 50 50 5 2 0 - 1000000000 0 1:1:10000:0:1:1:100:0:-/2:2:0:0:1:1:100:0:-",
			"G1 ht:17000000;ht:17000001;commit:12;ht:17000002;commit:12;ht:17000003;commit:12;ht:17000004;commit:12;ht:17000005;commit:12;ht:17000006;commit:12;reg:6:3:6:20000;maxauth:6:3:6:100000;feepct:6:3:6:10:20;auth:9:9:3,1000;auth:10:10:3,5000;ht:17000007;commit:12;ht:17000008;commit:12;fee:5000000000000;ht:17000009;commit:12;fee:5000000000000;ht:17000010;commit:12;wfee:9:9;wfee:6:6",
		},
		N: map[string]int{"quick": 1500, "thorough": 40000},
	})
}
