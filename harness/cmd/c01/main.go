// C01 harness: crash at any point of a block commit, reopen, compare with an uncrashed ledger.
//
// One case = one line  `CR:<h>:<k>:<t> blk;blk;...;blk`
//
//	blk   one block of the chain (heights 1..n): `e` (empty) or transactions joined by '+':
//	      ont.F.T.A / ong.F.T.A (transfer of A units from account F to account T, accounts 0..3, 0 = bookkeeper holding
//	      the whole ONT supply), claim.F.A (F claims A units of unbound ONG: transferFrom the ONT contract) and fan.F.N.A (ONE
//	      transaction transferring A units of ONT from F to each of N fresh addresses: N > 512 gives a block with more
//	      than 1024 state-store batch operations)
//	h     the block whose commit is interrupted (1 <= h, h+2 <= n: two following blocks must exist)
//	k     WHICH of the three LevelDB batch commits became durable: a subset of {b,e,s} (block, event, state store) written
//	      `-`, `b`, `e`, `s`, `be`, `bs`, `es`, `bes` (legacy digits 0..3 = `-`, `b`, `be`, `bes`). All 8 subsets are composed
//	      and reopened on the real code; the recovery predicate is evaluated on the REACHABLE ones = the prefixes of the
//	      order of the three CommitTo calls that submitBlock of the tree under check has NOW (read from its source,
//	      $VERIF_REPO/core/store/ledgerstore/ledger_store.go, at start-up). Unreachable subsets only report `reach=0 open=.. h=..`.
//	t     number of bytes of the block's eager hash-file append that became durable (`all` or a byte count, clamped)
//
// The real ledger (ledgerkit: LedgerStoreImp over LevelDB directories) builds the uncrashed chain once per block list,
// snapshotting the closed data directory after every block. The crash state is COMPOSED from the snapshots before and
// after block h (each store is its own directory; the hash file is the old file plus a prefix of the appended bytes),
// then the composed directory is reopened in-process with the repository's own InitLedger and observed:
// height, current hash, state root, block root, inclusion proof (served from the hash file), balances, event records;
// the following two blocks of the uncrashed chain are fed and everything is compared again, the directory is closed and
// its three stores + hash file are compared with the uncrashed snapshot key by key, and it is reopened once more.
//
// Output (canonical, compared with the Lean model): open=.. h=.. flen=.. obs=.. add=.. obs2=.. flen2=.. stores=.. reopen=.. obs3=..
package main

import (
	"fmt"
	"os"
	"path/filepath"
	"strconv"
	"strings"

	"github.com/ontio/ontology/account"
	"github.com/ontio/ontology/common"
	"github.com/ontio/ontology/core/types"
	"verif/harness/internal/hx"
	"verif/harness/internal/ledgerkit"
	"verif/harness/internal/ledgersrc"
)

const nAccts = 4

var (
	tmpRoot string
	accts   []*account.Account
	addrs   []common.Address
	refs    = map[string]*ref{}
	refSeq  int
	caseSeq int
)

// ref is the uncrashed run of one block list.
type ref struct {
	shc    uint32
	root   string
	blocks []*types.Block // blocks[i] = block of height i (1..n)
	snaps  []string       // snaps[i] = closed data directory at height i (0..n)
	obs    []ledgerkit.Obs
	dumps  []string
	flen   []int
	err    string
}

// srcOrder is the order of the three CommitTo calls in submitBlock of the tree under check ("bes" as shipped);
// "" with srcOrderErr set when the source does not have exactly one call of each.
// srcRecOrder: the same for the commits of one iteration of recoverStore's replay loop ("es" as shipped).
var srcOrder, srcRecOrder, srcOrderErr string

func readCommitOrder() {
	repo := os.Getenv("VERIF_REPO")
	if repo == "" {
		repo = "/repo"
	}
	// same reader as the factgen group Recover (package ledgersrc): the CommitTo calls are located by role, following
	// the commit / replay code into unexported same-receiver helpers
	c, r, err := ledgersrc.Orders(repo)
	if err != nil {
		// not understood: say so (once, as a failing case) and go on with the order the pinned tree ships, so that the
		// remaining lines still compare implementation and model instead of all turning into disagreements
		srcOrderErr = err.Error()
		srcOrder, srcRecOrder = "bes", "es"
		return
	}
	srcOrder, srcRecOrder = c, r
}

var orderErrReported bool

// reachable: the subset is the set of the first k commits of the source's order for some k.
func reachable(set string) bool {
	for k := 0; k <= 3; k++ {
		ok := len(set) == k
		for _, c := range srcOrder[:k] {
			if !strings.ContainsRune(set, c) {
				ok = false
			}
		}
		if ok {
			return true
		}
	}
	return false
}

var legacyK = map[string]string{"0": "-", "1": "b", "2": "be", "3": "bes"}
var validSet = map[string]bool{"-": true, "b": true, "e": true, "s": true, "be": true, "bs": true, "es": true, "bes": true}

func initAccts() {
	readCommitOrder()
	ledgerkit.InitGlobals()
	tmpRoot = ledgerkit.TmpDir("c01")
	for i := 0; i < nAccts; i++ {
		a := ledgerkit.NewAccount()
		accts = append(accts, a)
		addrs = append(addrs, a.Address)
	}
}

func parseTx(s string, nonce uint32) (*types.Transaction, error) {
	f := strings.Split(s, ".")
	num := func(x string) (uint64, error) { return strconv.ParseUint(x, 10, 64) }
	switch {
	case (f[0] == "ont" || f[0] == "ong") && len(f) == 4:
		from, e1 := num(f[1])
		to, e2 := num(f[2])
		amt, e3 := num(f[3])
		if e1 != nil || e2 != nil || e3 != nil || from >= nAccts || to >= nAccts {
			return nil, fmt.Errorf("bad tx %q", s)
		}
		return ledgerkit.TransferTx(accts[from], addrs[to], f[0], amt, 0, 20000, nonce)
	case f[0] == "fan" && len(f) == 4:
		from, e1 := num(f[1])
		cnt, e2 := num(f[2])
		amt, e3 := num(f[3])
		if e1 != nil || e2 != nil || e3 != nil || from >= nAccts || cnt < 1 || cnt > 5000 {
			return nil, fmt.Errorf("bad tx %q", s)
		}
		return ledgerkit.FanTx(accts[from], fmt.Sprint(nonce), int(cnt), amt, nonce)
	case f[0] == "claim" && len(f) == 3:
		who, e1 := num(f[1])
		amt, e2 := num(f[2])
		if e1 != nil || e2 != nil || who >= nAccts {
			return nil, fmt.Errorf("bad tx %q", s)
		}
		return ledgerkit.TransferFromTx(accts[who], ledgerkit.OntContract(), addrs[who], "ong", amt, nonce)
	}
	return nil, fmt.Errorf("bad tx %q", s)
}

func buildRef(shc uint32, spec string) *ref {
	refSeq++
	r := &ref{shc: shc, root: filepath.Join(tmpRoot, fmt.Sprintf("ref%d", refSeq))}
	fail := func(format string, a ...interface{}) *ref { r.err = fmt.Sprintf(format, a...); return r }
	live := filepath.Join(r.root, "live")
	os.MkdirAll(live, 0o755)
	ops := strings.Split(spec, ";")
	r.blocks = make([]*types.Block, len(ops)+1)
	nonce := uint32(1)
	snap := func(k *ledgerkit.Kit, i int) error {
		r.obs = append(r.obs, k.Observe(addrs))
		if err := k.Close(); err != nil {
			return err
		}
		d := filepath.Join(r.root, fmt.Sprintf("s%d", i))
		if err := ledgerkit.CopyDir(live, d); err != nil {
			return err
		}
		dump, err := ledgerkit.DumpStores(d)
		if err != nil {
			return err
		}
		fb, err := ledgerkit.MerkleFileBytes(d)
		if err != nil {
			return err
		}
		r.snaps = append(r.snaps, d)
		r.dumps = append(r.dumps, dump)
		r.flen = append(r.flen, len(fb))
		return nil
	}
	k, err := ledgerkit.OpenAt(live, accts[0], shc)
	if err != nil {
		return fail("genesis: %v", err)
	}
	if err := snap(k, 0); err != nil {
		return fail("snapshot 0: %v", err)
	}
	for i, op := range ops {
		h := i + 1
		k, err := ledgerkit.OpenAt(live, accts[0], shc) // the uncrashed node is itself closed and reopened between blocks
		if err != nil {
			return fail("reopen of the uncrashed ledger at height %d: %v", h-1, err)
		}
		var txs []*types.Transaction
		if op != "e" {
			for _, ts := range strings.Split(op, "+") {
				tx, err := parseTx(ts, nonce)
				nonce++
				if err != nil {
					k.Close()
					return fail("%v", err)
				}
				txs = append(txs, tx)
			}
		}
		blk, err := k.MakeBlock(txs)
		if err != nil {
			k.Close()
			return fail("make block %d: %v", h, err)
		}
		if err := k.Add(blk); err != nil {
			k.Close()
			return fail("uncrashed add of block %d: %v", h, err)
		}
		r.blocks[h] = blk
		if err := snap(k, h); err != nil {
			return fail("snapshot %d: %v", h, err)
		}
	}
	return r
}

func getRef(shc uint32, spec string) *ref {
	key := fmt.Sprintf("%d %s", shc, spec)
	if r, ok := refs[key]; ok {
		return r
	}
	if len(refs) >= 3 { // keep the scratch space small
		for s, r := range refs {
			os.RemoveAll(r.root)
			delete(refs, s)
		}
	}
	r := buildRef(shc, spec)
	refs[key] = r
	return r
}

func errClass(err error) string {
	s := err.Error()
	switch {
	case strings.Contains(s, "panic:"):
		return "panic"
	case strings.Contains(s, "merkle tree size is inconsistent"):
		return "treesize"
	case strings.Contains(s, "blockStore.GetBlockHash") || strings.Contains(s, "blockStore.GetBlock "):
		return "blockmissing"
	case strings.Contains(s, "recoverStore"):
		return "recover"
	case strings.Contains(s, "wrong block root"):
		return "blockroot"
	case strings.Contains(s, "not equal next block height"):
		return "height"
	}
	return "other"
}

func eqs(d string) string {
	if d == "" {
		return "eq"
	}
	return "ne"
}

func dumpDiff(a, b string) string {
	x, y := strings.Split(a, ","), strings.Split(b, ",")
	var d []string
	for i := range x {
		if i >= len(y) || x[i] != y[i] {
			d = append(d, strings.SplitN(x[i], ":", 2)[0])
		}
	}
	if len(x) != len(y) && len(d) == 0 {
		d = append(d, "layout")
	}
	return strings.Join(d, "+")
}

func fileLen(dir string) int {
	st, err := os.Stat(filepath.Join(dir, ledgerkit.MerkleFile))
	if err != nil {
		return -1
	}
	return int(st.Size())
}

// spec is one parsed case line.
type spec struct {
	kind   string // CR composed, RC real death in the commit, RR real death in the recovery of a composed state
	shc    uint32 // stateHashCheckHeight of every open of this case (`CR@3:...`; default 0)
	h      int
	set    string // durable commits of the first crash, letters of "bes" in that order ("" = none)
	tTok   string
	cycles [][2]string // composed crashes during recovery: (number of durable recovery commits, bytes of the re-append)
	x      string      // RC / RR: the store whose commit fails
}

var storeDir = map[string]string{"b": ledgerkit.DirBlock, "e": ledgerkit.DirEvent, "s": ledgerkit.DirState}
var storeName = map[string]string{"b": "block", "e": "event", "s": "state"}

func parseSpec(hdr string) (sp spec, ok bool) {
	f := strings.Split(hdr, ":")
	tag := strings.SplitN(f[0], "@", 2)
	sp.kind = tag[0]
	if len(tag) == 2 {
		v, err := strconv.ParseUint(tag[1], 10, 32)
		if err != nil {
			return sp, false
		}
		sp.shc = uint32(v)
	}
	canon := func(s string) (string, bool) {
		if l, ok := legacyK[s]; ok {
			s = l
		}
		if !validSet[s] {
			return "", false
		}
		return strings.Trim(s, "-"), true
	}
	digits := func(s string) bool {
		if s == "" {
			return false
		}
		for _, c := range s {
			if c < '0' || c > '9' {
				return false
			}
		}
		return true
	}
	tok := func(s string) bool { return s == "all" || digits(s) }
	var err error
	if len(f) < 2 || !digits(f[1]) {
		return sp, false
	}
	if sp.h, err = strconv.Atoi(f[1]); err != nil {
		return sp, false
	}
	switch sp.kind {
	case "CR":
		if len(f) < 4 || (len(f)-4)%2 != 0 || !tok(f[3]) {
			return sp, false
		}
		if sp.set, ok = canon(f[2]); !ok {
			return sp, false
		}
		sp.tTok = f[3]
		for i := 4; i < len(f); i += 2 {
			if !digits(f[i]) || !tok(f[i+1]) {
				return sp, false
			}
			sp.cycles = append(sp.cycles, [2]string{f[i], f[i+1]})
		}
	case "RS":
		if len(f) != 2 {
			return sp, false
		}
		sp.x, sp.tTok = "s", "all"
	case "RC":
		if len(f) != 3 || storeDir[f[2]] == "" {
			return sp, false
		}
		sp.x, sp.tTok = f[2], "all"
	case "RR":
		if len(f) != 5 || !tok(f[3]) || storeDir[f[4]] == "" {
			return sp, false
		}
		if sp.set, ok = canon(f[2]); !ok {
			return sp, false
		}
		sp.tTok, sp.x = f[3], f[4]
	default:
		return sp, false
	}
	return sp, true
}

func clampT(tok string, app int) int {
	if tok == "all" {
		return app
	}
	v, err := strconv.Atoi(tok)
	if err != nil || v > app {
		return app
	}
	return v
}

// before: the stores committed before store x in the given order
func before(order, x string) string {
	if i := strings.Index(order, x); i >= 0 {
		return order[:i]
	}
	return order
}

// canonical letters in b,e,s order
func canonSet(s string) string {
	out := ""
	for _, c := range "bes" {
		if strings.ContainsRune(s, c) {
			out += string(c)
		}
	}
	return out
}

// recoveryCycle composes the directory a process leaves when it dies during the reopen of cur after k durable commits
// of the recovery iteration (source order of recoverStore) and t bytes of its hash-file re-append: the recovery is run
// to completion on a copy (the real recoverStore), then its effects are taken over store by store / byte by byte.
func recoveryCycle(r *ref, h int, cur, done, next string, k, t int) error {
	if err := ledgerkit.CopyDir(cur, done); err != nil {
		return err
	}
	kit, err := ledgerkit.OpenAt(done, accts[0], r.shc)
	if err != nil {
		return ledgerkit.CopyDir(cur, next) // the reopen fails before any durable step
	}
	kit.SafeClose()
	fc, err := ledgerkit.MerkleFileBytes(cur)
	if err != nil {
		return err
	}
	fd, err := ledgerkit.MerkleFileBytes(done)
	if err != nil {
		return err
	}
	file := append([]byte(nil), fc...)
	p := r.flen[h-1] // offset the recovery writes at = size of the committed tree's hashes
	for i := p; i < p+t && i < len(fd); i++ {
		if i < len(file) {
			file[i] = fd[i]
		} else {
			file = append(file, fd[i])
		}
	}
	pick := map[string]string{}
	if k > len(srcRecOrder) {
		k = len(srcRecOrder)
	}
	for _, c := range srcRecOrder[:k] {
		pick[storeDir[string(c)]] = done
	}
	return ledgerkit.ComposeFrom(next, cur, pick, file)
}

func exec(line string) hx.Result {
	if line == "NOP" {
		return hx.Result{Out: "skip", Kind: "nop"}
	}
	parts := strings.SplitN(line, " ", 2)
	if len(parts) != 2 {
		return hx.Result{Out: "bad-op"}
	}
	if k := strings.SplitN(strings.SplitN(parts[0], ":", 2)[0], "@", 2)[0]; k != "CR" && k != "RC" && k != "RR" && k != "RS" {
		return hx.Result{Out: "bad-op"}
	}
	sp, ok := parseSpec(parts[0])
	ops := strings.Split(parts[1], ";")
	n := len(ops)
	if !ok || sp.h < 1 || sp.h+2 > n {
		return hx.Result{Out: "skip", Kind: "skip"}
	}
	if srcOrderErr != "" && !orderErrReported {
		orderErrReported = true
		return hx.Result{Out: "order-unknown", Fail: "commit order of submitBlock / recoverStore not readable (continuing with the shipped order bes/es): " + srcOrderErr, Class: "commit-order-unreadable", Kind: "harness-error"}
	}
	h := sp.h
	set := sp.set
	if sp.kind == "RC" || sp.kind == "RS" {
		set = canonSet(before(srcOrder, sp.x)) // what the real code has committed when the commit of x fails
	}
	hasB, hasE, hasS := strings.Contains(set, "b"), strings.Contains(set, "e"), strings.Contains(set, "s")
	k := len(set)
	kname := set
	if kname == "" {
		kname = "none"
	}
	reach := reachable(set)
	r := getRef(sp.shc, parts[1])
	if r.err != "" {
		// the uncrashed run itself failed: not a crash case (bad op list) unless it is a reopen failure of the uncrashed ledger
		if strings.HasPrefix(r.err, "bad tx") {
			return hx.Result{Out: "skip", Kind: "skip"}
		}
		return hx.Result{Out: "uncrashed-failed", Fail: "uncrashed run failed: " + r.err, Class: "uncrashed-run", Kind: "uncrashed-failed"}
	}
	app := r.flen[h] - r.flen[h-1]
	t := clampT(sp.tTok, app)
	tkind := "full"
	switch {
	case t == app:
	case t == 0:
		tkind = "none"
	case t%32 == 0:
		tkind = "boundary"
	default:
		tkind = "midhash"
	}
	// a state-store commit with a torn hash file needs the file's Sync to have been lost (or its write error ignored):
	// not reachable by process death. Not executed; the model prints the same token.
	if hasS && t < app {
		return hx.Result{Out: "unreachable", Kind: "state-committed-torn-file(unreachable: needs a lost fsync)"}
	}
	type cyc struct{ k, t int }
	var cycles []cyc
	for _, c := range sp.cycles {
		ck, _ := strconv.Atoi(c[0])
		cycles = append(cycles, cyc{ck, clampT(c[1], app)})
	}
	if sp.kind == "RR" {
		cycles = []cyc{{len(before(srcRecOrder, sp.x)), app}}
	}
	for _, c := range cycles {
		kk := c.k
		if kk > len(srcRecOrder) {
			kk = len(srcRecOrder)
		}
		if strings.Contains(srcRecOrder[:kk], "s") && c.t < app {
			return hx.Result{Out: "unreachable", Kind: "state-committed-torn-file(unreachable: needs a lost fsync)"}
		}
	}
	caseSeq++
	work := filepath.Join(tmpRoot, fmt.Sprintf("case%d", caseSeq))
	defer os.RemoveAll(work)
	dir := filepath.Join(work, "d0")
	harnessErr := func(what string, err error) hx.Result {
		return hx.Result{Out: "compose-failed", Fail: what + ": " + err.Error(), Class: "harness", Kind: "harness-error"}
	}
	variant := "composed"
	stateEarly, earlyDetail := "", ""
	switch sp.kind {
	case "CR":
		if err := ledgerkit.ComposeCrashDir(dir, r.snaps[h-1], r.snaps[h], hasB, hasE, hasS, t); err != nil {
			return harnessErr("compose", err)
		}
		for i, c := range cycles {
			next := filepath.Join(work, fmt.Sprintf("d%d", i+1))
			if err := recoveryCycle(r, h, dir, filepath.Join(work, fmt.Sprintf("done%d", i+1)), next, c.k, c.t); err != nil {
				return harnessErr("recovery cycle", err)
			}
			dir = next
			variant = fmt.Sprintf("composed+%d-recovery-crashes", i+1)
		}
	case "RC":
		live := filepath.Join(work, "live")
		if err := ledgerkit.CopyDir(r.snaps[h-1], live); err != nil {
			return harnessErr("copy", err)
		}
		died, err := ledgerkit.DieInCommit(live, dir, accts[0], r.shc, r.blocks[h], storeName[sp.x])
		if err != nil {
			return harnessErr("real crash in commit", err)
		}
		if !died {
			return hx.Result{Out: "no-death", Fail: "SubmitBlock succeeded although the " + storeName[sp.x] + " store refuses writes", Class: "harness-no-death", Kind: "harness-error"}
		}
		variant = "REAL-death-at-" + storeName[sp.x] + "-commit"
	case "RS":
		live := filepath.Join(work, "live")
		if err := ledgerkit.CopyDir(r.snaps[h-1], live); err != nil {
			return harnessErr("copy", err)
		}
		died, err := ledgerkit.DieAtStateCommit(live, dir, accts[0], r.shc, r.blocks[h])
		if err != nil {
			return harnessErr("real death at the state-store commit", err)
		}
		if !died {
			return hx.Result{Out: "no-death", Fail: "SubmitBlock never called the state store's BatchCommit", Class: "harness-no-death", Kind: "harness-error"}
		}
		variant = "REAL-death-on-entering-state-commit"
		// nothing of the state batch may be in the database before the commit call
		dg, cnt, err := ledgerkit.DumpDB(filepath.Join(dir, ledgerkit.DirState))
		if err != nil {
			return harnessErr("dump of the state db at the commit call", err)
		}
		now := fmt.Sprintf("%s:%s/%d", ledgerkit.DirState, dg, cnt)
		stateEarly = "eq"
		if !strings.Contains(r.dumps[h-1], now) {
			stateEarly = "ne"
			earlyDetail = fmt.Sprintf("state db when stateStore.CommitTo is entered: %s, before the block: %s", now, r.dumps[h-1])
		}
	case "RR":
		d1 := filepath.Join(work, "first")
		if err := ledgerkit.ComposeCrashDir(d1, r.snaps[h-1], r.snaps[h], hasB, hasE, hasS, t); err != nil {
			return harnessErr("compose", err)
		}
		died, err := ledgerkit.DieInRecovery(d1, dir, accts[0], r.shc, storeName[sp.x])
		if err != nil {
			return harnessErr("real crash in recovery", err)
		}
		variant = "composed+REAL-death-in-recovery-at-" + storeName[sp.x] + "-commit"
		if !died {
			variant = "composed+recovery-with-" + storeName[sp.x] + "-store-readonly-completed"
		}
	}

	var out []string
	bad := ""   // first field that violates the property
	notes := "" // details for the failure text
	flag := func(field, detail string) {
		if bad == "" {
			bad = field
			notes = detail
		}
	}
	if os.Getenv("HX_DEBUG") != "" {
		for i, o := range r.obs {
			fmt.Fprintf(os.Stderr, "uncrashed[%d] %s flen=%d %s\n", i, o, r.flen[i], r.dumps[i])
		}
	}
	finish := func() hx.Result {
		if stateEarly != "" {
			out = append(out, "statedb="+stateEarly)
			if stateEarly == "ne" && bad == "" {
				bad, notes = "early-state-write", earlyDetail
			}
		}
		res := hx.Result{Out: strings.Join(out, " "), Key: line}
		outcome := "recovered"
		if bad != "" {
			outcome = "FAILED-" + bad
		}
		res.Kind = fmt.Sprintf("%s:%s-t%s-%s", variant, kname, tkind, outcome)
		if bad != "" {
			stage := bad
			if strings.HasPrefix(bad, "obs") || strings.HasPrefix(bad, "stores") {
				stage = strings.SplitN(bad, ":", 2)[0] // which fields differ depends on the block content: kept in Fail only
			}
			res.Class = fmt.Sprintf("crash-%s:%s", kname, stage)
			if len(cycles) > 0 {
				res.Class = fmt.Sprintf("crash-%s+recovery-crash:%s", kname, stage)
			}
			res.Fail = fmt.Sprintf("[%s; recovery crashes %v; stateHashCheckHeight %d] crash while committing block %d with the commits {%s} durable (%d of 3, a prefix of the source's commit order %q) and %d/%d hash-file bytes durable: %s (%s) [%s]",
				variant, cycles, r.shc, h, kname, k, srcOrder, t, app, bad, notes, res.Out)
		}
		return res
	}

	if !reach {
		// not a crash state of the tree under check: the real reopen is still executed and its outcome compared with the
		// model's, but the recovery predicate does not apply
		res := hx.Result{Key: line}
		kit, err := ledgerkit.OpenAt(dir, accts[0], r.shc)
		if err != nil {
			res.Out = "reach=0 open=err:" + errClass(err)
		} else {
			res.Out = fmt.Sprintf("reach=0 open=ok h=%d", kit.Ledger.GetCurrentBlockHeight())
			kit.SafeClose()
		}
		res.Kind = fmt.Sprintf("%s-not-a-prefix-of-%s(opened, predicate not applicable)", kname, srcOrder)
		return res
	}
	out = append(out, "reach=1")
	kit, err := ledgerkit.OpenAt(dir, accts[0], r.shc)
	if err != nil {
		out = append(out, "open=err:"+errClass(err))
		flag("open-err:"+errClass(err), err.Error())
		return finish()
	}
	H := int(kit.Ledger.GetCurrentBlockHeight())
	out = append(out, "open=ok", fmt.Sprintf("h=%d", H), fmt.Sprintf("flen=%d", fileLen(dir)))
	if H != h-1 && H != h {
		flag("height", fmt.Sprintf("height %d is neither %d nor %d", H, h-1, h))
		out = append(out, "obs=na")
		kit.Close()
		return finish()
	}
	d := kit.Observe(addrs).Diff(r.obs[H])
	out = append(out, "obs="+eqs(d))
	if d != "" {
		flag("obs:"+d, "reopened ledger differs from the uncrashed ledger of the same height in "+d)
	}
	var adds []string
	for j := 1; j <= 2; j++ {
		if err := kit.SafeAdd(r.blocks[H+j]); err != nil {
			adds = append(adds, "rej:"+errClass(err))
			flag("add:"+errClass(err), fmt.Sprintf("block %d of the uncrashed chain rejected: %v", H+j, err))
		} else {
			adds = append(adds, "ok")
		}
	}
	out = append(out, "add="+strings.Join(adds, ","))
	H2 := int(kit.Ledger.GetCurrentBlockHeight())
	if H2 == H+2 {
		d = kit.Observe(addrs).Diff(r.obs[H2])
		out = append(out, "obs2="+eqs(d))
		if d != "" {
			flag("obs2:"+d, "after the following two blocks the ledger differs from the uncrashed one in "+d)
		}
	} else {
		out = append(out, "obs2=na")
	}
	out = append(out, fmt.Sprintf("flen2=%d", fileLen(dir)))
	if err := kit.Close(); err != nil {
		flag("close", err.Error())
	}
	if H2 == H+2 {
		dump, err := ledgerkit.DumpStores(dir)
		if err != nil {
			out = append(out, "stores=err")
			flag("stores:unreadable", err.Error())
		} else {
			dd := dumpDiff(dump, r.dumps[H2])
			out = append(out, "stores="+eqs(dd))
			if dd != "" {
				flag("stores:"+dd, "persistent content differs from the uncrashed directory in "+dd)
			}
		}
	} else {
		out = append(out, "stores=na")
	}
	kit2, err := ledgerkit.OpenAt(dir, accts[0], r.shc)
	if err != nil {
		out = append(out, "reopen=err:"+errClass(err))
		flag("reopen-err:"+errClass(err), err.Error())
		return finish()
	}
	out = append(out, "reopen=ok")
	H3 := int(kit2.Ledger.GetCurrentBlockHeight())
	if H3 == H2 && H2 == H+2 {
		d = kit2.Observe(addrs).Diff(r.obs[H3])
		out = append(out, "obs3="+eqs(d))
		if d != "" {
			flag("obs3:"+d, "after the second reopen the ledger differs from the uncrashed one in "+d)
		}
	} else {
		out = append(out, fmt.Sprintf("obs3=na:h=%d", H3))
		flag("reopen-height", fmt.Sprintf("second reopen reports height %d, before closing it was %d", H3, H2))
	}
	kit2.Close()
	return finish()
}

// ---- generation: every composition of every block of a generated chain -----------------------------------------

func trailingOnes(n int) int {
	c := 0
	for n%2 == 1 {
		c++
		n /= 2
	}
	return c
}

var curTier string

func genTx(r *hx.Rand, rich bool) string {
	if rich && curTier == "thorough" && r.Chance(3) {
		return fmt.Sprintf("fan.0.%d.1", 520+r.Intn(300)) // > 1024 state-store batch operations in one block
	}
	switch r.Intn(10) {
	case 0, 1, 2, 3:
		from := 0
		if rich && r.Chance(40) {
			from = r.Intn(nAccts)
		}
		return fmt.Sprintf("ont.%d.%d.%d", from, r.Intn(nAccts), 1+r.Intn(50))
	case 4, 5:
		return fmt.Sprintf("ont.%d.%d.%d", r.Intn(nAccts), r.Intn(nAccts), 1+r.Intn(20)) // may fail: insufficient balance
	case 6, 7:
		return fmt.Sprintf("claim.%d.%d", r.Intn(2), 1+r.Intn(1000))
	default:
		return fmt.Sprintf("ong.%d.%d.%d", r.Intn(nAccts), r.Intn(nAccts), 1+r.Intn(500))
	}
}

func genChain(r *hx.Rand, nblocks, maxTx int) string {
	// empty blocks are crash points of their own (their state batch is not empty: current-block marker, merkle leaves):
	// every chain has a single empty block, a run of two or three, and (one chain in three) an empty first block
	empty := map[int]bool{}
	if nblocks >= 6 {
		empty[1+r.Intn(nblocks-4)] = true
		run := 1 + r.Intn(nblocks-4)
		for j := 0; j < 2+r.Intn(2); j++ {
			empty[run+j] = true
		}
		if r.Chance(33) {
			empty[0] = true
		}
	}
	var ops []string
	for i := 0; i < nblocks; i++ {
		if empty[i] || r.Chance(10) {
			ops = append(ops, "e")
			continue
		}
		ntx := 1 + r.Intn(maxTx)
		var txs []string
		for j := 0; j < ntx; j++ {
			txs = append(txs, genTx(r, i > 1))
		}
		ops = append(ops, strings.Join(txs, "+"))
	}
	return strings.Join(ops, ";")
}

var pending []string

// compositions: for every block of the chain, every subset x every hash-file variant (first-level), the real deaths at
// each commit (RC), and second-level states: crashes during the recovery of the block-committed states, composed (CR
// with cycles: every (durable recovery commits, bytes of the re-append) in the thorough tier, a random sample in quick)
// and real (RR).
func compositions(r *hx.Rand, tier, chain string, crashable int) []string {
	var out []string
	tag := "CR"
	tagOf := func(k string) string { return k }
	if tier == "thorough" && r.Chance(40) {
		shc := 1 + r.Intn(crashable+1) // stateHashCheckHeight > 0: explored on the implementation only
		tag = fmt.Sprintf("CR@%d", shc)
		tagOf = func(k string) string { return fmt.Sprintf("%s@%d", k, shc) }
	}
	for h := 1; h <= crashable; h++ {
		a := 1 + trailingOnes(h) // hashes appended when the tree grows from h to h+1 leaves
		var ts []string
		for j := 0; j < a; j++ {
			ts = append(ts, fmt.Sprint(32*j))
		}
		mid := fmt.Sprint(32*r.Intn(a) + 1 + r.Intn(31))
		ts = append(ts, mid, "all")
		for _, set := range []string{"-", "b", "e", "s", "be", "bs", "es", "bes"} {
			for _, t := range ts {
				if strings.Contains(set, "s") && t != "all" {
					continue // state store committed but hash file torn: needs a lost fsync, not a process death
				}
				out = append(out, fmt.Sprintf("%s:%d:%s:%s %s", tag, h, set, t, chain))
			}
		}
		for _, x := range []string{"b", "e", "s"} {
			out = append(out, fmt.Sprintf("%s:%d:%s %s", tagOf("RC"), h, x, chain))
		}
		out = append(out, fmt.Sprintf("%s:%d %s", tagOf("RS"), h, chain))
		// crashes during recovery
		type c2 struct{ set, t, k, t2 string }
		var all []c2
		for _, set := range []string{"b", "be", "-"} {
			for _, t := range []string{"0", mid, "all"} {
				for _, kt := range [][2]string{{"0", "0"}, {"0", fmt.Sprint(1 + r.Intn(32*a-1))}, {"0", "all"}, {"1", "all"}, {"2", "all"}} {
					all = append(all, c2{set, t, kt[0], kt[1]})
				}
			}
		}
		pick := all
		if tier != "thorough" {
			pick = nil
			for i := 0; i < 3; i++ {
				pick = append(pick, all[r.Intn(30)]) // among the block-committed first-level states
			}
		}
		for _, c := range pick {
			line := fmt.Sprintf("%s:%d:%s:%s:%s:%s", tag, h, c.set, c.t, c.k, c.t2)
			if r.Chance(25) { // a third death
				line += fmt.Sprintf(":%d:%s", r.Intn(2), []string{"0", "all", "17"}[r.Intn(3)])
			}
			out = append(out, line+" "+chain)
		}
		for _, x := range []string{"e", "s"} {
			set := []string{"b", "be"}[r.Intn(2)]
			if tier == "thorough" {
				for _, set := range []string{"b", "be", "-", "bes"} {
					out = append(out, fmt.Sprintf("%s:%d:%s:%s:%s %s", tagOf("RR"), h, set, []string{"0", mid, "all"}[r.Intn(3)], x, chain))
				}
				continue
			}
			out = append(out, fmt.Sprintf("%s:%d:%s:%s:%s %s", tagOf("RR"), h, set, []string{"0", mid, "all"}[r.Intn(3)], x, chain))
		}
	}
	return out
}

// budget caps the number of real cases of one run (a case costs ~0.3 s: ledger opens on LevelDB directories); the
// focused search of ./check asks for 20000 cases, everything beyond the cap is the no-op line `NOP`.
var budget = map[string]int{"quick": 166 * 2, "thorough": 8000}

func gen(r *hx.Rand, tier string, i int) string {
	curTier = tier
	if i >= budget[tier] {
		return "NOP"
	}
	if len(pending) == 0 {
		crashable, maxTx := 6, 2
		if tier == "thorough" {
			crashable, maxTx = 4+r.Intn(12), 1+r.Intn(5)
		}
		pending = compositions(r, tier, genChain(r, crashable+2, maxTx), crashable)
	}
	l := pending[0]
	pending = pending[1:]
	return l
}

func main() {
	if os.Getenv("HX_TMP") == "" {
		os.Setenv("HX_TMP", fmt.Sprintf("/verif/build/tmp/c01-%d", os.Getpid()))
	}
	os.MkdirAll(os.Getenv("HX_TMP"), 0o755)
	if os.Getenv("HX_CHILD") == "" {
		defer os.RemoveAll(os.Getenv("HX_TMP"))
	}
	hx.Main(hx.Prop{
		ID: "C01",
		Rule: "for one generated chain of 8 blocks of ONT/ONG transfers and ONG claims (thorough: several chains of up to 17 blocks, up to 5 txs per block): EVERY crash composition of every block 1..6 — " +
			"all 8 subsets of {block, event, state} store commits durable x hash-file append cut at every 32-byte boundary, one mid-hash offset, and complete — composed from directory snapshots of the real LevelDB stores; " +
			"the predicate applies to the subsets that are prefixes of the CommitTo order read from submitBlock's source of the tree under check, the others are only reopened; " +
			"plus REAL deaths produced by the code itself (RC: the LevelDB of one store refuses writes, SubmitBlock stops at its CommitTo, the directory is taken as it is; RR: the same inside recoverStore when a composed state is reopened) " +
			"and second/third-level states (CR:..:k':t': the process dies again during recovery after k' recovery commits and t' bytes of the re-append; composed from the directory before and after a completed real recovery); thorough: 40% of the chains with stateHashCheckHeight > 0; " +
			"reopened with InitLedger, compared with the uncrashed ledger (height, hashes, roots, inclusion proof, balances, events), fed the next two blocks, stores compared key by key, reopened again. Non-trivial = distinct line",
		Gen:     gen,
		Exec:    exec,
		Init:    initAccts,
		Isolate: true,
		Timeout: 120 * 1e9,
		N:       map[string]int{"quick": 166, "thorough": 2500},
	})
}
