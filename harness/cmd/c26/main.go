// C26 harness: CompactMerkleTree / MerkleVerifier of /repo/merkle on generated histories.
//
// Line:  <F|M|N> <A> <T> <op;op;...>      (see lean/OntVerif/OntVerif/Driver/C26.lean)
//
// Hashes cross the protocol as NAMES: atom i (0 <= i < A) is the real leaf hash hash_leaf(seed‖be32(i)); the j-th
// pair "l.r" of T gives the name A+j to the real hash_children(name l, name r); `e` = hash_empty(), `z` = EMPTY_HASH.
// The generator works on names only (a hash-consed reference implementation of RFC 6962); Exec evaluates the names
// with the real hash functions, runs the real tree / verifier on real SHA-256 hashes, prints every resulting hash by
// its name (`?` if it has none) and evaluates the property predicates against an independent recursive reference.
package main

import (
	"crypto/sha256"
	"encoding/binary"
	"fmt"
	"os"
	"path/filepath"
	"sort"
	"strconv"
	"strings"

	"github.com/ontio/ontology/common"
	"github.com/ontio/ontology/merkle"
	"verif/harness/internal/hx"
)

const (
	UNK = -1
	E   = -2
	Z   = -3
)

var seed = []byte("c26")

// ---------------------------------------------------------------------------------------------------------
// universe of names (hash-consed terms), optionally evaluated with the real hash

type univ struct {
	A      int
	pairs  [][2]int
	idx    map[[2]int]int
	npub   int // names < npub are printable
	real   bool
	rv     [][32]byte
	byReal map[[32]byte]int
}

func ownLeaf(i int) [32]byte {
	var b [4]byte
	binary.BigEndian.PutUint32(b[:], uint32(i))
	return sha256.Sum256(append(append([]byte{0}, seed...), b[:]...))
}
func leafData(i int) []byte {
	var b [4]byte
	binary.BigEndian.PutUint32(b[:], uint32(i))
	return append(append([]byte{}, seed...), b[:]...)
}
func ownNode(l, r [32]byte) [32]byte {
	d := append([]byte{1}, l[:]...)
	d = append(d, r[:]...)
	return sha256.Sum256(d)
}

func newUniv(A int, real bool) *univ {
	u := &univ{A: A, idx: map[[2]int]int{}, real: real, npub: A}
	if real {
		u.byReal = map[[32]byte]int{}
		for i := 0; i < A; i++ {
			h := ownLeaf(i)
			u.rv = append(u.rv, h)
			u.byReal[h] = i
		}
	}
	return u
}

func (u *univ) realOf(n int) ([32]byte, bool) {
	switch {
	case n == E:
		return sha256.Sum256(nil), true
	case n == Z:
		return [32]byte{}, true
	case n >= 0 && n < len(u.rv):
		return u.rv[n], true
	}
	return [32]byte{}, false
}

func (u *univ) node(l, r int) int {
	if k, ok := u.idx[[2]int{l, r}]; ok {
		return k
	}
	if !u.real {
		if l < 0 || r < 0 {
			return UNK
		}
		k := u.A + len(u.pairs)
		u.pairs = append(u.pairs, [2]int{l, r})
		u.idx[[2]int{l, r}] = k
		u.npub = k + 1
		return k
	}
	lv, ok1 := u.realOf(l)
	rv, ok2 := u.realOf(r)
	if !ok1 || !ok2 {
		return UNK
	}
	h := ownNode(lv, rv)
	if k, ok := u.byReal[h]; ok { // same real hash already named (only by a collision or the same pair)
		return k
	}
	k := len(u.rv)
	u.rv = append(u.rv, h)
	u.byReal[h] = k
	u.idx[[2]int{l, r}] = k
	return k
}

func (u *univ) nameOf(h [32]byte) int {
	if k, ok := u.byReal[h]; ok {
		return k
	}
	if h == sha256.Sum256(nil) {
		return E
	}
	if h == ([32]byte{}) {
		return Z
	}
	return UNK
}

func (u *univ) show(n int) string {
	switch {
	case n == E:
		return "e"
	case n == Z:
		return "z"
	case n >= 0 && n < u.npub:
		return strconv.Itoa(n)
	}
	return "?"
}
func (u *univ) shows(l []int) string {
	if len(l) == 0 {
		return "-"
	}
	s := make([]string, len(l))
	for i, n := range l {
		s[i] = u.show(n)
	}
	return strings.Join(s, ".")
}
func (u *univ) tabString() string {
	if len(u.pairs) == 0 {
		return "-"
	}
	s := make([]string, len(u.pairs))
	for i, p := range u.pairs {
		s[i] = strconv.Itoa(p[0]) + "." + strconv.Itoa(p[1])
	}
	return strings.Join(s, ",")
}

// ---------------------------------------------------------------------------------------------------------
// reference implementation (RFC 6962, recursive) over names; leaves are the atoms 0..n-1

func split(n int) int { // largest power of two < n (n >= 2)
	k := 1
	for k*2 < n {
		k *= 2
	}
	return k
}

type ref struct {
	u    *univ
	memo map[[2]int]int
}

func newRef(u *univ) *ref { return &ref{u: u, memo: map[[2]int]int{}} }

func (r *ref) mth(lo, hi int) int {
	if hi == lo {
		return E
	}
	if hi-lo == 1 {
		return lo
	}
	if v, ok := r.memo[[2]int{lo, hi}]; ok {
		return v
	}
	k := split(hi - lo)
	v := r.u.node(r.mth(lo, lo+k), r.mth(lo+k, hi))
	r.memo[[2]int{lo, hi}] = v
	return v
}

// PATH(m, D[lo:hi])
func (r *ref) path(m, lo, hi int) []int {
	if hi-lo <= 1 {
		return nil
	}
	k := split(hi - lo)
	if m < k {
		return append(r.path(m, lo, lo+k), r.mth(lo+k, hi))
	}
	return append(r.path(m-k, lo+k, hi), r.mth(lo, lo+k))
}

// SUBPROOF(m, D[lo:hi], b)
func (r *ref) subproof(m, lo, hi int, b bool) []int {
	n := hi - lo
	if m == n {
		if b {
			return nil
		}
		return []int{r.mth(lo, hi)}
	}
	k := split(n)
	if m <= k {
		return append(r.subproof(m, lo, lo+k, b), r.mth(lo+k, hi))
	}
	return append(r.subproof(m-k, lo+k, hi, false), r.mth(lo, lo+k))
}

// consistency proof between sizes m and n; m == 0 or m == n: empty
func (r *ref) cons(m, n int) []int {
	if m == 0 || m == n {
		return nil
	}
	return r.subproof(m, 0, n, true)
}

// blocks of the binary decomposition of n, largest first (the compact `hashes`)
func (r *ref) blocks(n int) []int {
	var out []int
	lo := 0
	for b := 30; b >= 0; b-- {
		if n&(1<<uint(b)) != 0 {
			out = append(out, r.mth(lo, lo+(1<<uint(b))))
			lo += 1 << uint(b)
		}
	}
	return out
}

// the hash store after n appends: leaf i followed by the roots of the perfect subtrees it completes
func (r *ref) layout(n int) []int {
	var out []int
	for i := 0; i < n; i++ {
		out = append(out, i)
		for j := 0; (i>>uint(j))&1 == 1; j++ {
			out = append(out, r.mth(i+1-(2<<uint(j)), i+1))
		}
	}
	return out
}

// recursive audit-path evaluation: root computed from (leaf, idx, size, proof); ok=false: wrong length
func (r *ref) evalPath(leaf, idx, size int, proof []int) (int, bool) {
	if size == 1 {
		return leaf, len(proof) == 0
	}
	if len(proof) == 0 {
		return UNK, false
	}
	last := proof[len(proof)-1]
	k := split(size)
	if idx < k {
		v, ok := r.evalPath(leaf, idx, k, proof[:len(proof)-1])
		return r.u.node(v, last), ok
	}
	v, ok := r.evalPath(leaf, idx-k, size-k, proof[:len(proof)-1])
	return r.u.node(last, v), ok
}

// recursive consistency evaluation: (old, new) hashes computed from the proof; ok=false: wrong length
func (r *ref) evalCons(m, n int, b bool, oldRoot int, proof []int) (int, int, bool) {
	if m == n {
		if b {
			return oldRoot, oldRoot, len(proof) == 0
		}
		if len(proof) != 1 {
			return UNK, UNK, false
		}
		return proof[0], proof[0], true
	}
	if len(proof) == 0 {
		return UNK, UNK, false
	}
	last := proof[len(proof)-1]
	k := split(n)
	if m <= k {
		o, nw, ok := r.evalCons(m, k, b, oldRoot, proof[:len(proof)-1])
		return o, r.u.node(nw, last), ok
	}
	o, nw, ok := r.evalCons(m-k, n-k, false, oldRoot, proof[:len(proof)-1])
	return r.u.node(last, o), r.u.node(last, nw), ok
}

func eqInts(a, b []int) bool {
	if len(a) != len(b) {
		return false
	}
	for i := range a {
		if a[i] != b[i] {
			return false
		}
	}
	return true
}

// ---------------------------------------------------------------------------------------------------------
// generator (names only)

func appendsOps(from, to int, each string) []string {
	var ops []string
	for i := from; i < to; i++ {
		ops = append(ops, "a"+strconv.Itoa(i))
		if each != "" {
			ops = append(ops, strings.Split(each, ";")...)
		}
	}
	return ops
}

func mkLine(mode string, u *univ, ops []string) string {
	return fmt.Sprintf("%s %d %s %s", mode, u.A, u.tabString(), strings.Join(ops, ";"))
}

// all roots of prefixes up to n are named (so `r`, `h`, `s`, proofs for every size print names)
func closure(r *ref, n int) {
	for p := 1; p <= n; p++ {
		r.mth(0, p)
	}
}

// exhaustive generation line for size n: appends with root/hashes/store after each, every inclusion proof (i, p<=n),
// every consistency proof (m, p<=n), merkleRoot, reload
func genExhaustive(mode string, n int) string {
	u := newUniv(n+1, false)
	r := newRef(u)
	closure(r, n)
	ops := []string{"r", "h"}
	if mode != "N" {
		ops = append(ops, "s")
	}
	each := "r;h;g" + strconv.Itoa(n)
	if mode != "N" {
		each += ";s"
	}
	// GetRootWithNewLeaf needs the (p+1)-prefix with junk atom n as last leaf: name those too
	for p := 0; p <= n; p++ {
		hs := r.blocks(p)
		acc := n
		for i := len(hs) - 1; i >= 0; i-- {
			acc = u.node(hs[i], acc)
		}
	}
	ops = append(ops, appendsOps(0, n, each)...)
	if mode == "F" {
		ops = append(ops, "R", "u")
	}
	for p := 0; p <= n+1; p++ {
		for i := 0; i <= p; i++ {
			if mode != "N" || (p == n && i < 2) {
				ops = append(ops, fmt.Sprintf("i%d,%d", i, p))
				ops = append(ops, fmt.Sprintf("c%d,%d", i, p))
			}
		}
		if mode != "N" && p >= 1 && p <= n {
			ops = append(ops, "m"+strconv.Itoa(p))
		}
	}
	return mkLine(mode, u, ops)
}

func junkFor(u *univ, r *hx.Rand, n int) int { return n + r.Intn(u.A-n) }

// verification line for (i, n): the honest inclusion proof and all its single-element mutations
func genInclVerify(rd *hx.Rand, i, n, N int, rich bool) string {
	A := N + 3
	u := newUniv(A, false)
	r := newRef(u)
	for _, p := range []int{n - 1, n, n + 1, N} {
		if p >= 1 && p <= N {
			r.mth(0, p)
		}
	}
	root := r.mth(0, n)
	proof := r.path(i, 0, n)
	J := N // junk atom
	var ops []string
	vi := func(leaf, idx, size, root int, proof []int) {
		ops = append(ops, fmt.Sprintf("vi%s,%d,%d,%s,%s", u.show(leaf), idx, size, u.show(root), u.shows(proof)))
	}
	vi(i, i, n, root, proof)
	// leaf
	for _, l := range []int{J, (i + 1) % N, E, Z, root} {
		if l != i {
			vi(l, i, n, root, proof)
		}
	}
	if len(proof) > 0 {
		vi(proof[0], i, n, root, proof)
	}
	// index
	idxs := []int{i + 1, i - 1, i ^ 1, n - 1, n, n + 1, 0, rd.Intn(n + 2), 4294967295}
	if rich {
		idxs = nil
		for x := 0; x <= n+1; x++ {
			idxs = append(idxs, x)
		}
	}
	for _, x := range idxs {
		if x >= 0 && x != i {
			vi(i, x, n, root, proof)
		}
	}
	// size
	sizes := []int{n + 1, n - 1, n + 2, 2 * n, i + 1, i, 0, 1, rd.Intn(2*n + 2), 4294967295}
	if rich {
		sizes = nil
		for x := 0; x <= 2*n+2; x++ {
			sizes = append(sizes, x)
		}
	}
	for _, x := range sizes {
		if x >= 0 && x != n {
			vi(i, i, x, root, proof)
		}
	}
	// root
	for _, x := range []int{J, E, Z, i, r.mth(0, imax(1, n-1)), r.mth(0, imin(N, n+1))} {
		if x != root {
			vi(i, i, n, x, proof)
		}
	}
	// proof elements
	for p := range proof {
		for _, x := range []int{J, i, E, root, proof[(p+1)%len(proof)]} {
			if x != proof[p] {
				q := append([]int{}, proof...)
				q[p] = x
				vi(i, i, n, root, q)
			}
		}
		q := append(append([]int{}, proof[:p]...), proof[p+1:]...) // drop
		vi(i, i, n, root, q)
		q = append(append(append([]int{}, proof[:p]...), J), proof[p:]...) // insert junk
		vi(i, i, n, root, q)
		q = append(append(append([]int{}, proof[:p]...), proof[p]), proof[p:]...) // duplicate
		vi(i, i, n, root, q)
		if p+1 < len(proof) { // swap
			q = append([]int{}, proof...)
			q[p], q[p+1] = q[p+1], q[p]
			vi(i, i, n, root, q)
		}
	}
	vi(i, i, n, root, append(append([]int{}, proof...), J))
	vi(i, i, n, root, append(append([]int{}, proof...), root))
	vi(i, i, n, root, nil)
	return mkLine("N", u, ops)
}

func genConsVerify(rd *hx.Rand, m, n, N int, rich bool) string {
	A := N + 3
	u := newUniv(A, false)
	r := newRef(u)
	for _, p := range []int{m - 1, m, m + 1, n - 1, n, n + 1, N} {
		if p >= 1 && p <= N {
			r.mth(0, p)
		}
	}
	oldR, newR := r.mth(0, m), r.mth(0, n)
	proof := r.cons(m, n)
	J := N
	var ops []string
	vc := func(m, n, o, nw int, proof []int) {
		ops = append(ops, fmt.Sprintf("vc%d,%d,%s,%s,%s", m, n, u.show(o), u.show(nw), u.shows(proof)))
	}
	vc(m, n, oldR, newR, proof)
	ms := []int{m + 1, m - 1, 0, n, n + 1, m * 2, rd.Intn(n + 2), 1}
	ns := []int{n + 1, n - 1, m, 2 * n, 0, rd.Intn(2*n + 2), 4294967295}
	if rich {
		ms, ns = nil, nil
		for x := 0; x <= n+1; x++ {
			ms = append(ms, x)
		}
		for x := 0; x <= 2*n+2; x++ {
			ns = append(ns, x)
		}
	}
	for _, x := range ms {
		if x >= 0 && x != m {
			vc(x, n, oldR, newR, proof)
		}
	}
	for _, x := range ns {
		if x >= 0 && x != n {
			vc(m, x, oldR, newR, proof)
		}
	}
	for _, x := range []int{J, E, Z, newR, r.mth(0, imax(0, m-1)), r.mth(0, imin(N, m+1))} {
		if x != oldR {
			vc(m, n, x, newR, proof)
			vc(m, n, x, x, proof) // equal roots, sizes as given
			vc(m, n, x, x, nil)
		}
	}
	for _, x := range []int{J, E, Z, oldR, r.mth(0, imax(0, n-1)), r.mth(0, imin(N, n+1))} {
		if x != newR {
			vc(m, n, oldR, x, proof)
		}
	}
	vc(m, n, oldR, oldR, nil)
	vc(m, n, newR, newR, proof)
	vc(0, n, J, newR, nil)
	vc(0, n, J, newR, proof)
	vc(0, n, E, newR, nil)
	vc(0, n, E, newR, proof)
	vc(0, 0, E, E, nil)
	vc(0, 0, J, J, nil)
	vc(0, 0, J, E, nil)
	vc(n, n, newR, newR, []int{J})
	vc(n, n, newR, J, nil)
	for p := range proof {
		for _, x := range []int{J, E, oldR, newR, proof[(p+1)%len(proof)]} {
			if x != proof[p] {
				q := append([]int{}, proof...)
				q[p] = x
				vc(m, n, oldR, newR, q)
			}
		}
		q := append(append([]int{}, proof[:p]...), proof[p+1:]...)
		vc(m, n, oldR, newR, q)
		q = append(append(append([]int{}, proof[:p]...), J), proof[p:]...)
		vc(m, n, oldR, newR, q)
		q = append(append(append([]int{}, proof[:p]...), proof[p]), proof[p:]...)
		vc(m, n, oldR, newR, q)
		if p+1 < len(proof) {
			q = append([]int{}, proof...)
			q[p], q[p+1] = q[p+1], q[p]
			vc(m, n, oldR, newR, q)
		}
	}
	vc(m, n, oldR, newR, append(append([]int{}, proof...), J))
	vc(m, n, oldR, newR, nil)
	return mkLine("N", u, ops)
}

// random history: appends in chunks with queries, reloads (file mode), proofs for random (i, p)
func genRandomHistory(rd *hx.Rand, mode string, n int, queries int) string {
	u := newUniv(n+2, false)
	r := newRef(u)
	var ops []string
	done := 0
	for done < n {
		step := 1 + rd.Intn(imax(1, n/4))
		if done+step > n {
			step = n - done
		}
		ops = append(ops, appendsOps(done, done+step, "")...)
		done += step
		r.mth(0, done)
		ops = append(ops, "r", "h")
		if mode == "F" && rd.Chance(50) {
			for j := 0; j < 1+rd.Intn(3); j++ {
				ops = append(ops, "q"+strconv.Itoa(rd.Intn(2*done+3)))
			}
		}
		if mode == "F" && rd.Chance(60) {
			switch rd.Intn(4) {
			case 0:
				ops = append(ops, "R")
			case 1:
				ops = append(ops, "Rt"+strconv.Itoa(1+rd.Intn(5)))
			case 2:
				ops = append(ops, "Rs"+strconv.Itoa(1+rd.Intn(3)))
			default:
				ops = append(ops, "R", "u")
			}
			if rd.Chance(70) {
				ops = append(ops, "q"+strconv.Itoa(rd.Intn(2*done+3)))
			}
		}
		for q := 0; q < queries; q++ {
			p := 1 + rd.Intn(done)
			if rd.Chance(30) {
				p = done
			}
			r.mth(0, p)
			i := rd.Intn(p)
			ops = append(ops, fmt.Sprintf("i%d,%d", i, p))
			m := rd.Intn(p + 1)
			if rd.Chance(10) {
				m = 0
			}
			if m > 0 {
				r.mth(0, m)
			}
			ops = append(ops, fmt.Sprintf("c%d,%d", m, p))
			if mode != "N" && rd.Chance(30) {
				ops = append(ops, "m"+strconv.Itoa(p))
			}
		}
		if rd.Chance(5) {
			ops = append(ops, fmt.Sprintf("i%d,%d", done, done), fmt.Sprintf("i0,%d", done+1), fmt.Sprintf("c%d,%d", done+1, done))
		}
	}
	if mode != "N" && n <= 400 {
		ops = append(ops, "s")
	}
	return mkLine(mode, u, ops)
}

const exhN = 64

type caseGen func(rd *hx.Rand) string

// deterministic part: enumerated by the case index; the rest is random
func gen(rd *hx.Rand, tier string, i int) string {
	// 0..63: exhaustive generation lines (file store); 64..79: mem / nil store
	if i < exhN {
		// every fileHashStore append is an fsync: file store for n <= 20 and around the powers of two, mem store otherwise
		n := i + 1
		if n <= 20 || n == 31 || n == 32 || n == 33 || n == 63 || n == 64 || tier == "thorough" {
			return genExhaustive("F", n)
		}
		return genExhaustive("M", n)
	}
	i -= exhN
	if i < 16 {
		return genExhaustive([]string{"M", "N"}[i%2], []int{1, 2, 3, 7, 8, 13, 31, 33}[i/2])
	}
	i -= 16
	// all (idx, n) for n <= 64: inclusion verification with every single mutation; all (m, n): consistency
	tot := exhN * (exhN + 1) / 2
	if i < tot {
		n := 1
		for i >= n {
			i -= n
			n++
		}
		return genInclVerify(rd, i, n, exhN+1, n <= 12)
	}
	i -= tot
	if i < tot {
		n := 1
		for i >= n {
			i -= n
			n++
		}
		return genConsVerify(rd, i+1, n, exhN+1, n <= 12)
	}
	big := 400
	if tier == "thorough" {
		big = 6000
	}
	switch rd.Intn(10) {
	case 0:
		return genRandomHistory(rd, "F", 1+rd.Intn(40), 3)
	case 1:
		return genRandomHistory(rd, "M", 1+rd.Intn(120), 3)
	case 2:
		return genRandomHistory(rd, "M", 65+rd.Intn(big), 4)
	case 3:
		return genRandomHistory(rd, "N", 1+rd.Intn(200), 1)
	case 4, 5, 6:
		n := 65 + rd.Intn(big)
		return genInclVerify(rd, rd.Intn(n), n, n+1, false)
	default:
		n := 65 + rd.Intn(big)
		return genConsVerify(rd, 1+rd.Intn(n), n, n+1, false)
	}
}

// ---------------------------------------------------------------------------------------------------------
// executor (real code)

var tmpDir string
var fileCtr int

type exec struct {
	u      *univ
	r      *ref
	mode   string
	tree   *merkle.CompactMerkleTree
	store  merkle.HashStore
	fn     string
	n      int // leaves appended (must be atoms 0..n-1 in order for the reference; else refOK=false)
	refOK  bool
	dead   bool
	fail   string
	class  string
	kinds  map[string]bool
	nontrv bool
}

func (x *exec) flag(class, msg string) {
	if x.fail == "" {
		x.fail, x.class = msg, class
	}
}

func (x *exec) real(n int) common.Uint256 {
	h, ok := x.u.realOf(n)
	if !ok {
		// an unknown name on the line: a fixed hash nobody else uses
		return common.Uint256(sha256.Sum256([]byte("unknown-name")))
	}
	return common.Uint256(h)
}
func (x *exec) reals(l []int) []common.Uint256 {
	out := make([]common.Uint256, len(l))
	for i, n := range l {
		out[i] = x.real(n)
	}
	return out
}
func (x *exec) names(l []common.Uint256) []int {
	out := make([]int, len(l))
	for i, h := range l {
		out[i] = x.u.nameOf([32]byte(h))
	}
	return out
}

func parseName(s string) (int, bool) {
	switch s {
	case "e":
		return E, true
	case "z":
		return Z, true
	case "?":
		return UNK, true
	}
	k, err := strconv.Atoi(s)
	return k, err == nil && k >= 0
}
func parseNames(s string) ([]int, bool) {
	if s == "-" {
		return nil, true
	}
	var out []int
	for _, p := range strings.Split(s, ".") {
		k, ok := parseName(p)
		if !ok {
			return nil, false
		}
		out = append(out, k)
	}
	return out, true
}

func verrKind(err error) string {
	if err == nil {
		return "ok"
	}
	s := err.Error()
	switch {
	case strings.HasPrefix(s, "Wrong params"), strings.HasPrefix(s, "Older tree has bigger size"):
		return "params"
	case strings.HasPrefix(s, "Proof too short"), strings.HasPrefix(s, "Wrong proof length"):
		return "short"
	case strings.HasPrefix(s, "Proof too long"):
		return "long"
	case strings.HasPrefix(s, "Constructed root hash differs"), strings.HasPrefix(s, "Bad Merkle proof"):
		return "mismatch"
	case strings.HasPrefix(s, "Inconsistency: first root hash"):
		return "oldmismatch"
	case strings.HasPrefix(s, "Inconsistency: different root hashes for the same tree size"):
		return "samesize"
	case strings.HasPrefix(s, "Inconsistency: the root of an empty tree"):
		return "emptyold"
	}
	return "other"
}

func (x *exec) openStore(size uint32) error {
	switch x.mode {
	case "F":
		st, err := merkle.NewFileHashStore(x.fn, size)
		if err != nil {
			return err
		}
		x.store = st
	case "M":
		x.store = merkle.NewMemHashStore()
	default:
		x.store = nil
	}
	return nil
}

func popcount(n int) int {
	c := 0
	for ; n != 0; n >>= 1 {
		c += n & 1
	}
	return c
}

func (x *exec) checkState() {
	if !x.refOK {
		return
	}
	want := x.r.mth(0, x.n)
	wantBlocks := x.r.blocks(x.n)
	if got := x.u.nameOf([32]byte(x.tree.Root())); got != want {
		x.flag("root-not-full-tree-root", fmt.Sprintf("after %d appends Root() is not the RFC 6962 tree hash", x.n))
	}
	if int(x.tree.TreeSize()) != x.n {
		x.flag("tree-size", "TreeSize wrong")
	}
	if !eqInts(x.names(x.tree.Hashes()), wantBlocks) {
		x.flag("compact-hashes", fmt.Sprintf("Hashes() after %d appends are not the roots of the binary decomposition", x.n))
	}
}

func (x *exec) op(op string) (out string) {
	if x.dead {
		return "PANIC"
	}
	defer func() {
		if e := recover(); e != nil {
			tag := trunc(op, 1)
			if strings.HasPrefix(op, "a") {
				x.dead = true
				out = "PANIC"
			} else {
				out = tag + ":PANIC"
			}
			if strings.HasPrefix(op, "c") && strings.HasPrefix(op[1:], "0,") {
				x.flag("cons-proof-old-size-0", "ConsistencyProof(0, n) panics: "+strings.ReplaceAll(fmt.Sprint(e), "\n", " "))
			} else {
				x.flag("panic-in-"+tag, "go panic in op "+trunc(op, 40)+": "+strings.ReplaceAll(fmt.Sprint(e), "\n", " "))
			}
		}
	}()
	u := x.u
	switch {
	case strings.HasPrefix(op, "a"):
		byData := strings.HasPrefix(op, "ad")
		k, err := strconv.Atoi(strings.TrimPrefix(strings.TrimPrefix(op, "ad"), "a"))
		if err != nil || k < 0 || k >= u.A {
			return "bad-op"
		}
		var audit []common.Uint256
		if byData {
			audit = x.tree.Append(leafData(k))
		} else {
			audit = x.tree.AppendHash(x.real(k))
		}
		if k != x.n {
			x.refOK = false
		}
		x.n++
		x.checkState()
		return "a:" + u.shows(x.names(audit))
	case op == "r":
		return "r:" + u.show(u.nameOf([32]byte(x.tree.Root())))
	case op == "h":
		return fmt.Sprintf("h:%d:%s", x.tree.TreeSize(), u.shows(x.names(x.tree.Hashes())))
	case op == "s":
		if x.store == nil {
			return "s:none"
		}
		cnt := 2*x.n - popcount(x.n)
		hs := make([]common.Uint256, cnt)
		for i := range hs {
			h, err := x.store.GetHash(uint32(i))
			if err != nil {
				x.flag("store-read", "GetHash below the expected count fails")
			}
			hs[i] = h
		}
		var wantLayout []int
		if x.refOK {
			wantLayout = x.r.layout(x.n)
		}
		got := x.names(hs)
		if x.refOK && !eqInts(got, wantLayout) {
			x.flag("store-layout", fmt.Sprintf("hash store after %d appends is not the post-order layout", x.n))
		}
		if int64(cnt) != merkle.VerifGetStoredHashNum(uint32(x.n)) {
			x.flag("stored-hash-num", "getStoredHashNum(n) != 2n - popcount(n)")
		}
		if x.mode == "F" {
			if st, err := os.Stat(x.fn); err != nil || st.Size() < int64(cnt)*32 {
				x.flag("store-file-size", "hash file shorter than the stored hashes")
			}
		}
		return fmt.Sprintf("s:%d:%s", cnt, u.shows(got))
	case op == "u":
		buf, _ := x.tree.Marshal()
		t2 := merkle.NewTree(0, nil, nil)
		if err := t2.UnMarshal(buf); err != nil {
			x.flag("marshal-roundtrip", "UnMarshal(Marshal(tree)) fails")
			return "u:err"
		}
		if t2.Root() != x.tree.Root() || t2.TreeSize() != x.tree.TreeSize() {
			x.flag("marshal-roundtrip", "UnMarshal(Marshal(tree)) has a different root")
		}
		return fmt.Sprintf("u:%d:%s", t2.TreeSize(), u.shows(x.names(t2.Hashes())))
	case strings.HasPrefix(op, "g"):
		k, err := strconv.Atoi(op[1:])
		if err != nil || k < 0 || k >= u.A {
			return "bad-op"
		}
		g := x.tree.GetRootWithNewLeaf(x.real(k))
		if g2 := x.tree.GetRootWithNewLeaves([]common.Uint256{x.real(k)}); g2 != g {
			x.flag("root-with-new-leaf", "GetRootWithNewLeaf != GetRootWithNewLeaves")
		}
		return "g:" + u.show(u.nameOf([32]byte(g)))
	case strings.HasPrefix(op, "q"):
		// raw GetHash(pos) on the file store (must not move the append cursor)
		pos, err := strconv.Atoi(op[1:])
		if err != nil || pos < 0 {
			return "bad-op"
		}
		if x.mode != "F" {
			return "q:na"
		}
		h, gerr := x.store.GetHash(uint32(pos))
		if gerr != nil {
			x.kinds["q:err"] = true
			return "q:err"
		}
		x.kinds["q:ok"] = true
		if x.refOK && pos < 2*x.n-popcount(x.n) {
			want := x.r.layout(x.n)[pos]
			if u.nameOf([32]byte(h)) != want {
				x.flag("store-read-wrong", fmt.Sprintf("GetHash(%d) after %d appends is not the stored node", pos, x.n))
			}
		}
		return "q:" + u.show(u.nameOf([32]byte(h)))
	case strings.HasPrefix(op, "m"):
		n, err := strconv.Atoi(op[1:])
		if err != nil || x.store == nil {
			return "bad-op"
		}
		if n < 1 || n > x.n {
			return "m:range"
		}
		wantM := UNK
		if x.refOK && n >= 1 && n <= x.n {
			wantM = x.r.mth(0, n)
		}
		g := merkle.VerifMerkleRoot(x.tree, uint32(n))
		name := u.nameOf([32]byte(g))
		if x.refOK && n >= 1 && n <= x.n && name != wantM {
			x.flag("merkleRoot-from-store", fmt.Sprintf("merkleRoot(%d) read from the store is not the tree hash", n))
		}
		return "m:" + u.show(name)
	case strings.HasPrefix(op, "i"):
		var m, n int
		if _, err := fmt.Sscanf(op[1:], "%d,%d", &m, &n); err != nil {
			return "bad-op"
		}
		proof, err := x.tree.InclusionProof(uint32(m), uint32(n))
		if err != nil {
			k := "other"
			switch err.Error() {
			case "wrong parameters":
				k = "params"
			case "not available yet":
				k = "notavail"
			case "hash store not available":
				k = "nostore"
			}
			x.kinds["i:"+k] = true
			if m < n && n <= x.n && x.store != nil {
				x.flag("incl-proof-refused", "InclusionProof refuses valid parameters")
			}
			return "i:" + k
		}
		var wantP []int
		if x.refOK {
			wantP = x.r.path(m, 0, n)
		}
		names := x.names(proof)
		x.kinds["i:ok"] = true
		x.nontrv = true
		if x.refOK {
			if !eqInts(names, wantP) {
				x.flag("incl-proof-wrong", fmt.Sprintf("InclusionProof(%d,%d) is not the RFC 6962 audit path", m, n))
			}
			v := merkle.NewMerkleVerifier()
			if e := v.VerifyLeafHashInclusion(x.real(m), uint32(m), proof, x.real(x.r.mth(0, n)), uint32(n)); e != nil {
				x.flag("incl-honest-rejected", fmt.Sprintf("generated proof (%d,%d) rejected: %s", m, n, verrKind(e)))
			}
			if e := v.VerifyLeafInclusion(leafData(m), uint32(m), proof, x.real(x.r.mth(0, n)), uint32(n)); e != nil {
				x.flag("incl-honest-rejected", fmt.Sprintf("generated proof (%d,%d) rejected by VerifyLeafInclusion", m, n))
			}
		}
		return "i:" + u.shows(names)
	case strings.HasPrefix(op, "c"):
		var m, n int
		if _, err := fmt.Sscanf(op[1:], "%d,%d", &m, &n); err != nil {
			return "bad-op"
		}
		proof := x.tree.ConsistencyProof(uint32(m), uint32(n))
		if proof == nil {
			x.kinds["c:nil"] = true
			if m <= n && n <= x.n && x.store != nil {
				x.flag("cons-proof-refused", "ConsistencyProof refuses valid parameters")
			}
			return "c:nil"
		}
		var wantC []int
		if x.refOK {
			wantC = x.r.cons(m, n)
		}
		names := x.names(proof)
		x.kinds["c:ok"] = true
		x.nontrv = true
		if x.refOK {
			if !eqInts(names, wantC) {
				cl := "cons-proof-wrong"
				if m == 0 {
					cl = "cons-proof-old-size-0"
				}
				x.flag(cl, fmt.Sprintf("ConsistencyProof(%d,%d) is not the RFC 6962 consistency proof", m, n))
			}
			v := merkle.NewMerkleVerifier()
			if e := v.VerifyConsistency(uint32(m), uint32(n), x.real(x.r.mth(0, m)), x.real(x.r.mth(0, n)), proof); e != nil {
				x.flag("cons-honest-rejected", fmt.Sprintf("generated proof (%d,%d) rejected: %s", m, n, verrKind(e)))
			}
		}
		return "c:" + u.shows(names)
	case strings.HasPrefix(op, "vi"):
		f := strings.Split(op[2:], ",")
		if len(f) != 5 {
			return "bad-op"
		}
		leaf, ok1 := parseName(f[0])
		idx, e2 := strconv.ParseUint(f[1], 10, 32)
		size, e3 := strconv.ParseUint(f[2], 10, 32)
		root, ok4 := parseName(f[3])
		proof, ok5 := parseNames(f[4])
		if !ok1 || e2 != nil || e3 != nil || !ok4 || !ok5 {
			return "bad-op"
		}
		v := merkle.NewMerkleVerifier()
		err := v.VerifyLeafHashInclusion(x.real(leaf), uint32(idx), x.reals(proof), x.real(root), uint32(size))
		k := verrKind(err)
		x.kinds["vi:"+k] = true
		x.nontrv = true
		x.checkIncl(k, leaf, int(idx), int(size), root, proof)
		return "vi:" + k
	case strings.HasPrefix(op, "vc"):
		f := strings.Split(op[2:], ",")
		if len(f) != 5 {
			return "bad-op"
		}
		m, e1 := strconv.ParseUint(f[0], 10, 32)
		n, e2 := strconv.ParseUint(f[1], 10, 32)
		o, ok3 := parseName(f[2])
		nw, ok4 := parseName(f[3])
		proof, ok5 := parseNames(f[4])
		if e1 != nil || e2 != nil || !ok3 || !ok4 || !ok5 {
			return "bad-op"
		}
		v := merkle.NewMerkleVerifier()
		err := v.VerifyConsistency(uint32(m), uint32(n), x.real(o), x.real(nw), x.reals(proof))
		k := verrKind(err)
		x.kinds["vc:"+k] = true
		x.nontrv = true
		x.checkCons(k, int(m), int(n), o, nw, proof)
		return "vc:" + k
	case strings.HasPrefix(op, "R"):
		if x.mode != "F" {
			return "R:na"
		}
		x.store.Close()
		size := x.tree.TreeSize()
		orig, _ := os.ReadFile(x.fn)
		switch {
		case op == "R":
		case strings.HasPrefix(op, "Rt"):
			k, _ := strconv.Atoi(op[2:])
			os.WriteFile(x.fn, append(append([]byte{}, orig...), make([]byte, 32*k)...), 0o644)
		case strings.HasPrefix(op, "Rs"):
			// k of the hashes the tree needs are missing (a stale tail, if any, is gone too)
			k, _ := strconv.Atoi(op[2:])
			cut := 32 * (2*x.n - popcount(x.n) - k)
			if cut < 0 {
				cut = 0
			}
			if cut > len(orig) {
				cut = len(orig)
			}
			os.WriteFile(x.fn, orig[:cut], 0o644)
		default:
			return "bad-op"
		}
		rootBefore := x.tree.Root()
		hashes := append([]common.Uint256{}, x.tree.Hashes()...)
		if err := x.openStore(size); err != nil {
			x.kinds["R:err"] = true
			os.WriteFile(x.fn, orig, 0o644)
			if e2 := x.openStore(size); e2 != nil {
				x.dead = true
			}
			x.tree = merkle.NewTree(size, hashes, x.store)
			expect := 2*x.n - popcount(x.n)
			if len(orig)/32 >= expect && !strings.HasPrefix(op, "Rs") {
				x.flag("reload-refused", "NewFileHashStore refuses a complete hash file")
			}
			return "R:err"
		}
		x.kinds["R:ok"] = true
		x.tree = merkle.NewTree(size, hashes, x.store)
		if x.tree.Root() != rootBefore {
			x.flag("reload-root-differs", "root after reopening the persisted tree differs")
		}
		return "R:ok"
	}
	return "bad-op"
}

// predicate for an inclusion verification on arbitrary (mutated) inputs
func (x *exec) checkIncl(k string, leaf, idx, size, root int, proof []int) {
	if size > 1<<20 || idx > 1<<20 {
		if k == "ok" {
			x.flag("incl-accepts-forged", "huge size/index accepted")
		}
		return
	}
	// (1) the iterative verifier agrees with the recursive RFC evaluation
	want := "params"
	if size > idx {
		c, ok := x.r.evalPath(leaf, idx, size, proof)
		switch {
		case !ok:
			want = "length"
		case c == root && c != UNK:
			want = "ok"
		default:
			want = "mismatch"
		}
	}
	got := k
	if k == "short" || k == "long" {
		got = "length"
	}
	if got != want {
		cl := "incl-verify-differs-from-rfc:" + want + "-vs-" + k
		x.flag(cl, fmt.Sprintf("VerifyLeafHashInclusion says %s, recursive RFC 6962 evaluation says %s", k, want))
	}
	// (2) accepted => it is an honest tuple: leaf idx of the atoms 0..size'-1 with its audit path and root,
	//     where size' may differ from the claimed size only if it induces the same path shape (size is bound by the root only)
	if k == "ok" {
		okTuple := false
		for _, s2 := range candidateSizes(size, x.u.A) {
			if idx < s2 && s2 <= x.u.A && leaf == idx && root == x.r.mth(0, s2) && eqInts(proof, x.r.path(idx, 0, s2)) {
				okTuple = true
				if s2 != size {
					x.kinds["vi:ok-size-not-bound(same-path-shape)"] = true
				}
				break
			}
		}
		if !okTuple {
			x.flag("incl-accepts-forged", "an inclusion proof that is not the audit path of that leaf in a prefix tree is accepted")
		}
	}
}

func candidateSizes(size, A int) []int {
	out := []int{size}
	for s := 1; s <= A && s <= 4*size+4; s++ {
		if s != size {
			out = append(out, s)
		}
	}
	return out
}

func (x *exec) checkCons(k string, m, n, o, nw int, proof []int) {
	if n > 1<<20 {
		if k == "ok" {
			x.flag("cons-accepts-forged", "huge size accepted")
		}
		return
	}
	want := ""
	switch {
	case m > n:
		want = "params"
	case m == n:
		if o != nw {
			want = "samesize"
		} else if len(proof) != 0 {
			want = "length"
		} else {
			want = "ok"
		}
	case m == 0:
		if o != E {
			want = "emptyold"
		} else if len(proof) != 0 {
			want = "length"
		} else {
			want = "ok"
		}
	default:
		oc, nc, ok := x.r.evalCons(m, n, true, o, proof)
		switch {
		case !ok:
			want = "length"
		case nc != nw || nc == UNK:
			want = "mismatch"
		case oc != o:
			want = "oldmismatch"
		default:
			want = "ok"
		}
	}
	got := k
	if k == "short" || k == "long" {
		got = "length"
	}
	// which of length/mismatch is reported first may differ between the iterative and the recursive evaluation;
	// the verdict accept/reject and the pure kinds must agree
	// (a rejection with another reason than the repaired code's `samesize` / `emptyold` is still a rejection)
	if (got == "ok") != (want == "ok") || (got != want && got != "length" && want != "length" &&
		want != "samesize" && want != "emptyold" &&
		!(got == "mismatch" && want == "oldmismatch") && !(got == "oldmismatch" && want == "mismatch")) {
		cl := "cons-verify-differs-from-rfc:" + want + "-vs-" + k
		if k == "ok" && m == n && o == nw {
			cl = "cons-equal-sizes-proof-ignored"
		} else if k == "ok" && m != n && o == nw {
			cl = "cons-equal-roots-different-sizes"
		} else if k == "ok" && m == 0 {
			cl = "cons-old-size-0-any-root"
		}
		x.flag(cl, fmt.Sprintf("VerifyConsistency(%d,%d) says %s, recursive RFC 6962 evaluation says %s", m, n, k, want))
	}
	if k == "ok" && m != n && m != 0 {
		okTuple := false
		for _, n2 := range candidateSizes(n, x.u.A) {
			if m <= n2 && n2 <= x.u.A && o == x.r.mth(0, m) && nw == x.r.mth(0, n2) && eqInts(proof, x.r.cons(m, n2)) {
				okTuple = true
				if n2 != n {
					x.kinds["vc:ok-new-size-not-bound(same-path-shape)"] = true
				}
				break
			}
		}
		if !okTuple {
			x.flag("cons-accepts-forged", "a consistency proof that is not the RFC proof between two prefix trees is accepted")
		}
	}
}

func imax(a, b int) int {
	if a > b {
		return a
	}
	return b
}
func imin(a, b int) int {
	if a < b {
		return a
	}
	return b
}

func trunc(s string, n int) string {
	if len(s) > n {
		return s[:n]
	}
	return s
}

func run(line string) hx.Result {
	f := strings.Fields(line)
	if len(f) != 4 || (f[0] != "F" && f[0] != "M" && f[0] != "N") {
		return hx.Result{Out: "bad-op"}
	}
	A, err := strconv.Atoi(f[1])
	if err != nil || A < 0 || A > 1<<22 {
		return hx.Result{Out: "bad-op"}
	}
	u := newUniv(A, true)
	if f[2] != "-" {
		for j, p := range strings.Split(f[2], ",") {
			lr := strings.Split(p, ".")
			if len(lr) != 2 {
				return hx.Result{Out: "bad-op"}
			}
			l, e1 := strconv.Atoi(lr[0])
			r, e2 := strconv.Atoi(lr[1])
			if e1 != nil || e2 != nil || l < 0 || r < 0 || l >= A+j || r >= A+j {
				return hx.Result{Out: "bad-op"}
			}
			k := u.node(l, r)
			if k != A+j {
				return hx.Result{Out: "bad-table"} // duplicate pair (or a SHA-256 collision)
			}
			// the table entry is a true fact about the REAL hash functions of /repo
			if merkle.VerifHashChildren(common.Uint256(u.rv[l]), common.Uint256(u.rv[r])) != common.Uint256(u.rv[k]) ||
				merkle.HashChildren(common.Uint256(u.rv[l]), common.Uint256(u.rv[r])) != common.Uint256(u.rv[k]) {
				return hx.Result{Out: "hash_children-differs", Fail: "hash_children is not sha256(0x01‖l‖r)", Class: "hash-children-definition"}
			}
		}
	}
	u.npub = len(u.rv)
	x := &exec{u: u, r: newRef(u), mode: f[0], refOK: true, kinds: map[string]bool{}}
	if A > 0 && (merkle.VerifHashLeaf(leafData(0)) != common.Uint256(u.rv[0]) || merkle.HashLeaf(leafData(0)) != common.Uint256(u.rv[0])) {
		return hx.Result{Out: "hash_leaf-differs", Fail: "hash_leaf is not sha256(0x00‖data)", Class: "hash-leaf-definition"}
	}
	if merkle.VerifHashEmpty() != common.Uint256(sha256.Sum256(nil)) {
		return hx.Result{Out: "hash_empty-differs", Fail: "hash_empty is not sha256(\"\")", Class: "hash-empty-definition"}
	}
	if x.mode == "F" {
		fileCtr++
		x.fn = filepath.Join(tmpDir, fmt.Sprintf("t%d.db", fileCtr))
		os.Remove(x.fn)
		defer os.Remove(x.fn)
	}
	if err := x.openStore(0); err != nil {
		return hx.Result{Out: "store-error"}
	}
	defer func() {
		if x.store != nil {
			x.store.Close()
		}
	}()
	x.tree = merkle.NewTree(0, nil, x.store)
	var outs []string
	for _, op := range strings.Split(f[3], ";") {
		outs = append(outs, x.op(op))
	}
	ks := make([]string, 0, len(x.kinds))
	for k := range x.kinds {
		ks = append(ks, k)
	}
	sort.Strings(ks)
	kind := x.mode + "[" + strings.Join(ks, " ") + "]"
	if x.n > 0 {
		kind = x.mode + "-history[" + strings.Join(ks, " ") + "]"
	}
	res := hx.Result{Out: strings.Join(outs, " | "), Fail: x.fail, Class: x.class, Kind: kind}
	if x.nontrv || x.n > 0 {
		res.Key = line
		if len(line) > 200 {
			h := sha256.Sum256([]byte(line))
			res.Key = fmt.Sprintf("%x", h[:12])
		}
	}
	return res
}

// old witnesses of the two verifier shortcuts and of ConsistencyProof(0, n) (as-shipped code accepts / panics)
func corpus() []string {
	u := newUniv(8, false)
	r := newRef(u)
	closure(r, 7)
	r3, r5 := r.mth(0, 3), r.mth(0, 5)
	return []string{
		mkLine("N", u, []string{fmt.Sprintf("vc3,5,%d,%d,-", r3, r3)}),
		mkLine("N", u, []string{fmt.Sprintf("vc0,5,7,%d,-", r5)}),
		mkLine("N", u, []string{fmt.Sprintf("vc3,5,%d,%d,%s", r3, r5, u.shows(r.cons(3, 5)))}),
		mkLine("M", u, append(appendsOps(0, 5, ""), "c0,5", "c0,1", "c0,0", "c5,5", "c3,5")),
		mkLine("F", u, append(appendsOps(0, 5, ""), "c0,5", "c0,1", "c0,0", "c5,5", "c3,5", "Rs1", "Rt2", "a5", "r", "s", "i5,6", "R", "i0,6", "u")),
		mkLine("F", u, append(appendsOps(0, 3, ""), "Rt3", "q0", "a3", "q1", "q6", "q9", "q50", "a4", "s", "r", "i4,5", "c3,5", "R", "q2", "a5", "s", "r", "i1,6")),
		mkLine("N", u, append(appendsOps(0, 5, "r"), "i0,5", "c1,5", "ad5", "r", "h", "s", "u", "g6")),
		mkLine("F", u, []string{"r", "h", "s", "i0,0", "i0,1", "c0,0", "c0,1", "c1,0", "R", "u", "g0", "ad0", "r", "i0,1", "c1,1", "m1"}),
	}
}

func main() {
	tmpDir = fmt.Sprintf("/verif/build/tmp/c26-%d", os.Getpid())
	os.MkdirAll(tmpDir, 0o755)
	defer os.RemoveAll(tmpDir)
	tot := exhN * (exhN + 1) / 2
	hx.Main(hx.Prop{
		ID: "C26",
		Rule: "deterministic part: for every n<=64 one history on a file hash store (root/hashes/store after every append, every InclusionProof(i,p) and ConsistencyProof(m,p) for p<=n+1 incl. refused parameters, merkleRoot, reload, marshal), 16 histories on mem/nil stores, " +
			"for every (i,n), n<=64 the honest inclusion proof plus every single mutation of leaf/index/size/root/each proof element/length (all indexes and sizes for n<=12), same for every consistency pair (m,n); " +
			"random part: histories with reloads (stale tail / truncated file), large trees, verification lines for random large (i,n)/(m,n). Non-trivial = line that reaches a proof generator or verifier",
		Gen:    gen,
		Exec:   run,
		Corpus: corpus(),
		N:      map[string]int{"quick": exhN + 16 + 2*tot + 300, "thorough": exhN + 16 + 2*tot + 6000},
	})
}
