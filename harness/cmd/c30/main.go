// C30 harness: the real vconfig.GenesisChainConfig on a stake set, on the given input order and on permutations of it.
//
//	G <K> <L> <C> <height> <txid: 64 hex> <peers: idx:key:stake,…>   -> n=K c=C peers=idx:key,… pos=i,i,…  |  err  |  panic
//
// Predicate (valid inputs: 1 <= K <= |peers|, L/K >= 2, distinct keys, distinct indexes, total stake < 2^64):
// the configuration is the same for every input order tried (reversed, rotated, sorted ascending, 4 pseudo-random
// permutations), contains exactly the K highest-staked peers (ties by key), every selected peer owns >= 1 slot of the
// position table, slot counts are non-increasing in stake, and the table mentions selected peers only.
package main

import (
	"fmt"
	"hash/fnv"
	"math/big"
	"sort"
	"strconv"
	"strings"

	"github.com/ontio/ontology/common"
	"github.com/ontio/ontology/common/config"
	"github.com/ontio/ontology/common/log"
	vconfig "github.com/ontio/ontology/consensus/vbft/config"
	"verif/harness/internal/hx"
)

type peer struct {
	idx   uint32
	key   string
	stake uint64
}

func parsePeers(s string) []peer {
	if s == "-" {
		return nil
	}
	var out []peer
	for _, f := range strings.Split(s, ",") {
		p := strings.Split(f, ":")
		if len(p) != 3 {
			panic("bad peer on op line")
		}
		i, e1 := strconv.ParseUint(p[0], 10, 32)
		st, e2 := strconv.ParseUint(p[2], 10, 64)
		if e1 != nil || e2 != nil {
			panic("bad peer number on op line")
		}
		out = append(out, peer{uint32(i), p[1], st})
	}
	return out
}

func showPeers(ps []peer) string {
	if len(ps) == 0 {
		return "-"
	}
	ss := make([]string, len(ps))
	for i, p := range ps {
		ss[i] = fmt.Sprintf("%d:%s:%d", p.idx, p.key, p.stake)
	}
	return strings.Join(ss, ",")
}

// run executes the real GenesisChainConfig on fresh copies of the peers in the given order.
func run(K, L, C, height uint32, txid common.Uint256, ps []peer) (out string, cfg *vconfig.ChainConfig) {
	defer func() {
		if e := recover(); e != nil {
			out, cfg = "panic", nil
		}
	}()
	var in []*config.VBFTPeerStakeInfo
	for _, p := range ps {
		in = append(in, &config.VBFTPeerStakeInfo{Index: p.idx, PeerPubkey: p.key, Address: "", InitPos: p.stake})
	}
	conf := &config.VBFTConfig{N: K, C: C, K: K, L: L, BlockMsgDelay: 10000, HashMsgDelay: 10000, PeerHandshakeTimeout: 10, MaxBlockChangeView: 1000}
	c, err := vconfig.GenesisChainConfig(conf, in, txid, height)
	if err != nil {
		return "err", nil
	}
	var pp []string
	for _, p := range c.Peers {
		pp = append(pp, fmt.Sprintf("%d:%s", p.Index, p.ID))
	}
	ps1 := "-"
	if len(pp) > 0 {
		ps1 = strings.Join(pp, ",")
	}
	pos := "-"
	if len(c.PosTable) > 0 {
		s := make([]string, len(c.PosTable))
		for i, v := range c.PosTable {
			s[i] = strconv.FormatUint(uint64(v), 10)
		}
		pos = strings.Join(s, ",")
	}
	return fmt.Sprintf("n=%d c=%d peers=%s pos=%s", c.N, c.C, ps1, pos), c
}

func exec(line string) hx.Result {
	f := strings.Fields(line)
	if len(f) != 7 || f[0] != "G" {
		return hx.Result{Out: "bad-op"}
	}
	K64, _ := strconv.ParseUint(f[1], 10, 32)
	L64, _ := strconv.ParseUint(f[2], 10, 32)
	C64, _ := strconv.ParseUint(f[3], 10, 32)
	H64, _ := strconv.ParseUint(f[4], 10, 32)
	K, L, C, height := uint32(K64), uint32(L64), uint32(C64), uint32(H64)
	tb := hx.MustUnhex(f[5])
	if len(tb) != 32 {
		return hx.Result{Out: "bad-op"}
	}
	var txid common.Uint256
	copy(txid[:], tb)
	ps := parsePeers(f[6])

	out, cfg := run(K, L, C, height, txid, ps)
	res := hx.Result{Out: out, Key: line}

	// classify the input
	keys := map[string]bool{}
	idxs := map[uint32]bool{}
	stakes := map[uint64]int{}
	total := new(big.Int)
	zero, big53 := 0, false
	for _, p := range ps {
		keys[p.key] = true
		idxs[p.idx] = true
		stakes[p.stake]++
		total.Add(total, new(big.Int).SetUint64(p.stake))
		if p.stake == 0 {
			zero++
		}
		if p.stake >= 1<<53 {
			big53 = true
		}
	}
	switch {
	case K == 0:
		res.Kind = "invalid-K=0"
		return res
	case int(K) > len(ps):
		res.Kind = "invalid-K>peers"
		return res
	case L/K < 2:
		res.Kind = "invalid-L/K<2"
		return res
	case len(keys) != len(ps):
		res.Kind = "invalid-duplicate-key"
		return res
	case len(idxs) != len(ps):
		res.Kind = "invalid-duplicate-index"
		return res
	case total.BitLen() > 64:
		res.Kind = "invalid-total-stake-overflows"
		return res
	}
	kind := "valid"
	switch {
	case zero == len(ps):
		kind += ",all-zero"
	case len(stakes) == 1:
		kind += ",all-equal"
	case len(stakes) < len(ps):
		kind += ",ties"
	default:
		kind += ",distinct-stakes"
	}
	if zero > 0 && zero < len(ps) {
		kind += ",some-zero"
	}
	if big53 {
		kind += ",>=2^53"
	}
	if int(K) < len(ps) {
		kind += ",K<n"
	}
	res.Kind = kind
	fail := func(class, msg string) hx.Result {
		res.Fail, res.Class = msg, class
		return res
	}
	if cfg == nil {
		return fail("valid-input-rejected", "GenesisChainConfig fails on a valid input: "+out)
	}

	// 1. same configuration for every input order
	perms := [][]peer{}
	rev := make([]peer, len(ps))
	for i, p := range ps {
		rev[len(ps)-1-i] = p
	}
	perms = append(perms, rev)
	if len(ps) > 1 {
		perms = append(perms, append(append([]peer{}, ps[1:]...), ps[0]))
	}
	asc := append([]peer{}, ps...)
	sort.SliceStable(asc, func(i, j int) bool { return asc[i].stake < asc[j].stake })
	perms = append(perms, asc)
	hh := fnv.New64a()
	hh.Write([]byte(line))
	r := hx.NewRand(hh.Sum64())
	for k := 0; k < 4; k++ {
		q := append([]peer{}, ps...)
		for i := len(q) - 1; i > 0; i-- {
			j := r.Intn(i + 1)
			q[i], q[j] = q[j], q[i]
		}
		perms = append(perms, q)
	}
	for _, q := range perms {
		o2, _ := run(K, L, C, height, txid, q)
		if o2 != out {
			return fail("config-depends-on-input-order", "a permutation of the same peers gives a different configuration: "+showPeers(q))
		}
	}

	// 2. exactly the K highest-staked peers (ties broken towards the larger key), in that order
	want := append([]peer{}, ps...)
	sort.Slice(want, func(i, j int) bool {
		if want[i].stake != want[j].stake {
			return want[i].stake > want[j].stake
		}
		return want[i].key > want[j].key
	})
	if uint32(len(cfg.Peers)) != K || cfg.N != K || cfg.C != C {
		return fail("config-size", fmt.Sprintf("config has %d peers, n=%d, c=%d; want K=%d, C=%d", len(cfg.Peers), cfg.N, cfg.C, K, C))
	}
	for i := 0; i < int(K); i++ {
		if cfg.Peers[i].Index != want[i].idx || cfg.Peers[i].ID != want[i].key {
			return fail("not-the-top-k-by-stake", fmt.Sprintf("position %d holds peer %d, the %d-th highest-staked peer is %d", i, cfg.Peers[i].Index, i, want[i].idx))
		}
	}

	// 3. slots
	count := map[uint32]int{}
	for _, v := range cfg.PosTable {
		count[v]++
	}
	sel := map[uint32]bool{}
	for i := 0; i < int(K); i++ {
		sel[want[i].idx] = true
	}
	for v := range count {
		if !sel[v] {
			return fail("pos-table-foreign-index", fmt.Sprintf("position table mentions %d, which is not a selected peer", v))
		}
	}
	for i := 0; i < int(K); i++ {
		if count[want[i].idx] < 1 {
			return fail("peer-without-slot", fmt.Sprintf("selected peer %d (stake %d) has no slot", want[i].idx, want[i].stake))
		}
		if i > 0 && count[want[i].idx] > count[want[i-1].idx] {
			return fail("slots-not-monotone-in-stake", fmt.Sprintf("peer %d (stake %d) has %d slots, peer %d (stake %d) has %d",
				want[i].idx, want[i].stake, count[want[i].idx], want[i-1].idx, want[i-1].stake, count[want[i-1].idx]))
		}
	}
	return res
}

const alnum = "0123456789ABCDEFGHIJKLMNOPQRSTUVWXYZabcdefghijklmnopqrstuvwxyz"

func genKeys(r *hx.Rand, n int) []string {
	seen := map[string]bool{}
	var out []string
	mode := r.Intn(4)
	for len(out) < n {
		var k string
		switch mode {
		case 0: // compressed public keys in hex, as in production
			b := r.Bytes(32)
			k = fmt.Sprintf("0%d%x", 2+r.Intn(2), b)
		case 1: // short keys sharing prefixes, one a prefix of another, mixed case
			l := r.Intn(4)
			if len(out) == 0 && r.Chance(30) {
				l = 0
			}
			for j := 0; j < l; j++ {
				k += string("abAB01"[r.Intn(6)])
			}
		case 2:
			l := 1 + r.Intn(8)
			for j := 0; j < l; j++ {
				k += string(alnum[r.Intn(len(alnum))])
			}
		default: // common long prefix, differing at the end
			k = "03aabbccddeeff00112233445566778899" + strconv.Itoa(r.Intn(50*n))
		}
		if !seen[k] {
			seen[k] = true
			out = append(out, k)
		}
	}
	return out
}

func genStakes(r *hx.Rand, n int) []uint64 {
	out := make([]uint64, n)
	mode := r.Intn(12)
	base := uint64(1) << 53
	for i := range out {
		switch mode {
		case 0: // all equal
			out[i] = 1000
		case 1: // all zero
			out[i] = 0
		case 2: // few values, many ties, some zero
			out[i] = uint64(r.Intn(4))
		case 3: // small
			out[i] = uint64(r.Intn(30))
		case 4: // ONT-like amounts
			out[i] = uint64(r.Intn(1000000000))
		case 5: // neighbours of 2^53: float64 conversion starts to round
			out[i] = base - 3 + uint64(r.Intn(8))
		case 6: // all equal near 2^53 (quotient close to an integer)
			out[i] = base + 1
		case 7: // geometric
			out[i] = uint64(1) << uint(r.Intn(58))
		case 8: // one whale near 2^64, the rest small
			if i == 0 {
				out[i] = ^uint64(0) - uint64(r.Intn(1000)) - uint64(2000*n)
			} else {
				out[i] = uint64(r.Intn(2000))
			}
		case 9: // large, close to each other, total below 2^64
			out[i] = (^uint64(0))/uint64(n+1) - uint64(r.Intn(5))
		case 10: // equal large stakes: stake*scale*K/sum lands next to an integer
			out[i] = (^uint64(0)) / uint64(n+1)
		default:
			out[i] = r.U64() >> uint(8+r.Intn(50))
		}
	}
	if mode == 0 && r.Bool() {
		v := r.U64() >> uint(r.Intn(60)) / uint64(n+1)
		for i := range out {
			out[i] = v
		}
	}
	return out
}

func gen(r *hx.Rand, tier string, i int) string {
	n := 1 + r.Intn(12)
	if r.Chance(25) {
		n = 1 + r.Intn(40)
	}
	keys := genKeys(r, n)
	stakes := genStakes(r, n)
	ps := make([]peer, n)
	idxMode := r.Intn(3)
	seen := map[uint32]bool{}
	for j := range ps {
		var idx uint32
		for {
			switch idxMode {
			case 0:
				idx = uint32(j + 1)
			case 1:
				idx = uint32(r.Intn(3*n + 1))
			default:
				idx = uint32(r.U64())
			}
			if !seen[idx] {
				break
			}
		}
		seen[idx] = true
		ps[j] = peer{idx, keys[j], stakes[j]}
	}
	K := 1 + r.Intn(n)
	if r.Chance(30) {
		K = n
	}
	L := K * (2 + r.Intn(15))
	if r.Chance(15) {
		L += r.Intn(K) // not a multiple of K: genConsensusPayload rejects it, GenesisChainConfig does not look
	}
	C := (K - 1) / 3
	switch {
	case r.Chance(2):
		K = 0
	case r.Chance(2):
		K = n + 1 + r.Intn(3)
		L = 2 * K
	case r.Chance(3):
		L = K + r.Intn(K) // scale = 0
	case r.Chance(3) && n > 1: // duplicate key (outside the property's quantifier; correspondence only)
		ps[n-1].key = ps[0].key
		if r.Bool() {
			ps[n-1].stake = ps[0].stake
		}
	case r.Chance(2) && n > 1: // duplicate index
		ps[n-1].idx = ps[0].idx
	case r.Chance(2) && n > 1: // total stake wraps around 2^64; only a wrap to a HIGH sum is executable (a low sum makes
		// the ranks astronomically large: the table cannot be allocated), so the other stakes are zero
		for j := range ps {
			ps[j].stake = 0
		}
		ps[0].stake = ^uint64(0) - 5
		ps[1].stake = ^uint64(0) - 7
	}
	return fmt.Sprintf("G %d %d %d %d %s %s", K, L, C, uint32(r.U64())>>uint(r.Intn(32)), hx.Hex(r.Bytes(32)), showPeers(ps))
}

func main() {
	z := strings.Repeat("00", 32)
	corpus := []string{
		// the configuration of genesis_test.go's shape: 7 peers, equal stakes
		"G 7 112 2 0 " + z + " 1:a1:0,2:a2:0,3:a3:0,4:a4:0,5:a5:0,6:a6:0,7:a7:0",
		"G 4 64 1 100 " + z + " 1:b:10,2:a:10,3:d:10,4:c:10,5:e:9",
		// ties on stake broken by key, prefix keys, empty key
		"G 3 6 1 7 " + strings.Repeat("ab", 32) + " 1::5,2:a:5,3:ab:5,4:aB:5,5:b:5",
		// 2^53 neighbours
		"G 3 48 1 1 " + z + " 1:x:9007199254740993,2:y:9007199254740992,3:z:9007199254740991",
		// whale near 2^64
		"G 4 64 1 1 " + z + " 1:w:18446744073709540000,2:p:1000,3:q:10,4:r:0",
		"G 1 2 0 0 " + z + " 9:only:0",
		"G 0 2 0 0 " + z + " 9:only:0",
		"G 2 2 0 0 " + z + " 9:only:0",
		"G 2 3 0 0 " + z + " 9:one:1,8:two:2",
	}
	hx.Main(hx.Prop{
		ID:   "C30",
		Rule: "1..40 peers with distinct keys (hex public keys, short prefix-sharing mixed-case keys incl. the empty key, random alphanumerics, long common prefix) and distinct indexes; stakes all-equal / all-zero / few values with ties and zeros / small / ONT-like / neighbours of 2^53 / equal at 2^53+1 / powers of two / one whale near 2^64 / large near-equal with total < 2^64; K in 1..n, L/K in 2..16 (also L not a multiple of K); invalid inputs (K=0, K>n, L<2K, duplicate key, duplicate index, total stake wrapping 2^64) for correspondence only. Every valid case is re-run on 7 permutations of the input. Non-trivial = distinct line",
		Gen:  gen,
		Exec: exec,
		Init: func() { log.InitLog(log.ErrorLog, log.Stdout) },
		Corpus: corpus,
		N:      map[string]int{"quick": 4000, "thorough": 150000},
	})
}
