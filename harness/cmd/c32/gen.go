package main

// Generator of C32 histories. It steers with a small simulation of what the SHIPPED check accepts (only to keep histories
// alive - the oracle is the real code, the reference is the Lean model).

import (
	"fmt"
	"strconv"
	"strings"

	"verif/harness/internal/hx"
)

var configs = [][2]int{{7, 2}, {7, 2}, {7, 2}, {4, 1}, {8, 1}, {14, 4}, {10, 3}, {16, 5}, {7, 3}, {5, 2}, {15, 1}}

type simCfg struct {
	c   uint32
	ids []int
}

type simHdr struct {
	height  int
	ts      int
	newCfg  *simCfg
	lastCfg int
}

func distinct(xs []int) []int {
	seen := map[int]bool{}
	var out []int
	for _, x := range xs {
		if !seen[x] {
			seen[x] = true
			out = append(out, x)
		}
	}
	return out
}

func joinInts(xs []int) string {
	if len(xs) == 0 {
		return "-"
	}
	var s []string
	for _, x := range xs {
		s = append(s, strconv.Itoa(x))
	}
	return strings.Join(s, ".")
}

func pickK(r *hx.Rand, from []int, k int) []int {
	p := append([]int(nil), from...)
	for i := len(p) - 1; i > 0; i-- {
		j := r.Intn(i + 1)
		p[i], p[j] = p[j], p[i]
	}
	if k > len(p) {
		k = len(p)
	}
	return p[:k]
}

// genAhead: header sync ahead of block sync at a configuration change, then a BLOCK for the already indexed height 1
// announcing a configuration of outsiders (refused / refused for its block root only / committed), then headers governed by
// height 1 signed by those outsiders and by the genuine members.
func genAhead(r *hx.Rand) string {
	cf := configs[r.Intn(len(configs))]
	n, c := cf[0], cf[1]
	var members, outsiders []int
	for j := 0; j < universe; j++ {
		if j < n {
			members = append(members, j)
		} else {
			outsiders = append(outsiders, j)
		}
	}
	sign := func(ids []int) string {
		var t []string
		for _, i := range ids {
			t = append(t, fmt.Sprintf("s%d", i))
		}
		if len(t) == 0 {
			return "-"
		}
		return strings.Join(t, ".")
	}
	// height 1: a genuinely signed configuration change
	c1 := 1 + r.Intn(2)
	ids1 := members
	if r.Chance(50) {
		ids1 = pickK(r, append(append([]int{}, members...), outsiders[:4]...), 2*c1+1+r.Intn(4))
	}
	need0 := imax(c+1, mOf(n))
	bk := pickK(r, members, need0+r.Intn(n-need0+1))
	ops := []string{fmt.Sprintf("h:t:1:1:N,%d,0,%s:%s:%s", c1, joinInts(ids1), joinInts(bk), sign(bk))}
	hh := 1
	need1 := imax(c1+1, mOf(len(ids1)))
	for k := 0; k < 1+r.Intn(2); k++ {
		hh++
		b := pickK(r, ids1, need1+r.Intn(len(ids1)-need1+1))
		ops = append(ops, fmt.Sprintf("h:t:%d:%d:L1:%s:%s", hh, hh, joinInts(b), sign(b)))
	}
	// the bogus block for height 1
	var pool []int
	for _, o := range outsiders[4:] {
		pool = append(pool, o)
	}
	outs := pickK(r, pool, 3+r.Intn(5))
	c2 := 1 + r.Intn(2)
	tag := "k"
	if r.Chance(35) {
		tag = "K"
	}
	var bbk []int
	var bsig string
	switch r.Intn(4) {
	case 0, 1: // listed and signed by the outsiders it announces
		bbk = pickK(r, outs, imax(c+1, mOf(n)))
		bsig = sign(bbk)
	case 2: // C+1 genuine members listed, m of them sign: passes the shipped verifyHeader
		bbk = pickK(r, members, need0)
		bsig = sign(bbk[:mOf(n)])
	default: // members listed, outsiders sign
		bbk = pickK(r, members, need0)
		bsig = sign(pickK(r, outs, mOf(n)))
	}
	ops = append(ops, fmt.Sprintf("%s:k0:1:%d:N,%d,0,%s:%s:%s", tag, 1+r.Intn(2), c2, joinInts(outs), joinInts(bbk), bsig))
	// headers governed by height 1: signed by the outsiders, then by the genuine members (sometimes the other way round)
	needO := imax(c2+1, mOf(len(outs)))
	ob := pickK(r, outs, imin(len(outs), needO+r.Intn(2)))
	gb := pickK(r, ids1, need1+r.Intn(len(ids1)-need1+1))
	first, second := ob, gb
	if r.Chance(25) {
		first, second = gb, ob
	}
	ops = append(ops, fmt.Sprintf("h:t:%d:%d:L1:%s:%s", hh+1, hh+1, joinInts(first), sign(first)))
	ops = append(ops, fmt.Sprintf("h:t:%d:%d:L1:%s:%s", hh+1, hh+2, joinInts(second), sign(second)))
	if r.Chance(40) { // the same block again, or the genuine height-1 header as a block
		ops = append(ops, ops[len(ops)-3])
	}
	return fmt.Sprintf("V %d %d %s", n, c, strings.Join(ops, ";"))
}

func gen(r *hx.Rand, tier string, i int) string {
	if r.Chance(22) {
		return genAhead(r)
	}
	cf := configs[r.Intn(len(configs))]
	n, c := cf[0], cf[1]
	var all []int
	for j := 0; j < universe; j++ {
		all = append(all, j)
	}
	chain := []simHdr{{0, 0, &simCfg{uint32(c), all[:n]}, -1}}
	cfgAt := func(h int) *simCfg {
		if h >= 0 && h < len(chain) {
			return chain[h].newCfg
		}
		return nil
	}
	nops := 1 + r.Intn(6)
	var ops []string
	for o := 0; o < nops; o++ {
		tip := chain[len(chain)-1]
		// true governing configuration height
		gov := 0
		for _, h := range chain {
			if h.newCfg != nil {
				gov = h.height
			}
		}
		prev, height, ts := "t", tip.height+1, tip.ts+1+r.Intn(3)
		lastCfg := gov
		var newCfg *simCfg
		fieldsOK := true
		if r.Chance(12) {
			fieldsOK = false
			switch r.Intn(6) {
			case 0:
				height = tip.height + 2
			case 1:
				height = tip.height
			case 2:
				prev = "x"
			case 3:
				if tip.height > 0 {
					prev = fmt.Sprintf("k%d", r.Intn(tip.height))
				} else {
					prev = "k5"
				}
			case 4:
				ts = tip.ts
			case 5:
				if tip.ts > 0 {
					ts = tip.ts - 1
				} else {
					ts = 0
				}
			}
		}
		cfgS := ""
		forceHonest := false
		var cfgHeights []int
		for _, h := range chain {
			if h.newCfg != nil {
				cfgHeights = append(cfgHeights, h.height)
			}
		}
		switch x := r.Intn(100); {
		case len(cfgHeights) >= 2 && x < 30: // name a REPLACED configuration and bring enough of its members' signatures
			lastCfg = cfgHeights[r.Intn(len(cfgHeights)-1)]
			cfgS = fmt.Sprintf("L%d", lastCfg)
			forceHonest = true
		case x < 62:
			cfgS = fmt.Sprintf("L%d", lastCfg)
		case x < 70: // stale / wrong LastConfigBlockNum
			lastCfg = r.Intn(len(chain) + 1)
			if r.Chance(15) {
				lastCfg = 4294967295
			}
			cfgS = fmt.Sprintf("L%d", lastCfg)
		case x < 73:
			cfgS = "J"
			fieldsOK = false
		default: // new configuration
			nc := &simCfg{}
			switch r.Intn(8) {
			case 0:
				nc.c = 4294967295
			case 1:
				nc.c = 0
			default:
				nc.c = uint32(1 + r.Intn(3))
			}
			k := 1 + r.Intn(9)
			if r.Chance(8) {
				k = 0
			}
			nc.ids = pickK(r, all, k)
			if r.Chance(15) && len(nc.ids) > 0 {
				nc.ids = append(nc.ids, nc.ids[0]) // duplicate id in the peer list
			}
			newCfg = nc
			lc := gov
			if r.Chance(20) {
				lc = r.Intn(len(chain) + 1)
			}
			lastCfg = lc
			cfgS = fmt.Sprintf("N,%d,%d,%s", nc.c, lc, joinInts(nc.ids))
		}
		// the configuration the code will use
		usedH := lastCfg
		if newCfg != nil {
			if tip.newCfg != nil {
				usedH = tip.height
			} else {
				usedH = tip.lastCfg
			}
		}
		used := cfgAt(usedH)
		if used == nil {
			used = cfgAt(gov)
			fieldsOK = false
		}
		members := distinct(used.ids)
		nn := len(members)
		m := mOf(nn)
		cc := int(used.c)
		if used.c > 64 {
			cc = 0
		}
		var bk, signers []int
		var sigs []string
		accept := fieldsOK
		flavour := r.Intn(100)
		if forceHonest {
			flavour = 0
		}
		switch {
		case nn == 0: // empty peer map: nothing can be listed
			accept = accept && used.c == 4294967295
			if r.Chance(30) {
				bk = []int{r.Intn(universe)}
				accept = false
			}
		case flavour < 22: // honest: C+1 .. N members, all sign
			k := cc + 1 + r.Intn(nn-imin(cc+1, nn)+1)
			if k < m {
				k = m
			}
			bk = pickK(r, members, k)
			signers = pickK(r, bk, len(bk))
			accept = accept && len(bk) >= cc+1 && len(bk) >= m
		case flavour < 47: // minimal: C+1 listed (or m), exactly m signatures
			k := cc + 1
			if k < m {
				k = m
			}
			bk = pickK(r, members, k)
			signers = pickK(r, bk, m)
			accept = accept && len(bk) >= cc+1 && len(bk) >= m
		case flavour < 55: // one signature short
			k := imax(cc+1, m)
			bk = pickK(r, members, k)
			if m > 0 {
				signers = pickK(r, bk, m-1)
			}
			accept = accept && m == 0 && len(bk) >= cc+1
		case flavour < 63: // fewer than C+1 distinct members listed
			k := cc
			bk = pickK(r, members, k)
			for len(bk) < m && len(bk) > 0 {
				bk = append(bk, bk[0])
			}
			signers = pickK(r, bk, m)
			accept = false
			if used.c > 64 {
				accept = fieldsOK && len(bk) >= m
			}
		case flavour < 72: // a non-member bookkeeper
			bk = pickK(r, members, imax(cc+1, m))
			bk = append(bk, (members[0]+1+r.Intn(universe-1))%universe)
			signers = pickK(r, bk, m)
			accept = false
			for _, mm := range members {
				if mm == bk[len(bk)-1] {
					accept = fieldsOK
				}
			}
		case flavour < 86: // duplicates in the bookkeeper list; the same signature repeated
			bk = pickK(r, members, imax(cc+1, m))
			if len(bk) > 0 {
				d := bk[r.Intn(len(bk))]
				cnt := 1 + r.Intn(3)
				for q := 0; q < cnt; q++ {
					bk = append([]int{d}, bk...)
				}
				for q := 0; q < m; q++ {
					if q <= cnt {
						signers = append(signers, d)
					} else {
						signers = append(signers, bk[len(bk)-1])
					}
				}
			}
			accept = accept && len(distinct(bk)) >= cc+1
		default: // fewer than m bookkeepers
			if m > 0 {
				bk = pickK(r, members, m-1)
			}
			signers = bk
			accept = false
		}
		for _, s := range signers {
			sigs = append(sigs, fmt.Sprintf("s%d", s))
		}
		// signature-level mutations
		if r.Chance(18) && len(sigs) > 0 {
			p := r.Intn(len(sigs))
			switch r.Intn(4) {
			case 0:
				sigs[p] = r.Pick([]string{"j", "g"})
				if p < m {
					accept = false
				}
			case 1:
				sigs[p] = "w" + sigs[p][1:]
				if p < m {
					accept = false
				}
			case 2: // surplus junk after the verified prefix
				sigs = append(sigs, r.Pick([]string{"j", "g"}))
			case 3: // signature of an outsider
				if nn > 0 {
					sigs[p] = fmt.Sprintf("s%d", (members[0]+7)%universe)
				}
			}
		}
		sg := "-"
		if len(sigs) > 0 {
			sg = strings.Join(sigs, ".")
		}
		tag := "h"
		if r.Chance(7) {
			tag = r.Pick([]string{"k", "k", "K"}) // deliver it as a block instead (accepted only at block height + 1)
			accept = false
		}
		ops = append(ops, fmt.Sprintf("%s:%s:%d:%d:%s:%s:%s", tag, prev, height, ts, cfgS, joinInts(bk), sg))
		if accept {
			chain = append(chain, simHdr{height, ts, newCfg, lastCfg})
		}
	}
	return fmt.Sprintf("V %d %d %s", n, c, strings.Join(ops, ";"))
}

var corpus = []string{
	// the design witness: N=7, C=2, three listed members, ONE signature
	"V 7 2 h:t:1:1:L0:0.1.2:s0",
	// honest header
	"V 7 2 h:t:1:1:L0:0.1.2.3.4:s4.s2.s0.s1.s3",
	// N=8, C=1: m = 2 = C+1 - the shipped check is enough without duplicates …
	"V 8 1 h:t:1:1:L0:3.5:s5.s3;h:t:2:2:L0:3.5:s5.s5",
	// … and not with them: one signature counted on two indexes
	"V 8 1 h:t:1:1:L0:3.3.5:s3.s3",
	"V 14 4 h:t:1:1:L0:0.0.1.2.3.4:s0.s0",
	// new configuration, then a header checked against it, then one naming the stale configuration
	"V 7 2 h:t:1:1:N,2,0,7.8.9.10.11.12.13:0.1.2:s0.s1.s2;h:t:2:2:L1:7.8.9:s7.s8.s9;h:t:3:3:L0:0.1.2:s0.s1.s2",
	// configuration with C = 2^32-1 and no peer: afterwards headers need nothing
	"V 7 2 h:t:1:1:N,4294967295,0,-:0.1.2:s0;h:t:2:2:L1:-:-;h:t:3:3:L1:-:-",
	// two configuration headers in a row (chainConfigHeight = prevHeader.Height), LastConfigBlockNum = MaxUint32 on a config header
	"V 7 2 h:t:1:1:N,1,4294967295,3.4.5:0.1.2:s1;h:t:2:2:N,1,7,6.7.8:3.4:s4;h:t:3:3:L2:6.7:s7;h:t:4:4:L3:6.7:s7",
	// rejections: wrong message, junk, non-member, too few listed, too few bookkeepers, bad payload, height, prev, timestamp
	"V 7 2 h:t:1:1:L0:0.1.2:w0;h:t:1:1:L0:0.1.2:j;h:t:1:1:L0:0.1.2:g;h:t:1:1:L0:0.1.9:s0;h:t:1:1:L0:0.1.1:s0;h:t:1:1:L0:-:-;h:t:1:1:J:0.1.2:s0",
	"V 7 2 h:t:2:1:L0:0.1.2:s0;h:x:1:1:L0:0.1.2:s0;h:t:1:0:L0:0.1.2:s0;h:t:1:1:L5:0.1.2:s0;h:t:1:1:L4294967295:0.1.2:s0;h:t:1:1:L0:0.1.2:-",
	"V 7 2 h:t:1:1:L0:0.1.2:s0;h:k0:2:2:L0:0.1.2:s0;h:t:2:2:L1:0.1.2:s0;h:t:2:1:L0:0.1.2:s0;h:t:2:2:L0:0.1.2:s3.j;h:t:2:2:L0:0.1.2:s1.j.g",
	"V 16 5 h:t:1:1:L0:0.1.2.3.4.5:s0.s1.s2;h:t:2:2:L0:0.1.2.3.4.5:s0.s1;h:t:2:2:L0:0.0.0.1.2.3.4.5:s0.s0.s0",
	// keys of other types sign (3: Ed25519, 5: SM2, 9: P-384)
	"V 10 3 h:t:1:1:L0:3.5.9.0:s3.s5;h:t:2:2:L0:3.5.9.0:s9.s0.s3.s5",
	// signature valid but of a key that is not listed
	"V 7 2 h:t:1:1:L0:0.1.2:s3",
}

func imin(a, b int) int {
	if a < b {
		return a
	}
	return b
}

func imax(a, b int) int {
	if a > b {
		return a
	}
	return b
}
