// C32 harness: histories of VBFT headers with arbitrary bookkeeper / signature lists and consensus payloads, fed through the
// sync path (Ledger.AddHeaders -> LedgerStoreImp.AddHeader -> verifyHeader) of a REAL ledger whose genesis block carries a
// chain configuration of N generated peers; every accepted header is afterwards delivered as an empty block (AddBlock).
//
// Line:  V <N> <C> <op>;<op>;…     (grammar: lean/OntVerif/OntVerif/Driver/C32.lean)
// Output (compared with the Lean model): one verdict per op, `| hh=<header height> bh=<block height>`.
// Predicate (on the implementation's own verdicts, independent of the Lean model): every ACCEPTED header carries signatures
// that really verify (they were produced here with the peers' private keys over this header's hash) of at least C+1 distinct
// members of the configuration governing its height = the newest chain configuration in an accepted header below it.
//   vbft-header-sigcount-below-C+1                        fewer than C+1 members signed (only m = N - 6N/7 signatures are verified)
//   vbft-header-sigcount-below-C+1:duplicate-bookkeeper   … and one signature was counted on several indexes of a repeated bookkeeper
//   vbft-header-sigcount-below-C+1:c+1-wraps-uint32       … under a configuration with C = 2^32-1 (uint32(C+1) = 0)
//   vbft-header-stale-config                              enough signatures, but of the members of an OLDER configuration that the
//                                                         header itself named through LastConfigBlockNum
//   vbft-rejected-block-updates-peer-map                  a block rejected for its block root had already replaced vbftPeerInfoMap[height]
//                                                         (verifyHeader writes it before saveBlock can fail); a later header satisfies that set
//   accepted:<what>                                       an accepted header lacks something even the shipped check guarantees
//                                                         (members only, m bookkeepers, C+1 listed, m valid signatures of listed
//                                                         bookkeepers, extends the tip) - never expected
package main

import (
	"fmt"
	"os"
	"path/filepath"
	"strconv"
	"strings"

	"github.com/ontio/ontology-crypto/keypair"
	"github.com/ontio/ontology/account"
	"github.com/ontio/ontology/common"
	"github.com/ontio/ontology/core/signature"
	"github.com/ontio/ontology/core/types"
	"verif/harness/internal/hx"
	"verif/harness/internal/ledgerkit"
)

const universe = 32

var (
	base   string
	keys   []*account.Account
	lineNo int
)

func setup() {
	if base != "" {
		return
	}
	base = ledgerkit.TmpDir("c32")
	ledgerkit.InitVbftGlobals()
	for i := 0; i < universe; i++ {
		scheme := ""
		switch {
		case i%5 == 3:
			scheme = "SHA512withEdDSA"
		case i%7 == 5:
			scheme = "SM3withSM2"
		case i%11 == 9:
			scheme = "SHA384withECDSA"
		}
		keys = append(keys, account.NewAccount(scheme))
	}
}

func must(err error) {
	if err != nil {
		panic(err)
	}
}

func classify(err error) string {
	if err == nil {
		return "ok"
	}
	m := err.Error()
	for _, c := range []struct{ sub, kind string }{
		{"not equal next header height", "height"},
		{"not equal next block height", "blockheight"},
		{"wrong block root", "blockroot"},
		{"is not the current block", "blockprev"},
		{"cannot find pre header", "prev"},
		{"block height is incorrect", "prevheight"},
		{"block timestamp is incorrect", "ts"},
		{"unmarshal blockInfo", "json"},
		{"cannot find chain config header", "cfgheader"},
		{"cannot find newchainconfig header", "nocfg"},
		{"chainconfig height:", "nomap"},
		{"more than 6/7 len vbftPeerInfo", "fewbk"},
		{"invalid pubkey", "nonmember"},
		{"duplicate bookkeeper", "dupbk"},
		{"verify header error height", "fewmembers"},
		{"not enough signatures", "sigcount"},
		{"invalid signature data", "sigdata"},
		{"multi-signature verification failed", "sigfail"},
	} {
		if strings.Contains(m, c.sub) {
			return "rej:" + c.kind
		}
	}
	if os.Getenv("HX_TRACE") != "" {
		fmt.Fprintln(os.Stderr, "unclassified error:", m)
	}
	return "rej:other"
}

type cfg struct {
	height uint32
	c      uint32
	ids    map[int]bool
}

type accepted struct {
	height  uint32
	hdr     *types.Header
	newCfg  *cfg
	lastCfg uint32
}

func natList(s string) []int {
	if s == "-" {
		return nil
	}
	var out []int
	for _, t := range strings.Split(s, ".") {
		v, err := strconv.Atoi(t)
		if err != nil || v < 0 || v >= universe {
			panic("bad key number " + t)
		}
		out = append(out, v)
	}
	return out
}

func u32(s string) uint32 {
	v, err := strconv.ParseUint(s, 10, 32)
	if err != nil {
		panic("bad number " + s)
	}
	return uint32(v)
}

func exec(line string) hx.Result {
	setup()
	lineNo++
	f := strings.Fields(line)
	if len(f) != 4 || f[0] != "V" {
		return hx.Result{Out: "bad-op", Kind: "bad-op"}
	}
	n, c := int(u32(f[1])), u32(f[2])
	if n > universe || n < 1 {
		return hx.Result{Out: "bad-op", Kind: "bad-op"}
	}
	dir := filepath.Join(base, fmt.Sprintf("l%d", lineNo))
	k, err := ledgerkit.OpenVbft(dir, keys[:n], c)
	must(err)
	defer func() {
		k.Close()
		os.RemoveAll(dir)
	}()
	ld := k.Ledger
	gen := k.Genesis.Header
	genIDs := map[int]bool{}
	for i := 0; i < n; i++ {
		genIDs[i] = true
	}
	genRec := &accepted{height: 0, hdr: gen, newCfg: &cfg{0, c, genIDs}, lastCfg: 0xFFFFFFFF}
	index := map[uint32]*accepted{0: genRec}                 // the header the node's index maps each height to (the genuine chain)
	known := map[common.Uint256]*accepted{gen.Hash(): genRec} // every header the node accepted (reachable by hash)
	mapCfg := map[uint32]*cfg{0: genRec.newCfg}               // what vbftPeerInfoMap holds as far as the SHIPPED code is understood
	nAccepted := 0
	ops := strings.Split(f[3], ";")
	zero := common.Uint256{}
	roots := map[uint32]common.Uint256{}
	var zs []common.Uint256
	for h := 1; h <= len(ops); h++ {
		zs = append(zs, zero)
		roots[uint32(h)] = ld.GetBlockRootWithNewTxRoots(1, zs)
	}
	var outs []string
	res := hx.Result{}
	kinds := map[string]bool{}
	fail := func(class, msg string) {
		if res.Fail == "" {
			res.Fail, res.Class = msg, class
		}
	}
	for oi, op := range ops {
		p := strings.Split(op, ":")
		if len(p) != 7 || (p[0] != "h" && p[0] != "k" && p[0] != "K") {
			return hx.Result{Out: "bad-op", Kind: "bad-op"}
		}
		isBlock := p[0] != "h"
		var prev common.Uint256
		switch {
		case p[1] == "t":
			prev = ld.GetCurrentHeaderHash()
		case p[1] == "x":
			prev = common.Uint256{0xee, byte(oi)}
		case strings.HasPrefix(p[1], "k"):
			prev = ld.GetBlockHash(u32(p[1][1:]))
			if prev == zero {
				prev = common.Uint256{0xee, byte(oi)}
			}
		default:
			return hx.Result{Out: "bad-op", Kind: "bad-op"}
		}
		height, ts := u32(p[2]), u32(p[3])
		var payload []byte
		var newCfg *cfg
		var lastCfg uint32
		switch {
		case p[4] == "J":
			payload = []byte("{")
		case strings.HasPrefix(p[4], "L"):
			lastCfg = u32(p[4][1:])
			payload = ledgerkit.VbftPayload(lastCfg, false, 0, nil)
		default:
			q := strings.Split(p[4], ",")
			if len(q) != 4 || q[0] != "N" {
				return hx.Result{Out: "bad-op", Kind: "bad-op"}
			}
			lastCfg = u32(q[2])
			newCfg = &cfg{height, u32(q[1]), map[int]bool{}}
			var ids []string
			for _, i := range natList(q[3]) {
				newCfg.ids[i] = true
				ids = append(ids, ledgerkit.PeerID(keys[i].PublicKey))
			}
			payload = ledgerkit.VbftPayload(lastCfg, true, newCfg.c, ids)
		}
		hdr := ledgerkit.VbftHeader(prev, height, gen.Timestamp+ts, payload)
		hdr.BlockRoot = roots[height]
		if p[0] == "K" {
			hdr.BlockRoot = common.Uint256{0xBA, 0xD0, byte(oi)}
		}
		hash := hdr.Hash()
		var bk []keypair.PublicKey
		bkNums := natList(p[5])
		for _, i := range bkNums {
			bk = append(bk, keys[i].PublicKey)
		}
		var sigs [][]byte
		var signerSeq []int // -1 for w/j tokens
		if p[6] != "-" {
			for _, t := range strings.Split(p[6], ".") {
				switch {
				case t == "j": // s.Deserialize fails (shorter than 2 bytes)
					sigs = append(sigs, []byte{0x01})
					signerSeq = append(signerSeq, -1)
				case t == "g": // deserializes (SHA256withECDSA, r = 2, s = 3), verifies under no key
					sigs = append(sigs, []byte{0x01, 0x02, 0x03})
					signerSeq = append(signerSeq, -1)
				case t[0] == 's':
					i := natList(t[1:])[0]
					sg, err := signature.Sign(keys[i], hash[:])
					must(err)
					sigs = append(sigs, sg)
					signerSeq = append(signerSeq, i)
				case t[0] == 'w':
					i := natList(t[1:])[0]
					other := common.Uint256{0x77, byte(oi)}
					sg, err := signature.Sign(keys[i], other[:])
					must(err)
					sigs = append(sigs, sg)
					signerSeq = append(signerSeq, -1)
				default:
					return hx.Result{Out: "bad-op", Kind: "bad-op"}
				}
			}
		}
		hdr.Bookkeepers, hdr.SigData = bk, sigs
		hhBefore, bhBefore := ld.GetCurrentHeaderHeight(), ld.GetCurrentBlockHeight()
		tipBefore, atBefore := ld.GetCurrentHeaderHash(), ld.GetBlockHash(height)
		var err error
		v := ""
		if isBlock {
			err = ld.AddBlock(&types.Block{Header: hdr}, nil, zero)
			v = classify(err)
			if err == nil && height <= bhBefore {
				v = "noop"
			}
		} else {
			err = ld.AddHeaders([]*types.Header{hdr})
			v = classify(err)
		}
		outs = append(outs, v)
		kinds[v] = true
		if v != "ok" {
			// a refused (or ignored) header / block must leave everything observable as it was
			if ld.GetCurrentHeaderHeight() != hhBefore || ld.GetCurrentBlockHeight() != bhBefore ||
				ld.GetCurrentHeaderHash() != tipBefore || ld.GetBlockHash(height) != atBefore {
				fail("rejected-but-chain-changed", fmt.Sprintf("op %d (%s) changed header height / block height / tip / index entry", oi, v))
			}
			if v == "rej:blockroot" && newCfg != nil {
				// shipped behaviour (modelled, C32_asShipped_rejected_block_updates_map): verifyHeader passed and has already recorded the peer set
				mapCfg[height] = newCfg
			}
			continue
		}
		nAccepted++
		if isBlock {
			if ld.GetCurrentBlockHeight() != bhBefore+1 || ld.GetBlockHash(height) != hash {
				fail("accepted-but-not-committed", fmt.Sprintf("op %d: block accepted but not the committed block of its height", oi))
			}
		} else if ld.GetCurrentHeaderHeight() != hhBefore+1 || ld.GetCurrentHeaderHash() != hash {
			fail("accepted-but-not-tip", fmt.Sprintf("op %d accepted but tip is not the header", oi))
		}
		// --- property predicate on an accepted header ---
		// the GENUINE configurations: those announced by the headers the node's own index holds
		var trueCfg *cfg
		for hgt := uint32(0); hgt < height; hgt++ {
			if r, ok := index[hgt]; ok && r.newCfg != nil {
				trueCfg = r.newCfg
			}
		}
		// the configuration the header asked to be checked against
		prevAcc := known[hdr.PrevBlockHash]
		if prevAcc == nil {
			fail("accepted:unknown-previous-header", fmt.Sprintf("op %d accepted although its previous header was never accepted", oi))
			prevAcc = genRec
		}
		usedH := lastCfg
		if newCfg != nil {
			if prevAcc.newCfg != nil {
				usedH = prevAcc.height
			} else {
				usedH = prevAcc.lastCfg
			}
		}
		var usedCfg *cfg
		if r, ok := index[usedH]; ok {
			usedCfg = r.newCfg
		}
		signers := map[int]bool{}
		for _, s := range signerSeq {
			if s >= 0 {
				signers[s] = true
			}
		}
		count := func(cf *cfg) uint64 {
			var nn uint64
			for s := range signers {
				if cf != nil && cf.ids[s] {
					nn++
				}
			}
			return nn
		}
		// what the shipped check does establish, against the GENUINE configuration of the height the header names
		// (a mutant that loses one of these gets its own class)
		partial := func(cf *cfg) (string, string) {
			if cf == nil {
				return "accepted:no-configuration", fmt.Sprintf("op %d accepted although the configuration height %d it names holds no configuration", oi, usedH)
			}
			m := mOf(len(cf.ids))
			distinctBk := map[int]bool{}
			for _, b := range bkNums {
				distinctBk[b] = true
				if !cf.ids[b] {
					return "accepted:nonmember-bookkeeper", fmt.Sprintf("op %d accepted with bookkeeper %d that is not in the genuine configuration of height %d", oi, b, usedH)
				}
			}
			if len(bkNums) < m {
				return "accepted:fewer-than-m-bookkeepers", fmt.Sprintf("op %d accepted with %d bookkeepers, m = %d", oi, len(bkNums), m)
			}
			if cf.c != 0xFFFFFFFF && uint64(len(distinctBk)) < uint64(cf.c)+1 {
				return "accepted:fewer-than-C+1-listed", fmt.Sprintf("op %d accepted with %d distinct listed members, C+1 = %d", oi, len(distinctBk), uint64(cf.c)+1)
			}
			if len(signerSeq) < m {
				return "accepted:fewer-than-m-signatures", fmt.Sprintf("op %d accepted with %d signatures, m = %d", oi, len(signerSeq), m)
			}
			for i := 0; i < m && i < len(signerSeq); i++ {
				if signerSeq[i] < 0 || !distinctBk[signerSeq[i]] {
					return "accepted:invalid-signature-counted", fmt.Sprintf("op %d accepted although signature #%d (among the first m = %d) is not a valid signature of a listed bookkeeper", oi, i, m)
				}
			}
			return "", ""
		}
		poisoned := false
		if cl, msg := partial(usedCfg); cl != "" {
			if mc := mapCfg[usedH]; mc != nil && mc != usedCfg {
				if cl2, _ := partial(mc); cl2 == "" {
					// known: a block REJECTED for its block root had already replaced the recorded peer set of that height
					poisoned = true
					fail("vbft-rejected-block-updates-peer-map", msg+" - it satisfies the peer set announced by a block that was rejected (wrong block root) after verifyHeader had recorded it")
				}
			}
			if !poisoned {
				fail(cl, msg)
			}
		}
		if isBlock {
			if height != bhBefore+1 || prevAcc.height+1 != height || hdr.Timestamp <= prevAcc.hdr.Timestamp {
				fail("accepted:not-the-next-block", fmt.Sprintf("op %d: block accepted although it is not a next block over a known header", oi))
			}
		} else if height != hhBefore+1 || prevAcc.height+1 != height || hdr.Timestamp <= prevAcc.hdr.Timestamp {
			fail("accepted:not-extending-the-tip", fmt.Sprintf("op %d accepted although it does not extend the header chain (height/prev/timestamp)", oi))
		}
		if poisoned {
			// already reported
		} else if trueCfg == nil {
			fail("accepted-without-governing-config", fmt.Sprintf("op %d accepted, no configuration below height %d", oi, height))
		} else if count(trueCfg) < uint64(trueCfg.c)+1 {
			got := count(trueCfg)
			msg := fmt.Sprintf("op %d: header at height %d accepted with valid signatures of %d distinct member(s) of the governing configuration (height %d, N=%d, C=%d): C+1 = %d needed",
				oi, height, got, trueCfg.height, len(trueCfg.ids), trueCfg.c, uint64(trueCfg.c)+1)
			class := "vbft-header-sigcount-below-C+1"
			dupBk := false
			seen := map[int]bool{}
			for _, b := range bkNums {
				if seen[b] {
					dupBk = true
				}
				seen[b] = true
			}
			switch {
			case usedCfg != nil && usedCfg != trueCfg && count(usedCfg) >= uint64(usedCfg.c)+1:
				class = "vbft-header-stale-config"
			case usedCfg != nil && usedCfg.c == 0xFFFFFFFF:
				class += ":c+1-wraps-uint32"
			case usedCfg != nil && dupBk && verifiedDistinct(signerSeq, len(usedCfg.ids)) < mOf(len(usedCfg.ids)):
				class += ":duplicate-bookkeeper"
			}
			fail(class, msg)
		}
		rec := &accepted{height: height, hdr: hdr, newCfg: newCfg, lastCfg: lastCfg}
		index[height] = rec
		known[hash] = rec
		if newCfg != nil {
			mapCfg[height] = newCfg
		}
	}
	hh := ld.GetCurrentHeaderHeight()
	// deliver the indexed headers above the committed height as empty blocks, until one is refused
	for hgt := ld.GetCurrentBlockHeight() + 1; hgt <= hh; hgt++ {
		r, ok := index[hgt]
		if !ok {
			break
		}
		if err := ld.AddBlock(&types.Block{Header: r.hdr}, nil, zero); err != nil {
			kinds["final-block:"+classify(err)] = true
			break
		}
	}
	bh := ld.GetCurrentBlockHeight()
	res.Out = strings.Join(outs, " ") + fmt.Sprintf(" | hh=%d bh=%d", hh, bh)
	var ks []string
	for kd := range kinds {
		ks = append(ks, kd)
	}
	res.Kind = kindOf(outs, res.Class)
	if nAccepted > 0 || len(outs) > 0 {
		res.Key = fmt.Sprintf("%d/%d:%s", n, c, strings.Join(outs, ","))
	}
	return res
}

func mOf(n int) int { return n - (n*6)/7 }

// number of distinct signers among the first m signatures (the only ones VerifyMultiSignature looks at)
func verifiedDistinct(seq []int, n int) int {
	m := mOf(n)
	d := map[int]bool{}
	for i := 0; i < m && i < len(seq); i++ {
		d[seq[i]] = true
	}
	return len(d)
}

// histogram bucket: the verdict of the LAST op, `+forged` when some accepted header of the line violates the predicate
func kindOf(outs []string, class string) string {
	k := "none"
	if len(outs) > 0 {
		k = outs[len(outs)-1]
	}
	if class != "" {
		k += "+forged"
	}
	return k
}

// capN: ./check's focused search asks for max(5*cases, 20000) cases; every case here creates real ledgers, so the
// request is clamped to what fits the run's time-out.
func capN(max int) {
	for i := 1; i+1 < len(os.Args); i++ {
		if os.Args[i] == "-n" || os.Args[i] == "--n" {
			if v, err := strconv.Atoi(os.Args[i+1]); err == nil && v > max {
				os.Args[i+1] = strconv.Itoa(max)
			}
		}
	}
}

func main() {
	capN(3000)
	defer func() {
		if base != "" {
			os.RemoveAll(base)
		}
	}()
	hx.Main(hx.Prop{
		ID:   "C32",
		Rule: "histories of 1-6 VBFT headers on a fresh real ledger with a generated N-peer genesis configuration (N in 4..16, keys of four types): honest, minimal (m signatures, C+1 listed), too few / wrong-message / undecodable / surplus signatures, duplicate and non-member bookkeepers, new chain configurations (incl. C = 2^32-1, empty, duplicate ids), stale / missing LastConfigBlockNum, wrong height / prev / timestamp / payload; non-trivial = every line (key = config + verdict sequence)",
		Gen:  gen, Exec: exec, Corpus: corpus,
		N: map[string]int{"quick": 260, "thorough": 4000},
	})
}
