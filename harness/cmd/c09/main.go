// C09 harness: ONG unbinding schedule (CalcUnbindOng / CalcGovernanceUnbindOng / GetGovUnboundDeadline) on every network id.
//
// Lines:
//
//	D <net>                      -> "<holderDeadline> <govDeadline> <gap>"
//	A <net> <bal> <s> <m> <e>    -> "h(s,e) h(s,m) h(m,e) g(s,e) g(s,m) g(m,e)"   predicate (s<=m<=e): both are additive
//	T <net> <e>                  -> "h(supply,0,e) g(0,e)"                         predicate (e > govDeadline): sum = ONG_TOTAL_SUPPLY
package main

import (
	"fmt"
	"sort"
	"strconv"
	"strings"

	"github.com/ontio/ontology/common/config"
	"github.com/ontio/ontology/common/constants"
	"github.com/ontio/ontology/smartcontract/service/native/utils"
	"verif/harness/internal/hx"
)

const maxU32 = uint64(1<<32 - 1)

func setNet(net uint32) { config.DefConfig.P2PNode.NetworkId = net }

type netInfo struct {
	ok         bool
	d, dl, gap uint64
}

func deadlines(net uint32) (ni netInfo) {
	setNet(net)
	defer func() {
		if recover() != nil {
			ni = netInfo{}
		}
	}()
	d := config.GetOntHolderUnboundDeadline()
	dl, gap := config.GetGovUnboundDeadline()
	return netInfo{true, uint64(d), uint64(dl), gap}
}

func region(ni netInfo, t uint64) string {
	switch {
	case !ni.ok:
		return "?"
	case t < ni.d:
		return "h" // holder phase
	case t < ni.dl:
		return "g" // governance phase
	case t == ni.dl:
		return "d" // the deadline second (pays `gap`)
	default:
		return "z"
	}
}

func boundaries(net uint32) []uint64 {
	ni := deadlines(net)
	ti := uint64(utils.TIME_INTERVAL)
	set := map[uint64]bool{0: true, 1: true, maxU32: true, maxU32 - 1: true}
	add := func(v uint64) {
		for _, d := range []int64{-2, -1, 0, 1, 2} {
			x := int64(v) + d
			if x >= 0 && uint64(x) <= maxU32 {
				set[uint64(x)] = true
			}
		}
	}
	for k := uint64(0); k <= 20; k++ {
		add(k * ti)
	}
	if ni.ok {
		add(ni.d)
		add(ni.dl)
	}
	var out []uint64
	for v := range set {
		out = append(out, v)
	}
	sort.Slice(out, func(i, j int) bool { return out[i] < out[j] })
	return out
}

var nets = []uint32{1, 2, 3, 0, 7}
var bcache = map[uint32][]uint64{}

func bounds(net uint32) []uint64 {
	if b, ok := bcache[net]; ok {
		return b
	}
	b := boundaries(net)
	bcache[net] = b
	return b
}

func genOffset(r *hx.Rand, net uint32) uint64 {
	b := bounds(net)
	ni := deadlines(net)
	near := func(v uint64) uint64 { // v-3 .. v+3, clipped
		x := int64(v) + int64(r.Intn(7)) - 3
		if x < 0 {
			x = 0
		}
		return uint64(x) & maxU32
	}
	switch r.Intn(12) {
	case 0, 1: // holder phase (empty on the default network)
		if ni.d > 0 {
			if r.Bool() {
				return uint64(r.Intn(int(ni.d) + 1))
			}
			return near(uint64(r.Intn(3)) * uint64(utils.TIME_INTERVAL))
		}
		return uint64(r.Intn(5))
	case 2:
		return near(ni.d)
	case 3, 4:
		return near(ni.dl)
	case 5:
		c := []uint64{ni.d, ni.dl, ni.dl + 1, ni.d + 1}
		return c[r.Intn(len(c))] & maxU32
	case 6, 7:
		return b[r.Intn(len(b))]
	case 8:
		return (b[r.Intn(len(b))] + uint64(r.Intn(100000))) & maxU32
	case 9: // governance phase, uniform
		if ni.dl > ni.d {
			return ni.d + uint64(r.Intn(int(ni.dl-ni.d)))
		}
		return uint64(r.Intn(20*31536000 + 5))
	case 10:
		return uint64(r.Intn(20*31536000 + 5))
	default:
		return r.U64() & maxU32
	}
}

func genBal(r *hx.Rand) uint64 {
	switch r.Intn(8) {
	case 0:
		return 0
	case 1:
		return 1
	case 2:
		return constants.ONT_TOTAL_SUPPLY
	case 3:
		return uint64(r.Intn(1000000000))
	case 4:
		return r.U64()
	default:
		return uint64(1 + r.Intn(1000))
	}
}

func gen(r *hx.Rand, tier string, i int) string {
	var net uint32
	if r.Chance(60) {
		net = uint32(1 + r.Intn(2)) // the two networks with a holder phase
	} else if r.Chance(70) {
		net = nets[r.Intn(len(nets))]
	} else {
		net = uint32(r.Intn(300))
	}
	switch r.Intn(20) {
	case 0:
		return fmt.Sprintf("D %d", net)
	case 1:
		return fmt.Sprintf("T %d %d", net, genOffset(r, net))
	default:
		t := []uint64{genOffset(r, net), genOffset(r, net), genOffset(r, net)}
		if !r.Chance(5) { // a few unordered triples exercise the `start >= end` exits
			sort.Slice(t, func(a, b int) bool { return t[a] < t[b] })
		}
		return fmt.Sprintf("A %d %d %d %d %d", net, genBal(r), t[0], t[1], t[2])
	}
}

func pu(s string, bits int) (uint64, bool) {
	v, err := strconv.ParseUint(s, 10, bits)
	return v, err == nil
}

func exec(line string) (res hx.Result) {
	f := strings.Fields(line)
	if len(f) < 2 {
		return hx.Result{Out: "bad-op"}
	}
	n64, ok := pu(f[1], 32)
	if !ok {
		return hx.Result{Out: "bad-op"}
	}
	net := uint32(n64)
	setNet(net)
	defer func() {
		if e := recover(); e != nil {
			res = hx.Result{Out: "panic", Fail: "schedule function panics: " + trunc(fmt.Sprint(e)), Class: "schedule-panic:" + f[0], Kind: "panic"}
		}
	}()
	switch f[0] {
	case "D":
		if len(f) != 2 {
			return hx.Result{Out: "bad-op"}
		}
		d := config.GetOntHolderUnboundDeadline()
		dl, gap := config.GetGovUnboundDeadline()
		res = hx.Result{Out: fmt.Sprintf("%d %d %d", d, dl, gap), Kind: "deadline", Key: line}
		if dl < d {
			res.Fail, res.Class = "governance deadline before holder deadline", "gov-deadline-before-holder-deadline"
		}
		return res
	case "T":
		if len(f) != 3 {
			return hx.Result{Out: "bad-op"}
		}
		e, ok := pu(f[2], 32)
		if !ok {
			return hx.Result{Out: "bad-op"}
		}
		h := utils.CalcUnbindOng(constants.ONT_TOTAL_SUPPLY, 0, uint32(e))
		g := utils.CalcGovernanceUnbindOng(0, uint32(e))
		ni := deadlines(net)
		setNet(net)
		res = hx.Result{Out: fmt.Sprintf("%d %d", h, g), Kind: "total:" + region(ni, e), Key: line}
		if e > ni.dl {
			if h+g != constants.ONG_TOTAL_SUPPLY {
				res.Fail = fmt.Sprintf("holders %d + governance %d = %d, ONG total supply is %d", h, g, h+g, uint64(constants.ONG_TOTAL_SUPPLY))
				res.Class = "total-supply-mismatch"
			}
		} else if h+g > constants.ONG_TOTAL_SUPPLY {
			res.Fail = "released more than the total supply before the deadline"
			res.Class = "total-supply-exceeded-early"
		}
		return res
	case "A":
		if len(f) != 6 {
			return hx.Result{Out: "bad-op"}
		}
		bal, ok0 := pu(f[2], 64)
		s, ok1 := pu(f[3], 32)
		m, ok2 := pu(f[4], 32)
		e, ok3 := pu(f[5], 32)
		if !(ok0 && ok1 && ok2 && ok3) {
			return hx.Result{Out: "bad-op"}
		}
		hse := utils.CalcUnbindOng(bal, uint32(s), uint32(e))
		hsm := utils.CalcUnbindOng(bal, uint32(s), uint32(m))
		hme := utils.CalcUnbindOng(bal, uint32(m), uint32(e))
		gse := utils.CalcGovernanceUnbindOng(uint32(s), uint32(e))
		gsm := utils.CalcGovernanceUnbindOng(uint32(s), uint32(m))
		gme := utils.CalcGovernanceUnbindOng(uint32(m), uint32(e))
		ni := deadlines(net)
		setNet(net)
		shape := region(ni, s) + region(ni, m) + region(ni, e)
		res = hx.Result{Out: fmt.Sprintf("%d %d %d %d %d %d", hse, hsm, hme, gse, gsm, gme), Key: line}
		if !(s <= m && m <= e) {
			res.Kind = "unordered"
			return res
		}
		res.Kind = "split:" + shape
		if s == m || m == e {
			res.Kind = "split-degenerate:" + shape
		}
		if gse != gsm+gme {
			res.Fail = fmt.Sprintf("governance: [%d,%d) gives %d but [%d,%d)+[%d,%d) gives %d", s, e, gse, s, m, m, e, gsm+gme)
			if m == ni.dl {
				res.Class = "gov-split-at-deadline"
			} else {
				res.Class = "gov-split-nonadditive:" + shape
			}
		}
		if hse != hsm+hme { // uint64 addition wraps exactly like the multiplication by balance does
			res.Fail = fmt.Sprintf("holders: [%d,%d) gives %d but [%d,%d)+[%d,%d) gives %d", s, e, hse, s, m, m, e, hsm+hme)
			res.Class = "holder-split-nonadditive:" + shape
		}
		return res
	}
	return hx.Result{Out: "bad-op"}
}

func trunc(s string) string {
	if len(s) > 100 {
		return s[:100]
	}
	return s
}

func corpus() []string {
	var out []string
	for _, net := range []uint32{1, 2, 3} {
		out = append(out, fmt.Sprintf("D %d", net))
		ni := deadlines(net)
		if !ni.ok {
			continue
		}
		out = append(out, fmt.Sprintf("T %d %d", net, maxU32), fmt.Sprintf("T %d %d", net, ni.dl+1), fmt.Sprintf("T %d %d", net, ni.dl))
		keys := map[uint64]bool{}
		for _, v := range []int64{0, int64(ni.d) - 1, int64(ni.d), int64(ni.d) + 1, int64(ni.dl) - 1, int64(ni.dl), int64(ni.dl) + 1, int64(maxU32)} {
			if v >= 0 && uint64(v) <= maxU32 {
				keys[uint64(v)] = true
			}
		}
		var ks []uint64
		for k := range keys {
			ks = append(ks, k)
		}
		sort.Slice(ks, func(i, j int) bool { return ks[i] < ks[j] })
		for i := range ks {
			for j := i; j < len(ks); j++ {
				for k := j; k < len(ks); k++ {
					out = append(out, fmt.Sprintf("A %d %d %d %d %d", net, 1+uint64(net), ks[i], ks[j], ks[k]))
				}
			}
		}
	}
	return out
}

func main() {
	hx.Main(hx.Prop{
		ID: "C09",
		Rule: "split triples s<=m<=e drawn from interval edges k*TI±2 (k=0..20), holder deadline ±2, governance deadline ±2, 0, 2^32-1, " +
			"near-boundary and uniform 32-bit offsets, on network ids 1,2,3,0,7 and random ids; balances 0,1,supply,random,uint64; " +
			"totals T and deadlines D. Non-trivial = distinct line; kinds = phase of (s,m,e): h holder phase, g governance phase, d deadline second, z after",
		Gen:    gen,
		Exec:   exec,
		Corpus: corpus(),
		N:      map[string]int{"quick": 30000, "thorough": 1500000},
	})
}
