// C22 harness: common.Address Base58 / hex forms on generated addresses, edited encodings and arbitrary strings.
//
// The Lean model is parametric in the hash; each line carries the four checksum bytes the model needs
// (computed here with crypto/sha256, independently of the code under test).
package main

import (
	"bytes"
	"crypto/sha256"
	"math/big"
	"strings"

	"github.com/ontio/ontology/common"
	"verif/harness/internal/hx"
)

const alphabet = "123456789ABCDEFGHJKLMNPQRSTUVWXYZabcdefghijkmnopqrstuvwxyz"

func chk4(data []byte) []byte {
	a := sha256.Sum256(data)
	b := sha256.Sum256(a[:])
	return b[:4]
}

// own base58 (plain big-endian number, no leading-zero convention) — used to build hostile strings and to find the
// payload a string denotes, so that its checksum can be put on the line
func b58enc(data []byte) string {
	x := new(big.Int).SetBytes(data)
	var out []byte
	r := big.NewInt(58)
	m := new(big.Int)
	for x.Sign() > 0 {
		x.DivMod(x, r, m)
		out = append(out, alphabet[m.Int64()])
	}
	for i, j := 0, len(out)-1; i < j; i, j = i+1, j-1 {
		out[i], out[j] = out[j], out[i]
	}
	return string(out)
}

func b58num(s string) *big.Int {
	x := new(big.Int)
	for i := 0; i < len(s); i++ {
		k := strings.IndexByte(alphabet, s[i])
		if k < 0 {
			return nil
		}
		x.Mul(x, big.NewInt(58))
		x.Add(x, big.NewInt(int64(k)))
	}
	return x
}

// checksum the model will ask for when decoding s: of 23 ‖ buf[1:21] if s denotes a 25-byte number
func chkFor(s string) string {
	x := b58num(s)
	if x == nil {
		return "-"
	}
	buf := x.Bytes()
	if len(buf) != 25 {
		return "-"
	}
	return hx.Hex(chk4(append([]byte{23}, buf[1:21]...)))
}

func dLine(s string) string { return "D " + hx.Hex([]byte(s)) + " " + chkFor(s) }

func genAddr(r *hx.Rand) common.Address {
	var a common.Address
	switch r.Intn(8) {
	case 0: // zero
	case 1:
		for i := range a {
			a[i] = 0xff
		}
	case 2: // leading zero bytes
		copy(a[:], r.Bytes(20))
		for i := 0; i < 1+r.Intn(19); i++ {
			a[i] = 0
		}
	case 3: // trailing zero bytes
		copy(a[:], r.Bytes(20))
		for i := 0; i < 1+r.Intn(19); i++ {
			a[19-i] = 0
		}
	default:
		copy(a[:], r.Bytes(20))
	}
	return a
}

var oddBytes = []byte{0, ' ', '0', 'O', 'I', 'l', '+', '-', '_', 0x7f, 0x80, 0xff}

func randChar(r *hx.Rand) byte {
	if r.Chance(70) {
		return alphabet[r.Intn(58)]
	}
	return oddBytes[r.Intn(len(oddBytes))]
}

func payload(ver byte, a []byte, goodChk bool, r *hx.Rand) []byte {
	d := append([]byte{ver}, a...)
	c := chk4(d)
	if !goodChk {
		c = append([]byte{}, c...)
		c[r.Intn(4)] ^= byte(1 + r.Intn(255))
	}
	return append(d, c...)
}

func gen(r *hx.Rand, tier string, i int) string {
	a := genAddr(r)
	s := a.ToBase58()
	switch r.Intn(20) {
	case 0, 1:
		return "E " + hx.Hex(a[:]) + " " + hx.Hex(chk4(append([]byte{23}, a[:]...)))
	case 2, 3:
		return dLine(s)
	case 4, 5, 6: // substitution
		b := []byte(s)
		b[r.Intn(len(b))] = randChar(r)
		return dLine(string(b))
	case 7: // insertion
		p := r.Intn(len(s) + 1)
		return dLine(s[:p] + string(randChar(r)) + s[p:])
	case 8: // deletion
		p := r.Intn(len(s))
		return dLine(s[:p] + s[p+1:])
	case 9: // leading '1's (zero digits) / trailing garbage
		if r.Bool() {
			return dLine(strings.Repeat("1", 1+r.Intn(3)) + s)
		}
		return dLine(s + string(randChar(r)))
	case 10: // wrong version byte, correct checksum for that payload
		v := byte(r.Intn(256))
		return dLine(b58enc(payload(v, a[:], true, r)))
	case 11: // right version, wrong checksum
		return dLine(b58enc(payload(23, a[:], false, r)))
	case 12: // 24/26/… byte payloads with version 23 and a proper checksum
		n := []int{0, 1, 19, 21, 22, 32}[r.Intn(6)]
		return dLine(b58enc(payload(23, r.Bytes(n), true, r)))
	case 13: // random alphabet string
		n := r.Intn(50)
		b := make([]byte, n)
		for j := range b {
			b[j] = alphabet[r.Intn(58)]
		}
		return dLine(string(b))
	case 14: // random bytes
		return dLine(string(r.Bytes(r.Intn(40))))
	case 15: // around the length cap: the valid string padded with zero digits
		if r.Chance(10) {
			n := 2046 + r.Intn(4)
			return dLine(strings.Repeat("1", n-len(s)) + s)
		}
		return dLine(strings.Repeat("1", r.Intn(40)))
	case 16, 17:
		return "X " + hx.Hex(a[:])
	default:
		h := []byte(a.ToHexString())
		switch r.Intn(6) {
		case 0:
			h = bytes.ToUpper(h)
		case 1:
			h[r.Intn(len(h))] = randChar(r)
		case 2:
			h = h[:r.Intn(len(h)+1)]
		case 3:
			h = append(h, "0123456789abcdefABCDEFgG"[r.Intn(24)])
			if r.Bool() {
				h = append(h, "0123456789abcdefABCDEFgG"[r.Intn(24)])
			}
		case 4:
			for j := range h {
				if r.Bool() {
					h[j] = bytes.ToUpper(h[j : j+1])[0]
				}
			}
		}
		return "Y " + hx.Hex(h)
	}
}

func errKind(err error) string {
	m := err.Error()
	switch {
	case m == "invalid address":
		return "err:invalid"
	case strings.HasPrefix(m, "invalid character"):
		return "err:char"
	case m == "wrong encoded address":
		return "err:shape"
	case strings.Contains(m, "len != 20"):
		return "err:len"
	case strings.Contains(m, "verify failed"):
		return "err:verify"
	case strings.HasPrefix(m, "encoding/hex"):
		return "err:hex"
	}
	return "err:other"
}

func ascii(s string) string {
	if s == "" {
		return "-"
	}
	return s
}

func exec(line string) hx.Result {
	f := strings.Fields(line)
	if len(f) < 2 {
		return hx.Result{Out: "bad-op"}
	}
	switch f[0] {
	case "E":
		var a common.Address
		copy(a[:], hx.MustUnhex(f[1]))
		s := a.ToBase58()
		res := hx.Result{Out: ascii(s), Kind: "E", Key: line}
		back, err := common.AddressFromBase58(s)
		if err != nil {
			res.Fail, res.Class = "own encoding rejected: "+errKind(err), "base58-roundtrip-rejected"
		} else if back != a {
			res.Fail, res.Class = "own encoding decodes to another address", "base58-roundtrip-differs"
		}
		return res
	case "D":
		s := string(hx.MustUnhex(f[1]))
		a, err := common.AddressFromBase58(s)
		if err != nil {
			k := errKind(err)
			return hx.Result{Out: k, Kind: "D:" + k, Key: line}
		}
		res := hx.Result{Out: "ok " + hx.Hex(a[:]), Kind: "D:ok", Key: line}
		// exactness on the implementation's own output: an accepted string is the encoding of the result
		if enc := a.ToBase58(); enc != s {
			why := "other"
			x := b58num(s)
			switch {
			case len(s) > 2048:
				why = "overlong"
			case x != nil && len(x.Bytes()) == 25 && x.Bytes()[0] != 23:
				why = "version"
			case strings.TrimLeft(s, "1") == enc:
				why = "leading-zero-digits"
			case x != nil && len(x.Bytes()) == 25 && !bytes.Equal(x.Bytes()[21:], chk4(x.Bytes()[:21])):
				why = "checksum"
			}
			res.Fail, res.Class = "accepted string is not the encoding of the returned address ("+enc+")", "base58-accepts-noncanonical-"+why
		}
		return res
	case "X":
		var a common.Address
		copy(a[:], hx.MustUnhex(f[1]))
		s := a.ToHexString()
		res := hx.Result{Out: ascii(s), Kind: "X", Key: line}
		back, err := common.AddressFromHexString(s)
		if err != nil || back != a {
			res.Fail, res.Class = "hex round trip", "hex-roundtrip"
		}
		return res
	case "Y":
		s := string(hx.MustUnhex(f[1]))
		a, err := common.AddressFromHexString(s)
		if err != nil {
			k := errKind(err)
			return hx.Result{Out: k, Kind: "Y:" + k, Key: line}
		}
		res := hx.Result{Out: "ok " + hx.Hex(a[:]), Kind: "Y:ok", Key: line}
		if a.ToHexString() != strings.ToLower(s) {
			res.Fail, res.Class = "accepted hex string is not (a case variant of) the encoding of the result", "hex-accepts-noncanonical"
		}
		return res
	}
	return hx.Result{Out: "bad-op"}
}

// every constant a length is compared with, at c-1, c, c+1: payload 25 bytes, version 23, string 2048, hex 40 chars / 20 bytes
func thresholdCorpus() []string {
	r := hx.NewRand(4242)
	a := r.Bytes(20)
	var out []string
	for _, n := range []int{18, 19, 20, 21, 22} { // 1+n+4 = 23..27 byte payloads
		out = append(out, dLine(b58enc(payload(23, r.Bytes(n), true, r))))
	}
	for _, v := range []byte{0, 1, 22, 23, 24, 255} {
		out = append(out, dLine(b58enc(payload(v, a, true, r))))
	}
	var ad common.Address
	copy(ad[:], a)
	s := ad.ToBase58()
	for _, n := range []int{2047, 2048, 2049} {
		out = append(out, dLine(strings.Repeat("1", n-len(s))+s), dLine(strings.Repeat("2", n)), dLine(s+strings.Repeat("1", n-len(s))))
	}
	h := ad.ToHexString()
	for _, n := range []int{0, 1, 2, 38, 39, 40} {
		out = append(out, "Y "+hx.Hex([]byte(h[:n])))
	}
	out = append(out, "Y "+hx.Hex([]byte(h+"0")), "Y "+hx.Hex([]byte(h+"00")), "Y "+hx.Hex([]byte(h+"000")))
	return out
}

func main() {
	zero := common.Address{}
	z58 := zero.ToBase58()
	hx.Main(hx.Prop{
		ID: "C22",
		Rule: "addresses (random, zero, 0xff.., leading/trailing zero bytes) encoded by the real ToBase58; every kind of edit of the encoding " +
			"(substitution by alphabet / non-alphabet byte, insertion, deletion, leading '1's, trailing byte), payloads with wrong version, wrong checksum, " +
			"wrong length built with an independent base58 encoder, random alphabet strings, random bytes, strings at the 2048 cap; hex strings with case " +
			"changes, edits, truncation, extension. Non-trivial = distinct line; kinds = branch reached (ok / err kind)",
		Gen:  gen,
		Exec: exec,
		Corpus: append(thresholdCorpus(), []string{
			"D - -", dLine(z58), dLine("1" + z58), dLine(z58 + "1"), dLine(z58[1:]), dLine("1"), dLine("11"), dLine("0"), dLine("A"),
			dLine(strings.Repeat("1", 2048)), dLine(strings.Repeat("1", 2049)), dLine(strings.Repeat("z", 2048)), dLine(strings.Repeat("z", 2049)),
			dLine(strings.Repeat("1", 2048-len(z58)) + z58), dLine(strings.Repeat("1", 2049-len(z58)) + z58),
			"E " + hx.Hex(zero[:]) + " " + hx.Hex(chk4(append([]byte{23}, zero[:]...))),
			"X " + hx.Hex(zero[:]), "Y -", "Y " + hx.Hex([]byte("0")), "Y " + hx.Hex([]byte(strings.Repeat("AB", 20))),
			"Y " + hx.Hex([]byte(strings.Repeat("ab", 21))), "Y " + hx.Hex([]byte(strings.Repeat("ab", 19))), "Y " + hx.Hex([]byte(strings.Repeat("0x", 20))),
		}...),
		N: map[string]int{"quick": 20000, "thorough": 400000},
	})
}
