// C45 harness: histories of ONT ID native-contract invocations executed by the REAL contract of /repo
// (native.NativeService over a storage.CacheDB on a memory store, a stub ContextRef whose witness set is given per
// invocation), compared op by op with the Lean model (result + records of the target identity, read back from the
// contract storage and cross-checked with the contract's getters), and judged by the property's authorization
// statement (spec.go) evaluated on the implementation's own pre-states.
package main

import (
	"bytes"
	"encoding/hex"
	"encoding/json"
	"fmt"
	"math/big"
	"strconv"
	"strings"
	"sync"

	"github.com/ontio/ontology-crypto/keypair"
	"github.com/ontio/ontology/account"
	"github.com/ontio/ontology/common"
	"github.com/ontio/ontology/common/config"
	"github.com/ontio/ontology/common/log"
	cstates "github.com/ontio/ontology/core/states"
	"github.com/ontio/ontology/core/store/leveldbstore"
	"github.com/ontio/ontology/core/store/overlaydb"
	"github.com/ontio/ontology/core/types"
	"github.com/ontio/ontology/smartcontract/context"
	"github.com/ontio/ontology/smartcontract/event"
	"github.com/ontio/ontology/smartcontract/service/native"
	"github.com/ontio/ontology/smartcontract/service/native/ontid"
	"github.com/ontio/ontology/smartcontract/service/native/utils"
	"github.com/ontio/ontology/smartcontract/storage"
	"verif/harness/internal/hx"
)

// ---- tokens -------------------------------------------------------------------------------------------------

const nKeys = 12

var (
	tokOnce  sync.Once
	tokTable = map[string][]byte{}
	revTable = map[string]string{}
)

func setTok(t string, b []byte) {
	tokTable[t] = b
	revTable[string(b)] = t
}

func initTokens() {
	tokOnce.Do(func() {
		log.InitLog(log.ErrorLog) // the contract logs at debug level
		ontid.Init()
		for i := 0; i < 4; i++ {
			id, err := account.CreateID([]byte(fmt.Sprintf("c45-identity-%d", i)))
			if err != nil || !account.VerifyID(id) {
				panic("cannot create id")
			}
			setTok(fmt.Sprintf("i%d", i), []byte(id))
		}
		for i := 0; i < 2; i++ {
			id := fmt.Sprintf("did:ont:NotAValidOntIdentifier%d", i)
			if account.VerifyID(id) {
				panic("x token is a valid id")
			}
			setTok(fmt.Sprintf("x%d", i), []byte(id))
		}
		setTok("L0", []byte("did:ont:"+strings.Repeat("A", 250)))
		for i := 0; i < nKeys; i++ {
			var pub keypair.PublicKey
			var err error
			switch i {
			case 10:
				_, pub, err = keypair.GenerateKeyPair(keypair.PK_EDDSA, keypair.ED25519)
			case 11:
				_, pub, err = keypair.GenerateKeyPair(keypair.PK_SM2, keypair.SM2P256V1)
			default:
				_, pub, err = keypair.GenerateKeyPair(keypair.PK_ECDSA, keypair.P256)
			}
			if err != nil {
				panic(err)
			}
			setTok(fmt.Sprintf("k%d", i), keypair.SerializePublicKey(pub))
			a := types.AddressFromPubKey(pub)
			setTok(fmt.Sprintf("a%d", i), a[:])
		}
		for i := nKeys; i < nKeys+3; i++ {
			a := make([]byte, 20)
			copy(a, fmt.Sprintf("c45-plain-address-%02d", i))
			setTok(fmt.Sprintf("a%d", i), a)
		}
		setTok("b0", []byte("invalid public key"))
		setTok("q0", []byte{1, 2, 3, 4, 5})
		setTok("d0", []byte("https://www.w3.org/ns/did/v1"))
		setTok("d1", []byte("https://ontid.ont.io/did/v1"))
	})
}

func tokToBytes(t string) []byte {
	if t == "e" {
		return []byte{}
	}
	if b, ok := tokTable[t]; ok {
		return b
	}
	return []byte(t)
}

func bytesToTok(b []byte) string {
	if len(b) == 0 {
		return "e"
	}
	if t, ok := revTable[string(b)]; ok {
		return t
	}
	for _, c := range b {
		if !isAlnum(c) {
			return "?" + hex.EncodeToString(b)
		}
	}
	return string(b)
}

// ---- argument encoding ----------------------------------------------------------------------------------------

func serializeGrp(g *grp) []byte {
	sink := common.NewZeroCopySink(nil)
	utils.EncodeVarUint(sink, uint64(len(g.ms)))
	for _, m := range g.ms {
		if m.isLeaf() {
			sink.WriteVarBytes(tokToBytes(m.leaf))
		} else {
			sink.WriteVarBytes(serializeGrp(m))
		}
	}
	utils.EncodeVarUint(sink, g.thr)
	return sink.Bytes()
}

var malformedBlob = []byte{0xff}
var neitherBlob = []byte{0x05, 0xff}

func serializeSigners(l []signer) []byte {
	sink := common.NewZeroCopySink(nil)
	utils.EncodeVarUint(sink, uint64(len(l)))
	for _, s := range l {
		sink.WriteVarBytes(tokToBytes(s.id))
		utils.EncodeVarUint(sink, s.idx)
	}
	return sink.Bytes()
}

// decodeSigners: the harness's own reading of a blob as a signer list (format of group.go:SerializeSigners)
func decodeSigners(blob []byte) ([]signer, bool) {
	src := common.NewZeroCopySource(blob)
	n, err := utils.DecodeVarUint(src)
	if err != nil {
		return nil, false
	}
	var l []signer
	for i := uint64(0); i < n; i++ {
		id, err := utils.DecodeVarBytes(src)
		if err != nil {
			return nil, false
		}
		idx, err := utils.DecodeVarUint(src)
		if err != nil {
			return nil, false
		}
		l = append(l, signer{bytesToTok(id), idx})
	}
	return l, true
}

func signersText(l []signer) string {
	var p []string
	for _, s := range l {
		p = append(p, fmt.Sprintf("%s.%d", s.id, s.idx))
	}
	return "S" + strings.Join(p, "+")
}

// proofBlob: the bytes of the primary reading; canonProof: primary + the other decoder's reading of the same bytes
func proofBlob(prim string) ([]byte, bool) {
	p := &proofT{}
	if !parsePR(prim, p, true) {
		return nil, false
	}
	switch {
	case prim == "N":
		return neitherBlob, true
	case p.hasIdx:
		return common.BigIntToNeoBytes(new(big.Int).SetUint64(p.idx)), true
	default:
		return serializeSigners(p.sig), true
	}
}

func canonProof(prim string) string {
	blob, ok := proofBlob(prim)
	if !ok {
		return prim
	}
	switch {
	case prim == "N":
		return prim
	case strings.HasPrefix(prim, "I"):
		if l, ok := decodeSigners(blob); ok {
			return prim + "~" + signersText(l)
		}
	default:
		v := common.BigIntFromNeoBytes(blob)
		if v.Sign() >= 0 && v.IsUint64() {
			return prim + "~I" + v.String()
		}
	}
	return prim
}

func encodeArgs(o *opT) ([]byte, bool) {
	sink := common.NewZeroCopySink(nil)
	for i, kind := range o.m.args {
		a := o.args[i]
		switch kind {
		case "id", "pk", "opk", "addr", "path", "sid", "kcreq":
			sink.WriteVarBytes(tokToBytes(a))
		case "idx", "kidx":
			n, err := strconv.ParseUint(a, 10, 64)
			if err != nil {
				return nil, false
			}
			utils.EncodeVarUint(sink, n)
		case "proof":
			prim := strings.Split(a, "~")[0]
			if canonProof(prim) != a {
				return nil, false // the line misstates how the other decoder reads these bytes
			}
			blob, ok := proofBlob(prim)
			if !ok {
				return nil, false
			}
			sink.WriteVarBytes(blob)
		case "kc":
			if a != "-" {
				sink.WriteVarBytes(tokToBytes(a))
			}
		case "attrs":
			l := parsePairs(a)
			utils.EncodeVarUint(sink, uint64(len(l)))
			for _, e := range l {
				sink.WriteVarBytes(tokToBytes(e[0]))
				sink.WriteVarBytes([]byte("t"))
				sink.WriteVarBytes(tokToBytes(e[1]))
			}
		case "pl":
			sink.WriteVarBytes(tokToBytes(a))
			sink.WriteVarBytes([]byte("ep"))
		case "ctxs":
			l := parseList(a)
			utils.EncodeVarUint(sink, uint64(len(l)))
			for _, c := range l {
				sink.WriteVarBytes(tokToBytes(c))
			}
		case "grp":
			g, ok := parseGrp(a)
			if !ok {
				return nil, false
			}
			if g == nil {
				sink.WriteVarBytes(malformedBlob)
			} else {
				sink.WriteVarBytes(serializeGrp(g))
			}
		case "ctrl":
			if a == "M" {
				sink.WriteVarBytes(malformedBlob)
			} else if strings.HasPrefix(a, "G") {
				g, ok := parseGrp(a)
				if !ok || g == nil {
					return nil, false
				}
				sink.WriteVarBytes(serializeGrp(g))
			} else {
				sink.WriteVarBytes(tokToBytes(a))
			}
		default:
			return nil, false
		}
	}
	return sink.Bytes(), true
}

// ---- running the contract --------------------------------------------------------------------------------------

type ctxRef struct {
	wit   map[common.Address]bool
	stack []*context.Context
}

func (c *ctxRef) PushContext(x *context.Context) { c.stack = append(c.stack, x) }
func (c *ctxRef) CurrentContext() *context.Context {
	if len(c.stack) == 0 {
		return nil
	}
	return c.stack[len(c.stack)-1]
}
func (c *ctxRef) CallingContext() *context.Context { return nil }
func (c *ctxRef) EntryContext() *context.Context   { return nil }
func (c *ctxRef) PopContext() {
	if len(c.stack) > 0 {
		c.stack = c.stack[:len(c.stack)-1]
	}
}
func (c *ctxRef) CheckWitness(a common.Address) bool         { return c.wit[a] }
func (c *ctxRef) PushNotifications([]*event.NotifyEventInfo) {}
func (c *ctxRef) CheckUseGas(uint64) bool                    { return true }
func (c *ctxRef) GetGasInfo() (uint64, uint64)               { return 1 << 40, 0 }
func (c *ctxRef) CheckExecStep() bool                        { return true }
func (c *ctxRef) GetCallerAddress() []common.Address         { return nil }
func (c *ctxRef) SetInternalErr()                            {}
func (c *ctxRef) IsInternalErr() bool                        { return false }
func (c *ctxRef) PutCrossStateHashes([]common.Uint256)       {}
func (c *ctxRef) NewExecuteEngine([]byte, types.TransactionType) (context.Engine, error) {
	return nil, fmt.Errorf("no engine")
}

type chain struct {
	cache *storage.CacheDB
	seq   uint32
}

// one empty memory store for the whole process; every line gets its own overlay (never committed down)
var baseStore = leveldbstore.NewMemLevelDBStore()

func newChain() *chain {
	return &chain{cache: storage.NewCacheDB(overlaydb.NewOverlayDB(baseStore))}
}

func heightOf(old bool) uint32 {
	h := config.GetNewOntIdHeight()
	if old {
		if h == 0 {
			return 0
		}
		return h - 1
	}
	return h + 1000
}

// call runs one native invocation; a Go panic inside the contract is the observation "panic" (a predicate failure)
func (c *chain) call(method string, args []byte, wit []string, old bool) (res string, out []byte) {
	defer func() {
		if e := recover(); e != nil {
			res, out = "panic", nil
		}
	}()
	c.seq++
	ws := map[common.Address]bool{}
	for _, a := range wit {
		if addr, err := common.AddressParseFromBytes(tokToBytes(a)); err == nil {
			ws[addr] = true
		}
	}
	srv := &native.NativeService{
		CacheDB:    c.cache,
		ServiceMap: map[string]native.Handler{},
		Tx:         &types.Transaction{},
		Height:     heightOf(old),
		Time:       1600000000 + c.seq,
		ContextRef: &ctxRef{wit: ws},
	}
	o, err := srv.NativeCall(utils.OntIDContractAddress, method, args)
	if err != nil {
		return "fail", o
	}
	return "ok", o
}

// ---- reading the records back ----------------------------------------------------------------------------------

func encID(id []byte) []byte {
	enc := append([]byte{}, utils.OntIDContractAddress[:]...)
	enc = append(enc, byte(len(id)))
	return append(enc, id...)
}

func decodeGrpBytes(b []byte, depth int) (*grp, bool) {
	if depth > 12 {
		return nil, false
	}
	src := common.NewZeroCopySource(b)
	n, err := utils.DecodeVarUint(src)
	if err != nil {
		return nil, false
	}
	g := &grp{ms: []*grp{}}
	for i := uint64(0); i < n; i++ {
		m, err := utils.DecodeVarBytes(src)
		if err != nil {
			return nil, false
		}
		if len(m) > 8 && bytes.Equal(m[:8], []byte("did:ont:")) {
			g.ms = append(g.ms, &grp{leaf: bytesToTok(m)})
		} else {
			s, ok := decodeGrpBytes(m, depth+1)
			if !ok {
				return nil, false
			}
			g.ms = append(g.ms, s)
		}
	}
	t, err := utils.DecodeVarUint(src)
	if err != nil {
		return nil, false
	}
	g.thr = t
	return g, true
}

func field(enc []byte, f byte) []byte { return append(append([]byte{}, enc...), f) }

func (c *chain) observe(idTok string) *ident {
	x := newIdent()
	id := tokToBytes(idTok)
	if len(id) == 0 || len(id) > 255 {
		return x
	}
	enc := encID(id)
	if raw, err := c.cache.Get(enc); err == nil && raw != nil {
		v, err := cstates.GetValueFromRawStorageItem(raw)
		switch {
		case err != nil || len(v) == 0:
			x.garbled = "flag"
		case v[0] == 1:
			x.status = 'V'
		case v[0] == 2:
			x.status = 'R'
		case v[0] != 0:
			x.garbled = "flag"
		}
	}
	// keys
	if item, err := utils.GetStorageItem(c.cache, field(enc, 1)); err != nil {
		x.garbled = "pk"
	} else if item != nil {
		src := common.NewZeroCopySource(item.Value)
		for src.Len() > 0 {
			k := keyS{ctrl: idTok, pkList: true, auth: true}
			kb, e1 := utils.DecodeVarBytes(src)
			rv, e2 := utils.DecodeBool(src)
			if e1 != nil || e2 != nil {
				x.garbled = "pk"
				break
			}
			k.tok, k.revoked = bytesToTok(kb), rv
			if item.StateVersion == 1 {
				cb, e3 := utils.DecodeVarBytes(src)
				pl, e4 := utils.DecodeBool(src)
				au, e5 := utils.DecodeBool(src)
				if e3 != nil || e4 != nil || e5 != nil {
					x.garbled = "pk"
					break
				}
				k.ctrl, k.pkList, k.auth = bytesToTok(cb), pl, au
			} else if item.StateVersion != 0 {
				x.garbled = "pk-version"
				break
			}
			x.keys = append(x.keys, k)
		}
	}
	// controller
	if item, err := utils.GetStorageItem(c.cache, field(enc, 4)); err != nil {
		x.garbled = "controller"
	} else if item != nil {
		if t := bytesToTok(item.Value); validID(t) {
			x.ctrlID = t
		} else if g, ok := decodeGrpBytes(item.Value, 0); ok {
			x.ctrlG = g
		} else {
			x.garbled = "controller"
		}
	}
	// recovery
	if item, err := utils.GetStorageItem(c.cache, field(enc, 3)); err != nil {
		x.garbled = "recovery"
	} else if item != nil {
		switch item.StateVersion {
		case 0:
			x.recKind, x.recAddr = recOld, bytesToTok(item.Value)
		case 1:
			if g, ok := decodeGrpBytes(item.Value, 0); ok {
				x.recKind, x.recG = recGrp, g
			} else {
				x.garbled = "recovery"
			}
		default:
			x.garbled = "recovery-version"
		}
	}
	// attributes: the linked list under FIELD_ATTR
	idx := field(enc, 2)
	if raw, err := c.cache.Get(idx); err == nil && raw != nil {
		head, err := cstates.GetValueFromRawStorageItem(raw)
		if err != nil {
			x.garbled = "attr-head"
		}
		cur := head
		for n := 0; len(cur) > 0 && x.garbled == ""; n++ {
			nraw, err := c.cache.Get(append(append([]byte{}, idx...), cur...))
			if err != nil || nraw == nil || n > 1000 {
				x.garbled = "attr-node"
				break
			}
			nv, err := cstates.GetValueFromRawStorageItem(nraw)
			if err != nil {
				x.garbled = "attr-node"
				break
			}
			src := common.NewZeroCopySource(nv)
			next, e1 := utils.DecodeVarBytes(src)
			_, e2 := utils.DecodeVarBytes(src)
			payload, e3 := utils.DecodeVarBytes(src)
			if e1 != nil || e2 != nil || e3 != nil {
				x.garbled = "attr-node"
				break
			}
			ps := common.NewZeroCopySource(payload)
			val, e4 := utils.DecodeVarBytes(ps)
			if e4 != nil {
				x.garbled = "attr-payload"
				break
			}
			x.attrs = append(x.attrs, [2]string{bytesToTok(cur), bytesToTok(val)})
			cur = next
		}
	}
	// services
	if item, err := utils.GetStorageItem(c.cache, field(enc, 5)); err != nil {
		x.garbled = "service"
	} else if item != nil {
		src := common.NewZeroCopySource(item.Value)
		n, err := utils.DecodeVarUint(src)
		if err != nil {
			x.garbled = "service"
		}
		for i := uint64(0); i < n && x.garbled == ""; i++ {
			sid, e1 := utils.DecodeVarBytes(src)
			ty, e2 := utils.DecodeVarBytes(src)
			_, e3 := utils.DecodeVarBytes(src)
			if e1 != nil || e2 != nil || e3 != nil {
				x.garbled = "service"
				break
			}
			x.svcs = append(x.svcs, [2]string{bytesToTok(sid), bytesToTok(ty)})
		}
	}
	// contexts
	if item, err := utils.GetStorageItem(c.cache, field(enc, 9)); err != nil {
		x.garbled = "context"
	} else if item != nil {
		src := common.NewZeroCopySource(item.Value)
		n, err := utils.DecodeVarUint(src)
		if err != nil {
			x.garbled = "context"
		}
		for i := uint64(0); i < n && x.garbled == ""; i++ {
			cb, e1 := utils.DecodeVarBytes(src)
			if e1 != nil {
				x.garbled = "context"
				break
			}
			x.ctxs = append(x.ctxs, bytesToTok(cb))
		}
	}
	return x
}

// gettersAgree cross-checks the decoded key list with the contract's own getters (getKeyState, getDocumentJson)
func (c *chain) gettersAgree(idTok string, x *ident, old bool) string {
	if x.status != 'V' || x.garbled != "" {
		return ""
	}
	for i, k := range x.keys {
		sink := common.NewZeroCopySink(nil)
		sink.WriteVarBytes(tokToBytes(idTok))
		utils.EncodeVarUint(sink, uint64(i+1))
		res, out := c.call("getKeyState", sink.Bytes(), nil, old)
		want := "in use"
		if k.revoked {
			want = "revoked"
		}
		if res != "ok" || string(out) != want {
			return fmt.Sprintf("getKeyState(%s,%d)=%s/%q, storage says %q", idTok, i+1, res, out, want)
		}
	}
	if old {
		return ""
	}
	sink := common.NewZeroCopySink(nil)
	sink.WriteVarBytes(tokToBytes(idTok))
	res, out := c.call("getDocumentJson", sink.Bytes(), nil, false)
	if res != "ok" {
		return "getDocumentJson " + res
	}
	var doc struct {
		PublicKey      []struct{ Id string } `json:"publicKey"`
		Authentication []interface{}         `json:"authentication"`
	}
	if err := json.Unmarshal(out, &doc); err != nil {
		return "getDocumentJson: " + err.Error()
	}
	num := func(s string) int {
		p := strings.LastIndex(s, "#keys-")
		if p < 0 {
			return -1
		}
		n, _ := strconv.Atoi(s[p+6:])
		return n
	}
	var pkWant, pkGot, auWant, auGot []int
	for i, k := range x.keys {
		if !k.revoked {
			pkWant = append(pkWant, i+1)
			if k.auth {
				auWant = append(auWant, i+1)
			}
		}
	}
	for _, p := range doc.PublicKey {
		pkGot = append(pkGot, num(p.Id))
	}
	for _, a := range doc.Authentication {
		switch t := a.(type) {
		case string:
			auGot = append(auGot, num(t))
		case map[string]interface{}:
			s, _ := t["id"].(string)
			auGot = append(auGot, num(s))
		}
	}
	if fmt.Sprint(pkWant) != fmt.Sprint(pkGot) || fmt.Sprint(auWant) != fmt.Sprint(auGot) {
		return fmt.Sprintf("getDocumentJson(%s): publicKey %v authentication %v, storage says %v / %v", idTok, pkGot, auGot, pkWant, auWant)
	}
	return ""
}

// ---- one line --------------------------------------------------------------------------------------------------

var watched = []string{"i0", "i1", "i2", "i3", "x0"}

func exec(line string) hx.Result {
	initTokens()
	f := strings.Fields(line)
	if len(f) != 2 || f[0] != "H" {
		return hx.Result{Out: "bad-op"}
	}
	opsS := strings.Split(f[1], ";")
	c := newChain()
	w := world{}
	for _, t := range append(append([]string{}, watched...), "x1") {
		w[t] = newIdent()
	}
	res := hx.Result{}
	var outs []string
	pick := 0
	for _, ch := range []byte(line) {
		pick += int(ch)
	}
	pick %= len(opsS)
	anyOK := false
	fail := func(class, msg string) {
		if res.Fail == "" {
			res.Fail, res.Class = msg, class
		}
	}
	for n, s := range opsS {
		o, ok := parseOpLine(s)
		if !ok {
			return hx.Result{Out: "bad-op"}
		}
		args, ok := encodeArgs(o)
		if !ok {
			return hx.Result{Out: "bad-op"}
		}
		id := o.args[0]
		if _, known := w[id]; !known {
			w[id] = c.observe(id)
		}
		pre := w[id]
		preDigest := pre.digest()
		sc := newCtx(w, o.wit)
		stOK := sc.statusOK(o)
		why := sc.authorized(o)
		r, _ := c.call(o.m.name, args, o.wit, o.old)
		detail := r
		switch r {
		case "ok":
			c.cache.Commit()
			post := c.observe(id)
			w[id] = post
			outs = append(outs, "ok="+post.digest())
			mutating := o.m.eff != "nop"
			if mutating {
				anyOK = true
			}
			if post.garbled != "" {
				fail("garbled-record-"+post.garbled, "after "+s+": record "+post.garbled+" of "+id+" cannot be decoded")
			}
			if mutating && !stOK {
				switch {
				case pre.status == 'R':
					fail("revoked-id-"+o.m.name, fmt.Sprintf("%s succeeded on revoked identity %s (op %d)", o.m.name, id, n))
				case o.m.reg:
					fail("registered-over-existing-"+o.m.name, fmt.Sprintf("%s succeeded on identity %s in state %c (op %d)", o.m.name, id, pre.status, n))
				default:
					fail("unregistered-id-"+o.m.name, fmt.Sprintf("%s succeeded on identity %s in state %c (op %d)", o.m.name, id, pre.status, n))
				}
			}
			if why != "" && (mutating || o.m.name == "verifyController" || o.m.name == "verifySignature") {
				fail("unauth-"+o.m.name+"-"+why, fmt.Sprintf("%s on %s succeeded without authorization: %s (op %d, witnesses %v)", o.m.name, id, why, n, o.wit))
			}
			if g := c.gettersAgree(id, post, o.old); g != "" {
				fail("getter-mismatch-"+o.m.name, g)
			}
			if o.m.auth == "ctrl" {
				if pre.ctrlG != nil {
					detail += "-group"
				} else {
					detail += "-single"
				}
			}
			if (o.m.auth == "ownerLenient" || o.m.auth == "ownerStrict") && pre.recKind == recOld && pre.recAddr == o.arg("opk", 0) {
				detail += "-oldrec"
			}
		default:
			c.cache.Reset()
			outs = append(outs, r)
			switch {
			case r == "panic":
				fail("panic-"+o.m.name, fmt.Sprintf("Go panic inside %s on %s (op %d): a contract invocation must fail with an error, not panic", o.m.name, id, n))
			case o.m.newOnly && o.old:
				detail = "fail-gated"
			case !stOK:
				detail = "fail-status-" + string(pre.status)
			case why != "":
				detail = "fail-auth"
			default:
				detail = "fail-effect"
			}
		}
		if pre.status == 'R' {
			if d := w[id].digest(); d != preDigest {
				fail("revoked-id-changed", fmt.Sprintf("records of revoked identity %s changed by %s: %s -> %s", id, o.m.name, preDigest, d))
			}
		}
		if n == pick {
			res.Kind = o.m.name + ":" + detail
		}
		if r == "panic" {
			res.Kind = o.m.name + ":panic" // always visible in the histogram
		}
	}
	var fin []string
	for _, t := range watched {
		fin = append(fin, t+"="+c.observe(t).digest())
	}
	res.Out = strings.Join(outs, " ") + " # " + strings.Join(fin, " ")
	if anyOK {
		res.Key = line
	}
	return res
}

func main() {
	hx.Main(hx.Prop{
		ID: "C45",
		Rule: "histories of 4-18 invocations of the 42 ONT ID methods over 4 identities, 12 keys, single/group controllers, recovery groups and deprecated recovery addresses; " +
			"the generator aims each op with a shadow state (about 70% authorized, the rest perturbed: revoked / non-authentication / missing key index, missing witness, unmet threshold, wrong proof type, uint32-wrapping indexes, ops on revoked or unregistered identities, methods below the fork height). " +
			"Non-trivial = a line on which at least one mutating invocation succeeded; kinds = method:outcome of one pseudo-randomly chosen op per line (and every panic)",
		Gen:     gen,
		Exec:    exec,
		Corpus:  corpus,
		N:       map[string]int{"quick": 3000, "thorough": 60000},
		Isolate: true,
		Init:    initTokens,
	})
}
