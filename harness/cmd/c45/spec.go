// C45 harness, part 1: the token-level data types, the method table, and the property's authorization statement
// written as an independent specification (it never calls code of /repo). The same evaluation is used as the
// predicate on the implementation's observed states and, in the generator, on a shadow state to aim operations.
package main

import (
	"fmt"
	"strconv"
	"strings"
)

type keyS struct {
	tok             string
	revoked, pkList bool
	auth            bool
	ctrl            string
}

// grp is a group tree: a leaf is an identity token
type grp struct {
	leaf string
	ms   []*grp
	thr  uint64
}

func (g *grp) isLeaf() bool { return g.ms == nil && g.leaf != "" }

func (g *grp) String() string {
	if g.isLeaf() {
		return g.leaf
	}
	var p []string
	for _, m := range g.ms {
		p = append(p, m.String())
	}
	return fmt.Sprintf("G%d(%s)", g.thr, strings.Join(p, ","))
}

// recovery kinds
const (
	recNone = 0
	recOld  = 1
	recGrp  = 2
)

type ident struct {
	status  byte // 'A' absent, 'V' valid, 'R' revoked
	keys    []keyS
	ctrlID  string // single controller
	ctrlG   *grp   // group controller
	recKind int
	recAddr string
	recG    *grp
	attrs   [][2]string
	svcs    [][2]string
	ctxs    []string
	garbled string // non-empty: a record could not be decoded (printed instead of the digest)
}

func newIdent() *ident { return &ident{status: 'A'} }

func listStr(sep string, l []string) string {
	if len(l) == 0 {
		return "-"
	}
	return strings.Join(l, sep)
}

func b01(b bool) string {
	if b {
		return "1"
	}
	return "0"
}

func (x *ident) digest() string {
	if x.garbled != "" {
		return "GARBLED(" + x.garbled + ")"
	}
	var ks []string
	for _, k := range x.keys {
		ks = append(ks, k.tok+"."+b01(k.revoked)+"."+b01(k.pkList)+"."+b01(k.auth)+"."+k.ctrl)
	}
	c := "-"
	if x.ctrlID != "" {
		c = x.ctrlID
	} else if x.ctrlG != nil {
		c = x.ctrlG.String()
	}
	r := "-"
	switch x.recKind {
	case recOld:
		r = "o." + x.recAddr
	case recGrp:
		r = x.recG.String()
	}
	pairs := func(l [][2]string) string {
		var p []string
		for _, e := range l {
			p = append(p, e[0]+"="+e[1])
		}
		return listStr("+", p)
	}
	return strings.Join([]string{string(x.status), listStr(",", ks), c, r, pairs(x.attrs), pairs(x.svcs), listStr("+", x.ctxs)}, "/")
}

type world map[string]*ident

func (w world) get(id string) *ident {
	if x, ok := w[id]; ok {
		return x
	}
	return newIdent()
}

// ---- operations ---------------------------------------------------------------------------------------------

type mdef struct {
	name    string
	newOnly bool
	reg     bool
	args    []string // id pk opk addr path sid pl kcreq | idx kidx | proof | kc | attrs | ctxs | grp | ctrl
	auth    string   // keyIdx keyIdxNoAuth ownerNever ownerLenient ownerStrict ctrl rec oldRec regPk regCtrl deny
	eff     string
}

var methods = []mdef{
	{"regIDWithPublicKey", false, true, []string{"id", "pk"}, "regPk", "regKey"},
	{"regIDWithController", false, true, []string{"id", "ctrl", "proof"}, "regCtrl", "regCtrl"},
	{"regIDWithAttributes", false, true, []string{"id", "pk", "attrs"}, "regPk", "regKeyAttrs"},
	{"revokeID", false, false, []string{"id", "idx"}, "keyIdx", "deleteID"},
	{"revokeIDByController", false, false, []string{"id", "proof"}, "ctrl", "deleteID"},
	{"removeController", false, false, []string{"id", "idx"}, "keyIdx", "clearCtrl"},
	{"addRecovery", false, false, []string{"id", "addr", "opk"}, "ownerNever", "setRecOldGuard"},
	{"changeRecovery", false, false, []string{"id", "addr", "addr"}, "oldRec", "setRecOld"},
	{"setRecovery", false, false, []string{"id", "grp", "idx"}, "keyIdx", "setRecGrpGuard"},
	{"updateRecovery", false, false, []string{"id", "grp", "proof"}, "rec", "setRecGrp"},
	{"removeRecovery", true, false, []string{"id", "idx"}, "keyIdx", "clearRec"},
	{"addKey", false, false, []string{"id", "pk", "opk", "kc"}, "ownerLenient", "insertKey"},
	{"removeKey", false, false, []string{"id", "pk", "opk"}, "ownerStrict", "revokeKey"},
	{"addKeyByIndex", true, false, []string{"id", "pk", "idx", "kc"}, "keyIdx", "insertKey"},
	{"removeKeyByIndex", true, false, []string{"id", "pk", "idx"}, "keyIdx", "revokeKey"},
	{"addKeyByController", false, false, []string{"id", "pk", "proof", "kc"}, "ctrl", "insertKey"},
	{"removeKeyByController", false, false, []string{"id", "kidx", "proof"}, "ctrl", "revokeKeyIdx"},
	{"addKeyByRecovery", false, false, []string{"id", "pk", "proof", "kc"}, "rec", "insertKey"},
	{"removeKeyByRecovery", false, false, []string{"id", "kidx", "proof"}, "rec", "revokeKeyIdx"},
	{"addAttributes", false, false, []string{"id", "attrs", "opk"}, "ownerNever", "insertAttrs"},
	{"removeAttribute", false, false, []string{"id", "path", "opk"}, "ownerNever", "deleteAttr"},
	{"addAttributesByIndex", true, false, []string{"id", "attrs", "idx"}, "keyIdx", "insertAttrs"},
	{"removeAttributeByIndex", true, false, []string{"id", "path", "idx"}, "keyIdx", "deleteAttr"},
	{"addAttributesByController", false, false, []string{"id", "attrs", "proof"}, "ctrl", "insertAttrs"},
	{"removeAttributeByController", false, false, []string{"id", "path", "proof"}, "ctrl", "deleteAttr"},
	{"addNewAuthKey", true, false, []string{"id", "pk", "kcreq", "idx"}, "keyIdx", "insertAuthKey"},
	{"addNewAuthKeyByRecovery", true, false, []string{"id", "pk", "kcreq", "proof"}, "rec", "insertAuthKey"},
	{"addNewAuthKeyByController", true, false, []string{"id", "pk", "kcreq", "proof"}, "ctrl", "insertAuthKey"},
	{"setAuthKey", true, false, []string{"id", "kidx", "idx"}, "keyIdx", "setAuth1"},
	{"setAuthKeyByRecovery", true, false, []string{"id", "kidx", "proof"}, "rec", "setAuth1"},
	{"setAuthKeyByController", true, false, []string{"id", "kidx", "proof"}, "ctrl", "setAuth1"},
	{"removeAuthKey", true, false, []string{"id", "kidx", "idx"}, "keyIdx", "setAuth0"},
	{"removeAuthKeyByRecovery", true, false, []string{"id", "kidx", "proof"}, "rec", "setAuth0"},
	{"removeAuthKeyByController", true, false, []string{"id", "kidx", "proof"}, "ctrl", "setAuth0"},
	{"addService", true, false, []string{"id", "sid", "pl", "idx"}, "keyIdx", "addSvc"},
	{"updateService", true, false, []string{"id", "sid", "pl", "idx"}, "keyIdx", "updSvc"},
	{"removeService", true, false, []string{"id", "sid", "idx"}, "keyIdx", "rmSvc"},
	{"addContext", true, false, []string{"id", "ctxs", "idx"}, "keyIdx", "addCtx"},
	{"removeContext", true, false, []string{"id", "ctxs", "idx"}, "keyIdx", "rmCtx"},
	{"addProof", true, false, []string{"id"}, "deny", "nop"},
	{"verifySignature", false, false, []string{"id", "idx"}, "keyIdxNoAuth", "nop"},
	{"verifyController", false, false, []string{"id", "proof"}, "ctrl", "nop"},
}

var methodByName = func() map[string]*mdef {
	m := map[string]*mdef{}
	for i := range methods {
		m[methods[i].name] = &methods[i]
	}
	return m
}()

type opT struct {
	old  bool
	wit  []string
	m    *mdef
	args []string
}

func (o *opT) String() string {
	s := ""
	if o.old {
		s = "!"
	}
	return s + listStr("+", o.wit) + ":" + o.m.name + ":" + strings.Join(o.args, ":")
}

func parseOpLine(s string) (*opT, bool) {
	o := &opT{}
	if strings.HasPrefix(s, "!") {
		o.old = true
		s = s[1:]
	}
	f := strings.Split(s, ":")
	if len(f) < 2 {
		return nil, false
	}
	if f[0] != "-" {
		o.wit = strings.Split(f[0], "+")
	}
	m, ok := methodByName[f[1]]
	if !ok || len(f)-2 != len(m.args) {
		return nil, false
	}
	o.m = m
	o.args = f[2:]
	return o, true
}

// arg returns the n-th argument of the given kind (0-based among that kind)
func (o *opT) arg(kind string, n int) string {
	for i, k := range o.m.args {
		if k == kind {
			if n == 0 {
				return o.args[i]
			}
			n--
		}
	}
	return ""
}

type signer struct {
	id  string
	idx uint64
}

type proofT struct {
	hasIdx bool
	idx    uint64
	hasSig bool
	sig    []signer
}

func parsePR(s string, p *proofT, primary bool) bool {
	switch {
	case s == "N":
		return true
	case strings.HasPrefix(s, "I"):
		n, err := strconv.ParseUint(s[1:], 10, 64)
		if err != nil {
			return false
		}
		if !p.hasIdx {
			p.hasIdx, p.idx = true, n
		}
		return true
	case strings.HasPrefix(s, "S"):
		var l []signer
		if len(s) > 1 {
			for _, e := range strings.Split(s[1:], "+") {
				q := strings.Split(e, ".")
				if len(q) != 2 {
					return false
				}
				n, err := strconv.ParseUint(q[1], 10, 64)
				if err != nil {
					return false
				}
				l = append(l, signer{q[0], n})
			}
		}
		if !p.hasSig {
			p.hasSig, p.sig = true, l
		}
		return true
	}
	return false
}

func parseProof(s string) (*proofT, bool) {
	p := &proofT{}
	parts := strings.Split(s, "~")
	if len(parts) > 2 {
		return nil, false
	}
	for i, q := range parts {
		if !parsePR(q, p, i == 0) {
			return nil, false
		}
	}
	return p, true
}

// parseGrp parses G<thr>(m,m,...) ; "M" (malformed) yields nil,true
func parseGrp(s string) (*grp, bool) {
	if s == "M" {
		return nil, true
	}
	g, rest, ok := parseG(s)
	if !ok || rest != "" || g.isLeaf() {
		return nil, false
	}
	return g, true
}

func isAlnum(c byte) bool {
	return c >= '0' && c <= '9' || c >= 'a' && c <= 'z' || c >= 'A' && c <= 'Z'
}

func parseG(s string) (*grp, string, bool) {
	if strings.HasPrefix(s, "G") {
		i := 1
		for i < len(s) && s[i] >= '0' && s[i] <= '9' {
			i++
		}
		thr, _ := strconv.ParseUint(s[1:i], 10, 64)
		if i >= len(s) || s[i] != '(' {
			return nil, "", false
		}
		rest := s[i+1:]
		g := &grp{ms: []*grp{}, thr: thr}
		for {
			if rest == "" {
				return nil, "", false
			}
			if rest[0] == ')' {
				return g, rest[1:], true
			}
			if rest[0] == ',' {
				rest = rest[1:]
				continue
			}
			m, r2, ok := parseG(rest)
			if !ok {
				return nil, "", false
			}
			g.ms = append(g.ms, m)
			rest = r2
		}
	}
	i := 0
	for i < len(s) && isAlnum(s[i]) {
		i++
	}
	if i == 0 {
		return nil, "", false
	}
	return &grp{leaf: s[:i]}, s[i:], true
}

func parsePairs(s string) [][2]string {
	if s == "-" {
		return nil
	}
	var l [][2]string
	for _, e := range strings.Split(s, "+") {
		q := strings.SplitN(e, "=", 2)
		if len(q) != 2 {
			q = append(q, "")
		}
		l = append(l, [2]string{q[0], q[1]})
	}
	return l
}

func parseList(s string) []string {
	if s == "-" {
		return nil
	}
	return strings.Split(s, "+")
}

// ---- token conventions (what the real keys / IDs are chosen to satisfy) ---------------------------------------

func validID(t string) bool   { return strings.HasPrefix(t, "i") }
func encodable(t string) bool { return t != "e" && !strings.HasPrefix(t, "L") }
func validPk(t string) bool   { return strings.HasPrefix(t, "k") }
func addrOf(t string) string  { return "a" + t[1:] }
func isAddr(t string) bool    { return strings.HasPrefix(t, "a") }

// ---- the authorization statement ---------------------------------------------------------------------------

type specCtx struct {
	w   world
	wit map[string]bool
}

func newCtx(w world, wit []string) *specCtx {
	c := &specCtx{w: w, wit: map[string]bool{}}
	for _, a := range wit {
		c.wit[a] = true
	}
	return c
}

func (c *specCtx) witnessed(key string) bool {
	if validPk(key) && c.wit[addrOf(key)] {
		return true
	}
	return isAddr(key) && c.wit[key]
}

// keyWitness: key number idx (uint32-truncated, 1-based) of id exists, is not revoked, has authentication rights,
// and the transaction is witnessed for it. Returns "" or the reason it does not hold.
func (c *specCtx) keyWitness(id string, idx uint64, needAuth bool) string {
	i := uint32(idx)
	ks := c.w.get(id).keys
	if i < 1 || int64(i) > int64(len(ks)) {
		return "no-such-key"
	}
	k := ks[i-1]
	if k.revoked {
		return "revoked-key"
	}
	if needAuth && !k.auth {
		return "non-auth-key"
	}
	if !c.witnessed(k.tok) {
		return "no-witness"
	}
	return ""
}

func satisfied(g *grp, ids map[string]bool) bool {
	if g.isLeaf() {
		return ids[g.leaf]
	}
	var n uint64
	for _, m := range g.ms {
		if satisfied(m, ids) {
			n++
		}
	}
	return n >= g.thr
}

func (c *specCtx) groupProof(g *grp, p *proofT) string {
	if !p.hasSig {
		return "proof-not-signers"
	}
	ids := map[string]bool{}
	for _, s := range p.sig {
		ids[s.id] = true
	}
	if !satisfied(g, ids) {
		return "threshold-not-met"
	}
	for _, s := range p.sig {
		if r := c.keyWitness(s.id, s.idx, true); r != "" {
			return "signer-" + r
		}
	}
	return ""
}

func (c *specCtx) singleProof(cid string, p *proofT) string {
	if !p.hasIdx {
		return "proof-not-index"
	}
	if r := c.keyWitness(cid, p.idx, true); r != "" {
		return "controller-" + r
	}
	return ""
}

func grpWf(g *grp, depth int) bool {
	if g.isLeaf() {
		return true
	}
	if depth == 8 || g.thr > uint64(len(g.ms)) {
		return false
	}
	for _, m := range g.ms {
		if !grpWf(m, depth+1) {
			return false
		}
	}
	return true
}

// authorized evaluates the C45 authorization statement for the operation in the pre-state; "" = holds
func (c *specCtx) authorized(o *opT) string {
	id := o.args[0]
	x := c.w.get(id)
	idx := func() uint64 { n, _ := strconv.ParseUint(o.arg("idx", 0), 10, 64); return n }
	proof := func() *proofT { p, _ := parseProof(o.arg("proof", 0)); return p }
	owner := func(opk string, allowOldRec bool) string {
		if !c.witnessed(opk) {
			return "no-witness"
		}
		if allowOldRec && x.recKind == recOld && x.recAddr == opk {
			return ""
		}
		found := "unknown-key"
		for _, k := range x.keys {
			if k.tok == opk {
				switch {
				case k.revoked:
					found = "revoked-key"
				case !k.auth:
					found = "non-auth-key"
				default:
					return ""
				}
			}
		}
		return found
	}
	switch o.m.auth {
	case "keyIdx":
		return c.keyWitness(id, idx(), true)
	case "keyIdxNoAuth":
		return c.keyWitness(id, idx(), false)
	case "ownerNever":
		return owner(o.arg("opk", 0), false)
	case "ownerLenient", "ownerStrict":
		return owner(o.arg("opk", 0), true)
	case "ctrl":
		switch {
		case x.ctrlID != "":
			return c.singleProof(x.ctrlID, proof())
		case x.ctrlG != nil:
			return c.groupProof(x.ctrlG, proof())
		}
		return "no-controller"
	case "rec":
		if x.recKind != recGrp {
			return "no-recovery-group"
		}
		return c.groupProof(x.recG, proof())
	case "oldRec":
		oa := o.arg("addr", 1)
		if x.recKind != recOld || x.recAddr != oa {
			return "not-the-recovery-address"
		}
		if !c.witnessed(oa) {
			return "no-witness"
		}
		return ""
	case "regPk":
		pk := o.arg("pk", 0)
		if !validPk(pk) || !c.wit[addrOf(pk)] {
			return "no-witness"
		}
		return ""
	case "regCtrl":
		ca := o.arg("ctrl", 0)
		if strings.HasPrefix(ca, "G") {
			g, ok := parseGrp(ca)
			if !ok || g == nil || !grpWf(g, 0) {
				return "bad-controller"
			}
			return c.groupProof(g, proof())
		}
		if !validID(ca) {
			return "bad-controller"
		}
		return c.singleProof(ca, proof())
	}
	return "denied"
}

// statusOK: the identity-state requirement of the method
func (c *specCtx) statusOK(o *opT) bool {
	id := o.args[0]
	st := c.w.get(id).status
	if o.m.reg {
		return validID(id) && encodable(id) && st == 'A'
	}
	return encodable(id) && st == 'V'
}
