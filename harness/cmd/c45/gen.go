// C45 harness, part 3: the generator. It keeps a shadow state (same types as the observed state, updated by a rough
// re-implementation of the effects) only to AIM operations: which key index is live, which signer set meets a
// threshold. Nothing here is compared with anything; a wrong shadow only lowers the share of successful ops.
package main

import (
	"fmt"
	"strconv"
	"strings"

	"verif/harness/internal/hx"
)

type genS struct {
	r *hx.Rand
	w world
}

var idPool = []string{"i0", "i1", "i2", "i3"}

func (g *genS) pick(l []string) string { return l[g.r.Intn(len(l))] }

func (g *genS) idsWith(st byte) []string {
	var l []string
	for _, i := range idPool {
		if g.w.get(i).status == st {
			l = append(l, i)
		}
	}
	return l
}

// goodKeys: 1-based indexes of non-revoked authentication keys
func goodKeys(x *ident) []int {
	var l []int
	for i, k := range x.keys {
		if !k.revoked && k.auth {
			l = append(l, i+1)
		}
	}
	return l
}

func (g *genS) noise(wit []string) []string {
	for g.r.Chance(25) {
		wit = append(wit, fmt.Sprintf("a%d", g.r.Intn(nKeys+3)))
	}
	return wit
}

// keyIdxFor returns (index text, witnesses) aimed at identity id; valid=false perturbs
func (g *genS) keyIdxFor(id string, valid bool) (string, []string) {
	x := g.w.get(id)
	good := goodKeys(x)
	if valid && len(good) > 0 {
		i := good[g.r.Intn(len(good))]
		idx := uint64(i)
		if g.r.Chance(5) {
			idx += 1 << 32 // uint32 truncation: the same key
		}
		return strconv.FormatUint(idx, 10), []string{addrOf(x.keys[i-1].tok)}
	}
	n := len(x.keys)
	switch g.r.Intn(6) {
	case 0: // a revoked key, witnessed
		for i, k := range x.keys {
			if k.revoked {
				return strconv.Itoa(i + 1), []string{addrOf(k.tok)}
			}
		}
	case 1: // a key without authentication rights, witnessed
		for i, k := range x.keys {
			if !k.revoked && !k.auth {
				return strconv.Itoa(i + 1), []string{addrOf(k.tok)}
			}
		}
	case 2:
		return "0", []string{"a0"}
	case 3:
		return strconv.Itoa(n + 1), []string{"a0", "a1"}
	case 4: // right index, witness missing or of another key
		if len(good) > 0 {
			i := good[g.r.Intn(len(good))]
			if g.r.Bool() {
				return strconv.Itoa(i), nil
			}
			return strconv.Itoa(i), []string{fmt.Sprintf("a%d", g.r.Intn(nKeys))}
		}
	}
	return strconv.FormatUint([]uint64{1, 2, 3, 4294967296, 18446744073709551615}[g.r.Intn(5)], 10), []string{fmt.Sprintf("a%d", g.r.Intn(nKeys))}
}

// signersFor tries to meet the group's threshold with identities that have a live key
func (g *genS) signersFor(gr *grp) ([]signer, bool) {
	if gr.isLeaf() {
		x := g.w.get(gr.leaf)
		good := goodKeys(x)
		if x.status != 'V' || len(good) == 0 {
			return nil, false
		}
		return []signer{{gr.leaf, uint64(good[g.r.Intn(len(good))])}}, true
	}
	var out []signer
	var n uint64
	order := g.r.Intn(len(gr.ms) + 1)
	for k := range gr.ms {
		if n >= gr.thr {
			break
		}
		m := gr.ms[(k+order)%len(gr.ms)]
		if s, ok := g.signersFor(m); ok {
			out = append(out, s...)
			n++
		}
	}
	return out, n >= gr.thr
}

func dedupeSigners(l []signer) []signer {
	seen := map[string]bool{}
	var o []signer
	for _, s := range l {
		if !seen[s.id] {
			seen[s.id] = true
			o = append(o, s)
		}
	}
	return o
}

func (g *genS) witsOf(l []signer) []string {
	var wit []string
	for _, s := range l {
		x := g.w.get(s.id)
		i := uint32(s.idx)
		if i >= 1 && int(i) <= len(x.keys) {
			wit = append(wit, addrOf(x.keys[i-1].tok))
		}
	}
	return wit
}

// groupProofFor returns (proof text, witnesses)
func (g *genS) groupProofFor(gr *grp, valid bool) (string, []string) {
	ss, ok := g.signersFor(gr)
	ss = dedupeSigners(ss)
	if valid && ok {
		if g.r.Chance(15) { // an extra signer that is not needed but is properly witnessed
			for _, id := range g.idsWith('V') {
				if gk := goodKeys(g.w.get(id)); len(gk) > 0 {
					ss = dedupeSigners(append(ss, signer{id, uint64(gk[0])}))
					break
				}
			}
		}
		return canonProof(signersText(ss)), g.witsOf(ss)
	}
	switch g.r.Intn(6) {
	case 0: // one signer short
		if len(ss) > 0 {
			ss2 := ss[:len(ss)-1]
			return canonProof(signersText(ss2)), g.witsOf(ss)
		}
	case 1: // right signers, one witness missing
		if len(ss) > 0 {
			w := g.witsOf(ss)
			return canonProof(signersText(ss)), w[:len(w)-1]
		}
	case 2: // a signer with a bad key index
		if len(ss) > 0 {
			ss2 := append([]signer{}, ss...)
			ss2[0].idx = uint64(g.r.Intn(3)) * 7
			return canonProof(signersText(ss2)), g.witsOf(ss)
		}
	case 3: // an extra signer that is not witnessed
		ss2 := append(append([]signer{}, ss...), signer{g.pick(idPool), 1})
		return canonProof(signersText(dedupeSigners(ss2))), g.witsOf(ss)
	case 4: // wrong proof type
		return canonProof("I" + strconv.Itoa(g.r.Intn(3))), g.witsOf(ss)
	}
	if g.r.Bool() {
		return canonProof("S"), nil
	}
	return "N", g.witsOf(ss)
}

func (g *genS) ctrlProofFor(id string, valid bool) (string, []string) {
	x := g.w.get(id)
	switch {
	case x.ctrlID != "":
		if !valid && g.r.Chance(25) {
			p, w := g.groupProofFor(&grp{ms: []*grp{{leaf: x.ctrlID}}, thr: 1}, true) // signer-list proof for a single controller
			return p, w
		}
		i, w := g.keyIdxFor(x.ctrlID, valid)
		return canonProof("I" + i), w
	case x.ctrlG != nil:
		return g.groupProofFor(x.ctrlG, valid)
	}
	if g.r.Bool() {
		return canonProof("I1"), []string{"a0"}
	}
	return canonProof("S" + g.pick(idPool) + ".1"), []string{"a0", "a1"}
}

func (g *genS) ownerFor(id string, valid bool, oldRecOK bool) (string, []string) {
	x := g.w.get(id)
	if oldRecOK && x.recKind == recOld && g.r.Chance(50) {
		if valid {
			return x.recAddr, []string{x.recAddr}
		}
		return x.recAddr, nil
	}
	good := goodKeys(x)
	if valid && len(good) > 0 {
		k := x.keys[good[g.r.Intn(len(good))]-1]
		return k.tok, []string{addrOf(k.tok)}
	}
	switch g.r.Intn(4) {
	case 0:
		for _, k := range x.keys {
			if k.revoked {
				return k.tok, []string{addrOf(k.tok)}
			}
		}
	case 1:
		for _, k := range x.keys {
			if !k.revoked && !k.auth {
				return k.tok, []string{addrOf(k.tok)}
			}
		}
	case 2:
		if len(good) > 0 {
			return x.keys[good[0]-1].tok, nil
		}
	}
	k := fmt.Sprintf("k%d", g.r.Intn(nKeys))
	return k, []string{addrOf(k)}
}

func (g *genS) genGroup(depth int, strict bool) *grp {
	gr := &grp{ms: []*grp{}}
	n := g.r.Intn(4)
	if strict && n == 0 {
		n = 1
	}
	pool := idPool
	var live []string
	for _, id := range g.idsWith('V') {
		if len(goodKeys(g.w.get(id))) > 0 {
			live = append(live, id)
		}
	}
	if len(live) > 0 && g.r.Chance(85) {
		pool = live
	}
	for i := 0; i < n; i++ {
		if depth < 2 && g.r.Chance(20) {
			gr.ms = append(gr.ms, g.genGroup(depth+1, strict))
		} else if !strict && g.r.Chance(5) {
			gr.ms = append(gr.ms, &grp{leaf: "x0"})
		} else {
			gr.ms = append(gr.ms, &grp{leaf: g.pick(pool)})
		}
	}
	gr.thr = uint64(g.r.Intn(n + 1))
	if strict && gr.thr == 0 {
		gr.thr = 1
	}
	if !strict && g.r.Chance(4) {
		gr.thr = uint64(n + 1)
	}
	return gr
}

func (g *genS) grpArg() string {
	switch {
	case g.r.Chance(4):
		return "M"
	case g.r.Chance(3): // nine levels: rDeserialize refuses depth 8
		gr := &grp{ms: []*grp{{leaf: g.pick(idPool)}}, thr: 1}
		for i := 0; i < 7+g.r.Intn(2); i++ {
			gr = &grp{ms: []*grp{gr}, thr: 1}
		}
		return gr.String()
	}
	return g.genGroup(0, g.r.Chance(70)).String()
}

func (g *genS) newKeyFor(id string) string {
	x := g.w.get(id)
	switch {
	case g.r.Chance(8):
		return "b0"
	case g.r.Chance(8) && len(x.keys) > 0:
		return x.keys[g.r.Intn(len(x.keys))].tok
	}
	for t := 0; t < 6; t++ {
		k := fmt.Sprintf("k%d", g.r.Intn(nKeys))
		dup := false
		for _, e := range x.keys {
			dup = dup || e.tok == k
		}
		if !dup {
			return k
		}
	}
	return fmt.Sprintf("k%d", g.r.Intn(nKeys))
}

func (g *genS) existingKeyOf(id string) string {
	x := g.w.get(id)
	if len(x.keys) > 0 && g.r.Chance(85) {
		return x.keys[g.r.Intn(len(x.keys))].tok
	}
	return fmt.Sprintf("k%d", g.r.Intn(nKeys))
}

func (g *genS) kidxOf(id string) string {
	n := len(g.w.get(id).keys)
	switch {
	case g.r.Chance(6):
		return "0"
	case g.r.Chance(6):
		return strconv.Itoa(n + 1)
	case g.r.Chance(3):
		return strconv.FormatUint(uint64(1+g.r.Intn(n+1))+1<<32, 10)
	case n > 0:
		return strconv.Itoa(1 + g.r.Intn(n))
	}
	return "1"
}

func (g *genS) attrsArg() string {
	n := g.r.Intn(4)
	var l []string
	for i := 0; i < n; i++ {
		l = append(l, fmt.Sprintf("n%d=v%d", g.r.Intn(6), g.r.Intn(4)))
	}
	return listStr("+", l)
}

func (g *genS) pathOf(id string) string {
	x := g.w.get(id)
	if len(x.attrs) > 0 && g.r.Chance(80) {
		return x.attrs[g.r.Intn(len(x.attrs))][0]
	}
	return fmt.Sprintf("n%d", g.r.Intn(6))
}

func (g *genS) ctxsArg() string {
	n := g.r.Intn(4)
	var l []string
	for i := 0; i < n; i++ {
		if g.r.Chance(8) {
			l = append(l, g.pick([]string{"d0", "d1"}))
		} else {
			l = append(l, fmt.Sprintf("c%d", g.r.Intn(4)))
		}
	}
	return listStr("+", l)
}

func (g *genS) kcArg(optional bool) string {
	switch g.r.Intn(5) {
	case 0:
		if optional {
			return "-"
		}
		return g.pick(idPool)
	case 1:
		return g.pick(idPool)
	case 2:
		return "e"
	case 3:
		return "x0"
	}
	if optional {
		return "-"
	}
	return "w" + strconv.Itoa(g.r.Intn(3))
}

// targetFor chooses the identity an operation of method m is aimed at
func (g *genS) targetFor(m *mdef, valid bool) string {
	if m.reg {
		if rv := g.idsWith('R'); len(rv) > 0 && g.r.Chance(30) { // a well-formed registration of a revoked identity
			return g.pick(rv)
		}
		if a := g.idsWith('A'); len(a) > 0 && (valid || g.r.Chance(50)) {
			return g.pick(a)
		}
		switch g.r.Intn(6) {
		case 0:
			return "x0"
		case 1:
			return "e"
		case 2:
			return "L0"
		}
		return g.pick(idPool)
	}
	v := g.idsWith('V')
	var fit []string
	for _, id := range v {
		x := g.w.get(id)
		switch m.auth {
		case "ctrl":
			if x.ctrlID != "" || x.ctrlG != nil {
				fit = append(fit, id)
			}
		case "rec":
			if x.recKind == recGrp {
				fit = append(fit, id)
			}
		case "oldRec":
			if x.recKind == recOld {
				fit = append(fit, id)
			}
		default:
			if len(goodKeys(x)) > 0 {
				fit = append(fit, id)
			}
		}
	}
	if len(fit) > 0 && (valid || g.r.Chance(60)) {
		return g.pick(fit)
	}
	if len(v) > 0 && g.r.Chance(50) {
		return g.pick(v)
	}
	if rv := g.idsWith('R'); len(rv) > 0 && g.r.Chance(60) {
		return g.pick(rv)
	}
	switch g.r.Intn(8) {
	case 0:
		return "x0"
	case 1:
		return "e"
	case 2:
		return "L0"
	}
	return g.pick(idPool)
}

func (g *genS) genOp(m *mdef, old bool) *opT {
	valid := g.r.Chance(72)
	id := g.targetFor(m, valid || g.r.Chance(60))
	o := &opT{old: old, m: m, args: make([]string, len(m.args))}
	o.args[0] = id
	var wit []string
	// authorization-bearing arguments
	switch m.auth {
	case "keyIdx", "keyIdxNoAuth":
		i, w := g.keyIdxFor(id, valid)
		wit = w
		for k, kind := range m.args {
			if kind == "idx" {
				o.args[k] = i
			}
		}
	case "ownerNever", "ownerLenient", "ownerStrict":
		opk, w := g.ownerFor(id, valid, m.auth != "ownerNever")
		wit = w
		for k, kind := range m.args {
			if kind == "opk" {
				o.args[k] = opk
			}
		}
	case "ctrl":
		p, w := g.ctrlProofFor(id, valid)
		wit = w
		for k, kind := range m.args {
			if kind == "proof" {
				o.args[k] = p
			}
		}
	case "rec":
		x := g.w.get(id)
		var p string
		if x.recKind == recGrp {
			p, wit = g.groupProofFor(x.recG, valid)
		} else {
			p, wit = canonProof("S"+g.pick(idPool)+".1"), []string{"a0"}
		}
		for k, kind := range m.args {
			if kind == "proof" {
				o.args[k] = p
			}
		}
	case "oldRec":
		x := g.w.get(id)
		oa := fmt.Sprintf("a%d", g.r.Intn(nKeys+3))
		if x.recKind == recOld && (valid || g.r.Bool()) {
			oa = x.recAddr
		}
		if valid || g.r.Bool() {
			wit = []string{oa}
		}
		o.args[1] = fmt.Sprintf("a%d", g.r.Intn(nKeys+3))
		if g.r.Chance(4) {
			o.args[1] = "q0"
		}
		o.args[2] = oa
	case "regPk":
		pk := fmt.Sprintf("k%d", g.r.Intn(nKeys))
		if g.r.Chance(5) {
			pk = g.pick([]string{"b0", "e"})
		}
		o.args[1] = pk
		if (valid || g.r.Bool()) && validPk(pk) {
			wit = []string{addrOf(pk)}
		}
	case "regCtrl":
		v := g.idsWith('V')
		switch {
		case len(v) > 0 && g.r.Chance(50):
			cid := g.pick(v)
			i, w := g.keyIdxFor(cid, valid)
			o.args[1], o.args[2], wit = cid, canonProof("I"+i), w
		case g.r.Chance(6):
			o.args[1], o.args[2] = g.pick([]string{"M", "x0", "i3"}), canonProof("I1")
		default:
			ga := g.grpArg()
			o.args[1] = ga
			if gr, ok := parseGrp(ga); ok && gr != nil {
				o.args[2], wit = g.groupProofFor(gr, valid)
			} else {
				o.args[2] = canonProof("S")
			}
		}
	case "deny":
	}
	// the remaining arguments
	for k, kind := range m.args {
		if o.args[k] != "" {
			continue
		}
		switch kind {
		case "pk":
			if m.eff == "revokeKey" {
				o.args[k] = g.existingKeyOf(id)
			} else {
				o.args[k] = g.newKeyFor(id)
			}
		case "kidx":
			o.args[k] = g.kidxOf(id)
		case "kc":
			o.args[k] = g.kcArg(true)
		case "kcreq":
			o.args[k] = g.kcArg(false)
		case "attrs":
			o.args[k] = g.attrsArg()
		case "path":
			o.args[k] = g.pathOf(id)
		case "sid":
			o.args[k] = fmt.Sprintf("s%d", g.r.Intn(4))
		case "pl":
			o.args[k] = fmt.Sprintf("p%d", g.r.Intn(3))
		case "ctxs":
			o.args[k] = g.ctxsArg()
		case "grp":
			o.args[k] = g.grpArg()
		case "addr":
			o.args[k] = fmt.Sprintf("a%d", g.r.Intn(nKeys+3))
			if g.r.Chance(4) {
				o.args[k] = "q0"
			}
		case "idx":
			o.args[k] = "1"
		case "proof":
			o.args[k] = canonProof("S")
		default:
			o.args[k] = "e"
		}
	}
	o.wit = g.noise(wit)
	return o
}

// ---- shadow effects (approximate) ----------------------------------------------------------------------------

func (g *genS) shadowApply(o *opT) {
	if o.m.newOnly && o.old {
		return
	}
	sc := newCtx(g.w, o.wit)
	if !sc.statusOK(o) || sc.authorized(o) != "" {
		return
	}
	id := o.args[0]
	x, ok := g.w[id]
	if !ok {
		x = newIdent()
		g.w[id] = x
	}
	hasKey := func(t string) bool {
		for _, k := range x.keys {
			if k.tok == t {
				return true
			}
		}
		return false
	}
	insert := func(pk string, pkList, auth bool) bool {
		if !validPk(pk) || hasKey(pk) {
			return false
		}
		if o.old {
			pkList, auth = true, true
		}
		x.keys = append(x.keys, keyS{tok: pk, pkList: pkList, auth: auth, ctrl: id})
		return true
	}
	kidx := func() int { n, _ := strconv.ParseUint(o.arg("kidx", 0), 10, 64); return int(uint32(n)) }
	switch o.m.eff {
	case "regKey":
		if insert(o.arg("pk", 0), true, true) {
			x.status = 'V'
		}
	case "regKeyAttrs":
		if insert(o.arg("pk", 0), true, false) {
			x.status = 'V'
			x.attrs = append(x.attrs, parsePairs(o.arg("attrs", 0))...)
		}
	case "regCtrl":
		ca := o.arg("ctrl", 0)
		if strings.HasPrefix(ca, "G") {
			if gr, ok := parseGrp(ca); ok && gr != nil {
				x.ctrlG, x.status = gr, 'V'
			}
		} else {
			x.ctrlID, x.status = ca, 'V'
		}
	case "insertKey":
		insert(o.arg("pk", 0), true, false)
	case "insertAuthKey":
		insert(o.arg("pk", 0), false, true)
	case "revokeKey":
		for i := range x.keys {
			if x.keys[i].tok == o.arg("pk", 0) {
				x.keys[i].revoked = true
			}
		}
	case "revokeKeyIdx":
		if i := kidx(); i >= 1 && i <= len(x.keys) {
			x.keys[i-1].revoked = true
		}
	case "setAuth1", "setAuth0":
		if i := kidx(); i >= 1 && i <= len(x.keys) && !x.keys[i-1].revoked {
			x.keys[i-1].auth = o.m.eff == "setAuth1"
		}
	case "insertAttrs":
		x.attrs = append(x.attrs, parsePairs(o.arg("attrs", 0))...)
	case "clearCtrl":
		x.ctrlID, x.ctrlG = "", nil
	case "clearRec":
		x.recKind = recNone
	case "setRecGrpGuard", "setRecGrp":
		if o.m.eff == "setRecGrpGuard" && x.recKind == recGrp {
			return
		}
		if gr, ok := parseGrp(o.arg("grp", 0)); ok && gr != nil && grpWf(gr, 0) && g.membersOK(gr) {
			x.recKind, x.recG = recGrp, gr
		}
	case "setRecOldGuard", "setRecOld":
		if o.m.eff == "setRecOldGuard" && x.recKind == recOld {
			return
		}
		if a := o.arg("addr", 0); isAddr(a) {
			x.recKind, x.recAddr = recOld, a
		}
	case "deleteID":
		*x = ident{status: 'R'}
	}
}

func (g *genS) membersOK(gr *grp) bool {
	if gr.isLeaf() {
		x := g.w.get(gr.leaf)
		return x.status == 'V' && len(x.keys) > 0
	}
	for _, m := range gr.ms {
		if !g.membersOK(m) {
			return false
		}
	}
	return true
}

func gen(r *hx.Rand, tier string, i int) string {
	initTokens()
	g := &genS{r: r, w: world{}}
	n := 4 + r.Intn(15)
	forkAt := 0
	switch r.Intn(10) {
	case 0:
		forkAt = n // the whole history below the fork height
	case 1, 2:
		forkAt = r.Intn(n)
	}
	scenario := r.Intn(5) // 0,1 generic; 2 controller-heavy; 3 recovery-group-heavy; 4 deprecated recovery / owner-key methods
	weight := func(m *mdef) int {
		switch scenario {
		case 2:
			if m.auth == "ctrl" {
				return 7
			}
		case 3:
			if m.auth == "rec" {
				return 7
			}
			if m.name == "setRecovery" {
				return 9
			}
		case 4:
			if m.auth == "oldRec" || m.name == "addRecovery" {
				return 6
			}
			if strings.HasPrefix(m.auth, "owner") {
				return 4
			}
		}
		return 1
	}
	var mods []*mdef
	for k := range methods {
		if !methods[k].reg {
			for c := weight(&methods[k]); c > 0; c-- {
				mods = append(mods, &methods[k])
			}
		}
	}
	pickReg := func(nv int) *mdef {
		p := r.Intn(100)
		switch {
		case nv > 0 && (p < 35 || scenario == 2 && p < 75):
			return methodByName["regIDWithController"]
		case p >= 92:
			return methodByName["regIDWithAttributes"]
		}
		return methodByName["regIDWithPublicKey"]
	}
	var ops []string
	for j := 0; j < n; j++ {
		old := j < forkAt
		var m *mdef
		nv := len(g.idsWith('V'))
		switch {
		case nv == 0 && r.Chance(85), nv < 3 && r.Chance(25), r.Chance(5), len(g.idsWith('R')) > 0 && r.Chance(15):
			m = pickReg(nv)
		default:
			m = mods[r.Intn(len(mods))]
			if old && m.newOnly && r.Chance(85) {
				m = mods[r.Intn(len(mods))]
			}
		}
		o := g.genOp(m, old)
		g.shadowApply(o)
		ops = append(ops, o.String())
	}
	return "H " + strings.Join(ops, ";")
}

// boundary cases that always run
var corpus = func() []string {
	attrs101 := func() string {
		var l []string
		for i := 0; i < 101; i++ {
			l = append(l, fmt.Sprintf("n%d=v0", i))
		}
		return strings.Join(l, "+")
	}()
	return []string{
		// key life cycle: add (not an authentication key), promote, use, revoke, re-add refused, last key revoked
		"H a0:regIDWithPublicKey:i0:k0;a0:addKeyByIndex:i0:k1:1:-;a1:addService:i0:s0:p0:2;a0:setAuthKey:i0:2:1;a1:addService:i0:s0:p0:2;a1:removeKeyByIndex:i0:k0:2;a0:addService:i0:s1:p0:1;a1:addKeyByIndex:i0:k0:2:-;a1:removeKeyByIndex:i0:k1:2;a1:verifySignature:i0:2",
		// revocation is final
		"H a0:regIDWithPublicKey:i0:k0;a0:revokeID:i0:1;a0:regIDWithPublicKey:i0:k0;a1:regIDWithPublicKey:i0:k1;a0:addKeyByIndex:i0:k1:1:-;a0:regIDWithAttributes:i0:k0:n0=v0;a0:regIDWithController:i0:G0():S~I0",
		// single controller; key index 0 of removeKeyByController / removeKeyByRecovery (panicked in revokePkByIndex before /repo bdce7b3a; a reversion is class panic-<method>)
		"H a0:regIDWithPublicKey:i0:k0;a0:regIDWithController:i1:i0:I1;a0:addKeyByController:i1:k2:I1:-;-:addKeyByController:i1:k3:I1:-;a0:removeKeyByController:i1:0:I1;a0:removeKeyByController:i1:1:I1;a0:revokeIDByController:i1:I1;a0:regIDWithController:i1:i0:I1",
		// group controller with thresholds, nested group, unmet threshold, unwitnessed extra signer
		"H a0:regIDWithPublicKey:i0:k0;a1:regIDWithPublicKey:i1:k1;a2:regIDWithPublicKey:i2:k2;a0+a1:regIDWithController:i3:G2(i0,i1,G1(i2)):Si0.1+i1.1;a0:addAttributesByController:i3:n0=v0:Si0.1;a0+a2:addAttributesByController:i3:n0=v0:Si0.1+i2.1;a0+a2:addAttributesByController:i3:n1=v0:Si0.1+i2.1+i1.1;a2:removeController:i3:1",
		// the same index-0 witness through the recovery group
		"H a0:regIDWithPublicKey:i0:k0;a1:regIDWithPublicKey:i1:k1;a0:setRecovery:i0:G1(i1):1;a1:removeKeyByRecovery:i0:0:Si1.1;a1:removeKeyByRecovery:i0:4294967296:Si1.1;a1:removeKeyByRecovery:i0:1:Si1.1",
		// threshold-0 group: no witness at all is a valid proof (as configured)
		"H -:regIDWithController:i0:G0():S~I0;-:addKeyByController:i0:k0:S~I0:-;-:revokeIDByController:i0:S~I0",
		// recovery group: set, use, update, remove; deprecated recovery address; storage-version quirks of addKey/removeKey
		"H a0:regIDWithPublicKey:i0:k0;a1:regIDWithPublicKey:i1:k1;a0:setRecovery:i0:G1(i1):1;a1:addKeyByRecovery:i0:k2:Si1.1:-;a0:removeKey:i0:k2:k0;a0:addKey:i0:k3:k0:-;a1:updateRecovery:i0:G1(i1,i0):Si1.1;a0:removeRecovery:i0:1;a0:addRecovery:i0:a12:k0;a12:addKey:i0:k4:a12:-;a12:removeKey:i0:k4:a12;a12:changeRecovery:i0:a13:a12;a12:addKey:i0:k5:a12:-",
		// regIDWithAttributes registers a key without authentication rights
		"H a0:regIDWithAttributes:i0:k0:n0=v0+n1=v1;a0:addKeyByIndex:i0:k1:1:-;a0:addAttributes:i0:n2=v2:k0;a0:revokeID:i0:1",
		// below the fork height: new methods are not registered, keys carry default flags
		"H !a0:regIDWithPublicKey:i0:k0;!a0:addKey:i0:k1:k0:x0;!a1:addKeyByIndex:i0:k2:2:-;a1:addKeyByIndex:i0:k2:2:-;!a0:regIDWithAttributes:i1:k0:n0=v0;a0:revokeID:i1:1",
		// uint32 truncation of key indexes; 101 attributes
		"H a0:regIDWithPublicKey:i0:k0;a0:addKeyByIndex:i0:k1:4294967297:-;a0:addAttributesByIndex:i0:" + attrs101 + ":1;a0:addAttributesByIndex:i0:n0=v0:1",
		// malformed / too deep / over-threshold groups; invalid ids
		"H a0:regIDWithPublicKey:i0:k0;a0:regIDWithController:i1:M:I1;a0:regIDWithController:i1:G2(i0):Si0.1;a0:regIDWithController:i1:G1(G1(G1(G1(G1(G1(G1(G1(G1(i0))))))))):Si0.1;a0:regIDWithController:i1:G1(G1(G1(G1(G1(G1(G1(G1(i0)))))))):Si0.1;a0:regIDWithPublicKey:x0:k0;a0:regIDWithPublicKey:e:k0;a0:regIDWithPublicKey:L0:k0;a0:setRecovery:i0:G1(i2):1;a0:setRecovery:i0:G1(x0):1",
		// services and contexts
		"H a0:regIDWithPublicKey:i0:k0;a0:addService:i0:s0:p0:1;a0:addService:i0:s0:p1:1;a0:updateService:i0:s0:p1:1;a0:updateService:i0:s1:p1:1;a0:addContext:i0:c0+c1+c0+d0:1;a0:addContext:i0:c1+c2:1;a0:removeContext:i0:c0+c3:1;a0:removeService:i0:s0:1;a0:removeService:i0:s0:1;a0:addProof:i0",
	}
}()
