// R lines of the C34 harness: real vbft.Server values (hook verif_export_c34.go), one per honest node, driven through the
// real processMsgEvent / processTimerEvent / endorseBlock / commitBlock. The harness is the network, the clock and the
// action loop. There is no Lean model of these handlers: the canonical output of an R line is the constant "srv" and
// everything observed goes into the predicate and the kinds histogram.
//
//	R <N> <C> <faulty csv|-> <proposers csv> op;op;…
//	  P,<to>,<p>,<ver>                       the proposal (version ver) of proposer p reaches honest node <to>
//	  PP,<to>,<p>,<ver>                      … reaches <to> but is parked in its msg pool only (tx verification pending)
//	  T,<i>,<k>                              timer k fires at honest node i (0 propose, 1 2nd-propose, 2 endorse, 3 endorse-empty, 4 commit: needs the hook's ledger stub)
//	  D,<i>,<k>,<to> / DO,<i>,<to> / DX,<i>  k-th broadcast of honest i reaches <to> / all its broadcasts so far reach <to> / reach everybody
//	  X,<f>,<kind>,<p>,<ver>,<fe>,<as>,<to>  Byzantine f sends to <to> a message about proposal (p,ver): kind e = endorsement,
//	                                         c = commit (both genuinely signed with f's key), fc = commit whose EndorsersSig
//	                                         claims every honest peer with junk; <as> = endorser/committer index written in it
//
// Predicate: no two honest Servers emit the SealBlock action for different blocks when at most C of N >= 3C+1 peers are
// Byzantine. Monitors for the hypotheses of C34_impl_safe_partial (Props/C34.lean): `inv` = every signature stored in a
// sealing node's pool is genuine and for that pool's stored version (c31pool.StrictPool), `single` = every honest node has
// signed (proposal, endorsement, commit) blocks of at most one (proposer, version). If both hold the seals must agree on
// (proposer, version): otherwise the theorem is refuted on the real Server (class server:partial-theorem-refuted).
package main

import (
	"fmt"
	"sort"
	"strings"

	"github.com/ontio/ontology/common"
	"github.com/ontio/ontology/consensus/vbft"
	"verif/harness/internal/c31pool"
	"verif/harness/internal/hx"
)

const srvHeight = 1

type blockID struct {
	p   uint32
	ver uint64
	fe  bool
}

type rsim struct {
	N, C    uint32
	faulty  map[uint32]bool
	nodes   map[uint32]*vbft.VerifSrvNode
	props   map[string]vbft.ConsensusMsg
	blocks  map[common.Uint256]blockID
	prev    common.Uint256
	extra   map[uint32]map[[2]uint64]bool // honest proposer -> (p,ver) it signed as proposer
	byzSent bool
}

func (s *rsim) isHonest(i uint32) bool { return i < s.N && !s.faulty[i] }

func (s *rsim) proposal(p uint32, ver uint64) vbft.ConsensusMsg {
	k := fmt.Sprintf("%d.%d", p, ver)
	if m, ok := s.props[k]; ok {
		return m
	}
	m, err := vbft.VerifMakeProposal(world.Accs[p], p, srvHeight, s.prev, uint64(100*p)+ver+1)
	if err != nil {
		panic(err)
	}
	h, eh, _ := vbft.VerifProposalHashes(m)
	s.blocks[h] = blockID{p, ver, false}
	s.blocks[eh] = blockID{p, ver, true}
	s.props[k] = m
	return m
}

func execServer(line string, f []string) hx.Result {
	if len(f) != 6 {
		return hx.Result{Out: bad}
	}
	N, ok1 := pu32(f[1])
	C, ok2 := pu32(f[2])
	if !ok1 || !ok2 || N > 7 || N == 0 {
		return hx.Result{Out: bad}
	}
	s := &rsim{N: N, C: C, faulty: map[uint32]bool{}, nodes: map[uint32]*vbft.VerifSrvNode{}, props: map[string]vbft.ConsensusMsg{},
		blocks: map[common.Uint256]blockID{}, extra: map[uint32]map[[2]uint64]bool{}}
	wellFormed := 3*C+1 <= N
	nf := 0
	if f[3] != "-" {
		for _, x := range strings.Split(f[3], ",") {
			v, ok := pu32(x)
			if !ok {
				return hx.Result{Out: bad}
			}
			if s.faulty[v] || v >= N {
				wellFormed = false
			}
			s.faulty[v] = true
			nf++
		}
	}
	if uint32(nf) > C {
		wellFormed = false
	}
	var proposers []uint32
	isProposer := map[uint32]bool{}
	for _, x := range strings.Split(f[4], ",") {
		v, ok := pu32(x)
		if !ok || v >= N {
			return hx.Result{Out: bad}
		}
		proposers = append(proposers, v)
		isProposer[v] = true
	}
	genesis := vbft.VerifGenesis(srvHeight)
	s.prev = genesis.Hash()
	var peers []uint32
	for i := uint32(0); i < N; i++ {
		peers = append(peers, i)
	}
	var honest []uint32
	for i := uint32(0); i < N; i++ {
		if s.isHonest(i) {
			s.nodes[i] = vbft.VerifNewSrvNode(i, world.Accs[:N], N, C, proposers, peers, peers, srvHeight, genesis)
			honest = append(honest, i)
		}
	}
	var ops []string
	if f[5] != "-" {
		ops = strings.Split(f[5], ";")
	}
	forward := func(from uint32, m vbft.ConsensusMsg, to uint32) {
		kind, _, _, _, _ := vbft.VerifMsgInfo(m)
		if kind == "endorse" || kind == "commit" {
			s.nodes[to].Deliver(from, m)
		}
	}
	for _, op := range ops {
		a := strings.Split(op, ",")
		switch {
		case a[0] == "P" && len(a) == 4:
			to, o1 := pu32(a[1])
			p, o2 := pu32(a[2])
			ver, o3 := pu64(a[3])
			if !o1 || !o2 || !o3 || ver > 1 {
				return hx.Result{Out: bad}
			}
			if !s.isHonest(to) || p >= N || !isProposer[p] || (s.isHonest(p) && ver != 0) {
				continue
			}
			if s.isHonest(p) {
				if s.extra[p] == nil {
					s.extra[p] = map[[2]uint64]bool{}
				}
				s.extra[p][[2]uint64{uint64(p), ver}] = true
			}
			s.nodes[to].Deliver(p, s.proposal(p, ver))
		case a[0] == "PP" && len(a) == 4:
			// the proposal reaches <to> but stays in its msg pool only (transactions still being verified); needs the hook's
			// ParkProposal (a no-op with an older hook)
			to, o1 := pu32(a[1])
			p, o2 := pu32(a[2])
			ver, o3 := pu64(a[3])
			if !o1 || !o2 || !o3 || ver > 1 {
				return hx.Result{Out: bad}
			}
			if !s.isHonest(to) || p >= N || !isProposer[p] || (s.isHonest(p) && ver != 0) {
				continue
			}
			if s.isHonest(p) {
				if s.extra[p] == nil {
					s.extra[p] = map[[2]uint64]bool{}
				}
				s.extra[p][[2]uint64{uint64(p), ver}] = true
			}
			if pk, ok := interface{}(s.nodes[to]).(interface {
				ParkProposal(vbft.ConsensusMsg) string
			}); ok {
				pk.ParkProposal(s.proposal(p, ver))
			}
		case a[0] == "T" && len(a) == 3:
			i, o1 := pu32(a[1])
			k, o2 := pu32(a[2])
			if !o1 || !o2 || k > 4 {
				return hx.Result{Out: bad}
			}
			if s.isHonest(i) {
				s.nodes[i].Timeout(int(k))
			}
		case a[0] == "D" && len(a) == 4:
			i, o1 := pu32(a[1])
			k, o2 := pu32(a[2])
			to, o3 := pu32(a[3])
			if !o1 || !o2 || !o3 {
				return hx.Result{Out: bad}
			}
			if s.isHonest(i) && s.isHonest(to) && i != to {
				if ob := s.nodes[i].Outbox(); int(k) < len(ob) {
					forward(i, ob[k], to)
				}
			}
		case (a[0] == "DO" && len(a) == 3) || (a[0] == "DX" && len(a) == 2):
			i, o1 := pu32(a[1])
			if !o1 {
				return hx.Result{Out: bad}
			}
			var tos []uint32
			if a[0] == "DO" {
				to, o2 := pu32(a[2])
				if !o2 {
					return hx.Result{Out: bad}
				}
				tos = []uint32{to}
			} else {
				tos = honest
			}
			if !s.isHonest(i) {
				continue
			}
			ob := append([]vbft.ConsensusMsg{}, s.nodes[i].Outbox()...)
			for _, to := range tos {
				if s.isHonest(to) && to != i {
					for _, m := range ob {
						forward(i, m, to)
					}
				}
			}
		case a[0] == "X" && len(a) == 8:
			fi, o1 := pu32(a[1])
			p, o2 := pu32(a[3])
			ver, o3 := pu64(a[4])
			fe, o4 := pbool(a[5])
			as, o5 := pu32(a[6])
			to, o6 := pu32(a[7])
			if !(o1 && o2 && o3 && o4 && o5 && o6) || ver > 1 {
				return hx.Result{Out: bad}
			}
			if !s.faulty[fi] || fi >= N || !s.isHonest(to) || p >= N {
				continue
			}
			if _, exists := s.props[fmt.Sprintf("%d.%d", p, ver)]; !exists && s.isHonest(p) {
				continue // a Byzantine node cannot refer to a block an honest proposer has not made
			}
			prop := s.proposal(p, ver)
			e, err := vbft.VerifSignedEndorse(world.Accs[fi], fi, prop, fe)
			if err != nil {
				continue
			}
			var m vbft.ConsensusMsg
			switch a[2] {
			case "e":
				m = e
			case "c", "fc":
				m, err = vbft.VerifSignedCommit(world.Accs[fi], fi, prop, []vbft.ConsensusMsg{e}, fe)
				if err == nil && a[2] == "fc" {
					claims := map[uint32][]byte{}
					for _, h := range honest {
						claims[h] = world.Sig("j1")
					}
					m, err = vbft.VerifWithEndorsersSig(m, claims)
				}
			default:
				return hx.Result{Out: bad}
			}
			if err != nil {
				continue
			}
			if as != fi {
				if m, err = vbft.VerifWithIndex(m, as); err != nil {
					continue
				}
			}
			s.byzSent = true
			s.nodes[to].Deliver(fi, m)
		default:
			return hx.Result{Out: bad}
		}
	}

	res := hx.Result{Out: "srv", Key: line}
	// monitors
	single := true
	for _, i := range honest {
		signed := map[[2]uint64]bool{}
		for k := range s.extra[i] {
			signed[k] = true
		}
		for _, m := range s.nodes[i].Outbox() {
			kind, signer, _, h, _ := vbft.VerifMsgInfo(m)
			if (kind == "endorse" || kind == "commit") && signer == i {
				if b, ok := s.blocks[h]; ok {
					signed[[2]uint64{uint64(b.p), b.ver}] = true
				}
			}
		}
		if len(signed) > 1 {
			single = false
		}
	}
	type sealed struct {
		id   blockID
		node uint32
	}
	groups := map[blockID][]uint32{}
	inv := true
	for _, i := range honest {
		if sl := s.nodes[i].Sealed(); sl != nil {
			b, ok := s.blocks[sl.Hash]
			if !ok {
				b = blockID{sl.Proposer, 9, sl.ForEmpty}
			}
			groups[b] = append(groups[b], i)
			pool := s.nodes[i].Pool()
			if !c31pool.StrictPool(pool.Dump(srvHeight), world.Pubs, int(N), func(p uint32, fe bool) (common.Uint256, bool) {
				return pool.StoredProposalHash(srvHeight, p, fe)
			}) {
				inv = false
			}
		}
	}
	// the sealed proposal must be the one the node's own commit verdict names (map order: asked several times)
	mismatch := ""
	for _, i := range honest {
		if sl := s.nodes[i].Sealed(); sl != nil {
			pool := s.nodes[i].Pool()
			named, anyDone := false, false
			for k := 0; k < 8; k++ {
				if p, _, done := pool.CommitDone(srvHeight, C, N); done {
					anyDone = true
					if p == sl.Proposer {
						named = true
					}
				}
			}
			if anyDone && !named && mismatch == "" {
				mismatch = fmt.Sprintf("node %d sealed a block of proposer %d, its commit verdict names another proposer", i, sl.Proposer)
			}
		}
	}
	nsealed := 0
	for _, g := range groups {
		nsealed += len(g)
	}
	pv := map[[2]uint64]bool{}
	for b := range groups {
		pv[[2]uint64{uint64(b.p), b.ver}] = true
	}
	mon := fmt.Sprintf("[inv=%s,single=%s]", okS(inv), okS(single))
	switch {
	case !wellFormed:
		res.Kind = "srv:precondition-off"
		return res
	case nsealed == 0:
		res.Kind = "srv:nobody-sealed"
	case len(groups) == 1:
		res.Kind = fmt.Sprintf("srv:agree-%d-sealed%s", nsealed, mon)
	default:
		res.Kind = "srv:DIVERGE" + mon
	}
	if s.byzSent {
		res.Kind += "+byz-msgs"
	}
	if mismatch != "" && len(groups) <= 1 {
		cls := "server:sealed-proposal-not-named-by-verdict"
		res.Kind += ":" + cls
		res.Class, res.Fail = cls, mismatch
		return res
	}
	if len(groups) > 1 {
		var cls string
		switch {
		case mismatch != "":
			cls = "server:sealed-proposal-not-named-by-verdict"
		case inv && single && len(pv) > 1:
			cls = "server:partial-theorem-refuted"
		case !inv:
			cls = "server:sealed-on-forged-or-unbound-signatures"
		case len(pv) == 1:
			cls = "server:empty-and-full-block-of-one-proposal"
		default:
			cls = "server:honest-node-signed-two-proposals"
		}
		res.Kind += ":" + cls
		classSeen[cls]++
		if classSeen[cls] > perClassCap {
			return res
		}
		res.Class = cls
		var keys []blockID
		for k := range groups {
			keys = append(keys, k)
		}
		sort.Slice(keys, func(i, j int) bool {
			a, b := keys[i], keys[j]
			if a.p != b.p {
				return a.p < b.p
			}
			if a.ver != b.ver {
				return a.ver < b.ver
			}
			return !a.fe && b.fe
		})
		var ds []string
		for _, k := range keys {
			ds = append(ds, fmt.Sprintf("%v seal %d.%d/%s", groups[k], k.p, k.ver, c31pool.B(k.fe)))
		}
		res.Fail = fmt.Sprintf("real Servers (processMsgEvent/processTimerEvent/endorseBlock/commitBlock) sealed different blocks at one height with %d of %d peers Byzantine: %s %s %s",
			nf, N, strings.Join(ds, "; "), mon, mismatch)
	}
	return res
}

func okS(b bool) string {
	if b {
		return "ok"
	}
	return "BROKEN"
}

// ---- generator for R lines ----

func genServerLine(r *hx.Rand) string {
	N, C := 4, 1
	f := r.Intn(N)
	nf := 1
	if r.Chance(20) {
		nf = 0
	}
	H := []int{}
	for i := 0; i < N; i++ {
		if nf == 0 || i != f {
			H = append(H, i)
		}
	}
	fs := "-"
	if nf == 1 {
		fs = fmt.Sprint(f)
	}
	var ops []string
	add := func(s string, a ...interface{}) { ops = append(ops, fmt.Sprintf(s, a...)) }
	scen := r.Intn(8)
	if nf == 0 && scen >= 3 && scen <= 5 {
		scen = r.Intn(3)
	}
	var proposers []int
	switch scen {
	case 0, 1: // honest leader, everything (eventually) delivered, some timers
		L := H[r.Intn(len(H))]
		proposers = []int{L, (L + 1) % N}
		for _, n := range H {
			if r.Chance(85) {
				add("P,%d,%d,0", n, L)
			}
		}
		for round := 0; round < 2+r.Intn(2); round++ {
			for _, n := range H {
				if r.Chance(80) {
					add("DX,%d", n)
				}
			}
			if r.Chance(40) {
				add("T,%d,%d", H[r.Intn(len(H))], r.Intn(5))
			}
		}
	case 2: // two honest proposers, leader's proposal slow towards some nodes (proposal timeouts)
		L1, L2 := H[0], H[len(H)-1]
		proposers = []int{L1, L2}
		for _, n := range H {
			if r.Chance(55) {
				add("P,%d,%d,0", n, L1)
			} else {
				add("P,%d,%d,0", n, L2)
				add("T,%d,0", n)
			}
		}
		for round := 0; round < 3; round++ {
			for _, n := range H {
				if r.Chance(75) {
					add("DX,%d", n)
				} else {
					add("DO,%d,%d", n, H[r.Intn(len(H))])
				}
			}
			if round == 1 {
				for _, n := range H {
					if r.Chance(60) {
						add("P,%d,%d,0", n, L1)
					}
					if r.Chance(60) {
						add("P,%d,%d,0", n, L2)
					}
				}
			}
		}
	case 3: // Byzantine leader equivocates, each version backed by a commit with forged EndorsersSig
		proposers = []int{f, H[0]}
		x, y := H[0], H[1+r.Intn(len(H)-1)]
		add("P,%d,%d,0", x, f)
		add("P,%d,%d,1", y, f)
		add("X,%d,fc,%d,0,0,%d,%d", f, f, f, x)
		add("X,%d,fc,%d,1,0,%d,%d", f, f, f, y)
	case 4: // all signatures genuine: honest 2nd proposer also endorses the Byzantine leader's block
		a, b, c := H[0], H[1], H[2]
		proposers = []int{f, a}
		add("P,%d,%d,0", a, a)
		add("P,%d,%d,0", c, a)
		add("P,%d,%d,0", b, f)
		add("T,%d,0", c)
		add("P,%d,%d,0", a, f)
		add("DO,%d,%d", a, b)
		add("X,%d,c,%d,0,0,%d,%d", f, a, f, c)
		if r.Chance(50) {
			add("DO,%d,%d", b, a)
		}
	case 5: // Byzantine node speaks in other peers' names / random Byzantine traffic on top of an honest round
		L := H[r.Intn(len(H))]
		proposers = []int{L, f}
		for _, n := range H {
			add("P,%d,%d,0", n, L)
		}
		for k := 0; k < 3+r.Intn(5); k++ {
			kind := []string{"e", "c", "fc"}[r.Intn(3)]
			p := []int{L, f}[r.Intn(2)]
			as := f
			if r.Chance(50) {
				as = r.Intn(N)
			}
			add("X,%d,%s,%d,%d,%s,%d,%d", f, kind, p, r.Intn(2), fb(r.Chance(20)), as, H[r.Intn(len(H))])
			if r.Chance(50) {
				add("DX,%d", H[r.Intn(len(H))])
			}
		}
	default: // random schedule
		proposers = []int{H[r.Intn(len(H))], r.Intn(N)}
		if proposers[0] == proposers[1] {
			proposers[1] = (proposers[1] + 1) % N
		}
		for k := 0; k < 10+r.Intn(16); k++ {
			n := H[r.Intn(len(H))]
			switch r.Intn(8) {
			case 0, 1:
				p := proposers[r.Intn(2)]
				ver := 0
				if nf == 1 && p == f {
					ver = r.Intn(2)
				}
				add("P,%d,%d,%d", n, p, ver)
			case 2:
				add("T,%d,%d", n, r.Intn(5))
			case 3, 4:
				add("DX,%d", n)
			case 5:
				add("DO,%d,%d", n, H[r.Intn(len(H))])
			case 6:
				add("D,%d,%d,%d", n, r.Intn(4), H[r.Intn(len(H))])
			default:
				if nf == 1 {
					add("X,%d,%s,%d,%d,%s,%d,%d", f, []string{"e", "c", "fc"}[r.Intn(3)], proposers[r.Intn(2)], r.Intn(2), fb(r.Chance(20)), []int{f, r.Intn(N)}[r.Intn(2)], n)
				}
			}
		}
	}
	ps := fmt.Sprintf("%d,%d", proposers[0], proposers[1])
	return fmt.Sprintf("R %d %d %s %s %s", N, C, fs, ps, strings.Join(ops, ";"))
}
