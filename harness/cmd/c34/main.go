// C34 harness: one global message history per line, N nodes; every honest node owns a REAL vbft.BlockPool (verif hook).
// Honest nodes sign and seal only through the real gates (setProposalEndorsed, endorseDone, setProposalCommitted,
// commitDone); Byzantine nodes create arbitrary messages but cannot forge honest signatures. Predicate on the
// implementation's own verdicts: with at most C Byzantine nodes among N >= 3C+1, no two honest pools declare commit
// (seal) for different blocks. Line format: lean/OntVerif/OntVerif/Driver/C34.lean; the node-level rules mirrored here
// are those of lean/OntVerif/OntVerif/Model/VbftImpl.lean (endorseBlock / commitBlock / the commitDone branch of
// processMsgEvent); service.go's event loop, timers, syncing and network are NOT executed: they are the schedule.
package main

import (
	"fmt"
	"os"
	osexec "os/exec"
	"path/filepath"
	"sort"
	"strconv"
	"strings"

	"github.com/ontio/ontology/common/log"
	"verif/harness/internal/c31pool"
	"verif/harness/internal/hx"
)

var world *c31pool.World

// hx keeps only the first 200 failures of a run; to keep every failure CLASS visible in the summary, each class is
// reported as a predicate failure at most perClassCap times per run (later ones still show in the `kinds` histogram).
var classSeen = map[string]int{}

const perClassCap = 15

// The decision function guarding the seal sites of processMsgEvent (commit message) and processTimerEvent (commit timeout),
// as extracted by factgen from the tree under check in THIS run. ./check compiles those facts (Gen/SealGates.lean) into the
// private model driver build/bin/drv-C34<suffix> next to this binary before it starts the harness; the harness asks it
// (command GATES). Pool-level lines (H) evaluate that function on the real pool when a node handles a commit message (S) /
// a commit timeout (CT); R lines call the real handlers and need no such information.
var gateMsg, gateTimer = "commitDone", "commitDone"

func readGates() {
	exe, err := os.Executable()
	if err != nil {
		return
	}
	suffix := strings.TrimPrefix(filepath.Base(exe), "hx-c34")
	cmd := osexec.Command(filepath.Join(filepath.Dir(exe), "drv-C34"+suffix), "C34")
	cmd.Stdin = strings.NewReader("GATES\n")
	out, err := cmd.Output()
	if err != nil {
		return
	}
	for _, kv := range strings.Fields(string(out)) {
		p := strings.SplitN(kv, "=", 2)
		if len(p) == 2 && p[0] == "processMsgEvent" {
			gateMsg = p[1]
		}
		if len(p) == 2 && p[0] == "processTimerEvent" {
			gateTimer = p[1]
		}
	}
}

func initWorld() {
	readGates()
	log.InitLog(log.MaxLevelLog) // no writer: the vbft handlers log every message
	world = c31pool.NewWorld(7)
}

func pu32(s string) (uint32, bool) {
	v, err := strconv.ParseUint(s, 10, 32)
	return uint32(v), err == nil && (len(s) == 1 || s[0] != '0') && s[0] != '+'
}
func pu64(s string) (uint64, bool) {
	v, err := strconv.ParseUint(s, 10, 63)
	return v, err == nil && (len(s) == 1 || s[0] != '0') && s[0] != '+'
}
func pbool(s string) (bool, bool) { return s == "1", s == "0" || s == "1" }

type gmsg struct {
	sender uint32
	e      *c31pool.EndorseMsg
	c      *c31pool.CommitMsg
}

type sealT struct {
	p   uint32
	ver uint64
	fe  bool
}

type sim struct {
	N, C     uint32
	faulty   map[uint32]bool
	nodes    map[uint32]*c31pool.Node
	recv     map[uint32][]c31pool.EndorseMsg
	sealed   map[uint32]*sealT
	hadDone  map[uint32]bool // CandidateInfo.commitDone as set by the seal sites (ghost)
	offGate  string          // a seal was made under a gate other than commitDone
	msgs     []gmsg
	revealed map[string]bool // "k.h"
}

func (s *sim) isHonest(i uint32) bool { return i < s.N && !s.faulty[i] }
func (s *sim) reveal(k uint32, h uint64) {
	if s.isHonest(k) {
		s.revealed[fmt.Sprintf("%d.%d", k, h)] = true
	}
}
func (s *sim) producible(desc string) bool {
	if strings.HasPrefix(desc, "j") {
		return true
	}
	k, _ := strconv.ParseUint(strings.Split(desc, ".")[0], 10, 32)
	return s.faulty[uint32(k)] || s.revealed[desc]
}

func parseEList(s string) ([]c31pool.ESigEntry, bool) {
	if s == "-" {
		return nil, true
	}
	var out []c31pool.ESigEntry
	seen := map[uint32]bool{}
	for _, kv := range strings.Split(s, "+") {
		p := strings.Split(kv, "=")
		if len(p) != 2 {
			return nil, false
		}
		k, ok := pu32(p[0])
		if !ok || seen[k] || !world.ParseSig(p[1]) {
			return nil, false
		}
		seen[k] = true
		out = append(out, c31pool.ESigEntry{Endorser: k, Sig: p[1]})
	}
	return out, true
}

// gate evaluates on the real pool the decision function that factgen found at a seal site
func (s *sim) gate(name string, n *c31pool.Node) (uint32, bool, bool) {
	if name == "endorseDone" {
		return n.EndorseDone(c31pool.BlkNum, s.C)
	}
	return n.CommitDone(c31pool.BlkNum, s.C, s.N)
}

func (s *sim) deliver(k int, to uint32) string {
	if !s.isHonest(to) || k >= len(s.msgs) {
		return "bad"
	}
	m := s.msgs[k]
	n := s.nodes[to]
	if m.e != nil {
		r := n.Endorse(m.sender, *m.e)
		if r == "ok" {
			s.recv[to] = append(s.recv[to], *m.e)
		}
		return r
	}
	return n.Commit(m.sender, *m.c)
}

const bad = "bad-op"

func exec(line string) hx.Result {
	f := strings.Fields(line)
	if len(f) > 0 && f[0] == "R" {
		return execServer(line, f)
	}
	if len(f) != 5 || f[0] != "H" {
		return hx.Result{Out: bad}
	}
	N, ok1 := pu32(f[1])
	C, ok2 := pu32(f[2])
	if !ok1 || !ok2 || N > 7 {
		return hx.Result{Out: bad}
	}
	s := &sim{N: N, C: C, faulty: map[uint32]bool{}, nodes: map[uint32]*c31pool.Node{}, recv: map[uint32][]c31pool.EndorseMsg{},
		sealed: map[uint32]*sealT{}, hadDone: map[uint32]bool{}, revealed: map[string]bool{}}
	wellFormed := 3*C+1 <= N
	nf := 0
	if f[3] != "-" {
		for _, x := range strings.Split(f[3], ",") {
			v, ok := pu32(x)
			if !ok {
				return hx.Result{Out: bad}
			}
			if s.faulty[v] || v >= N {
				wellFormed = false
			}
			s.faulty[v] = true
			nf++
		}
	}
	if uint32(nf) > C {
		wellFormed = false
	}
	var peers []uint32
	for i := uint32(0); i < N; i++ {
		peers = append(peers, i)
	}
	for i := uint32(0); i < N; i++ {
		if s.isHonest(i) {
			s.nodes[i] = world.NewNode(i, N, C, peers)
		}
	}
	var outs []string
	var ops []string
	if f[4] != "-" {
		ops = strings.Split(f[4], ";")
	}
	forged := false
	for _, op := range ops {
		a := strings.Split(op, ",")
		var tok string
		switch {
		case a[0] == "P" && len(a) == 4:
			to, o1 := pu32(a[1])
			p, o2 := pu32(a[2])
			ver, o3 := pu64(a[3])
			if !o1 || !o2 || !o3 || ver > 1 {
				return hx.Result{Out: bad}
			}
			if !s.isHonest(to) || p >= N || (s.isHonest(p) && ver != 0) {
				tok = "bad"
				break
			}
			h0, h1 := c31pool.BlockHashID(uint64(p), ver, false), c31pool.BlockHashID(uint64(p), ver, true)
			tok = s.nodes[to].Proposal(p, ver, fmt.Sprintf("%d.%d", p, h0), fmt.Sprintf("%d.%d", p, h1))
			s.reveal(p, h0)
			s.reveal(p, h1)
		case a[0] == "E" && len(a) == 4:
			i, o1 := pu32(a[1])
			p, o2 := pu32(a[2])
			fe, o3 := pbool(a[3])
			if !o1 || !o2 || !o3 {
				return hx.Result{Out: bad}
			}
			if !s.isHonest(i) {
				tok = "bad"
				break
			}
			n := s.nodes[i]
			if p == i {
				tok = "no:own"
				break
			}
			ver, have := n.Vers[p]
			if !have {
				tok = "no:noprop"
				break
			}
			if (!fe && n.EndorsedForBlock(c31pool.BlkNum)) || (fe && n.EndorsedForEmptyBlock(c31pool.BlkNum)) {
				tok = "no:endorsed"
				break
			}
			if _, err := n.SetProposalEndorsed(c31pool.BlkNum, p, fe); err != nil {
				tok = "no:gate"
				break
			}
			h := c31pool.BlockHashID(uint64(p), ver, fe)
			m := c31pool.EndorseMsg{Endorser: i, Proposer: p, Hash: h, FE: fe, Sig: fmt.Sprintf("%d.%d", i, h)}
			if n.Endorse(i, m) == "ok" {
				s.recv[i] = append(s.recv[i], m)
			}
			s.reveal(i, h)
			tok = fmt.Sprintf("m%d", len(s.msgs))
			s.msgs = append(s.msgs, gmsg{sender: i, e: &m})
		case a[0] == "K" && len(a) == 2:
			i, o1 := pu32(a[1])
			if !o1 {
				return hx.Result{Out: bad}
			}
			if !s.isHonest(i) {
				tok = "bad"
				break
			}
			n := s.nodes[i]
			p, fe, done := n.EndorseDone(c31pool.BlkNum, C)
			if !done {
				tok = "no:quorum"
				break
			}
			if p == i {
				tok = "no:own"
				break
			}
			ver, have := n.Vers[p]
			if !have {
				tok = fmt.Sprintf("no:noprop:%d", p)
				break
			}
			if n.CommittedForBlock(c31pool.BlkNum) {
				tok = "no:committed"
				break
			}
			if _, err := n.SetProposalCommitted(c31pool.BlkNum, p, fe); err != nil {
				tok = "no:gate"
				break
			}
			h := c31pool.BlockHashID(uint64(p), ver, fe)
			m := c31pool.CommitMsg{Committer: i, Proposer: p, Hash: h, FE: fe, Sig: fmt.Sprintf("%d.%d", i, h), PSig: fmt.Sprintf("%d.%d", p, h)}
			idx := map[uint32]int{}
			for _, e := range s.recv[i] {
				if e.Hash == h && e.FE == fe {
					if j, ok := idx[e.Endorser]; ok {
						m.Endorsers[j].Sig = e.Sig
					} else {
						idx[e.Endorser] = len(m.Endorsers)
						m.Endorsers = append(m.Endorsers, c31pool.ESigEntry{Endorser: e.Endorser, Sig: e.Sig})
					}
				}
			}
			n.Commit(i, m)
			s.reveal(i, h)
			tok = fmt.Sprintf("m%d:%d/%s", len(s.msgs), p, c31pool.B(fe))
			s.msgs = append(s.msgs, gmsg{sender: i, c: &m})
		case a[0] == "D" && len(a) == 3:
			k, o1 := pu32(a[1])
			to, o2 := pu32(a[2])
			if !o1 || !o2 {
				return hx.Result{Out: bad}
			}
			tok = s.deliver(int(k), to)
		case a[0] == "DA" && len(a) == 2:
			k, o1 := pu32(a[1])
			if !o1 {
				return hx.Result{Out: bad}
			}
			var rs []string
			for to := uint32(0); to < N; to++ {
				if s.isHonest(to) {
					rs = append(rs, s.deliver(int(k), to))
				}
			}
			tok = strings.Join(rs, ",")
		case a[0] == "S" && len(a) == 2:
			i, o1 := pu32(a[1])
			if !o1 {
				return hx.Result{Out: bad}
			}
			if !s.isHonest(i) {
				tok = "bad"
				break
			}
			n := s.nodes[i]
			p, fe, done := s.gate(gateMsg, n)
			if !done {
				tok = "wait"
				break
			}
			s.hadDone[i] = true
			ver, have := n.Vers[p]
			if !have {
				tok = fmt.Sprintf("noprop:%d", p)
				break
			}
			if cur := s.sealed[i]; cur == nil {
				s.sealed[i] = &sealT{p, ver, fe}
				if gateMsg != "commitDone" {
					s.offGate = "processMsgEvent=" + gateMsg
				}
				tok = fmt.Sprintf("sealed:%d.%d/%s", p, ver, c31pool.B(fe))
			} else if cur.p == p {
				tok = "again"
			} else {
				tok = "double-seal"
			}
		case a[0] == "CT" && len(a) == 2:
			i, o1 := pu32(a[1])
			if !o1 {
				return hx.Result{Out: bad}
			}
			if !s.isHonest(i) {
				tok = "bad"
				break
			}
			n := s.nodes[i]
			if s.sealed[i] != nil {
				tok = "late"
				break
			}
			if s.hadDone[i] {
				tok = "hadDone"
				break
			}
			p, fe, done := s.gate(gateTimer, n)
			if !done {
				tok = "resync"
				break
			}
			s.hadDone[i] = true
			ver, have := n.Vers[p]
			if !have {
				tok = fmt.Sprintf("noprop:%d", p)
				break
			}
			s.sealed[i] = &sealT{p, ver, fe}
			if gateTimer != "commitDone" {
				s.offGate = "processTimerEvent=" + gateTimer
			}
			tok = fmt.Sprintf("sealed:%d.%d/%s", p, ver, c31pool.B(fe))
		case a[0] == "FE" && len(a) == 7:
			sd, o1 := pu32(a[1])
			e, o2 := pu32(a[2])
			p, o3 := pu32(a[3])
			h, o4 := pu64(a[4])
			fe, o5 := pbool(a[5])
			if !(o1 && o2 && o3 && o4 && o5) || !world.ParseSig(a[6]) {
				return hx.Result{Out: bad}
			}
			if !s.faulty[sd] || sd >= N || !s.producible(a[6]) {
				tok = "refused"
				break
			}
			forged = true
			tok = fmt.Sprintf("m%d", len(s.msgs))
			s.msgs = append(s.msgs, gmsg{sender: sd, e: &c31pool.EndorseMsg{Endorser: e, Proposer: p, Hash: h, FE: fe, Sig: a[6]}})
		case a[0] == "FC" && len(a) == 9:
			sd, o1 := pu32(a[1])
			cm, o2 := pu32(a[2])
			p, o3 := pu32(a[3])
			h, o4 := pu64(a[4])
			fe, o5 := pbool(a[5])
			el, o6 := parseEList(a[8])
			if !(o1 && o2 && o3 && o4 && o5 && o6) || !world.ParseSig(a[6]) || !world.ParseSig(a[7]) {
				return hx.Result{Out: bad}
			}
			okp := s.faulty[sd] && sd < N && s.producible(a[6]) && s.producible(a[7])
			for _, x := range el {
				okp = okp && s.producible(x.Sig)
			}
			if !okp {
				tok = "refused"
				break
			}
			forged = true
			tok = fmt.Sprintf("m%d", len(s.msgs))
			s.msgs = append(s.msgs, gmsg{sender: sd, c: &c31pool.CommitMsg{Committer: cm, Proposer: p, Hash: h, FE: fe, Sig: a[6], PSig: a[7], Endorsers: el}})
		default:
			return hx.Result{Out: bad}
		}
		outs = append(outs, tok)
	}
	// final state
	var zs []string
	var honest []uint32
	for i := uint32(0); i < N; i++ {
		if s.isHonest(i) {
			honest = append(honest, i)
			if c := s.sealed[i]; c != nil {
				zs = append(zs, fmt.Sprintf("%d=%d.%d/%s", i, c.p, c.ver, c31pool.B(c.fe)))
			} else {
				zs = append(zs, fmt.Sprintf("%d=-", i))
			}
		}
	}
	outs = append(outs, "Z:"+strings.Join(zs, ";"))
	for _, i := range honest {
		outs = append(outs, fmt.Sprintf("n%d:%s", i, s.nodes[i].DumpString()))
	}
	res := hx.Result{Out: strings.Join(outs, "|"), Key: line}

	// predicate: no two honest pools sealed different blocks
	distinct := map[sealT][]uint32{}
	for _, i := range honest {
		if c := s.sealed[i]; c != nil {
			distinct[*c] = append(distinct[*c], i)
		}
	}
	nsealed := 0
	for _, v := range distinct {
		nsealed += len(v)
	}
	switch {
	case !wellFormed:
		res.Kind = "precondition-off(more than C faulty or N<3C+1)"
	case nsealed == 0:
		res.Kind = "nobody-sealed"
	case len(distinct) == 1:
		res.Kind = fmt.Sprintf("agree-%d-sealed", nsealed)
	default:
		res.Kind = "DIVERGE"
	}
	// monitors for the hypotheses of C34_impl_safe_partial: every sealing pool holds only genuine signatures for its
	// stored versions (inv), every honest node signed blocks of at most one (proposer, version) (single)
	inv, single := true, true
	for _, v := range distinct {
		for _, i := range v {
			if !s.nodes[i].StrictNode() {
				inv = false
			}
		}
	}
	signedBy := map[uint32]map[uint64]bool{}
	for d := range s.revealed {
		kh := strings.Split(d, ".")
		k, _ := strconv.ParseUint(kh[0], 10, 32)
		h, _ := strconv.ParseUint(kh[1], 10, 64)
		if h%2 == 0 {
			if signedBy[uint32(k)] == nil {
				signedBy[uint32(k)] = map[uint64]bool{}
			}
			signedBy[uint32(k)][h/4] = true // (proposer, version)
		}
	}
	for _, m := range signedBy {
		if len(m) > 1 {
			single = false
		}
	}
	if wellFormed && nsealed > 0 {
		res.Kind += fmt.Sprintf("[inv=%s,single=%s]", okS(inv), okS(single))
	}
	if forged && wellFormed {
		res.Kind += "+byz-msgs"
	}
	if wellFormed && len(distinct) > 1 {
		var keys []sealT
		for k := range distinct {
			keys = append(keys, k)
		}
		sort.Slice(keys, func(i, j int) bool {
			a, b := keys[i], keys[j]
			if a.p != b.p {
				return a.p < b.p
			}
			if a.ver != b.ver {
				return a.ver < b.ver
			}
			return !a.fe && b.fe
		})
		// why: audit every sealing pool with the real keys
		cls := ""
		for _, k := range keys {
			for _, i := range distinct[k] {
				au := s.nodes[i].AuditCommit(k.p)
				if au.Genuine < au.Need && cls == "" {
					cls = "forged-quorum:" + au.Class()
				}
			}
		}
		pvs := map[[2]uint64]bool{}
		for _, k := range keys {
			pvs[[2]uint64{uint64(k.p), k.ver}] = true
		}
		if s.offGate != "" {
			cls = "sealed-without-commit-verdict:" + s.offGate // the event loop's seal gate is not commitDone (Gen/SealGates.lean)
		} else if inv && single && len(pvs) > 1 {
			cls = "partial-theorem-refuted" // C34_impl_safe_partial says this cannot happen
		}
		if cls == "" {
			switch {
			case keys[0].p == keys[1].p && keys[0].ver != keys[1].ver:
				cls = "equivocation-pooled-by-proposer-index"
			case keys[0].p == keys[1].p:
				cls = "empty-and-full-block-of-one-proposal"
			default:
				cls = "two-genuine-signature-quorums"
			}
		}
		res.Kind += ":" + cls
		classSeen[cls]++
		if classSeen[cls] > perClassCap {
			return res
		}
		res.Class = cls
		var ds []string
		for _, k := range keys {
			ds = append(ds, fmt.Sprintf("%v seal %d.%d/%s", distinct[k], k.p, k.ver, c31pool.B(k.fe)))
		}
		res.Fail = fmt.Sprintf("honest nodes sealed different blocks at one height with %d of %d nodes Byzantine (C=%d): %s", nf, N, C, strings.Join(ds, "; "))
	}
	return res
}

// ---- generator ----

type gen struct {
	r      *hx.Rand
	N, C   int
	faulty map[int]bool
	ops    []string
	nm     int // messages created so far (if every creating op succeeded)
}

func (g *gen) add(f string, a ...interface{}) { g.ops = append(g.ops, fmt.Sprintf(f, a...)) }
func (g *gen) msg(f string, a ...interface{}) int {
	g.add(f, a...)
	g.nm++
	return g.nm - 1
}
func (g *gen) honest() []int {
	var h []int
	for i := 0; i < g.N; i++ {
		if !g.faulty[i] {
			h = append(h, i)
		}
	}
	return h
}
func (g *gen) shuffle(xs []int) []int {
	out := append([]int{}, xs...)
	for i := len(out) - 1; i > 0; i-- {
		j := g.r.Intn(i + 1)
		out[i], out[j] = out[j], out[i]
	}
	return out
}
func bh(p, ver int, fe bool) uint64 { return c31pool.BlockHashID(uint64(p), uint64(ver), fe) }
func fb(b bool) string              { return c31pool.B(b) }

func genLine(r *hx.Rand, tier string, i int) string {
	if r.Chance(15) {
		return genServerLine(r)
	}
	g := &gen{r: r, faulty: map[int]bool{}}
	g.N = 4
	if r.Chance(25) {
		g.N = 7
	}
	g.C = (g.N - 1) / 3
	nf := g.C
	if r.Chance(25) {
		nf = r.Intn(g.C + 1)
	}
	if r.Chance(4) {
		nf = g.C + 1
	}
	for len(g.faulty) < nf {
		g.faulty[r.Intn(g.N)] = true
	}
	var fl []int
	for k := range g.faulty {
		fl = append(fl, k)
	}
	sort.Ints(fl)
	H := g.honest()
	scen := r.Intn(10)
	if len(fl) == 0 && scen >= 4 && scen <= 7 {
		scen = r.Intn(4)
	}
	switch scen {
	case 0, 1: // honest round with an arbitrary delivery schedule
		L := H[r.Intn(len(H))]
		fe := r.Chance(15)
		for _, n := range H {
			if r.Chance(90) {
				g.add("P,%d,%d,0", n, L)
			}
		}
		var ms []int
		for _, n := range g.shuffle(H) {
			if n != L && r.Chance(90) {
				ms = append(ms, g.msg("E,%d,%d,%s", n, L, fb(fe)))
			}
		}
		for _, m := range ms {
			if r.Chance(70) {
				g.add("DA,%d", m)
			} else {
				for _, n := range H {
					if r.Chance(60) {
						g.add("D,%d,%d", m, n)
					}
				}
			}
		}
		var cs []int
		for _, n := range g.shuffle(H) {
			if r.Chance(80) {
				cs = append(cs, g.msg("K,%d", n)) // may fail (own proposal / no quorum): indexes then shift, harmless
			}
		}
		for _, m := range cs {
			if r.Chance(75) {
				g.add("DA,%d", m)
			}
		}
		for _, n := range H {
			g.add("S,%d", n)
		}
	case 2, 3: // two honest proposers (timeout), split endorsements, everything eventually delivered
		L1, L2 := H[0], H[len(H)-1]
		for _, n := range H {
			g.add("P,%d,%d,0", n, L1)
			if r.Chance(80) {
				g.add("P,%d,%d,0", n, L2)
			}
		}
		var ms []int
		for _, n := range g.shuffle(H) {
			l := L1
			if r.Bool() {
				l = L2
			}
			if n != l {
				ms = append(ms, g.msg("E,%d,%d,%s", n, l, fb(r.Chance(15))))
			}
		}
		for _, m := range ms {
			g.add("DA,%d", m)
		}
		base := g.nm
		// with two live proposals the verdicts of K and S depend on Go's map order: the model follows every world,
		// so keep the number of such ops small for N = 7
		ks := g.shuffle(H)
		ss := g.shuffle(H)
		if g.N == 7 {
			ks, ss = ks[:3], ss[:3]
		}
		for _, n := range ks {
			g.add("K,%d", n)
		}
		for k := 0; k < len(ks); k++ {
			if r.Chance(80) {
				g.add("DA,%d", base+k)
			}
		}
		for _, n := range ss {
			g.add("S,%d", n)
		}
	case 4: // Byzantine proposer equivocates and backs each version with a forged commit (unverified EndorsersSig)
		f := fl[r.Intn(len(fl))]
		x, y := H[0], H[1+r.Intn(len(H)-1)]
		g.add("P,%d,%d,0", x, f)
		g.add("P,%d,%d,1", y, f)
		q := g.N - (g.N-1)/3
		for ver, to := range []int{x, y} {
			h := bh(f, ver, false)
			var el []string
			for _, e := range H[:q-1] {
				el = append(el, fmt.Sprintf("%d=j%d", e, r.Intn(2)))
			}
			m := g.msg("FC,%d,%d,%d,%d,0,%d.%d,%d.%d,%s", f, f, f, h, f, h, f, h, strings.Join(el, "+"))
			g.add("D,%d,%d", m, to)
			g.add("S,%d", to)
		}
	case 5: // index spoofing / unbound hash: the Byzantine node speaks in the names of honest peers
		f := fl[r.Intn(len(fl))]
		x, y := H[0], H[1+r.Intn(len(H)-1)]
		L := H[r.Intn(len(H))]
		for _, n := range H {
			g.add("P,%d,%d,0", n, L)
		}
		g.add("P,%d,%d,0", x, f)
		h := bh(f, 0, false)
		for _, e := range H {
			if r.Chance(50) {
				m := g.msg("FE,%d,%d,%d,%d,0,%d.%d", f, e, f, h, f, h)
				g.add("D,%d,%d", m, x)
			} else {
				m := g.msg("FC,%d,%d,%d,%d,0,%d.%d,%d.%d,-", f, e, f, h, f, h, f, h)
				g.add("D,%d,%d", m, x)
			}
		}
		g.add("S,%d", x)
		var ms []int
		for _, n := range H {
			if n != L {
				ms = append(ms, g.msg("E,%d,%d,0", n, L))
			}
		}
		for _, m := range ms {
			g.add("D,%d,%d", m, y)
		}
		g.add("S,%d", y)
	case 6: // equivocation with GENUINE honest endorsements: signatures are pooled by proposer index, not by hash
		f := fl[r.Intn(len(fl))]
		half := len(H) / 2
		if half == 0 {
			half = 1
		}
		A, B := H[:half], H[half:]
		for _, n := range A {
			g.add("P,%d,%d,0", n, f)
		}
		for _, n := range B {
			g.add("P,%d,%d,1", n, f)
		}
		var ms []int
		for _, n := range H {
			ms = append(ms, g.msg("E,%d,%d,0", n, f))
		}
		for _, m := range ms {
			g.add("DA,%d", m)
		}
		base := g.nm
		for _, n := range H {
			g.add("K,%d", n)
		}
		for k := 0; k < len(H); k++ {
			g.add("DA,%d", base+k)
		}
		for _, n := range H {
			g.add("S,%d", n)
		}
	case 7: // all signatures genuine, every hash right: an honest proposer also endorses the Byzantine leader's block
		if g.N != 4 || len(fl) != 1 {
			g.N, g.C, g.faulty, fl = 4, 1, map[int]bool{3: true}, []int{3}
			H = g.honest()
		}
		f := fl[0]
		a, b, c := H[0], H[1], H[2] // a: honest 2nd proposer
		for _, n := range H {
			g.add("P,%d,%d,0", n, a)
		}
		g.add("P,%d,%d,0", a, f)
		g.add("P,%d,%d,0", b, f)
		m0 := g.msg("E,%d,%d,0", b, f)
		g.msg("E,%d,%d,0", c, a)
		m2 := g.msg("E,%d,%d,0", a, f)
		g.msg("K,%d", b)
		g.msg("K,%d", c)
		m5 := g.msg("FE,%d,%d,%d,%d,0,%d.%d", f, f, a, bh(a, 0, false), f, bh(a, 0, false))
		g.add("D,%d,%d", m2, b)
		if r.Chance(30) {
			g.add("D,%d,%d", m0, a)
		}
		g.add("S,%d", b)
		g.add("D,%d,%d", m5, c)
		g.add("S,%d", c)
	default: // noise: random ops
		np := g.N
		if g.N == 7 {
			np = 2
		}
		for _, n := range H {
			for p := 0; p < np; p++ {
				if r.Chance(50) {
					ver := 0
					if g.faulty[p] {
						ver = r.Intn(2)
					}
					g.add("P,%d,%d,%d", n, p, ver)
				}
			}
		}
		for k := 0; k < 8+r.Intn(14); k++ {
			n := H[r.Intn(len(H))]
			switch r.Intn(9) {
			case 0, 1:
				g.msg("E,%d,%d,%s", n, r.Intn(g.N), fb(r.Chance(25)))
			case 2:
				g.msg("K,%d", n)
			case 3, 4:
				if g.nm > 0 {
					g.add("D,%d,%d", r.Intn(g.nm), n)
				}
			case 5:
				if g.nm > 0 {
					g.add("DA,%d", r.Intn(g.nm))
				}
			case 6:
				if r.Chance(30) {
					g.add("CT,%d", n)
				} else {
					g.add("S,%d", n)
				}
			default:
				if len(fl) > 0 {
					f := fl[r.Intn(len(fl))]
					p := r.Intn(g.N)
					h := bh(p, r.Intn(2), r.Chance(20))
					sig := fmt.Sprintf("%d.%d", f, h)
					if r.Chance(25) {
						sig = fmt.Sprintf("%d.%d", H[r.Intn(len(H))], h) // replay of an honest signature (refused unless it exists)
					}
					if r.Bool() {
						g.msg("FE,%d,%d,%d,%d,%s,%s", f, r.Intn(g.N), p, h, fb(r.Chance(20)), sig)
					} else {
						var el []string
						for _, e := range H {
							if r.Chance(50) {
								el = append(el, fmt.Sprintf("%d=j%d", e, r.Intn(2)))
							}
						}
						els := "-"
						if len(el) > 0 {
							els = strings.Join(el, "+")
						}
						g.msg("FC,%d,%d,%d,%d,%s,%s,j1,%s", f, r.Intn(g.N), p, h, fb(r.Chance(20)), sig, els)
					}
				}
			}
		}
		for _, n := range H {
			g.add("S,%d", n)
		}
	}
	fs := "-"
	if len(fl) > 0 {
		var x []string
		for _, k := range fl {
			x = append(x, strconv.Itoa(k))
		}
		fs = strings.Join(x, ",")
	}
	ops := "-"
	if len(g.ops) > 0 {
		ops = strings.Join(g.ops, ";")
	}
	return fmt.Sprintf("H %d %d %s %s", g.N, g.C, fs, ops)
}

func main() {
	corpus := []string{
		// the model's counterexample (Props/C34.lean C34_impl_asShipped_counterexample): Byzantine proposer 3 equivocates and
		// backs each version with one forged commit message
		"H 4 1 3 P,0,3,0;P,1,3,1;FC,3,3,3,24,0,3.24,3.24,0=j1+1=j1+2=j1;D,0,0;S,0;FC,3,3,3,28,0,3.28,3.28,0=j1+1=j1+2=j1;D,1,1;S,1",
		// all signatures genuine (Props/C34.lean C34_impl_counterexample_genuine_signatures)
		"H 4 1 3 P,0,0,0;P,1,0,0;P,2,0,0;P,0,3,0;P,1,3,0;E,1,3,0;E,2,0,0;E,0,3,0;K,1;K,2;FE,3,3,0,0,0,3.0;D,2,1;S,1;D,5,2;S,2",
		// equivocation, genuine endorsements pooled by proposer index
		"H 4 1 3 P,0,3,0;P,1,3,1;P,2,3,1;E,0,3,0;E,1,3,0;E,2,3,0;DA,0;DA,1;DA,2;K,0;K,1;K,2;DA,3;DA,4;DA,5;S,0;S,1;S,2",
		// honest round
		"H 4 1 - P,0,1,0;P,2,1,0;P,3,1,0;P,1,1,0;E,0,1,0;E,2,1,0;E,3,1,0;DA,0;DA,1;DA,2;K,0;K,2;K,3;DA,3;DA,4;DA,5;S,0;S,1;S,2;S,3",
		"H 4 1 3 -",
		// seal gates (Driver/C34.lean searchLines; /verif/seeded/C34-r2): node 2 timed out on leader 0 and committed Byzantine 2nd
		// proposer 3's block; its commit timeout fires before any commit for the leader's block arrives. With the shipped gate
		// (commitDone) it does not seal; a tree whose commit-timeout site is guarded by endorseDone seals block 3 there
		"H 4 1 3 P,2,3,0;E,2,3,0;K,2;CT,2;P,0,0,0;P,1,0,0;E,1,0,0;K,1;FE,3,3,0,0,0,3.0;D,4,1;S,1",
		"H 4 1 3 P,2,3,0;E,2,3,0;K,2;S,2;P,0,0,0;P,1,0,0;E,1,0,0;K,1;FE,3,3,0,0,0,3.0;D,4,1;S,1",
		// real Servers, no Byzantine peer (/verif/seeded/C34-r3): leader 0's proposal is lost towards node 3, which holds the 2nd
		// proposer's proposal parked in its msg pool; the commit quorum for proposer 0 must not seal that one (needs ParkProposal)
		"R 4 1 - 0,1 P,0,0,0;P,1,0,0;P,2,0,0;PP,3,1,0;DX,0;DX,1;DX,2;DX,0;DX,1;DX,2",
		// the same on real Servers (needs the ledger stub of the hook for timer 4; a no-op with an older hook)
		"R 4 1 3 0,3 P,2,3,0;T,2,0;T,2,4;P,0,0,0;P,1,0,0;X,3,c,0,0,0,3,1;DO,1,0;X,3,c,0,0,0,3,0",
		// Props/C34.lean non-vacuity example of the implementation model (three honest nodes seal block 1.0)
		"H 4 1 3 P,0,1,0;P,1,1,0;P,2,1,0;E,0,1,0;E,2,1,0;D,0,2;D,1,0;D,0,1;D,1,1;K,0;K,2;D,2,1;D,3,1;D,2,2;D,3,0;S,0;S,1;S,2",
		// the empty/full flag is outside the partial theorem (Props/C34.lean C34_partial_does_not_cover_forEmpty is the pool-level
		// form; this is a stable global history of the known class)
		"H 4 1 1 P,0,0,0;P,0,3,0;P,2,0,0;P,3,0,0;P,3,3,0;E,3,0,1;E,2,3,0;E,0,3,1;DA,0;DA,1;DA,2;K,0;K,3;K,2;DA,3;DA,4;DA,5;S,0;S,2;S,3",
		// real Servers: the schedule of /verif/seeded/C34/demo (agreement on the unchanged tree)
		"R 4 1 3 0,3 P,0,0,0;P,1,0,0;P,2,3,0;X,3,e,3,0,1,3,2;T,2,0;X,3,e,0,0,0,3,0;X,3,c,0,0,0,3,0;DO,1,0;X,3,e,0,0,0,3,1;X,3,c,0,0,0,3,1;P,2,0,0;DO,1,2;X,3,e,0,0,0,3,2;X,3,c,0,0,0,3,2",
		// real Servers: Byzantine leader equivocates, each version backed by one commit with forged EndorsersSig
		"R 4 1 3 3,0 P,0,3,0;P,1,3,1;X,3,fc,3,0,0,3,0;X,3,fc,3,1,0,3,1",
		// real Servers: every signature genuine, honest 2nd proposer 0 also endorses Byzantine leader 3's block
		"R 4 1 3 3,0 P,0,0,0;P,2,0,0;P,1,3,0;T,2,0;P,0,3,0;DO,0,1;X,3,c,0,0,0,3,2",
		// real Servers: honest round
		"R 4 1 - 1,2 P,0,1,0;P,1,1,0;P,2,1,0;P,3,1,0;DX,0;DX,1;DX,2;DX,3;DX,0;DX,1;DX,2;DX,3",
	}
	hx.Main(hx.Prop{
		ID:     "C34",
		Rule:   "global histories for N in {4,7}, up to C Byzantine nodes (sometimes C+1: precondition off), every honest node a real BlockPool: honest rounds under arbitrary delivery schedules, two honest proposers, equivocating Byzantine proposer with forged commits / spoofed indexes / genuine endorsements, an all-genuine split, random noise. Non-trivial = distinct line; kinds = agreement outcome",
		Gen:    genLine,
		Exec:   exec,
		Init:   initWorld,
		Corpus: corpus,
		N:      map[string]int{"quick": 1500, "thorough": 40000},
	})
}
