// C23 harness: core/program (ProgramFromPubKey, ProgramFromMultiPubKey, GetProgramInfo, GetParamInfo, ProgramFromParams)
// and core/types.AddressFromMultiPubKeys on real public keys of every supported type and on arbitrary byte strings.
//
// Keys are real curve points (k*G for deterministic scalars k; for several keys also the twin -P with the same X),
// Ed25519 keys from deterministic seeds. A key crosses the line protocol as `ser/typ/curve/x/y/raw`: its serialization
// plus exactly the data keypair.SortPublicKeys compares. Exec re-derives those fields from the deserialized key and refuses
// the line if they do not match, so the model is never fed an order the real key does not have.
package main

import (
	"bytes"
	"crypto/ecdsa"
	"crypto/elliptic"
	"encoding/binary"
	"fmt"
	"math/big"
	"sort"
	"strconv"
	"strings"

	"github.com/btcsuite/btcd/btcec"
	"github.com/ontio/ontology-crypto/ec"
	"github.com/ontio/ontology-crypto/keypair"
	"github.com/ontio/ontology-crypto/sm2"
	"github.com/ontio/ontology/common"
	"github.com/ontio/ontology/core/program"
	"github.com/ontio/ontology/core/types"
	"golang.org/x/crypto/ed25519"
	"verif/harness/internal/hx"
)

// ---- keys ----

func keyTok(pk keypair.PublicKey) string {
	ser := keypair.SerializePublicKey(pk)
	typ := int(keypair.GetKeyType(pk))
	curve, x, y, raw := 0, "0", "0", "-"
	switch t := pk.(type) {
	case *ec.PublicKey:
		l, err := keypair.GetCurveLabel(t.Curve)
		if err != nil {
			panic(err)
		}
		curve, x, y = int(l), t.X.String(), t.Y.String()
	case ed25519.PublicKey:
		raw = hx.Hex([]byte(t))
	case *ec.EthereumPublicKey:
		x, y = t.X.String(), t.Y.String()
	}
	return fmt.Sprintf("%s/%d/%d/%s/%s/%s", hx.Hex(ser), typ, curve, x, y, raw)
}

var keyCache = map[string]keypair.PublicKey{}

func parseKeyTok(t string) (keypair.PublicKey, bool) {
	if pk, ok := keyCache[t]; ok {
		return pk, true
	}
	p := strings.Split(t, "/")
	if len(p) != 6 {
		return nil, false
	}
	ser, err := hx.Unhex(p[0])
	if err != nil {
		return nil, false
	}
	pk, err := keypair.DeserializePublicKey(ser)
	if err != nil || keyTok(pk) != t {
		return nil, false
	}
	keyCache[t] = pk
	return pk, true
}

func parseKeys(t string) ([]keypair.PublicKey, bool) {
	if t == "-" {
		return nil, true
	}
	var out []keypair.PublicKey
	for _, k := range strings.Split(t, ",") {
		pk, ok := parseKeyTok(k)
		if !ok {
			return nil, false
		}
		out = append(out, pk)
	}
	return out, true
}

var pool []keypair.PublicKey
var poolAlt [][]byte // valid but non-canonical serializations (uncompressed / explicitly labelled P-256)

func scalar(i int) []byte {
	r := hx.NewRand(uint64(0xC23<<20 + i))
	return r.Bytes(28)
}

func ecKey(alg ec.ECAlgorithm, c elliptic.Curve, i int, negate bool) *ec.PublicKey {
	x, y := c.ScalarBaseMult(scalar(i))
	if negate {
		y = new(big.Int).Sub(c.Params().P, y)
	}
	return &ec.PublicKey{Algorithm: alg, PublicKey: &ecdsa.PublicKey{Curve: c, X: x, Y: y}}
}

func buildPool() {
	if pool != nil {
		return
	}
	i := 0
	next := func() int { i++; return i }
	for j := 0; j < 10; j++ {
		k := next()
		pool = append(pool, ecKey(ec.ECDSA, elliptic.P256(), k, false))
		if j < 4 {
			pool = append(pool, ecKey(ec.ECDSA, elliptic.P256(), k, true)) // same X, other Y
		}
	}
	for _, c := range []elliptic.Curve{elliptic.P224(), elliptic.P384(), elliptic.P521(), btcec.S256(), sm2.SM2P256V1()} {
		for j := 0; j < 2; j++ {
			pool = append(pool, ecKey(ec.ECDSA, c, next(), false))
		}
	}
	for j := 0; j < 5; j++ {
		k := next()
		pool = append(pool, ecKey(ec.SM2, sm2.SM2P256V1(), k, false))
		if j < 2 {
			pool = append(pool, ecKey(ec.SM2, sm2.SM2P256V1(), k, true))
			pool = append(pool, ecKey(ec.ECDSA, sm2.SM2P256V1(), k, false)) // same point, other algorithm
		}
	}
	for j := 0; j < 6; j++ {
		seed := hx.NewRand(uint64(0xED<<20 + j)).Bytes(32)
		pool = append(pool, ed25519.NewKeyFromSeed(seed).Public().(ed25519.PublicKey))
	}
	for j := 0; j < 5; j++ {
		k := next()
		x, y := btcec.S256().ScalarBaseMult(scalar(k))
		pool = append(pool, &ec.EthereumPublicKey{PublicKey: &ecdsa.PublicKey{Curve: btcec.S256(), X: x, Y: y}})
		if j < 2 {
			pool = append(pool, &ec.EthereumPublicKey{PublicKey: &ecdsa.PublicKey{Curve: btcec.S256(), X: x, Y: new(big.Int).Sub(btcec.S256().Params().P, y)}})
		}
	}
	for _, pk := range pool[:6] {
		e := pk.(*ec.PublicKey)
		poolAlt = append(poolAlt, ec.EncodePublicKey(e.PublicKey, false))                                             // 04 ‖ X ‖ Y
		poolAlt = append(poolAlt, append([]byte{byte(keypair.PK_ECDSA), keypair.P256}, ec.EncodePublicKey(e.PublicKey, true)...)) // 12 02 ‖ compressed
	}
	// every pool key must survive its own serialization (otherwise the line would be refused by Exec)
	for _, pk := range pool {
		if _, ok := parseKeyTok(keyTok(pk)); !ok {
			panic("pool key does not round-trip: " + keyTok(pk))
		}
	}
}

func pick(r *hx.Rand, n int, dups bool) []keypair.PublicKey {
	buildPool()
	// often stay within one family so that the finer levels of the order (curve, X, Y) decide
	lo, hi := 0, len(pool)
	switch r.Intn(4) {
	case 0:
		lo, hi = 0, 14 // P-256 incl. twins with equal X
	case 1:
		lo, hi = 24, len(pool) // SM2 / Ed25519 / Ethereum
	}
	idx := make([]int, hi-lo)
	for i := range idx {
		idx[i] = lo + i
	}
	for i := len(idx) - 1; i > 0; i-- {
		j := r.Intn(i + 1)
		idx[i], idx[j] = idx[j], idx[i]
	}
	var out []keypair.PublicKey
	for i := 0; i < n; i++ {
		if i < len(idx) {
			out = append(out, pool[idx[i]])
		} else {
			out = append(out, pool[r.Intn(len(pool))])
		}
	}
	if dups && n >= 2 {
		out[r.Intn(n)] = out[r.Intn(n)]
	}
	return out
}

func toks(ks []keypair.PublicKey) string {
	if len(ks) == 0 {
		return "-"
	}
	var s []string
	for _, k := range ks {
		s = append(s, keyTok(k))
	}
	return strings.Join(s, ",")
}

// ---- script construction (independent of the builder under test) ----

func push(data []byte, form int) []byte {
	n := len(data)
	var b []byte
	switch {
	case form == 0 && n >= 1 && n <= 75:
		b = []byte{byte(n)}
	case form <= 1 && n < 0x100:
		b = []byte{0x4C, byte(n)}
	case form <= 2 && n < 0x10000:
		b = []byte{0x4D, byte(n), byte(n >> 8)}
	default:
		b = []byte{0x4E, 0, 0, 0, 0}
		binary.LittleEndian.PutUint32(b[1:], uint32(n))
	}
	return append(b, data...)
}

// a number: as PUSHk opcode (form 0) or as pushed bytes in several (also over-long, wrapping) encodings
func num(n int, form int, bigEndian bool) []byte {
	if form == 0 && n >= 0 && n <= 16 {
		if n == 0 {
			return []byte{0}
		}
		return []byte{byte(0x50 + n)}
	}
	var d []byte
	switch form {
	case 1, 0: // minimal bytes
		d = big.NewInt(int64(n)).Bytes()
		if len(d) == 0 {
			d = []byte{0}
		}
		if !bigEndian {
			for i, j := 0, len(d)-1; i < j; i, j = i+1, j-1 {
				d[i], d[j] = d[j], d[i]
			}
			if d[len(d)-1] >= 0x80 {
				d = append(d, 0)
			}
		}
	case 2: // 9 bytes: 2^64 + n  (Int64() keeps the low 64 bits)
		d = make([]byte, 9)
		if bigEndian {
			d[0] = 1
			binary.BigEndian.PutUint64(d[1:], uint64(n))
		} else {
			binary.LittleEndian.PutUint64(d, uint64(n))
			d[8] = 1
		}
	default: // padded with zero bytes
		d = make([]byte, 4)
		if bigEndian {
			binary.BigEndian.PutUint32(d, uint32(n))
		} else {
			binary.LittleEndian.PutUint32(d, uint32(n))
		}
	}
	return push(d, 0)
}

// DeserializePublicKey oracle for the model: every byte string that some push at some offset of the script would deliver
// and that is a valid key, with its canonical serialization
func oracle(script []byte) string {
	seen := map[string]bool{}
	var ent []string
	try := func(d []byte) {
		if len(d) <= 3 || seen[string(d)] {
			return
		}
		seen[string(d)] = true
		pk, err := keypair.DeserializePublicKey(d)
		if err == nil {
			ent = append(ent, hx.Hex(d)+":"+hx.Hex(keypair.SerializePublicKey(pk)))
		}
	}
	L := len(script)
	for i := 0; i < L; i++ {
		c := script[i]
		var off, n int
		switch {
		case c >= 1 && c <= 75:
			off, n = i+1, int(c)
		case c == 0x4C && i+1 < L:
			off, n = i+2, int(script[i+1])
		case c == 0x4D && i+2 < L:
			off, n = i+3, int(binary.LittleEndian.Uint16(script[i+1:]))
		case c == 0x4E && i+4 < L:
			off, n = i+5, int(binary.LittleEndian.Uint32(script[i+1:]))
		default:
			continue
		}
		if off+n <= L && n >= 0 {
			try(script[off : off+n])
		}
	}
	if len(ent) == 0 {
		return "-"
	}
	sort.Strings(ent)
	return strings.Join(ent, ",")
}

func pLine(script []byte) string { return "P " + hx.Hex(script) + " " + oracle(script) }

func sers(ks []keypair.PublicKey) [][]byte {
	var out [][]byte
	for _, k := range ks {
		out = append(out, keypair.SerializePublicKey(k))
	}
	return out
}

func genScript(r *hx.Rand) []byte {
	buildPool()
	switch r.Intn(12) {
	case 0: // built by the real builder
		return program.ProgramFromPubKey(pick(r, 1, false)[0])
	case 1, 2:
		n := 2 + r.Intn(15)
		ks := pick(r, n, r.Chance(10))
		p, _ := program.ProgramFromMultiPubKey(ks, 1+r.Intn(n))
		return p
	case 3: // single-key shapes: other push forms, non-canonical / invalid key bytes, trailing bytes
		var d []byte
		switch r.Intn(5) {
		case 0:
			d = poolAlt[r.Intn(len(poolAlt))]
		case 1:
			d = r.Bytes(33)
			d[0] = 2 + byte(r.Intn(2))
		case 2:
			d = r.Bytes(1 + r.Intn(70))
		default:
			d = keypair.SerializePublicKey(pick(r, 1, false)[0])
		}
		s := push(d, r.Intn(4))
		if r.Chance(15) {
			s = append(s, r.Bytes(1+r.Intn(3))...)
		}
		return append(s, 0xAC)
	case 4, 5, 6, 7: // multi-sig shapes assembled by hand
		n := 1 + r.Intn(18)
		if r.Chance(60) {
			n = 2 + r.Intn(15)
		}
		m := 1 + r.Intn(n)
		switch r.Intn(8) {
		case 0:
			m = 0
		case 1:
			m = n + 1 + r.Intn(3)
		case 2:
			m = n
		}
		ks := pick(r, n, r.Chance(10))
		if r.Chance(70) {
			ks = keypair.SortPublicKeys(append([]keypair.PublicKey{}, ks...))
		}
		ds := sers(ks)
		if r.Chance(15) {
			ds[r.Intn(len(ds))] = poolAlt[r.Intn(len(poolAlt))]
		}
		if r.Chance(8) {
			ds[r.Intn(len(ds))] = r.Bytes(20 + r.Intn(30))
		}
		mform, nform := 0, 0
		if r.Chance(25) {
			mform = r.Intn(4)
		}
		if r.Chance(25) {
			nform = r.Intn(4)
		}
		s := num(m, mform, false)
		for _, d := range ds {
			f := 0
			if r.Chance(10) {
				f = r.Intn(4)
			}
			s = append(s, push(d, f)...)
		}
		claimed := n
		if r.Chance(15) {
			claimed = n + r.Intn(3) - 1
		}
		if !r.Chance(5) {
			s = append(s, num(claimed, nform, true)...)
		}
		if r.Chance(5) {
			s = append(s, 0x00) // PUSH0 as an extra (empty) buffer
		}
		s = append(s, 0xAE)
		if r.Chance(8) {
			s = append(s, r.Bytes(r.Intn(3))...)
			s = append(s, 0xAE)
		}
		return s
	case 8, 9: // byte-level damage of a valid script
		n := 2 + r.Intn(6)
		p, _ := program.ProgramFromMultiPubKey(pick(r, n, false), 1+r.Intn(n))
		if r.Bool() {
			p = program.ProgramFromPubKey(pick(r, 1, false)[0])
		}
		switch r.Intn(4) {
		case 0:
			p = p[:r.Intn(len(p)+1)]
		case 1:
			p[r.Intn(len(p))] ^= 1 << uint(r.Intn(8))
		case 2:
			p[r.Intn(len(p))] = []byte{0, 0x4C, 0x4D, 0x4E, 0x4F, 0x50, 0x51, 0x60, 0x61, 0xAC, 0xAE, 0xFF}[r.Intn(12)]
		default:
			i := r.Intn(len(p))
			p = append(p[:i:i], p[i+1:]...)
		}
		return p
	default:
		b := r.Bytes(r.Intn(40))
		if r.Chance(70) {
			b = append(b, []byte{0xAC, 0xAE}[r.Intn(2)])
		}
		return b
	}
}

func genSigs(r *hx.Rand) [][]byte {
	var out [][]byte
	for i := 0; i < r.Intn(5); i++ {
		n := []int{1, 2, 64, 65, 75, 76, 255, 256, 300}[r.Intn(9)]
		if r.Chance(2) {
			n = 65535 + r.Intn(2)
		}
		out = append(out, r.Bytes(n))
	}
	return out
}

func hexList(l [][]byte) string {
	if len(l) == 0 {
		return "-"
	}
	var s []string
	for _, b := range l {
		s = append(s, hx.Hex(b))
	}
	return strings.Join(s, ",")
}

func gen(r *hx.Rand, tier string, i int) string {
	buildPool()
	switch r.Intn(20) {
	case 0:
		return "S " + keyTok(pool[r.Intn(len(pool))])
	case 1, 2, 3, 4, 5:
		n := 2 + r.Intn(15)
		switch r.Intn(10) {
		case 0:
			n = r.Intn(3)
		case 1:
			n = 16 + r.Intn(3)
		}
		m := 1 + r.Intn(n+1)
		switch r.Intn(10) {
		case 0:
			m = r.Intn(3) - 1
		case 1:
			m = n + r.Intn(2)
		}
		return fmt.Sprintf("M %d %s", m, toks(pick(r, n, r.Chance(15))))
	case 6:
		return "R " + hexList(genSigs(r))
	case 7, 8:
		var s []byte
		switch r.Intn(4) {
		case 0:
			s = r.Bytes(r.Intn(30))
		case 1:
			s = program.ProgramFromParams(genSigs(r))
			if len(s) > 0 {
				s = s[:r.Intn(len(s)+1)]
			}
		default:
			for _, g := range genSigs(r) {
				s = append(s, push(g, r.Intn(4))...)
			}
			if r.Chance(20) {
				s = append(s, []byte{0, 0x4F, 0x51, 0xAC}[r.Intn(4)])
			}
		}
		return "Q " + hx.Hex(s)
	default:
		return pLine(genScript(r))
	}
}

// ---- execution ----

func errKind(err error) string {
	m := err.Error()
	switch {
	case m == "unexpected EOF":
		return "err:eof"
	case strings.HasPrefix(m, "unexpected opcode"):
		return "err:opcode"
	case m == "wrong program":
		return "err:short"
	case strings.HasPrefix(m, "expected eof"):
		return "err:trailing"
	case m == "missing pubkey length":
		return "err:nolen"
	case strings.HasPrefix(m, "number of pubkeys unmarched"):
		return "err:count"
	case m == "wrong multi-sig param":
		return "err:param"
	case m == "unsupported program":
		return "err:unsupported"
	case strings.HasPrefix(m, "num not in range"):
		return "err:numrange"
	}
	return "err:key" // every error of keypair.DeserializePublicKey
}

// the order keypair.SortPublicKeys documents, computed independently: (type, curve, X, Y) / raw bytes
func keyLess(a, b keypair.PublicKey) bool {
	ta, tb := keypair.GetKeyType(a), keypair.GetKeyType(b)
	if ta != tb {
		return ta < tb
	}
	switch x := a.(type) {
	case *ec.PublicKey:
		y := b.(*ec.PublicKey)
		la, _ := keypair.GetCurveLabel(x.Curve)
		lb, _ := keypair.GetCurveLabel(y.Curve)
		if la != lb {
			return la < lb
		}
		if c := x.X.Cmp(y.X); c != 0 {
			return c < 0
		}
		return x.Y.Cmp(y.Y) < 0
	case ed25519.PublicKey:
		return bytes.Compare(x, b.(ed25519.PublicKey)) < 0
	case *ec.EthereumPublicKey:
		y := b.(*ec.EthereumPublicKey)
		if c := x.X.Cmp(y.X); c != 0 {
			return c < 0
		}
		return x.Y.Cmp(y.Y) < 0
	}
	return false
}

func sameSeq(a, b [][]byte) bool {
	if len(a) != len(b) {
		return false
	}
	for i := range a {
		if !bytes.Equal(a[i], b[i]) {
			return false
		}
	}
	return true
}

func perms(ks []keypair.PublicKey) [][]keypair.PublicKey {
	n := len(ks)
	cp := func() []keypair.PublicKey { return append([]keypair.PublicKey{}, ks...) }
	var out [][]keypair.PublicKey
	if n <= 5 {
		var rec func(a []keypair.PublicKey, k int)
		rec = func(a []keypair.PublicKey, k int) {
			if k == len(a) {
				out = append(out, append([]keypair.PublicKey{}, a...))
				return
			}
			for i := k; i < len(a); i++ {
				a[k], a[i] = a[i], a[k]
				rec(a, k+1)
				a[k], a[i] = a[i], a[k]
			}
		}
		rec(cp(), 0)
		return out
	}
	rev := cp()
	for i, j := 0, n-1; i < j; i, j = i+1, j-1 {
		rev[i], rev[j] = rev[j], rev[i]
	}
	rot := append(cp()[1:], ks[0])
	sw := cp()
	sw[0], sw[n-1] = sw[n-1], sw[0]
	srt := cp()
	sort.SliceStable(srt, func(i, j int) bool { return keyLess(srt[i], srt[j]) })
	inter := cp() // interleave halves
	for i := 0; i < n/2; i++ {
		inter[2*i], inter[2*i+1] = ks[i], ks[n/2+i]
	}
	return [][]keypair.PublicKey{rev, rot, sw, srt, inter}
}

func exec(line string) hx.Result {
	f := strings.Fields(line)
	if len(f) < 2 {
		return hx.Result{Out: "bad-op"}
	}
	switch f[0] {
	case "S":
		pk, ok := parseKeyTok(f[1])
		if !ok {
			return hx.Result{Out: "bad-op"}
		}
		prog := program.ProgramFromPubKey(pk)
		res := hx.Result{Out: hx.Hex(prog), Kind: "S:" + strconv.Itoa(int(keypair.GetKeyType(pk))), Key: line}
		info, err := program.GetProgramInfo(prog)
		if err != nil {
			res.Fail, res.Class = "own single-key script rejected: "+errKind(err), "single-roundtrip-rejected"
		} else if info.M != 1 || !sameSeq(sers(info.PubKeys), sers([]keypair.PublicKey{pk})) {
			res.Fail, res.Class = "single-key script parses to other key/m", "single-roundtrip-differs"
		}
		return res
	case "M":
		if len(f) != 3 {
			return hx.Result{Out: "bad-op"}
		}
		m, err := strconv.Atoi(f[1])
		ks, ok := parseKeys(f[2])
		if err != nil || !ok {
			return hx.Result{Out: "bad-op"}
		}
		n := len(ks)
		valid := 1 <= m && m <= n && n > 1 && n <= 16
		prog, err := program.ProgramFromMultiPubKey(append([]keypair.PublicKey{}, ks...), m)
		addr, aerr := types.AddressFromMultiPubKeys(append([]keypair.PublicKey{}, ks...), m)
		if err != nil {
			res := hx.Result{Out: errKind(err), Kind: "M:err", Key: line}
			if valid {
				res.Fail, res.Class = "valid (m,n) rejected", "multi-valid-rejected"
			} else if aerr == nil {
				res.Fail, res.Class = "address derived although the script is refused", "multi-address-without-script"
			}
			return res
		}
		res := hx.Result{Out: "ok " + hx.Hex(prog), Kind: fmt.Sprintf("M:ok:n%d", (n+3)/4*4), Key: line}
		fail := func(c, msg string) hx.Result { res.Fail, res.Class = msg, c; return res }
		if !valid {
			why := "n>16"
			switch {
			case m < 1:
				why = "m<1"
			case m > n:
				why = "m>n"
			case n <= 1:
				why = "n<=1"
			}
			return fail("multi-invalid-accepted-"+why, "script built for invalid (m,n)")
		}
		if aerr != nil || addr != common.AddressFromVmCode(prog) {
			return fail("multi-address-not-script-hash", "AddressFromMultiPubKeys is not the hash of the script")
		}
		info, err := program.GetProgramInfo(prog)
		if err != nil {
			return fail("multi-roundtrip-rejected", "own m-of-n script rejected: "+errKind(err))
		}
		if int(info.M) != m {
			return fail("multi-roundtrip-m", fmt.Sprintf("m parses back as %d", info.M))
		}
		want := append([]keypair.PublicKey{}, ks...)
		sort.SliceStable(want, func(i, j int) bool { return keyLess(want[i], want[j]) })
		if !sameSeq(sers(info.PubKeys), sers(want)) {
			return fail("multi-roundtrip-keys", "parsed keys are not the sorted key set")
		}
		for _, p := range perms(ks) {
			p2, err := program.ProgramFromMultiPubKey(append([]keypair.PublicKey{}, p...), m)
			if err != nil || !bytes.Equal(p2, prog) {
				return fail("multi-order-dependent-script", "another ordering of the keys gives another script")
			}
			a2, err := types.AddressFromMultiPubKeys(append([]keypair.PublicKey{}, p...), m)
			if err != nil || a2 != addr {
				return fail("multi-order-dependent-address", "another ordering of the keys gives another address")
			}
		}
		return res
	case "P":
		prog := hx.MustUnhex(f[1])
		info, err := program.GetProgramInfo(prog)
		if err != nil {
			k := errKind(err)
			return hx.Result{Out: k, Kind: "P:" + k, Key: line}
		}
		n := len(info.PubKeys)
		res := hx.Result{Out: fmt.Sprintf("ok m=%d %s", info.M, hexList(sers(info.PubKeys))), Key: line}
		single := prog[len(prog)-1] == 0xAC
		if single {
			res.Kind = "P:ok:single"
			if n != 1 || info.M != 1 {
				res.Fail, res.Class = "single-key script with n/m != 1", "parse-single-bad-count"
			}
		} else {
			res.Kind = "P:ok:multi"
			re, err := program.ProgramFromMultiPubKey(append([]keypair.PublicKey{}, info.PubKeys...), int(info.M))
			if err == nil && !bytes.Equal(re, prog) {
				res.Kind = "P:ok:multi-noncanonical"
			}
			switch {
			case info.M < 1:
				res.Fail, res.Class = "accepted with m = 0", "parse-invalid-accepted-m<1"
			case int(info.M) > n:
				res.Fail, res.Class = "accepted with m > n", "parse-invalid-accepted-m>n"
			case n <= 1:
				res.Fail, res.Class = "accepted with n <= 1", "parse-invalid-accepted-n<=1"
			case n > 16:
				res.Fail, res.Class = "accepted with n > 16", "parse-invalid-accepted-n>16"
			}
		}
		return res
	case "Q":
		sigs, err := program.GetParamInfo(hx.MustUnhex(f[1]))
		if err != nil {
			k := errKind(err)
			return hx.Result{Out: k, Kind: "Q:" + k, Key: line}
		}
		return hx.Result{Out: "ok " + hexList(sigs), Kind: "Q:ok", Key: line}
	case "R":
		var sigs [][]byte
		if f[1] != "-" {
			for _, h := range strings.Split(f[1], ",") {
				sigs = append(sigs, hx.MustUnhex(h))
			}
		}
		prog := program.ProgramFromParams(sigs)
		res := hx.Result{Out: hx.Hex(prog), Kind: "R", Key: line}
		back, err := program.GetParamInfo(prog)
		if err != nil || !sameSeq(back, sigs) {
			res.Fail, res.Class = "parameter script does not parse back to its signatures", "params-roundtrip"
		}
		return res
	}
	return hx.Result{Out: "bad-op"}
}

// every constant a length / count is compared with, at c-1, c, c+1:
// PushBytes/ReadBytes 75 | 0x100 | 0x10000, ReadNum 16 | 65535, n 1 | 16, len(program) 2, DeserializePublicKey len 3
func thresholdCorpus() []string {
	buildPool()
	var out []string
	lens := []int{1, 74, 75, 76, 77, 254, 255, 256, 257, 65534, 65535, 65536, 65537}
	for _, n := range lens {
		sig := make([]byte, n)
		for i := range sig {
			sig[i] = byte(i*7 + n)
		}
		out = append(out, "R "+hx.Hex(sig), "R "+hexList([][]byte{{9}, sig, {8}}))
		if n < 300 {
			for f := 0; f < 4; f++ {
				out = append(out, "Q "+hx.Hex(push(sig, f)), pLine(append(push(sig, f), 0xAC)))
			}
			out = append(out, "Q "+hx.Hex(push(sig, 0)[:n]), "Q "+hx.Hex(append(push(sig, 0), 1)))
		}
	}
	// ReadNum through pushed bytes (little-endian, signed): around 16 and 65535, negative, over-long
	key := push(keypair.SerializePublicKey(pool[0]), 0)
	for _, d := range [][]byte{{15}, {16}, {17}, {18}, {0x7f}, {0x80}, {0x80, 0}, {0xff, 0}, {0, 1}, {0xfe, 0xff, 0}, {0xff, 0xff, 0}, {0, 0, 1},
		{0xff, 0xff}, {0xff}, {17, 0, 0, 0, 0, 0, 0, 0, 1}, {0xff, 0xff, 0, 0, 0, 0, 0, 0, 1}, {0, 0, 0, 0, 0, 0, 0, 0x80}, {0, 0, 0, 0, 0, 0, 0, 0x80, 0}} {
		sc := append(push(d, 0), key...)
		sc = append(sc, key...)
		sc = append(sc, 0x52, 0xAE)
		out = append(out, pLine(sc))
	}
	// n = 1, 2, 15, 16, 17, 18 keys: real builder (M) and hand-assembled scripts (P), m at 0, 1, n, n+1
	for _, n := range []int{1, 2, 15, 16, 17, 18} {
		ks := append([]keypair.PublicKey{}, pool[:n]...)
		for _, m := range []int{0, 1, n - 1, n, n + 1} {
			out = append(out, fmt.Sprintf("M %d %s", m, toks(ks)))
			sorted := keypair.SortPublicKeys(append([]keypair.PublicKey{}, ks...))
			sc := num(m, 0, false)
			for _, d := range sers(sorted) {
				sc = append(sc, push(d, 0)...)
			}
			sc = append(sc, num(n, 0, true)...)
			out = append(out, pLine(append(sc, 0xAE)))
		}
	}
	// DeserializePublicKey: len(data) <= 3
	for _, d := range [][]byte{{0x14, 0x19, 1}, {0x14, 0x19, 1, 2}, {2, 1, 2}, {2, 1, 2, 3}} {
		out = append(out, pLine(append(push(d, 0), 0xAC)))
	}
	return out
}

func main() {
	buildPool()
	p256 := keypair.SerializePublicKey(pool[0])
	two := append(append([]byte{}, push(p256, 0)...), push(keypair.SerializePublicKey(pool[2]), 0)...)
	hx.Main(hx.Prop{
		ID: "C23",
		Rule: "real keys (P-224/256/384/521, secp256k1, SM2 curve under both algorithms, Ed25519, Ethereum; twins with equal X) in random orders, n in 0..18, m in -1..n+1, duplicates; " +
			"M lines also re-run the real builder and AddressFromMultiPubKeys on all orderings (n<=5) / 5 fixed permutations and parse the script back; " +
			"P lines: scripts from the real builder, hand-assembled m-of-n scripts (m/n as opcode, as pushed bytes, over-long wrapping encodings, wrong counts, unsorted or non-canonical or invalid keys, every push form, trailing bytes), damaged valid scripts, random bytes; " +
			"Q/R: parameter scripts. Non-trivial = distinct line; kinds = op:outcome",
		Gen:  gen,
		Exec: exec,
		Corpus: append(thresholdCorpus(), []string{
			"P - -", "P ac -", "P ae -", "P 51ae -", "P 5151ae -", "P 0000ae -", "P 005100ae -", "P 515151ae -", "P 4c00ac -", "P 0101ac -",
			pLine(append(append([]byte{0x51}, two...), 0x52, 0xAE)),                   // 1-of-2 by hand
			pLine(append(append([]byte{0x00}, two...), 0x52, 0xAE)),                   // m = 0
			pLine(append(append([]byte{0x53}, two...), 0x52, 0xAE)),                   // m = 3 > n
			pLine(append(append([]byte{0x51}, two...), 0x01, 0x02, 0xAE)),             // n as pushed byte
			pLine(append(append([]byte{0x51}, two...), 0x09, 1, 0, 0, 0, 0, 0, 0, 0, 2, 0xAE)), // n = 2^64+2
			pLine(append(append([]byte{0x51}, push(p256, 0)...), 0x51, 0xAE)),         // n = 1
			pLine(append(push(p256, 1), 0xAC)), pLine(append(push(p256, 2), 0xAC)), pLine(append(push(p256, 3), 0xAC)),
			"Q -", "Q 00", "Q 4c00", "Q 4d0000", "Q 4e00000000", "Q 4c", "Q 4e000000", "Q 0101", "Q 0201", "Q 4f", "R -",
		}...),
		N: map[string]int{"quick": 12000, "thorough": 200000},
	})
}
