// C13 harness: NeoVM integer opcodes of /repo.
//
//	U <OP> <val>            unary opcode through Executor.ExecuteOp            (INC DEC SIGN NEGATE ABS INVERT NZ)
//	B <OP> <val> <val>      binary opcode through Executor.ExecuteOp           (ADD SUB MUL DIV MOD MAX MIN AND OR XOR SHL SHR LT GT LTE GTE NUMEQUAL NUMNOTEQUAL)
//	W <val> <val> <val>     WITHIN
//	V <op> <iv> [<iv>]      an IntValue method on explicit representations (hook vm/neovm/types/verif_export_c13.go)
//
// val: i<dec> int64 (integerType) | g<dec> raw bigintType | b<hex> byte array | t / f bool.  iv: s<dec> small | b<dec> big.
// Predicate (on the implementation's own output): the result equals the exact integer function computed independently with
// math/big when operands and result are within |z| < 2^256 and is a fault otherwise; and the result is the same for every
// representation of the same operand integers.
package main

import (
	"fmt"
	"math"
	"math/big"
	"strings"

	"github.com/ontio/ontology/common"
	"github.com/ontio/ontology/vm/neovm"
	vmerr "github.com/ontio/ontology/vm/neovm/errors"
	"github.com/ontio/ontology/vm/neovm/types"
	"verif/harness/internal/hx"
)

var one = big.NewInt(1)

func pow2(k int) *big.Int { return new(big.Int).Lsh(one, uint(k)) }

var bound = pow2(256)

func inBound(z *big.Int) bool { return new(big.Int).Abs(z).Cmp(bound) < 0 }

func parseBig(s string) *big.Int {
	z, ok := new(big.Int).SetString(s, 10)
	if !ok {
		panic("bad integer on op line: " + s)
	}
	return z
}

// independent two's complement little-endian decoder (the spec side does not use common.BigIntFromNeoBytes)
func tcDecode(bs []byte) *big.Int {
	z := new(big.Int)
	for i := len(bs) - 1; i >= 0; i-- {
		z.Lsh(z, 8)
		z.Or(z, big.NewInt(int64(bs[i])))
	}
	if len(bs) > 0 && bs[len(bs)-1]&0x80 != 0 {
		z.Sub(z, pow2(8*len(bs)))
	}
	return z
}

var unaryOps = map[string]neovm.OpCode{"INC": neovm.INC, "DEC": neovm.DEC, "SIGN": neovm.SIGN, "NEGATE": neovm.NEGATE,
	"ABS": neovm.ABS, "INVERT": neovm.INVERT, "NZ": neovm.NZ}
var binaryOps = map[string]neovm.OpCode{"ADD": neovm.ADD, "SUB": neovm.SUB, "MUL": neovm.MUL, "DIV": neovm.DIV, "MOD": neovm.MOD,
	"MAX": neovm.MAX, "MIN": neovm.MIN, "AND": neovm.AND, "OR": neovm.OR, "XOR": neovm.XOR, "SHL": neovm.SHL, "SHR": neovm.SHR,
	"LT": neovm.LT, "GT": neovm.GT, "LTE": neovm.LTE, "GTE": neovm.GTE, "NUMEQUAL": neovm.NUMEQUAL, "NUMNOTEQUAL": neovm.NUMNOTEQUAL}
var unaryNames = []string{"INC", "DEC", "SIGN", "NEGATE", "ABS", "INVERT", "NZ"}
var binaryNames = []string{"ADD", "SUB", "MUL", "DIV", "MOD", "MAX", "MIN", "AND", "OR", "XOR", "SHL", "SHR", "LT", "GT", "LTE", "GTE", "NUMEQUAL", "NUMNOTEQUAL"}
var ivBinary = []string{"add", "sub", "mul", "div", "mod", "max", "min", "and", "or", "xor", "lsh", "rsh", "cmp"}
var ivUnary = []string{"not", "abs", "sign", "iszero", "neo"}

func isCmp(op string) bool {
	switch op {
	case "LT", "GT", "LTE", "GTE", "NUMEQUAL", "NUMNOTEQUAL":
		return true
	}
	return false
}

// ---------------------------------------------------------------- operands

type operand struct {
	z    *big.Int // the integer it denotes
	text string
}

func mkVal(s string) (types.VmValue, *big.Int) {
	switch s[0] {
	case 'i':
		z := parseBig(s[1:])
		return types.VmValueFromInt64(z.Int64()), z
	case 'g':
		z := parseBig(s[1:])
		return types.VerifRawBigIntVmValue(z), new(big.Int).Set(z)
	case 'b':
		bs := hx.MustUnhex(s[1:])
		v, err := types.VmValueFromBytes(bs)
		if err != nil {
			panic(err)
		}
		return v, tcDecode(bs)
	case 't':
		return types.VmValueFromBool(true), big.NewInt(1)
	case 'f':
		return types.VmValueFromBool(false), big.NewInt(0)
	}
	panic("bad operand " + s)
}

// every representation of the integer z that the VM can hold
func reprs(z *big.Int) []string {
	out := []string{"g" + z.String(), "b" + hx.Hex(common.BigIntToNeoBytes(new(big.Int).Set(z)))}
	pad := byte(0)
	if z.Sign() < 0 {
		pad = 0xff
	}
	out = append(out, "b"+hx.Hex(append(common.BigIntToNeoBytes(new(big.Int).Set(z)), pad, pad)))
	if z.IsInt64() {
		out = append(out, "i"+z.String())
	}
	if z.Sign() == 0 {
		out = append(out, "f")
	}
	if z.Cmp(one) == 0 {
		out = append(out, "t")
	}
	return out
}

var interesting []*big.Int

func init() {
	add := func(z *big.Int) {
		interesting = append(interesting, z, new(big.Int).Neg(z))
	}
	for _, v := range []int64{0, 1, 2, 3, 7, 255, 256, 1 << 31, 1<<31 - 1, 1 << 32, 3037000499, 3037000500, math.MaxInt64, math.MaxInt64 - 1} {
		add(big.NewInt(v))
	}
	for _, k := range []int{63, 64, 127, 128, 248, 255, 256} {
		for d := int64(-2); d <= 2; d++ {
			add(new(big.Int).Add(pow2(k), big.NewInt(d)))
		}
	}
}

func genInt(r *hx.Rand) *big.Int {
	switch r.Intn(6) {
	case 0, 1, 2:
		return new(big.Int).Set(interesting[r.Intn(len(interesting))])
	case 3:
		return big.NewInt(int64(r.Intn(41) - 20))
	case 4: // random int64-ish
		z := big.NewInt(int64(r.U64() >> uint(r.Intn(64))))
		if r.Bool() {
			z.Neg(z)
		}
		return z
	default: // random up to 33 bytes
		z := new(big.Int).SetBytes(r.Bytes(r.Intn(34)))
		z.Rsh(z, uint(r.Intn(8)))
		if r.Bool() {
			z.Neg(z)
		}
		return z
	}
}

var shiftAmounts = []string{"0", "1", "7", "8", "63", "64", "65", "191", "192", "255", "256", "257", "300", "2147483648", "9223372036854775807",
	"9223372036854775808", "18446744073709551615", "18446744073709551616", "-1", "-9223372036854775808", "-18446744073709551616"}

func genShift(r *hx.Rand) *big.Int {
	if r.Chance(75) {
		return parseBig(shiftAmounts[r.Intn(len(shiftAmounts))])
	}
	return big.NewInt(int64(r.Intn(270)))
}

func pickRepr(r *hx.Rand, z *big.Int) string {
	rs := reprs(z)
	return rs[r.Intn(len(rs))]
}

func ivRepr(r *hx.Rand, z *big.Int) string {
	if z.IsInt64() && r.Chance(60) {
		return "s" + z.String()
	}
	return "b" + z.String()
}

func genInBound(r *hx.Rand) *big.Int {
	for {
		z := genInt(r)
		if inBound(z) {
			return z
		}
	}
}

// inputs of the recorded deviation classes (findings/C13.json) are kept rare and confined to the first cases of a run, so
// that they cannot fill the failure list of the run summary and hide a different failure
func knownProne(line string) bool {
	f := strings.Fields(line)
	var zs []*big.Int
	op := f[1]
	for _, s := range f[2:] {
		if f[0] == "V" {
			zs = append(zs, parseBig(s[1:]))
		} else {
			_, z := mkVal(s)
			zs = append(zs, z)
		}
	}
	switch {
	case f[0] == "B" && isCmp(op):
		return !inBound(zs[0]) || !inBound(zs[1])
	case op == "SHR" || op == "rsh":
		return zs[1].Cmp(two64) >= 0
	case op == "SHL" || op == "lsh":
		return zs[0].Sign() == 0 && zs[1].Cmp(big.NewInt(256)) > 0
	case op == "INVERT" || op == "not":
		return new(big.Int).Add(zs[0], one).Cmp(bound) == 0
	}
	return false
}

func gen(r *hx.Rand, tier string, i int) string {
	for {
		line := gen1(r)
		if !knownProne(line) || (i < 20000 && r.Chance(12)) {
			return line
		}
	}
}

func gen1(r *hx.Rand) string {
	switch r.Intn(10) {
	case 0, 1:
		return "U " + unaryNames[r.Intn(len(unaryNames))] + " " + pickRepr(r, genInt(r))
	case 2, 3, 4, 5, 6:
		op := binaryNames[r.Intn(len(binaryNames))]
		a := genInt(r)
		b := genInt(r)
		if op == "SHL" || op == "SHR" {
			b = genShift(r)
		}
		if (op == "DIV" || op == "MOD") && r.Chance(10) {
			b = big.NewInt(0)
		}
		if r.Chance(10) { // equal operands (comparisons, SUB, XOR)
			b = new(big.Int).Set(a)
		}
		return "B " + op + " " + pickRepr(r, a) + " " + pickRepr(r, b)
	case 7:
		x, a, b := genInt(r), genInt(r), genInt(r)
		if r.Bool() {
			x = new(big.Int).Set([]*big.Int{a, b}[r.Intn(2)])
		}
		return "W " + pickRepr(r, x) + " " + pickRepr(r, a) + " " + pickRepr(r, b)
	default:
		if r.Chance(25) {
			return "V " + ivUnary[r.Intn(len(ivUnary))] + " " + ivRepr(r, genInBound(r))
		}
		op := ivBinary[r.Intn(len(ivBinary))]
		a, b := genInBound(r), genInBound(r)
		if op == "lsh" || op == "rsh" {
			b = genShift(r)
		}
		return "V " + op + " " + ivRepr(r, a) + " " + ivRepr(r, b)
	}
}

// ---------------------------------------------------------------- running the real code

func faultKind(err error) string {
	switch err {
	case vmerr.ERR_OVER_MAX_BIGINTEGER_SIZE:
		return "fault:oversize"
	case vmerr.ERR_DIV_MOD_BY_ZERO:
		return "fault:divzero"
	case vmerr.ERR_SHIFT_BY_NEG:
		return "fault:shiftneg"
	}
	return "fault:other(" + err.Error() + ")"
}

type outcome struct {
	fault string   // "" or fault:<kind>
	kind  string   // int | bigint | bool
	z     *big.Int // value (bool: 0/1)
}

func (o outcome) String() string {
	if o.fault != "" {
		return o.fault
	}
	return o.kind + ":" + o.z.String()
}

// same observable integer / boolean / fault (representation of the result and fault kind ignored)
func (o outcome) same(p outcome) bool {
	if (o.fault != "") != (p.fault != "") {
		return false
	}
	if o.fault != "" {
		return true
	}
	return (o.kind == "bool") == (p.kind == "bool") && o.z.Cmp(p.z) == 0
}

func runOp(op neovm.OpCode, operands []string) outcome {
	e := neovm.NewExecutor([]byte{}, neovm.VmFeatureFlag{})
	for _, s := range operands {
		v, _ := mkVal(s)
		if err := e.EvalStack.Push(v); err != nil {
			panic(err)
		}
	}
	state, err := e.ExecuteOp(op, e.Context)
	if err != nil {
		if state != neovm.FAULT {
			panic("error without FAULT state")
		}
		return outcome{fault: faultKind(err)}
	}
	if e.EvalStack.Count() != 1 {
		panic(fmt.Sprintf("stack has %d items after the opcode", e.EvalStack.Count()))
	}
	top, err := e.EvalStack.Pop()
	if err != nil {
		panic(err)
	}
	z, err := top.AsBigInt()
	if err != nil {
		panic(err)
	}
	return outcome{kind: top.VerifKind(), z: new(big.Int).Set(z)}
}

// ---------------------------------------------------------------- the specification (math/big, written independently)

type spec struct {
	fault  bool
	isBool bool
	z      *big.Int
}

func b2i(b bool) *big.Int {
	if b {
		return big.NewInt(1)
	}
	return big.NewInt(0)
}

func bounded(z *big.Int) spec {
	if !inBound(z) {
		return spec{fault: true}
	}
	return spec{z: z}
}

func specUnary(op string, x *big.Int) spec {
	if !inBound(x) {
		return spec{fault: true}
	}
	switch op {
	case "INC":
		return bounded(new(big.Int).Add(x, one))
	case "DEC":
		return bounded(new(big.Int).Sub(x, one))
	case "SIGN":
		return spec{z: big.NewInt(int64(x.Sign()))}
	case "NEGATE":
		return bounded(new(big.Int).Neg(x))
	case "ABS":
		return bounded(new(big.Int).Abs(x))
	case "INVERT": // two's complement: ^x = -x-1
		return bounded(new(big.Int).Sub(new(big.Int).Neg(x), one))
	case "NZ":
		return spec{isBool: true, z: b2i(x.Sign() != 0)}
	}
	panic("op")
}

// bit k of the infinite two's complement expansion, computed arithmetically: floor(z / 2^k) mod 2
func bitAt(z *big.Int, k int) uint {
	q := new(big.Int).Div(z, pow2(k)) // Euclidean = floor for positive divisor
	return uint(new(big.Int).Mod(q, big.NewInt(2)).Int64())
}

// bitwise op from the definition (bit by bit over 264 bits + sign), not from big.Int.And/Or/Xor
func bitwise(f func(a, b uint) uint, x, y *big.Int) *big.Int {
	const W = 272
	r := new(big.Int)
	for k := 0; k < W; k++ {
		if f(bitAt(x, k), bitAt(y, k)) == 1 {
			r.SetBit(r, k, 1)
		}
	}
	sx, sy := uint(0), uint(0)
	if x.Sign() < 0 {
		sx = 1
	}
	if y.Sign() < 0 {
		sy = 1
	}
	if f(sx, sy) == 1 { // negative result: subtract 2^W
		r.Sub(r, pow2(W))
	}
	return r
}

func specBinary(op string, x, y *big.Int) spec {
	if !inBound(x) || !inBound(y) {
		return spec{fault: true}
	}
	switch op {
	case "ADD":
		return bounded(new(big.Int).Add(x, y))
	case "SUB":
		return bounded(new(big.Int).Sub(x, y))
	case "MUL":
		return bounded(new(big.Int).Mul(x, y))
	case "DIV", "MOD":
		if y.Sign() == 0 {
			return spec{fault: true}
		}
		// truncated division from first principles: q = sign * (|x| div |y|), r = x - q*y
		q := new(big.Int).Div(new(big.Int).Abs(x), new(big.Int).Abs(y))
		if (x.Sign() < 0) != (y.Sign() < 0) {
			q.Neg(q)
		}
		if op == "DIV" {
			return bounded(q)
		}
		return bounded(new(big.Int).Sub(x, new(big.Int).Mul(q, y)))
	case "MAX":
		if x.Cmp(y) >= 0 {
			return spec{z: x}
		}
		return spec{z: y}
	case "MIN":
		if x.Cmp(y) <= 0 {
			return spec{z: x}
		}
		return spec{z: y}
	case "AND":
		return bounded(bitwise(func(a, b uint) uint { return a & b }, x, y))
	case "OR":
		return bounded(bitwise(func(a, b uint) uint { return a | b }, x, y))
	case "XOR":
		return bounded(bitwise(func(a, b uint) uint { return a ^ b }, x, y))
	case "SHL":
		if y.Sign() < 0 {
			return spec{fault: true}
		}
		if x.Sign() == 0 {
			return spec{z: big.NewInt(0)}
		}
		if y.Cmp(big.NewInt(300)) > 0 {
			return spec{fault: true}
		}
		return bounded(new(big.Int).Mul(x, pow2(int(y.Int64()))))
	case "SHR":
		if y.Sign() < 0 {
			return spec{fault: true}
		}
		if y.Cmp(big.NewInt(300)) > 0 {
			if x.Sign() < 0 {
				return spec{z: big.NewInt(-1)}
			}
			return spec{z: big.NewInt(0)}
		}
		return bounded(new(big.Int).Div(x, pow2(int(y.Int64())))) // floor
	case "LT":
		return spec{isBool: true, z: b2i(x.Cmp(y) < 0)}
	case "GT":
		return spec{isBool: true, z: b2i(x.Cmp(y) > 0)}
	case "LTE":
		return spec{isBool: true, z: b2i(x.Cmp(y) <= 0)}
	case "GTE":
		return spec{isBool: true, z: b2i(x.Cmp(y) >= 0)}
	case "NUMEQUAL":
		return spec{isBool: true, z: b2i(x.Cmp(y) == 0)}
	case "NUMNOTEQUAL":
		return spec{isBool: true, z: b2i(x.Cmp(y) != 0)}
	}
	panic("op")
}

var minInt64 = big.NewInt(math.MinInt64)
var two64 = pow2(64)

// verdict on one executed opcode; class names the site and the shape of the deviation
func judge(op string, xs []*big.Int, got outcome, want spec) (string, string) {
	if want.fault && got.fault != "" {
		return "", ""
	}
	if !want.fault && got.fault == "" && (got.kind == "bool") == want.isBool && got.z.Cmp(want.z) == 0 {
		return "", ""
	}
	desc := fmt.Sprintf("%s %v: implementation %s, exact semantics ", op, xs, got)
	if want.fault {
		desc += "fault"
	} else {
		desc += want.z.String()
	}
	switch {
	case op == "DIV" && len(xs) == 2 && xs[0].Cmp(minInt64) == 0 && xs[1].Cmp(big.NewInt(-1)) == 0 && got.fault == "":
		return desc, "div-minint64-by-minus1"
	case op == "INVERT" && want.fault && got.fault == "" && inBound(xs[0]):
		return desc, "invert-result-exceeds-bound"
	case op == "SHL" && !want.fault && got.fault != "" && xs[0].Sign() == 0 && xs[1].Cmp(big.NewInt(256)) > 0:
		return desc, "shl-zero-large-shift"
	case op == "SHR" && !want.fault && got.fault != "" && xs[1].Cmp(two64) >= 0:
		return desc, "shr-amount-over-uint64"
	case isCmp(op) && want.fault && got.fault == "" && got.kind == "bool":
		// the comparison itself must still be exact
		exact := specBinaryNoBound(op, xs[0], xs[1])
		if got.z.Cmp(exact) == 0 {
			return desc, "cmp-oversize-operand-no-fault"
		}
		return desc, "wrong-value:" + op
	case want.fault:
		return desc, "missing-fault:" + op
	case got.fault != "":
		return desc, "spurious-fault:" + op
	}
	return desc, "wrong-value:" + op
}

func specBinaryNoBound(op string, x, y *big.Int) *big.Int {
	c := x.Cmp(y)
	switch op {
	case "LT":
		return b2i(c < 0)
	case "GT":
		return b2i(c > 0)
	case "LTE":
		return b2i(c <= 0)
	case "GTE":
		return b2i(c >= 0)
	case "NUMEQUAL":
		return b2i(c == 0)
	}
	return b2i(c != 0)
}

func sizeKind(zs ...*big.Int) string {
	k := "small"
	for _, z := range zs {
		if !inBound(z) {
			return "oversize"
		}
		if !z.IsInt64() {
			k = "big"
		}
	}
	return k
}

func reprKinds(ops []string) string {
	s := ""
	for _, o := range ops {
		s += o[:1]
	}
	return s
}

// run the opcode on every combination of representations of the same integers; all must give the same observable result
func reprIndependent(code neovm.OpCode, xs []*big.Int, got outcome) (string, bool) {
	var combos [][]string
	combos = append(combos, nil)
	for _, x := range xs {
		var next [][]string
		for _, c := range combos {
			for _, rp := range reprs(x) {
				next = append(next, append(append([]string{}, c...), rp))
			}
		}
		combos = next
	}
	for _, c := range combos {
		if o := runOp(code, c); !o.same(got) {
			return fmt.Sprintf("operands %v give %s, the line's representation gives %s", c, o, got), false
		}
	}
	return "", true
}

func execVM(f []string) hx.Result {
	var opName string
	var operands []string
	var code neovm.OpCode
	switch f[0] {
	case "U":
		opName, operands = f[1], f[2:3]
		code = unaryOps[opName]
	case "B":
		opName, operands = f[1], f[2:4]
		code = binaryOps[opName]
	case "W":
		opName, operands, code = "WITHIN", f[1:4], neovm.WITHIN
	}
	if code == 0 {
		return hx.Result{Out: "bad-op"}
	}
	var xs []*big.Int
	for _, s := range operands {
		_, z := mkVal(s)
		xs = append(xs, z)
	}
	got := runOp(code, operands)
	var want spec
	switch f[0] {
	case "U":
		want = specUnary(opName, xs[0])
	case "B":
		want = specBinary(opName, xs[0], xs[1])
	case "W":
		if !inBound(xs[0]) || !inBound(xs[1]) || !inBound(xs[2]) {
			want = spec{fault: true}
		} else {
			want = spec{isBool: true, z: b2i(xs[1].Cmp(xs[0]) <= 0 && xs[0].Cmp(xs[2]) < 0)}
		}
	}
	res := hx.Result{Out: got.String(), Key: strings.Join(f, " ")}
	res.Kind = opName + ":" + sizeKind(xs...)
	if got.fault != "" {
		res.Kind += ":" + got.fault
	} else {
		res.Kind += ":" + got.kind
	}
	res.Fail, res.Class = judge(opName, xs, got, want)
	if res.Fail == "" {
		if msg, ok := reprIndependent(code, xs, got); !ok {
			res.Fail, res.Class = opName+": result depends on the operand representation: "+msg, "repr-dependence:"+opName
		}
	}
	return res
}

// ---------------------------------------------------------------- IntValue level (hook)

func mkIV(s string) (types.IntValue, *big.Int) {
	z := parseBig(s[1:])
	if s[0] == 's' {
		return types.VerifRawIntValue(false, z.Int64(), nil), z
	}
	return types.VerifRawIntValue(true, 0, new(big.Int).Set(z)), z
}

func ivOut(v types.IntValue, err error) (string, *big.Int) {
	if err != nil {
		return faultKind(err), nil
	}
	isbig, i, b := v.VerifParts()
	if isbig {
		return "b:" + b.String(), new(big.Int).Set(b)
	}
	return fmt.Sprintf("s:%d", i), big.NewInt(i)
}

var ivToOp = map[string]string{"add": "ADD", "sub": "SUB", "mul": "MUL", "div": "DIV", "mod": "MOD", "max": "MAX", "min": "MIN",
	"and": "AND", "or": "OR", "xor": "XOR", "lsh": "SHL", "rsh": "SHR", "not": "INVERT", "abs": "ABS"}

func execIV(f []string) hx.Result {
	op := f[1]
	a, az := mkIV(f[2])
	res := hx.Result{Key: strings.Join(f, " ")}
	res.Kind = "iv-" + op + ":" + f[2][:1]
	if len(f) == 3 {
		switch op {
		case "not", "abs":
			var r types.IntValue
			if op == "not" {
				r = a.Not()
			} else {
				r = a.Abs()
			}
			out, z := ivOut(r, nil)
			res.Out = out
			res.Fail, res.Class = judge(ivToOp[op], []*big.Int{az}, outcome{kind: "int", z: z}, specUnary(ivToOp[op], az))
		case "sign":
			res.Out = fmt.Sprint(a.Sign())
			if a.Sign() != az.Sign() {
				res.Fail, res.Class = "IntValue.Sign wrong", "wrong-value:iv-sign"
			}
		case "iszero":
			res.Out = hx.B(a.IsZero())
			if a.IsZero() != (az.Sign() == 0) {
				res.Fail, res.Class = "IntValue.IsZero wrong", "wrong-value:iv-iszero"
			}
		case "neo":
			bs := a.ToNeoBytes()
			res.Out = hx.Hex(bs)
			if tcDecode(bs).Cmp(az) != 0 {
				res.Fail, res.Class = "IntValue.ToNeoBytes does not denote the value", "wrong-value:iv-neo"
			}
		default:
			return hx.Result{Out: "bad-op"}
		}
		return res
	}
	b, bz := mkIV(f[3])
	res.Kind += f[3][:1]
	if op == "cmp" {
		c := a.Cmp(b)
		res.Out = fmt.Sprint(c)
		if c != az.Cmp(bz) {
			res.Fail, res.Class = "IntValue.Cmp wrong", "wrong-value:iv-cmp"
		}
		return res
	}
	var r types.IntValue
	var err error
	switch op {
	case "add":
		r, err = a.Add(b)
	case "sub":
		r, err = a.Sub(b)
	case "mul":
		r, err = a.Mul(b)
	case "div":
		r, err = a.Div(b)
	case "mod":
		r, err = a.Mod(b)
	case "max":
		r, err = a.Max(b)
	case "min":
		r, err = a.Min(b)
	case "and":
		r, err = a.And(b)
	case "or":
		r, err = a.Or(b)
	case "xor":
		r, err = a.Xor(b)
	case "lsh":
		r, err = a.Lsh(b)
	case "rsh":
		r, err = a.Rsh(b)
	default:
		return hx.Result{Out: "bad-op"}
	}
	out, z := ivOut(r, err)
	res.Out = out
	got := outcome{kind: "int", z: z}
	if err != nil {
		got = outcome{fault: out}
		res.Kind += ":fault"
	}
	res.Fail, res.Class = judge(ivToOp[op], []*big.Int{az, bz}, got, specBinary(ivToOp[op], az, bz))
	return res
}

func exec(line string) hx.Result {
	f := strings.Fields(line)
	if len(f) < 3 {
		return hx.Result{Out: "bad-op"}
	}
	switch f[0] {
	case "U", "B", "W":
		if (f[0] == "U" && len(f) != 3) || (f[0] != "U" && len(f) != 4) {
			return hx.Result{Out: "bad-op"}
		}
		return execVM(f)
	case "V":
		return execIV(f)
	}
	return hx.Result{Out: "bad-op"}
}

func main() {
	hx.Main(hx.Prop{
		ID:   "C13",
		Rule: "every integer opcode through Executor.ExecuteOp with operands from {0,±1,±2,±2^31,±2^63∓{0,1,2},±2^64∓…,±2^127,±2^255∓{0,1,2},±2^256∓{0,1,2}} ∪ random (≤ 33 bytes), each pushed as int64 / raw bigint / minimal bytes / sign-padded bytes / bool; shift amounts at 0,63,64,255,256,257,2^63,2^64,negative; IntValue methods on explicit small/big representations (hook). Every line also re-runs the opcode on all other representations of the same integers. Non-trivial = distinct line; kinds = op:operand size:result kind",
		Gen:  gen,
		Exec: exec,
		Corpus: []string{
			"B DIV i-9223372036854775808 i-1", "B DIV g-9223372036854775808 g-1", "B MOD i-9223372036854775808 i-1", "B MUL i-9223372036854775808 i-1", "B MUL i-1 i-9223372036854775808",
			"B MUL i3037000500 i3037000500", "B MUL i3037000499 i3037000499", "B ADD i9223372036854775807 i1", "B SUB i-9223372036854775808 i1", "B SUB i0 i-9223372036854775808",
			"U NEGATE i-9223372036854775808", "U ABS i-9223372036854775808", "U INC i9223372036854775807", "U DEC i-9223372036854775808",
			"U INVERT g115792089237316195423570985008687907853269984665640564039457584007913129639935", "U INVERT g-115792089237316195423570985008687907853269984665640564039457584007913129639935",
			"U INC g115792089237316195423570985008687907853269984665640564039457584007913129639935", "U INVERT i-1", "U INVERT i0",
			"B SHL i0 i257", "B SHL i0 i256", "B SHL i1 i255", "B SHL i1 i256", "B SHL i-1 i256", "B SHL i0 g18446744073709551616", "B SHR i5 g18446744073709551616", "B SHR i-5 g18446744073709551615",
			"B SHR i-5 i257", "B SHR i-5 i-1", "B SHR i-1 i1", "B SHR i-9223372036854775808 i63", "B SHR i-9223372036854775808 i64",
			"B LT g115792089237316195423570985008687907853269984665640564039457584007913129639936 i0", "B NUMEQUAL b000000000000000000000000000000000000000000000000000000000000000001 g115792089237316195423570985008687907853269984665640564039457584007913129639936",
			"B ADD g115792089237316195423570985008687907853269984665640564039457584007913129639936 i0", "B AND g-115792089237316195423570985008687907853269984665640564039457584007913129639935 g-115792089237316195423570985008687907853269984665640564039457584007913129639934",
			"B AND i-1 i255", "B OR i-256 i255", "B XOR i-1 i-9223372036854775808", "B AND g-18446744073709551616 i-1", "B DIV i7 i-2", "B MOD i-7 i2", "B DIV i-7 i2", "B MOD i7 i-2", "B DIV i1 i0", "B MOD f t",
			"W i5 i5 i6", "W i6 i5 i6", "W t f b0200", "V div s-9223372036854775808 s-1", "V div b-9223372036854775808 b-1", "V add b5 b3", "V mul b-1 s-9223372036854775808", "V abs s-9223372036854775808",
			"V not b115792089237316195423570985008687907853269984665640564039457584007913129639935", "V lsh s0 s257", "V rsh s-1 b18446744073709551616", "V cmp b5 s5",
		},
		N: map[string]int{"quick": 30000, "thorough": 1000000},
	})
}
