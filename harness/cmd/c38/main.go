// C38 harness: the real account.ClientImpl on a wallet file under /verif/build/tmp, driven by operation sequences
// (create / import / delete / set default / relabel / change password / change scheme / reopen), with LOW-COST scrypt
// parameters taken from the wallet file (parameter set 1: N=2 r=1 p=1; set 2, "foreign": N=4; set 0: the library default
// N=16384 r=8 p=8, used sparingly because every key derivation then costs ~0.1-0.4 s).
//
//	W <prm> op;op;…        (op grammar: lean/OntVerif/OntVerif/Driver/C38.lean)
//
// Output = per-op error class + the observable state through the public getters. Predicate, on the implementation's own
// outputs: (reload) a client reopened from the file answers every getter and a final SetLabel probe exactly like the live
// one; (password) every listed account opens with its current password - yielding the key of its address - and with no
// other password of the vocabulary; (default) exactly one account is flagged default, it is the one the default getter returns and
// the last one set, live and reopened.
package main

import (
	"crypto/elliptic"
	"encoding/hex"
	"fmt"
	"os"
	"path/filepath"
	"strconv"
	"strings"

	"github.com/ontio/ontology-crypto/ec"
	"github.com/ontio/ontology-crypto/keypair"
	s "github.com/ontio/ontology-crypto/signature"
	"github.com/ontio/ontology/account"
	"github.com/ontio/ontology/core/types"
	"verif/harness/internal/hx"
)

var prms = map[int]*keypair.ScryptParam{
	0: {N: 16384, R: 8, P: 8, DKLen: 64},
	1: {N: 2, R: 1, P: 1, DKLen: 64},
	2: {N: 4, R: 1, P: 1, DKLen: 64},
}

type person struct {
	prv  keypair.PrivateKey
	addr string
	pub  string
}

var (
	persons []person
	tmpDir  string
	lineNo  int
)

func initOnce() {
	for i := 0; i < 6; i++ {
		d := make([]byte, 32)
		d[0], d[31] = 0x11, byte(i+1)
		prv := &ec.PrivateKey{Algorithm: ec.ECDSA, PrivateKey: ec.ConstructPrivateKey(d, elliptic.P256())}
		pub := prv.Public()
		addr := types.AddressFromPubKey(pub)
		persons = append(persons, person{prv, addr.ToBase58(), hex.EncodeToString(keypair.SerializePublicKey(pub))})
	}
	base := os.Getenv("HX_TMP")
	if base == "" {
		base = "/verif/build/tmp"
	}
	tmpDir = filepath.Join(base, fmt.Sprintf("c38-%d", os.Getpid()))
	os.RemoveAll(tmpDir)
	os.MkdirAll(tmpDir, 0o755)
}

func pwBytes(p uint64) []byte {
	if p == 0 {
		return []byte{}
	}
	return []byte("pw" + strconv.FormatUint(p, 10))
}

func lab(l string) string {
	if l == "-" {
		return ""
	}
	return l
}
func labW(l string) string {
	if l == "" {
		return "-"
	}
	return l
}

func algName(a uint64) string {
	switch a {
	case 0:
		return "ECDSA"
	case 1:
		return "SM2"
	case 2:
		return "Ed25519"
	}
	return "Foo"
}

func errClass(err error, nilAcc bool) string {
	if err == nil {
		if nilAcc {
			return "noaccount"
		}
		return "ok"
	}
	m := err.Error()
	switch {
	case strings.Contains(m, "password cannot empty"):
		return "emptypw"
	case strings.Contains(m, "does not match KeyType"):
		return "sigscheme"
	case strings.Contains(m, "duplicate label"):
		return "duplabel"
	case strings.Contains(m, "duplicate address"), strings.Contains(m, "already exist"):
		return "dupaddr"
	case strings.Contains(m, "cannot find account"):
		return "noaccount"
	case strings.Contains(m, "cannot delete default"):
		return "isdefault"
	case strings.Contains(m, "new password cannot"), strings.Contains(m, "empty password"):
		return "emptypw"
	default:
		return "decrypt" // keypair decrypt errors (cipher: message authentication failed / invalid argument)
	}
}

type world struct {
	path    string
	cli     *account.ClientImpl
	prm     int
	newAddr map[int]string // j -> address of the account made by the j-th `new`
	refOf   map[string]string
	news    int
	// shadow for the password predicate
	curPw   map[string]uint64
	origin  map[string]string // "new" | "import" | "foreign" | "changed"
	dupAddr bool
	others  int
	keep    []*account.ClientImpl // the other wallets opened in this process stay alive
	expDefault string // shadow: the account that must be the default = first account of the wallet, then the last SetDefaultAccount
}

func (w *world) addr(ref string) (string, bool) {
	if len(ref) < 2 {
		return "", false
	}
	n, err := strconv.Atoi(ref[1:])
	if err != nil {
		return "", false
	}
	switch ref[0] {
	case 'k':
		if n < len(persons) {
			return persons[n].addr, true
		}
		return "", false
	case 'n':
		if a, ok := w.newAddr[n]; ok {
			return a, true
		}
		return fmt.Sprintf("Anonexistent%d", n), true // never in a wallet
	}
	return "", false
}

func (w *world) metaStr(m *account.AccountMetadata) string {
	if m == nil {
		return "-"
	}
	ref, ok := w.refOf[m.Address]
	if !ok {
		ref = "?" + m.Address
	}
	sch, err := s.GetScheme(m.SigSch)
	schS := "?"
	if err == nil {
		schS = strconv.Itoa(int(sch))
	}
	return fmt.Sprintf("%s/%s/%s/%s", ref, labW(m.Label), hx.B(m.IsDefault), schS)
}

type vocab struct {
	labels []string
	pws    []uint64
	refs   []string
}

func vocabulary(ops []string) vocab {
	var v vocab
	seenL := map[string]bool{}
	addL := func(l string) {
		if l == "-" {
			return
		}
		for _, x := range []string{l, l + "_1", l + "_1_1"} {
			if !seenL[x] {
				seenL[x] = true
				v.labels = append(v.labels, x)
			}
		}
	}
	seenP := map[uint64]bool{}
	addP := func(sv string) {
		p, err := strconv.ParseUint(sv, 10, 64)
		if err == nil && p != 0 && !seenP[p] {
			seenP[p] = true
			v.pws = append(v.pws, p)
		}
	}
	for _, p := range []string{"1", "2", "3"} {
		addP(p)
	}
	news := 0
	for _, op := range ops {
		f := strings.Split(op, ":")
		switch {
		case f[0] == "new" && len(f) == 4:
			addL(f[1])
			addP(f[3])
			news++
		case f[0] == "imp" && (len(f) == 7 || len(f) == 8):
			addL(f[2])
			addP(f[5])
		case f[0] == "lab" && len(f) == 3:
			addL(f[2])
		case f[0] == "del" && len(f) == 3:
			addP(f[2])
		case f[0] == "pw" && len(f) == 4:
			addP(f[2])
			addP(f[3])
		}
	}
	for i := 0; i < 6; i++ {
		v.refs = append(v.refs, fmt.Sprintf("k%d", i))
	}
	for j := 1; j <= news; j++ {
		v.refs = append(v.refs, fmt.Sprintf("n%d", j))
	}
	return v
}

// dump = every getter over the vocabulary; opens[i] = vocabulary passwords that open account i to the key of its address
func (w *world) dump(cli *account.ClientImpl, v vocab) (string, [][]uint64) {
	n := len(cli.GetWalletData().Accounts)
	var idx []string
	for i := 1; i <= n+1; i++ {
		idx = append(idx, w.metaStr(cli.GetAccountMetadataByIndex(i)))
	}
	var byA []string
	for _, r := range v.refs {
		a, _ := w.addr(r)
		byA = append(byA, r+"="+w.metaStr(cli.GetAccountMetadataByAddress(a)))
	}
	var byL []string
	for _, l := range v.labels {
		byL = append(byL, l+"="+w.metaStr(cli.GetAccountMetadataByLabel(l)))
	}
	var opens []string
	var openSets [][]uint64
	for i := 1; i <= n; i++ {
		m := cli.GetAccountMetadataByIndex(i)
		var good []string
		var set []uint64
		for _, p := range v.pws {
			acc, err := cli.GetAccountByIndex(i, pwBytes(p))
			if err == nil && acc != nil && m != nil && acc.Address.ToBase58() == m.Address {
				good = append(good, strconv.FormatUint(p, 10))
				set = append(set, p)
			}
		}
		g := "-"
		if len(good) > 0 {
			g = strings.Join(good, "+")
		}
		opens = append(opens, fmt.Sprintf("%d:%s", i-1, g))
		openSets = append(openSets, set)
	}
	return fmt.Sprintf("num=%d;idx=%s;def=%s;addr=%s;lab=%s;open=%s", cli.GetAccountNum(), strings.Join(idx, ","),
		w.metaStr(cli.GetDefaultAccountMetadata()), strings.Join(byA, ","), strings.Join(byL, ","), strings.Join(opens, ",")), openSets
}

func probe(cli *account.ClientImpl) string {
	for _, a := range cli.GetWalletData().Accounts {
		if a.Label != "" {
			return errClass(cli.SetLabel(a.Address, ""), false)
		}
	}
	return "-"
}

func exec(line string) hx.Result {
	f := strings.Fields(line)
	if len(f) != 3 || f[0] != "W" {
		return hx.Result{Out: "bad-op"}
	}
	prm, err := strconv.Atoi(f[1])
	if err != nil || prms[prm] == nil {
		return hx.Result{Out: "bad-op"}
	}
	lineNo++
	w := &world{path: filepath.Join(tmpDir, fmt.Sprintf("w%d.dat", lineNo)), prm: prm, newAddr: map[int]string{}, refOf: map[string]string{},
		curPw: map[string]uint64{}, origin: map[string]string{}}
	defer os.Remove(w.path)
	defer os.Remove(w.path + "~")
	for i, p := range persons {
		w.refOf[p.addr] = fmt.Sprintf("k%d", i)
	}
	if prm != 0 {
		sp := prms[prm]
		os.WriteFile(w.path, []byte(fmt.Sprintf(`{"name":"MyWallet","version":"1.1","scrypt":{"p":%d,"n":%d,"r":%d,"dkLen":%d},"accounts":[]}`, sp.P, sp.N, sp.R, sp.DKLen)), 0o644)
	}
	w.cli, err = account.NewClientImpl(w.path)
	if err != nil {
		return hx.Result{Out: "open-error"}
	}
	ops := strings.Split(f[2], ";")
	v := vocabulary(ops)
	kinds := map[string]bool{}
	var outs []string
	for _, op := range ops {
		p := strings.Split(op, ":")
		var o string
		switch {
		case p[0] == "new" && len(p) == 4:
			sch, e1 := strconv.Atoi(p[2])
			pw, e2 := strconv.ParseUint(p[3], 10, 64)
			if e1 != nil || e2 != nil || sch > 11 {
				return hx.Result{Out: "bad-op"}
			}
			w.news++
			wasEmpty := len(w.cli.GetWalletData().Accounts) == 0
			acc, err := w.cli.NewAccount(lab(p[1]), keypair.PK_ECDSA, keypair.P256, s.SignatureScheme(sch), pwBytes(pw))
			o = errClass(err, false)
			if err == nil {
				a := acc.Address.ToBase58()
				w.newAddr[w.news] = a
				w.refOf[a] = fmt.Sprintf("n%d", w.news)
				w.curPw[a], w.origin[a] = pw, "new"
				kinds["new"] = true
				if wasEmpty {
					w.expDefault = a
				}
			}
		case p[0] == "imp" && (len(p) == 7 || len(p) == 8):
			metaDefault := len(p) == 8 && p[7] == "1" // the metadata's IsDefault (exported from a wallet where it was the default)
			k, e1 := strconv.Atoi(p[1])
			alg, e2 := strconv.ParseUint(p[3], 10, 8)
			sch, e3 := strconv.Atoi(p[4])
			pw, e4 := strconv.ParseUint(p[5], 10, 64)
			ip, e5 := strconv.Atoi(p[6])
			if e1 != nil || e2 != nil || e3 != nil || e4 != nil || e5 != nil || k >= len(persons) || sch > 11 || prms[ip] == nil {
				return hx.Result{Out: "bad-op"}
			}
			ps := persons[k]
			prot, err := keypair.EncryptWithCustomScrypt(ps.prv, ps.addr, pwBytes(pw), prms[ip])
			if err != nil {
				return hx.Result{Out: "bad-op"}
			}
			had := w.cli.GetAccountMetadataByAddress(ps.addr) != nil
			wasEmpty := len(w.cli.GetWalletData().Accounts) == 0
			if metaDefault {
				kinds["import-flagged-default"] = true
			}
			err = w.cli.ImportAccount(&account.AccountMetadata{IsDefault: metaDefault, Label: lab(p[2]), KeyType: algName(alg), Curve: prot.Param["curve"], Address: ps.addr,
				PubKey: ps.pub, SigSch: s.SignatureScheme(sch).Name(), Salt: prot.Salt, Key: prot.Key, EncAlg: prot.EncAlg, Hash: prot.Hash})
			o = errClass(err, false)
			if err == nil {
				if had {
					w.dupAddr = true
					kinds["dup-address"] = true
				}
				if wasEmpty {
					w.expDefault = ps.addr
				}
				w.curPw[ps.addr] = pw
				if ip == prm && pw != 0 {
					w.origin[ps.addr] = "import"
				} else {
					w.origin[ps.addr] = "foreign"
					kinds["foreign-import"] = true
				}
			}
		case p[0] == "del" && len(p) == 3:
			a, ok := w.addr(p[1])
			pw, e := strconv.ParseUint(p[2], 10, 64)
			if !ok || e != nil {
				return hx.Result{Out: "bad-op"}
			}
			acc, err := w.cli.DeleteAccount(a, pwBytes(pw))
			o = errClass(err, acc == nil)
			if o == "ok" {
				kinds["deleted"] = true
			}
		case p[0] == "def" && len(p) == 2:
			a, ok := w.addr(p[1])
			if !ok {
				return hx.Result{Out: "bad-op"}
			}
			o = errClass(w.cli.SetDefaultAccount(a), false)
			if o == "ok" {
				w.expDefault = a
				kinds["default-moved"] = true
			}
		case p[0] == "lab" && len(p) == 3:
			a, ok := w.addr(p[1])
			if !ok {
				return hx.Result{Out: "bad-op"}
			}
			o = errClass(w.cli.SetLabel(a, lab(p[2])), false)
			if o == "ok" && p[2] == "-" {
				kinds["empty-label"] = true
			}
		case p[0] == "pw" && len(p) == 4:
			a, ok := w.addr(p[1])
			op_, e1 := strconv.ParseUint(p[2], 10, 64)
			np, e2 := strconv.ParseUint(p[3], 10, 64)
			if !ok || e1 != nil || e2 != nil {
				return hx.Result{Out: "bad-op"}
			}
			o = errClass(w.cli.ChangePassword(a, pwBytes(op_), pwBytes(np)), false)
			if o == "ok" && op_ != np {
				w.curPw[a], w.origin[a] = np, "changed"
				kinds["pw-changed"] = true
				if np == 0 {
					kinds["empty-new-pw"] = true
				}
			}
		case p[0] == "sch" && len(p) == 3:
			a, ok := w.addr(p[1])
			sch, e := strconv.Atoi(p[2])
			if !ok || e != nil || sch > 11 {
				return hx.Result{Out: "bad-op"}
			}
			o = errClass(w.cli.ChangeSigScheme(a, s.SignatureScheme(sch)), false)
		case p[0] == "ow" && len(p) == 2:
			// another wallet file with its own scrypt parameters is opened - and used - in the same process, and stays alive
			op, err := strconv.Atoi(p[1])
			if err != nil || prms[op] == nil {
				return hx.Result{Out: "bad-op"}
			}
			w.others++
			path2 := fmt.Sprintf("%s.other%d", w.path, w.others)
			sp := prms[op]
			os.WriteFile(path2, []byte(fmt.Sprintf(`{"name":"Other","version":"1.1","scrypt":{"p":%d,"n":%d,"r":%d,"dkLen":%d},"accounts":[]}`, sp.P, sp.N, sp.R, sp.DKLen)), 0o644)
			defer os.Remove(path2)
			defer os.Remove(path2 + "~")
			c2, err := account.NewClientImpl(path2)
			if err != nil {
				return hx.Result{Out: "open-other-error"}
			}
			ps := persons[5]
			if prot, err := keypair.EncryptWithCustomScrypt(ps.prv, ps.addr, pwBytes(1), prms[1]); err == nil { // a save in the other wallet
				c2.ImportAccount(&account.AccountMetadata{Label: "o", KeyType: "ECDSA", Curve: prot.Param["curve"], Address: ps.addr, PubKey: ps.pub,
					SigSch: s.SHA256withECDSA.Name(), Salt: prot.Salt, Key: prot.Key, EncAlg: prot.EncAlg, Hash: prot.Hash})
			}
			w.keep = append(w.keep, c2)
			o = "ok"
			if op != prm {
				kinds["other-wallet-foreign-scrypt"] = true
			} else {
				kinds["other-wallet"] = true
			}
		case p[0] == "rl" && len(p) == 1:
			c2, err := account.NewClientImpl(w.path)
			if err != nil {
				return hx.Result{Out: "reopen-error"}
			}
			w.cli = c2
			o = "ok"
			kinds["reopened"] = true
		default:
			return hx.Result{Out: "bad-op"}
		}
		if o != "ok" {
			kinds["err:"+o] = true
		}
		outs = append(outs, o)
	}
	live, openSets := w.dump(w.cli, v)
	res := hx.Result{}
	// reload predicate: reopen from the file and compare every observable, then the SetLabel("") probe on both
	var reDump, reProbe string
	if c2, err := account.NewClientImpl(w.path); err == nil {
		reDump, _ = w.dump(c2, v)
		reProbe = probe(c2)
	} else if len(w.cli.GetWalletData().Accounts) == 0 && !fileExists(w.path) {
		reDump, reProbe = live, "-" // nothing was ever saved: a fresh client is the reload
	} else {
		reDump = "reopen-error"
	}
	liveProbe := probe(w.cli)
	res.Out = strings.Join(outs, "|") + " # " + live + ";probe=" + liveProbe
	if reDump != live {
		sec := firstDiff(live, reDump)
		if w.dupAddr {
			res.Fail, res.Class = "reopened wallet differs from the live one after a duplicate-address import: "+sec, "import-duplicate-address-breaks-index"
		} else {
			res.Fail, res.Class = "reopened wallet differs from the live one: "+sec, "reload-mismatch-"+strings.SplitN(sec, "=", 2)[0]
		}
	} else if reProbe != liveProbe {
		res.Fail, res.Class = fmt.Sprintf("SetLabel(a,\"\") answers %s on the live wallet and %s after reopening", liveProbe, reProbe), "setlabel-empty-poisons-label-index"
	}
	// default predicate: exactly one account flagged default (none in an empty wallet), it is what GetDefaultAccountMetadata
	// returns, and it is the last one set - on the live client and on the reopened one
	if res.Fail == "" {
		checkDefault := func(cli *account.ClientImpl, who string) {
			n := len(cli.GetWalletData().Accounts)
			flagged := 0
			for i := 1; i <= n; i++ {
				if m := cli.GetAccountMetadataByIndex(i); m != nil && m.IsDefault {
					flagged++
				}
			}
			want := 1
			if n == 0 {
				want = 0
			}
			d := cli.GetDefaultAccountMetadata()
			switch {
			case res.Fail != "":
			case flagged != want:
				res.Fail, res.Class = fmt.Sprintf("%s wallet: %d accounts are flagged default (expected %d)", who, flagged, want), "default-flag-count"
			case n > 0 && (d == nil || !d.IsDefault):
				res.Fail, res.Class = who+" wallet: the default account pointer is missing or points to an unflagged account", "default-pointer-unflagged"
			case n > 0 && d.Address != w.expDefault:
				res.Fail, res.Class = fmt.Sprintf("%s wallet: default is %s, the last one set is %s", who, w.refOf[d.Address], w.refOf[w.expDefault]), "default-not-last-set"
			}
		}
		checkDefault(w.cli, "live")
		if c2, err := account.NewClientImpl(w.path); err == nil && fileExists(w.path) {
			checkDefault(c2, "reopened")
		}
	}
	// password predicate
	if res.Fail == "" && !w.dupAddr {
		for i, a := range w.cli.GetWalletData().Accounts {
			org := w.origin[a.Address]
			if org == "foreign" || org == "" {
				continue // the caller handed in a record that was not encrypted for this wallet
			}
			cp := w.curPw[a.Address]
			okCur, other := false, false
			for _, p := range openSets[i] {
				if p == cp {
					okCur = true
				} else {
					other = true
				}
			}
			switch {
			case other:
				res.Fail, res.Class = fmt.Sprintf("account %s opens with a password that is not its current one", w.refOf[a.Address]), "other-password-accepted"
			case !okCur && org == "new" && prm != 0:
				res.Fail, res.Class = fmt.Sprintf("account %s made by NewAccount does not open with its password: encrypted with the default scrypt parameters, wallet uses others", w.refOf[a.Address]), "newaccount-ignores-wallet-scrypt"
			case !okCur && cp == 0:
				res.Fail, res.Class = fmt.Sprintf("account %s was given the empty password by ChangePassword and can never be opened", w.refOf[a.Address]), "changepassword-empty-password"
			case !okCur:
				res.Fail, res.Class = fmt.Sprintf("account %s does not open with its current password", w.refOf[a.Address]), "current-password-rejected"
			}
			if res.Fail != "" {
				break
			}
		}
	}
	res.Kind = "plain"
	for _, k := range []string{"dup-address", "empty-new-pw", "other-wallet-foreign-scrypt", "other-wallet", "import-flagged-default", "default-moved", "empty-label", "new", "foreign-import", "deleted", "pw-changed", "reopened"} {
		if kinds[k] {
			res.Kind = k
			break
		}
	}
	if len(w.cli.GetWalletData().Accounts) > 0 {
		res.Key = line
	}
	return res
}

func fileExists(p string) bool { _, err := os.Stat(p); return err == nil }

func firstDiff(a, b string) string {
	as, bs := strings.Split(a, ";"), strings.Split(b, ";")
	for i := range as {
		if i >= len(bs) || as[i] != bs[i] {
			if i < len(bs) {
				return as[i] + " vs " + bs[i]
			}
			return as[i]
		}
	}
	return "?"
}

func main() {
	hx.Main(hx.Prop{
		ID: "C38",
		Rule: "operation sequences (3-14 ops) on the real ClientImpl with a wallet file under build/tmp and low-cost scrypt parameters in the file: imports of 6 deterministic keys " +
			"(same key twice, foreign scrypt parameters, empty password, bad key type / scheme, metadata flagged default or not - into empty and non-empty wallets), NewAccount, deletes (default, wrong password), " +
			"set default, relabel (duplicate, empty, same), another wallet file with other / equal scrypt parameters opened and used in the same process, password changes (wrong old, same, empty new), scheme changes, reopen in the middle. Non-trivial = the wallet ends with >= 1 account",
		Gen:    gen,
		Exec:   exec,
		Init:   initOnce,
		Corpus: corpus,
		N:      map[string]int{"quick": 1000, "thorough": 20000},
	})
	os.RemoveAll(tmpDir)
}
