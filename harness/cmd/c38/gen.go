package main

import (
	"fmt"
	"strings"

	"verif/harness/internal/hx"
)

var corpus = []string{
	// default-parameter wallet (slow kdf): create, reopen, change password
	"W 0 new:a:1:1;pw:n1:1:2;rl",
	// low-cost wallet: NewAccount must encrypt with the wallet's parameters (was a finding)
	"W 1 new:a:1:1",
	// imports, duplicate label renamed, delete with wrong / right password, default moves
	"W 1 imp:0:a:0:1:1:1;imp:1:a:0:1:2:1;imp:2:a:0:1:3:1;del:k1:9;del:k1:2;def:k2;del:k0:1;del:k2:3",
	// the same key twice: refused (was a finding: list and index disagreed after the delete)
	"W 1 imp:0:a:0:1:1:1;imp:0:b:0:1:2:1;del:k0:2",
	// SetLabel(a, \"\") twice (was a finding: the empty label was indexed)
	"W 1 imp:0:a:0:1:1:1;imp:1:b:0:1:1:1;lab:k0:-;lab:k1:-",
	// ChangePassword to the empty password is refused (was a finding)
	"W 1 imp:0:a:0:1:1:1;pw:k0:1:0",
	// password chain, wrong old, same, scheme changes valid / invalid, foreign-parameter import
	"W 1 imp:0:a:0:1:1:1;pw:k0:2:3;pw:k0:1:1;pw:k0:1:2;pw:k0:2:3;sch:k0:5;sch:k0:9;sch:k0:11;imp:1:b:0:1:1:2;imp:2:c:3:1:1:1;imp:3:d:0:9:1:1;rl;pw:k0:3:1",
	"W 1 def:k0;lab:k0:x;pw:k0:1:2;del:k0:1;sch:k0:1;rl",
	// another wallet file with other scrypt parameters is opened in the same process: this wallet must keep its own
	"W 1 imp:0:a:0:1:1:1:0;ow:2;pw:k0:1:2;imp:1:b:0:1:3:1:0;rl;ow:1;new:c:1:2",
	// metadata flagged default: into an empty wallet, into a wallet with a default; then the default moves back and forth
	"W 1 imp:0:a:0:1:1:1:1;imp:1:b:0:1:1:1:1;imp:2:c:0:1:1:1:0;def:k2;def:k0;del:k1:1;rl;def:k2;del:k0:1",
}

var labelPool = []string{"a", "b", "c", "a_1", "-", "-", "zz"}

func gen(r *hx.Rand, tier string, i int) string {
	prm := 1
	if tier == "thorough" && r.Intn(1000) < 2 {
		prm = 0
	} else if r.Chance(5) {
		prm = 2
	}
	n := 3 + r.Intn(12)
	if prm == 0 {
		n = 2 + r.Intn(2)
	}
	var ops []string
	type acct struct {
		ref string
		pw  int
	}
	var accts []acct // what the generator believes is in the wallet
	news := 0
	pick := func() (string, int) {
		if len(accts) > 0 && r.Chance(85) {
			a := accts[r.Intn(len(accts))]
			return a.ref, a.pw
		}
		return fmt.Sprintf("k%d", r.Intn(6)), 1 + r.Intn(3)
	}
	setPw := func(ref string, pw int) {
		for j := range accts {
			if accts[j].ref == ref {
				accts[j].pw = pw
			}
		}
	}
	pwOr := func(pw int) int { // mostly the right password
		if r.Chance(20) {
			return 1 + r.Intn(4)
		}
		if r.Chance(4) {
			return 0
		}
		return pw
	}
	for len(ops) < n {
		x := r.Intn(100)
		switch {
		case x < 30 || len(accts) == 0:
			if (prm != 0 && r.Chance(25) && news < 3) || (prm == 0 && news < 1) { // NewAccount (costs one scrypt at the wallet's parameters: slow only in a `W 0` wallet)
				news++
				pw := 1 + r.Intn(3)
				if r.Chance(5) {
					pw = 0
				}
				sch := 1
				if r.Chance(10) {
					sch = []int{0, 5, 9, 10, 11}[r.Intn(5)]
				}
				ops = append(ops, fmt.Sprintf("new:%s:%d:%d", labelPool[r.Intn(len(labelPool))], sch, pw))
				if pw != 0 && sch <= 8 {
					accts = append(accts, acct{fmt.Sprintf("n%d", news), pw})
				}
			} else {
				k := r.Intn(6)
				for try := 0; try < 4 && !r.Chance(6); try++ { // mostly a key that is not in the wallet yet
					dup := false
					for _, a := range accts {
						if a.ref == fmt.Sprintf("k%d", k) {
							dup = true
						}
					}
					if !dup {
						break
					}
					k = r.Intn(6)
				}
				pw := 1 + r.Intn(3)
				if r.Chance(4) {
					pw = 0
				}
				alg, sch, ip := 0, 1, prm
				if r.Chance(6) {
					alg = 3
				}
				if r.Chance(8) {
					sch = []int{0, 3, 5, 8, 9, 10, 11}[r.Intn(7)]
				}
				if r.Chance(6) && prm != 0 {
					ip = 3 - prm // the other low-cost set
				}
				ops = append(ops, fmt.Sprintf("imp:%d:%s:%d:%d:%d:%d:%s", k, labelPool[r.Intn(len(labelPool))], alg, sch, pw, ip, hx.B(r.Chance(40))))
				if r.Chance(35) && len(accts) > 0 { // move the default right after an import: before / after it in file order
					ops = append(ops, "def:"+accts[r.Intn(len(accts))].ref)
				}
				accts = append(accts, acct{fmt.Sprintf("k%d", k), pw})
			}
		case x < 45:
			ref, pw := pick()
			ops = append(ops, fmt.Sprintf("del:%s:%d", ref, pwOr(pw)))
		case x < 57:
			ref, _ := pick()
			ops = append(ops, "def:"+ref)
		case x < 72:
			ref, _ := pick()
			ops = append(ops, fmt.Sprintf("lab:%s:%s", ref, labelPool[r.Intn(len(labelPool))]))
		case x < 88:
			ref, pw := pick()
			old := pwOr(pw)
			nw := 1 + r.Intn(4)
			if r.Chance(5) {
				nw = 0
			}
			if r.Chance(8) {
				nw = old
			}
			ops = append(ops, fmt.Sprintf("pw:%s:%d:%d", ref, old, nw))
			if old == pw {
				setPw(ref, nw)
			}
		case x < 94:
			ref, _ := pick()
			ops = append(ops, fmt.Sprintf("sch:%s:%d", ref, []int{0, 1, 2, 5, 8, 9, 11}[r.Intn(7)]))
		case x < 97:
			ops = append(ops, fmt.Sprintf("ow:%d", 1+r.Intn(2))) // another wallet: equal (control) or other low-cost parameters; never the 16384 default, which would make a broken tree crawl
		default:
			ops = append(ops, "rl")
		}
	}
	return fmt.Sprintf("W %d %s", prm, strings.Join(ops, ";"))
}
