// C33 harness: the header-sync native contract (syncGenesisHeader / syncBlockHeader) driven through NativeService
// over a CacheDB on a memory store, with stored consensus-peer sets and crafted side-chain headers signed by real keys.
//
// Line:  S op;op;...
//   g<w>:<chain>:<height>:<cfg>                  syncGenesisHeader; w=1: the transaction carries the operator's witness
//   b:<chain>:<height>:<bks>:<sigs>:<cfg>        syncBlockHeader with ONE header
//   cfg   = "-" (payload without new_chain_config) | "!" (payload is not JSON) | "p" id.id...  (new peer set; "p" = empty set)
//   id    = index into the key pool (0..NKEYS-1), or >= 100: a peer id string that is nobody's public key; optionally id@idx where
//           idx is the uint32 PeerConfig.Index stored with the peer (default: position+1). The index is opaque data: the
//           property and the model do not depend on it
//   bks   = "-" | k.k.k  (pool indexes, in header order, duplicates allowed)
//   sigs  = "-" | tok.tok  with tok = s<k> (signature of pool key k over this header's hash) | w<k> (signature of k over
//           another message) | x (bytes that are not a signature)
// Output: per-op result (ok|rej) joined by ',', then the stored key heights, peer sets and header index, all sorted.
//
// Predicate (evaluated on the implementation only): every header that syncBlockHeader newly stored carries valid signatures
// of >= 2/3 of the DISTINCT peers of the peer set in force (stored set of the greatest key height below the header).
package main

import (
	"encoding/json"
	"fmt"
	"sort"
	"strconv"
	"strings"

	"github.com/ontio/ontology/account"
	"github.com/ontio/ontology/common"
	vconfig "github.com/ontio/ontology/consensus/vbft/config"
	"github.com/ontio/ontology/core/signature"
	"github.com/ontio/ontology/core/states"
	"github.com/ontio/ontology/core/store/leveldbstore"
	"github.com/ontio/ontology/core/store/overlaydb"
	"github.com/ontio/ontology/core/types"
	"github.com/ontio/ontology/smartcontract"
	"github.com/ontio/ontology/smartcontract/service/native"
	ccom "github.com/ontio/ontology/smartcontract/service/native/cross_chain/common"
	"github.com/ontio/ontology/smartcontract/service/native/cross_chain/header_sync"
	"github.com/ontio/ontology/smartcontract/service/native/global_params"
	"github.com/ontio/ontology/smartcontract/service/native/utils"
	"github.com/ontio/ontology/smartcontract/storage"
	"verif/harness/internal/hx"
)

const NKEYS = 12

var (
	pool     []*account.Account
	poolID   = map[string]int{}
	operator *account.Account
	stranger *account.Account
)

func initPool() {
	schemes := []string{"", "", "", "", "", "", "", "", "SM3withSM2", "SHA512withEdDSA", "SHA3-256withECDSA", "SHA384withECDSA"}
	for i := 0; i < NKEYS; i++ {
		a := account.NewAccount(schemes[i])
		if a == nil {
			a = account.NewAccount("")
		}
		pool = append(pool, a)
		poolID[vconfig.PubkeyID(a.PublicKey)] = i
	}
	operator = account.NewAccount("")
	stranger = account.NewAccount("")
	header_sync.InitHeaderSync()
}

func peerID(i int) string {
	if i >= 0 && i < NKEYS {
		return vconfig.PubkeyID(pool[i].PublicKey)
	}
	return fmt.Sprintf("not-a-key-%d", i)
}

func idName(s string) int {
	if i, ok := poolID[s]; ok {
		return i
	}
	var n int
	if _, err := fmt.Sscanf(s, "not-a-key-%d", &n); err == nil {
		return n
	}
	return -1
}

func parseInts(s string) []int {
	if s == "-" || s == "" {
		return nil
	}
	var out []int
	for _, p := range strings.Split(s, ".") {
		n, err := strconv.Atoi(p)
		if err != nil {
			panic("bad int list " + s)
		}
		out = append(out, n)
	}
	return out
}

// "0@64.1.2@4294967295" -> ids [0 1 2], indexes [64 2 4294967295]
func parsePeers(s string) ([]int, []uint32) {
	if s == "-" || s == "" {
		return nil, nil
	}
	var ids []int
	var idxs []uint32
	for i, p := range strings.Split(s, ".") {
		idx := uint32(i + 1)
		if k := strings.IndexByte(p, '@'); k >= 0 {
			v, err := strconv.ParseUint(p[k+1:], 10, 32)
			if err != nil {
				panic("bad peer index " + p)
			}
			idx = uint32(v)
			p = p[:k]
		}
		n, err := strconv.Atoi(p)
		if err != nil {
			panic("bad peer list " + s)
		}
		ids = append(ids, n)
		idxs = append(idxs, idx)
	}
	return ids, idxs
}

func payload(cfg string) []byte {
	switch {
	case cfg == "-":
		b, _ := json.Marshal(&vconfig.VbftBlockInfo{})
		return b
	case cfg == "!":
		return []byte("{not json")
	case strings.HasPrefix(cfg, "p"):
		cc := &vconfig.ChainConfig{}
		ids, idxs := parsePeers(cfg[1:])
		for i, id := range ids {
			cc.Peers = append(cc.Peers, &vconfig.PeerConfig{Index: idxs[i], ID: peerID(id)})
		}
		b, _ := json.Marshal(&vconfig.VbftBlockInfo{NewChainConfig: cc})
		return b
	}
	panic("bad cfg " + cfg)
}

func buildHeader(chain uint64, height uint32, bks string, sigs string, cfg string) (*ccom.Header, []byte) {
	h := &ccom.Header{ChainID: chain, Height: height, ConsensusPayload: payload(cfg), Timestamp: 1600000000 + height}
	for _, k := range parseInts(bks) {
		h.Bookkeepers = append(h.Bookkeepers, pool[k%NKEYS].PublicKey)
	}
	hash := h.Hash()
	other := common.Uint256{0xee, byte(height)}
	if sigs != "-" && sigs != "" {
		for _, tok := range strings.Split(sigs, ".") {
			switch tok[0] {
			case 's', 'w':
				k, err := strconv.Atoi(tok[1:])
				if err != nil {
					panic("bad sig token " + tok)
				}
				msg := hash[:]
				if tok[0] == 'w' {
					msg = other[:]
				}
				sg, err := signature.Sign(pool[k%NKEYS], msg)
				if err != nil {
					panic(err)
				}
				h.SigData = append(h.SigData, sg)
			case 'x':
				h.SigData = append(h.SigData, []byte{0x7f, 0x01, 0x02})
			default:
				panic("bad sig token " + tok)
			}
		}
	}
	sink := common.NewZeroCopySink(nil)
	h.Serialization(sink)
	return h, sink.Bytes()
}

type world struct {
	ov *overlaydb.OverlayDB
}

func newWorld() *world {
	w := &world{ov: overlaydb.NewOverlayDB(leveldbstore.NewMemLevelDBStore())}
	// the operator of the global-params contract, as the genesis block stores it
	db := storage.NewCacheDB(w.ov)
	bf := common.NewZeroCopySink(nil)
	utils.EncodeAddress(bf, operator.Address)
	db.Put(global_params.GenerateOperatorKey(utils.ParamContractAddress), (&states.StorageItem{Value: bf.Bytes()}).ToArray())
	db.Commit()
	return w
}

// one transaction: a fresh CacheDB over the committed overlay; committed only when the native call succeeds
func (w *world) service(signer *account.Account) *native.NativeService {
	db := storage.NewCacheDB(w.ov)
	sc := &smartcontract.SmartContract{
		Config:  &smartcontract.Config{Tx: &types.Transaction{SignedAddr: []common.Address{signer.Address}}},
		CacheDB: db,
	}
	return &native.NativeService{CacheDB: db, ContextRef: sc, ServiceMap: make(map[string]native.Handler), Tx: sc.Config.Tx}
}

func (w *world) call(signer *account.Account, method string, args []byte) bool {
	ns := w.service(signer)
	ret, err := ns.NativeCall(utils.HeaderSyncContractAddress, method, args)
	if err != nil || string(ret) != string(utils.BYTE_TRUE) {
		return false
	}
	ns.CacheDB.Commit()
	return true
}

func (w *world) peersAt(ns *native.NativeService, chain uint64, kh uint32) (map[string]bool, bool) {
	cb, _ := utils.GetUint64Bytes(chain)
	hb, _ := utils.GetUint32Bytes(kh)
	raw, err := ns.CacheDB.Get(utils.ConcatKey(utils.HeaderSyncContractAddress, []byte(header_sync.CONSENSUS_PEER), cb, hb))
	if err != nil || raw == nil {
		return nil, false
	}
	v, err := states.GetValueFromRawStorageItem(raw)
	if err != nil {
		return nil, false
	}
	cp := &header_sync.ConsensusPeers{}
	if err := cp.Deserialization(common.NewZeroCopySource(v)); err != nil {
		return nil, false
	}
	out := map[string]bool{}
	for id := range cp.PeerMap {
		out[id] = true
	}
	return out, true
}

// the property, on the implementation's own stored state: peer set in force = stored set of the greatest key height < height
func (w *world) quorumOK(chain uint64, hdr *ccom.Header) (ok bool, have, need int, shape string) {
	ns := w.service(stranger)
	khs, err := header_sync.GetKeyHeights(ns, chain)
	if err != nil {
		return false, 0, 0, "no-key-heights"
	}
	best, found := uint32(0), false
	for _, v := range khs.HeightList {
		if v < hdr.Height && (!found || v > best) {
			best, found = v, true
		}
	}
	if !found {
		return false, 0, 0, "no-peer-set-in-force"
	}
	peers, okp := w.peersAt(ns, chain, best)
	if !okp {
		return false, 0, 0, "no-peer-set-in-force"
	}
	hash := hdr.Hash()
	signers := 0
	for id := range peers {
		i, isKey := poolID[id]
		if !isKey {
			continue
		}
		for _, sg := range hdr.SigData {
			if signature.Verify(pool[i].PublicKey, hash[:], sg) == nil {
				signers++
				break
			}
		}
	}
	if 3*signers >= 2*len(peers) {
		return true, signers, len(peers), ""
	}
	// classify the shape of the offending header
	seen := map[string]bool{}
	dup, nonmember := false, false
	for _, b := range hdr.Bookkeepers {
		id := vconfig.PubkeyID(b)
		if seen[id] {
			dup = true
		}
		seen[id] = true
		if !peers[id] {
			nonmember = true
		}
	}
	switch {
	case dup:
		shape = "duplicate-bookkeepers"
	case nonmember:
		shape = "non-member-bookkeepers"
	case len(hdr.Bookkeepers)*3 < len(peers)*2:
		shape = "too-few-bookkeepers"
	default:
		shape = "unsigned-bookkeepers"
	}
	return false, signers, len(peers), shape
}

func (w *world) dump(chains map[uint64]bool, heights map[uint32]bool) string {
	ns := w.service(stranger)
	var cs []uint64
	for c := range chains {
		cs = append(cs, c)
	}
	sort.Slice(cs, func(i, j int) bool { return cs[i] < cs[j] })
	var hs []uint32
	for h := range heights {
		hs = append(hs, h)
	}
	sort.Slice(hs, func(i, j int) bool { return hs[i] < hs[j] })
	var parts []string
	for _, c := range cs {
		khs, err := header_sync.GetKeyHeights(ns, c)
		if err != nil {
			parts = append(parts, fmt.Sprintf("c%d:kh=ERR", c))
			continue
		}
		var ks []string
		for _, v := range khs.HeightList {
			ks = append(ks, strconv.Itoa(int(v)))
		}
		parts = append(parts, fmt.Sprintf("c%d:kh=%s", c, strings.Join(ks, ".")))
		for _, h := range hs {
			if ps, ok := w.peersAt(ns, c, h); ok {
				var ids []int
				for id := range ps {
					ids = append(ids, idName(id))
				}
				sort.Ints(ids)
				var ss []string
				for _, i := range ids {
					ss = append(ss, strconv.Itoa(i))
				}
				parts = append(parts, fmt.Sprintf("c%d@%d=%s", c, h, strings.Join(ss, ".")))
			}
		}
		var stored []string
		for _, h := range hs {
			if hd, err := header_sync.GetHeaderByHeight(ns, c, h); err == nil && hd != nil {
				stored = append(stored, strconv.Itoa(int(h)))
			}
		}
		parts = append(parts, fmt.Sprintf("c%d:hd=%s", c, strings.Join(stored, ".")))
	}
	return strings.Join(parts, " ")
}

func exec(line string) hx.Result {
	f := strings.Fields(line)
	if len(f) != 2 || f[0] != "S" {
		return hx.Result{Out: "bad-op"}
	}
	w := newWorld()
	chains := map[uint64]bool{}
	heights := map[uint32]bool{}
	var outs []string
	res := hx.Result{}
	kinds := map[string]bool{}
	accepted := 0
	for _, op := range strings.Split(f[1], ";") {
		p := strings.Split(op, ":")
		switch {
		case len(p) == 4 && strings.HasPrefix(p[0], "g"):
			chain, _ := strconv.ParseUint(p[1], 10, 64)
			height, _ := strconv.ParseUint(p[2], 10, 32)
			chains[chain] = true
			heights[uint32(height)] = true
			_, raw := buildHeader(chain, uint32(height), "-", "-", p[3])
			sink := common.NewZeroCopySink(nil)
			(&header_sync.SyncGenesisHeaderParam{GenesisHeader: raw}).Serialization(sink)
			signer := operator
			if p[0] != "g1" {
				signer = stranger
			}
			if w.call(signer, header_sync.SYNC_GENESIS_HEADER, sink.Bytes()) {
				outs = append(outs, "ok")
			} else {
				outs = append(outs, "rej")
			}
		case len(p) == 6 && p[0] == "b":
			chain, _ := strconv.ParseUint(p[1], 10, 64)
			height, _ := strconv.ParseUint(p[2], 10, 32)
			chains[chain] = true
			heights[uint32(height)] = true
			hdr, raw := buildHeader(chain, uint32(height), p[3], p[4], p[5])
			pre, _ := header_sync.GetHeaderByHeight(w.service(stranger), chain, uint32(height))
			// the predicate looks at the state BEFORE the call (the peer set in force)
			qok, have, need, shape := true, 0, 0, ""
			if pre == nil {
				qok, have, need, shape = w.quorumOK(chain, hdr)
			}
			sink := common.NewZeroCopySink(nil)
			(&header_sync.SyncBlockHeaderParam{Address: stranger.Address, Headers: [][]byte{raw}}).Serialization(sink)
			if w.call(stranger, header_sync.SYNC_BLOCK_HEADER, sink.Bytes()) {
				outs = append(outs, "ok")
				if pre != nil {
					kinds["skip-existing"] = true
				} else {
					accepted++
					kinds["accept"] = true
					if len(hdr.Bookkeepers) > 0 {
						res.Key = fmt.Sprintf("%s|%s|%s", p[3], p[4], p[5])
					}
					if !qok && res.Fail == "" {
						res.Fail = fmt.Sprintf("header chain=%d height=%d accepted with valid signatures of %d distinct peers of a %d-peer set (bookkeepers %s, sigs %s)",
							chain, height, have, need, p[3], p[4])
						res.Class = "accepted-below-two-thirds-of-distinct-peers:" + shape
					}
				}
			} else {
				outs = append(outs, "rej")
				if pre == nil && qok {
					kinds["reject-although-quorum-signed"] = true // e.g. a non-member listed, fewer sigs than bookkeepers, bad payload
				} else {
					kinds["reject"] = true
				}
			}
		default:
			return hx.Result{Out: "bad-op"}
		}
	}
	res.Out = strings.Join(outs, ",") + " | " + w.dump(chains, heights)
	switch {
	case res.Fail != "":
		res.Kind = "accept-without-quorum"
	case kinds["accept"] && kinds["reject"]:
		res.Kind = "accept+reject"
	case kinds["accept"]:
		res.Kind = "accept"
	case kinds["reject-although-quorum-signed"]:
		res.Kind = "reject-although-quorum-signed"
	case kinds["reject"]:
		res.Kind = "reject"
	case kinds["skip-existing"]:
		res.Kind = "skip-existing"
	default:
		res.Kind = "genesis-only"
	}
	return res
}

// ---------------------------------------------------------------- generator

func joinInts(xs []int) string {
	if len(xs) == 0 {
		return "-"
	}
	var s []string
	for _, x := range xs {
		s = append(s, strconv.Itoa(x))
	}
	return strings.Join(s, ".")
}

func genPeers(r *hx.Rand) []int {
	n := 1 + r.Intn(9)
	if r.Chance(4) {
		n = 0
	}
	perm := perm(r, NKEYS)
	ps := append([]int{}, perm[:min(n, NKEYS)]...)
	if r.Chance(15) && len(ps) > 0 { // a peer id that is not a key; it can never sign but counts in the set
		ps[r.Intn(len(ps))] = 100 + r.Intn(3)
	}
	if r.Chance(8) && len(ps) > 1 { // the same id twice in the config: one map entry
		ps = append(ps, ps[0])
	}
	return ps
}

var idxPool = []uint32{0, 1, 2, 3, 5, 7, 31, 32, 33, 62, 63, 64, 65, 66, 70, 100, 127, 128, 129, 255, 256, 1000, 65535, 65536,
	1<<31 - 1, 1 << 31, 1<<31 + 1, 1<<32 - 2, 1<<32 - 1}

// the config text of a peer set: ids with the uint32 index the chain config gives each peer
func renderPeers(r *hx.Rand, ps []int) string {
	if len(ps) == 0 {
		return "p"
	}
	mode := r.Intn(10)
	var toks []string
	base := uint32(r.U64())
	used := map[uint32]bool{}
	for i, p := range ps {
		switch {
		case mode < 2: // positions 1..n, as a freshly started chain numbers its peers
			toks = append(toks, strconv.Itoa(p))
			continue
		}
		var idx uint32
		switch {
		case mode < 7: // boundary values, distinct
			for k := 0; k < 20; k++ {
				idx = idxPool[r.Intn(len(idxPool))]
				if !used[idx] {
					break
				}
			}
		case mode < 8: // a contiguous run somewhere in uint32
			idx = base + uint32(i)
		case mode < 9: // arbitrary
			idx = uint32(r.U64())
		default: // indexes need not be unique in a config
			idx = idxPool[r.Intn(4)+10]
		}
		used[idx] = true
		toks = append(toks, fmt.Sprintf("%d@%d", p, idx))
	}
	return "p" + strings.Join(toks, ".")
}

func realPeers(ps []int) []int {
	seen := map[int]bool{}
	var out []int
	for _, p := range ps {
		if p < NKEYS && !seen[p] {
			seen[p] = true
			out = append(out, p)
		}
	}
	return out
}

func distinct(ps []int) int {
	seen := map[int]bool{}
	for _, p := range ps {
		seen[p] = true
	}
	return len(seen)
}

func sigToks(ks []int, pfx string) []string {
	var s []string
	for _, k := range ks {
		s = append(s, pfx+strconv.Itoa(k))
	}
	return s
}

// a header against peer set ps (as listed in the config)
func genHeaderParts(r *hx.Rand, ps []int) (string, string) {
	real := realPeers(ps)
	n := distinct(ps)
	need := (2*n + 2) / 3 // ceil(2n/3)
	shuffle := func(xs []int) []int {
		ys := append([]int{}, xs...)
		for i := len(ys) - 1; i > 0; i-- {
			j := r.Intn(i + 1)
			ys[i], ys[j] = ys[j], ys[i]
		}
		return ys
	}
	pick := func(k int) []int {
		s := shuffle(real)
		if k > len(s) {
			k = len(s)
		}
		if k < 0 {
			k = 0
		}
		return s[:k]
	}
	var bks []int
	var sg []string
	switch r.Intn(14) {
	case 0, 1: // honest: everybody signs
		bks = shuffle(real)
		sg = sigToks(shuffle(bks), "s")
	case 2, 3: // honest: exactly the threshold
		bks = pick(need)
		sg = sigToks(shuffle(bks), "s")
	case 4: // one below the threshold
		bks = pick(need - 1)
		sg = sigToks(bks, "s")
	case 5, 6: // the attack: few distinct signers listed several times
		d := 1 + r.Intn(2)
		base := pick(d)
		if len(base) == 0 {
			break
		}
		total := need + r.Intn(2)
		for i := 0; i < total; i++ {
			bks = append(bks, base[i%len(base)])
		}
		if r.Bool() { // copies of ONE signature per key
			sg = sigToks(bks, "s")
		} else {
			sg = sigToks(shuffle(bks), "s")
		}
	case 7: // quorum plus one duplicate (still >= 2/3 distinct): a sound implementation may reject, never required to accept
		bks = pick(need + r.Intn(2))
		if len(bks) > 0 {
			bks = append(bks, bks[0])
		}
		sg = sigToks(bks, "s")
	case 8: // a non-member among the bookkeepers
		bks = pick(need)
		out := r.Intn(NKEYS)
		bks = append(bks, out)
		sg = sigToks(bks, "s")
	case 9: // enough bookkeepers, one signature wrong / missing / garbage
		bks = pick(need + r.Intn(2))
		sg = sigToks(bks, "s")
		if len(sg) > 0 {
			i := r.Intn(len(sg))
			switch r.Intn(4) {
			case 0:
				sg[i] = "w" + sg[i][1:]
			case 1:
				sg[i] = "x"
			case 2:
				sg = append(sg[:i], sg[i+1:]...)
			default:
				sg[i] = sg[(i+1)%len(sg)] // one signature twice instead of two signers
			}
		}
	case 10: // extra signatures after the first m, bad ones beyond position m are never looked at
		bks = pick(need + r.Intn(2))
		sg = sigToks(bks, "s")
		sg = append(sg, []string{"x", "w0", "s1"}[r.Intn(3)])
	case 11: // bad signature in front, enough good ones behind
		bks = pick(need + r.Intn(2))
		sg = append([]string{[]string{"x", "w0"}[r.Intn(2)]}, sigToks(bks, "s")...)
	case 12: // signatures of peers that are not listed as bookkeepers
		bks = pick(need)
		others := shuffle(real)
		sg = sigToks(others[:min(len(others), len(bks))], "s")
	default: // random
		k := r.Intn(NKEYS + 1)
		for i := 0; i < k; i++ {
			bks = append(bks, r.Intn(NKEYS))
		}
		m := r.Intn(NKEYS + 1)
		for i := 0; i < m; i++ {
			sg = append(sg, []string{"s", "s", "s", "w"}[r.Intn(4)]+strconv.Itoa(r.Intn(NKEYS)))
		}
	}
	ss := "-"
	if len(sg) > 0 {
		ss = strings.Join(sg, ".")
	}
	return joinInts(bks), ss
}

func gen(r *hx.Rand, tier string, i int) string {
	type cst struct {
		kh    []uint32
		peers map[uint32][]int
	}
	chainsN := 1
	if r.Chance(15) {
		chainsN = 2
	}
	st := map[int]*cst{}
	var ops []string
	for c := 1; c <= chainsN; c++ {
		st[c] = &cst{peers: map[uint32][]int{}}
		if r.Chance(4) { // no genesis for this chain: everything is rejected
			continue
		}
		ps := genPeers(r)
		h0 := uint32(r.Intn(3))
		w := "1"
		cfg := renderPeers(r, ps)
		switch {
		case r.Chance(4):
			w = "0"
		case r.Chance(3):
			cfg = "-"
		case r.Chance(2):
			cfg = "!"
		}
		ops = append(ops, fmt.Sprintf("g%s:%d:%d:%s", w, c, h0, cfg))
		if w == "1" && strings.HasPrefix(cfg, "p") {
			st[c].kh = append(st[c].kh, h0)
			st[c].peers[h0] = ps
		}
	}
	n := 1 + r.Intn(5)
	for j := 0; j < n; j++ {
		c := 1 + r.Intn(chainsN)
		s := st[c]
		height := uint32(1 + r.Intn(12))
		// the generator's guess of the peer set in force (only steers the shapes; the verdicts come from the implementation and the model)
		var cur []int
		best, found := uint32(0), false
		for _, v := range s.kh {
			if v < height && (!found || v > best) {
				best, found = v, true
			}
		}
		if found {
			cur = s.peers[best]
		}
		bks, sg := genHeaderParts(r, cur)
		cfg := "-"
		var np []int
		if r.Chance(25) {
			np = genPeers(r)
			cfg = renderPeers(r, np)
		} else if r.Chance(3) {
			cfg = "!"
		}
		ops = append(ops, fmt.Sprintf("b:%d:%d:%s:%s:%s", c, height, bks, sg, cfg))
		if strings.HasPrefix(cfg, "p") { // optimistic: assume it was accepted
			s.kh = append(s.kh, height)
			s.peers[height] = np
		}
		if r.Chance(6) { // the same height again: silently skipped when stored
			ops = append(ops, ops[len(ops)-1])
		}
		if r.Chance(3) { // operator re-syncs a "genesis" at some height
			ps := genPeers(r)
			ops = append(ops, fmt.Sprintf("g1:%d:%d:%s", c, height, renderPeers(r, ps)))
			s.kh = append(s.kh, height)
			s.peers[height] = ps
		}
	}
	return "S " + strings.Join(ops, ";")
}

func perm(r *hx.Rand, n int) []int {
	xs := make([]int, n)
	for i := range xs {
		xs[i] = i
	}
	for i := n - 1; i > 0; i-- {
		j := r.Intn(i + 1)
		xs[i], xs[j] = xs[j], xs[i]
	}
	return xs
}

func min(a, b int) int {
	if a < b {
		return a
	}
	return b
}

var corpus = []string{
	// DESIGN §9 C33 witness: 7 peers, bookkeepers = five times key 0 with five copies of key 0's signature
	"S g1:1:0:p0.1.2.3.4.5.6;b:1:1:0.0.0.0.0:s0.s0.s0.s0.s0:-",
	// the same through a peer-set change: the forged header installs an attacker-chosen peer set
	"S g1:1:0:p0.1.2.3.4.5.6;b:1:1:0.0.0.0.0:s0.s0.s0.s0.s0:p7;b:1:2:7:s7:-",
	// honest boundary: 5 of 7 distinct accepted, 4 of 7 rejected
	"S g1:1:0:p0.1.2.3.4.5.6;b:1:1:0.1.2.3.4:s4.s3.s2.s1.s0:-;b:1:2:0.1.2.3:s0.s1.s2.s3:-",
	// 3 peers: 2 needed
	"S g1:1:0:p0.1.2;b:1:1:0.1:s0.s1:-;b:1:2:0:s0:-;b:1:3:0.0:s0.s0:-",
	// key heights: header 5 installs a new set; header 7 is checked against it, header 3 against genesis
	"S g1:1:0:p0.1.2;b:1:5:0.1.2:s0.s1.s2:p3.4.5;b:1:7:0.1.2:s0.s1.s2:-;b:1:7:3.4:s3.s4:-;b:1:3:0.1:s1.s0:-;b:1:5:3.4.5:s3.s4.s5:p0",
	// no genesis; genesis without witness; empty peer set accepts the empty header
	"S b:1:1:0:s0:-;g0:1:0:p0;b:1:1:0:s0:-;g1:1:0:p;b:1:1:-:-:-;b:1:2:0:s0:-",
	// extra / garbage signatures beyond m are ignored; garbage within the first m rejects
	"S g1:1:0:p0.1.2;b:1:1:0.1:s0.s1.x:-;b:1:2:0.1:x.s0.s1:-;b:1:3:0.1:s0:-",
	// ghost peer id counts in the set size
	"S g1:1:0:p0.1.100;b:1:1:0:s0:-;b:1:2:0.1:s0.s1:-",
	// peer indexes are opaque uint32 data: duplicates of a peer whose index is >= 64 / huge / shared must be refused like any other
	"S g1:1:0:p0@64.1@1.2@2.3@3.4@4.5@5.6@6;b:1:1:0.0.0.0.0:s0.s0.s0.s0.s0:-",
	"S g1:1:0:p0@4294967295.1@2147483648.2@70;b:1:1:0.0:s0.s0:-;b:1:2:1.1:s1.s1:-;b:1:3:2.2:s2.s2:-;b:1:4:0.1:s0.s1:-",
	"S g1:1:0:p0@63.1@64.2@65.3@128;b:1:1:0.0.0:s0.s0.s0:-;b:1:2:1.1.1:s1.s1.s1:-;b:1:3:3.2.3:s3.s2.s3:-;b:1:4:3.2.1:s3.s2.s1:-",
	// two peers sharing one index are still two peers
	"S g1:1:0:p0@5.1@5.2@69.3@5;b:1:1:0.1.3:s0.s1.s3:-;b:1:2:0.0.1:s0.s0.s1:-",
	// bad payload on an otherwise valid header: the transaction fails and stores nothing
	"S g1:1:0:p0;b:1:1:0:s0:!;b:1:1:0:s0:-",
}

func main() {
	hx.Main(hx.Prop{
		ID: "C33",
		Rule: "histories over the header-sync native contract (NativeService + CacheDB on a memory store): genesis sync storing a peer set of 0-9 ids " +
			"(incl. ids that are no key, repeated ids), then 1-5 syncBlockHeader calls with crafted headers signed by real ECDSA/SM2/EdDSA keys: honest full/threshold/" +
			"threshold-1 sets, duplicate bookkeepers with copied signatures, non-members, wrong/garbage/missing/extra signatures, peer-set changes at key heights, " +
			"re-sent heights; non-trivial = a header with >= 1 bookkeeper was newly stored (distinct = distinct bookkeeper/signature/config shapes)",
		Gen:    gen,
		Exec:   exec,
		Corpus: corpus,
		N:      map[string]int{"quick": 500, "thorough": 20000},
		Init:   initPool,
	})
}
