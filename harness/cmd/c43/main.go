// C43 harness: block log blooms and the per-section bloom bit index.
//
// Three line kinds (all self-contained):
//
//	G <S> <selBlocks> <selBits> <block>;<block>;…      block = <pos>:<log>/<log>…   log = <item>,<item>…   item = <hex>@<k1>.<k2>.<k3>
//	   One section of S blocks. The first item of a log is its 20-byte address, the others its 32-byte topics; k1..k3 are the
//	   three bloom bit numbers of the datum (from Keccak, computed by the generator and re-checked here: the Lean model never
//	   hashes). Real code: executeBlock's parseOntLogsToEth + types.LogsBloom + BytesToBloom per block; for S = 4096 the repo's
//	   PutBloomIndex into a LevelDB store and ReadBloomBits + bitutil.DecompressBytes, for other S go-ethereum's
//	   bloombits.Generator directly.  Output: checksums of all blooms and all 2048 vectors, selected blooms / vectors as bytes.
//	   Predicate: every address and topic of every log tests positive (types.BloomLookup / Bloom.Test); for every bit i and every
//	   position j, bit j of vector i (byte j/8, mask 1<<(7-j%8)) equals bit i of block j's bloom.
//
//	B <adh> <start> <m>,<t>,<a>,<b>,<c> <op>;<op>…      start = G | j<h>      op = s<n> | r
//	   Bloom bookkeeping of the real BlockStore. adh selects the network (0 solo, 13920000 main net: GetAddDecimalsHeight).
//	   start G: a real ledger creates its genesis block and the harness goes on driving that ledger's live BlockStore;
//	   start j<h>: a block store written up to height h by a build without the bloom index (current-block key only).
//	   s<n>: n times {NewBatch; SaveCurrentBlock(h); SaveBloomData(h, bloom(h)); CommitTo} for the next heights (what
//	   saveBlockToBlockStore does for the bloom), r: Close; NewBlockStore; LoadBloomBits (what init() does).
//	   bloom(h) has four bits (h*a, h*b+1, h/3+c mod 2048 and a multiplicative hash of h: distinct blooms per height) when h >= adh, h > 0 and h % m == t, else it is empty.
//	   Output: in-memory filter start, persisted filter-start key, current height, bloomCache population, checksum of all bloom
//	   records, checksum per indexed section of the blooms recovered from its 2048 stored bit vectors.
//	   Predicate: (P1) every height saved at or above adh (legacy start: and at or above the filter start) reads back its bloom; (P2) every section whose last height was saved and
//	   which starts at or above the filter start is indexed, and every indexed section equals the transposition of the stored
//	   blooms of its heights; (P3) no height in [max(filter start, adh), current] lacks a bloom record.
//
//	L <salt> <op>;<op>…      op = n<k> | t<tx>+<tx>… | r | x      tx = <flags><attempted logs | _>[~<fee log>]
//	   A real solo ledger (ExecuteBlock + SubmitBlock). n<k>: k empty blocks; t: a block of EIP-155 contract-creation
//	   transactions whose init code emits the given logs (LOG0..LOG4). Flags: `!` the init code then REVERTs, `o` it then loops
//	   until it is out of gas, `v` the transaction carries a value above the sender's balance (all three: receipt status FAILED,
//	   the logs of the execution are gone), `$` the transaction pays a gas price of 500 Gwei: the harness funds the sender with a
//	   native ONG transfer placed in the same block before the EVM transactions (a transaction WITHOUT receipt), and the receipt
//	   - successful or failed - ends with the fee log `Transfer(sender, governance, fee)` of the ONG contract (MakeOngTransferLog),
//	   which the line carries after `~`.  r: close and reopen;
//	   x: close, delete the bloom key spaces from the block LevelDB (= data of a build without the index), reopen.
//	   The stored bloom is read through Ledger.GetBloomData; the logs are read back from the ledger's own event store.
//	   Output and P2/P3 as for B; predicate: every address/topic of every log the ledger reports tests positive in the stored bloom.
package main

import (
	"bytes"
	"crypto/ecdsa"
	"crypto/sha256"
	"encoding/binary"
	"fmt"
	"math/big"
	"os"
	"path/filepath"
	"sort"
	"strconv"
	"strings"

	ethcommon "github.com/ethereum/go-ethereum/common"
	"github.com/ethereum/go-ethereum/common/bitutil"
	"github.com/ethereum/go-ethereum/core/bloombits"
	ethtypes "github.com/ethereum/go-ethereum/core/types"
	"github.com/ethereum/go-ethereum/crypto"
	"github.com/ontio/ontology/account"
	"github.com/ontio/ontology/common"
	"github.com/ontio/ontology/common/config"
	scom "github.com/ontio/ontology/core/store/common"
	"github.com/ontio/ontology/core/store/ledgerstore"
	"github.com/ontio/ontology/core/store/leveldbstore"
	"github.com/ontio/ontology/core/types"
	"github.com/ontio/ontology/smartcontract/event"
	nutils "github.com/ontio/ontology/smartcontract/service/native/utils"
	"github.com/syndtr/goleveldb/leveldb"
	"github.com/syndtr/goleveldb/leveldb/util"
	"verif/harness/internal/hx"
	"verif/harness/internal/ledgerkit"
)

const SEC = ledgerstore.BloomBitsBlocks
const mainADH = 13920000

var oneOng = new(big.Int).Exp(big.NewInt(10), big.NewInt(18), nil)

var (
	prime  = new(big.Int).SetUint64(1<<61 - 1)
	base   string
	book   *account.Account
	lineNo int
)

func setup() {
	if base != "" {
		return
	}
	base = ledgerkit.TmpDir("c43")
	ledgerkit.InitGlobals()
	config.DefConfig.Common.EnableEventLog = true
	config.DefConfig.P2PNode.EVMChainId = 12345
	book = ledgerkit.NewAccount()
}

func must(err error) {
	if err != nil {
		panic(err)
	}
}

// ---------- checksums ----------

type chk struct{ acc, tmp *big.Int }

func newChk() *chk { return &chk{new(big.Int), new(big.Int)} }

// add: acc = (acc + w * (v mod P)) mod P
func (c *chk) add(w uint64, v []byte) {
	c.tmp.SetBytes(v)
	c.tmp.Mod(c.tmp, prime)
	c.tmp.Mul(c.tmp, new(big.Int).SetUint64(w))
	c.acc.Add(c.acc, c.tmp)
	c.acc.Mod(c.acc, prime)
}
func (c *chk) String() string { return c.acc.String() }

func isZero(b []byte) bool {
	for _, x := range b {
		if x != 0 {
			return false
		}
	}
	return true
}

// ---------- items ----------

func idx3(d []byte) [3]uint {
	h := crypto.Keccak256(d)
	var k [3]uint
	for t := 0; t < 3; t++ {
		k[t] = uint(binary.BigEndian.Uint16(h[2*t:]) & 0x7ff)
	}
	return k
}

func item(d []byte) string {
	k := idx3(d)
	return fmt.Sprintf("%s@%d.%d.%d", hx.Hex(d), k[0], k[1], k[2])
}

// parseItem checks the triple on the line against Keccak (a line with a wrong triple is not a case)
func parseItem(s string) ([]byte, bool) {
	p := strings.Split(s, "@")
	if len(p) != 2 {
		return nil, false
	}
	d, err := hx.Unhex(p[0])
	if err != nil {
		return nil, false
	}
	k := idx3(d)
	if p[1] != fmt.Sprintf("%d.%d.%d", k[0], k[1], k[2]) {
		return nil, false
	}
	return d, true
}

func parseLog(s string) (*types.StorageLog, bool) {
	its := strings.Split(s, ",")
	a, ok := parseItem(its[0])
	if !ok || len(a) != 20 {
		return nil, false
	}
	l := &types.StorageLog{Address: ethcommon.BytesToAddress(a)}
	for _, it := range its[1:] {
		t, ok := parseItem(it)
		if !ok || len(t) != 32 {
			return nil, false
		}
		l.Topics = append(l.Topics, ethcommon.BytesToHash(t))
	}
	return l, true
}

func parseLogs(s string) ([]*types.StorageLog, bool) {
	if s == "_" {
		return nil, true
	}
	var out []*types.StorageLog
	for _, ls := range strings.Split(s, "/") {
		l, ok := parseLog(ls)
		if !ok {
			return nil, false
		}
		out = append(out, l)
	}
	return out, true
}

func parseNats(s string) ([]uint64, bool) {
	if s == "-" {
		return nil, true
	}
	var out []uint64
	for _, p := range strings.Split(s, ",") {
		v, err := strconv.ParseUint(p, 10, 64)
		if err != nil {
			return nil, false
		}
		out = append(out, v)
	}
	return out, true
}

// the two lines of executeBlock that turn the collected receipt logs into the block bloom
func blockBloom(logs []*types.StorageLog) ethtypes.Bloom {
	return ethtypes.BytesToBloom(ethtypes.LogsBloom(ledgerstore.VerifParseOntLogsToEth(logs)))
}

// containsAll: the property predicate on one stored bloom
func containsAll(bl ethtypes.Bloom, logs []*types.StorageLog) (string, string) {
	for _, l := range logs {
		if !ethtypes.BloomLookup(bl, l.Address) {
			return "bloom-misses-address", fmt.Sprintf("address %x of an emitted log tests negative", l.Address[:4])
		}
		for ti, t := range l.Topics {
			if !bl.Test(t.Bytes()) {
				return fmt.Sprintf("bloom-misses-topic:%d-of-%d", ti, len(l.Topics)), fmt.Sprintf("topic %d (%x…) of an emitted log tests negative", ti, t[:4])
			}
		}
	}
	return "", ""
}

func bloomBit(b *ethtypes.Bloom, i int) byte {
	return (b[ethtypes.BloomByteLength-1-i/8] >> uint(i%8)) & 1
}
func vecBit(v []byte, j int) byte { return (v[j/8] >> uint(7-j%8)) & 1 }

// ---------- G ----------

func execG(f []string) hx.Result {
	if len(f) != 5 {
		return hx.Result{Out: "bad-op", Kind: "bad-op"}
	}
	S64, err := strconv.ParseUint(f[1], 10, 32)
	selB, ok1 := parseNats(f[2])
	selV, ok2 := parseNats(f[3])
	if err != nil || !ok1 || !ok2 {
		return hx.Result{Out: "bad-op", Kind: "bad-op"}
	}
	S := int(S64)
	logsAt := map[int][]*types.StorageLog{}
	nlogs := 0
	if f[4] != "-" {
		for _, bs := range strings.Split(f[4], ";") {
			p := strings.Split(bs, ":")
			if len(p) != 2 {
				return hx.Result{Out: "bad-op", Kind: "bad-op"}
			}
			j, err := strconv.Atoi(p[0])
			ls, ok := parseLogs(p[1])
			if err != nil || !ok || j < 0 || j >= S {
				return hx.Result{Out: "bad-op", Kind: "bad-op"}
			}
			logsAt[j] = append(logsAt[j], ls...)
			nlogs += len(ls)
		}
	}
	res := hx.Result{}
	blooms := make([]ethtypes.Bloom, S)
	cb := newChk()
	for j := 0; j < S; j++ {
		blooms[j] = blockBloom(logsAt[j])
		if cls, msg := containsAll(blooms[j], logsAt[j]); cls != "" && res.Fail == "" {
			res.Fail, res.Class = fmt.Sprintf("block at position %d: %s", j, msg), cls
		}
		cb.add(uint64(j+1), blooms[j][:])
	}
	// section vectors
	vecs := make([][]byte, ethtypes.BloomBitLength)
	if S == SEC {
		st := leveldbstore.NewMemLevelDBStore()
		defer st.Close()
		const section = 7
		st.NewBatch()
		ledgerstore.PutBloomIndex(st, blooms, section)
		must(st.BatchCommit())
		for i := range vecs {
			comp, err := ledgerstore.ReadBloomBits(st, uint(i), section)
			if err != nil {
				return hx.Result{Out: fmt.Sprintf("vector-missing:%d", i), Fail: "a bit vector of a section that was just indexed cannot be read", Class: "section-vector-missing", Kind: "G:4096"}
			}
			v, err := bitutil.DecompressBytes(comp, S/8)
			if err != nil {
				return hx.Result{Out: fmt.Sprintf("vector-corrupt:%d", i), Fail: "a stored bit vector does not decompress to S/8 bytes", Class: "section-vector-corrupt", Kind: "G:4096"}
			}
			vecs[i] = v
		}
	} else {
		gen, err := bloombits.NewGenerator(uint(S))
		if err != nil {
			return hx.Result{Out: "gen-error", Kind: "G:gen-error", Key: "gen-error" + f[1]}
		}
		for j := range blooms {
			must(gen.AddBloom(uint(j), blooms[j]))
		}
		for i := range vecs {
			v, err := gen.Bitset(uint(i))
			must(err)
			vecs[i] = v
		}
	}
	cv := newChk()
	for i, v := range vecs {
		cv.add(uint64(i+1), v)
		if res.Fail != "" {
			continue
		}
		for j := 0; j < S; j++ {
			if vecBit(v, j) != bloomBit(&blooms[j], i) {
				res.Fail = fmt.Sprintf("bit %d of the block at position %d is %d in its bloom but %d in section vector %d", i, j, bloomBit(&blooms[j], i), vecBit(v, j), i)
				res.Class = fmt.Sprintf("section-bit-disagrees:bloom=%d", bloomBit(&blooms[j], i))
				break
			}
		}
	}
	var sb strings.Builder
	fmt.Fprintf(&sb, "bl=%s vec=%s", cb, cv)
	for _, j := range selB {
		if int(j) < S {
			fmt.Fprintf(&sb, " B%d=%s", j, hx.Hex(blooms[j][:]))
		}
	}
	for _, i := range selV {
		if int(i) < len(vecs) {
			if S == 0 {
				fmt.Fprintf(&sb, " V%d=", i)
			} else {
				fmt.Fprintf(&sb, " V%d=%x", i, vecs[i])
			}
		}
	}
	res.Out = sb.String()
	sk := "small"
	if S == SEC {
		sk = "4096"
	}
	lk := "0"
	switch {
	case nlogs > 100:
		lk = ">100"
	case nlogs > 10:
		lk = "11-100"
	case nlogs > 0:
		lk = "1-10"
	}
	res.Kind = "G:" + sk + ":logs=" + lk
	if nlogs > 0 {
		res.Key = "G" + cb.String() + "/" + cv.String()
	}
	return res
}

// ---------- block store observation (B and L) ----------

type bsObs struct {
	out      string
	fs       uint32
	cur      uint32
	sections map[uint32][]ethtypes.Bloom // indexed section -> blooms recovered from its 2048 vectors (nil entry: unreadable)
	broken   string                      // first unreadable vector
}

func bloomKey(h uint32) []byte {
	k := make([]byte, 5)
	k[0] = byte(scom.DATA_BLOOM)
	binary.LittleEndian.PutUint32(k[1:], h)
	return k
}

func observe(bs *ledgerstore.BlockStore) bsObs {
	o := bsObs{sections: map[uint32][]ethtypes.Bloom{}}
	db := bs.GetDb()
	o.fs = bs.VerifFilterStart()
	key := "-"
	if k, err := ledgerstore.GetFilterStart(db); err == nil {
		key = fmt.Sprint(k)
	} else if err != scom.ErrNotFound {
		key = "err"
	}
	cur := "-"
	if _, h, err := bs.GetCurrentBlock(); err == nil {
		cur = fmt.Sprint(h)
		o.cur = h
	}
	cache := "0"
	if hs := bs.VerifBloomCacheHeights(); len(hs) > 0 {
		cache = fmt.Sprintf("%d:%d-%d", len(hs), hs[0], hs[len(hs)-1])
	}
	// all bloom records
	rc := newChk()
	rn := 0
	it := db.NewIterator([]byte{byte(scom.DATA_BLOOM)})
	for it.Next() {
		k := it.Key()
		if len(k) != 5 {
			continue
		}
		rn++
		rc.add(uint64(binary.LittleEndian.Uint32(k[1:]))+1, it.Value())
	}
	it.Release()
	// indexed sections: "B" + bit(2, BE) + section(4, BE)
	present := map[uint32]bool{}
	it = db.NewIterator([]byte("B"))
	for it.Next() {
		k := it.Key()
		if len(k) == 7 {
			present[binary.BigEndian.Uint32(k[3:])] = true
		}
	}
	it.Release()
	var secs []uint32
	for s := range present {
		secs = append(secs, s)
	}
	sort.Slice(secs, func(i, j int) bool { return secs[i] < secs[j] })
	var parts []string
	for _, s := range secs {
		cols := make([]ethtypes.Bloom, SEC)
		bad := ""
		for i := 0; i < ethtypes.BloomBitLength && bad == ""; i++ {
			comp, err := ledgerstore.ReadBloomBits(db, uint(i), s)
			if err != nil {
				bad = fmt.Sprintf("missing%d", i)
				break
			}
			v, err := bitutil.DecompressBytes(comp, SEC/8)
			if err != nil {
				bad = fmt.Sprintf("corrupt%d", i)
				break
			}
			for by, x := range v {
				if x == 0 {
					continue
				}
				for bit := 0; bit < 8; bit++ {
					if x>>(7-uint(bit))&1 == 1 {
						cols[by*8+bit][ethtypes.BloomByteLength-1-i/8] |= 1 << uint(i%8)
					}
				}
			}
		}
		if bad != "" {
			o.sections[s] = nil
			if o.broken == "" {
				o.broken = fmt.Sprintf("section %d: vector %s", s, bad)
			}
			parts = append(parts, fmt.Sprintf("%d:%s", s, bad))
			continue
		}
		c := newChk()
		for j := range cols {
			if !isZero(cols[j][:]) {
				c.add(uint64(j+1), cols[j][:])
			}
		}
		o.sections[s] = cols
		parts = append(parts, fmt.Sprintf("%d:%s", s, c))
	}
	secStr := "-"
	if len(parts) > 0 {
		secStr = strings.Join(parts, ",")
	}
	o.out = fmt.Sprintf("fs=%d key=%s cur=%s cache=%s recs=%d:%s secs=%s", o.fs, key, cur, cache, rn, rc, secStr)
	return o
}

// history of one B / L line as far as the predicate needs it
type hist struct {
	adh        uint32
	saved      map[uint32]ethtypes.Bloom // heights committed by the code under test, with the bloom handed to SaveBloomData / expected from the logs
	legacyTo   int64                     // heights <= legacyTo were written without bloom records (-1: none)
	reopenedIn map[uint32]bool           // sections during which the store was reopened (their completion uses reloaded cache entries)
}

func (h *hist) noteReopen(cur uint32) {
	if h.reopenedIn == nil {
		h.reopenedIn = map[uint32]bool{}
	}
	h.reopenedIn[cur/SEC] = true
}

// checkStore evaluates P1..P3 on the implementation's own outputs
func checkStore(bs *ledgerstore.BlockStore, o bsObs, h *hist, get func(uint32) (ethtypes.Bloom, error)) (string, string) {
	// P1
	var hs []uint32
	for x := range h.saved {
		hs = append(hs, x)
	}
	sort.Slice(hs, func(i, j int) bool { return hs[i] < hs[j] })
	for _, x := range hs {
		if x < h.adh || (h.legacyTo >= 0 && x < o.fs) {
			continue // legacy data: only the advertised range [filter start, current] is promised (theorem C43_bookkeeping, clause A)
		}
		got, err := get(x)
		want := h.saved[x]
		if err != nil || got != want {
			if isZero(got[:]) && !isZero(want[:]) {
				where := "at-or-above-filterstart"
				if x < o.fs {
					where = "below-filterstart"
				}
				return "stored-bloom-lost:" + where, fmt.Sprintf("height %d was committed with a non-empty bloom but reads back empty (filter start %d)", x, o.fs)
			}
			return "stored-bloom-differs", fmt.Sprintf("height %d reads back a bloom different from the one it was committed with (err=%v)", x, err)
		}
	}
	// P2
	if o.broken != "" {
		return "section-vector-unreadable", o.broken
	}
	for s, cols := range o.sections {
		for j := range cols {
			x := s*SEC + uint32(j)
			got, err := get(x)
			if err != nil || got != cols[j] {
				kind := "the index has bits the block bloom lacks"
				if isZero(cols[j][:]) {
					kind = "the index is empty for a non-empty block bloom"
				}
				when := "no-reopen"
				if h.reopenedIn[s] {
					when = "after-reopen" // the section was completed from bloomCache entries reloaded by LoadBloomBits
				}
				return "section-disagrees-with-stored-blooms:" + when, fmt.Sprintf("section %d position %d (height %d): the bit index does not equal the stored block bloom (%s)", s, j, x, kind)
			}
		}
	}
	for _, x := range hs {
		if (x+1)%SEC != 0 {
			continue
		}
		s := x / SEC
		if s*SEC < o.fs || s*SEC < h.adh/SEC*SEC {
			continue
		}
		if _, ok := o.sections[s]; !ok {
			return "section-not-indexed", fmt.Sprintf("section %d was completed by height %d (filter start %d) but has no bit index", s, x, o.fs)
		}
	}
	// P3
	if h.legacyTo >= 0 {
		lo := o.fs
		if h.adh > lo {
			lo = h.adh
		}
		if lo == 0 {
			lo = 1 // the genesis block carries no EVM transaction
		}
		if int64(lo) <= h.legacyTo {
			if _, err := bs.GetDb().Get(bloomKey(lo)); err == scom.ErrNotFound {
				return "filterstart-covers-unindexed-heights", fmt.Sprintf("filter start is %d but heights %d..%d have no bloom record (LoadBloomBits initialises the start from a section count and compares it with heights)", o.fs, lo, h.legacyTo)
			}
		}
	}
	return "", ""
}

// ---------- B ----------

func ruleBloom(adh, m, t, a, b, c uint64, h uint64) (bl ethtypes.Bloom) {
	if h < adh || h == 0 || m == 0 || h%m != t {
		return
	}
	for _, k := range []uint64{h * a % 2048, (h*b + 1) % 2048, (h/3 + c) % 2048, (h*2654435761 + c) % 4294967296 / 2048 % 2048} {
		bl[ethtypes.BloomByteLength-1-k/8] |= 1 << (k % 8)
	}
	return
}

func fakeHash(h uint32) (x common.Uint256) {
	binary.LittleEndian.PutUint32(x[:], h)
	x[31] = 0x43
	return
}

func withNet(adh uint64, f func() hx.Result) hx.Result {
	old := config.DefConfig.P2PNode.NetworkId
	defer func() { config.DefConfig.P2PNode.NetworkId = old }()
	switch adh {
	case 0:
		config.DefConfig.P2PNode.NetworkId = config.NETWORK_ID_SOLO_NET
	case mainADH:
		config.DefConfig.P2PNode.NetworkId = config.NETWORK_ID_MAIN_NET
	default:
		return hx.Result{Out: "bad-op", Kind: "bad-op"}
	}
	if uint64(config.GetAddDecimalsHeight()) != adh {
		return hx.Result{Out: "bad-op", Kind: "bad-op"}
	}
	return f()
}

func execB(f []string) hx.Result {
	if len(f) != 5 {
		return hx.Result{Out: "bad-op", Kind: "bad-op"}
	}
	adh, err := strconv.ParseUint(f[1], 10, 32)
	rule, ok := parseNats(f[3])
	if err != nil || !ok || len(rule) != 5 {
		return hx.Result{Out: "bad-op", Kind: "bad-op"}
	}
	return withNet(adh, func() hx.Result {
		setup()
		lineNo++
		dir := filepath.Join(base, fmt.Sprintf("b%d", lineNo))
		defer os.RemoveAll(dir)
		blockDir := filepath.Join(dir, ledgerstore.DBDirBlock)
		var kit *ledgerkit.Kit
		var bs *ledgerstore.BlockStore
		closeAll := func() {
			if kit != nil {
				kit.Close()
				kit = nil
			} else if bs != nil {
				bs.Close()
			}
			bs = nil
		}
		defer closeAll()
		reopen := func() {
			closeAll()
			var err error
			bs, err = ledgerstore.NewBlockStore(blockDir, false)
			must(err)
			must(bs.LoadBloomBits())
		}
		h := &hist{adh: uint32(adh), saved: map[uint32]ethtypes.Bloom{}, legacyTo: -1}
		var cur uint32
		kind := "B:"
		switch {
		case f[2] == "G":
			var err error
			kit, err = ledgerkit.Open(dir, book)
			must(err)
			bs = kit.Store.VerifBlockStore()
			cur = 0
			h.saved[0] = ethtypes.Bloom{}
			kind += "fresh"
		case strings.HasPrefix(f[2], "j"):
			c, err := strconv.ParseUint(f[2][1:], 10, 32)
			if err != nil {
				return hx.Result{Out: "bad-op", Kind: "bad-op"}
			}
			must(os.MkdirAll(dir, 0o755))
			old, err := ledgerstore.NewBlockStore(blockDir, false)
			must(err)
			old.NewBatch()
			must(old.SaveCurrentBlock(uint32(c), fakeHash(uint32(c))))
			must(old.CommitTo())
			must(old.SaveVersion(1))
			must(old.Close())
			cur = uint32(c)
			h.legacyTo = int64(c)
			reopen()
			h.noteReopen(cur)
			kind += "legacy"
		default:
			return hx.Result{Out: "bad-op", Kind: "bad-op"}
		}
		if adh != 0 {
			kind += ":main"
		}
		crossed, reopens := 0, 0
		if f[4] != "-" {
			for _, op := range strings.Split(f[4], ";") {
				switch {
				case op == "r":
					reopen()
					reopens++
					h.noteReopen(cur)
				case strings.HasPrefix(op, "s"):
					n, err := strconv.ParseUint(op[1:], 10, 32)
					if err != nil || n > 40000 {
						return hx.Result{Out: "bad-op", Kind: "bad-op"}
					}
					for i := uint64(0); i < n; i++ {
						cur++
						bl := ruleBloom(adh, rule[0], rule[1], rule[2], rule[3], rule[4], uint64(cur))
						bs.NewBatch()
						must(bs.SaveCurrentBlock(cur, fakeHash(cur)))
						bs.SaveBloomData(cur, bl)
						must(bs.CommitTo())
						h.saved[cur] = bl
						if (cur+1)%SEC == 0 {
							crossed++
						}
					}
				default:
					return hx.Result{Out: "bad-op", Kind: "bad-op"}
				}
			}
		}
		o := observe(bs)
		res := hx.Result{Out: o.out}
		res.Class, res.Fail = checkStore(bs, o, h, bs.GetBloomData)
		res.Kind = fmt.Sprintf("%s:sections=%d:reopens=%s", kind, crossed, bucket(reopens))
		if len(h.saved) > 1 {
			res.Key = "B" + o.out
		}
		return res
	})
}

func bucket(n int) string {
	if n >= 2 {
		return "2+"
	}
	return strconv.Itoa(n)
}

// ---------- L ----------

func senderKey(salt string, i int) *ecdsa.PrivateKey {
	s := sha256.Sum256([]byte(fmt.Sprintf("c43-sender-%s-%d", salt, i)))
	k, err := crypto.ToECDSA(s[:])
	must(err)
	return k
}

// init code that emits the logs (no data) and then stops, reverts, or loops until it is out of gas
func initCode(logs []*types.StorageLog, revert, oog bool) []byte {
	var c []byte
	for _, l := range logs {
		for i := len(l.Topics) - 1; i >= 0; i-- {
			c = append(c, 0x7f)
			c = append(c, l.Topics[i][:]...)
		}
		c = append(c, 0x60, 0x00, 0x60, 0x00, byte(0xa0+len(l.Topics)))
	}
	if oog {
		d := len(c) // JUMPDEST; PUSH2 d; JUMP
		return append(c, 0x5b, 0x61, byte(d>>8), byte(d), 0x56)
	}
	if revert {
		return append(c, 0x60, 0x00, 0x60, 0x00, 0xfd)
	}
	return append(c, 0x00)
}

type ltx struct {
	logs                   []*types.StorageLog // what the init code tries to emit
	fee                    *types.StorageLog   // fee log of a priced transaction
	priced                 bool
	revert, oog, overValue bool
}

func (t ltx) failed() bool { return t.revert || t.oog || t.overValue }

// receiptLogs: what the receipt carries (and what executeBlock must put into the block bloom)
func (t ltx) receiptLogs() []*types.StorageLog {
	var out []*types.StorageLog
	if !t.failed() {
		out = append(out, t.logs...)
	}
	if t.fee != nil {
		out = append(out, t.fee)
	}
	return out
}

var gasPriceWei = new(big.Int).Mul(big.NewInt(500), big.NewInt(1000000000))

// feeLog: the log MakeOngTransferLog emits for the gas fee of a transaction of `sender`
func feeLog(sender ethcommon.Address) *types.StorageLog {
	return &types.StorageLog{
		Address: ethcommon.BytesToAddress(nutils.OngContractAddress[:]),
		Topics: []ethcommon.Hash{crypto.Keccak256Hash([]byte("Transfer(address,address,uint256)")),
			ethcommon.BytesToHash(sender[:]), ethcommon.BytesToHash(nutils.GovernanceContractAddress[:])},
	}
}

func sameLog(a, b *types.StorageLog) bool {
	if a.Address != b.Address || len(a.Topics) != len(b.Topics) {
		return false
	}
	for i := range a.Topics {
		if a.Topics[i] != b.Topics[i] {
			return false
		}
	}
	return true
}

func parseTxs(s string, salt string, counter *int) ([]ltx, bool) {
	var out []ltx
	for _, ts := range strings.Split(s, "+") {
		t := ltx{}
		for len(ts) > 0 && strings.ContainsRune("$!ov", rune(ts[0])) {
			switch ts[0] {
			case '$':
				t.priced = true
			case '!':
				t.revert = true
			case 'o':
				t.oog = true
			case 'v':
				t.overValue = true
			}
			ts = ts[1:]
		}
		parts := strings.Split(ts, "~")
		if len(parts) > 2 || (len(parts) == 2) != t.priced {
			return nil, false
		}
		ls, ok := parseLogs(parts[0])
		if !ok || len(ls) > 12 {
			return nil, false
		}
		// every log of a creation transaction carries the address of the contract being created
		sender := crypto.PubkeyToAddress(senderKey(salt, *counter).PublicKey)
		want := crypto.CreateAddress(sender, 0)
		for _, l := range ls {
			if l.Address != want || len(l.Topics) > 4 {
				return nil, false
			}
		}
		t.logs = ls
		if t.priced {
			fl, ok := parseLogs(parts[1])
			if !ok || len(fl) != 1 || !sameLog(fl[0], feeLog(sender)) {
				return nil, false
			}
			t.fee = fl[0]
		}
		out = append(out, t)
		*counter++
	}
	return out, true
}

func stripBloomKeys(blockDir string) {
	db, err := leveldb.OpenFile(blockDir, nil)
	must(err)
	defer db.Close()
	for _, p := range [][]byte{{byte(scom.DATA_BLOOM)}, {byte(scom.ST_ETH_FILTER_START)}, []byte("B")} {
		it := db.NewIterator(util.BytesPrefix(p), nil)
		b := new(leveldb.Batch)
		for it.Next() {
			b.Delete(append([]byte{}, it.Key()...))
		}
		it.Release()
		must(db.Write(b, nil))
	}
}

func execL(f []string) hx.Result {
	if len(f) != 3 {
		return hx.Result{Out: "bad-op", Kind: "bad-op"}
	}
	return withNet(0, func() hx.Result {
		setup()
		lineNo++
		salt := f[1]
		dir := filepath.Join(base, fmt.Sprintf("l%d", lineNo))
		defer os.RemoveAll(dir)
		kit, err := ledgerkit.Open(dir, book)
		must(err)
		defer func() {
			if kit != nil {
				kit.Close()
			}
		}()
		reopen := func() {
			must(kit.Close())
			kit = nil
			k, err := ledgerkit.Open(dir, book)
			must(err)
			kit = k
		}
		h := &hist{saved: map[uint32]ethtypes.Bloom{0: {}}, legacyTo: -1}
		counter := 0
		nlogs, ntx, reopens, strips, nfail, nfeefail, statusMismatch := 0, 0, 0, 0, 0, 0, 0
		fundNonce := uint32(lineNo) << 12
		res := hx.Result{}
		if f[2] != "-" {
			for _, op := range strings.Split(f[2], ";") {
				switch {
				case op == "r":
					reopen()
					reopens++
					h.noteReopen(kit.Ledger.GetCurrentBlockHeight())
				case op == "x":
					must(kit.Close())
					kit = nil
					stripBloomKeys(filepath.Join(dir, ledgerstore.DBDirBlock))
					k, err := ledgerkit.Open(dir, book)
					must(err)
					kit = k
					h.legacyTo = int64(kit.Ledger.GetCurrentBlockHeight())
					h.noteReopen(kit.Ledger.GetCurrentBlockHeight())
					for x := range h.saved {
						delete(h.saved, x)
					}
					strips++
				case strings.HasPrefix(op, "n"):
					n, err := strconv.ParseUint(op[1:], 10, 32)
					if err != nil || n > 20000 {
						return hx.Result{Out: "bad-op", Kind: "bad-op"}
					}
					for i := uint64(0); i < n; i++ {
						blk, err := kit.MakeBlock(nil)
						must(err)
						must(kit.Add(blk))
						h.saved[blk.Header.Height] = ethtypes.Bloom{}
					}
				case strings.HasPrefix(op, "t"):
					first := counter
					txs, ok := parseTxs(op[1:], salt, &counter)
					if !ok {
						return hx.Result{Out: "bad-op", Kind: "bad-op"}
					}
					var btx, ftx []*types.Transaction
					var expect []*types.StorageLog
					for i, t := range txs {
						key := senderKey(salt, first+i)
						price, value, gasLimit := new(big.Int), new(big.Int), uint64(400000)
						if t.priced {
							price = gasPriceWei
							fundNonce++
							fund, err := ledgerkit.OngTransferV2Tx(book, common.Address(crypto.PubkeyToAddress(key.PublicKey)), oneOng, fundNonce)
							must(err)
							ftx = append(ftx, fund)
						}
						if t.overValue {
							value = new(big.Int).Mul(oneOng, big.NewInt(5))
						}
						if t.oog {
							gasLimit = 120000
						}
						tx, _, err := ledgerkit.EIP155Tx(key, 0, nil, value, gasLimit, price, initCode(t.logs, t.revert, t.oog))
						must(err)
						btx = append(btx, tx)
						ntx++
						if t.failed() {
							nfail++
							if t.priced {
								nfeefail++
							}
						}
						expect = append(expect, t.receiptLogs()...)
						nlogs += len(t.receiptLogs())
					}
					blk, err := kit.MakeBlock(append(ftx, btx...)) // funding transactions (no receipt) first
					must(err)
					must(kit.Add(blk))
					h.saved[blk.Header.Height] = blockBloom(expect)
					for i, tx := range btx {
						n, err := kit.Ledger.GetEventNotifyByTx(tx.Hash())
						if err != nil || n == nil || (n.State == event.CONTRACT_STATE_SUCCESS) == txs[i].failed() {
							statusMismatch++ // the generated transaction did not fail / succeed as its flags say
						}
					}
				default:
					return hx.Result{Out: "bad-op", Kind: "bad-op"}
				}
			}
		}
		// the property on the ledger's own outputs: logs from the event store against the bloom from the block store
		curH := kit.Ledger.GetCurrentBlockHeight()
		seen := 0
		fsNow := kit.Store.GetFilterStart()
		for x := uint32(1); x <= curH && res.Fail == ""; x++ {
			if int64(x) <= h.legacyTo || (h.legacyTo >= 0 && x < fsNow) {
				continue // after a strip only the advertised range [filter start, current] is promised
			}
			blk, err := kit.Ledger.GetBlockByHeight(x)
			must(err)
			if len(blk.Transactions) == 0 {
				continue
			}
			bl, err := kit.Ledger.GetBloomData(x)
			must(err)
			for _, tx := range blk.Transactions {
				if tx.TxType != types.EIP155 {
					continue
				}
				n, err := kit.Ledger.GetEventNotifyByTx(tx.Hash())
				if err != nil || n == nil {
					continue
				}
				var logs []*types.StorageLog
				for _, ni := range n.Notify {
					if l, err := event.NotifyEventInfoToEvmLog(ni); err == nil {
						logs = append(logs, l)
					}
				}
				seen += len(logs)
				if cls, msg := containsAll(bl, logs); cls != "" {
					res.Fail, res.Class = fmt.Sprintf("height %d: %s (bloom read through Ledger.GetBloomData)", x, msg), cls
					break
				}
			}
		}
		bs := kit.Store.VerifBlockStore()
		o := observe(bs)
		res.Out = o.out
		if h.legacyTo < 0 && seen != nlogs {
			res.Out += fmt.Sprintf(" logs-seen=%d/%d", seen, nlogs)
		}
		if statusMismatch > 0 {
			res.Out += fmt.Sprintf(" status-mismatch=%d", statusMismatch)
		}
		if res.Fail == "" {
			res.Class, res.Fail = checkStore(bs, o, h, kit.Ledger.GetBloomData)
		}
		sec := 0
		if curH >= SEC-1 {
			sec = 1
		}
		res.Kind = fmt.Sprintf("L:logs=%s:failed=%s:failed-with-fee-log=%s:reopens=%s:strip=%d:sections=%d", lbucket(nlogs), bucket(nfail), bucket(nfeefail), bucket(reopens), strips, sec)
		if nlogs > 0 {
			res.Key = "L" + o.out
		}
		return res
	})
}

func lbucket(n int) string {
	switch {
	case n == 0:
		return "0"
	case n <= 5:
		return "1-5"
	default:
		return ">5"
	}
}

func exec(line string) hx.Result {
	f := strings.Fields(line)
	if len(f) == 0 {
		return hx.Result{Out: "bad-op", Kind: "bad-op"}
	}
	switch f[0] {
	case "G":
		return execG(f)
	case "B":
		return execB(f)
	case "L":
		return execL(f)
	}
	return hx.Result{Out: "bad-op", Kind: "bad-op"}
}

// ---------- generators ----------

var special [][]byte // 32-byte topics whose first bloom bit number is a byte / word boundary

func specials() [][]byte {
	if special != nil {
		return special
	}
	want := map[uint]bool{0: true, 7: true, 8: true, 2040: true, 2047: true, 1023: true, 1024: true}
	for n := uint64(0); len(want) > 0 && n < 1<<22; n++ {
		var t [32]byte
		binary.BigEndian.PutUint64(t[24:], n)
		t[0] = 0xc4
		k := idx3(t[:])
		if want[k[0]] {
			delete(want, k[0])
			special = append(special, append([]byte{}, t[:]...))
		}
	}
	return special
}

type pool struct {
	addrs, topics [][]byte
}

func newPool(r *hx.Rand) *pool {
	p := &pool{}
	for i := 0; i < 3; i++ {
		p.addrs = append(p.addrs, r.Bytes(20))
		p.topics = append(p.topics, r.Bytes(32))
	}
	p.topics = append(p.topics, specials()...)
	return p
}

func (p *pool) addr(r *hx.Rand) []byte {
	if r.Chance(40) {
		return p.addrs[r.Intn(len(p.addrs))]
	}
	return r.Bytes(20)
}

func (p *pool) topic(r *hx.Rand) []byte {
	if r.Chance(40) {
		return p.topics[r.Intn(len(p.topics))]
	}
	return r.Bytes(32)
}

func genLog(r *hx.Rand, p *pool, addr []byte) (string, [][3]uint) {
	its := []string{item(addr)}
	ks := [][3]uint{idx3(addr)}
	for n := r.Intn(5); n > 0; n-- {
		t := p.topic(r)
		its = append(its, item(t))
		ks = append(ks, idx3(t))
	}
	return strings.Join(its, ","), ks
}

func genG(r *hx.Rand, S int) string {
	p := newPool(r)
	var blocks []string
	var withLogs []int
	bits := map[uint]bool{}
	density := []int{2, 10, 40, 100}[r.Intn(4)]
	if S == SEC {
		density = []int{1, 3, 8}[r.Intn(3)]
	}
	for j := 0; j < S; j++ {
		if !r.Chance(density) && !(S == SEC && (j == 0 || j == S-1 || j == 7 || j == 8)) {
			continue
		}
		var logs []string
		for n := 1 + r.Intn(3); n > 0; n-- {
			l, ks := genLog(r, p, p.addr(r))
			logs = append(logs, l)
			for _, k := range ks {
				bits[k[0]], bits[k[1]], bits[k[2]] = true, true, true
			}
		}
		blocks = append(blocks, fmt.Sprintf("%d:%s", j, strings.Join(logs, "/")))
		withLogs = append(withLogs, j)
	}
	var selB, selV []string
	for n := 0; n < 2 && len(withLogs) > 0; n++ {
		selB = append(selB, strconv.Itoa(withLogs[r.Intn(len(withLogs))]))
	}
	if S > 0 {
		selB = append(selB, strconv.Itoa(r.Intn(S)))
	}
	var bl []int
	for k := range bits {
		bl = append(bl, int(k))
	}
	sort.Ints(bl)
	for n := 0; n < 3 && len(bl) > 0; n++ {
		selV = append(selV, strconv.Itoa(bl[r.Intn(len(bl))]))
	}
	selV = append(selV, strconv.Itoa(r.Intn(2048)))
	bs := "-"
	if len(blocks) > 0 {
		bs = strings.Join(blocks, ";")
	}
	sb := "-"
	if len(selB) > 0 {
		sb = strings.Join(selB, ",")
	}
	return fmt.Sprintf("G %d %s %s %s", S, sb, strings.Join(selV, ","), bs)
}

func genRule(r *hx.Rand) string {
	m := []int{1, 2, 3, 5, 7, 50, 500}[r.Intn(7)]
	return fmt.Sprintf("%d,%d,%d,%d,%d", m, r.Intn(m), 1+r.Intn(2047), r.Intn(2048), r.Intn(2048))
}

// op list for B lines starting at height cur; budget = max number of saves
func genBOps(r *hx.Rand, cur uint64, budget int) string {
	var ops []string
	nops := 1 + r.Intn(5)
	for i := 0; i < nops && budget > 0; i++ {
		if i > 0 && r.Chance(35) {
			ops = append(ops, "r")
			continue
		}
		toEnd := int(SEC - 1 - cur%SEC) // saves until the last height of the current section
		var n int
		switch r.Intn(6) {
		case 0:
			n = 1 + r.Intn(20)
		case 1:
			n = toEnd // stops exactly on the last height of a section
		case 2:
			n = toEnd + 1 // first height of the next section
		case 3:
			n = toEnd - 1
		case 4:
			n = SEC + r.Intn(100)
		default:
			n = 1 + r.Intn(6000)
		}
		if n <= 0 {
			n = 1
		}
		if n > budget {
			n = budget
		}
		budget -= n
		cur += uint64(n)
		ops = append(ops, fmt.Sprintf("s%d", n))
	}
	if r.Chance(30) {
		ops = append(ops, "r")
	}
	return strings.Join(ops, ";")
}

// genBMid: s<k>;r;s<rest to the section end (+ a few)> with k strictly inside the section, every height with its own bloom:
// the section is completed from bloomCache entries reloaded by the real LoadBloomBits
func genBMid(r *hx.Rand) string {
	rule := fmt.Sprintf("1,0,%d,%d,%d", 1+2*r.Intn(1023), r.Intn(2048), r.Intn(2048))
	k := 2 + r.Intn(SEC-4)
	rest := SEC - 1 - k + r.Intn(3)
	ops := fmt.Sprintf("s%d;r;s%d", k, rest)
	if r.Chance(30) && rest > 2 {
		k2 := 1 + r.Intn(rest-1)
		ops = fmt.Sprintf("s%d;r;s%d;r;s%d", k, k2, rest-k2)
	}
	switch r.Intn(3) {
	case 0:
		return fmt.Sprintf("B 0 G %s %s", rule, ops)
	case 1: // legacy data ends on the last height of a section
		return fmt.Sprintf("B 0 j%d %s s1;%s", SEC*uint64(1+r.Intn(4))-1, rule, ops)
	default: // main net, a section that lies above adh: every height carries a bloom
		return fmt.Sprintf("B %d j%d %s s1;%s", mainADH, uint64(mainADH/SEC*SEC)+2*SEC-1, rule, ops)
	}
}

func genB(r *hx.Rand, fresh bool, budget int) string {
	if r.Chance(20) {
		return genBMid(r)
	}
	adh := uint64(0)
	if r.Chance(35) {
		adh = mainADH
	}
	if fresh {
		return fmt.Sprintf("B %d G %s %s", adh, genRule(r), genBOps(r, 0, budget))
	}
	var h uint64
	if adh == 0 {
		c := []uint64{0, 1, 2, 5, 4094, 4095, 4096, 4097, 8191, 8192, 8193, 10000, 12287, 12288}
		if r.Chance(60) {
			h = c[r.Intn(len(c))]
		} else {
			h = uint64(r.Intn(30000))
		}
	} else {
		m := uint64(mainADH / SEC * SEC)
		c := []uint64{m - 5000, m - 4097, m - 4096, m - 1, m, m + 1, m + 100, mainADH - 1, mainADH, mainADH + 1, mainADH + 2303, mainADH + 2304, mainADH + 5000, 100}
		if r.Chance(75) {
			h = c[r.Intn(len(c))]
		} else {
			h = m - 8000 + uint64(r.Intn(20000))
		}
	}
	return fmt.Sprintf("B %d j%d %s %s", adh, h, genRule(r), genBOps(r, h, budget))
}

func logItems(l *types.StorageLog) string {
	its := []string{item(l.Address[:])}
	for _, t := range l.Topics {
		its = append(its, item(t[:]))
	}
	return strings.Join(its, ",")
}

// genLTx: flags 0 = random; otherwise the given flags (e.g. "$v")
func genLTx(r *hx.Rand, p *pool, salt string, counter *int, flags string) string {
	sender := crypto.PubkeyToAddress(senderKey(salt, *counter).PublicKey)
	addr := crypto.CreateAddress(sender, 0)
	*counter++
	var logs []string
	for n := r.Intn(4); n > 0; n-- {
		l, _ := genLog(r, p, addr[:])
		logs = append(logs, l)
	}
	s := "_"
	if len(logs) > 0 {
		s = strings.Join(logs, "/")
	}
	if flags == "" {
		if r.Chance(40) {
			flags = "$"
		}
		switch x := r.Intn(100); {
		case x < 14:
			flags += "!"
		case x < 22:
			flags += "o"
		case x < 30:
			flags += "v"
		}
	} else if flags == "-" {
		flags = ""
	}
	if strings.Contains(flags, "$") {
		s += "~" + logItems(feeLog(sender))
	}
	return flags + s
}

func genLBlock(r *hx.Rand, p *pool, salt string, counter *int) string {
	var txs []string
	switch r.Intn(8) {
	case 0: // a failing transaction that pays a fee, alone in its block: the fee log is the only log of the block
		txs = append(txs, genLTx(r, p, salt, counter, []string{"$!", "$o", "$v"}[r.Intn(3)]))
	case 1: // a successful emitting transaction mixed with a failing one that pays a fee, in either order
		bad := []string{"$!", "$o", "$v"}[r.Intn(3)]
		good := []string{"-", "$"}[r.Intn(2)]
		if r.Bool() {
			bad, good = good, bad
		}
		txs = append(txs, genLTx(r, p, salt, counter, bad), genLTx(r, p, salt, counter, good))
	default:
		for n := 1 + r.Intn(3); n > 0; n-- {
			txs = append(txs, genLTx(r, p, salt, counter, ""))
		}
	}
	return "t" + strings.Join(txs, "+")
}

func genL(r *hx.Rand, big bool) string {
	salt := fmt.Sprintf("%x", r.U64()&0xffffff)
	p := newPool(r)
	counter := 0
	var ops []string
	if big {
		// crosses the first section boundary: logs in the first, the last and the first-after heights
		// heights with logs: 1, 8, 2009, 4095 (last of section 0), 4096 (first of section 1), 4099
		// and a restart in the middle of section 0 right after a block with logs (height 2009): the section is then completed
		// from cache entries reloaded by LoadBloomBits
		ops = append(ops, genLBlock(r, p, salt, &counter), "n6", genLBlock(r, p, salt, &counter))
		ops = append(ops, "n2000", genLBlock(r, p, salt, &counter), "r")
		ops = append(ops, fmt.Sprintf("n%d", SEC-1-2009-1), genLBlock(r, p, salt, &counter))
		if r.Bool() {
			ops = append(ops, "r")
		}
		ops = append(ops, genLBlock(r, p, salt, &counter), "n2", genLBlock(r, p, salt, &counter), "r")
		return fmt.Sprintf("L %s %s", salt, strings.Join(ops, ";"))
	}
	for n := 2 + r.Intn(6); n > 0; n-- {
		switch r.Intn(10) {
		case 0, 1:
			ops = append(ops, fmt.Sprintf("n%d", 1+r.Intn(4)))
		case 2:
			ops = append(ops, "r")
		case 3:
			if r.Chance(50) {
				ops = append(ops, "x")
			} else {
				ops = append(ops, "r")
			}
		default:
			ops = append(ops, genLBlock(r, p, salt, &counter))
		}
	}
	return fmt.Sprintf("L %s %s", salt, strings.Join(ops, ";"))
}

func gen(r *hx.Rand, tier string, i int) string {
	if tier == "thorough" && i < 2 {
		return genL(r, true)
	}
	budget := 10000
	if tier == "thorough" {
		budget = 30000
	}
	x := r.Intn(100)
	switch {
	case x < 55:
		S := []int{8, 8, 16, 24, 32, 64, 128, 256, 12, 0}[r.Intn(10)]
		return genG(r, S)
	case x < 58:
		return genG(r, SEC)
	case x < 84:
		return genB(r, false, budget)
	case x < 94:
		return genB(r, true, budget)
	default:
		return genL(r, false)
	}
}

func corpus() []string {
	a := bytes.Repeat([]byte{0x11}, 20)
	t := bytes.Repeat([]byte{0x22}, 32)
	sp := specials()
	var its []string
	for _, s := range sp {
		its = append(its, item(s))
	}
	return []string{
		"G 8 0,7 0,2047 -",
		fmt.Sprintf("G 8 0,7 0,7,8,2047 0:%s,%s;7:%s,%s", item(a), item(t), item(a), strings.Join(its[:4], ",")),
		fmt.Sprintf("G 16 8 1023,1024 8:%s,%s", item(a), strings.Join(its, ",")),
		fmt.Sprintf("G 12 - 0 0:%s", item(a)),
		// bookkeeping boundaries
		"B 0 G 1,0,3,5,7 s4094;r;s1;r;s2",
		"B 0 G 1,0,3,5,7 s4095",
		"B 0 G 2,1,3,5,7 s1;r;s8200",
		"B 0 G 1,0,3,5,7 s2000;r;s2095",
		"B 0 G 1,0,1001,77,1500 s4000;r;s50;r;s46",
		"B 0 j8191 1,0,3,5,7 s100;r;s3996",
		fmt.Sprintf("B %d j%d 1,0,3,5,7 s700;r;s3396", mainADH, mainADH/SEC*SEC+2*SEC-1),
		"B 0 j4096 1,0,3,5,7 s4095",
		"B 0 j8192 1,0,3,5,7 s1;r",
		"B 0 j10000 1,0,3,5,7 s2300;r;s4096",
		"B 0 j0 1,0,3,5,7 s4095;r",
		fmt.Sprintf("B %d G 1,0,3,5,7 s10;r;s10", mainADH),
		fmt.Sprintf("B %d j%d 1,0,3,5,7 s4100;r;s4096", mainADH, mainADH/SEC*SEC-3),
		fmt.Sprintf("B %d j%d 1,0,3,5,7 s100;r;s2400", mainADH, mainADH-1),
		fmt.Sprintf("B %d j%d 1,0,3,5,7 s2400", mainADH, mainADH+5),
	}
}

// failedFeeCorpus: the minimal cases of a failed EVM transaction whose receipt still carries the fee log — alone in its block
// (insufficient funds / revert / out of gas) and mixed with a successful emitting transaction.  `C43_PRINT_CORPUS=1 hx-c43` prints
// them; they live in corpus/C43/failed-fee.ops.
func failedFeeCorpus() []string {
	r := hx.NewRand(43)
	var out []string
	for _, fl := range []string{"$v", "$!", "$o"} {
		p, c := newPool(r), 0
		out = append(out, fmt.Sprintf("L c43%s t%s", fl[1:], genLTx(r, p, "c43"+fl[1:], &c, fl)))
	}
	p, c := newPool(r), 0
	a := genLTx(r, p, "c43mix", &c, "$")
	b := genLTx(r, p, "c43mix", &c, "$v")
	d := genLTx(r, p, "c43mix", &c, "!")
	out = append(out, fmt.Sprintf("L c43mix t%s+%s+%s;r", a, b, d))
	return out
}

func main() {
	if os.Getenv("C43_PRINT_CORPUS") != "" {
		setup()
		for _, l := range failedFeeCorpus() {
			fmt.Println(l)
		}
		os.RemoveAll(base)
		return
	}
	defer func() {
		if base != "" && os.Getenv("HX_CHILD") == "" {
			os.RemoveAll(base)
		}
	}()
	hx.Main(hx.Prop{
		ID: "C43",
		Rule: "G: one section of S blocks (S in 8..256, 4096 through the repo's PutBloomIndex/ReadBloomBits) with generated logs (shared and fresh " +
			"addresses/topics, topics whose bloom bit is 0/7/8/1023/1024/2040/2047), non-trivial = at least one log; B: real BlockStore bookkeeping " +
			"(fresh ledgers and legacy block stores, solo and main-net heights around section boundaries and around the filter start), " +
			"non-trivial = at least one block saved; L: real solo ledgers with EVM transactions emitting LOG0..LOG4, successful and failed " +
			"(revert / out of gas / value above balance), with gas price 0 or 500 Gwei (fee log of the ONG contract also on failed receipts), " +
			"failing transactions alone in a block and mixed with emitting ones, non-trivial = at least one log",
		Gen:    gen,
		Exec:   exec,
		Corpus: corpus(),
		N:      map[string]int{"quick": 200, "thorough": 1000},
		Init:   setup,
	})
}
