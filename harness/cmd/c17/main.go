// C17 harness: the signer set contract code sees (Transaction.GetSignatureAddresses / SmartContract.CheckWitness) on a
// copy of the transaction that went through validation.VerifyTransaction versus on a copy that did not (a node that
// received the transaction inside a block), for the transactions of the C16 generators (all key types, alternative
// public-key encodings, unsorted / non-minimal raw scripts, mutations).
//
// Output line (compared with the Lean model `ontdrv C17`):
//
//	deser-err | eip
//	code=<ok|sig|payload|PANIC> validated=<sorted SignedAddr|-> fallback=<addresses of the unvalidated copy, in order|->
//	    cw=<CheckWitness bits on the validated copy>/<bits on the unvalidated copy>   (over the sorted union of both sets)
//
// The op line's P= field (see siggen) is applied to the copy that is validated: GetSignatureAddresses() before
// validation, validating twice, direct assignment of SignedAddr.
//
// Predicate: accepted => both copies authorize exactly the same accounts; the verdict and the validator's signer set do
// not depend on the state of the object before validation.
package main

import (
	"bytes"
	"encoding/hex"
	"fmt"
	"sort"
	"strings"

	"github.com/ontio/ontology-crypto/keypair"
	"github.com/ontio/ontology/common"
	"github.com/ontio/ontology/common/log"
	"github.com/ontio/ontology/core/types"
	"github.com/ontio/ontology/core/validation"
	ontErrors "github.com/ontio/ontology/errors"
	"github.com/ontio/ontology/smartcontract"
	"verif/harness/internal/hx"
	sg "verif/harness/internal/siggen"
)

func verifyTx(tx *types.Transaction) (code string) {
	defer func() {
		if e := recover(); e != nil {
			code = "PANIC"
		}
	}()
	switch validation.VerifyTransaction(tx) {
	case ontErrors.ErrNoError:
		return "ok"
	case ontErrors.ErrVerifySignature:
		return "sig"
	case ontErrors.ErrTransactionPayload:
		return "payload"
	}
	return "other"
}

func witnessBits(tx *types.Transaction, union []common.Address) string {
	sc := &smartcontract.SmartContract{Config: &smartcontract.Config{Tx: tx}}
	var b strings.Builder
	for _, a := range union {
		if sc.CheckWitness(a) {
			b.WriteByte('1')
		} else {
			b.WriteByte('0')
		}
	}
	if b.Len() == 0 {
		return "-"
	}
	return b.String()
}

// why does the raw-script hash of this set differ from the account the validator derives?
func cause(rs types.RawSig) string {
	sp := sg.SpecParse(rs.Verify)
	if !sp.OK {
		return "unparsable"
	}
	if len(sp.Keys) == 1 {
		if _, err := keypair.GetEthereumPubKey(sp.Keys[0]); err == nil {
			return "eth-key"
		}
	}
	for i, k := range sp.Keys {
		if !bytes.Equal(keypair.SerializePublicKey(k), sp.KeyBytes[i]) {
			return "noncanonical-pubkey-encoding"
		}
	}
	if len(sp.Keys) > 1 {
		sorted := keypair.SortPublicKeys(append([]keypair.PublicKey{}, sp.Keys...))
		for i := range sorted {
			if sg.KeyID(sorted[i]) != sg.KeyID(sp.Keys[i]) {
				return "unsorted-multisig"
			}
		}
	}
	if !sp.MinPush {
		return "nonminimal-push"
	}
	return "canonical-script"
}

func derivedAddr(rs types.RawSig) (common.Address, bool) {
	sp := sg.SpecParse(rs.Verify)
	if !sp.OK {
		return common.Address{}, false
	}
	if len(sp.Keys) == 1 {
		return types.AddressFromPubKey(sp.Keys[0]), true
	}
	a, err := types.AddressFromMultiPubKeys(append([]keypair.PublicKey{}, sp.Keys...), sp.M)
	return a, err == nil
}

func exec(line string) hx.Result {
	res := exec1(line)
	sg.Limit(&res)
	return res
}

func exec1(line string) hx.Result {
	pl, ok := sg.ParseLine(line)
	if !ok {
		return hx.Result{Out: "bad-op", Kind: "bad-op"}
	}
	txA, err := types.TransactionFromRawBytes(append([]byte{}, pl.Raw...))
	if err != nil {
		return hx.Result{Out: "deser-err", Kind: "deser-err"}
	}
	txB, _ := types.TransactionFromRawBytes(append([]byte{}, pl.Raw...))
	if txA.TxType == types.EIP155 {
		return hx.Result{Out: "eip", Kind: "eip"}
	}
	_, _ = sg.ApplyPre(txA, pl.Raw, pl.Pre) // object state: getter / earlier pass / assignment before validation
	code := verifyTx(txA)
	res := hx.Result{}
	if code == "PANIC" {
		// C16's finding; nothing to compare here
		res.Out = "code=PANIC validated=- fallback=- cw=-/-"
		res.Kind = "panic (C16 finding)"
		return res
	}
	validated := "-"
	if code == "ok" || code == "payload" {
		validated = sg.SortedAddrs(txA.SignedAddr)
	}
	seenA := txA.GetSignatureAddresses()
	fb := txB.GetSignatureAddresses()
	um := map[common.Address]bool{}
	var union []common.Address
	for _, a := range append(append([]common.Address{}, seenA...), fb...) {
		if !um[a] {
			um[a] = true
			union = append(union, a)
		}
	}
	sort.Slice(union, func(i, j int) bool { return hex.EncodeToString(union[i][:]) < hex.EncodeToString(union[j][:]) })
	bitsA, bitsB := witnessBits(txA, union), witnessBits(txB, union)
	res.Out = fmt.Sprintf("code=%s validated=%s fallback=%s cw=%s/%s", code, validated, sg.ListAddrs(fb), bitsA, bitsB)
	tagq := strings.SplitN(pl.Tag, ":", 3)
	bucket := tagq[0]
	if len(tagq) > 1 && (bucket == "raw" || bucket == "struct" || bucket == "bytemut") {
		if strings.Contains(tagq[1], "+") {
			bucket += ":combined"
		} else {
			bucket += ":" + tagq[1]
		}
	}
	res.Kind = bucket + " -> " + code
	if len(pl.Pre) > 0 {
		res.Kind += " [pre:" + pl.Pre[0][:1] + "]"
		if fresh, err := types.TransactionFromRawBytes(append([]byte{}, pl.Raw...)); err == nil {
			if fc := verifyTx(fresh); fc != code {
				res.Class = "verdict-depends-on-object-state"
				res.Fail = fmt.Sprintf("verdict %s after %s on the object, %s on a freshly decoded copy", code, strings.Join(pl.Pre, "."), fc)
				return res
			} else if fc == "ok" && sg.SortedAddrs(fresh.SignedAddr) != validated {
				res.Class = "signers-depend-on-object-state"
				res.Fail = "signer set established by the validator depends on the state of the object before validation"
				return res
			}
		}
	}
	if code != "ok" {
		return res
	}
	res.Key = hex.EncodeToString(sg.Sha256d(pl.Raw)[:8]) + strings.Join(pl.Pre, ".")
	if bitsA == bitsB {
		res.Kind += " same"
		return res
	}
	// classify by the first signature set whose two derivations differ
	cls := "other"
	for i, rs := range txB.Sigs {
		d, ok := derivedAddr(rs)
		if !ok {
			cls = "unparsable"
			break
		}
		if i < len(fb) && d != fb[i] {
			cls = cause(rs)
			break
		}
	}
	res.Kind += " DIFFER:" + cls
	res.Class = "signer-set-differs:" + cls
	res.Fail = fmt.Sprintf("accepted transaction authorizes different accounts on a validating node (%s) and on a node that did not validate it (%s): %s",
		validated, sg.ListAddrs(fb), cls)
	return res
}

func main() {
	log.InitLog(log.MaxLevelLog)
	hx.Main(hx.Prop{
		ID: "C17",
		Rule: "the C16 transaction generators (real keys of every type incl. Ethereum-type, every accepted encoding of a public key, sorted/unsorted and " +
			"minimal/non-minimal raw scripts, mutations); each raw transaction is decoded twice, one copy is validated; non-trivial = accepted transaction; key = hash of the raw bytes",
		Gen:    sg.Gen17,
		Exec:   exec,
		Corpus: sg.Corpus(),
		N:      map[string]int{"quick": 1200, "thorough": 30000},
	})
}
