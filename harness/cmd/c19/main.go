// C19 harness: Transaction.Deserialization / TransactionFromRawBytes on valid deploy / invoke / EIP-155 transactions
// (built with the repository's own builders) and on their mutations; predicate = canonical re-encoding, hash over the
// unsigned prefix, signature independence, size limit — all evaluated on the implementation's own outputs.
package main

import (
	"bytes"
	"fmt"
	"math/big"
	"strconv"
	"strings"

	ethcrypto "github.com/ethereum/go-ethereum/crypto"
	"github.com/ontio/ontology/common"
	"github.com/ontio/ontology/common/constants"
	"github.com/ontio/ontology/core/types"
	g "verif/harness/internal/c19gen"
	"verif/harness/internal/hx"
)

var hotVals = []byte{0, 1, 2, 0x10, 0x7f, 0x80, 0xd0, 0xd1, 0xd2, 0xd3, 0xd4, 0xfc, 0xfd, 0xfe, 0xff}

func mutateBytes(r *hx.Rand, b []byte) ([]byte, string) {
	b = append([]byte{}, b...)
	if len(b) == 0 {
		return b, "empty"
	}
	switch r.Intn(7) {
	case 0:
		p := r.Intn(len(b))
		b[p] = byte(r.U64())
		return b, "setrand"
	case 1:
		p := r.Intn(len(b))
		b[p] = hotVals[r.Intn(len(hotVals))]
		return b, "sethot"
	case 2:
		p := r.Intn(len(b))
		if r.Bool() {
			b[p]++
		} else {
			b[p]--
		}
		return b, "incdec"
	case 3:
		return b[:r.Intn(len(b))], "truncate"
	case 4:
		return append(b, r.Bytes(1+r.Intn(6))...), "trailing"
	case 5:
		p := r.Intn(len(b) + 1)
		out := append(append(append([]byte{}, b[:p]...), byte(r.U64())), b[p:]...)
		return out, "insert"
	default:
		p := r.Intn(len(b))
		return append(b[:p], b[p+1:]...), "delete"
	}
}

func place(r *hx.Rand, b []byte) string {
	if r.Chance(70) {
		return "T raw " + g.ToBx(b) + " " + g.Oracle(b, []int{0})
	}
	pre := r.Bytes(r.Intn(6))
	if r.Chance(20) {
		pre = append(pre, 0x00, 0xd3) // a prefix that looks like an EIP-155 head
	}
	suf := r.Bytes(r.Intn(6))
	all := append(append(append([]byte{}, pre...), b...), suf...)
	return fmt.Sprintf("T at:%d %s %s", len(pre), g.ToBx(all), g.Oracle(all, []int{len(pre)}))
}

func genOntVariant(r *hx.Rand) []byte {
	s, raw := g.RandOnt(r)
	switch r.Intn(12) {
	case 0, 1:
		return raw
	case 2, 3: // non-minimal var-uint somewhere
		_, _, n := s.Encode()
		s.WidenIdx = r.Intn(n)
		s.WidenTo = []int{3, 5, 9}[r.Intn(3)]
	case 4: // signature count does not match the signatures present
		cs := []int64{int64(len(s.Sigs)) + 1, int64(len(s.Sigs)) - 1, 16, 17, 0xfd, 0x10000, 1 << 32, 1<<63 - 1}
		s.SigCount = cs[r.Intn(len(cs))]
		if s.SigCount < 0 {
			s.SigCount = 0
		}
	case 5:
		s.Attr = []uint64{1, 2, 0xfc, 0xfd, 1 << 40}[r.Intn(5)]
	case 6:
		if r.Bool() {
			s.Ver = byte(1 + r.Intn(255))
		} else {
			s.Ty = []byte{0, 0xcf, 0xd3, 0xd4, 0xff, 0xd0, 0xd1, 0xd2}[r.Intn(8)]
		}
	case 7: // deploy field limits
		s.Ty = 0xd0
		switch r.Intn(6) {
		case 0:
			s.VM = []byte{0, 2, 4, 255}[r.Intn(4)]
		case 1:
			s.VM = 1
			s.Strs[r.Intn(4)] = bytes.Repeat([]byte{'a'}, 252+r.Intn(3))
		case 2:
			s.VM = 3
			s.Strs[4] = bytes.Repeat([]byte{'d'}, 65535+r.Intn(3))
		case 3, 4: // code size limits (rare: half a megabyte per case; the exact boundaries are in the corpus)
			if r.Chance(4) {
				s.VM = []byte{1, 3}[r.Intn(2)]
				s.Code = bytes.Repeat([]byte{0}, 512*1024+r.Intn(2))
			} else {
				s.VM = 3
				s.Code = r.Bytes(300 + r.Intn(3))
			}
		default:
			s.VM = byte(r.Intn(4))
		}
	case 8: // extra / missing / duplicated / reordered signatures, count adjusted
		switch r.Intn(4) {
		case 0:
			_, sg := g.RepoSig(r)
			s.Sigs = append(s.Sigs, sg)
		case 1:
			if len(s.Sigs) > 0 {
				s.Sigs = s.Sigs[:len(s.Sigs)-1]
			}
		case 2:
			if len(s.Sigs) > 0 {
				s.Sigs = append(s.Sigs, s.Sigs[0])
			}
		default:
			for len(s.Sigs) < 17 {
				_, sg := g.RepoSig(r)
				s.Sigs = append(s.Sigs, sg)
			}
			if r.Bool() {
				s.Sigs = s.Sigs[:16]
			}
		}
	case 9: // dummy (non-program) signature bytes, empty scripts
		s.Sigs = nil
		for i := 0; i < 1+r.Intn(3); i++ {
			s.Sigs = append(s.Sigs, [2][]byte{r.Bytes(r.Intn(5)), r.Bytes(r.Intn(5))})
		}
	default:
		out, _, _ := s.Encode()
		m, _ := mutateBytes(r, out)
		return m
	}
	out, _, _ := s.Encode()
	return out
}

func genEipVariant(r *hx.Rand) []byte {
	hostile := 0
	if r.Chance(25) {
		hostile = 1 + r.Intn(4)
	}
	tx, f := g.RandEip(r, hostile)
	o := g.NoRlpOpt()
	width := 0
	switch r.Intn(14) {
	case 0, 1, 2:
		if hostile == 0 {
			otx, err := types.TransactionFromEIP155(tx)
			if err != nil {
				panic(err)
			}
			return otx.Raw
		}
	case 3:
		o.LongStr = r.Intn(9)
	case 4:
		o.LeadZero = r.Intn(9)
	case 5:
		o.LongList = true
	case 6:
		o.Single81 = r.Intn(9)
		f.Data = []byte{byte(r.Intn(0x80))}
		o.Single81 = 5
	case 7:
		o.ExtraItem = true
	case 8:
		o.DropItem = true
	case 9:
		o.Trailing = r.Bytes(1 + r.Intn(3))
	case 10:
		width = []int{3, 5, 9}[r.Intn(3)]
	case 11: // signature malleation: s' = n - s, v flipped
		n := ethcrypto.S256().Params().N
		f.S = new(big.Int).Sub(n, f.S)
		if f.V.Bit(0) == 0 {
			f.V = new(big.Int).Sub(f.V, big.NewInt(1))
		} else {
			f.V = new(big.Int).Add(f.V, big.NewInt(1))
		}
	case 12: // broken signature values
		switch r.Intn(3) {
		case 0:
			f.R = big.NewInt(0)
		case 1:
			f.S = big.NewInt(0)
		default:
			f.V = big.NewInt(int64(r.Intn(40)))
		}
	default:
		b := g.WrapEip(f.Encode(o), 0)
		m, _ := mutateBytes(r, b)
		return m
	}
	return g.WrapEip(f.Encode(o), width)
}

func gen(r *hx.Rand, tier string, i int) string {
	switch r.Intn(20) {
	case 0:
		return place(r, r.Bytes(r.Intn(40)))
	case 1:
		b := append([]byte{0, []byte{0xd0, 0xd1, 0xd2, 0xd3}[r.Intn(4)]}, r.Bytes(r.Intn(60))...)
		return place(r, b)
	case 2, 3, 4, 5, 6, 7:
		return place(r, genEipVariant(r))
	default:
		return place(r, genOntVariant(r))
	}
}

// ---------- exec ----------

func finer(err error) string {
	m := err.Error()
	for _, k := range []string{"wrong transaction version", "unsupported tx type", "unreachable", "attribute must be 0", "signature number",
		"max transaction size", "invalid vm flags", "Code too long", "too long", "rlp:", "EIP155 get sender", "is too big", "multiple of GWei", "invalid chain"} {
		if strings.Contains(m, k) {
			return strings.ReplaceAll(k, " ", "-")
		}
	}
	return "other"
}

func sigsLen(tx *types.Transaction) int {
	sink := common.NewZeroCopySink(nil)
	sink.WriteVarUint(uint64(len(tx.Sigs)))
	for i := range tx.Sigs {
		tx.Sigs[i].Serialization(sink)
	}
	return len(sink.Bytes())
}

// property predicate on an accepted transaction; consumed = the bytes the decoder consumed (nil when unknown: raw mode)
func predicate(tx *types.Transaction, input []byte, off int, pos int) (string, string) {
	out := tx.ToArray()
	shape := "ont"
	if tx.IsEipTx() {
		shape = "eip"
	}
	var consumed []byte
	if pos >= 0 {
		consumed = input[off:pos]
	} else if len(out) <= len(input) {
		consumed = input[:len(out)]
	} else {
		return "re-encoding is longer than the input", "tx-reencode-differs-" + shape
	}
	if !bytes.Equal(out, consumed) {
		return "re-encoding differs from the consumed bytes", "tx-reencode-differs-" + shape
	}
	if len(consumed) > types.MAX_TX_SIZE {
		return "accepted transaction larger than MAX_TX_SIZE", "tx-oversize-accepted"
	}
	if len(tx.Sigs) > constants.TX_MAX_SIG_SIZE {
		return "accepted transaction with more than TX_MAX_SIG_SIZE signature entries", "tx-too-many-sigs-accepted"
	}
	if shape == "ont" {
		// the encoding determined by the parsed FIELDS (written with the repository's own sink / payload writers):
		// an accepted byte string must be that encoding, otherwise the same transaction has a second encoding
		sink := common.NewZeroCopySink(nil)
		sink.WriteByte(tx.Version)
		sink.WriteByte(byte(tx.TxType))
		sink.WriteUint32(tx.Nonce)
		sink.WriteUint64(tx.GasPrice)
		sink.WriteUint64(tx.GasLimit)
		sink.WriteBytes(tx.Payer[:])
		tx.Payload.Serialization(sink)
		sink.WriteVarUint(0)
		sink.WriteVarUint(uint64(len(tx.Sigs)))
		for i := range tx.Sigs {
			tx.Sigs[i].Serialization(sink)
		}
		if !bytes.Equal(sink.Bytes(), consumed) {
			return "accepted bytes are not the canonical encoding of the parsed fields", "tx-noncanonical-encoding-accepted"
		}
	}
	h := tx.Hash()
	if shape == "eip" {
		src := common.NewZeroCopySource(consumed[2:])
		code, _, _, _ := src.NextVarBytes()
		if !bytes.Equal(ethcrypto.Keccak256(code), h[:]) {
			return "EIP-155 hash is not keccak256 of the RLP payload", "tx-hash-eip-not-keccak-rlp"
		}
	} else {
		ul := len(consumed) - sigsLen(tx)
		if ul < 0 || g.Sha256d(consumed[:ul]) != h {
			return "hash is not sha256d of the unsigned prefix", "tx-hash-not-over-unsigned-prefix"
		}
		// signatures do not change the hash: same unsigned prefix with no signature / one more signature
		for k, alt := range [][]byte{append(append([]byte{}, consumed[:ul]...), 0),
			append(append(append([]byte{}, consumed[:ul]...), 1), 2, 0xaa, 0xbb, 1, 0xcc)} {
			if len(alt) > types.MAX_TX_SIZE {
				continue
			}
			t2, err := types.TransactionFromRawBytes(alt)
			if err != nil {
				return fmt.Sprintf("unsigned prefix with other signatures (#%d) rejected: %v", k, err), "tx-unsigned-prefix-not-self-contained"
			}
			if t2.Hash() != h {
				return "hash changes when only signatures change", "tx-hash-depends-on-sigs"
			}
		}
	}
	// one encoding, one hash: decoding the re-encoding gives the same transaction
	t3, err := types.TransactionFromRawBytes(append([]byte{}, out...))
	if err != nil {
		return "re-encoding is rejected: " + err.Error(), "tx-reparse-rejected"
	}
	if t3.Hash() != h || !bytes.Equal(t3.ToArray(), out) {
		return "decoding the re-encoding gives another hash or encoding", "tx-reparse-differs"
	}
	return "", ""
}

func exec(line string) hx.Result {
	f := strings.Fields(line)
	if len(f) == 1 && f[0] == "K" {
		return hx.Result{Out: fmt.Sprintf("consts max=%d sigs=%d gwei=%d", types.MAX_TX_SIZE, constants.TX_MAX_SIG_SIZE, constants.GWei), Kind: "consts"}
	}
	if len(f) != 4 || f[0] != "T" {
		return hx.Result{Out: "bad-op"}
	}
	types.CheckChainID = false
	bs := g.FromBx(f[2])
	var tx *types.Transaction
	var err error
	off, pos := 0, -1
	if f[1] == "raw" {
		tx, err = types.TransactionFromRawBytes(append([]byte{}, bs...))
	} else {
		off, _ = strconv.Atoi(strings.TrimPrefix(f[1], "at:"))
		if off > len(bs) {
			return hx.Result{Out: "bad-op"}
		}
		src := common.NewZeroCopySource(append([]byte{}, bs...))
		src.Skip(uint64(off))
		tx = new(types.Transaction)
		err = tx.Deserialization(src)
		pos = int(src.Pos())
	}
	if err != nil {
		k := g.KindOf(err)
		res := hx.Result{Out: "reject:" + k, Kind: "rej-" + k}
		if k == "invalid" {
			res.Kind += ":" + finer(err)
		}
		if !strings.Contains(res.Kind, "version") && !strings.Contains(res.Kind, "unsupported") {
			res.Key = line
		}
		return res
	}
	res := hx.Result{Key: line}
	if pos >= 0 {
		res.Out = fmt.Sprintf("ok pos=%d %s", pos, g.DumpTx(tx))
	} else {
		res.Out = "ok " + g.DumpTx(tx)
	}
	switch byte(tx.TxType) {
	case 0xd0:
		res.Kind = "ok-deploy"
	case 0xd3:
		res.Kind = "ok-eip"
	default:
		res.Kind = "ok-invoke"
	}
	if len(tx.Sigs) > 1 {
		res.Kind += "-multisig"
	}
	res.Fail, res.Class = predicate(tx, bs, off, pos)
	return res
}

// ---------- corpus: size limit and hand-made boundary cases ----------

func sizedInvoke(total int) []byte {
	// 2+4+8+8+20 = 42 header bytes, var-bytes code with a 5-byte length prefix, attribute count, signature count
	for _, w := range []int{1, 3, 5} {
		codeLen := total - 42 - w - 2
		if codeLen < 0 {
			continue
		}
		s := &g.OntSpec{Ty: 0xd1, SigCount: -1, WidenIdx: -1, Code: bytes.Repeat([]byte{0x55}, codeLen)}
		out, _, _ := s.Encode()
		if len(out) == total {
			return out
		}
	}
	panic("sizedInvoke")
}

func corpus() []string {
	c := []string{"K"}
	add := func(mode string, b []byte) { c = append(c, "T "+mode+" "+g.ToBx(b)+" -") }
	max := types.MAX_TX_SIZE
	add("raw", sizedInvoke(max))
	add("raw", sizedInvoke(max+1))
	add("raw", append(sizedInvoke(100), bytes.Repeat([]byte{0}, max)...)) // small tx, input above the limit
	add("at:3", append([]byte{9, 9, 9}, sizedInvoke(max)...))
	add("at:3", append([]byte{9, 9, 9}, sizedInvoke(max+1)...))
	add("at:3", append(append([]byte{9, 9, 9}, sizedInvoke(100)...), bytes.Repeat([]byte{0}, max)...))
	add("raw", []byte{})
	add("raw", []byte{0})
	add("raw", []byte{0, 0xd3})
	add("raw", []byte{0, 0xd1})
	add("at:1", []byte{0, 0xd3})
	add("at:2", []byte{0, 0xd3})
	add("raw", []byte{1, 0xd3, 0})
	add("raw", []byte{0, 0xd3, 0})
	add("raw", []byte{0, 0xd3, 0xfd, 0, 0})
	add("raw", []byte{0, 0xd3, 0xfd, 5, 0, 1})
	// a minimal invoke transaction and its var-uint widenings
	s := &g.OntSpec{Ty: 0xd1, SigCount: -1, WidenIdx: -1}
	for w := -1; w < 3; w++ {
		s.WidenIdx, s.WidenTo = w, 3
		out, _, _ := s.Encode()
		add("raw", out)
	}
	// deploy code size limits: wasm 512 KiB / +1, neovm 512 KiB + 1 (accepted: its limit is above MAX_TX_SIZE)
	for _, x := range []struct {
		vm byte
		n  int
	}{{3, 512 * 1024}, {3, 512*1024 + 1}, {1, 512*1024 + 1}} {
		d := &g.OntSpec{Ty: 0xd0, SigCount: -1, WidenIdx: -1, VM: x.vm, Code: bytes.Repeat([]byte{9}, x.n)}
		b, _, _ := d.Encode()
		add("raw", b)
	}
	// ALL single-byte mutations (five replacement values per position) of one invoke, one deploy and one EIP-155 transaction
	r := hx.NewRand(19)
	bases := [][]byte{}
	inv := &g.OntSpec{Ty: 0xd1, SigCount: -1, WidenIdx: -1, Nonce: 7, GasPrice: 2500, GasLimit: 20000, Code: []byte{1, 2, 3},
		Sigs: [][2][]byte{{{0x40, 0xaa}, {0x21, 0xbb, 0xac}}}}
	b0, _, _ := inv.Encode()
	bases = append(bases, b0)
	dep := &g.OntSpec{Ty: 0xd0, SigCount: -1, WidenIdx: -1, Code: []byte{0x51, 0x52}, VM: 1,
		Strs: [5][]byte{[]byte("n"), []byte("v"), []byte("a"), []byte("e"), []byte("d")}}
	b1, _, _ := dep.Encode()
	bases = append(bases, b1)
	etx, _ := g.RandEip(r, 0)
	otx, err := types.TransactionFromEIP155(etx)
	if err != nil {
		panic(err)
	}
	bases = append(bases, otx.Raw)
	for _, b := range bases {
		for p := range b {
			for _, v := range []byte{b[p] ^ 1, b[p] ^ 0x80, 0x00, 0xff, 0xfd} {
				if v == b[p] {
					continue
				}
				m := append([]byte{}, b...)
				m[p] = v
				c = append(c, "T raw "+g.ToBx(m)+" "+g.Oracle(m, []int{0}))
			}
		}
	}
	return c
}

func main() {
	hx.Main(hx.Prop{
		ID: "C19",
		Rule: "valid invoke/deploy (repo builders: MutableTransaction.IntoImmutable, NewDeployCode, Sig.GetRawSig) and EIP-155 (geth SignTx + TransactionFromEIP155) transactions, " +
			"and their mutations: single-byte set/inc/dec, truncation, trailing bytes, insert/delete, widened var-uints, wrong signature counts, extra/missing/dummy signatures, " +
			"attribute count, version/type, deploy limits, non-canonical RLP (long-form lengths, leading zeros, 0x81 single byte, extra/missing items, trailing), signature malleation, " +
			"hostile nonce/gasPrice; via TransactionFromRawBytes or Deserialization at an offset of a larger source. Non-trivial = accepted, or rejected after the version/type bytes",
		Gen:    gen,
		Exec:   exec,
		Corpus: corpus(),
		N:      map[string]int{"quick": 12000, "thorough": 250000},
	})
}
