// C21 harness: numeric encodings of /repo — NeoBytes <-> big.Int, I128, native contract var-uint, token balance storage item.
// Every line runs the real conversion; the predicate is evaluated on the implementation's own outputs (round trip through the
// real decoder, minimal length against an independent bit-length formula).
package main

import (
	"bytes"
	"fmt"
	"math/big"
	"strings"

	"github.com/laizy/bigint"
	"github.com/ontio/ontology/common"
	"github.com/ontio/ontology/core/states"
	"github.com/ontio/ontology/smartcontract/service/native/utils"
	"verif/harness/internal/hx"
)

var one = big.NewInt(1)

func imin(a, b int) int {
	if a < b {
		return a
	}
	return b
}

func pow2(k int) *big.Int { return new(big.Int).Lsh(one, uint(k)) }

func parseBig(s string) *big.Int {
	z, ok := new(big.Int).SetString(s, 10)
	if !ok {
		panic("bad integer on op line: " + s)
	}
	return z
}

// independent two's complement little-endian decoder (the predicate side does not use common.BigIntFromNeoBytes)
func tcDecode(bs []byte) *big.Int {
	z := new(big.Int)
	for i := len(bs) - 1; i >= 0; i-- {
		z.Lsh(z, 8)
		z.Or(z, big.NewInt(int64(bs[i])))
	}
	if len(bs) > 0 && bs[len(bs)-1]&0x80 != 0 {
		z.Sub(z, pow2(8*len(bs)))
	}
	return z
}

// minimal two's complement byte length: least k with -2^(8k-1) <= z < 2^(8k-1); 0 for z = 0
func minLen(z *big.Int) int {
	if z.Sign() == 0 {
		return 0
	}
	for k := 1; ; k++ {
		h := pow2(8*k - 1)
		if z.Cmp(h) < 0 && z.Cmp(new(big.Int).Neg(h)) >= 0 {
			return k
		}
	}
}

// integers at sign / byte-length boundaries, or random with a random bit length
func genInt(r *hx.Rand, maxBytes int) *big.Int {
	var z *big.Int
	switch r.Intn(5) {
	case 0, 1: // ±2^(8k-1) ∓ {0,1,2}
		k := 1 + r.Intn(maxBytes)
		z = pow2(8*k - 1)
		z.Add(z, big.NewInt(int64(r.Intn(5)-2)))
	case 2: // ±2^(8k) ∓ {0,1}
		k := r.Intn(maxBytes + 1)
		z = pow2(8 * k)
		z.Add(z, big.NewInt(int64(r.Intn(3)-1)))
	case 3:
		z = big.NewInt(int64(r.Intn(600) - 300))
	default:
		n := r.Intn(maxBytes + 1)
		z = new(big.Int).SetBytes(r.Bytes(n))
		if n > 0 && r.Bool() {
			z.Rsh(z, uint(r.Intn(8)))
		}
	}
	if r.Bool() {
		z.Neg(z)
	}
	return z
}

func genU64(r *hx.Rand) uint64 {
	switch r.Intn(4) {
	case 0:
		k := uint(r.Intn(64))
		return (uint64(1) << k) + uint64(r.Intn(3)) - 1
	case 1:
		return ^uint64(0) - uint64(r.Intn(3))
	case 2:
		return uint64(r.Intn(300))
	default:
		return r.U64() >> uint(r.Intn(64))
	}
}

func genNeoBytes(r *hx.Rand) []byte {
	switch r.Intn(5) {
	case 0: // random
		return r.Bytes(r.Intn(36))
	case 1: // minimal encoding
		return common.BigIntToNeoBytes(genInt(r, 33))
	case 2: // sign-extended (non-minimal) encoding
		z := genInt(r, 33)
		b := common.BigIntToNeoBytes(z)
		pad := byte(0)
		if z.Sign() < 0 {
			pad = 0xff
		}
		for i := 0; i < 1+r.Intn(3); i++ {
			b = append(b, pad)
		}
		return b
	case 3: // all 0x00 / 0xff / 0x80 patterns
		n := r.Intn(6)
		b := bytes.Repeat([]byte{[]byte{0, 0xff, 0x80, 0x7f}[r.Intn(4)]}, n)
		if n > 0 && r.Bool() {
			b[n-1] = []byte{0, 0xff, 0x80, 0x7f}[r.Intn(4)]
		}
		return b
	default:
		b := r.Bytes(1 + r.Intn(9))
		b[len(b)-1] = []byte{0, 0xff, 0x80, 0x7f, 1, 0xfe}[r.Intn(6)]
		return b
	}
}

var scale = big.NewInt(states.ScaleFactor)

func genBalance(r *hx.Rand) *big.Int {
	switch r.Intn(8) {
	case 0: // integer token amounts (version 0), incl. quotient at the uint64 boundary
		return new(big.Int).Mul(new(big.Int).SetUint64(genU64(r)), scale)
	case 1: // quotient at / beyond 2^64 (panic branch)
		q := pow2(64)
		q.Add(q, big.NewInt(int64(r.Intn(3)-1)))
		return q.Mul(q, scale)
	case 2: // fractional
		z := new(big.Int).Mul(new(big.Int).SetUint64(genU64(r)), scale)
		return z.Add(z, big.NewInt(int64(1+r.Intn(999999999))))
	case 3: // near a multiple
		z := new(big.Int).Mul(big.NewInt(int64(r.Intn(50))), scale)
		return z.Add(z, big.NewInt(int64(r.Intn(3)-1)))
	case 4: // negative
		z := genBalance(r)
		return z.Neg(z)
	case 5:
		return genInt(r, 20)
	default:
		return new(big.Int).SetUint64(genU64(r))
	}
}

func gen(r *hx.Rand, tier string, i int) string {
	switch r.Intn(12) {
	case 0, 1, 2:
		return "N2B " + genInt(r, 34).String()
	case 3, 4:
		return "B2N " + hx.Hex(genNeoBytes(r))
	case 5:
		switch r.Intn(3) {
		case 0: // the i128 boundary
			z := pow2(127)
			z.Add(z, big.NewInt(int64(r.Intn(5)-2)))
			if r.Bool() {
				z.Neg(z)
			}
			return "I128 " + z.String()
		default:
			return "I128 " + genInt(r, 17).String()
		}
	case 6:
		if r.Bool() {
			return "I128B " + hx.Hex(r.Bytes(16))
		}
		return "I64 " + big.NewInt(int64(genU64(r))).String()
	case 7:
		return "VU " + new(big.Int).SetUint64(genU64(r)).String()
	case 8: // decoder on valid / padded / negative / oversize / truncated / irregular input
		var payload []byte
		switch r.Intn(4) {
		case 0:
			payload = common.BigIntToNeoBytes(new(big.Int).SetUint64(genU64(r)))
		case 1:
			payload = genNeoBytes(r)
		case 2:
			payload = common.BigIntToNeoBytes(genInt(r, 10))
		default:
			z := pow2(64)
			payload = common.BigIntToNeoBytes(z.Add(z, big.NewInt(int64(r.Intn(3)-1))))
		}
		sink := common.NewZeroCopySink(nil)
		sink.WriteVarBytes(payload)
		b := sink.Bytes()
		switch r.Intn(6) {
		case 0:
			if len(b) > 0 {
				b = b[:r.Intn(len(b))]
			}
		case 1: // non-canonical length prefix
			b = append([]byte{0xfd, byte(len(payload)), 0}, payload...)
		case 2:
			b = append(b, r.Bytes(r.Intn(4))...)
		}
		return "VUD " + hx.Hex(b)
	case 9:
		return "BAL " + genBalance(r).String()
	case 10:
		ver := []int{0, 1, 1, 2, 255}[r.Intn(5)]
		var v []byte
		switch r.Intn(4) {
		case 0:
			v = r.Bytes(r.Intn(12))
		case 1:
			v = r.Bytes(8)
		case 2:
			v = common.BigIntToNeoBytes(genBalance(r))
		default:
			v = genNeoBytes(r)
		}
		return fmt.Sprintf("BALD %d %s", ver, hx.Hex(v))
	default:
		var raw []byte
		if r.Bool() {
			func() {
				defer func() { recover() }()
				raw = states.NativeTokenBalance{Balance: bigint.New(genBalance(r))}.MustToStorageItemBytes()
			}()
		} else {
			sink := common.NewZeroCopySink(nil)
			sink.WriteByte(byte(r.Intn(3)))
			if r.Chance(85) {
				sink.WriteVarBytes(r.Bytes(r.Intn(12)))
			} else {
				sink.WriteBytes(r.Bytes(r.Intn(12)))
			}
			raw = sink.Bytes()
		}
		if r.Chance(25) && len(raw) > 0 {
			raw = raw[:r.Intn(len(raw))]
		}
		return "BALB " + hx.Hex(raw)
	}
}

func errKind(err error) string {
	switch {
	case err == nil:
		return "ok"
	case strings.Contains(err.Error(), "negative"):
		return "negative"
	case err == common.ErrIrregularData || strings.Contains(err.Error(), "irregular"):
		return "irregular"
	case strings.Contains(err.Error(), "not uint64"):
		return "range"
	default:
		return "eof"
	}
}

func balFromItem(item *states.StorageItem) (string, *big.Int) {
	b, err := states.NativeTokenBalanceFromStorageItem(item)
	if err != nil {
		return errKind(err), nil
	}
	return "ok:" + b.ToBigInt().String(), b.ToBigInt()
}

func signKind(z *big.Int) string {
	switch z.Sign() {
	case -1:
		return "neg"
	case 0:
		return "zero"
	}
	return "pos"
}

func exec(line string) hx.Result {
	f := strings.Fields(line)
	if len(f) < 2 {
		return hx.Result{Out: "bad-op"}
	}
	res := hx.Result{Key: line}
	switch f[0] {
	case "N2B":
		z := parseBig(f[1])
		orig := new(big.Int).Set(z)
		bs := common.BigIntToNeoBytes(z)
		res.Out = hx.Hex(bs)
		res.Kind = "N2B:" + signKind(z)
		if ml := minLen(orig); len(bs) > 0 && (bs[len(bs)-1] == 0 || bs[len(bs)-1] == 0xff) {
			res.Kind += ":signbyte"
			_ = ml
		}
		if z.Cmp(orig) != 0 {
			res.Fail, res.Class = "BigIntToNeoBytes modified its argument", "neo-encode-mutates-input"
		} else if back := common.BigIntFromNeoBytes(bs); back.Cmp(orig) != 0 {
			res.Fail, res.Class = fmt.Sprintf("decode(encode(%s)) = %s", orig, back), "neo-roundtrip"
		} else if len(bs) != minLen(orig) {
			res.Fail, res.Class = fmt.Sprintf("encoding of %s has %d bytes, minimal is %d", orig, len(bs), minLen(orig)), "neo-not-minimal"
		}
	case "B2N":
		bs := hx.MustUnhex(f[1])
		in := append([]byte{}, bs...)
		z := common.BigIntFromNeoBytes(bs)
		res.Out = z.String()
		enc := common.BigIntToNeoBytes(new(big.Int).Set(z))
		res.Kind = "B2N:" + signKind(z)
		if len(enc) < len(in) {
			res.Kind += ":nonminimal"
		}
		pad := byte(0)
		if z.Sign() < 0 {
			pad = 0xff
		}
		okPad := len(enc) <= len(in) && bytes.Equal(in[:imin(len(enc), len(in))], enc)
		for i := len(enc); okPad && i < len(in); i++ {
			okPad = in[i] == pad
		}
		if want := tcDecode(in); want.Cmp(z) != 0 {
			res.Fail, res.Class = fmt.Sprintf("input %x denotes %s in two's complement, decoder returned %s", in, want, z), "neo-decode-wrong-value"
		} else if !bytes.Equal(bs, in) {
			res.Fail, res.Class = "BigIntFromNeoBytes modified its argument", "neo-decode-mutates-input"
		} else if !okPad {
			res.Fail, res.Class = fmt.Sprintf("input %x decodes to %s whose encoding %x is not a sign-extension prefix of the input", in, z, enc), "neo-decode-inconsistent"
		}
	case "I128":
		z := parseBig(f[1])
		orig := new(big.Int).Set(z)
		v, err := common.I128FromBigInt(z)
		inRange := orig.Cmp(new(big.Int).Neg(pow2(127))) >= 0 && orig.Cmp(pow2(127)) < 0
		if err != nil {
			res.Out, res.Kind = "range", "I128:reject"
			if inRange {
				res.Fail, res.Class = "in-range value rejected", "i128-range"
			}
		} else {
			res.Out, res.Kind = hx.Hex(v[:]), "I128:"+signKind(orig)
			if !inRange {
				res.Fail, res.Class = "out-of-range value accepted", "i128-range"
			} else if back := v.ToBigInt(); back.Cmp(orig) != 0 {
				res.Fail, res.Class = fmt.Sprintf("ToBigInt(FromBigInt(%s)) = %s", orig, back), "i128-roundtrip"
			}
		}
	case "I128B":
		b := hx.MustUnhex(f[1])
		var v common.I128
		copy(v[:], b)
		z := v.ToBigInt()
		res.Out, res.Kind = z.String(), "I128B:"+signKind(z)
		back, err := common.I128FromBigInt(new(big.Int).Set(z))
		if err != nil || back != v {
			res.Fail, res.Class = "FromBigInt(ToBigInt(b)) != b", "i128-roundtrip-bytes"
		}
	case "I64":
		z := parseBig(f[1])
		v := common.I128FromInt64(z.Int64())
		res.Out, res.Kind = hx.Hex(v[:]), "I64:"+signKind(z)
		if back := v.ToBigInt(); back.Cmp(z) != 0 {
			res.Fail, res.Class = "I128FromInt64 round trip", "i128-int64-roundtrip"
		}
	case "VU":
		n := parseBig(f[1]).Uint64()
		sink := common.NewZeroCopySink(nil)
		utils.EncodeVarUint(sink, n)
		res.Out, res.Kind = hx.Hex(sink.Bytes()), fmt.Sprintf("VU:len%d", len(sink.Bytes()))
		src := common.NewZeroCopySource(append(sink.Bytes(), 0xaa))
		back, err := utils.DecodeVarUint(src)
		if err != nil || back != n || src.Pos() != uint64(len(sink.Bytes())) {
			res.Fail, res.Class = fmt.Sprintf("DecodeVarUint(EncodeVarUint(%d)) = %d, %v, pos %d", n, back, err, src.Pos()), "varuint-roundtrip"
		}
	case "VUD":
		b := hx.MustUnhex(f[1])
		src := common.NewZeroCopySource(b)
		v, err := utils.DecodeVarUint(src)
		k := errKind(err)
		// independent reading of the same bytes: framing by the (C18-verified) source, payload by a two's complement decoder
		// written here; the decoder must accept exactly the canonical-framed payloads denoting a uint64, with that value
		payload, _, irr, eof := common.NewZeroCopySource(b).NextVarBytes()
		if !eof && !irr {
			want := tcDecode(payload)
			inRange := want.Sign() >= 0 && want.IsUint64()
			if inRange && (err != nil || v != want.Uint64()) {
				res.Fail, res.Class = fmt.Sprintf("payload denotes %s, DecodeVarUint returned %d, %v", want, v, err), "varuint-decode-wrong-value"
			} else if !inRange && err == nil {
				res.Fail, res.Class = fmt.Sprintf("payload denotes %s (not a uint64) but DecodeVarUint returned %d", want, v), "varuint-decode-out-of-range-accepted"
			}
		} else if err == nil {
			res.Fail, res.Class = "DecodeVarUint accepted a truncated or irregular encoding", "varuint-decode-malformed-accepted"
		}
		if err == nil {
			res.Out = fmt.Sprintf("ok:%d,off=%d", v, src.Pos())
			// what was accepted re-encodes to something that decodes to the same value
			sink := common.NewZeroCopySink(nil)
			utils.EncodeVarUint(sink, v)
			if v2, e2 := utils.DecodeVarUint(common.NewZeroCopySource(sink.Bytes())); res.Fail == "" && (e2 != nil || v2 != v) {
				res.Fail, res.Class = "accepted value does not round-trip", "varuint-roundtrip"
			}
			if uint64(len(sink.Bytes())) < src.Pos() {
				k = "ok-nonminimal"
			}
		} else {
			res.Out = fmt.Sprintf("%s,off=%d", k, src.Pos())
		}
		res.Kind = "VUD:" + k
	case "BAL":
		z := parseBig(f[1])
		var item *states.StorageItem
		var raw []byte
		panicked := false
		func() {
			defer func() {
				if recover() != nil {
					panicked = true
				}
			}()
			bal := states.NativeTokenBalance{Balance: bigint.New(new(big.Int).Set(z))}
			item = bal.MustToStorageItem()
			raw = bal.MustToStorageItemBytes()
		}()
		if panicked {
			res.Out, res.Kind = "panic", "BAL:panic"
			// the documented panic is for integer balances whose quotient is outside uint64
			q, m := new(big.Int).DivMod(z, scale, new(big.Int))
			if m.Sign() != 0 || q.IsUint64() {
				res.Fail, res.Class = "MustToStorageItem panics on a representable balance", "balance-encode-panic"
			}
			return res
		}
		res.Out = fmt.Sprintf("%d:%s|%s", item.StateVersion, hx.Hex(item.Value), hx.Hex(raw))
		res.Kind = fmt.Sprintf("BAL:v%d:%s", item.StateVersion, signKind(z))
		out, back := balFromItem(item)
		var item2 states.StorageItem
		err := item2.Deserialization(common.NewZeroCopySource(raw))
		if z.Sign() >= 0 {
			if back == nil || back.Cmp(z) != 0 {
				res.Fail, res.Class = fmt.Sprintf("FromStorageItem(ToStorageItem(%s)) = %s", z, out), "balance-roundtrip"
			} else if err != nil || item2.StateVersion != item.StateVersion || !bytes.Equal(item2.Value, item.Value) {
				res.Fail, res.Class = "storage item bytes do not deserialize to the item", "balance-item-bytes-roundtrip"
			}
		} else if back != nil {
			res.Fail, res.Class = "negative balance decoded without error: " + out, "balance-negative-accepted"
		}
	case "BALD":
		var ver int
		fmt.Sscanf(f[1], "%d", &ver)
		item := &states.StorageItem{StateBase: states.StateBase{StateVersion: byte(ver)}, Value: hx.MustUnhex(f[2])}
		out, back := balFromItem(item)
		res.Out, res.Kind = out, fmt.Sprintf("BALD:v%d:%s", imin(ver, 2), strings.SplitN(out, ":", 2)[0])
		if back != nil && back.Sign() < 0 {
			res.Fail, res.Class = "decoder produced a negative balance", "balance-negative-accepted"
		}
	case "BALB":
		raw := hx.MustUnhex(f[1])
		var item states.StorageItem
		if err := item.Deserialization(common.NewZeroCopySource(raw)); err != nil {
			res.Out, res.Kind = errKind(err), "BALB:item-"+errKind(err)
			return res
		}
		out, back := balFromItem(&item)
		res.Out, res.Kind = out, "BALB:"+strings.SplitN(out, ":", 2)[0]
		if back != nil {
			// a decodable item re-encodes to an item that decodes to the same balance
			var again string
			func() {
				defer func() {
					if recover() != nil {
						again = "panic"
					}
				}()
				again, _ = balFromItem(states.NativeTokenBalance{Balance: bigint.New(back)}.MustToStorageItem())
			}()
			if again != out {
				res.Fail, res.Class = "decoded balance does not round-trip: "+again, "balance-roundtrip"
			}
		}
	default:
		return hx.Result{Out: "bad-op"}
	}
	return res
}

func main() {
	hx.Main(hx.Prop{
		ID:   "C21",
		Rule: "integers at sign/byte-length boundaries (±2^(8k-1)∓{0,1,2}, ±2^(8k)∓{0,1}, k ≤ 34) + random bit lengths through BigIntToNeoBytes; minimal / sign-extended / random byte strings through BigIntFromNeoBytes; I128 at ±2^127; native var-uint encode and hostile decode; balance storage items (both versions, panic branch, negative, raw bytes). Non-trivial = distinct line; kinds = op:branch",
		Gen:  gen,
		Exec: exec,
		Corpus: []string{
			"N2B 0", "N2B 127", "N2B 128", "N2B -128", "N2B -129", "N2B 255", "N2B 256", "N2B -256", "N2B -255", "N2B -1", "N2B 32768", "N2B -32768", "N2B -32769",
			"N2B 57896044618658097711785492504343953926634992332820282019728792003956564819968", "N2B -57896044618658097711785492504343953926634992332820282019728792003956564819968",
			"B2N -", "B2N 00", "B2N ff", "B2N 80", "B2N 7f", "B2N 0000", "B2N ffff", "B2N 8000", "B2N 80ff", "B2N 7f00", "B2N ff00", "B2N 00ff", "B2N 0080",
			"I128 170141183460469231731687303715884105727", "I128 170141183460469231731687303715884105728", "I128 -170141183460469231731687303715884105728", "I128 -170141183460469231731687303715884105729", "I128 0", "I128 -1",
			"I128B ffffffffffffffffffffffffffffffff", "I128B 00000000000000000000000000000080", "I128B ffffffffffffffffffffffffffffff7f", "I64 -9223372036854775808", "I64 -1",
			"VU 0", "VU 127", "VU 128", "VU 18446744073709551615", "VU 9223372036854775808", "VUD 00", "VUD 0100", "VUD 01ff", "VUD 09ffffffffffffffff00", "VUD 0900000000000000000100", "VUD 0205", "VUD fd010005", "VUD 020500",
			"BAL 0", "BAL 1", "BAL 1000000000", "BAL 999999999", "BAL 18446744073709551615000000000", "BAL 18446744073709551616000000000", "BAL 18446744073709551616000000001", "BAL -1", "BAL -1000000000",
			"BALD 0 -", "BALD 0 00000000000000", "BALD 0 0100000000000000", "BALD 0 0100000000000000ff", "BALD 1 ff", "BALD 1 -", "BALD 2 05", "BALD 1 00ca9a3b", "BALB -", "BALB 00", "BALB 000801000000000000", "BALB 0101ff", "BALB 01fd010005",
		},
		N: map[string]int{"quick": 40000, "thorough": 1500000},
	})
}
