// C41 harness: the auth native contract driven through NativeService.NativeCall over a CacheDB on a memory store, with the
// ONT-ID contract's verifySignature replaced by a stub whose answer is chosen per call (keyNo mod 3: 1 = TRUE, 0 = FALSE, 2 = error;
// the sig field of an op is <class> or <class>k<mult>, keyNo = class + 3*mult, so key numbers range over all of uint64).
//
// Line:  A op;op;...      op = <time>,<kind>,args   (lists '.'-separated, "-" = empty)
//   t,init,c,id                      initContractAdmin called BY contract c
//   t,xfer,c,newadmin,sig            transfer
//   t,af,c,admin,role,fns,sig        assignFuncsToRole
//   t,ai,c,admin,role,ids,sig        assignOntIDsToRole
//   t,dg,c,from,to,role,period,level,sig   delegate
//   t,wd,c,initiator,delegate,role,sig     withdraw
//   t,vt,c,caller,fn,sig             verifyToken
// codes: contracts 1,2; ont ids 1..5 (valid), 9 (fails account.VerifyID); roles 1..3, 0 = empty byte string; functions 1..4, 0 = "".
// Output: per-op result T|F|E, then the whole auth storage (admin, role functions, tokens, delegation records), parsed from
// the raw storage items and sorted.
//
// Predicates (on the implementation's own storage, parsed before each call):
//  * verifyToken = TRUE  <=>  sig ok AND exists role: fn in funcs(role) AND (a permanent token of that role is stored for the caller
//    OR a delegation record of that role with now < expireTime — the notion of "holds" of the contract's own getAuthToken)
//  * an operation whose signature check did not succeed leaves the storage unchanged (initContractAdmin has no signature)
//  * after a successful withdraw the delegate has no delegation record of that role
//  * after a successful delegate the delegate has exactly one record of the role, naming this delegator, expiry and level
//  * a successful delegate was signed, issued by a direct holder of exactly that role to a non-holder, with level 1 and expiry < future
package main

import (
	"fmt"
	"sort"
	"strconv"
	"strings"

	"github.com/ontio/ontology/account"
	"github.com/ontio/ontology/common"
	"github.com/ontio/ontology/core/store/leveldbstore"
	"github.com/ontio/ontology/core/store/overlaydb"
	"github.com/ontio/ontology/core/types"
	"github.com/ontio/ontology/smartcontract"
	"github.com/ontio/ontology/smartcontract/context"
	"github.com/ontio/ontology/smartcontract/service/native"
	"github.com/ontio/ontology/smartcontract/service/native/auth"
	"github.com/ontio/ontology/smartcontract/service/native/utils"
	"github.com/ontio/ontology/smartcontract/storage"
	"verif/harness/internal/hx"
)

const FUTURE = 4102488000 // 2100-01-01T12:00:00Z; only used by the generator and the failure classifier

var (
	idStr    = map[int]string{}
	idCode   = map[string]int{}
	// role and function names are prefixes of one another / of different lengths (one role is 300 bytes: 3-byte var-length prefix)
	roleStr  = map[int]string{0: "", 1: "op", 2: "ope", 3: "op" + strings.Repeat("e", 298)}
	roleCode = map[string]int{}
	fnStr    = map[int]string{0: "", 1: "mint", 2: "mintTo", 3: "m", 4: "upgrade"}
	fnCode   = map[string]int{}
)

func contractAddr(c int) common.Address {
	var a common.Address
	for i := range a {
		a[i] = byte(0xc0 + c)
	}
	return a
}

func initAll() {
	for k, v := range roleStr {
		roleCode[v] = k
	}
	for k, v := range fnStr {
		fnCode[v] = k
	}
	for i := 1; i <= 5; i++ {
		s, err := account.CreateID([]byte{byte(i), 0x41})
		if err != nil {
			panic(err)
		}
		idStr[i] = s
		idCode[s] = i
	}
	idStr[9] = "did:ont:not-a-valid-id"
	idCode[idStr[9]] = 9
	auth.Init()
	// stub of the ONT-ID contract: verifySignature(ontID, keyNo) answers by keyNo
	native.Contracts[utils.OntIDContractAddress] = func(ns *native.NativeService) {
		ns.Register("verifySignature", func(ns *native.NativeService) ([]byte, error) {
			src := common.NewZeroCopySource(ns.Input)
			if _, err := utils.DecodeVarBytes(src); err != nil {
				return nil, err
			}
			keyNo, err := utils.DecodeVarUint(src)
			if err != nil {
				return nil, err
			}
			switch keyNo % 3 {
			case 1:
				return utils.BYTE_TRUE, nil
			case 0:
				return utils.BYTE_FALSE, nil
			}
			return nil, fmt.Errorf("ontid stub: verifySignature failed")
		})
	}
}

// ------------------------------------------------------------------ storage view (parsed from raw items)

type tok struct {
	role          int
	expire, level uint32
}
type dst struct {
	root int
	tok
}
type view struct {
	admin  map[int]int       // contract -> id code (-1 unknown bytes)
	funcs  map[[2]int][]int  // contract, role
	tokens map[[2]int][]tok  // contract, id ; present <=> item stored
	status map[[2]int][]dst  // contract, id
	bad    string            // non-empty: an item could not be parsed
}

func rawItem(db *storage.CacheDB, key []byte) []byte {
	it, err := utils.GetStorageItem(db, key)
	if err != nil || it == nil {
		return nil
	}
	if it.Value == nil {
		return []byte{}
	}
	return it.Value
}

func key(c int, prefix byte, suffix []byte) []byte {
	ca := contractAddr(c)
	k := append([]byte{}, utils.AuthContractAddress[:]...)
	k = append(k, ca[:]...)
	k = append(k, prefix)
	return append(k, suffix...)
}

func codeOf(m map[string]int, s string) int {
	if v, ok := m[s]; ok {
		return v
	}
	return -1
}

func parseTok(src *common.ZeroCopySource) (tok, bool) {
	role, err := utils.DecodeVarBytes(src)
	if err != nil {
		return tok{}, false
	}
	e, eof := src.NextUint32()
	if eof {
		return tok{}, false
	}
	l, eof := src.NextUint8()
	if eof {
		return tok{}, false
	}
	return tok{codeOf(roleCode, string(role)), e, uint32(l)}, true
}

func readView(db *storage.CacheDB) *view {
	v := &view{admin: map[int]int{}, funcs: map[[2]int][]int{}, tokens: map[[2]int][]tok{}, status: map[[2]int][]dst{}}
	for c := 1; c <= 2; c++ {
		if a := rawItem(db, key(c, 0x01, nil)); a != nil {
			v.admin[c] = codeOf(idCode, string(a))
		}
		for r := 0; r <= 3; r++ {
			raw := rawItem(db, key(c, 0x02, []byte(roleStr[r])))
			if raw == nil {
				continue
			}
			src := common.NewZeroCopySource(raw)
			n, eof := src.NextUint32()
			if eof {
				v.bad = "roleFuncs"
				continue
			}
			fs := []int{}
			for i := uint32(0); i < n; i++ {
				s, err := utils.DecodeString(src)
				if err != nil {
					v.bad = "roleFuncs"
					break
				}
				fs = append(fs, codeOf(fnCode, s))
			}
			sort.Ints(fs)
			v.funcs[[2]int{c, r}] = fs
		}
		for _, id := range []int{1, 2, 3, 4, 5, 9} {
			if raw := rawItem(db, key(c, 0x03, []byte(idStr[id]))); raw != nil {
				src := common.NewZeroCopySource(raw)
				n, eof := src.NextUint32()
				if eof {
					v.bad = "roleTokens"
				}
				ts := []tok{}
				for i := uint32(0); i < n && v.bad == ""; i++ {
					t, ok := parseTok(src)
					if !ok {
						v.bad = "roleTokens"
						break
					}
					ts = append(ts, t)
				}
				v.tokens[[2]int{c, id}] = ts
			}
			if raw := rawItem(db, key(c, 0x04, []byte(idStr[id]))); raw != nil {
				src := common.NewZeroCopySource(raw)
				n, eof := src.NextUint32()
				if eof {
					v.bad = "Status"
				}
				ss := []dst{}
				for i := uint32(0); i < n && v.bad == ""; i++ {
					root, err := utils.DecodeVarBytes(src)
					if err != nil {
						v.bad = "Status"
						break
					}
					t, ok := parseTok(src)
					if !ok {
						v.bad = "Status"
						break
					}
					ss = append(ss, dst{codeOf(idCode, string(root)), t})
				}
				v.status[[2]int{c, id}] = ss
			}
		}
	}
	return v
}

func joinI(xs []int) string {
	if len(xs) == 0 {
		return "-"
	}
	var s []string
	for _, x := range xs {
		s = append(s, strconv.Itoa(x))
	}
	return strings.Join(s, ".")
}

func (v *view) String() string {
	if v.bad != "" {
		return "UNPARSABLE:" + v.bad
	}
	var parts []string
	for c := 1; c <= 2; c++ {
		if a, ok := v.admin[c]; ok {
			parts = append(parts, fmt.Sprintf("c%d.admin=%d", c, a))
		}
		for r := 0; r <= 3; r++ {
			if fs, ok := v.funcs[[2]int{c, r}]; ok && len(fs) > 0 {
				parts = append(parts, fmt.Sprintf("c%d.r%d=%s", c, r, joinI(fs)))
			}
		}
		for _, id := range []int{1, 2, 3, 4, 5, 9} {
			if ts, ok := v.tokens[[2]int{c, id}]; ok {
				var s []string
				for _, t := range ts { // stored order is part of the behaviour (first match wins)
					s = append(s, fmt.Sprintf("%d/%d/%d", t.role, t.expire, t.level))
				}
				parts = append(parts, fmt.Sprintf("c%d.tok%d=%s", c, id, strings.Join(s, "+")))
			}
			if ss, ok := v.status[[2]int{c, id}]; ok && len(ss) > 0 {
				var s []string
				for _, d := range ss {
					s = append(s, fmt.Sprintf("%d>%d/%d/%d", d.root, d.role, d.expire, d.level))
				}
				parts = append(parts, fmt.Sprintf("c%d.dlg%d=%s", c, id, strings.Join(s, "+")))
			}
		}
	}
	if len(parts) == 0 {
		return "empty"
	}
	return strings.Join(parts, " ")
}

// the specification of "may call", evaluated on the stored items
func (v *view) mayCall(c, caller, fn int, now uint32) (held bool, shape string) {
	has := func(r, f int) bool {
		if f == 0 {
			return false
		}
		for _, x := range v.funcs[[2]int{c, r}] {
			if x == f {
				return true
			}
		}
		return false
	}
	for _, t := range v.tokens[[2]int{c, caller}] {
		if has(t.role, fn) {
			return true, "direct"
		}
	}
	for _, d := range v.status[[2]int{c, caller}] {
		if has(d.role, fn) && now < d.expire {
			return true, "delegated"
		}
	}
	// not held: classify why an acceptance would be wrong
	shape = "no-role-with-that-function"
	for _, d := range v.status[[2]int{c, caller}] {
		if has(d.role, fn) {
			if now == d.expire {
				return false, "delegation-at-expiry-second"
			}
			shape = "delegation-expired"
		}
	}
	return false, shape
}

// ------------------------------------------------------------------ execution

type world struct{ ov *overlaydb.OverlayDB }

func (w *world) call(callerContract int, now uint32, method string, args []byte) (string, *storage.CacheDB) {
	db := storage.NewCacheDB(w.ov)
	sc := &smartcontract.SmartContract{
		Config:  &smartcontract.Config{Tx: &types.Transaction{}, Time: now},
		CacheDB: db,
	}
	sc.PushContext(&context.Context{ContractAddress: contractAddr(callerContract)})
	ns := &native.NativeService{CacheDB: db, ContextRef: sc, ServiceMap: make(map[string]native.Handler), Tx: sc.Config.Tx, Time: now}
	ret, err := ns.NativeCall(utils.AuthContractAddress, method, args)
	switch {
	case err != nil:
		return "E", db
	case string(ret) == string(utils.BYTE_TRUE):
		return "T", db
	case string(ret) == string(utils.BYTE_FALSE):
		return "F", db
	}
	return "?", db
}

// sig field: <class> or <class>k<mult>; the key number sent is class + 3*mult, the stub answers by keyNo % 3
func sigClass(s string) string {
	if k := strings.IndexByte(s, 'k'); k >= 0 {
		return s[:k]
	}
	return s
}

func keyNo(s string) uint64 {
	cls, mult := s, "0"
	if k := strings.IndexByte(s, 'k'); k >= 0 {
		cls, mult = s[:k], s[k+1:]
	}
	c, err1 := strconv.ParseUint(cls, 10, 64)
	m, err2 := strconv.ParseUint(mult, 10, 64)
	if err1 != nil || err2 != nil || c > 2 || m > (1<<64-3)/3 {
		panic("bad sig field " + s)
	}
	return c + 3*m
}

func atoi(s string) int {
	n, err := strconv.Atoi(s)
	if err != nil {
		panic("bad int " + s)
	}
	return n
}

func ints(s string) []int {
	if s == "-" || s == "" {
		return nil
	}
	var out []int
	for _, p := range strings.Split(s, ".") {
		out = append(out, atoi(p))
	}
	return out
}

func idB(i int) []byte {
	s, ok := idStr[i]
	if !ok {
		panic("bad id code")
	}
	return []byte(s)
}

func exec(line string) hx.Result {
	f := strings.Fields(line)
	if len(f) != 2 || f[0] != "A" {
		return hx.Result{Out: "bad-op"}
	}
	w := &world{ov: overlaydb.NewOverlayDB(leveldbstore.NewMemLevelDBStore())}
	res := hx.Result{}
	var outs, trace []string
	interesting := false
	kinds := map[string]bool{}
	fail := func(class, msg string) {
		if res.Fail == "" {
			res.Fail, res.Class = msg, class
		}
	}
	for _, op := range strings.Split(f[1], ";") {
		p := strings.Split(op, ",")
		if len(p) < 3 {
			return hx.Result{Out: "bad-op"}
		}
		now64, err := strconv.ParseUint(p[0], 10, 32)
		if err != nil {
			return hx.Result{Out: "bad-op"}
		}
		now := uint32(now64)
		before := readView(storage.NewCacheDB(w.ov))
		sink := common.NewZeroCopySink(nil)
		var method string
		sigIdx := -1
		c := atoi(p[2])
		caller := 7 // some other contract
		switch p[1] {
		case "init":
			method = "initContractAdmin"
			caller = c
			(&auth.InitContractAdminParam{AdminOntID: idB(atoi(p[3]))}).Serialization(sink)
		case "xfer":
			method, sigIdx = "transfer", 4
			(&auth.TransferParam{ContractAddr: contractAddr(c), NewAdminOntID: idB(atoi(p[3])), KeyNo: keyNo(p[4])}).Serialization(sink)
		case "af":
			method, sigIdx = "assignFuncsToRole", 6
			var fns []string
			for _, x := range ints(p[5]) {
				fns = append(fns, fnStr[x])
			}
			(&auth.FuncsToRoleParam{ContractAddr: contractAddr(c), AdminOntID: idB(atoi(p[3])), Role: []byte(roleStr[atoi(p[4])]),
				FuncNames: fns, KeyNo: keyNo(p[6])}).Serialization(sink)
		case "ai":
			method, sigIdx = "assignOntIDsToRole", 6
			var ps [][]byte
			for _, x := range ints(p[5]) {
				ps = append(ps, idB(x))
			}
			(&auth.OntIDsToRoleParam{ContractAddr: contractAddr(c), AdminOntID: idB(atoi(p[3])), Role: []byte(roleStr[atoi(p[4])]),
				Persons: ps, KeyNo: keyNo(p[6])}).Serialization(sink)
		case "dg":
			method, sigIdx = "delegate", 8
			per, _ := strconv.ParseUint(p[6], 10, 64)
			lvl, _ := strconv.ParseUint(p[7], 10, 64)
			(&auth.DelegateParam{ContractAddr: contractAddr(c), From: idB(atoi(p[3])), To: idB(atoi(p[4])), Role: []byte(roleStr[atoi(p[5])]),
				Period: per, Level: lvl, KeyNo: keyNo(p[8])}).Serialization(sink)
		case "wd":
			method, sigIdx = "withdraw", 6
			(&auth.WithdrawParam{ContractAddr: contractAddr(c), Initiator: idB(atoi(p[3])), Delegate: idB(atoi(p[4])), Role: []byte(roleStr[atoi(p[5])]),
				KeyNo: keyNo(p[6])}).Serialization(sink)
		case "vt":
			method, sigIdx = "verifyToken", 5
			(&auth.VerifyTokenParam{ContractAddr: contractAddr(c), Caller: idB(atoi(p[3])), Fn: fnStr[atoi(p[4])], KeyNo: keyNo(p[5])}).Serialization(sink)
		default:
			return hx.Result{Out: "bad-op"}
		}
		r, db := w.call(caller, now, method, sink.Bytes())
		if r == "T" || r == "F" {
			db.Commit() // an erroring transaction is reverted
		}
		outs = append(outs, r)
		kinds[p[1]+":"+r] = true
		trace = append(trace, p[1]+r)
		sigOK := sigIdx >= 0 && sigClass(p[sigIdx]) == "1"
		after := readView(storage.NewCacheDB(w.ov))
		if after.bad != "" {
			fail("storage-item-unparsable:"+after.bad, "a stored auth item no longer parses after "+op)
		}
		if sigIdx >= 0 && !sigOK && before.String() != after.String() {
			fail("state-changed-without-signature:"+p[1], fmt.Sprintf("%s changed the storage although the signature check did not succeed: %s -> %s", op, before, after))
		}
		if p[1] == "vt" && r != "E" {
			held, shape := before.mayCall(c, atoi(p[3]), atoi(p[4]), now)
			want := sigOK && held
			got := r == "T"
			if got && !want {
				if !sigOK {
					shape = "signature-not-verified"
				}
				fail("verifytoken-accepts-without-held-role:"+shape, fmt.Sprintf("%s returned TRUE; storage %s", op, before))
			} else if !got && want {
				if shape == "direct" && now > FUTURE {
					shape = "permanent-token-after-2100"
				}
				fail("verifytoken-rejects-held-role:"+shape, fmt.Sprintf("%s returned FALSE; storage %s", op, before))
			}
			if sigOK {
				if got {
					interesting = true
					trace = append(trace, shape)
				}
				kinds["vt-held:"+strconv.FormatBool(held)] = true
			}
		}
		if p[1] == "dg" && r == "T" { // a delegation is issued only by a direct holder of exactly that role, to a non-holder, level 1, expiry < future
			from, to, ro := atoi(p[3]), atoi(p[4]), atoi(p[5])
			direct := false
			for _, t := range before.tokens[[2]int{c, from}] {
				direct = direct || t.role == ro
			}
			toHeld := false
			for _, t := range before.tokens[[2]int{c, to}] {
				toHeld = toHeld || t.role == ro
			}
			for _, d := range before.status[[2]int{c, to}] {
				toHeld = toHeld || (d.role == ro && now < d.expire)
			}
			per, _ := strconv.ParseUint(p[6], 10, 64)
			switch {
			case !sigOK:
				fail("delegate-accepted-outside-guard:signature-not-verified", op+" returned TRUE; storage "+before.String())
			case !direct:
				fail("delegate-accepted-outside-guard:from-is-not-a-direct-holder-of-the-role", op+" returned TRUE; storage "+before.String())
			case toHeld:
				fail("delegate-accepted-outside-guard:to-already-holds-the-role", op+" returned TRUE; storage "+before.String())
			case p[7] != "1":
				fail("delegate-accepted-outside-guard:level", op+" returned TRUE")
			case uint64(now)+per >= FUTURE:
				fail("delegate-accepted-outside-guard:expiry-not-before-future", op+" returned TRUE")
			}
			// the record now stored for `to` names this delegator, this expiry and this level — exactly one record of the role
			n, okRec := 0, false
			for _, d := range after.status[[2]int{c, to}] {
				if d.role == ro {
					n++
					okRec = d.root == from && uint64(d.expire) == uint64(now)+per && strconv.Itoa(int(d.level)) == p[7]
				}
			}
			if n != 1 || !okRec {
				fail("delegate-record-mismatch", fmt.Sprintf("%s returned TRUE but the delegate's record of the role is not (root=%d, expire=%d, level=%s): %s", op, from, uint64(now)+per, p[7], after))
			}
		}
		if p[1] == "wd" && r == "T" { // a successful withdraw revokes: no record of that role is left for the delegate
			for _, d := range after.status[[2]int{c, atoi(p[4])}] {
				if d.role == atoi(p[5]) {
					fail("withdraw-left-delegation-in-place", fmt.Sprintf("%s returned TRUE but the delegate still has a record of that role: %s", op, after))
				}
			}
		}
		if before.String() != after.String() && (p[1] == "dg" || p[1] == "wd") {
			interesting = true
		}
	}
	final := readView(storage.NewCacheDB(w.ov))
	res.Out = strings.Join(outs, ",") + " | " + final.String()
	if interesting {
		res.Key = strings.Join(trace, " ")
	}
	switch {
	case res.Fail != "":
		res.Kind = "spec-mismatch"
	case kinds["vt:T"] && kinds["dg:T"] && kinds["wd:T"]:
		res.Kind = "delegate+withdraw+verify-true"
	case kinds["vt:T"] && kinds["dg:T"]:
		res.Kind = "delegate+verify-true"
	case kinds["vt:T"]:
		res.Kind = "verify-true"
	case kinds["dg:T"]:
		res.Kind = "delegate-only"
	case kinds["vt:F"]:
		res.Kind = "verify-false-only"
	default:
		res.Kind = "no-verify"
	}
	return res
}

// ------------------------------------------------------------------ generator

type gdel struct {
	c, from, to, role int
	expire           uint32
}

func gen(r *hx.Rand, tier string, i int) string {
	var ops []string
	now := uint32(1600000000 + r.Intn(1000))
	if r.Chance(5) {
		now = FUTURE - 20 - uint32(r.Intn(50))
	}
	if r.Chance(2) {
		now = 4294967295 - uint32(r.Intn(40))
	}
	if r.Chance(4) {
		now = uint32(r.U64()) // any uint32 block time
	}
	// what the generator believes about the state; it only steers the choice of arguments
	admin := map[int]int{}
	direct := map[[2]int][]int{} // contract, role -> ids
	funcs := map[[2]int][]int{}
	var dels []gdel
	sig := func() string {
		cls := "1"
		switch x := r.Intn(25); {
		case x == 0:
			cls = "0"
		case x == 1:
			cls = "2"
		}
		if r.Chance(60) { // key numbers are opaque to the auth contract: any uint64
			m := []uint64{1, 2, 84, 85, 86, 21845, 1431655765, 1431655766, 3074457345618258602, 6148914691236517204}[r.Intn(10)]
			if r.Chance(30) {
				m = r.U64() % 6148914691236517204
			}
			return fmt.Sprintf("%sk%d", cls, m)
		}
		return cls
	}
	id := func() int {
		if r.Chance(3) {
			return 9
		}
		return 1 + r.Intn(5)
	}
	mainRole := 1 + r.Intn(2)
	if r.Chance(12) {
		mainRole = 3
	}
	role := func() int {
		if r.Chance(55) { // most operations of one history concern the same role, so that they interact
			return mainRole
		}
		if r.Chance(3) {
			return 0
		}
		if r.Chance(12) {
			return 3
		}
		return 1 + r.Intn(2)
	}
	fnList := func() []int {
		n := 1 + r.Intn(3)
		var xs []int
		for j := 0; j < n; j++ {
			xs = append(xs, r.Intn(5))
		}
		return xs
	}
	add := func(kind string, args ...interface{}) {
		s := fmt.Sprintf("%d,%s", now, kind)
		for _, a := range args {
			s += fmt.Sprintf(",%v", a)
		}
		ops = append(ops, s)
	}
	adm := func(c int) int { // the admin as the generator believes it, sometimes a wrong one
		a := admin[c]
		if a == 0 {
			a = 5
		}
		if r.Chance(4) {
			a = 1 + a%4
		}
		return a
	}
	tick := func() {
		switch x := r.Intn(10); {
		case x < 5 && len(dels) > 0: // land around an expiry
			m := dels[r.Intn(len(dels))].expire
			now = m - 1 + uint32(r.Intn(3))
		case x < 8:
			now += uint32(r.Intn(30))
		case x == 8 && r.Chance(25):
			now = FUTURE - 1 + uint32(r.Intn(3))
		}
	}
	pick := func(xs []int, fallback int) int {
		if len(xs) == 0 || r.Chance(10) {
			return fallback
		}
		return xs[r.Intn(len(xs))]
	}
	nc := 1
	if r.Chance(20) {
		nc = 2
	}
	doAf := func(c int) {
		ro, fs, sg, a := role(), fnList(), sig(), adm(c)
		add("af", c, a, ro, joinI(fs), sg)
		if sg == "1" && a == admin[c] && ro != 0 {
			funcs[[2]int{c, ro}] = append(funcs[[2]int{c, ro}], fs...)
		}
	}
	doAi := func(c int) {
		ro, sg, a := role(), sig(), adm(c)
		n := 1 + r.Intn(2)
		var xs []int
		for k := 0; k < n; k++ {
			xs = append(xs, id())
		}
		add("ai", c, a, ro, joinI(xs), sg)
		ok := sg == "1" && a == admin[c] && ro != 0
		for _, x := range xs {
			ok = ok && x != 9
		}
		if ok {
			direct[[2]int{c, ro}] = append(direct[[2]int{c, ro}], xs...)
		}
	}
	for c := 1; c <= nc; c++ {
		if r.Chance(96) {
			a := 1 + r.Intn(3)
			add("init", c, a)
			admin[c] = a
		}
		for j := 0; j < 2+r.Intn(3); j++ {
			doAf(c)
		}
		for j := 0; j < 1+r.Intn(2); j++ {
			doAi(c)
		}
	}
	n := 3 + r.Intn(9)
	for j := 0; j < n; j++ {
		c := 1 + r.Intn(nc)
		tick()
		switch x := r.Intn(20); {
		case x < 5: // delegate, mostly from a holder to somebody else
			ro := role()
			from := pick(direct[[2]int{c, ro}], id())
			to := id()
			per := uint32(r.Intn(6))
			switch r.Intn(12) {
			case 0:
				per = uint32(FUTURE) - now - 1 + uint32(r.Intn(3)) // expiry around `future`
			case 1:
				per = 4294967295 - now + uint32(r.Intn(2)) // uint32 overflow boundary
			case 2:
				per = uint32(r.Intn(1000))
			}
			lvl := uint64(1)
			if r.Chance(12) {
				lvl = []uint64{0, 2, 3, 4, 64, 126, 127, 128, 129, 255, 256, 257, 65537, 1 << 32, 1<<32 + 1, 1<<64 - 1}[r.Intn(16)]
			}
			if r.Chance(3) {
				lvl = r.U64() % 300
			}
			var perS interface{} = per
			if r.Chance(3) { // beyond uint32: refused by the parameter decoder
				perS = []uint64{1 << 32, 1<<32 + 5, 1 << 63, 1<<64 - 1}[r.Intn(4)]
			}
			sg := sig()
			add("dg", c, from, to, ro, perS, lvl, sg)
			if uint64(now)+uint64(per) < FUTURE && lvl == 1 && sigClass(sg) == "1" && perS == interface{}(per) { // plausibly accepted
				dels = append(dels, gdel{c, from, to, ro, now + per})
			}
		case x < 8: // withdraw, mostly an existing delegation
			if len(dels) > 0 && r.Chance(80) {
				d := dels[r.Intn(len(dels))]
				ini := d.from
				if r.Chance(10) {
					ini = id()
				}
				add("wd", d.c, ini, d.to, d.role, sig())
			} else {
				add("wd", c, id(), id(), role(), sig())
			}
		case x < 16: // verifyToken, mostly a delegate or holder with a function of its role
			var caller, ro int
			if len(dels) > 0 && r.Chance(60) {
				d := dels[r.Intn(len(dels))]
				c, caller, ro = d.c, d.to, d.role
			} else {
				ro = role()
				for try := 0; try < 4 && (len(direct[[2]int{c, ro}]) == 0 || len(funcs[[2]int{c, ro}]) == 0); try++ {
					ro = 1 + r.Intn(3) // prefer a role that has both holders and functions
				}
				caller = pick(direct[[2]int{c, ro}], id())
			}
			add("vt", c, caller, pick(funcs[[2]int{c, ro}], r.Intn(5)), sig())
		case x == 16:
			na, sg := id(), sig()
			add("xfer", c, na, sg)
			if sg == "1" && na != 9 && admin[c] != 0 {
				admin[c] = na
			}
		case x == 17:
			doAf(c)
		case x == 18:
			doAi(c)
		default:
			add("init", c, id())
		}
	}
	return "A " + strings.Join(ops, ";")
}

var corpus = []string{
	// direct holder may call exactly the assigned functions; others may not; bad signature refused
	"A 100,init,1,1;100,af,1,1,1,1.2,1;100,ai,1,1,1,2,1;101,vt,1,2,1,1;101,vt,1,2,3,1;101,vt,1,3,1,1;101,vt,1,2,1,0;101,vt,1,2,1,2",
	// delegation 2 -> 3 for 10 s: live before, AT (finding) and after the expiry second; withdraw
	"A 100,init,1,1;100,af,1,1,1,1,1;100,ai,1,1,1,2,1;200,dg,1,2,3,1,10,1,1;205,vt,1,3,1,1;209,vt,1,3,1,1;210,vt,1,3,1,1;211,vt,1,3,1,1",
	"A 100,init,1,1;100,af,1,1,1,1,1;100,ai,1,1,1,2,1;200,dg,1,2,3,1,10,1,1;205,wd,1,2,3,1,1;206,vt,1,3,1,1",
	// at the expiry second the delegate can be re-delegated (getAuthToken says expired) while verifyToken still accepts the old record
	"A 100,init,1,1;100,af,1,1,1,1,1;100,ai,1,1,1,2.4,1;200,dg,1,2,3,1,10,1,1;210,dg,1,4,3,1,5,1,1;210,vt,1,3,1,1;212,wd,1,2,3,1,1;212,wd,1,4,3,1,1",
	// permanent token at and after `future` (2100-01-01T12:00:00Z): accepted at 4102488000, refused at 4102488001 (finding)
	"A 4102487990,init,1,1;4102487990,af,1,1,1,1,1;4102487990,ai,1,1,1,2,1;4102488000,vt,1,2,1,1;4102488001,vt,1,2,1,1",
	// delegation levels and expiry bounds: level 0/2 refused, expiry must be < future, uint32 overflow is an error
	"A 100,init,1,1;100,af,1,1,1,1,1;100,ai,1,1,1,2,1;200,dg,1,2,3,1,10,0,1;200,dg,1,2,3,1,10,2,1;200,dg,1,2,3,1,4102487800,1,1;200,dg,1,2,3,1,4102487799,1,1;200,dg,1,2,4,1,4294967295,1,1;200,dg,1,2,4,1,4294967096,1,1",
	// a delegate (level 1) cannot delegate further; assign skips an id that holds the role through a live delegation
	"A 100,init,1,1;100,af,1,1,1,1,1;100,ai,1,1,1,2,1;100,ai,1,1,2,3,1;200,dg,1,2,3,1,50,1,1;201,dg,1,3,4,1,10,1,1;202,ai,1,1,1,3,1;260,vt,1,3,1,1;261,ai,1,1,1,3,1;262,vt,1,3,1,1",
	// an id without a token item gets the permanent token even while it holds the role by delegation
	"A 100,init,1,1;100,af,1,1,1,1,1;100,ai,1,1,1,2,1;200,dg,1,2,3,1,50,1,1;201,ai,1,1,1,3,1;300,vt,1,3,1,1",
	// admin transfer; old admin can no longer assign; wrong admin / no admin
	"A 100,init,1,1;100,init,1,2;101,xfer,1,2,1;102,af,1,1,1,1,1;102,af,1,2,1,1,1;103,af,2,1,1,1,1;103,xfer,2,1,1;104,xfer,1,9,1;104,init,2,9",
	// empty role, empty function name, invalid ids
	"A 100,init,1,1;100,af,1,1,0,1,1;100,af,1,1,1,0.1,1;100,ai,1,1,1,9,1;100,ai,1,1,0,2,1;100,ai,1,1,1,2,1;101,vt,1,2,0,1;101,dg,1,2,9,1,5,1,1;101,dg,1,2,3,0,5,1,1",
}

func main() {
	hx.Main(hx.Prop{
		ID: "C41",
		Rule: "histories over the auth native contract (NativeService + CacheDB, ONT-ID signature check stubbed per call): admin init/transfer, " +
			"function and id assignment by right/wrong admins, delegations with periods landing around `future` and the uint32 limit, levels 0..128, " +
			"withdrawals, verifyToken probes at block times expiry-1/expiry/expiry+1 of earlier delegations and around 2100-01-01; " +
			"non-trivial = a signed verifyToken returned TRUE or a delegate/withdraw changed the storage (distinct = distinct traces of operation kinds, results and accepted-token shapes)",
		Gen:    gen,
		Exec:   exec,
		Corpus: corpus,
		N:      map[string]int{"quick": 800, "thorough": 60000},
		Init:   initAll,
	})
}
