// C40 harness: chains of real blocks with varying transaction counts on a solo ledger, restarts in the middle, and every
// committed height queried by every route (GetBlockHash, GetBlockByHeight, GetBlockByHash, GetHeaderByHash, GetTransaction).
//
// Line:  Q <op>;<op>;…   b<n> block with n transfers | x<k> k empty blocks | d block repeating the last committed tx | r restart
//
//	| s<n> header sync: AddHeader of the next block's header (n transfers), all queries checked while the header is
//	  ahead of the blocks, then the block itself is committed
//
// Output (compared with the Lean model, which also predicts the header-index window): see Driver/C40.lean.
// Predicate: every route returns exactly the committed block / header / transaction (byte comparison) with the right height,
// for every height, before and after each restart, whether or not the height is still inside the header index cache.
package main

import (
	"bytes"
	"fmt"
	"os"
	"path/filepath"
	"strconv"
	"strings"

	"github.com/ontio/ontology/account"
	"github.com/ontio/ontology/common"
	"github.com/ontio/ontology/common/config"
	"github.com/ontio/ontology/core/store/ledgerstore"
	"github.com/ontio/ontology/core/types"
	"verif/harness/internal/hx"
	"verif/harness/internal/ledgerkit"
)

var (
	base   string
	book   *account.Account
	rcpt   *account.Account
	nonce  uint32
	lineNo int
)

func setup() {
	if base != "" {
		return
	}
	base = ledgerkit.TmpDir("c40")
	ledgerkit.InitGlobals()
	config.DefConfig.Common.EnableEventLog = true
	book, rcpt = ledgerkit.NewAccount(), ledgerkit.NewAccount()
}

func must(err error) {
	if err != nil {
		panic(err)
	}
}

type rec struct {
	hash   common.Uint256
	raw    []byte
	hdrRaw []byte
	txs    []*types.Transaction
}

type state struct {
	k       *ledgerkit.Kit
	blocks  []rec
	lastTx  *types.Transaction
	repeats map[common.Uint256]uint32 // tx hash -> height of the last block that contains it (only for repeated ones)
	genesis int
}

func (s *state) commit(txs []*types.Transaction) {
	blk, err := s.k.NextBlock(txs, 0)
	must(err)
	must(ledgerkit.SignWith(blk, book))
	must(s.k.Add(blk))
	s.blocks = append(s.blocks, rec{blk.Hash(), blk.ToArray(), blk.Header.ToArray(), txs})
	if len(txs) > 0 {
		s.lastTx = txs[len(txs)-1]
	}
}

// check queries every committed height by every route; returns (#heights ok, #tx ok, #tx total, first failure class, detail)
func (s *state) check(phase string) (okH, okT, nT int, class, detail string) {
	ld := s.k.Ledger
	first, _, _ := s.k.Store.VerifHeaderIndexWindow()
	fail := func(route string, h int, what string) {
		if class == "" {
			where := "cached"
			if uint32(h) < first {
				where = "evicted"
			}
			class = "query-disagree:" + route + ":" + where + ":" + phase
			detail = fmt.Sprintf("height %d: %s", h, what)
		}
	}
	for h, r := range s.blocks {
		good := true
		if got := ld.GetBlockHash(uint32(h)); got != r.hash {
			fail("GetBlockHash", h, "hash "+got.ToHexString()[:8]+" want "+r.hash.ToHexString()[:8])
			good = false
		}
		if b, err := ld.GetBlockByHeight(uint32(h)); err != nil || b == nil || !bytes.Equal(b.ToArray(), r.raw) {
			fail("GetBlockByHeight", h, fmt.Sprint("err=", err))
			good = false
		}
		if b, err := ld.GetBlockByHash(r.hash); err != nil || b == nil || !bytes.Equal(b.ToArray(), r.raw) {
			fail("GetBlockByHash", h, fmt.Sprint("err=", err))
			good = false
		}
		if hd, err := ld.GetHeaderByHash(r.hash); err != nil || hd == nil || !bytes.Equal(hd.ToArray(), r.hdrRaw) {
			fail("GetHeaderByHash", h, fmt.Sprint("err=", err))
			good = false
		}
		if hd, err := ld.GetHeaderByHeight(uint32(h)); err != nil || hd == nil || !bytes.Equal(hd.ToArray(), r.hdrRaw) {
			fail("GetHeaderByHeight", h, fmt.Sprint("err=", err))
			good = false
		}
		if good {
			okH++
		}
		if h == 0 {
			continue // genesis transactions are not part of the model's count
		}
		for _, tx := range r.txs {
			nT++
			want := uint32(h)
			rep, isRep := s.repeats[tx.Hash()]
			got, gh, err := ld.GetTransaction(tx.Hash())
			if err != nil || got == nil || !bytes.Equal(common.SerializeToBytes(got), common.SerializeToBytes(tx)) {
				fail("GetTransaction", h, fmt.Sprint("tx not returned, err=", err))
				continue
			}
			if gh == want {
				okT++
			} else if !(isRep && gh == rep) {
				fail("GetTransaction-height", h, fmt.Sprintf("recorded height %d", gh))
			}
		}
	}
	return
}

func (s *state) report(phase string, res *hx.Result) string {
	okH, okT, nT, class, detail := s.check(phase)
	if class != "" && res.Fail == "" {
		res.Fail, res.Class = "chain queries disagree with the committed block ("+phase+"): "+detail, class
	}
	f, l, c := s.k.Store.VerifHeaderIndexWindow()
	// the boundary height cur-MAX (oldest height of the live window; outside the window after a restart / a header sync)
	bd := "-"
	if cur := s.k.Ledger.GetCurrentBlockHeight(); cur >= ledgerstore.HEADER_INDEX_MAX_SIZE {
		h := cur - ledgerstore.HEADER_INDEX_MAX_SIZE
		r := s.blocks[h]
		b, err := s.k.Ledger.GetBlockByHeight(h)
		if s.k.Ledger.GetBlockHash(h) == r.hash && err == nil && b != nil && bytes.Equal(b.ToArray(), r.raw) {
			bd = "ok"
		} else {
			bd = "bad"
			if res.Fail == "" {
				res.Fail, res.Class = fmt.Sprintf("boundary height %d (cur-MAX) not answered with the committed block (%s)", h, phase), "query-disagree:boundary:"+phase
			}
		}
		if h >= f {
			bd += "+cached"
		}
	}
	return fmt.Sprintf("w=%d,%d,%d ok=%d/%d tx=%d/%d bd=%s", f, l, c, okH, len(s.blocks), okT, nT, bd)
}

const tplLen = 1990

var (
	tplDir  string
	tplRecs []rec
)

func mustAtoi(s string) int {
	n, err := strconv.Atoi(s)
	must(err)
	return n
}

func longTemplate() {
	if tplDir != "" {
		return
	}
	d := filepath.Join(base, "tpl-long")
	k, err := ledgerkit.Open(d, book)
	must(err)
	s := &state{k: k, repeats: map[common.Uint256]uint32{}}
	g := k.Genesis
	s.blocks = append(s.blocks, rec{g.Hash(), g.ToArray(), g.Header.ToArray(), g.Transactions})
	for i := 0; i < tplLen; i++ {
		s.commit(nil)
	}
	must(k.Close())
	tplDir, tplRecs = d, s.blocks
}

func newTxs(n int) []*types.Transaction {
	var txs []*types.Transaction
	for i := 0; i < n; i++ {
		nonce++
		tx, err := ledgerkit.TransferTx(book, rcpt.Address, "ont", 1, 0, 20000, nonce)
		must(err)
		txs = append(txs, tx)
	}
	return txs
}

func exec(line string) hx.Result {
	setup()
	f := strings.Fields(line)
	if len(f) != 2 || f[0] != "Q" {
		return hx.Result{Out: "bad-op"}
	}
	lineNo++
	dir := filepath.Join(base, fmt.Sprintf("l%d", lineNo))
	defer os.RemoveAll(dir)
	ops := strings.Split(f[1], ";")
	// long chains: a closed ledger with tplLen empty blocks is built once per process and copied (same blocks as building them here)
	skip := 0
	if n, err := strconv.Atoi(strings.TrimPrefix(ops[0], "x")); err == nil && strings.HasPrefix(ops[0], "x") && n >= tplLen && n <= 5000 {
		longTemplate()
		must(ledgerkit.CopyDir(tplDir, dir))
		skip = tplLen
	}
	k, err := ledgerkit.Open(dir, book)
	must(err)
	s := &state{k: k, repeats: map[common.Uint256]uint32{}}
	defer func() { s.k.Close() }()
	if skip > 0 {
		s.blocks = append(s.blocks, tplRecs...)
		ops[0] = fmt.Sprintf("x%d", mustAtoi(ops[0][1:])-skip)
	} else {
		g := k.Genesis
		s.blocks = append(s.blocks, rec{g.Hash(), g.ToArray(), g.Header.ToArray(), g.Transactions})
	}
	res := hx.Result{Kind: "plain"}
	var outs []string
	restarts, maxTx, total, syncs, forks := 0, 0, 0, 0, 0
	for _, op := range ops {
		switch {
		case op == "r":
			outs = append(outs, s.report("before-restart", &res))
			must(s.k.Close())
			s.k, err = ledgerkit.Open(dir, book)
			must(err)
			outs = append(outs, s.report("after-restart", &res))
			restarts++
		case op == "d":
			if s.lastTx != nil {
				s.commit([]*types.Transaction{s.lastTx})
				s.repeats[s.lastTx.Hash()] = uint32(len(s.blocks) - 1)
				res.Kind = "repeat"
			} else {
				s.commit(nil)
			}
		case strings.HasPrefix(op, "s"):
			n, err := strconv.Atoi(op[1:])
			if err != nil || n < 0 || n > 200 {
				return hx.Result{Out: "bad-op"}
			}
			txs := newTxs(n)
			blk, err := s.k.NextBlock(txs, 0)
			must(err)
			must(ledgerkit.SignWith(blk, book))
			must(s.k.Store.AddHeader(blk.Header))
			outs = append(outs, s.report("header-ahead", &res))
			must(s.k.Add(blk))
			s.blocks = append(s.blocks, rec{blk.Hash(), blk.ToArray(), blk.Header.ToArray(), txs})
			if n > 0 {
				s.lastTx = txs[n-1]
			}
			syncs++
		case strings.HasPrefix(op, "f"):
			// a validly signed CANDIDATE header for the next height goes through AddHeader, then a DIFFERENT valid block with the same
			// parent is committed at that height: the commit must overwrite the height index entry of the candidate
			n, err := strconv.Atoi(op[1:])
			if err != nil || n < 0 || n > 200 {
				return hx.Result{Out: "bad-op"}
			}
			cand, err := s.k.NextBlock(nil, 1) // other consensus data => other hash, same parent, same height
			must(err)
			must(ledgerkit.SignWith(cand, book))
			must(s.k.Store.AddHeader(cand.Header))
			outs = append(outs, s.report("candidate-header-ahead", &res))
			s.commit(newTxs(n))
			outs = append(outs, s.report("after-commit-over-candidate", &res))
			syncs++
			forks++
		case strings.HasPrefix(op, "b"):
			n, err := strconv.Atoi(op[1:])
			if err != nil || n < 0 || n > 3000 {
				return hx.Result{Out: "bad-op"}
			}
			s.commit(newTxs(n))
			if n > maxTx {
				maxTx = n
			}
			total += n
		case strings.HasPrefix(op, "x"):
			n, err := strconv.Atoi(op[1:])
			if err != nil || n < 0 || n > 5000 {
				return hx.Result{Out: "bad-op"}
			}
			for i := 0; i < n; i++ {
				s.commit(nil)
			}
		default:
			return hx.Result{Out: "bad-op"}
		}
	}
	final := s.report("live", &res)
	if restarts > 0 && res.Kind == "plain" {
		res.Kind = "restart"
	}
	if maxTx > 1024 {
		res.Kind += "+bigblock"
	}
	if syncs > forks {
		res.Kind += "+hdrsync"
	}
	if forks > 0 {
		res.Kind += "+candidate"
	}
	if fi, _, _ := s.k.Store.VerifHeaderIndexWindow(); fi > 0 {
		res.Kind += "+evicted"
	}
	res.Out = strings.Join(append(append([]string{fmt.Sprintf("n=%d", len(s.blocks)-1)}, outs...), final), " | ")
	res.Key = line
	return res
}

func gen(r *hx.Rand, tier string, i int) string {
	n := 2 + r.Intn(10)
	var ops []string
	for j := 0; j < n; j++ {
		switch x := r.Intn(100); {
		case x < 18:
			ops = append(ops, "r")
		case x < 24:
			ops = append(ops, "d")
		case x < 28:
			ops = append(ops, fmt.Sprintf("s%d", r.Intn(3)))
		case x < 33:
			ops = append(ops, fmt.Sprintf("f%d", r.Intn(3)))
		case x < 34:
			ops = append(ops, fmt.Sprintf("x%d", 1+r.Intn(12)))
		case x < 40:
			ops = append(ops, fmt.Sprintf("b%d", 10+r.Intn(30)))
		default:
			ops = append(ops, fmt.Sprintf("b%d", r.Intn(5)))
		}
	}
	if (tier == "thorough" && i%25 == 7) || (tier == "quick" && i == 11) {
		// a large block (more than 1024 / about 1500 transactions), then enough blocks to evict it from the block cache, then a restart
		big := []int{1025, 1100 + r.Intn(500), 2049}[r.Intn(3)]
		if tier == "quick" {
			big = 1300 + r.Intn(300)
		}
		ops = append(ops, fmt.Sprintf("b%d", big), fmt.Sprintf("x%d", 10+r.Intn(4)), "r")
	}
	if tier == "thorough" && i%40 == 0 {
		ops = append([]string{fmt.Sprintf("x%d", 1990+r.Intn(30))}, ops...)
	}
	return "Q " + strings.Join(ops, ";")
}

func main() {
	defer func() {
		if base != "" {
			os.RemoveAll(base)
		}
	}()
	hx.Main(hx.Prop{
		ID: "C40",
		Rule: "chains of real solo-ledger blocks (0-40 native transfers each, runs of empty blocks, a block repeating an already committed tx, header sync of the next header before its block, a candidate header followed by the commit of a different block at that height), " +
			"restarts (Close + reopen of the LevelDB directories) in the middle; after every restart and at the end EVERY height is queried by all five routes " +
			"and compared byte-wise with what was committed; corpus chains cross HEADER_INDEX_MAX_SIZE so that evicted heights are queried. the boundary height cur-MAX is reported separately (bd=). blocks with more than 1024 transactions read back from disk. kinds: plain/restart/repeat(+hdrsync)(+evicted)",
		Gen:  gen,
		Exec: exec,
		Corpus: []string{"Q b1", "Q r", "Q b0;r;b0", "Q b3;b0;b2;r;b1;r;r;b4", "Q b2;d;r;d;b1", "Q x2001;b2;r;b1;x3;r", "Q x1998;r;b1;b1;b1;r;b2",
			// boundary height cur-MAX on chains of MAX, MAX+1, MAX+5 blocks: after a restart, after a header sync, and both
			"Q x1999;r", "Q x2000;r", "Q x2001;r;b1", "Q x2005;r;s1;r", "Q x2000;s1", "Q x2001;s0;r", "Q x2005;s2;b1;s0", "Q b1;s2;r;s0",
			// candidate header X accepted by AddHeader, then a different block Y committed at that height (same parent)
			// a block with more transaction hashes than any pre-allocation bound, read back from DISK: ten later blocks push it out of the
			// block cache, and a restart empties the caches
			"Q b1025;x11;r;b1",
			"Q f1", "Q b1;f0;b1", "Q f2;r;f0;s1;f1", "Q b2;s1;f1;r;b1;f0;f0;r", "Q x2001;f1;r;f0",
			"Q b40;b1;r;b40"},
		N: map[string]int{"quick": 40, "thorough": 600},
	})
}
