// C42 harness: pre-execution of invoke / deploy / EIP-155 / EVM-message requests that write storage and move tokens, on a
// real solo ledger, interleaved with real blocks that do the same for real.
//
// Line:  P <op>;<op>;…
//
//	pre.put:k:v   pre-execute a NeoVM contract call that does Storage.Put(k,v) then Storage.Get(k) (returns v: the write is seen inside)
//	blk.put:k:v   the same call in a committed block
//	get:k         read the PERSISTED storage item (ledger.GetStorageItem)
//	pre.ont:a / blk.ont:a   native ONT transfer of a from the bookkeeper to the recipient, pre-executed / committed
//	pre.bal       pre-execute native balanceOf(recipient)
//	pre.batch:n:a PreExecuteContractBatch of n transfers of a (atomic when n is even)
//	pre.deploy:o|w  pre-execute a deploy request (o = fine, w = wasm binary declared as NeoVM: refused)
//	pre.evm:s:v   EIP-155 contract creation whose init code does SSTORE(s,v), through PreExecuteContract
//	pre.call:s:v  the same as an EVM message through PreExecuteEip155Tx
//	pre.bad       invoke request with garbage code
//
// Predicate: around EVERY pre.* op the height, current block hash, state root, both balances, the persisted storage item,
// the event record of the request's tx hash and the raw digest of all store files (logical digest on mismatch) are unchanged.
package main

import (
	"bytes"
	"encoding/hex"
	"fmt"
	"math/big"
	"os"
	"path/filepath"
	"strconv"
	"strings"

	ethcomm "github.com/ethereum/go-ethereum/common"
	ethtypes "github.com/ethereum/go-ethereum/core/types"
	"github.com/ethereum/go-ethereum/crypto"
	"github.com/ontio/ontology/account"
	cutils "github.com/ontio/ontology/cmd/utils"
	"github.com/ontio/ontology/common"
	"github.com/ontio/ontology/common/config"
	"github.com/ontio/ontology/core/payload"
	"github.com/ontio/ontology/core/store"
	"github.com/ontio/ontology/core/types"
	butils "github.com/ontio/ontology/core/utils"
	httpcom "github.com/ontio/ontology/http/base/common"
	nutils "github.com/ontio/ontology/smartcontract/service/native/utils"
	"verif/harness/internal/hx"
	"verif/harness/internal/ledgerkit"
)

var (
	base     string
	book     *account.Account
	rcpt     *account.Account
	tpl      string
	nonce    uint32
	lineNo   int
	contract common.Address
	code     []byte
)

func must(err error) {
	if err != nil {
		panic(err)
	}
}

func syscall(name string) []byte { return append([]byte{0x68, byte(len(name))}, name...) }

// contract: stack [value, key] -> Put(key,value); return Get(key)
func contractCode() []byte {
	var c []byte
	c = append(c, 0x76, 0x6B) // DUP TOALTSTACK
	c = append(c, syscall("System.Storage.GetContext")...)
	c = append(c, syscall("System.Storage.Put")...)
	c = append(c, 0x6C) // FROMALTSTACK
	c = append(c, syscall("System.Storage.GetContext")...)
	c = append(c, syscall("System.Storage.Get")...)
	c = append(c, 0x66) // RET
	return c
}

func sign(mt *types.MutableTransaction) *types.Transaction {
	nonce++
	mt.Nonce = nonce
	mt.Payer = book.Address
	must(cutils.SignTransaction(book, mt))
	tx, err := mt.IntoImmutable()
	must(err)
	return tx
}

func setup() {
	if base != "" {
		return
	}
	base = ledgerkit.TmpDir("c42")
	ledgerkit.InitGlobals()
	config.DefConfig.Common.EnableEventLog = true
	book, rcpt = ledgerkit.NewAccount(), ledgerkit.NewAccount()
	code = contractCode()
	contract = common.AddressFromVmCode(code)
	tpl = filepath.Join(base, "tpl")
	k, err := ledgerkit.Open(tpl, book)
	must(err)
	mt, err := cutils.NewDeployCodeTransaction(0, 30000000, code, payload.NEOVM_TYPE, "kv", "1", "v", "v@v", "put/get")
	must(err)
	commit(k, sign(mt))
	if _, err := k.Ledger.GetContractState(contract); err != nil {
		panic("template: contract not deployed: " + err.Error())
	}
	must(k.Close())
}

// blocks committed to the ledger of the current line after the template, in order (replayed on the twin ledger)
var committed []*types.Block

func newBlock(k *ledgerkit.Kit, txs ...*types.Transaction) *types.Block {
	blk, err := k.NextBlock(txs, 0)
	must(err)
	must(ledgerkit.SignWith(blk, book))
	return blk
}

func commit(k *ledgerkit.Kit, txs ...*types.Transaction) {
	blk := newBlock(k, txs...)
	must(k.Add(blk))
	committed = append(committed, blk)
}

// a block between its two phases: ExecuteBlock done, SubmitBlock not yet
type pendingBlock struct {
	blk *types.Block
	res store.ExecuteResult
	tx  *types.Transaction
}

func putTx(key, val string) *types.Transaction {
	mt, err := httpcom.NewNeovmInvokeTransaction(0, 2000000, contract, []interface{}{[]byte(key), []byte(val)})
	must(err)
	return sign(mt)
}

func ontTx(amount uint64) *types.Transaction {
	mt, err := cutils.TransferTx(0, 20000, "ont", book.Address.ToBase58(), rcpt.Address.ToBase58(), amount)
	must(err)
	return sign(mt)
}

func balTx() *types.Transaction {
	c, err := butils.BuildNativeInvokeCode(nutils.OntContractAddress, 0, "balanceOf", []interface{}{rcpt.Address[:]})
	must(err)
	return sign(cutils.NewInvokeTransaction(0, 20000, c))
}

var ethKey, _ = crypto.HexToECDSA("fad9c8855b740a0b7ed4c221dbad0f33a83a49cad6b3fe8d5817ac83d38b6a19")

func sstoreInit(slot, v byte) []byte { return []byte{0x60, v, 0x60, slot, 0x55, 0x00} }

func evmTx(slot, v byte) (*types.Transaction, error) {
	nonce++
	tx := ethtypes.NewContractCreation(uint64(nonce), big.NewInt(0), 200000, big.NewInt(0), sstoreInit(slot, v))
	signed, err := ethtypes.SignTx(tx, ethtypes.NewEIP155Signer(big.NewInt(int64(config.DefConfig.P2PNode.EVMChainId))), ethKey)
	if err != nil {
		return nil, err
	}
	return types.TransactionFromEIP155(signed)
}

type obs struct{ mem, raw string }

func observe(k *ledgerkit.Kit, key string, txh *common.Uint256) obs {
	h := k.Ledger.GetCurrentBlockHeight()
	ch := k.Ledger.GetCurrentBlockHash()
	sr, _ := k.Store.GetStateMerkleRoot(h)
	b1, _ := k.Balance("ont", book.Address)
	b2, _ := k.Balance("ont", rcpt.Address)
	g1, _ := k.Balance("ong", book.Address)
	item, _ := k.Ledger.GetStorageItem(contract, []byte(key))
	ev := "-"
	if txh != nil {
		if n, err := k.Ledger.GetEventNotifyByTx(*txh); err == nil && n != nil {
			ev = "recorded"
		}
	}
	ethAcc, _ := k.Store.GetEthAccount(crypto.PubkeyToAddress(ethKey.PublicKey))
	raw, err := ledgerkit.RawDigest(k.Dir)
	must(err)
	return obs{fmt.Sprintf("h=%d cur=%x root=%x ont=%d/%d ong=%d item=%x ev=%s ethnonce=%d", h, ch[:4], sr[:6], b1, b2, g1, item, ev, ethAcc.Nonce), raw}
}

func exec(line string) hx.Result {
	setup()
	f := strings.Fields(line)
	if len(f) != 2 || f[0] != "P" {
		return hx.Result{Out: "bad-op"}
	}
	lineNo++
	dir := filepath.Join(base, fmt.Sprintf("l%d", lineNo))
	must(ledgerkit.CopyDir(tpl, dir))
	defer os.RemoveAll(dir)
	k, err := ledgerkit.Open(dir, book)
	must(err)
	defer k.Close()
	h0 := k.Ledger.GetCurrentBlockHeight()
	res := hx.Result{Key: line}
	var outs []string
	firstKind := ""
	committed = nil
	var pending *pendingBlock
	split := false
	submit := func() string {
		if pending == nil {
			return "-"
		}
		pb := pending
		pending = nil
		must(k.SubmitPhase(pb.blk, pb.res))
		committed = append(committed, pb.blk)
		n, err := k.Ledger.GetEventNotifyByTx(pb.tx.Hash())
		if err != nil || n == nil || n.State != 1 {
			return "fail"
		}
		return "ok"
	}
	execute := func(tx *types.Transaction) string {
		submit() // at most one block between its phases
		blk := newBlock(k, tx)
		r, err := k.ExecutePhase(blk)
		must(err)
		pending = &pendingBlock{blk, r, tx}
		split = true
		return "exe"
	}
	for _, op := range strings.Split(f[1], ";") {
		p := strings.Split(op, ":")
		arg := func(i int) string {
			if i < len(p) {
				return p[i]
			}
			return ""
		}
		num := func(i int) uint64 {
			n, err := strconv.ParseUint(arg(i), 10, 62)
			if err != nil {
				panic("bad-op")
			}
			return n
		}
		isPre := strings.HasPrefix(p[0], "pre.")
		var before obs
		var txh *common.Uint256
		key := arg(1)
		var out string
		run := func(tx *types.Transaction, fn func() string) {
			if tx != nil {
				h := tx.Hash()
				txh = &h
			}
			if isPre {
				before = observe(k, key, txh)
				must(ledgerkit.CopyDir(k.Dir, filepath.Join(base, "before")))
			}
			out = fn()
		}
		pre := func(tx *types.Transaction, show bool) func() string {
			return func() string {
				r, err := k.Ledger.PreExecuteContract(tx)
				if err != nil || r == nil || r.State != 1 {
					return "fail"
				}
				if show {
					s, _ := r.Result.(string)
					b, _ := hex.DecodeString(s)
					return "ok:" + showVal(b)
				}
				return "ok"
			}
		}
		blk := func(tx *types.Transaction) func() string {
			return func() string {
				commit(k, tx)
				n, err := k.Ledger.GetEventNotifyByTx(tx.Hash())
				if err != nil || n == nil || n.State != 1 {
					return "fail"
				}
				return "ok"
			}
		}
		defer func() {
			if e := recover(); e != nil {
				if e == "bad-op" {
					res = hx.Result{Out: "bad-op"}
					return
				}
				panic(e)
			}
		}()
		if strings.HasPrefix(p[0], "blk.") {
			submit()
		}
		switch p[0] {
		case "exe.put":
			out = execute(putTx(key, arg(2)))
		case "exe.ont":
			out = execute(ontTx(num(1)))
		case "sub":
			out = submit()
		case "pre.put":
			tx := putTx(key, arg(2))
			run(tx, pre(tx, true))
		case "blk.put":
			tx := putTx(key, arg(2))
			run(tx, blk(tx))
		case "get":
			item, err := k.Ledger.GetStorageItem(contract, []byte(key))
			if err != nil || item == nil {
				out = "-"
			} else {
				out = showVal(item)
			}
		case "pre.ont":
			tx := ontTx(num(1))
			key = ""
			run(tx, pre(tx, false))
		case "blk.ont":
			tx := ontTx(num(1))
			key = ""
			run(tx, blk(tx))
		case "pre.bal":
			tx := balTx()
			run(tx, func() string {
				r, err := k.Ledger.PreExecuteContract(tx)
				if err != nil || r == nil || r.State != 1 {
					return "fail"
				}
				s, _ := r.Result.(string)
				b, _ := hex.DecodeString(s)
				return "ok:" + common.BigIntFromNeoBytes(b).String()
			})
		case "pre.batch":
			n, a := int(num(1)), num(2)
			if n > 20 {
				panic("bad-op")
			}
			var txs []*types.Transaction
			for i := 0; i < n; i++ {
				txs = append(txs, ontTx(a))
			}
			key = ""
			run(nil, func() string {
				rs, _, err := k.Ledger.GetStore().PreExecuteContractBatch(txs, n%2 == 0)
				if err != nil {
					return "fail"
				}
				for _, r := range rs {
					if r.State != 1 {
						return "fail"
					}
				}
				return fmt.Sprintf("ok:%d", len(rs))
			})
		case "pre.deploy":
			c := bytes.Repeat([]byte{0x61}, 40) // NOPs
			if arg(1) == "w" {
				c = append([]byte{0x00, 0x61, 0x73, 0x6d, 0x01, 0x00, 0x00, 0x00}, c...)
			} else if arg(1) != "o" {
				panic("bad-op")
			}
			mt, err := cutils.NewDeployCodeTransaction(0, 30000000, c, payload.NEOVM_TYPE, "x", "1", "v", "v@v", "d")
			must(err)
			tx := sign(mt)
			key = ""
			run(tx, pre(tx, false))
		case "pre.evm":
			tx, err := evmTx(byte(num(1)), byte(num(2)))
			must(err)
			key = ""
			run(tx, pre(tx, false))
		case "pre.call":
			slot, v := byte(num(1)), byte(num(2))
			key = ""
			run(nil, func() string {
				from := crypto.PubkeyToAddress(ethKey.PublicKey)
				msg := ethtypes.NewMessage(from, (*ethcomm.Address)(nil), 0, big.NewInt(0), 200000, big.NewInt(0), sstoreInit(slot, v), false)
				r, err := k.Store.PreExecuteEip155Tx(msg)
				if err != nil || r == nil || r.Err != nil {
					return "fail"
				}
				return "ok"
			})
		case "pre.bad":
			tx := sign(cutils.NewInvokeTransaction(0, 20000, []byte{0x68, 0x05, 'n', 'o', 'n', 'e', '!', 0xff, 0xff}))
			key = ""
			run(tx, pre(tx, false))
		default:
			return hx.Result{Out: "bad-op"}
		}
		if res.Out == "bad-op" {
			return res
		}
		if firstKind == "" {
			firstKind = p[0] + " " + strings.SplitN(out, ":", 2)[0]
		}
		if isPre {
			after := observe(k, key, txh)
			if res.Fail == "" {
				kind := strings.TrimPrefix(p[0], "pre.")
				if before.mem != after.mem {
					res.Fail = "pre-execution (" + op + ") changed observable ledger state: " + before.mem + " -> " + after.mem
					res.Class = "preexec-changed:" + kind + ":state"
				} else if before.raw != after.raw {
					l0, err := ledgerkit.DumpStores(filepath.Join(base, "before"))
					must(err)
					l1, err := ledgerkit.Snapshot(k.Dir, filepath.Join(base, "snap"))
					must(err)
					if l0 != l1 {
						res.Fail = "pre-execution (" + op + ") changed the stores: " + l0 + " -> " + l1
						res.Class = "preexec-changed:" + kind + ":stores"
					}
				}
			}
		}
		outs = append(outs, out)
	}
	submit()
	b1, _ := k.Balance("ont", book.Address)
	b2, _ := k.Balance("ont", rcpt.Address)
	outs = append(outs, fmt.Sprintf("h=+%d b=%d,%d", k.Ledger.GetCurrentBlockHeight()-h0, b1, b2))
	if split && res.Fail == "" {
		// twin ledger: the same blocks on a copy of the same template, without any pre-execution in between
		must(k.Close())
		mine, err := ledgerkit.DumpStores(dir)
		must(err)
		tdir := dir + "-twin"
		must(ledgerkit.CopyDir(tpl, tdir))
		defer os.RemoveAll(tdir)
		t, err := ledgerkit.Open(tdir, book)
		must(err)
		for _, blk := range committed {
			must(t.Add(blk))
		}
		tb1, _ := t.Balance("ont", book.Address)
		tb2, _ := t.Balance("ont", rcpt.Address)
		must(t.Close())
		twin, err := ledgerkit.DumpStores(tdir)
		must(err)
		if mine != twin || tb1 != b1 || tb2 != b2 {
			res.Fail = fmt.Sprintf("persisted state after ExecuteBlock … pre-executions … SubmitBlock differs from a ledger that got the same blocks without them: %s (ont %d/%d) vs twin %s (ont %d/%d)", mine, b1, b2, twin, tb1, tb2)
			res.Class = "preexec-between-execute-submit:stores"
		}
	}
	res.Out = strings.Join(outs, " | ")
	res.Kind = firstKind
	return res
}

func showVal(b []byte) string {
	if len(b) == 0 {
		return "-"
	}
	return string(b)
}

var total uint64 = 1000000000

func gen(r *hx.Rand, tier string, i int) string {
	n := 2 + r.Intn(7)
	var ops []string
	amt := func() uint64 {
		switch r.Intn(5) {
		case 0:
			return total + uint64(r.Intn(3)) // more than there is (or exactly everything)
		case 1:
			return 0
		default:
			return uint64(1 + r.Intn(1000))
		}
	}
	for j := 0; j < n; j++ {
		k, v := 1+r.Intn(4), 1+r.Intn(99)
		switch x := r.Intn(100); {
		case x < 22:
			ops = append(ops, fmt.Sprintf("pre.put:%d:%d", k, v))
		case x < 27:
			ops = append(ops, fmt.Sprintf("blk.put:%d:%d", k, v))
		case x < 30:
			// two-phase commit with pre-executions in between
			if r.Bool() {
				ops = append(ops, fmt.Sprintf("exe.put:%d:%d", k, v))
			} else {
				ops = append(ops, fmt.Sprintf("exe.ont:%d", amt()))
			}
		case x < 44:
			ops = append(ops, fmt.Sprintf("get:%d", k))
		case x < 58:
			ops = append(ops, fmt.Sprintf("pre.ont:%d", amt()))
		case x < 62:
			ops = append(ops, fmt.Sprintf("blk.ont:%d", amt()))
		case x < 64:
			ops = append(ops, "sub")
		case x < 70:
			ops = append(ops, "pre.bal")
		case x < 76:
			ops = append(ops, fmt.Sprintf("pre.batch:%d:%d", 1+r.Intn(4), amt()))
		case x < 82:
			ops = append(ops, "pre.deploy:"+[]string{"o", "w"}[r.Intn(2)])
		case x < 89:
			ops = append(ops, fmt.Sprintf("pre.evm:%d:%d", r.Intn(8), 1+r.Intn(200)))
		case x < 96:
			ops = append(ops, fmt.Sprintf("pre.call:%d:%d", r.Intn(8), 1+r.Intn(200)))
		default:
			ops = append(ops, "pre.bad")
		}
	}
	return "P " + strings.Join(ops, ";")
}

func main() {
	defer func() {
		if base != "" {
			os.RemoveAll(base)
		}
	}()
	hx.Main(hx.Prop{
		ID: "C42",
		Rule: "2-8 ops on a real solo ledger with a deployed NeoVM put/get contract: pre-executed and really committed storage writes and ONT transfers " +
			"(incl. amounts above the balance), balanceOf, batches (atomic and not), deploy requests, EIP-155 contract creations with SSTORE via PreExecuteContract and " +
			"via PreExecuteEip155Tx, garbage code; persisted reads in between. Non-trivial = every line; kinds = <op outcome> of the first op of the line",
		Gen:  gen,
		Exec: exec,
		Corpus: []string{"P pre.put:1:7;get:1;blk.put:1:8;get:1;pre.put:1:9;get:1", "P pre.ont:5;pre.bal;blk.ont:5;pre.bal;pre.ont:1000000000;pre.ont:999999995",
			"P pre.batch:3:10;pre.batch:2:1000000001;pre.bal", "P pre.deploy:o;pre.deploy:w;pre.bad", "P pre.evm:1:7;pre.call:2:9;pre.evm:1:8",
			"P blk.ont:1000000001;pre.bal;get:3",
			// pre-executions between ExecuteBlock and SubmitBlock of a block
			"P exe.ont:12345;pre.evm:1:7;sub;pre.bal", "P exe.put:2:5;pre.put:2:9;pre.ont:7;sub;get:2", "P exe.ont:5;pre.call:1:2;pre.batch:2:3;pre.bal;sub;blk.ont:1;pre.bal",
			"P exe.put:1:1;pre.deploy:o;pre.bad;exe.ont:3;pre.ont:1000;get:1"},
		N: map[string]int{"quick": 100, "thorough": 2000},
	})
}
