// C04 harness: histories on a real CacheDB over a real OverlayDB over leveldbstore.NewMemLevelDBStore().
// Ops: s:k:v store.Put (pre-population) · p:k:v d:k g:k i:prefix:n c r on the CacheDB (keys get ST_STORAGE) ·
// bp:k:v bd:k bg:k bi:prefix:n bc bk br on the OverlayDB (raw keys). n = elements taken before Release ("a" = drain).
// Deferred iterators: io:id:prefix / bo:id:prefix = NewIterator on the CacheDB / OverlayDB, kept open under id while
// other ops run (several at once); in:id:n = First/Next for n elements, then Release. Every key/prefix buffer handed to
// the real code is clobbered after the call returns.
// Output = every Get / iterator result + final write set, store content and full views (compared with the Lean model).
// Predicate on the implementation's own outputs: a three-map reference (tx writes, block writes, store) — every
// read returns the most recent write, every iterator yields exactly the live keys with the prefix, ascending.
package main

import (
	"bytes"
	"fmt"
	"sort"
	"strconv"
	"strings"

	scommon "github.com/ontio/ontology/core/store/common"
	"github.com/ontio/ontology/core/store/leveldbstore"
	"github.com/ontio/ontology/core/store/overlaydb"
	"github.com/ontio/ontology/smartcontract/storage"
	"verif/harness/internal/hx"
)

var cacheKeys = []string{"-", "00", "0000", "00ff", "01", "0100", "ff", "ff00", "ffff", "fe", "0001"}
var rawExtra = []string{"-", "00", "04", "04ff", "05", "06", "0600", "ff", "ffff", "31", "0400"}
var cachePrefixes = []string{"-", "00", "0000", "01", "ff", "ffff", "fe", "02", "00ff"}
var rawPrefixes = []string{"-", "05", "0500", "05ff", "05ffff", "04", "04ff", "06", "ff", "ffff", "0501", "00"}
var vals = []string{"-", "00", "01", "ff", "aa55", "00"}

func ckey(r *hx.Rand) string {
	if r.Chance(8) {
		return hx.Hex(r.Bytes(r.Intn(3)))
	}
	return r.Pick(cacheKeys)
}
func rkey(r *hx.Rand) string {
	if r.Chance(70) {
		k := ckey(r)
		if k == "-" {
			return "05"
		}
		return "05" + k
	}
	return r.Pick(rawExtra)
}
func val(r *hx.Rand, emptyPct int) string {
	if r.Chance(emptyPct) {
		return "-"
	}
	if r.Chance(15) {
		return hx.Hex(r.Bytes(1 + r.Intn(5)))
	}
	v := r.Pick(vals)
	if v == "-" {
		return "7e"
	}
	return v
}
func take(r *hx.Rand) string {
	if r.Chance(70) {
		return "a"
	}
	return strconv.Itoa(r.Intn(4)) // abandoned after 0..3 elements
}

func gen(r *hx.Rand, tier string, i int) string {
	var ops []string
	for j := r.Intn(7); j > 0; j-- { // pre-populated store
		ops = append(ops, "s:"+rkey(r)+":"+val(r, 5))
	}
	n := 2 + r.Intn(24)
	var pending []string
	started := map[string]bool{}
	nextID := 0
	readsOnly := 0
	for j := 0; j < n; j++ {
		if len(pending) > 0 && r.Chance(35) { // use one of the open iterators
			i := r.Intn(len(pending))
			switch y := r.Intn(100); {
			case y < 45: // First(), up to n elements, Release
				ops = append(ops, "in:"+pending[i]+":"+take(r))
				delete(started, pending[i])
				pending = append(pending[:i], pending[i+1:]...)
			case y < 65 || !started[pending[i]]: // First() (again, if it was used before)
				ops = append(ops, "if:"+pending[i])
				started[pending[i]] = true
			default: // a run of Next() calls
				for k := 1 + r.Intn(4); k > 0; k-- {
					ops = append(ops, "ix:"+pending[i])
				}
			}
			continue
		}
		x := r.Intn(100)
		if len(started) > 0 && (x >= 58 && x < 70 || x >= 93) && r.Chance(85) {
			x = 34 + r.Intn(10) // a Reset of a memdb would poison the positioned iterators: mostly avoided
		}
		if len(pending) > 0 && len(pending) < 3 && r.Chance(12) {
			x = 30 // a second / third iterator while one is open
		}
		if readsOnly > 0 { // right after an iterator was opened: mostly pure reads of keys below / above / inside the prefix
			readsOnly--
			if r.Chance(75) {
				x = 34 + r.Intn(10)
				if r.Chance(25) {
					x = 80 + r.Intn(5)
				}
			}
		}
		switch {
		case x < 20:
			ops = append(ops, "p:"+ckey(r)+":"+val(r, 10))
		case x < 30:
			ops = append(ops, "d:"+ckey(r))
		case x < 34:
			id := strconv.Itoa(nextID)
			nextID++
			if r.Chance(75) {
				p := r.Pick(cachePrefixes)
				ops = append(ops, "io:"+id+":"+p)
			} else {
				ops = append(ops, "bo:"+id+":"+r.Pick(rawPrefixes))
			}
			pending = append(pending, id)
			readsOnly = 1 + r.Intn(3)
		case x < 44:
			ops = append(ops, "g:"+ckey(r))
		case x < 58:
			p := r.Pick(cachePrefixes)
			if r.Chance(10) {
				p = hx.Hex(r.Bytes(r.Intn(3)))
			}
			ops = append(ops, "i:"+p+":"+take(r))
		case x < 66:
			ops = append(ops, "c")
		case x < 70:
			ops = append(ops, "r")
		case x < 76:
			ops = append(ops, "bp:"+rkey(r)+":"+val(r, 10))
		case x < 80:
			ops = append(ops, "bd:"+rkey(r))
		case x < 85:
			ops = append(ops, "bg:"+rkey(r))
		case x < 93:
			ops = append(ops, "bi:"+r.Pick(rawPrefixes)+":"+take(r))
		case x < 97:
			ops = append(ops, "bc")
		case x < 99:
			ops = append(ops, "bk")
		default:
			ops = append(ops, "br")
		}
	}
	for _, id := range pending {
		if r.Chance(80) {
			ops = append(ops, "in:"+id+":"+take(r))
		} // else: never positioned, released at the end of the case
	}
	return "L " + strings.Join(ops, ";")
}

type kv struct{ k, v []byte }

func showKVs(l []kv) string {
	if len(l) == 0 {
		return "-"
	}
	s := make([]string, len(l))
	for i, e := range l {
		s[i] = hx.Hex(e.k) + "=" + hx.Hex(e.v)
	}
	return strings.Join(s, ",")
}

func drain(it scommon.StoreIterator, n int) []kv {
	var out []kv
	if n > 0 {
		for has := it.First(); has; has = it.Next() {
			out = append(out, kv{append([]byte{}, it.Key()...), append([]byte{}, it.Value()...)})
			if len(out) >= n {
				break
			}
		}
	}
	it.Release()
	return out
}

// reference: three maps
type ref struct{ t, b, p map[string][]byte }

func (m *ref) view(level int, k string) ([]byte, string) { // level 0 = through the cache, 1 = through the overlay, 2 = store
	if level == 0 {
		if v, ok := m.t[k]; ok {
			return v, "T"
		}
	}
	if level <= 1 {
		if v, ok := m.b[k]; ok {
			return v, "B"
		}
	}
	if v, ok := m.p[k]; ok {
		return v, "P"
	}
	return nil, "none"
}

func (m *ref) live(level int, prefix []byte) []kv {
	seen := map[string]bool{}
	var keys []string
	for _, mm := range []map[string][]byte{m.t, m.b, m.p} {
		for k := range mm {
			if !seen[k] && bytes.HasPrefix([]byte(k), prefix) {
				seen[k] = true
				keys = append(keys, k)
			}
		}
	}
	sort.Strings(keys)
	var out []kv
	for _, k := range keys {
		if v, _ := m.view(level, k); len(v) > 0 {
			out = append(out, kv{[]byte(k), v})
		}
	}
	return out
}

func applyWrites(dst, src map[string][]byte, deleteEmpty bool) {
	for k, v := range src {
		if deleteEmpty && len(v) == 0 {
			delete(dst, k)
		} else {
			dst[k] = v
		}
	}
}

// classify an iterator mismatch
func iterClass(level string, got, want []kv, m *ref, lv int) string {
	for i := 1; i < len(got); i++ {
		if bytes.Compare(got[i-1].k, got[i].k) >= 0 {
			return "iter-" + level + "-not-ascending"
		}
	}
	wm := map[string][]byte{}
	for _, e := range want {
		wm[string(e.k)] = e.v
	}
	gm := map[string][]byte{}
	for _, e := range got {
		gm[string(e.k)] = e.v
	}
	for _, e := range got {
		w, ok := wm[string(e.k)]
		_, layer := m.view(lv, string(e.k))
		if !ok {
			return "iter-" + level + "-extra-key-truth-" + layer
		}
		if !bytes.Equal(w, e.v) {
			return "iter-" + level + "-stale-value-truth-" + layer
		}
	}
	for _, e := range want {
		if _, ok := gm[string(e.k)]; !ok {
			_, layer := m.view(lv, string(e.k))
			return "iter-" + level + "-missing-key-truth-" + layer
		}
	}
	return "iter-" + level + "-other"
}

// One memory LevelDB is reused (opening one costs ~2 ms): it is emptied before every case and replaced every 40 cases (old versions pile up in its memtable).
var (
	curStore *leveldbstore.LevelDBStore
	curUses  int
)

func freshStore() *leveldbstore.LevelDBStore {
	if curStore != nil && curUses >= 40 {
		curStore.Close()
		curStore = nil
	}
	if curStore == nil {
		curStore = leveldbstore.NewMemLevelDBStore()
		curUses = 0
	}
	curUses++
	it := curStore.NewIterator(nil)
	var ks [][]byte
	for has := it.First(); has; has = it.Next() {
		ks = append(ks, append([]byte{}, it.Key()...))
	}
	it.Release()
	for _, k := range ks {
		if err := curStore.Delete(k); err != nil {
			panic(err)
		}
	}
	return curStore
}

func subClass(cls string, sub bool, suffix string) string {
	if sub {
		return cls + suffix
	}
	return cls
}

func exec(line string) hx.Result {
	f := strings.Fields(line)
	if len(f) != 2 || f[0] != "L" {
		return hx.Result{Out: "bad-op"}
	}
	store := freshStore()
	ov := overlaydb.NewOverlayDB(store)
	cache := storage.NewCacheDB(ov)
	m := &ref{map[string][]byte{}, map[string][]byte{}, map[string][]byte{}}
	var outs []string
	res := hx.Result{}
	kinds := map[string]bool{}
	fail := func(class, msg string) {
		if res.Fail == "" {
			res.Fail, res.Class = msg, class
		}
	}
	parseN := func(s string) (int, bool) {
		if s == "a" {
			return 1000000, true
		}
		n, err := strconv.Atoi(s)
		return n, err == nil && n >= 0
	}
	pk := func(k []byte) string { return string(append([]byte{5}, k...)) }
	type openIt struct {
		it       scommon.StoreIterator
		cache    bool
		prefix   []byte
		psnap    map[string][]byte // store content when the iterator was created (LevelDB iterators read a snapshot)
		dirty    bool              // a state-changing op ran since creation
		started  bool              // First()/Next() has been called
		poisoned bool              // a memdb it stands on was Reset while it was positioned
		firsts   int               // number of First() calls so far
		nexts    int               // number of Next() calls so far
		expect   []kv              // live keys when First() was last called …
		pos      int               // … and the position reached
		valid    bool              // no state-changing op since that First()
	}
	open := map[string]*openIt{}
	var openOrder []string
	defer func() {
		for _, id := range openOrder {
			if o, ok := open[id]; ok {
				o.it.Release()
			}
		}
	}()
	clobber := func(bs ...[]byte) { // "it is safe to modify the arguments after the call returns"
		for _, b := range bs {
			for i := range b {
				b[i] ^= 0xa5
			}
		}
	}
	cp := func(b []byte) []byte { return append([]byte{}, b...) }
	markDirty := func() {
		for _, o := range open {
			o.dirty = true
			o.valid = false
		}
	}
	poison := func(tx, blk bool) {
		for _, o := range open {
			if o.started && ((tx && o.cache) || blk) {
				o.poisoned = true
				kinds["iter-poisoned-by-reset"] = true
			}
		}
	}
	// expected list of an open iterator right now: memory layers as they are, store as it was at creation
	expectOf := func(o *openIt) ([]kv, *ref, int, string) {
		mm := &ref{m.t, m.b, o.psnap}
		if o.cache {
			return mm.live(0, append([]byte{5}, o.prefix...)), mm, 0, "cache"
		}
		return mm.live(1, o.prefix), mm, 1, "overlay"
	}
	rawKey := func(o *openIt, k []byte) []byte {
		if o.cache {
			return append([]byte{5}, k...)
		}
		return k
	}
	// one First()/Next() call on an open iterator: output and predicate
	stepIt := func(o *openIt, first bool) string {
		tag := "n"
		var ok bool
		if first {
			tag = "f"
			ok = o.it.First()
			o.firsts++
			want, _, _, _ := expectOf(o)
			o.expect, o.pos, o.valid = want, 0, true
			if o.firsts >= 2 {
				kinds["iter-first-again"] = true
			}
		} else {
			ok = o.it.Next()
			o.nexts++
			o.pos++
		}
		o.started = true
		out := tag + "=0"
		var gk, gv []byte
		if ok {
			gk, gv = cp(o.it.Key()), cp(o.it.Value())
			out = tag + "=1," + hx.Hex(gk) + "=" + hx.Hex(gv)
		}
		if o.valid {
			_, level := 0, "overlay"
			if o.cache {
				level = "cache"
			}
			cls := "stepwise-iter-" + level
			sub := true
			if o.firsts >= 2 {
				// First() does not clear nextMemEnd/nextBackEnd left by the earlier pass (they can be set by the skip loop of First() itself)
				cls, sub = "refirst-iter-"+level, false
			}
			if !first && o.firsts == 0 {
				cls = "next-before-first-iter-" + level
				o.valid = false // Next() on a fresh JoinIter has no specified result
			} else if o.pos < len(o.expect) {
				w := o.expect[o.pos]
				if !ok {
					fail(subClass(cls, sub, "-ends-early"), fmt.Sprintf("%s iterator(%s): call %d reports exhaustion, live keys are %s", level, hx.Hex(o.prefix), o.pos, showKVs(o.expect)))
				} else if !bytes.Equal(rawKey(o, gk), w.k) || !bytes.Equal(gv, w.v) {
					fail(subClass(cls, sub, "-wrong-element"), fmt.Sprintf("%s iterator(%s): call %d yields %s=%s, live keys are %s", level, hx.Hex(o.prefix), o.pos, hx.Hex(gk), hx.Hex(gv), showKVs(o.expect)))
				}
			} else if ok {
				fail(subClass(cls, sub, "-extra-element"), fmt.Sprintf("%s iterator(%s): call %d yields %s=%s beyond the live keys %s", level, hx.Hex(o.prefix), o.pos, hx.Hex(gk), hx.Hex(gv), showKVs(o.expect)))
			}
		}
		return out
	}
	for _, o := range strings.Split(f[1], ";") {
		a := strings.Split(o, ":")
		var b [][]byte
		okHex := true
		for i, x := range a[1:] {
			if (a[0] == "i" || a[0] == "bi") && i == 1 {
				break
			}
			if a[0] == "io" || a[0] == "bo" || a[0] == "in" || a[0] == "if" || a[0] == "ix" {
				break
			}
			v, err := hx.Unhex(x)
			if err != nil {
				okHex = false
			}
			b = append(b, v)
		}
		if !okHex {
			return hx.Result{Out: "bad-op"}
		}
		switch a[0] {
		case "s", "p", "d", "c", "r", "bp", "bd", "bc", "bk", "br":
			markDirty()
		}
		switch {
		case (a[0] == "io" || a[0] == "bo") && len(a) == 3:
			id := a[1]
			pfx, err := hx.Unhex(a[2])
			if err != nil {
				return hx.Result{Out: "bad-op"}
			}
			if old, ok := open[id]; ok {
				old.it.Release()
			}
			arg := cp(pfx)
			o := &openIt{cache: a[0] == "io", prefix: pfx, psnap: map[string][]byte{}}
			for k, v := range m.p {
				o.psnap[k] = v
			}
			if o.cache {
				o.it = cache.NewIterator(arg)
				clobber(arg) // CacheDB.NewIterator copies the key; OverlayDB.NewIterator documents that it keeps a reference
			} else {
				o.it = ov.NewIterator(arg)
			}
			open[id] = o
			openOrder = append(openOrder, id)
			if len(open) >= 2 {
				kinds["iters-open>=2"] = true
			}
		case (a[0] == "if" || a[0] == "ix") && len(a) == 2:
			tag := map[string]string{"if": "f", "ix": "n"}[a[0]]
			o, isOpen := open[a[1]]
			switch {
			case !isOpen:
				outs = append(outs, tag+"=none")
			case o.poisoned:
				outs = append(outs, tag+"=poisoned")
			default:
				outs = append(outs, stepIt(o, a[0] == "if"))
				kinds["iter-stepwise"] = true
			}
		case a[0] == "in" && len(a) == 3:
			n, ok := parseN(a[2])
			if !ok {
				return hx.Result{Out: "bad-op"}
			}
			o, isOpen := open[a[1]]
			if !isOpen {
				outs = append(outs, "i=none")
				break
			}
			delete(open, a[1])
			if o.poisoned {
				o.it.Release()
				outs = append(outs, "i=poisoned")
				break
			}
			refirst := o.firsts >= 1
			got := drain(o.it, n)
			outs = append(outs, "i="+showKVs(got))
			want, mm, lv, level := expectOf(o)
			if n < len(want) {
				want = want[:n]
			}
			gp := got
			if o.cache {
				gp = make([]kv, len(got))
				for i, e := range got {
					gp[i] = kv{append([]byte{5}, e.k...), e.v}
				}
			}
			tag := "deferred-"
			switch {
			case refirst:
				kinds["iter-first-again"] = true
			case o.dirty:
				tag = "deferred-after-writes-"
				kinds["iter-deferred-after-writes"] = true
			default:
				kinds["iter-deferred-reads-only"] = true
			}
			if showKVs(gp) != showKVs(want) {
				ws := want
				if o.cache {
					ws = make([]kv, len(want))
					for i, e := range want {
						ws[i] = kv{e.k[1:], e.v}
					}
				}
				cls := tag + iterClass(level, gp, want, mm, lv)
				if refirst {
					cls = "refirst-iter-" + level
				}
				fail(cls, fmt.Sprintf("%s iterator(%s) opened earlier yields %s, live keys with the prefix are %s", level, hx.Hex(o.prefix), showKVs(got), showKVs(ws)))
			}
		case a[0] == "s" && len(a) == 3:
			if err := store.Put(b[0], b[1]); err != nil {
				return hx.Result{Out: "bad-op"}
			}
			m.p[string(b[0])] = b[1]
			if len(b[1]) == 0 {
				kinds["store-empty-value"] = true
			}
		case a[0] == "p" && len(a) == 3:
			ka, va := cp(b[0]), cp(b[1])
			cache.Put(ka, va)
			clobber(ka, va)
			m.t[pk(b[0])] = b[1]
		case a[0] == "d" && len(a) == 2:
			ka := cp(b[0])
			cache.Delete(ka)
			clobber(ka)
			m.t[pk(b[0])] = []byte{}
		case a[0] == "g" && len(a) == 2:
			v, err := cache.Get(b[0])
			if err != nil {
				return hx.Result{Out: "bad-op"}
			}
			outs = append(outs, "g="+hx.Hex(v))
			want, layer := m.view(0, pk(b[0]))
			kinds["get-"+layer] = true
			if !bytes.Equal(v, want) {
				fail("cache-get-wrong-truth-"+layer, fmt.Sprintf("CacheDB.Get(%s)=%s, most recent write is %s (layer %s)", hx.Hex(b[0]), hx.Hex(v), hx.Hex(want), layer))
			}
		case a[0] == "i" && len(a) == 3:
			n, ok := parseN(a[2])
			if !ok {
				return hx.Result{Out: "bad-op"}
			}
			ka := cp(b[0])
			cit := cache.NewIterator(ka)
			clobber(ka)
			got := drain(cit, n)
			outs = append(outs, "i="+showKVs(got))
			want := m.live(0, append([]byte{5}, b[0]...))
			for i := range want {
				want[i].k = want[i].k[1:]
			}
			if n < len(want) {
				want = want[:n]
				kinds["iter-abandoned"] = true
			}
			kinds["iter-cache"] = true
			if showKVs(got) != showKVs(want) {
				gp := make([]kv, len(got))
				for i, e := range got {
					gp[i] = kv{append([]byte{5}, e.k...), e.v}
				}
				wp := make([]kv, len(want))
				for i, e := range want {
					wp[i] = kv{append([]byte{5}, e.k...), e.v}
				}
				fail(iterClass("cache", gp, wp, m, 0), fmt.Sprintf("CacheDB.NewIterator(%s) yields %s, live keys are %s", hx.Hex(b[0]), showKVs(got), showKVs(want)))
			}
		case a[0] == "c" && len(a) == 1:
			poison(true, false)
			cache.Commit()
			applyWrites(m.b, m.t, false)
			m.t = map[string][]byte{}
			kinds["commit"] = true
		case a[0] == "r" && len(a) == 1:
			poison(true, false)
			cache.Reset()
			m.t = map[string][]byte{}
			kinds["reset"] = true
		case a[0] == "bp" && len(a) == 3:
			ov.Put(b[0], b[1])
			m.b[string(b[0])] = b[1]
		case a[0] == "bd" && len(a) == 2:
			ov.Delete(b[0])
			m.b[string(b[0])] = []byte{}
		case a[0] == "bg" && len(a) == 2:
			v, err := ov.Get(b[0])
			if err != nil {
				return hx.Result{Out: "bad-op"}
			}
			outs = append(outs, "g="+hx.Hex(v))
			want, layer := m.view(1, string(b[0]))
			if !bytes.Equal(v, want) {
				fail("overlay-get-wrong-truth-"+layer, fmt.Sprintf("OverlayDB.Get(%s)=%s, most recent write is %s (layer %s)", hx.Hex(b[0]), hx.Hex(v), hx.Hex(want), layer))
			}
		case a[0] == "bi" && len(a) == 3:
			n, ok := parseN(a[2])
			if !ok {
				return hx.Result{Out: "bad-op"}
			}
			got := drain(ov.NewIterator(b[0]), n)
			outs = append(outs, "i="+showKVs(got))
			want := m.live(1, b[0])
			if n < len(want) {
				want = want[:n]
				kinds["iter-abandoned"] = true
			}
			kinds["iter-overlay"] = true
			if showKVs(got) != showKVs(want) {
				fail(iterClass("overlay", got, want, m, 1), fmt.Sprintf("OverlayDB.NewIterator(%s) yields %s, live keys are %s", hx.Hex(b[0]), showKVs(got), showKVs(want)))
			}
		case (a[0] == "bc" || a[0] == "bk") && len(a) == 1:
			store.NewBatch()
			ov.CommitTo()
			if err := store.BatchCommit(); err != nil {
				return hx.Result{Out: "bad-op"}
			}
			applyWrites(m.p, m.b, true)
			if a[0] == "bc" {
				poison(false, true)
				ov.Reset()
				m.b = map[string][]byte{}
			}
			kinds["block-commit"] = true
		case a[0] == "br" && len(a) == 1:
			poison(false, true)
			ov.Reset()
			m.b = map[string][]byte{}
		default:
			return hx.Result{Out: "bad-op"}
		}
	}
	// final state
	var bd []kv
	ov.GetWriteSet().ForEach(func(k, v []byte) { bd = append(bd, kv{append([]byte{}, k...), append([]byte{}, v...)}) })
	pd := drain(store.NewIterator(nil), 1000000)
	vb := drain(ov.NewIterator(nil), 1000000)
	vt := drain(cache.NewIterator(nil), 1000000)
	outs = append(outs, "B="+showKVs(bd)+" P="+showKVs(pd)+" VB="+showKVs(vb)+" VT="+showKVs(vt))
	res.Out = strings.Join(outs, " | ")
	// final-state predicate
	var bkeys []string
	for k := range m.b {
		bkeys = append(bkeys, k)
	}
	sort.Strings(bkeys)
	var bw []kv
	for _, k := range bkeys {
		bw = append(bw, kv{[]byte(k), m.b[k]})
	}
	if showKVs(bd) != showKVs(bw) {
		fail("overlay-writeset-not-published-writes", "write set of the overlay is "+showKVs(bd)+", writes published to it are "+showKVs(bw))
	}
	var pkeys []string
	for k := range m.p {
		pkeys = append(pkeys, k)
	}
	sort.Strings(pkeys)
	var pw []kv
	for _, k := range pkeys {
		pw = append(pw, kv{[]byte(k), m.p[k]})
	}
	if showKVs(pd) != showKVs(pw) {
		fail("store-content-not-committed-writes", "store holds "+showKVs(pd)+", committed content is "+showKVs(pw))
	}
	if w := m.live(1, nil); showKVs(vb) != showKVs(w) {
		fail(iterClass("overlay", vb, w, m, 1), "final overlay view "+showKVs(vb)+" live keys "+showKVs(w))
	}
	w := m.live(0, []byte{5})
	for i := range w {
		w[i].k = w[i].k[1:]
	}
	if showKVs(vt) != showKVs(w) {
		fail("iter-cache-final-view", "final cache view "+showKVs(vt)+" live keys "+showKVs(w))
	}
	// coverage: which join-iterator situations did the final cache view meet
	both, tomb := false, false
	for k, v := range m.t {
		if _, ok := m.b[k]; ok {
			both = true
		} else if _, ok := m.p[k]; ok {
			both = true
		}
		if len(v) == 0 {
			tomb = true
		}
	}
	if both {
		kinds["key-on-both-sides"] = true
	}
	if tomb {
		kinds["tombstone-in-tx"] = true
	}
	if len(m.t) == 0 && (len(m.b) > 0 || len(m.p) > 0) {
		kinds["mem-side-empty"] = true
	}
	if len(m.t) > 0 && len(m.b) == 0 && len(m.p) == 0 {
		kinds["back-side-empty"] = true
	}
	var kl []string
	for k := range kinds {
		kl = append(kl, k)
	}
	sort.Strings(kl)
	res.Kind = strings.Join(kl, "+")
	if len(outs) > 1 {
		res.Key = line
	}
	return res
}

func main() {
	hx.Main(hx.Prop{
		ID:   "C04",
		Rule: "histories (0–6 pre-populated store entries, 2–25 ops) mixing put/delete/get/iterate(prefix, drained or abandoned after 0–3 elements)/commit/reset on a real CacheDB and put/delete/get/iterate/commit/reset on its OverlayDB over a memory LevelDB; keys from an alphabet sharing prefixes (empty key, 00.., ff.., ST_STORAGE neighbours 04ff/06), empty values in all layers. 30% of the histories keep iterators open (several at once) across other ops - mostly pure Gets of keys below/above/inside the prefix, also writes/commits/resets - before First() is called. Non-trivial = history with at least one get/iterate observation; kinds = features reached (which layer answered a get, abandoned iterators, key on both sides of the join, tombstones, one side empty)",
		Gen:  gen,
		Exec: exec,
		Corpus: []string{
			"L s:0501:09;s:050100:08;s:06:01;p:0100:-;p:0105:03;g:01;i:01:a;c;bi:05:1;bc;d:01;i:-:a",
			"L i:-:a;bi:-:a;g:-;bg:-",
			"L p:-:01;i:-:a;g:-;c;i:-:a;bi:05:a;bi:-:a",
			"L s:05ff:01;s:05ffff:02;s:06:03;s:04ff:04;i:ff:a;i:ffff:a;bi:05ff:a;bi:ff:a;bi:-:a",
			"L s:ff:01;s:ffff:02;bi:ff:a;bi:ffff:a;bp:ffff:-;bi:ff:a;bp:ff00:05;bi:ff:a",
			"L s:0500:01;d:00;i:-:a;i:00:a;c;i:00:a;bc;i:00:a;p:00:02;i:00:1;i:00:0",
			"L s:0500:-;s:0501:02;i:-:a;g:00;bg:0500",
			"L p:00:01;p:01:02;r;i:-:a;p:01:03;c;r;i:-:a;d:01;c;bk;i:-:a;br;i:-:a",
			"L s:0501:01;bd:0501;p:01:07;i:-:a;r;i:-:a;bi:05:a;br;i:-:a",
			"L s:050001:01;s:050002:02;s:0501:03;p:0003:04;io:0:00;g:ff;in:0:a",
			"L s:050001:01;s:050002:02;s:04ff:03;p:0003:04;io:0:00;g:-;in:0:a",
			"L s:0500:01;p:01:02;io:0:-;io:1:00;bo:2:05;g:01;bg:06;in:1:a;g:00;in:0:a;in:2:a",
			"L s:0500:01;io:0:-;bo:1:05;p:01:02;s:0502:03;c;in:0:a;in:1:a;in:2:a",
			"L p:00:01;io:0:00;c;bc;r;in:0:a",
			"L s:0501:09;s:0502:08;p:0103:03;io:1:-;if:1;ix:1;ix:1;ix:1;ix:1;if:1;ix:1;ix:1;p:0100:77;io:2:01;if:2;p:0101:66;ix:2;ix:2;c;ix:2;in:1:a",
			"L s:0501:01;s:0502:02;bo:0:05;if:0;ix:0;ix:0;if:0;ix:0;ix:0;in:0:a",
			"L p:01:01;p:02:02;io:0:-;if:0;if:0;ix:0;in:0:a",
			"L p:01:01;p:03:03;io:0:-;if:0;p:02:02;d:03;ix:0;ix:0;bp:0504:04;ix:0;ix:0",
			"L s:0501:01;io:0:-;ix:0;ix:0;bo:1:-;ix:1",
		},
		N: map[string]int{"quick": 20000, "thorough": 400000},
	})
}
