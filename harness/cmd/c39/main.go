// C39 harness: single- and double-field mutations of valid next blocks on a real solo ledger, delivered as object
// (AddBlock), as bytes (BlockFromRawBytes + AddBlock) and through the consensus path (ExecuteBlock + SubmitBlock).
//
// Line:  A <pre> <op>;<op>;…        (see lean/OntVerif/OntVerif/Driver/C39.lean for the op grammar; an "H" prefix delivers the
//
//	block's own valid header through AddHeader before the mutated block)
//
// Predicate (on the implementation's own outputs, independent of the Lean model):
//   - a block whose mutation set is invalidating must not be accepted            (class accepted-invalid:<mutation>)
//   - whenever a block is not accepted, height / current hash / header height / next-height index entry / in-memory
//     block-root accumulator / balances / digest of all three LevelDB stores + merkle file are unchanged
//     (class rejected-but-changed:<what>)
//   - the valid block is still accepted afterwards                               (class valid-block-rejected)
package main

import (
	"crypto/sha256"
	"fmt"
	"os"
	"path/filepath"
	"strconv"
	"strings"

	"github.com/ontio/ontology/account"
	"github.com/ontio/ontology/common"
	"github.com/ontio/ontology/common/config"
	"github.com/ontio/ontology/core/types"
	"verif/harness/internal/hx"
	"verif/harness/internal/ledgerkit"
)

var (
	base      string
	book      *account.Account // key 1: genesis bookkeeper
	other     *account.Account // key 2
	rcpt      *account.Account
	templates = map[int]string{}
	nonce     uint32
	lineNo    int
)

var live *ledgerkit.Kit

func dropLive() {
	if live != nil {
		live.Close()
		os.RemoveAll(live.Dir)
		live = nil
	}
}

func setup() {
	if base != "" {
		return
	}
	base = ledgerkit.TmpDir("c39")
	ledgerkit.InitGlobals()
	config.DefConfig.Common.EnableEventLog = true
	book, other, rcpt = ledgerkit.NewAccount(), ledgerkit.NewAccount(), ledgerkit.NewAccount()
}

func must(err error) {
	if err != nil {
		panic(err)
	}
}

func newTxs(n int) []*types.Transaction {
	var txs []*types.Transaction
	for i := 0; i < n; i++ {
		nonce++
		tx, err := ledgerkit.TransferTx(book, rcpt.Address, "ont", 1, 0, 20000, nonce)
		must(err)
		txs = append(txs, tx)
	}
	return txs
}

// owner of the tip's NextBookkeeper address (book unless a block handed the chain to `other`)
func owner(k *ledgerkit.Kit) (*account.Account, *account.Account) {
	tip, err := k.TipHeader()
	must(err)
	if tip.NextBookkeeper == other.Address {
		return other, book
	}
	return book, other
}

func validNext(k *ledgerkit.Kit, ntx int, consAdd uint64) *types.Block {
	blk, err := k.NextBlock(newTxs(ntx), consAdd)
	must(err)
	own, _ := owner(k)
	must(ledgerkit.SignWith(blk, own))
	return blk
}

func stateRoot(k *ledgerkit.Kit, blk, fallback *types.Block) common.Uint256 {
	if blk.Header.Height == k.Ledger.GetCurrentBlockHeight()+1 {
		if res, err := k.Ledger.ExecuteBlock(blk); err == nil {
			return res.MerkleRoot
		}
	}
	if fallback != nil {
		if res, err := k.Ledger.ExecuteBlock(fallback); err == nil {
			return res.MerkleRoot
		}
	}
	return common.Uint256{}
}

func addValid(k *ledgerkit.Kit) string {
	blk := validNext(k, 1, 0)
	h := k.Ledger.GetCurrentBlockHeight()
	err := k.Ledger.AddBlock(blk, nil, stateRoot(k, blk, nil))
	return verdict(err, h, k)
}

// template(pre): directory of a closed ledger with `pre` valid blocks, built once per process
func template(pre int) string {
	if d, ok := templates[pre]; ok {
		return d
	}
	d := filepath.Join(base, fmt.Sprintf("tpl%d", pre))
	k, err := ledgerkit.Open(d, book)
	must(err)
	for i := 0; i < pre; i++ {
		if v := addValid(k); v != "ok" {
			panic("template block rejected: " + v)
		}
	}
	must(k.Close())
	templates[pre] = d
	return d
}

func classify(err error) string {
	m := err.Error()
	for _, c := range []struct{ sub, kind string }{
		{"duplicated transaction in block", "duptx"},
		{"mismatched transaction root", "txroot"},
		{"not equal next block height", "height"},
		{"not equal next header height", "height"},
		{"is not the current block", "prevtip"},
		{"cannot find pre header", "prev"},
		{"get prev header error", "prev"},
		{"block height is incorrect", "prevheight"},
		{"block timestamp is incorrect", "timestamp"},
		{"bookkeeper address error", "bookkeeper"},
		{"wrong multi-sig param", "bookkeeper"},
		{"not enough signatures", "sig"},
		{"invalid signature data", "sig"},
		{"multi-signature verification failed", "sig"},
		{"ledger is closing", "closing"},
		{"state merkle root mismatch", "stateroot"},
		{"wrong block root", "blockroot"},
	} {
		if strings.Contains(m, c.sub) {
			return "reject:" + c.kind
		}
	}
	return "reject:unknown"
}

func verdict(err error, hBefore uint32, k *ledgerkit.Kit) string {
	if err != nil {
		return classify(err)
	}
	if k.Ledger.GetCurrentBlockHeight() == hBefore {
		return "ignored"
	}
	return "ok"
}

func flip(h common.Uint256) common.Uint256 { h[5] ^= 0x40; return h }

type opState struct {
	k    *ledgerkit.Kit
	fork *common.Uint256
}

// observation of everything the property says must not change
func observe(k *ledgerkit.Kit, withDisk bool) (mem, bal, disk string) {
	h := k.Ledger.GetCurrentBlockHeight()
	ch := k.Ledger.GetCurrentBlockHash()
	nh := k.Store.GetBlockHash(h + 1)
	br := k.Store.GetBlockRootWithNewTxRoots(h+1, []common.Uint256{{1}})
	mem = fmt.Sprintf("h=%d cur=%x hh=%d next=%x acc=%x", h, ch[:4], k.Store.GetCurrentHeaderHeight(), nh[:4], br[:6])
	b1, _ := k.Balance("ont", book.Address)
	b2, _ := k.Balance("ont", rcpt.Address)
	sr, _ := k.Store.GetStateMerkleRoot(h)
	bal = fmt.Sprintf("%d/%d/%x", b1, b2, sr[:6])
	if withDisk {
		var err error
		disk, err = ledgerkit.RawDigest(k.Dir)
		must(err)
	}
	return
}

var families = []string{"h+", "h-", "prev=", "ts=", "broot=", "troot=", "sroot=", "ver=", "cons=", "pay=", "nb=", "sig=", "keys=", "dup", "none"}

func family(m string) string {
	for _, f := range families {
		if strings.HasPrefix(m, f) {
			if f == "h+" || f == "h-" {
				return "h"
			}
			return f
		}
	}
	return ""
}

// invalidating: the harness's own oracle — which single mutations make the block one the property says must be rejected.
func invalidating(m string, via byte, ntx int, cur uint32) bool {
	switch {
	case strings.HasPrefix(m, "h+"), strings.HasPrefix(m, "h-"):
		n, _ := strconv.Atoi(m[2:])
		return n > 0
	case strings.HasPrefix(m, "prev=o"):
		n, _ := strconv.Atoi(m[6:])
		return n > 0 && cur > 0
	case strings.HasPrefix(m, "prev="):
		return true
	case m == "ts=e", m == "ts=l", m == "ts=z":
		return true
	case strings.HasPrefix(m, "broot="), m == "troot=f":
		return true
	case m == "sroot=f":
		return ntx > 0 && via != 'c'
	case m == "sig=d", m == "sig=c", m == "sig=t", m == "sig=o", strings.HasPrefix(m, "keys="):
		return true
	case m == "dup":
		return via == 'b' && ntx > 0
	}
	return false
}

func (s *opState) doOp(op string) (out string, fail, class string) {
	k := s.k
	if op == "fork" {
		alt := validNext(k, 0, 1)
		h := k.Ledger.GetCurrentBlockHeight()
		o1 := "ok"
		if err := k.Store.AddHeader(alt.Header); err != nil {
			o1 = classify(err)
		}
		blk := validNext(k, 1, 0)
		err := k.Ledger.AddBlock(blk, nil, stateRoot(k, blk, nil))
		o2 := verdict(err, h, k)
		fh := alt.Hash()
		s.fork = &fh
		return "fork:" + o1 + "/" + o2, "", ""
	}
	// "H" prefix: the block's own VALID signed header goes through AddHeader (header sync) before the (mutated) block arrives
	hdrFirst := strings.HasPrefix(op, "H")
	parts := strings.SplitN(strings.TrimPrefix(op, "H"), ":", 2)
	if len(parts) != 2 || len(parts[0]) != 3 {
		return "bad-op", "", ""
	}
	via, mode, ntx := parts[0][0], parts[0][1], int(parts[0][2]-'0')
	if (mode != 'r' && mode != 's') || ntx < 0 || ntx > 9 || (via != 'o' && via != 'b' && via != 'c') {
		return "bad-op", "", ""
	}
	own, non := owner(k)
	tip, err := k.TipHeader()
	must(err)
	cur := tip.Height
	b0 := validNext(k, ntx, 0)
	blk := &types.Block{Header: ledgerkit.CloneHeader(b0.Header), Transactions: b0.Transactions}
	hd := blk.Header
	srFlip := false
	var sigMuts []string
	seen := map[string]int{}
	muts := strings.Split(parts[1], ",")
	for _, m := range muts {
		f := family(m)
		if f == "" {
			return "bad-op", "", ""
		}
		seen[f]++
		if f == "sig=" || f == "keys=" {
			sigMuts = append(sigMuts, m)
			continue
		}
		arg := func(pfx string) (uint32, bool) {
			n, err := strconv.ParseUint(m[len(pfx):], 10, 31)
			return uint32(n), err == nil
		}
		switch {
		case m == "none":
		case strings.HasPrefix(m, "h+"):
			n, ok := arg("h+")
			if !ok {
				return "bad-op", "", ""
			}
			hd.Height += n
		case strings.HasPrefix(m, "h-"):
			n, ok := arg("h-")
			if !ok {
				return "bad-op", "", ""
			}
			if n > hd.Height {
				n = hd.Height
			}
			hd.Height -= n
		case m == "prev=u":
			hd.PrevBlockHash = common.Uint256(sha256.Sum256([]byte(op)))
		case m == "prev=z":
			hd.PrevBlockHash = common.Uint256{}
		case strings.HasPrefix(m, "prev=o"):
			n, ok := arg("prev=o")
			if !ok {
				return "bad-op", "", ""
			}
			if n > cur {
				n = cur
			}
			bh, err := k.Store.GetBlockByHeight(cur - n) // straight from the store's height index
			if err != nil || bh == nil {
				hd.PrevBlockHash = common.Uint256{9, 9, 8}
			} else {
				hd.PrevBlockHash = bh.Hash()
			}
		case m == "prev=f":
			if s.fork != nil {
				hd.PrevBlockHash = *s.fork
			} else {
				hd.PrevBlockHash = common.Uint256(sha256.Sum256([]byte(op)))
			}
		case m == "ts=e":
			hd.Timestamp = tip.Timestamp
		case m == "ts=l":
			hd.Timestamp = tip.Timestamp - 1
		case m == "ts=z":
			hd.Timestamp = 0
		case strings.HasPrefix(m, "ts=+"):
			n, ok := arg("ts=+")
			if !ok {
				return "bad-op", "", ""
			}
			hd.Timestamp += n
		case m == "broot=f":
			hd.BlockRoot = flip(hd.BlockRoot)
		case m == "broot=z":
			hd.BlockRoot = common.Uint256{}
		case m == "troot=f":
			hd.TransactionsRoot = flip(hd.TransactionsRoot)
		case m == "sroot=f":
			srFlip = true
		case m == "ver=1":
			hd.Version = 1
		case m == "cons=1":
			hd.ConsensusData++
		case m == "pay=1":
			hd.ConsensusPayload = []byte{1, 2, 3}
		case m == "nb=o":
			hd.NextBookkeeper = other.Address
		case m == "nb=b":
			hd.NextBookkeeper = book.Address
		case m == "nb=r":
			hd.NextBookkeeper = common.Address{9, 9}
		case m == "dup":
			if len(blk.Transactions) > 0 {
				blk.Transactions = append(append([]*types.Transaction(nil), blk.Transactions...), blk.Transactions[0])
				var hs []common.Uint256
				for _, t := range blk.Transactions {
					hs = append(hs, t.Hash())
				}
				hd.TransactionsRoot = common.ComputeMerkleRoot(hs)
				hd.BlockRoot = k.Ledger.GetBlockRootWithNewTxRoots(cur+1, []common.Uint256{hd.TransactionsRoot})
			}
		default:
			return "bad-op", "", ""
		}
	}
	if mode == 's' {
		must(ledgerkit.SignWith(blk, own))
	} else {
		blk.Header = ledgerkit.CloneHeader(blk.Header) // drop any cached hash; signature of b0 stays
	}
	for _, m := range sigMuts {
		hd := blk.Header
		switch m {
		case "sig=d":
			hd.SigData = nil
		case "sig=c":
			for i := range hd.SigData {
				c := append([]byte(nil), hd.SigData[i]...)
				c[len(c)/2] ^= 0x10
				hd.SigData[i] = c
			}
		case "sig=t":
			for i := range hd.SigData {
				hd.SigData[i] = append([]byte(nil), hd.SigData[i][:7]...)
			}
		case "sig=o":
			keys := hd.Bookkeepers
			must(ledgerkit.SignWith(blk, non))
			blk.Header.Bookkeepers = keys
		case "sig=2":
			hd.SigData = append(hd.SigData, hd.SigData...)
		case "keys=o":
			must(ledgerkit.SignWith(blk, non))
		case "keys=n":
			hd.Bookkeepers = nil
		case "keys=2":
			must(ledgerkit.SignWith(blk, own, non))
		default:
			return "bad-op", "", ""
		}
	}
	sr := stateRoot(k, blk, b0)
	if srFlip {
		sr = flip(sr)
	}

	hdrOut := ""
	if hdrFirst {
		hdrOut = "hdr:ok/"
		if e := k.Store.AddHeader(b0.Header); e != nil {
			hdrOut = "hdr:" + classify(e) + "/"
		}
	}
	defer func() { out = hdrOut + out }()
	mem0, bal0, disk0 := observe(k, true)
	before := filepath.Join(base, "before")
	os.RemoveAll(before)
	must(ledgerkit.CopyDir(k.Dir, before))
	h0 := k.Ledger.GetCurrentBlockHeight()
	switch via {
	case 'o':
		err = k.Ledger.AddBlock(blk, nil, sr)
	case 'b':
		var dec *types.Block
		dec, err = types.BlockFromRawBytes(blk.ToArray())
		if err == nil {
			err = k.Ledger.AddBlock(dec, nil, sr)
		} else if classify(err) == "reject:unknown" {
			err = fmt.Errorf("decode: %v", err)
		}
	case 'c':
		res, e := k.Ledger.ExecuteBlock(blk)
		if e != nil {
			err = e
		} else {
			err = k.Ledger.SubmitBlock(blk, nil, res)
		}
	}
	out = verdict(err, h0, k)
	if out == "reject:unknown" {
		out += ":" + strings.ReplaceAll(trunc(err.Error(), 60), " ", "_")
	}
	mem1, bal1, disk1 := observe(k, true)

	single := true
	for _, n := range seen {
		if n > 1 {
			single = false
		}
	}
	if out == "ok" {
		if single {
			for _, m := range muts {
				if invalidating(m, via, ntx, cur) {
					cls := "accepted-invalid:" + classOf(m)
					if hdrFirst {
						cls += ":header-first"
					}
					return out, "invalid block accepted: mutation " + m + " (" + op + ")", cls
				}
			}
		}
		return out, "", ""
	}
	what := ""
	switch {
	case mem0 != mem1:
		what = "memory: " + mem0 + " -> " + mem1
		class = "rejected-but-changed:memory"
	case bal0 != bal1:
		what = "state: " + bal0 + " -> " + bal1
		class = "rejected-but-changed:state"
	case disk0 != disk1:
		// raw files differ: compare the logical content of all stores (copy taken before the op vs now)
		l0, err := ledgerkit.DumpStores(before)
		must(err)
		l1, err := ledgerkit.Snapshot(k.Dir, filepath.Join(base, "snap"))
		must(err)
		if l0 != l1 {
			what = "stores: " + l0 + " -> " + l1
			class = "rejected-but-changed:stores"
		}
	}
	if what != "" {
		return out, "block not accepted (" + out + ") but the ledger changed: " + what, class + ":" + strings.TrimPrefix(out, "reject:")
	}
	return out, "", ""
}

func classOf(m string) string {
	f := family(m)
	if f == "prev=" || f == "sig=" || f == "keys=" || f == "ts=" {
		return m[:strings.Index(m, "=")+2]
	}
	return strings.TrimSuffix(f, "=")
}

func trunc(s string, n int) string {
	if len(s) > n {
		return s[:n]
	}
	return s
}

func exec(line string) hx.Result {
	setup()
	f := strings.Fields(line)
	if len(f) != 3 || f[0] != "A" {
		return hx.Result{Out: "bad-op"}
	}
	pre, err := strconv.Atoi(f[1])
	if err != nil || pre < 0 || pre > 40 {
		return hx.Result{Out: "bad-op"}
	}
	// The chain of the previous line is reused when it is at least `pre` long and still owned by the genesis bookkeeper
	// (verdicts and the height gain do not depend on the absolute length); otherwise a fresh copy of the template is opened.
	if live != nil && (live.Ledger.GetCurrentBlockHeight() < uint32(pre) || os.Getenv("C39_FRESH") != "") {
		dropLive()
	}
	if live == nil {
		lineNo++
		dir := filepath.Join(base, fmt.Sprintf("l%d", lineNo))
		must(ledgerkit.CopyDir(template(pre), dir))
		var err error
		live, err = ledgerkit.Open(dir, book)
		must(err)
	}
	k := live
	keep := false
	defer func() {
		if !keep {
			dropLive()
		}
	}()
	st := &opState{k: k}
	h0 := k.Ledger.GetCurrentBlockHeight()
	var outs []string
	res := hx.Result{}
	nontrivial := false
	hdrOps := false // header-sync ops leave headers in the in-memory header cache / raise the header height: never reuse that ledger
	for i, op := range strings.Split(f[2], ";") {
		o, fail, class := st.doOp(op)
		if o == "bad-op" {
			return hx.Result{Out: "bad-op"}
		}
		outs = append(outs, o)
		if i == 0 {
			kind := o
			if strings.HasPrefix(op, "H") && len(op) > 3 {
				kind = op[:3] + " " + o
			} else if len(op) > 2 && op != "fork" {
				kind = op[:2] + " " + o
			}
			if j := strings.Index(kind, "unknown:"); j >= 0 {
				kind = kind[:j+7]
			}
			res.Kind = kind
		}
		if o != "ok" {
			nontrivial = true
		}
		if strings.HasPrefix(op, "H") {
			hdrOps = true
		}
		if fail != "" && res.Fail == "" {
			res.Fail, res.Class = fail, class
		}
	}
	own, _ := owner(k)
	tip, _ := k.TipHeader()
	then := addValid(k)
	outs = append(outs, "then:"+then, fmt.Sprintf("h=+%d", k.Ledger.GetCurrentBlockHeight()-h0))
	if then != "ok" && res.Fail == "" && tip.NextBookkeeper == own.Address {
		res.Fail, res.Class = "a valid next block was rejected after the scenario: "+then, "valid-block-rejected:"+strings.TrimPrefix(then, "reject:")
	}
	res.Out = strings.Join(outs, " | ")
	if own2, _ := owner(k); res.Fail == "" && then == "ok" && own2 == book && !hdrOps {
		keep = true
	}
	if nontrivial {
		res.Key = line
	}
	return res
}

var fieldMuts = []string{"h+1", "h+2", "h+7", "h-1", "h-2", "prev=u", "prev=z", "prev=o1", "prev=o2", "prev=f", "ts=e", "ts=l", "ts=z", "ts=+3",
	"broot=f", "broot=z", "troot=f", "sroot=f", "ver=1", "cons=1", "pay=1", "nb=o", "nb=b", "nb=r", "dup", "none"}
var sigMutsAll = []string{"sig=d", "sig=c", "sig=t", "sig=o", "sig=2", "keys=o", "keys=n", "keys=2"}

func genOp(r *hx.Rand) string {
	if r.Chance(6) {
		return "fork"
	}
	via := "obc"[r.Intn(3)]
	if r.Chance(30) {
		via = 'b'
	}
	mode := "rs"[r.Intn(2)]
	if r.Chance(40) {
		mode = 's'
	}
	ntx := r.Intn(3)
	if r.Chance(50) {
		ntx = 1 + r.Intn(2)
	}
	var ms []string
	used := map[string]bool{}
	n := 1
	if r.Chance(25) {
		n = 2
	}
	for len(ms) < n {
		var m string
		if r.Chance(22) {
			m = sigMutsAll[r.Intn(len(sigMutsAll))]
		} else {
			m = fieldMuts[r.Intn(len(fieldMuts))]
		}
		if m == "dup" && (via != 'b' || ntx == 0) { // outside the byte pipeline a duplicated tx is not a checked field
			continue
		}
		if f := family(m); !used[f] && !(f == "dup" && used["troot="]) && !(f == "troot=" && used["dup"]) {
			used[f] = true
			ms = append(ms, m)
		}
	}
	h := ""
	if r.Chance(25) {
		h = "H"
	}
	return fmt.Sprintf("%s%c%c%d:%s", h, via, mode, ntx, strings.Join(ms, ","))
}

func gen(r *hx.Rand, tier string, i int) string {
	n := 1 + r.Intn(4)
	var ops []string
	for j := 0; j < n; j++ {
		ops = append(ops, genOp(r))
	}
	return fmt.Sprintf("A %d %s", 1+r.Intn(3), strings.Join(ops, ";"))
}

func corpus() []string {
	var c []string
	// every single-field mutation, raw and re-signed, as object and as bytes
	for _, via := range []string{"o", "b", "c"} {
		for _, mode := range []string{"r", "s"} {
			var ops []string
			for _, m := range append(append([]string{}, fieldMuts...), sigMutsAll...) {
				if m == "dup" && via != "b" || m == "nb=r" || m == "nb=o" || m == "prev=f" {
					continue
				}
				ops = append(ops, via+mode+"1:"+m)
			}
			c = append(c, "A 3 "+strings.Join(ops, ";"))
		}
	}
	// the block's own valid header is delivered by header sync first; the block then arrives with every signature-side mutation
	// (header hash unchanged) and with hash-changing field mutations, over all three delivery paths
	for _, via := range []string{"o", "b", "c"} {
		for _, m := range append(append([]string{}, sigMutsAll...), "none", "ts=+3", "cons=1", "broot=f", "nb=b", "ts=e") {
			c = append(c, "A 1 H"+via+"r1:"+m)
		}
	}
	c = append(c, "A 1 Hor1:sig=d;Hor1:sig=d;os1:none", "A 1 fork;Hos1:keys=o")
	c = append(c, "A 1 fork;os1:prev=f", "A 1 fork;bs1:prev=f;os1:none", "A 2 fork;cs0:prev=f", "A 1 os1:nb=o;os1:none;or1:keys=o;os1:nb=b",
		"A 1 os1:nb=r;os1:none", "A 2 os0:sroot=f;os2:sroot=f;bs2:dup;bs2:dup,sig=d", "A 1 os1:prev=f", "A 3 os1:h-4;os1:h-3;os1:h+2000000000")
	return c
}

func main() {
	defer func() {
		dropLive()
		if base != "" {
			os.RemoveAll(base)
		}
	}()
	hx.Main(hx.Prop{
		ID: "C39",
		Rule: "scenarios on a fresh real solo ledger (LedgerStoreImp over LevelDB): 1-4 ops, each a valid next block with one or two field mutations " +
			"(26 field + 8 signature mutations), raw or re-signed with the rightful key, delivered as object / as bytes / via ExecuteBlock+SubmitBlock; " +
			"`fork` plants an equivocating signed header in the header cache; an `H` prefix sends the block's own valid signed header through AddHeader first (header sync), so the header cache holds a header with the same hash when the mutated block arrives. Non-trivial = some op was not accepted. kinds = <via><mode> + verdict of the first op",
		Gen:    gen,
		Exec:   exec,
		Corpus: corpus(),
		N:      map[string]int{"quick": 120, "thorough": 3000},
	})
}
