// C14 harness: NeoVM value Serialize / Deserialize / BuildParamToNative / CircularRefAndDepthDetection on values
// built by construction scripts (shared and cyclic references in any slot) and on raw / mutated byte strings.
//
// Line protocol (one self-contained case per line):
//
//	D <script>   run CircularRefAndDepthDetection on the root           -> cyc=<0|1> det=<set of 0/1>
//	S <script>   Serialize the root (+ Deserialize round trip)          -> cyc=<0|1> <set of outcomes>
//	N <script>   BuildParamToNative on the root                         -> cyc=<0|1> <set of outcomes>
//	X <segs>     Deserialize a byte string                               -> ok <tree> rest=<n> | err:<kind>
//
// script: ops separated by ';' (an op that does not apply is a no-op on both sides, so the shrinker may drop ops):
//
//	A | S | M              new array / struct / map (objects are numbered 0,1,2,… in creation order)
//	p<r>,<val>             Append to array/struct r
//	t<r>,<i>,<val>         Data[i] = val of array/struct r
//	k<r>,<keyval>,<val>    map r: Set(key, val)        d<r>,<keyval>  map r: Remove(key)
//	x<r>,<i>               array r: RemoveAt(i)
//	R<val>                 root (default r0)
//	val: i<dec> | b<hex> | z<n> (n zero bytes) | T | F | r<n>
//
// segs: '+'-joined segments: hex | z<n> | r<n>x<hex> (hex repeated n times).
//
// Where the code iterates a Go map the outcome may depend on the iteration order; such a query is repeated and the
// SET of observed outcomes is printed (sorted, '|'-joined). The Lean model prints every set that is possible.
package main

import (
	"bufio"
	"encoding/json"
	"fmt"
	"io"
	"math/big"
	"os"
	"os/exec"
	"runtime/debug"
	"sort"
	"strconv"
	"strings"
	"time"

	"github.com/ontio/ontology/common"
	"github.com/ontio/ontology/vm/neovm/errors"
	"github.com/ontio/ontology/vm/neovm/types"
	"verif/harness/internal/hx"
)

// ---------------------------------------------------------------- script interpreter (real objects)

type env struct {
	objs []types.VmValue
	root *types.VmValue
}

var maxMag = new(big.Int).Lsh(big.NewInt(1), 256)

func (e *env) val(s string) (types.VmValue, bool) {
	if s == "" {
		return types.VmValue{}, false
	}
	switch s[0] {
	case 'i':
		z, ok := new(big.Int).SetString(s[1:], 10)
		if !ok || new(big.Int).Abs(z).Cmp(maxMag) >= 0 {
			return types.VmValue{}, false
		}
		v, err := types.VmValueFromBigInt(z)
		return v, err == nil
	case 'b':
		b, err := hx.Unhex(s[1:])
		if err != nil {
			return types.VmValue{}, false
		}
		v, err := types.VmValueFromBytes(b)
		return v, err == nil
	case 'z':
		n, err := strconv.Atoi(s[1:])
		if err != nil || n < 0 || n > 1<<20 {
			return types.VmValue{}, false
		}
		v, err := types.VmValueFromBytes(make([]byte, n))
		return v, err == nil
	case 'T':
		return types.VmValueFromBool(true), len(s) == 1
	case 'F':
		return types.VmValueFromBool(false), len(s) == 1
	case 'r':
		n, err := strconv.Atoi(s[1:])
		if err != nil || n < 0 || n >= len(e.objs) {
			return types.VmValue{}, false
		}
		return e.objs[n], true
	}
	return types.VmValue{}, false
}

func (e *env) obj(s string) (types.VmValue, bool) {
	n, err := strconv.Atoi(s)
	if err != nil || n < 0 || n >= len(e.objs) {
		return types.VmValue{}, false
	}
	return e.objs[n], true
}

func (e *env) op(op string) {
	if op == "" || op == "-" {
		return
	}
	switch op {
	case "A":
		e.objs = append(e.objs, types.VmValueFromArrayVal(types.NewArrayValue()))
		return
	case "S":
		e.objs = append(e.objs, types.VmValueFromStructVal(types.NewStructValue()))
		return
	case "M":
		e.objs = append(e.objs, types.NewMapVmValue())
		return
	}
	f := strings.Split(op[1:], ",")
	switch op[0] {
	case 'R':
		if v, ok := e.val(op[1:]); ok {
			e.root = &v
		}
	case 'p':
		if len(f) != 2 {
			return
		}
		o, ok := e.obj(f[0])
		v, ok2 := e.val(f[1])
		if !ok || !ok2 {
			return
		}
		if a, err := o.AsArrayValue(); err == nil {
			a.Append(v)
		} else if s, err := o.AsStructValue(); err == nil {
			s.Append(v)
		}
	case 't':
		if len(f) != 3 {
			return
		}
		o, ok := e.obj(f[0])
		i, err := strconv.Atoi(f[1])
		v, ok2 := e.val(f[2])
		if !ok || !ok2 || err != nil || i < 0 {
			return
		}
		if a, err := o.AsArrayValue(); err == nil {
			if i < len(a.Data) {
				a.Data[i] = v
			}
		} else if s, err := o.AsStructValue(); err == nil {
			if i < len(s.Data) {
				s.Data[i] = v
			}
		}
	case 'k':
		if len(f) != 3 {
			return
		}
		o, ok := e.obj(f[0])
		k, ok1 := e.val(f[1])
		v, ok2 := e.val(f[2])
		if !ok || !ok1 || !ok2 {
			return
		}
		if m, err := o.AsMapValue(); err == nil {
			m.Set(k, v) // error (container key) = no-op
		}
	case 'd':
		if len(f) != 2 {
			return
		}
		o, ok := e.obj(f[0])
		k, ok1 := e.val(f[1])
		if !ok || !ok1 {
			return
		}
		if m, err := o.AsMapValue(); err == nil {
			m.Remove(k)
		}
	case 'x':
		if len(f) != 2 {
			return
		}
		o, ok := e.obj(f[0])
		i, err := strconv.Atoi(f[1])
		if !ok || err != nil {
			return
		}
		if a, err := o.AsArrayValue(); err == nil {
			a.RemoveAt(int64(i))
		}
	}
}

func build(script string) types.VmValue {
	e := &env{}
	for _, op := range strings.Split(script, ";") {
		e.op(op)
	}
	if e.root != nil {
		return *e.root
	}
	if len(e.objs) > 0 {
		return e.objs[0]
	}
	return types.VmValueFromInt64(0)
}

// ---------------------------------------------------------------- analysis of the real object graph

type gedge struct {
	to   int // node index, -1 = leaf
	slot int // element index (array/struct) or rank of the key (map)
}
type gnode struct {
	kind byte
	n    int // number of elements / entries
	kids []gedge
	id   interface{}     // *ArrayValue / *StructValue / *MapValue
	leaf []bool          // kids[i] is a leaf
	keys []types.VmValue // map: key values in sorted order
}
type graph struct {
	nodes []gnode
	root  int // -1: the root is a leaf
}

func sortedKeys(m *types.MapValue) []string {
	ks := make([]string, 0, len(m.Data))
	for k := range m.Data {
		ks = append(ks, k)
	}
	sort.Strings(ks)
	return ks
}

func graphOf(root types.VmValue) *graph {
	g := &graph{}
	ids := map[interface{}]int{}
	var visit func(v types.VmValue) int
	visit = func(v types.VmValue) int {
		var key interface{}
		var kids, mkeys []types.VmValue
		switch v.GetType() {
		case types.ArrayType:
			a, _ := v.AsArrayValue()
			key, kids = a, a.Data
		case types.StructType:
			s, _ := v.AsStructValue()
			key, kids = s, s.Data
		case types.MapType:
			m, _ := v.AsMapValue()
			key = m
			for _, k := range sortedKeys(m) {
				kids = append(kids, m.Data[k][1])
				mkeys = append(mkeys, m.Data[k][0])
			}
		default:
			return -1
		}
		if id, ok := ids[key]; ok {
			return id
		}
		id := len(g.nodes)
		ids[key] = id
		g.nodes = append(g.nodes, gnode{kind: v.GetType(), n: len(kids), id: key, keys: mkeys})
		es := make([]gedge, len(kids))
		lf := make([]bool, len(kids))
		for i, k := range kids {
			es[i] = gedge{to: visit(k), slot: i}
			lf[i] = es[i].to < 0
		}
		g.nodes[id].kids = es
		g.nodes[id].leaf = lf
		return id
	}
	g.root = visit(root)
	return g
}

// certain: the shipped detector certainly follows this edge (first element; the only entry of a map)
func (g *graph) certain(u int, e gedge) bool {
	if g.nodes[u].kind == types.MapType {
		return g.nodes[u].n == 1
	}
	return e.slot == 0
}

// firstCycle: the first cycle met by a depth-first walk in Serialize order. Returns the edges of the cycle.
type cedge struct {
	from int
	e    gedge
}

func (g *graph) firstCycle() []cedge {
	if g.root < 0 {
		return nil
	}
	color := make([]int, len(g.nodes))
	var path []cedge
	var found []cedge
	var dfs func(u int) bool
	dfs = func(u int) bool {
		color[u] = 1
		for _, e := range g.nodes[u].kids {
			if e.to < 0 {
				continue
			}
			if color[e.to] == 1 {
				// cycle: from e.to down the path to u, then e
				i := 0
				for i < len(path) && path[i].from != e.to {
					i++
				}
				found = append(append([]cedge{}, path[i:]...), cedge{u, e})
				return true
			}
			if color[e.to] == 0 {
				path = append(path, cedge{u, e})
				if dfs(e.to) {
					return true
				}
				path = path[:len(path)-1]
			}
		}
		color[u] = 2
		return false
	}
	dfs(g.root)
	return found
}

func (g *graph) multiMap() bool {
	for _, n := range g.nodes {
		if n.kind == types.MapType && n.n >= 2 {
			return true
		}
	}
	return false
}

// depth: longest chain of nested containers (acyclic graphs only): leaf root = 0, empty container = 1
func (g *graph) depth() int {
	memo := make([]int, len(g.nodes))
	var d func(u int) int
	d = func(u int) int {
		if u < 0 {
			return 0
		}
		if memo[u] > 0 {
			return memo[u]
		}
		m := 0
		for _, e := range g.nodes[u].kids {
			if x := d(e.to); x > m {
				m = x
			}
		}
		memo[u] = m + 1
		return m + 1
	}
	return d(g.root)
}

// shape class of an undetected cycle
func (g *graph) cycleClass(cyc []cedge) string {
	pos, mp := false, false
	for _, c := range cyc {
		if g.certain(c.from, c.e) {
			continue
		}
		if g.nodes[c.from].kind == types.MapType {
			mp = true
		} else {
			pos = true
		}
	}
	switch {
	case pos:
		return "cycle-back-edge-position>0"
	case mp:
		return "map-branch-order"
	}
	return "cycle-on-first-element-chain"
}

// canonical text of an acyclic value (ints by value, map entries by sorted key)
func canon(v types.VmValue, sb *strings.Builder, depth int) {
	if depth > 3000 {
		sb.WriteString("#deep")
		return
	}
	switch v.GetType() {
	case types.ByteArrayType:
		b, _ := v.AsBytes()
		if len(b) > 64 {
			sb.WriteString(fmt.Sprintf("B%d.%d", len(b), adler(b)))
		} else {
			sb.WriteString("b" + hx.Hex(b))
		}
	case types.BooleanType:
		b, _ := v.AsBool()
		if b {
			sb.WriteString("T")
		} else {
			sb.WriteString("F")
		}
	case types.IntegerType:
		z, _ := v.AsBigInt()
		sb.WriteString("i" + z.String())
	case types.ArrayType:
		a, _ := v.AsArrayValue()
		sb.WriteString("[")
		for i, x := range a.Data {
			if i > 0 {
				sb.WriteString(",")
			}
			canon(x, sb, depth+1)
		}
		sb.WriteString("]")
	case types.StructType:
		a, _ := v.AsStructValue()
		sb.WriteString("{")
		for i, x := range a.Data {
			if i > 0 {
				sb.WriteString(",")
			}
			canon(x, sb, depth+1)
		}
		sb.WriteString("}")
	case types.MapType:
		m, _ := v.AsMapValue()
		sb.WriteString("<")
		for i, k := range sortedKeys(m) {
			if i > 0 {
				sb.WriteString(",")
			}
			kv := m.Data[k]
			canon(kv[0], sb, depth+1)
			sb.WriteString(":")
			canon(kv[1], sb, depth+1)
		}
		sb.WriteString(">")
	default:
		sb.WriteString("?")
	}
}

func canonS(v types.VmValue) string {
	var sb strings.Builder
	canon(v, &sb, 0)
	return sb.String()
}

// ---------------------------------------------------------------- outcomes

func adler(b []byte) uint32 {
	var a, s uint32 = 1, 0
	for _, x := range b {
		a = (a + uint32(x)) % 65521
		s = (s + a) % 65521
	}
	return s<<16 | a
}

func bytesOut(b []byte) string {
	if len(b) <= 512 {
		return "ok:" + hx.Hex(b)
	}
	return fmt.Sprintf("ok:len=%d,adler=%d", len(b), adler(b))
}

func serErr(err error) string {
	s := err.Error()
	switch {
	case strings.Contains(s, "circular"):
		return "err:cycle"
	case strings.Contains(s, "over the uplimit"):
		return "err:size"
	case err == errors.ERR_BAD_TYPE:
		return "err:badtype"
	}
	return "err:other"
}

func runSer(v types.VmValue) (string, []byte) {
	sink := common.NewZeroCopySink(nil)
	if err := v.Serialize(sink); err != nil {
		return serErr(err), nil
	}
	return bytesOut(sink.Bytes()), sink.Bytes()
}

func runNat(v types.VmValue) string {
	sink := common.NewZeroCopySink(nil)
	if err := v.BuildParamToNative(sink); err != nil {
		return serErr(err)
	}
	return bytesOut(sink.Bytes())
}

func desErr(err error) string {
	switch {
	case err == io.ErrUnexpectedEOF:
		return "err:eof"
	case err == common.ErrIrregularData:
		return "err:irregular"
	case err == errors.ERR_BAD_TYPE:
		return "err:badtype"
	case err == errors.ERR_OVER_MAX_ITEM_SIZE:
		return "err:itemsize"
	case err == errors.ERR_OVER_MAX_BIGINTEGER_SIZE:
		return "err:bigint"
	case err == errors.ERR_OVER_MAX_ARRAY_SIZE:
		return "err:arraysize"
	case strings.Contains(err.Error(), "depth over"):
		return "err:depth"
	}
	return "err:other"
}

func setStr(m map[string]bool) string {
	ks := make([]string, 0, len(m))
	for k := range m {
		ks = append(ks, k)
	}
	sort.Strings(ks)
	return strings.Join(ks, "|")
}

// ---------------------------------------------------------------- grandchild: a call that may never return

type sub struct {
	cmd *exec.Cmd
	in  io.WriteCloser
	out *bufio.Reader
}

var theSub *sub

func subKill() {
	if theSub != nil {
		theSub.in.Close()
		theSub.cmd.Process.Kill()
		theSub.cmd.Wait()
		theSub = nil
	}
}

// risky runs one real call ("!S script" / "!N script") in a separate process; a dead process is the outcome "crash".
func risky(q, script string) string {
	if theSub == nil {
		cmd := exec.Command(os.Args[0], "-child")
		cmd.Env = append(os.Environ(), "GOMEMLIMIT=2GiB", "GOTRACEBACK=none", "C14_SUB=1")
		in, _ := cmd.StdinPipe()
		outp, _ := cmd.StdoutPipe()
		if err := cmd.Start(); err != nil {
			return "err:spawn"
		}
		theSub = &sub{cmd, in, bufio.NewReaderSize(outp, 1<<20)}
	}
	s := theSub
	type ans struct {
		s   string
		err error
	}
	done := make(chan ans, 1)
	go func() {
		if _, err := io.WriteString(s.in, "!"+q+" "+script+"\n"); err != nil {
			done <- ans{"", err}
			return
		}
		l, err := s.out.ReadString('\n')
		done <- ans{l, err}
	}()
	select {
	case a := <-done:
		if a.err != nil || a.s == "" {
			subKill()
			return "crash"
		}
		var r hx.Result
		if json.Unmarshal([]byte(a.s), &r) != nil {
			subKill()
			return "crash"
		}
		return r.Out
	case <-time.After(15 * time.Second):
		subKill()
		return "timeout"
	}
}

// ---------------------------------------------------------------- Exec

func execValue(q, script string) hx.Result {
	v := build(script)
	g := graphOf(v)
	cycle := g.firstCycle()
	cyc := len(cycle) > 0
	multi := g.multiMap()
	res := hx.Result{Key: q + " " + script}
	head := "cyc=" + hx.B(cyc) + " "
	kind := q
	if cyc {
		kind += "-cyclic"
	} else {
		kind += "-acyclic"
	}
	if multi {
		kind += "-multimap"
	}
	depth := 0
	if !cyc {
		depth = g.depth()
	}
	set := map[string]bool{}
	switch q {
	case "D":
		reps := 1
		if multi {
			reps = 64
		}
		for i := 0; i < reps; i++ {
			b, err := v.CircularRefAndDepthDetection()
			if err != nil {
				set["e"] = true
			} else {
				set[hx.B(b)] = true
			}
		}
		ks := setStr(set)
		res.Out = head + "det=" + strings.ReplaceAll(ks, "|", "")
		res.Kind = kind + "-det" + strings.ReplaceAll(ks, "|", "")
		if !cyc && depth <= 10 && set["1"] {
			res.Fail, res.Class = "acyclic value of nesting depth "+strconv.Itoa(depth)+" reported as circular/too deep", "acyclic-rejected"
		}
		return res
	case "S", "N":
		reps := 1
		if multi {
			reps = 32
			if cyc { // an unrolled cycle writes 1 MB per run; a diverging BuildParamToNative costs a process
				reps = 4
			}
		}
		var okBytes []byte
		t0 := time.Now()
		for i := 0; i < reps; i++ {
			var o string
			if cyc && q == "N" {
				o = risky(q, script)
			} else if cyc && q == "S" && g.cycleClass(cycle) == "cycle-on-first-element-chain" {
				// the shipped detector rejects this at once; a tree that does not would unroll ~5*10^5 calls (seconds per
				// case, hours per run): run it with a small stack in the grandchild, where that is a quick "crash"
				o = risky("s", script)
			} else if q == "S" {
				var b []byte
				o, b = runSer(v)
				if b != nil {
					okBytes = b
				}
			} else {
				o = runNat(v)
			}
			set[o] = true
			if time.Since(t0) > 1500*time.Millisecond && i >= 3 {
				break
			}
		}
		ks := setStr(set)
		res.Out = head + ks
		kk := ks
		if i := strings.Index(kk, ":len="); i >= 0 {
			kk = "ok"
		}
		if strings.HasPrefix(kk, "ok:") {
			kk = "ok"
		}
		kk = strings.ReplaceAll(kk, "|ok:", "|ok")
		if j := strings.Index(kk, "|ok"); j >= 0 {
			kk = kk[:j+3]
		}
		res.Kind = kind + "-" + kk
		// ---- property predicate on the implementation's own outputs
		if cyc {
			bad := false
			for o := range set {
				// BuildParamToNative rejects every map with ERR_BAD_TYPE before descending into it: also a prompt rejection
				if o != "err:cycle" && !(q == "N" && o == "err:badtype") {
					bad = true
				}
			}
			if bad {
				res.Fail = "a value with a reachable reference cycle is not (always) rejected as circular: outcomes " + trunc(ks, 80)
				res.Class = g.cycleClass(cycle)
				if q == "N" && (set["crash"] || set["timeout"]) {
					// repaired in 060d8e9c (on-path set in BuildParamToNative): seeing it again is a regression, not the known detector finding
					res.Class = "native-marshal-diverges"
				}
			}
			return res
		}
		if len(set) > 1 {
			res.Fail = "outcome depends on the run (Go map iteration order): " + trunc(ks, 120)
			if len(set) == 2 && set["err:cycle"] && multi {
				res.Class = "map-branch-order"
			} else {
				res.Class = "serialize-nondeterministic"
			}
			return res
		}
		if set["err:cycle"] && depth <= 10 {
			res.Fail, res.Class = "acyclic value of nesting depth "+strconv.Itoa(depth)+" rejected as circular", "acyclic-rejected"
			return res
		}
		if q == "S" && okBytes != nil {
			var back types.VmValue
			src := common.NewZeroCopySource(okBytes)
			err := back.Deserialize(src)
			switch {
			case err != nil && depth <= 1025:
				res.Fail, res.Class = "serialized value does not deserialize: "+desErr(err), "roundtrip-mismatch"
			case err == nil && src.Len() != 0:
				res.Fail, res.Class = "trailing bytes after round trip", "roundtrip-mismatch"
			case err == nil && canonS(back) != canonS(v):
				res.Fail, res.Class = "round trip gives a different value: "+trunc(canonS(back), 60)+" vs "+trunc(canonS(v), 60), "roundtrip-mismatch"
			}
		}
		return res
	}
	return hx.Result{Out: "bad-op"}
}

func trunc(s string, n int) string {
	if len(s) > n {
		return s[:n] + "…"
	}
	return s
}

func parseSegs(s string) ([]byte, bool) {
	var out []byte
	if s == "-" {
		return out, true
	}
	for _, seg := range strings.Split(s, "+") {
		switch {
		case strings.HasPrefix(seg, "z"):
			n, err := strconv.Atoi(seg[1:])
			if err != nil || n < 0 || n > 1<<22 {
				return nil, false
			}
			out = append(out, make([]byte, n)...)
		case strings.HasPrefix(seg, "r"):
			p := strings.SplitN(seg[1:], "x", 2)
			if len(p) != 2 {
				return nil, false
			}
			n, err := strconv.Atoi(p[0])
			b, err2 := hx.Unhex(p[1])
			if err != nil || err2 != nil || n < 0 || n*len(b) > 1<<22 {
				return nil, false
			}
			for i := 0; i < n; i++ {
				out = append(out, b...)
			}
		default:
			b, err := hx.Unhex(seg)
			if err != nil {
				return nil, false
			}
			out = append(out, b...)
		}
	}
	return out, true
}

func execBytes(segs string) hx.Result {
	bs, ok := parseSegs(segs)
	if !ok {
		return hx.Result{Out: "bad-op"}
	}
	var v types.VmValue
	src := common.NewZeroCopySource(bs)
	err := v.Deserialize(src)
	res := hx.Result{Key: "X " + segs}
	if err != nil {
		res.Out = desErr(err)
		res.Kind = "X-" + res.Out
		return res
	}
	c := canonS(v)
	res.Out = fmt.Sprintf("ok %s rest=%d", c, src.Len())
	res.Kind = "X-ok"
	// predicate: a decoded value is a tree; if it serializes, it round-trips
	o, b := runSer(v)
	if b != nil {
		var back types.VmValue
		if err := back.Deserialize(common.NewZeroCopySource(b)); err != nil || canonS(back) != c {
			res.Fail, res.Class = "decoded value does not survive serialize/deserialize", "roundtrip-mismatch"
		}
		res.Kind = "X-ok-reser"
	} else {
		res.Kind = "X-ok-" + o
	}
	return res
}

func execLine(line string) hx.Result {
	f := strings.Fields(line)
	if len(f) != 2 {
		return hx.Result{Out: "bad-op"}
	}
	switch f[0] {
	case "!S": // grandchild: one real call
		debug.SetMaxStack(512 << 20)
		o, _ := runSer(build(f[1]))
		return hx.Result{Out: o}
	case "!s": // same with a small stack: dies quickly instead of unrolling ~5*10^5 levels
		debug.SetMaxStack(8 << 20)
		o, _ := runSer(build(f[1]))
		return hx.Result{Out: o}
	case "!N":
		debug.SetMaxStack(2 << 20) // nothing legitimate nests that deep (acyclic values of the harness have < 100 objects): die quickly
		return hx.Result{Out: runNat(build(f[1]))}
	case "D", "S", "N":
		return execValue(f[0], f[1])
	case "X":
		return execBytes(f[1])
	}
	return hx.Result{Out: "bad-op"}
}

// ---------------------------------------------------------------- generator

var intPool = []string{"0", "1", "-1", "2", "127", "128", "-128", "-129", "255", "256", "-255", "-256", "32767", "32768", "-32768", "65535",
	"9223372036854775807", "9223372036854775808", "-9223372036854775808", "-9223372036854775809", "18446744073709551615",
	"57896044618658097711785492504343953926634992332820282019728792003956564819967",
	"-57896044618658097711785492504343953926634992332820282019728792003956564819968",
	"115792089237316195423570985008687907853269984665640564039457584007913129639935",
	"-115792089237316195423570985008687907853269984665640564039457584007913129639935"}

func genLeaf(r *hx.Rand) string {
	switch r.Intn(8) {
	case 0, 1:
		return "i" + intPool[r.Intn(len(intPool))]
	case 2:
		return "i" + strconv.Itoa(r.Intn(2000)-1000)
	case 3:
		return "b" + hx.Hex(r.Bytes(r.Intn(6)))
	case 4:
		return []string{"T", "F"}[r.Intn(2)]
	case 5:
		return "b" + hx.Hex(r.Bytes([]int{0, 1, 0xfc, 0xfd, 0xfe, 40}[r.Intn(6)]))
	case 6:
		return "i" + strconv.Itoa(r.Intn(3))
	default:
		return "b" + hx.Hex([]byte{byte(r.Intn(3))})
	}
}

func genKey(r *hx.Rand) string {
	// keys that collide as strings across types: int 1 / bytes 01 / bool T
	return []string{"i0", "i1", "b01", "T", "F", "b00", "b-", "i2", "b0102", "b02", "i-1", "bff", "i255", "i256", "b0001"}[r.Intn(15)]
}

// genScript: random object graph. mode biases: 0 free, 1 cycle at position>0, 2 first-position cycle, 3 map branch
// (entries of different depth / cyclicity), 4 deep first-element chain around MAX_STRUCT_DEPTH, 5 DAG sharing
func genScript(r *hx.Rand, mode int) string {
	var ops []string
	kinds := []byte{}
	newObj := func(k byte) int {
		ops = append(ops, string(k))
		kinds = append(kinds, k)
		return len(kinds) - 1
	}
	anyKind := func() byte { return "AAAASSM"[r.Intn(7)] }
	put := func(o int, v string) {
		if kinds[o] == 'M' {
			ops = append(ops, fmt.Sprintf("k%d,%s,%s", o, genKey(r), v))
		} else {
			ops = append(ops, fmt.Sprintf("p%d,%s", o, v))
		}
	}
	ref := func(o int) string { return "r" + strconv.Itoa(o) }
	switch mode {
	case 1: // ring of k containers, back edge at a position > 0
		k := 1 + r.Intn(3)
		first := len(kinds)
		for i := 0; i < k; i++ {
			newObj("AAS"[r.Intn(3)])
		}
		for i := 0; i < k; i++ {
			o := first + i
			pre := 1 + r.Intn(2)
			if i > 0 && r.Chance(50) {
				pre = 0
			}
			if i == 0 {
				pre = 1 + r.Intn(2)
			}
			for j := 0; j < pre; j++ {
				put(o, genLeaf(r))
			}
			put(o, ref(first+(i+1)%k))
			if r.Chance(30) {
				put(o, genLeaf(r))
			}
		}
		if r.Chance(40) { // hang the ring under a wrapper
			w := newObj(anyKind())
			put(w, genLeaf(r))
			put(w, ref(first))
			ops = append(ops, "R"+ref(w))
		} else {
			ops = append(ops, "R"+ref(first+r.Intn(k)))
		}
	case 2: // ring through first elements / single-entry maps
		k := 1 + r.Intn(3)
		first := len(kinds)
		for i := 0; i < k; i++ {
			newObj(anyKind())
		}
		for i := 0; i < k; i++ {
			put(first+i, ref(first+(i+1)%k))
			if kinds[first+i] != 'M' && r.Chance(40) {
				put(first+i, genLeaf(r))
			}
		}
		if r.Chance(50) {
			w := newObj('A')
			for j := 0; j < r.Intn(3); j++ {
				put(w, genLeaf(r))
			}
			put(w, ref(first))
			ops = append(ops, "R"+ref(w))
		}
	case 3: // a map with >= 2 entries whose values differ in depth / cyclicity
		m := newObj('M')
		n := 2 + r.Intn(3)
		keys := []string{"i0", "i1", "b02", "T", "b0102", "bff"}
		special := 1 + r.Intn(n-1) // mostly not under the smallest key (nothing can be written before that entry)
		if r.Chance(8) {
			special = 0
		}
		for i := 0; i < n; i++ {
			var v string
			if i == special {
				switch r.Intn(3) {
				case 0: // cycle back to the map
					if r.Chance(50) {
						v = ref(m)
					} else {
						a := newObj('A')
						put(a, ref(m))
						v = ref(a)
					}
				case 1: // chain nested 9..11 deep below the entry
					d := 9 + r.Intn(3)
					prev := ""
					for j := 0; j < d; j++ {
						a := newObj("AS"[r.Intn(2)])
						if prev != "" {
							put(a, prev)
						} else if r.Chance(50) {
							put(a, genLeaf(r))
						}
						prev = ref(a)
					}
					v = prev
				default:
					a := newObj('A')
					put(a, genLeaf(r))
					put(a, ref(m))
					v = ref(a)
				}
			} else {
				v = genLeaf(r)
			}
			ops = append(ops, fmt.Sprintf("k%d,%s,%s", m, keys[i], v))
		}
		switch r.Intn(3) {
		case 0:
			w := newObj("AS"[r.Intn(2)])
			put(w, ref(m))
			ops = append(ops, "R"+ref(w))
		case 1:
			w := newObj('A')
			put(w, genLeaf(r))
			put(w, ref(m))
			ops = append(ops, "R"+ref(w))
		default:
			ops = append(ops, "R"+ref(m))
		}
	case 4: // chain of d containers, linked through element 0 or element 1
		d := 8 + r.Intn(6)
		viaFirst := r.Chance(60)
		prev := ""
		if r.Chance(50) {
			prev = genLeaf(r)
		}
		for j := 0; j < d; j++ {
			a := newObj("AASM"[r.Intn(4)])
			if kinds[a] != 'M' && !viaFirst {
				put(a, genLeaf(r))
			}
			if prev != "" {
				put(a, prev)
			}
			prev = ref(a)
		}
		ops = append(ops, "R"+prev)
	case 5: // DAG: layers sharing the layer below
		layers := 2 + r.Intn(4)
		below := []int{}
		for l := 0; l < layers; l++ {
			w := 1 + r.Intn(2)
			cur := []int{}
			for i := 0; i < w; i++ {
				o := newObj(anyKind())
				cur = append(cur, o)
				if len(below) == 0 {
					for j := 0; j < r.Intn(3); j++ {
						put(o, genLeaf(r))
					}
				} else {
					for j := 0; j < 1+r.Intn(3); j++ {
						put(o, ref(below[r.Intn(len(below))]))
					}
				}
			}
			below = cur
		}
		ops = append(ops, "R"+ref(below[0]))
	default:
		n := 1 + r.Intn(5)
		for i := 0; i < n; i++ {
			newObj(anyKind())
		}
		m := r.Intn(12)
		for i := 0; i < m; i++ {
			o := r.Intn(n)
			var v string
			if r.Chance(45) {
				v = ref(r.Intn(n))
			} else {
				v = genLeaf(r)
			}
			switch {
			case r.Chance(12) && kinds[o] != 'M':
				ops = append(ops, fmt.Sprintf("t%d,%d,%s", o, r.Intn(3), v))
			case r.Chance(5) && kinds[o] == 'M':
				ops = append(ops, fmt.Sprintf("d%d,%s", o, genKey(r)))
			case r.Chance(4) && kinds[o] == 'A':
				ops = append(ops, fmt.Sprintf("x%d,%d", o, r.Intn(3)))
			default:
				put(o, v)
			}
		}
		if r.Chance(50) {
			ops = append(ops, "R"+ref(r.Intn(n)))
		}
	}
	return strings.Join(ops, ";")
}

// fatten: Serialize unrolls an undetected cycle until the 1 MB limit; with a few bytes per round that is ~10^5 nested
// calls (seconds). Replace a leaf that is written before a cycle edge (same container, smaller slot) by a large byte
// string, so the unrolling stops after a few dozen rounds. First-element chains keep their shape (a leaf stays a leaf).
func fatten(r *hx.Rand, script string) string {
	e := &env{}
	for _, op := range strings.Split(script, ";") {
		e.op(op)
	}
	var root types.VmValue
	switch {
	case e.root != nil:
		root = *e.root
	case len(e.objs) > 0:
		root = e.objs[0]
	default:
		return script
	}
	g := graphOf(root)
	cyc := g.firstCycle()
	if len(cyc) == 0 {
		return script
	}
	objNo := func(id interface{}) int {
		for i, o := range e.objs {
			var p interface{}
			switch o.GetType() {
			case types.ArrayType:
				p, _ = o.AsArrayValue()
			case types.StructType:
				p, _ = o.AsStructValue()
			case types.MapType:
				p, _ = o.AsMapValue()
			}
			if p == id {
				return i
			}
		}
		return -1
	}
	fat := fmt.Sprintf("z%d", 8192<<uint(r.Intn(3)))
	for _, c := range cyc {
		n := g.nodes[c.from]
		o := objNo(n.id)
		if o < 0 {
			continue
		}
		if n.kind == types.MapType && n.n >= 2 && c.e.slot == 0 {
			// the cycle leaves the map through its smallest key: put a fat entry under the empty key in front of it
			if kb, _ := n.keys[0].AsBytes(); len(kb) > 0 {
				return script + fmt.Sprintf(";k%d,b-,%s", o, fat)
			}
		}
		for j := 0; j < c.e.slot; j++ {
			if !n.leaf[j] {
				continue
			}
			if n.kind == types.MapType {
				return script + fmt.Sprintf(";k%d,%s,%s", o, leafToken(n.keys[j]), fat)
			}
			return script + fmt.Sprintf(";t%d,%d,%s", o, j, fat)
		}
	}
	return script
}

func leafToken(v types.VmValue) string {
	switch v.GetType() {
	case types.BooleanType:
		if b, _ := v.AsBool(); b {
			return "T"
		}
		return "F"
	case types.IntegerType:
		z, _ := v.AsBigInt()
		return "i" + z.String()
	}
	b, _ := v.AsBytes()
	return "b" + hx.Hex(b)
}

// valid encoding of a random acyclic value, then mutated
func genBytes(r *hx.Rand) string {
	var b []byte
	for try := 0; try < 20; try++ {
		v := build(genScript(r, []int{0, 4, 5, 3}[r.Intn(4)]))
		if len(graphOf(v).firstCycle()) > 0 {
			continue
		}
		_, bb := runSer(v)
		if bb != nil && len(bb) < 400 {
			b = bb
			break
		}
	}
	if b == nil {
		b = []byte{0x80, 0x01, 0x02, 0x01, 0x05}
	}
	b = append([]byte{}, b...)
	switch r.Intn(10) {
	case 0: // as is (+ tail)
		b = append(b, r.Bytes(r.Intn(3))...)
	case 1: // truncate
		b = b[:r.Intn(len(b)+1)]
	case 2, 3: // flip a byte
		if len(b) > 0 {
			b[r.Intn(len(b))] = byte(r.U64())
		}
	case 4: // type tag mutation
		if len(b) > 0 {
			b[r.Intn(len(b))] = []byte{0, 1, 2, 3, 0x40, 0x80, 0x81, 0x82, 0xfd, 0xff}[r.Intn(10)]
		}
	case 5: // insert a non-minimal / huge var-uint after a container tag
		for i, x := range b {
			if x >= 0x80 && x <= 0x82 && i+1 < len(b) {
				ins := [][]byte{{0xfd, b[i+1], 0}, {0xfe, b[i+1], 0, 0, 0}, {0xff, 0, 0, 0, 0, 0, 0, 0, 0x80}, {0xff, 0xff, 0xff, 0xff, 0xff, 0xff, 0xff, 0xff, 0xff}, {0xfd, 0x01, 0x04}}[r.Intn(5)]
				b = append(append(append([]byte{}, b[:i+1]...), ins...), b[i+2:]...)
				break
			}
		}
	case 6:
		b = r.Bytes(r.Intn(12))
	case 7: // bool 2 / int with a long encoding
		b = [][]byte{{1, 2}, {1, 0}, {1}, {2, 2, 0xff, 0xff}, {2, 3, 0, 0, 0}, {0, 0xfd, 3, 0, 1, 2, 3}, {0, 3, 1, 2}}[r.Intn(7)]
	default:
	}
	return "X " + hx.Hex(b)
}

func gen(r *hx.Rand, tier string, i int) string {
	c := r.Intn(100)
	if c < 22 {
		return genBytes(r)
	}
	mode := []int{0, 0, 0, 0, 1, 1, 1, 1, 1, 1, 2, 3, 3, 3, 3, 3, 3, 4, 4, 4, 4, 5, 5, 0}[r.Intn(24)] // first-position rings (2) are rare: a tree that misses them unrolls each for seconds
	raw := genScript(r, mode)
	q := []string{"S", "S", "S", "D", "D", "N"}[r.Intn(6)]
	if q == "N" {
		// BuildParamToNative has no size limit: if it ever recursed into a cycle again a fat value would fill the memory
		// before the stack; keep the value thin (a reversion dies by stack overflow in the grandchild, ~0.3 s)
		return "N " + raw
	}
	return q + " " + fatten(r, raw)
}

func nest(tag string, n int, inner string) string {
	return fmt.Sprintf("r%dx%s01+%s", n, tag, inner)
}

func main() {
	p := hx.Prop{
		ID:      "C14",
		Rule:    "values built by construction scripts on the real ArrayValue/StructValue/MapValue objects (rings with the back edge at element 0 or >0, rings through single-/multi-entry maps, first-element chains of 8..13 containers, DAGs with shared layers, free random graphs) queried by D(etect)/S(erialize+round trip)/N(BuildParamToNative); byte strings = valid encodings mutated (truncation, byte flips, tag swaps, non-minimal/huge counts, bool 2, long ints) + boundary corpus. Non-trivial = distinct line; kinds = query x cyclic x multi-entry-map x outcome",
		Gen:     gen,
		Exec:    execLine,
		Isolate: true,
		Timeout: 40 * time.Second,
		Init:    func() { debug.SetMaxStack(1 << 30) }, // Go's default: an unrolled cycle (~260k nested Serialize calls, < 512 MB) returns err:size as in the node
		Corpus: []string{
			// the witness a=[1,a]: detector says "fine", Serialize unrolls ~210k levels until the size limit, BuildParamToNative never returns
			"D A;p0,i1;p0,r0", "S A;p0,i1;p0,r0", "N A;p0,i1;p0,r0",
			"S A;p0,r0", "N A;p0,r0", "D A;p0,r0",
			"S A;A;p0,i1;p0,r1;p1,r0", "S S;p0,b-;p0,r0", "N S;p0,T;p0,r0",
			// map branch: {0: 0, 1: m}  and  {0:0, 1:<10 nested arrays>}
			"D M;k0,i0,i0;k0,i1,r0", "S M;k0,i0,i0;k0,i1,r0;k0,i2,z65536", "N M;k0,i0,i0;k0,i1,r0",
			"D M;A;A;A;A;A;A;A;A;A;A;p2,r1;p3,r2;p4,r3;p5,r4;p6,r5;p7,r6;p8,r7;p9,r8;p10,r9;k0,i0,i0;k0,i1,r10",
			"S M;A;A;A;A;A;A;A;A;A;A;p2,r1;p3,r2;p4,r3;p5,r4;p6,r5;p7,r6;p8,r7;p9,r8;p10,r9;k0,i0,i0;k0,i1,r10",
			"S M;A;p1,i1;A;p2,r1;A;p3,r2;A;p4,r3;A;p5,r4;A;p6,r5;A;p7,r6;A;p8,r7;A;p9,r8;A;p10,r9;k0,i0,i0;k0,i1,r10", "D M;A;p1,i1;A;p2,r1;A;p3,r2;A;p4,r3;A;p5,r4;A;p6,r5;A;p7,r6;A;p8,r7;A;p9,r8;A;p10,r9;k0,i0,i0;k0,i1,r10", "N M;A;p1,i1;A;p2,r1;A;p3,r2;A;p4,r3;A;p5,r4;A;p6,r5;A;p7,r6;A;p8,r7;A;p9,r8;A;p10,r9;k0,i0,i0;k0,i1,r10",
			"S M;k0,i1,i5;k0,b01,i6;k0,T,i7;k0,i0,F;k0,b-,T;k0,b00,i3",
			// depth rule: 11 nested arrays through element 0 (innermost empty / non-empty), and through element 1
			"S A;A;A;A;A;A;A;A;A;A;A;p1,r0;p2,r1;p3,r2;p4,r3;p5,r4;p6,r5;p7,r6;p8,r7;p9,r8;p10,r9;Rr10",
			"S A;A;A;A;A;A;A;A;A;A;A;p0,i1;p1,r0;p2,r1;p3,r2;p4,r3;p5,r4;p6,r5;p7,r6;p8,r7;p9,r8;p10,r9;Rr10",
			"S A;A;A;A;A;A;A;A;A;A;A;A;A;p0,i1;p1,i0;p1,r0;p2,i0;p2,r1;p3,i0;p3,r2;p4,i0;p4,r3;p5,i0;p5,r4;p6,i0;p6,r5;p7,i0;p7,r6;p8,i0;p8,r7;p9,i0;p9,r8;p10,i0;p10,r9;p11,i0;p11,r10;p12,i0;p12,r11;Rr12",
			"S A;p0,z1048568", "S A;p0,z1048569", "S A;p0,z524288;p0,z524288", "S A;p0,z524282;p0,z524282", "S Rz1048576", "S Rz1048570", "S Rz1048571",
			"S Ri-57896044618658097711785492504343953926634992332820282019728792003956564819968", "S Ri115792089237316195423570985008687907853269984665640564039457584007913129639935",
			"N A;p0,i300;p0,b0102;p0,T;S;p1,i-1;p0,r1", "N M", "N A;M;p0,r1",
			// cycles that run through a map value: BuildParamToNative refuses the map before entering it
			"N A;M;p0,i1;p0,r1;k1,i0,r0", "N S;M;p0,r1;k1,i0,r0;k1,i1,i5", "N A;A;M;p0,i1;p0,r1;p1,i2;p1,r2;k2,b01,r0", "N A;S;p0,b-;p0,r1;p1,T;p1,r0", "N S;p0,i1;p0,i2;p0,r0",
			// byte strings
			"X -", "X 00", "X 0000", "X 0101", "X 0102", "X 0100", "X 02", "X 0200", "X 0201ff", "X 0202ffff", "X 020180", "X 03", "X 40", "X 8000", "X 8100", "X 8200",
			"X 80fd0000", "X 8001", "X 80ff0000000000000080", "X 80ffffffffffffffffff", "X 82ff000000000000008000", "X 820180000101", "X 82010101010201",
			"X 8202020101010100010102", "X 820202010101010101010102", "X 820202010101010001010102",
			"X 0221+z33", "X 0221+z32+01", "X 0221+z32+ff", "X 0220+r32xff", "X 0221+r32x00+80", "X 0221+r32xff+7f",
			"X 00fe00001000+z1048576", "X 00fe01001000+z1048577",
			"X 80fd0004+r1024x0100", "X 80fd0104+r1025x0100", "X 80fd0104+r1024x0100", "X 81fd0104+r1025x0100", "X 82fd0104+r1025x02020001+0100",
			"X r1024x8001+8000", "X r1025x8001+8000", "X r1026x8001+8000", "X r1025x8101+0100", "X r1025x820100+0100", "X r1026x820100+0100",
		},
		N: map[string]int{"quick": 2500, "thorough": 60000},
	}
	defer subKill()
	if len(os.Args) > 2 && os.Args[1] == "-timing" { // dev aid: which generated lines are slow
		n, _ := strconv.Atoi(os.Args[2])
		r := hx.NewRand(1)
		tot := time.Now()
		agg := map[string]time.Duration{}
		cnt := map[string]int{}
		var genT time.Duration
		defer func() {
			for k, v := range agg {
				fmt.Printf("%-50s %5d %8.2fs\n", k, cnt[k], v.Seconds())
			}
			fmt.Println("gen", genT)
		}()
		for i := 0; i < n; i++ {
			tg := time.Now()
			l := gen(r, "quick", i)
			genT += time.Since(tg)
			t0 := time.Now()
			res := execLine(l)
			agg[res.Kind] += time.Since(t0)
			cnt[res.Kind]++
			if d := time.Since(t0); d > 400*time.Millisecond {
				fmt.Printf("%6.2fs %s => %s\n", d.Seconds(), trunc(l, 150), trunc(res.Out, 60))
			}
		}
		fmt.Println("total", time.Since(tot))
		return
	}
	hx.Main(p)
}
