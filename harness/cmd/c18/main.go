// C18 harness: ZeroCopySource / ZeroCopySink / serialization readers on generated read and write scripts.
package main

import (
	"bytes"
	"fmt"
	"strconv"
	"strings"

	"github.com/ontio/ontology/common"
	"github.com/ontio/ontology/common/serialization"
	"verif/harness/internal/hx"
)

var boundaryN = []uint64{0, 1, 2, 0xfc, 0xfd, 0xfe, 0xff, 0x100, 0xffff, 0x10000, 0xffffffff, 0x100000000,
	1<<63 - 1, 1 << 63, 1<<64 - 2, 1<<64 - 1}

func genN(r *hx.Rand) uint64 {
	switch r.Intn(4) {
	case 0:
		return boundaryN[r.Intn(len(boundaryN))]
	case 1:
		return uint64(r.Intn(40))
	case 2:
		return r.U64() >> uint(r.Intn(64))
	default:
		return boundaryN[r.Intn(len(boundaryN))] + uint64(r.Intn(3)) - 1
	}
}

var readOps = []string{"u8", "u16", "u32", "u64", "bool", "vu", "vb", "addr", "hash", "i128", "b", "skip"}

func genReadScript(r *hx.Rand) string {
	n := 1 + r.Intn(6)
	var ops []string
	for i := 0; i < n; i++ {
		op := readOps[r.Intn(len(readOps))]
		if op == "b" || op == "skip" {
			op += ":" + strconv.FormatUint(genN(r), 10)
		}
		ops = append(ops, op)
	}
	return strings.Join(ops, " ")
}

// a written value together with the read op that must return it
type wv struct{ w, rd, expect string }

func genWrite(r *hx.Rand) wv {
	switch r.Intn(8) {
	case 0:
		v := genN(r) & 0xff
		return wv{fmt.Sprintf("w8:%d", v), "u8", fmt.Sprintf("%d,0", v)}
	case 1:
		v := genN(r) & 0xffff
		return wv{fmt.Sprintf("w16:%d", v), "u16", fmt.Sprintf("%d,0", v)}
	case 2:
		v := genN(r) & 0xffffffff
		return wv{fmt.Sprintf("w32:%d", v), "u32", fmt.Sprintf("%d,0", v)}
	case 3:
		v := genN(r)
		return wv{fmt.Sprintf("w64:%d", v), "u64", fmt.Sprintf("%d,0", v)}
	case 4:
		b := r.Bool()
		return wv{"wb:" + hx.B(b), "bool", hx.B(b) + ",0,0"}
	case 5:
		v := genN(r)
		return wv{fmt.Sprintf("wvu:%d", v), "vu", fmt.Sprintf("%d,%d,0,0", v, varSize(v))}
	case 6:
		var l int
		switch r.Intn(5) {
		case 0:
			l = 0
		case 1:
			l = 0xfc + r.Intn(3)
		case 2:
			l = 0xffff + r.Intn(2)
		default:
			l = r.Intn(40)
		}
		d := r.Bytes(l)
		return wv{"wvb:" + hx.Hex(d), "vb", fmt.Sprintf("%s,%d,0,0", hx.Hex(d), varSize(uint64(l))+uint64(l))}
	default:
		k := []int{20, 32, 16}[r.Intn(3)]
		d := r.Bytes(k)
		return wv{"wbytes:" + hx.Hex(d), map[int]string{20: "addr", 32: "hash", 16: "i128"}[k], hx.Hex(d) + ",0"}
	}
}

func varSize(v uint64) uint64 {
	if v < 0xfd {
		return 1
	} else if v <= 0xffff {
		return 3
	} else if v <= 0xffffffff {
		return 5
	}
	return 9
}

// ---- K lines: the same writers on a sink whose memory is not fresh ----
//
//	K <init> op;op;…     init: n = NewZeroCopySink(nil) | z = ZeroCopySink{} | d:<k>:<hex> = NewZeroCopySink(b[:k]), b dirty
//	ops: w8 w16 w32 w64 wb wvu wvb wbytes (as in W lines), reset, backup:<n> (never beyond the start: caller contract)

func dirty(r *hx.Rand, n int) []byte {
	b := make([]byte, n)
	switch r.Intn(4) {
	case 0:
		for i := range b {
			b[i] = 0xff
		}
	case 1:
		for i := range b {
			b[i] = 1
		}
	case 2:
		copy(b, r.Bytes(n))
	default: // mostly non-zero random
		for i := range b {
			b[i] = byte(1 + r.Intn(255))
		}
	}
	return b
}

func opSize(op string) int {
	p := strings.SplitN(op, ":", 2)
	switch p[0] {
	case "w8", "wb":
		return 1
	case "w16":
		return 2
	case "w32":
		return 4
	case "w64":
		return 8
	case "wvu":
		n, _ := strconv.ParseUint(p[1], 10, 64)
		return int(varSize(n))
	case "wvb":
		d := hx.MustUnhex(p[1])
		return int(varSize(uint64(len(d)))) + len(d)
	case "wbytes":
		return len(hx.MustUnhex(p[1]))
	}
	return 0
}

func genSinkWrite(r *hx.Rand, boolHeavy bool) string {
	if boolHeavy && r.Chance(60) {
		return "wb:" + hx.B(r.Chance(30))
	}
	if r.Chance(15) { // small / zero values: the bytes a lazy writer would leave untouched
		return []string{"w8:0", "w16:0", "w32:0", "w64:0", "wvu:0", "wvb:-", "wb:0", "w16:256", "w32:1", "wbytes:00"}[r.Intn(10)]
	}
	for {
		w := genWrite(r).w
		if len(w) < 300 {
			return w
		}
	}
}

func genSink(r *hx.Rand) string {
	vis := 0
	var init string
	switch r.Intn(6) {
	case 0:
		init = "n"
	case 1:
		init = "z"
	default: // caller buffer with spare dirty capacity, sometimes with a visible prefix
		c := []int{1, 2, 3, 8, 9, 10, 16, 40, 600}[r.Intn(9)]
		if r.Chance(25) {
			vis = r.Intn(c + 1)
		}
		init = fmt.Sprintf("d:%d:%s", vis, hx.Hex(dirty(r, c)))
	}
	boolHeavy := r.Chance(40)
	var ops []string
	n := 1 + r.Intn(8)
	if init == "n" || init == "z" || r.Chance(30) { // dirty it ourselves first: junk, then Reset or BackUp
		for j := 0; j < 1+r.Intn(4); j++ {
			var w string
			switch r.Intn(4) {
			case 0:
				w = "w64:18446744073709551615"
			case 1:
				w = "wbytes:" + hx.Hex(dirty(r, 1+r.Intn(30)))
			case 2:
				w = "wvb:" + hx.Hex(dirty(r, 1+r.Intn(20)))
			default:
				w = genSinkWrite(r, false)
			}
			ops = append(ops, w)
			vis += opSize(w)
		}
		if r.Bool() {
			ops = append(ops, "reset")
			vis = 0
		} else {
			k := r.Intn(vis + 1)
			ops = append(ops, fmt.Sprintf("backup:%d", k))
			vis -= k
		}
	}
	for j := 0; j < n; j++ {
		switch {
		case r.Chance(8):
			ops = append(ops, "reset")
			vis = 0
		case r.Chance(12) && vis > 0:
			k := 1 + r.Intn(vis)
			if r.Chance(30) {
				k = vis
			}
			ops = append(ops, fmt.Sprintf("backup:%d", k))
			vis -= k
		default:
			w := genSinkWrite(r, boolHeavy)
			ops = append(ops, w)
			vis += opSize(w)
		}
	}
	return "K " + init + " " + strings.Join(ops, ";")
}

func gen(r *hx.Rand, tier string, i int) string {
	if r.Chance(25) {
		return genSink(r)
	}
	switch r.Intn(10) {
	case 0, 1, 2: // write script; Exec also reads it back (round-trip predicate)
		n := 1 + r.Intn(5)
		var ws []string
		for j := 0; j < n; j++ {
			ws = append(ws, genWrite(r).w)
		}
		return "W " + strings.Join(ws, " ")
	case 3, 4: // serialization-package reader
		bs := genBytes(r)
		ops := []string{"u8", "u16", "u32", "u64", "vu:0", "vb", "vu:" + strconv.FormatUint(genN(r), 10)}
		n := 1 + r.Intn(4)
		var s []string
		for j := 0; j < n; j++ {
			s = append(s, ops[r.Intn(len(ops))])
		}
		return "S " + hx.Hex(bs) + " " + strings.Join(s, " ")
	default:
		return "R " + hx.Hex(genBytes(r)) + " " + genReadScript(r)
	}
}

// byte strings: random, or a valid encoding followed by a tail, or a var-uint prefix with hostile length
func genBytes(r *hx.Rand) []byte {
	switch r.Intn(4) {
	case 0:
		return r.Bytes(r.Intn(24))
	case 1:
		sink := common.NewZeroCopySink(nil)
		sink.WriteVarUint(genN(r))
		sink.WriteBytes(r.Bytes(r.Intn(12)))
		return sink.Bytes()
	case 2:
		b := []byte{[]byte{0xfd, 0xfe, 0xff}[r.Intn(3)]}
		return append(b, r.Bytes(r.Intn(10))...)
	default:
		sink := common.NewZeroCopySink(nil)
		for j := 0; j < 1+r.Intn(3); j++ {
			sink.WriteVarBytes(r.Bytes(r.Intn(8)))
		}
		b := sink.Bytes()
		if r.Chance(30) && len(b) > 0 {
			b = b[:r.Intn(len(b))]
		}
		return b
	}
}

func execRead(bs []byte, ops []string) (string, string) {
	src := common.NewZeroCopySource(bs)
	var out []string
	kinds := ""
	for _, op := range ops {
		parts := strings.SplitN(op, ":", 2)
		var o string
		switch parts[0] {
		case "u8":
			v, e := src.NextUint8()
			o = fmt.Sprintf("%d,%s", v, hx.B(e))
		case "u16":
			v, e := src.NextUint16()
			o = fmt.Sprintf("%d,%s", v, hx.B(e))
		case "u32":
			v, e := src.NextUint32()
			o = fmt.Sprintf("%d,%s", v, hx.B(e))
		case "u64":
			v, e := src.NextUint64()
			o = fmt.Sprintf("%d,%s", v, hx.B(e))
		case "bool":
			d, i, e := src.NextBool()
			o = hx.B(d) + "," + hx.B(i) + "," + hx.B(e)
		case "vu":
			v, sz, i, e := src.NextVarUint()
			o = fmt.Sprintf("%d,%d,%s,%s", v, sz, hx.B(i), hx.B(e))
			if i {
				kinds = "irregular"
			}
		case "vb":
			d, sz, i, e := src.NextVarBytes()
			o = fmt.Sprintf("%s,%d,%s,%s", hx.Hex(d), sz, hx.B(i), hx.B(e))
		case "addr":
			d, e := src.NextAddress()
			o = hx.Hex(d[:]) + "," + hx.B(e)
		case "i128":
			d, e := src.NextI128()
			o = hx.Hex(d[:]) + "," + hx.B(e)
		case "hash":
			d, e := src.NextHash()
			o = hx.Hex(d[:]) + "," + hx.B(e)
		case "b":
			n, _ := strconv.ParseUint(parts[1], 10, 64)
			d, e := src.NextBytes(n)
			o = hx.Hex(d) + "," + hx.B(e)
		case "skip":
			n, _ := strconv.ParseUint(parts[1], 10, 64)
			o = hx.B(src.Skip(n))
		default:
			return "bad-op", ""
		}
		out = append(out, o)
	}
	out = append(out, fmt.Sprintf("off=%d", src.Pos()))
	return strings.Join(out, " | "), kinds
}

func exec(line string) hx.Result {
	f := strings.Fields(line)
	if len(f) < 2 {
		return hx.Result{Out: "bad-op"}
	}
	switch f[0] {
	case "R":
		bs := hx.MustUnhex(f[1])
		out, kind := execRead(bs, f[2:])
		res := hx.Result{Out: out, Kind: "read" + kind, Key: line}
		// predicate: offset never leaves the buffer (the no-panic part is the recover() in hx)
		if !strings.HasSuffix(out, fmt.Sprintf("off=%d", 0)) {
			var off uint64
			fmt.Sscanf(out[strings.LastIndex(out, "off=")+4:], "%d", &off)
			if off > uint64(len(bs)) {
				res.Fail = "offset beyond buffer"
				res.Class = "source-offset-out-of-range"
			}
		}
		return res
	case "W":
		sink := common.NewZeroCopySink(nil)
		var reads []string
		for _, op := range f[1:] {
			p := strings.SplitN(op, ":", 2)
			n, _ := strconv.ParseUint(p[1], 10, 64)
			switch p[0] {
			case "w8":
				sink.WriteUint8(uint8(n))
				reads = append(reads, "u8")
			case "w16":
				sink.WriteUint16(uint16(n))
				reads = append(reads, "u16")
			case "w32":
				sink.WriteUint32(uint32(n))
				reads = append(reads, "u32")
			case "w64":
				sink.WriteUint64(n)
				reads = append(reads, "u64")
			case "wb":
				sink.WriteBool(p[1] == "1")
				reads = append(reads, "bool")
			case "wvu":
				sink.WriteVarUint(n)
				reads = append(reads, "vu")
			case "wvb":
				sink.WriteVarBytes(hx.MustUnhex(p[1]))
				reads = append(reads, "vb")
			case "wbytes":
				d := hx.MustUnhex(p[1])
				sink.WriteBytes(d)
				reads = append(reads, map[int]string{20: "addr", 32: "hash", 16: "i128"}[len(d)])
			default:
				return hx.Result{Out: "bad-op"}
			}
		}
		out := hx.Hex(sink.Bytes())
		res := hx.Result{Out: out, Kind: "write", Key: line}
		// round-trip predicate on the real code: reading back yields what was written
		back, _ := execRead(sink.Bytes(), reads)
		exp := expected(f[1:]) + fmt.Sprintf(" | off=%d", len(sink.Bytes()))
		if back != exp {
			res.Fail = "round trip: read back " + back + " expected " + exp
			res.Class = "codec-roundtrip"
		}
		// io.Writer flavour must produce the same bytes for var-uint / var-bytes
		return res
	case "K":
		return execSink(line, f)
	case "S":
		bs := hx.MustUnhex(f[1])
		rd := bytes.NewReader(bs)
		var out []string
		for _, op := range f[2:] {
			p := strings.SplitN(op, ":", 2)
			var o string
			var err error
			switch p[0] {
			case "u8":
				var v uint8
				v, err = serialization.ReadUint8(rd)
				o = fmt.Sprint(v)
			case "u16":
				var v uint16
				v, err = serialization.ReadUint16(rd)
				o = fmt.Sprint(v)
			case "u32":
				var v uint32
				v, err = serialization.ReadUint32(rd)
				o = fmt.Sprint(v)
			case "u64":
				var v uint64
				v, err = serialization.ReadUint64(rd)
				o = fmt.Sprint(v)
			case "vu":
				mx, _ := strconv.ParseUint(p[1], 10, 64)
				var v uint64
				v, err = serialization.ReadVarUint(rd, mx)
				o = fmt.Sprint(v)
			case "vb":
				var v []byte
				v, err = serialization.ReadVarBytes(rd)
				o = hx.Hex(v)
			default:
				return hx.Result{Out: "bad-op"}
			}
			if err != nil {
				if err == serialization.ErrRange {
					out = append(out, "err:range")
				} else {
					out = append(out, "err:eof")
				}
				break
			}
			out = append(out, o)
		}
		return hx.Result{Out: strings.Join(out, " | "), Kind: "ser", Key: line}
	}
	return hx.Result{Out: "bad-op"}
}

func newSink(init string) (*common.ZeroCopySink, bool) {
	p := strings.Split(init, ":")
	switch {
	case init == "n":
		return common.NewZeroCopySink(nil), true
	case init == "z":
		return &common.ZeroCopySink{}, true
	case len(p) == 3 && p[0] == "d":
		k, err := strconv.Atoi(p[1])
		b, err2 := hx.Unhex(p[2])
		if err != nil || err2 != nil || k > len(b) {
			return nil, false
		}
		b = append([]byte{}, b...) // the line's bytes are the sink's memory
		return common.NewZeroCopySink(b[:k]), true
	}
	return nil, false
}

func applySinkOp(sink *common.ZeroCopySink, op string) bool {
	p := strings.SplitN(op, ":", 2)
	if p[0] == "reset" {
		sink.Reset()
		return true
	}
	if len(p) != 2 {
		return false
	}
	n, _ := strconv.ParseUint(p[1], 10, 64)
	switch p[0] {
	case "w8":
		sink.WriteUint8(uint8(n))
	case "w16":
		sink.WriteUint16(uint16(n))
	case "w32":
		sink.WriteUint32(uint32(n))
	case "w64":
		sink.WriteUint64(n)
	case "wb":
		sink.WriteBool(p[1] == "1")
	case "wvu":
		sink.WriteVarUint(n)
	case "wvb":
		sink.WriteVarBytes(hx.MustUnhex(p[1]))
	case "wbytes":
		sink.WriteBytes(hx.MustUnhex(p[1]))
	case "backup":
		if n > sink.Size() {
			return false // outside the caller contract; never generated
		}
		sink.BackUp(n)
	default:
		return false
	}
	return true
}

// K line: real sink over the memory the line describes. Predicate (on the implementation alone): the visible bytes after
// every op are those of the same op applied to a copy of the visible bytes in fresh zeroed memory — the output must not
// depend on what the memory held before.
func execSink(line string, f []string) hx.Result {
	if len(f) != 3 {
		return hx.Result{Out: "bad-op"}
	}
	sink, ok := newSink(f[1])
	if !ok {
		return hx.Result{Out: "bad-op"}
	}
	expected := append([]byte{}, sink.Bytes()...)
	kind := "K:" + f[1][:1]
	res := hx.Result{Kind: kind, Key: line}
	for _, op := range strings.Split(f[2], ";") {
		// reference: the bytes visible so far, copied into fresh zeroed memory, then the same op
		ref := common.NewZeroCopySink(make([]byte, 0, len(expected)+1024))
		ref.WriteBytes(expected)
		if !applySinkOp(sink, op) || !applySinkOp(ref, op) {
			return hx.Result{Out: "bad-op"}
		}
		expected = append([]byte{}, ref.Bytes()...)
		name := strings.SplitN(op, ":", 2)[0]
		if name == "reset" || name == "backup" {
			if !strings.Contains(res.Kind, "+"+name) {
				res.Kind += "+" + name
			}
		}
		if res.Fail == "" && !bytes.Equal(sink.Bytes(), expected) {
			res.Fail = fmt.Sprintf("after %s the sink shows %s, the same op on fresh memory gives %s", op, hx.Hex(sink.Bytes()), hx.Hex(expected))
			res.Class = "sink-output-depends-on-stale-memory-" + name
		}
	}
	res.Out = hx.Hex(sink.Bytes())
	return res
}

func expected(ws []string) string {
	var out []string
	for _, op := range ws {
		p := strings.SplitN(op, ":", 2)
		switch p[0] {
		case "w8", "w16", "w32", "w64":
			out = append(out, p[1]+",0")
		case "wb":
			out = append(out, p[1]+",0,0")
		case "wvu":
			n, _ := strconv.ParseUint(p[1], 10, 64)
			out = append(out, fmt.Sprintf("%d,%d,0,0", n, varSize(n)))
		case "wvb":
			d := hx.MustUnhex(p[1])
			out = append(out, fmt.Sprintf("%s,%d,0,0", hx.Hex(d), varSize(uint64(len(d)))+uint64(len(d))))
		case "wbytes":
			out = append(out, p[1]+",0")
		}
	}
	return strings.Join(out, " | ")
}

func main() {
	hx.Main(hx.Prop{
		ID:   "C18",
		Rule: "read scripts (12 reader kinds, hostile lengths at uint64 boundaries) over random/valid/truncated byte strings; write scripts read back by the real source; serialization-package read scripts; K lines (25%): the same writers plus Reset/BackUp on sinks over recycled memory — reused after junk+Reset, after BackUp, NewZeroCopySink(b[:k]) over 0xff / 0x01 / random dirty capacity of 1..600 bytes, zero-value sink; bool-heavy and zero-valued writes. Non-trivial = distinct op line (every line reaches a reader); kinds histogram shows irregular/eof coverage",
		Gen:  gen,
		Exec: exec,
		Corpus: []string{
			"R fd0100 vu", "R fdfd00 vu", "R fe00000100 vu", "R ff0000000001000000 vu", "R ffffffffffffffffff vu vb",
			"R - u8 bool vu vb b:0 b:18446744073709551615", "R 0102 b:1 b:18446744073709551615 skip:18446744073709551615 u8",
			"R ff00000000000000800a vb", "R 02 bool", "W wvu:252 wvu:253 wvu:65535 wvu:65536 wvu:4294967295 wvu:4294967296",
			"S fdfc00 vu:0", "S fe vu:0", "S 05 vu:4", "S ffffffffffffffffff01 vb",
		},
		N: map[string]int{"quick": 20000, "thorough": 600000},
	})
}
