package main

import (
	"fmt"
	"strings"

	"verif/harness/internal/hx"
)

// boundary schedules that always run first
var corpus = []string{
	// the check-then-act witness of DESIGN §9 C36: limit 1, T1.check, T2.check, T1.save, T2.save (+ closes)
	"S:1:1:1:* i0.1.5000.20338.1.ok;i1.1.5001.20338.2.ok;i0.1.5000.20338.1.ok;i1.1.5001.20338.2.ok;i0.1.5000.20338.1.ok;i1.1.5001.20338.2.ok",
	// same shape, two remote IPs: only the total inbound limit is at stake
	"S:1:3:1:* i0.1.5000.20338.1.ok;i1.2.5001.20338.2.ok;i0.1.5000.20338.1.ok;i1.2.5001.20338.2.ok",
	// per-IP limit only
	"S:3:1:3:* i0.1.5000.20338.1.ok;i1.1.5001.20339.2.ok;i0.1.5000.20338.1.ok;i1.1.5001.20339.2.ok",
	// outbound limit, two different dial addresses (the `connecting` set does not reserve a slot)
	"S:1:1:1:* o0.1.20338.20338.1.ok;o1.2.20338.20338.2.ok;o0.1.20338.20338.1.ok;o1.2.20338.20338.2.ok",
	// sequential: the second connection is refused at its check
	"S:1:1:1:* i0.1.5000.20338.1.ok;i0.1.5000.20338.1.ok;i1.1.5001.20338.2.ok;i1.1.5001.20338.2.ok;i0.1.5000.20338.1.ok;i1.1.5001.20338.2.ok",
	"S:1:1:1:* o0.1.20338.20338.1.ok;o0.1.20338.20338.1.ok;o1.2.20338.20338.2.ok;o0.1.20338.20338.1.ok;o2.2.20338.20338.2.ok;o2.2.20338.20338.2.ok",
	// same dial address twice: `connecting` refuses the second dial while the first is in flight, `dup` afterwards
	"S:2:2:2:* o0.1.20338.20338.1.ok;o1.1.20338.20338.2.ok;o0.1.20338.20338.1.ok;o2.1.20338.20338.3.ok",
	// dial to the listen address of an inbound peer
	"S:2:2:2:* i0.1.5000.20338.1.ok;i0.1.5000.20338.1.ok;o1.1.20338.20338.2.ok;i0.1.5000.20338.1.ok;o2.1.20338.20338.2.ok;o2.1.20338.20338.2.ok",
	// handshake with self teaches the own address; later dial to it is refused
	"S:2:2:2:* o0.1.20338.20338.0.ok;o0.1.20338.20338.0.ok;o1.1.20338.20338.2.ok;i2.1.20338.20338.3.ok",
	// same peer id from another IP / from the same IP; close order that leaves the peer map without the entry
	"S:3:3:3:* i0.1.5000.20338.7.ok;i0.1.5000.20338.7.ok;i1.2.5001.20338.7.ok;i1.2.5001.20338.7.ok;i2.1.5002.20339.7.ok;i2.1.5002.20339.7.ok;i2.1.5002.20339.7.ok;i0.1.5000.20338.7.ok",
	// failures release what they hold
	"S:1:1:1:* i0.1.5000.20338.1.hf;i0.1.5000.20338.1.hf;i1.1.5001.20338.2.ok;i1.1.5001.20338.2.ok;o2.1.20338.20338.3.df;o3.1.20338.20338.4.ok;o2.1.20338.20338.3.df;o3.1.20338.20338.4.ok;o3.1.20338.20338.4.ok",
	// a reservation held by a connection whose handshake later fails (sound controller: second is refused, then a third fits)
	"S:1:1:1:* i0.1.5000.20338.1.hf;i1.1.5001.20338.2.ok;i0.1.5000.20338.1.hf;i2.1.5002.20338.3.ok;i2.1.5002.20338.3.ok",
	// reserved-peer filter, limit 0
	"S:2:2:2:2 i0.1.5000.20338.1.ok;i1.2.5001.20338.2.ok;i1.2.5001.20338.2.ok;o2.1.20338.20338.3.ok;o3.2.20339.20338.4.ok",
	"S:0:1:0:* i0.1.5000.20338.1.ok;o1.1.20338.20338.2.ok",
	// duplicate concurrent dials to one address: the refused duplicate must not touch the in-flight dial's reservation,
	// so a third dial to another address still finds the slot taken (seeded regression: releaseSlot deferred too early)
	"S:1:1:1:* o0.1.20338.20338.1.ok;o1.1.20338.20338.2.ok;o2.2.20338.20338.3.ok;o0.1.20338.20338.1.ok;o2.2.20338.20338.3.ok",
	"S:2:2:2:* o0.1.20338.20338.1.ok;o1.1.20338.20338.2.ok;o1.1.20338.20338.2.ok;o2.2.20338.20338.3.ok;o3.3.20338.20338.4.ok;o0.1.20338.20338.1.ok;o2.2.20338.20338.3.ok;o3.3.20338.20338.4.ok",
	"S:1:1:1:* o0.1.20338.20338.1.hf;o1.1.20338.20338.2.ok;o2.2.20338.20338.3.ok;o0.1.20338.20338.1.hf;o2.2.20338.20338.3.ok;o2.2.20338.20338.3.ok",
	// stale close: A connects and closes, B reconnects from the same address, A's Conn is closed AGAIN, then C connects
	"S:1:1:1:* i0.1.5000.20338.1.ok;i0.1.5000.20338.1.ok;i0.1.5000.20338.1.ok;i1.1.5000.20338.2.ok;i1.1.5000.20338.2.ok;i0.1.5000.20338.1.ok;i2.1.5001.20338.3.ok;i2.1.5001.20338.3.ok",
	"S:1:1:1:* o0.1.20338.20338.1.ok;o0.1.20338.20338.1.ok;o0.1.20338.20338.1.ok;o1.1.20338.20338.2.ok;o1.1.20338.20338.2.ok;o0.1.20338.20338.1.ok;o2.2.20338.20338.3.ok;o2.2.20338.20338.3.ok",
	// per-IP limit with IPv6 remotes (records are bracketed `[::1]:port`, the counted key is the bare `::1`), zones,
	// IPv4-mapped next to plain IPv4, and IPv4 hosts that are string prefixes of one another
	"S:3:1:3:* i0,::1,5000,20338,1,ok;i0,::1,5000,20338,1,ok;i1,::1,5001,20338,2,ok;i2,::2,5002,20338,3,ok;i2,::2,5002,20338,3,ok",
	"S:3:1:3:* i0,fe80::1%eth0,5000,20338,1,ok;i0,fe80::1%eth0,5000,20338,1,ok;i1,fe80::1%eth0,5001,20338,2,ok;i2,fe80::1%eth1,5002,20338,3,ok;i2,fe80::1%eth1,5002,20338,3,ok",
	"S:3:1:3:* i0,2001:db8::1,5000,20338,1,ok;i1,2001:db8::1,5001,20338,2,ok;i0,2001:db8::1,5000,20338,1,ok;i2,2001:db8::10,5002,20338,3,ok;i2,2001:db8::10,5002,20338,3,ok",
	"S:3:1:3:* i0,::ffff:1.2.3.4,5000,20338,1,ok;i0,::ffff:1.2.3.4,5000,20338,1,ok;i1,1.2.3.4,5001,20338,2,ok;i1,1.2.3.4,5001,20338,2,ok;i2,::ffff:1.2.3.4,5002,20338,3,ok;i3,1.2.3.4,5003,20338,4,ok",
	"S:4:1:3:* i0,1.2.3.4,5000,20338,1,ok;i0,1.2.3.4,5000,20338,1,ok;i1,1.2.3.40,5001,20338,2,ok;i1,1.2.3.40,5001,20338,2,ok;i2,11.2.3.4,5002,20338,3,ok;i2,11.2.3.4,5002,20338,3,ok;i3,1.2.3.4,5003,20338,4,ok;i4,1.2.3.40,5004,20338,5,ok",
	"S:3:2:3:::1,fe80::1%eth0 i0,::1,5000,20338,1,ok;i0,::1,5000,20338,1,ok;i1,::2,5001,20338,2,ok;o2,fe80::1%eth0,20338,20338,3,ok;o2,fe80::1%eth0,20338,20338,3,ok;o3,::1,20338,20338,4,ok",
	// repeated close without a reconnect (only the Fatalf branch of removePeer is visible)
	"S:2:2:2:* i0.1.5000.20338.1.ok;i0.1.5000.20338.1.ok;i0.1.5000.20338.1.ok;i0.1.5000.20338.1.ok;i0.1.5000.20338.1.ok",
}

type gthread struct {
	desc  string
	nops  int
	inb   bool
	ip    string
	port  int
	lport int
}

// host pools: plain IPv4; IPv4 addresses that are string prefixes / suffixes of one another; IPv6 in every textual form
// the net stack produces (loopback, zone, global, IPv4-mapped); mixtures (an IPv4 host next to its IPv4-mapped form)
var poolV4 = []string{"10.0.0.1", "10.0.0.2", "10.0.0.3"}
var poolPrefix = []string{"1.2.3.4", "1.2.3.40", "11.2.3.4", "1.2.3.41"}
var poolV6 = []string{"::1", "fe80::1%eth0", "2001:db8::1", "::ffff:1.2.3.4", "2001:db8::10", "fe80::1%eth1", "::11"}
var poolMixed = []string{"1.2.3.4", "::ffff:1.2.3.4", "::1", "1.2.3.40", "fe80::1%eth0", "10.0.0.1", "2001:db8::1"}

func pickHosts(r *hx.Rand, n int) []string {
	var pool []string
	switch r.Intn(6) {
	case 0, 1:
		pool = poolV4
	case 2:
		pool = poolPrefix
	case 3:
		pool = poolV6
	default:
		pool = poolMixed
	}
	start := r.Intn(len(pool))
	var out []string
	for k := 0; k < n && k < len(pool); k++ {
		out = append(out, pool[(start+k)%len(pool)])
	}
	return out
}

func gen(r *hx.Rand, tier string, i int) string {
	lim := func(xs []int) int { return xs[r.Intn(len(xs))] }
	maxIn := lim([]int{0, 1, 1, 1, 2, 2, 3})
	maxIp := lim([]int{1, 1, 2, 2, 3})
	maxOut := lim([]int{0, 1, 1, 1, 2, 2, 3})
	hosts := pickHosts(r, 1+r.Intn(3))
	nip := len(hosts)
	rsv := "*"
	if r.Chance(10) {
		var l []string
		for _, h := range append(append([]string{}, hosts...), "10.0.0.9") {
			if r.Chance(60) {
				l = append(l, h)
			}
		}
		if len(l) == 0 {
			l = []string{hosts[0]}
		}
		rsv = strings.Join(l, ",")
	}
	mode := r.Intn(13) // 0-3 racy (checks first), 4-7 random interleaving, 8-9 sequential, 10-11 stale close, 12 duplicate dials
	if mode >= 10 {
		return fmt.Sprintf("S:%d:%d:%d:%s %s", maxIn, maxIp, maxOut, rsv, genPattern(r, mode, hosts))
	}
	sequential := mode >= 8
	n := 2 + r.Intn(6)
	var ths []gthread
	for k := 0; k < n; k++ {
		t := gthread{inb: r.Chance(60), ip: hosts[r.Intn(nip)], lport: 20338 + r.Intn(2)}
		pid := k + 1
		if k > 0 && r.Chance(12) {
			pid = 1 + r.Intn(k)
		}
		if r.Chance(4) {
			pid = 0
		}
		fate := "ok"
		switch x := r.Intn(100); {
		case x < 10:
			fate = "hf"
		case x < 18:
			fate = "df"
		}
		t.nops = []int{1, 2, 2, 3, 3, 3, 3, 4}[r.Intn(8)]
		if t.inb {
			t.port = 5000 + k // one TCP connection per remote ip:port at a time
			if sequential && k > 0 && r.Chance(20) && ths[k-1].inb && ths[k-1].nops >= 3 {
				t.ip, t.port = ths[k-1].ip, ths[k-1].port // reconnect from the same remote address after a close
			}
			t.desc = fmt.Sprintf("i%d,%s,%d,%d,%d,%s", k, t.ip, t.port, t.lport, pid, fate)
		} else {
			t.port = 20338 + r.Intn(2) // few dial targets: duplicate dials and listen-address clashes are frequent
			if r.Chance(5) && k > 0 {
				t.ip, t.port = ths[r.Intn(k)].ip, ths[r.Intn(k)].port
			}
			t.desc = fmt.Sprintf("o%d,%s,%d,%d,%d,%s", k, t.ip, t.port, t.lport, pid, fate)
		}
		ths = append(ths, t)
	}
	var ops []string
	switch {
	case sequential:
		var later []string
		for _, t := range ths {
			for j := 0; j < t.nops; j++ {
				if j >= 2 && r.Chance(50) && !(t.inb) {
					later = append(later, t.desc)
				} else {
					ops = append(ops, t.desc)
				}
			}
		}
		ops = append(ops, later...)
	case mode < 4:
		// phase 1: the first op (check) of a prefix of the threads; phase 2: everything else interleaved
		left := make([]int, n)
		for k, t := range ths {
			left[k] = t.nops
		}
		first := 2 + r.Intn(n-1)
		for k := 0; k < first && k < n; k++ {
			ops = append(ops, ths[k].desc)
			left[k]--
		}
		ops = append(ops, interleave(r, ths, left)...)
	default:
		left := make([]int, n)
		for k, t := range ths {
			left[k] = t.nops
		}
		ops = interleave(r, ths, left)
	}
	return fmt.Sprintf("S:%d:%d:%d:%s %s", maxIn, maxIp, maxOut, rsv, strings.Join(ops, ";"))
}

func interleave(r *hx.Rand, ths []gthread, left []int) []string {
	var ops []string
	for {
		var cand []int
		for k := range ths {
			if left[k] > 0 {
				cand = append(cand, k)
			}
		}
		if len(cand) == 0 {
			return ops
		}
		k := cand[r.Intn(len(cand))]
		left[k]--
		ops = append(ops, ths[k].desc)
	}
}

// genPattern builds the two scripted shapes and lets a few random connections run around them.
//
//	stale close (mode 10-11): A connects and closes; B reconnects from the SAME address (or A's close is repeated without
//	    a reconnect); A's stale Conn handle is closed again; further connections C, D test whether a slot was freed
//	duplicate dials (mode 12): A and B dial the same address while A is in flight (B is refused by `connecting`), a third
//	    dial C to another address competes for the slot that A has reserved; A completes (or fails) afterwards
func genPattern(r *hx.Rand, mode int, hosts []string) string {
	nip := len(hosts)
	host := func() string { return hosts[r.Intn(nip)] }
	fates := func() string {
		switch x := r.Intn(100); {
		case x < 8:
			return "hf"
		case x < 12:
			return "df"
		}
		return "ok"
	}
	var ops []string
	if mode == 12 {
		ip, port := host(), 20338+r.Intn(2)
		a := fmt.Sprintf("o0,%s,%d,20338,1,%s", ip, port, fates())
		b := fmt.Sprintf("o1,%s,%d,20338,%d,%s", ip, port, 1+r.Intn(2), fates())
		c := fmt.Sprintf("o2,%s,%d,20338,3,%s", host(), 20340+r.Intn(2), fates())
		d := fmt.Sprintf("o3,%s,%d,20338,4,ok", host(), 20342)
		ops = []string{a, b}
		tail := []string{c, c, a, b, d, d, a, c, b}
		if r.Chance(50) {
			tail = []string{c, a, c, d, b, b, d, a, c}
		}
		for _, o := range tail {
			if r.Chance(85) {
				ops = append(ops, o)
			}
		}
		return strings.Join(ops, ";")
	}
	dir := "i"
	if r.Chance(40) {
		dir = "o"
	}
	ip := host()
	port := 5000
	if dir == "o" {
		port = 20338
	}
	mk := func(n int, ip string, port, pid int) string {
		return fmt.Sprintf("%s%d,%s,%d,%d,%d,ok", dir, n, ip, port, 20338+r.Intn(2), pid)
	}
	samePid := r.Chance(30)
	a := mk(0, ip, port, 1)
	pidB := 2
	if samePid {
		pidB = 1
	}
	b := mk(1, ip, port, pidB) // reconnect from the same remote address
	c := mk(2, host(), port+1, 3)
	d := mk(3, host(), port+2, 4)
	ops = []string{a, a, a}
	if r.Chance(80) {
		ops = append(ops, b, b)
	}
	if r.Chance(25) {
		ops = append(ops, c, c)
	}
	ops = append(ops, a) // the stale close
	if r.Chance(20) {
		ops = append(ops, a)
	}
	for _, o := range []string{c, c, d, d, b, c, d} {
		if r.Chance(75) {
			ops = append(ops, o)
		}
	}
	return strings.Join(ops, ";")
}
