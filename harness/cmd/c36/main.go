// C36 harness: connection limits of the real p2pserver ConnectController under forced interleavings.
//
// One line is one schedule:
//
//	S:<maxIn>:<maxIp>:<maxOut>:<rsv> op;op;op...
//
// rsv is `*` (every address acceptable) or a `,`-list of hosts (StaticReserveFilter; a number k means 10.0.0.k).  An op
// is the full descriptor of a connection ("thread"):
//
//	<dir><n>,<host>,<port>,<lport>,<pid>,<fate>   any host string: IPv4, IPv6 (::1, fe80::1%eth0, 2001:db8::1,
//	                                                 ::ffff:1.2.3.4); the remote address is net.JoinHostPort(host, port)
//	<dir><n>.<ip>.<port>.<lport>.<pid>.<fate>     dir i|o, n = discriminator, remote address 10.0.0.<ip>:<port>,
//	                                                 lport = listen port the remote advertises, pid = peer id (0 = the
//	                                                 controller's own id), fate ok|hf (handshake fails)|df (dial fails)
//
// and every occurrence of a descriptor advances THAT connection to its next I/O point:
//
//	1st: a goroutine runs AcceptConnect / Connect on the real controller until it returns (rejected) or blocks in
//	     the handshake (inbound: first Read on the pipe; outbound: Dial reached / first Write on the pipe)
//	2nd: the harness plays the remote side of the handshake to completion (fate ok), or closes its pipe end (hf),
//	     or lets Dial fail (df); the goroutine runs afterHandshakeCheck + savePeer (or the failure path) and returns
//	3rd: the wrapped connection is closed (removePeer)
//	4th…: Close() is called AGAIN on the stale Conn handle (only if the connection had been established)
//
// The connections are net.Pipe()s whose RemoteAddr is the descriptor's address, so the harness decides exactly when each
// goroutine proceeds from check to save.  After every op the controller's own observables are printed
// (VerifSnapshotC36: inbound/outbound/listen/connecting sets, own address, #peers; getInboundCountWithIp per ip) and
// the limits are evaluated on them.
package main

import (
	"errors"
	"fmt"
	"net"
	"sort"
	"strconv"
	"strings"
	"sync"
	"time"

	"github.com/ontio/ontology/p2pserver/common"
	cc "github.com/ontio/ontology/p2pserver/connect_controller"
	"github.com/ontio/ontology/p2pserver/handshake"
	"github.com/ontio/ontology/p2pserver/peer"
	"verif/harness/internal/hx"
)

const selfNonce = 1000000 // peer id of the controller under test; descriptor pid 0 means "this id"
const stepTimeout = 5 * time.Second

// ---------------------------------------------------------------------------------------------------------------
// plumbing: logger, addressed pipe ends, dialer

type quietLogger struct {
	mu     sync.Mutex
	fatals int
}

func (l *quietLogger) Debug(a ...interface{})            {}
func (l *quietLogger) Info(a ...interface{})             {}
func (l *quietLogger) Warn(a ...interface{})             {}
func (l *quietLogger) Error(a ...interface{})            {}
func (l *quietLogger) Debugf(f string, a ...interface{}) {}
func (l *quietLogger) Infof(f string, a ...interface{})  {}
func (l *quietLogger) Warnf(f string, a ...interface{})  {}
func (l *quietLogger) Errorf(f string, a ...interface{}) {}
func (l *quietLogger) Fatal(a ...interface{})            { l.mu.Lock(); l.fatals++; l.mu.Unlock() }
func (l *quietLogger) Fatalf(f string, a ...interface{}) { l.mu.Lock(); l.fatals++; l.mu.Unlock() }
func (l *quietLogger) count() int                        { l.mu.Lock(); defer l.mu.Unlock(); return l.fatals }

type strAddr string

func (a strAddr) Network() string { return "tcp" }
func (a strAddr) String() string  { return string(a) }

// pipeEnd is the controller's end of a net.Pipe with a chosen RemoteAddr; the first Read or Write tells the harness
// that the goroutine has entered the handshake.
type pipeEnd struct {
	net.Conn
	remote strAddr
	once   sync.Once
	io     chan struct{}
}

func (p *pipeEnd) RemoteAddr() net.Addr { return p.remote }
func (p *pipeEnd) mark()                { p.once.Do(func() { close(p.io) }) }
func (p *pipeEnd) Read(b []byte) (int, error) {
	p.mark()
	return p.Conn.Read(b)
}
func (p *pipeEnd) Write(b []byte) (int, error) {
	p.mark()
	return p.Conn.Write(b)
}

type connRes struct {
	info *peer.PeerInfo
	conn net.Conn
	err  error
}

type thread struct {
	desc                  string
	dir                   byte
	host                  string // bare host; the address is net.JoinHostPort(host, port)
	ipKey                 string // common.ParseIPAddr(addr): the key the controller counts per-IP connections by
	port, lport, pid      int
	fate                  string
	stage                 int // 0 new, 1 in handshake / dialing, 2 saved, 3 finished
	done                  chan connRes
	io                    chan struct{} // closed when the controller goroutine reached its I/O point
	far                   net.Conn      // harness end of the pipe
	dialGo                chan bool     // outbound: release of the blocked Dial (true = succeed)
	wrapped               net.Conn
	checkAt, saveAt       int // op index of the check / of the save (for the failure classifier)
	established, rejected bool
}

func (t *thread) addr() string   { return net.JoinHostPort(t.host, strconv.Itoa(t.port)) }
func (t *thread) nonce() uint64 {
	if t.pid == 0 {
		return selfNonce
	}
	return uint64(t.pid)
}

type dialer struct {
	mu      sync.Mutex
	pending map[string]*thread
}

func (d *dialer) Dial(addr string) (net.Conn, error) {
	d.mu.Lock()
	t := d.pending[addr]
	delete(d.pending, addr)
	d.mu.Unlock()
	if t == nil {
		return nil, errors.New("verif: unexpected dial " + addr)
	}
	near, far := net.Pipe()
	end := &pipeEnd{Conn: near, remote: strAddr(addr), io: make(chan struct{})}
	t.far = far
	close(t.io) // Dial reached: check passed and the address is in `connecting` (publishes t.far to the harness)
	if ok := <-t.dialGo; !ok {
		near.Close()
		far.Close()
		return nil, errors.New("verif: dial refused")
	}
	return end, nil
}

// ---------------------------------------------------------------------------------------------------------------
// parsing

type config struct {
	maxIn, maxIp, maxOut int
	rsv                  []string // nil = all
	ok                   bool
}

func parseTag(tag string) config {
	p := strings.SplitN(tag, ":", 5)
	if len(p) != 5 || p[0] != "S" {
		return config{}
	}
	var c config
	var e1, e2, e3 error
	c.maxIn, e1 = strconv.Atoi(p[1])
	c.maxIp, e2 = strconv.Atoi(p[2])
	c.maxOut, e3 = strconv.Atoi(p[3])
	if e1 != nil || e2 != nil || e3 != nil || c.maxIn < 0 || c.maxIp < 0 || c.maxOut < 0 {
		return config{}
	}
	if p[4] != "*" {
		c.rsv = []string{}
		for _, x := range strings.Split(p[4], ",") {
			if x == "" {
				return config{}
			}
			if strings.Trim(x, "0123456789") == "" {
				n, err := strconv.Atoi(x)
				if err != nil || n > 255 {
					return config{}
				}
				x = fmt.Sprintf("10.0.0.%d", n)
			}
			c.rsv = append(c.rsv, x)
		}
	}
	c.ok = true
	return c
}

func parseThread(desc string) *thread {
	if len(desc) < 2 || (desc[0] != 'i' && desc[0] != 'o') {
		return nil
	}
	num := func(x string) (int, bool) {
		v, err := strconv.Atoi(x)
		return v, err == nil && v >= 0 && strings.Trim(x, "0123456789") == ""
	}
	var host string
	var f []string
	if strings.Contains(desc, ",") {
		p := strings.Split(desc[1:], ",")
		if len(p) != 6 {
			return nil
		}
		host, f = p[1], []string{p[0], p[2], p[3], p[4], p[5]}
	} else {
		p := strings.Split(desc[1:], ".")
		if len(p) != 6 {
			return nil
		}
		k, ok := num(p[1])
		if !ok || k > 255 {
			return nil
		}
		host, f = fmt.Sprintf("10.0.0.%d", k), []string{p[0], p[2], p[3], p[4], p[5]}
	}
	var n [4]int
	for i := 0; i < 4; i++ {
		v, ok := num(f[i])
		if !ok {
			return nil
		}
		n[i] = v
	}
	if host == "" || n[1] > 65535 || n[2] > 65535 || (f[4] != "ok" && f[4] != "hf" && f[4] != "df") {
		return nil
	}
	t := &thread{desc: desc, dir: desc[0], host: host, port: n[1], lport: n[2], pid: n[3], fate: f[4]}
	ip, err := common.ParseIPAddr(t.addr()) // the function the controller applies to its records
	if err != nil || ip == "" {
		return nil
	}
	t.ipKey = ip
	return t
}

// ---------------------------------------------------------------------------------------------------------------
// canonical forms

func rejKind(err error) string {
	s := err.Error()
	switch {
	case err == cc.ErrHandshakeSelf:
		return "hsself"
	case strings.Contains(s, "not in reserved list"):
		return "reserved"
	case strings.Contains(s, "already in connection records"):
		return "dup"
	case strings.Contains(s, "connecting with self address"):
		return "self"
	case strings.Contains(s, "with ip("):
		return "ipfull"
	case strings.Contains(s, "reach max limit"):
		return "full"
	case strings.Contains(s, "exist in connecting list"):
		return "connecting"
	case strings.Contains(s, "verif: dial refused"):
		return "dial"
	case strings.Contains(s, "same peer id from different addr"):
		return "peerip"
	default:
		return "hs"
	}
}

func canonAddrs(xs []string) string {
	if len(xs) == 0 {
		return "-"
	}
	v := append([]string(nil), xs...)
	sort.Strings(v)
	return strings.Join(v, ",")
}

// ---------------------------------------------------------------------------------------------------------------
// execution of one schedule on the real controller

func exec(line string) hx.Result {
	head, rest, _ := strings.Cut(line, " ")
	cfg := parseTag(head)
	if !cfg.ok || strings.Contains(rest, " ") {
		return hx.Result{Out: "bad-op", Kind: "bad-op"}
	}
	var ops []string
	if rest != "" {
		ops = strings.Split(rest, ";")
	}
	threads := map[string]*thread{}
	var order []*thread
	ipset := map[string]bool{}
	for _, o := range ops {
		if threads[o] == nil {
			t := parseThread(o)
			if t == nil {
				return hx.Result{Out: "bad-op", Kind: "bad-op"}
			}
			threads[o] = t
			order = append(order, t)
			ipset[t.ipKey] = true
		}
	}
	var ips []string
	for ip := range ipset {
		ips = append(ips, ip)
	}
	sort.Strings(ips)

	lg := &quietLogger{}
	dl := &dialer{pending: map[string]*thread{}}
	opt := cc.NewConnCtrlOption().MaxInBound(uint(cfg.maxIn)).MaxInBoundPerIp(uint(cfg.maxIp)).MaxOutBound(uint(cfg.maxOut)).WithDialer(dl)
	if cfg.rsv != nil {
		opt = opt.ReservedOnly(cfg.rsv)
	}
	selfKey := &common.PeerKeyId{Id: common.PseudoPeerIdFromUint64(selfNonce)}
	selfInfo := &peer.PeerInfo{Id: selfKey.Id, Port: 20338, SoftVersion: ""}
	ctrl := cc.NewConnectController(selfInfo, selfKey, opt, lg)

	var outs []string
	res := hx.Result{Kind: "ok"}
	hang := false
	sawRace := map[byte]bool{}
	staleHit := map[byte]bool{} // direction -> a stale Close() hit the address of a live connection
	nStale := 0
	dupDial := false
	staleLive := false // a repeated Close() was issued while the address belonged to a live connection
	rejKinds := map[string]bool{}
	maxInflight := 0

	wait := func(t *thread) (connRes, bool, bool) { // (result, returned, hung)
		select {
		case r := <-t.done:
			return r, true, false
		case <-t.io:
			return connRes{}, false, false
		case <-time.After(stepTimeout):
			return connRes{}, false, true
		}
	}

	for k, o := range ops {
		t := threads[o]
		r := "-"
		fat0 := lg.count()
		switch t.stage {
		case 0:
			t.checkAt = k
			t.done = make(chan connRes, 1)
			if t.dir == 'i' {
				near, far := net.Pipe()
				end := &pipeEnd{Conn: near, remote: strAddr(t.addr()), io: make(chan struct{})}
				t.io, t.far = end.io, far
				go func() {
					info, c, err := ctrl.AcceptConnect(end)
					if err != nil {
						end.Close() // what netserver.startNetAccept does with a refused connection
					}
					t.done <- connRes{info, c, err}
				}()
			} else {
				t.io = make(chan struct{})
				t.dialGo = make(chan bool, 1)
				dl.mu.Lock()
				dl.pending[t.addr()] = t
				dl.mu.Unlock()
				go func() {
					info, c, err := ctrl.Connect(t.addr())
					t.done <- connRes{info, c, err}
				}()
			}
			cr, returned, hung := wait(t)
			switch {
			case hung:
				hang = true
			case returned:
				t.stage = 3
				t.rejected = true
				if cr.err == nil {
					r = "saved-without-handshake"
					res.Fail, res.Class = "connection established without a handshake", "no-handshake"
				} else {
					r = "rej:" + rejKind(cr.err)
					rejKinds[rejKind(cr.err)] = true
					for _, u := range order {
						if u != t && t.dir == 'o' && u.dir == 'o' && u.stage == 1 && u.addr() == t.addr() {
							dupDial = true // refused duplicate of a dial that is still in flight
						}
					}
				}
				if t.dir == 'o' {
					dl.mu.Lock()
					delete(dl.pending, t.addr())
					dl.mu.Unlock()
				}
			default:
				t.stage = 1
				r = "chk"
			}
		case 1:
			t.saveAt = k
			switch {
			case t.fate == "df" && t.dir == 'o':
				t.dialGo <- false
			case t.fate == "ok":
				if t.dir == 'o' {
					t.dialGo <- true
				}
				key := &common.PeerKeyId{Id: common.PseudoPeerIdFromUint64(t.nonce())}
				info := &peer.PeerInfo{Id: key.Id, Port: uint16(t.lport), SoftVersion: ""}
				hsDone := make(chan error, 1)
				go func() {
					if t.dir == 'o' {
						_, err := handshake.HandshakeServer(info, key, t.far)
						hsDone <- err
					} else {
						_, err := handshake.HandshakeClient(info, key, t.far)
						hsDone <- err
					}
				}()
				select {
				case <-hsDone:
				case <-time.After(stepTimeout):
					hang = true
				}
			default: // hf (and df on an inbound connection): the remote side goes away during the handshake
				if t.dir == 'o' {
					t.dialGo <- true
				}
				t.far.Close()
			}
			select {
			case cr := <-t.done:
				if cr.err != nil {
					t.stage = 3
					r = "rej:" + rejKind(cr.err)
					rejKinds[rejKind(cr.err)] = true
				} else {
					t.stage = 2
					t.wrapped = cr.conn
					t.established = true
					r = "saved"
				}
			case <-time.After(stepTimeout):
				hang = true
			}
		case 2:
			t.wrapped.Close()
			t.far.Close()
			t.stage = 3
			t.established = false
			r = "closed"
		case 3:
			if t.wrapped != nil {
				// a further Close() of the stale Conn handle of a connection that had been established and closed
				live := false
				for _, u := range order {
					if u != t && u.established && u.dir == t.dir && u.addr() == t.addr() {
						live = true // the address has reconnected meanwhile: its record belongs to a LIVE connection
					}
				}
				staleLive = staleLive || live
				i0, o0, _, _, _, _ := ctrl.VerifSnapshotC36()
				t.wrapped.Close()
				i1, o1, _, _, _, _ := ctrl.VerifSnapshotC36()
				if live && (len(i1) < len(i0) || len(o1) < len(o0)) {
					staleHit[t.dir] = true // ... and this Close() removed it
				}
				r = "again"
				nStale++
			}
		}
		if hang {
			outs = append(outs, "HANG")
			res.Fail, res.Class = "a controller call did not reach its next I/O point within 5s", "hang"
			break
		}
		if lg.count() != fat0 {
			r += "!fatal"
		}
		// observables of the implementation
		in, out, listen, connecting, own, npeers := ctrl.VerifSnapshotC36()
		var ipc []string
		ipOver := ""
		for _, ip := range ips {
			c := ctrl.VerifInboundCountWithIpC36(ip)
			ipc = append(ipc, fmt.Sprintf("%s=%d", ip, c))
			if int(c) > cfg.maxIp && ipOver == "" {
				ipOver = ip
			}
		}
		ownS := "-"
		if own != "" {
			ownS = own
		}
		outs = append(outs, fmt.Sprintf("%s I=%s O=%s L=%s C=%s own=%s P=%d ip=%s", r, canonAddrs(in), canonAddrs(out),
			canonAddrs(listen), canonAddrs(connecting), ownS, npeers, strings.Join(ipc, ",")))

		// ---- property predicate on the implementation's own counters, after every step
		inflight := 0
		liveIn, liveOut := 0, 0
		liveIp := map[string]int{}
		for _, u := range order {
			if u.stage == 1 {
				inflight++
			}
			if u.established {
				if u.dir == 'i' {
					liveIn++
					liveIp[u.ipKey]++
				} else {
					liveOut++
				}
			}
		}
		if inflight > maxInflight {
			maxInflight = inflight
		}
		if res.Fail == "" {
			what, dir := "", byte(0)
			switch {
			case int(ctrl.InboundsCount()) != len(in) || int(ctrl.OutboundsCount()) != len(out):
				what = "counters-inconsistent"
			case len(in) > cfg.maxIn || liveIn > cfg.maxIn:
				what, dir = "inbound-limit", 'i'
			case ipOver != "":
				what, dir = "per-ip-limit", 'i'
			case len(out) > cfg.maxOut || liveOut > cfg.maxOut:
				what, dir = "outbound-limit", 'o'
			default:
				for _, ip := range ips {
					if liveIp[ip] > cfg.maxIp {
						what, dir = "per-ip-limit", 'i'
					}
				}
				// the counters must not under-count the established connections (distinct addresses per direction are
				// guaranteed by hasBoundAddr): an under-count is a free slot that does not exist
				if what == "" && len(in) < liveIn {
					what, dir = "inbound-undercount", 'i'
				} else if what == "" && len(out) < liveOut {
					what, dir = "outbound-undercount", 'o'
				}
			}
			if what != "" {
				// classifier: was the violating save preceded, after its own check, by a save of another connection of
				// the same direction (check-then-act), or is the limit exceeded even without such an interleaving?
				cls := what + "-exceeded-without-interleaving"
				if strings.HasSuffix(what, "undercount") {
					cls = what
				}
				if dir != 0 && staleHit[dir] {
					cls = "stale-close-drops-live-record"
				} else if dir != 0 && t.established && t.saveAt == k {
					for _, u := range order {
						if u != t && u.dir == dir && u.saveAt > t.checkAt && u.saveAt < k && u.stage >= 2 && !u.rejected {
							cls = what + "-check-then-act"
						}
					}
				}
				res.Fail = fmt.Sprintf("after op %d (%s): in=%d/%d liveIn=%d perIp=%s/%d out=%d/%d liveOut=%d", k, o, len(in), cfg.maxIn, liveIn,
					strings.Join(ipc, ","), cfg.maxIp, len(out), cfg.maxOut, liveOut)
				res.Class = cls
				sawRace[dir] = true
			}
		}
	}

	// tear down whatever is still in flight so that no goroutine outlives the line
	for _, t := range order {
		switch t.stage {
		case 1:
			if t.dir == 'o' {
				select {
				case t.dialGo <- false:
				default:
				}
			}
			if t.far != nil {
				t.far.Close()
			}
			select {
			case cr := <-t.done:
				if cr.conn != nil {
					cr.conn.Close()
				}
			case <-time.After(stepTimeout):
			}
		case 2:
			t.wrapped.Close()
			t.far.Close()
		}
	}

	res.Out = strings.Join(outs, " | ")
	if len(ops) == 0 {
		res.Out = "-"
	}
	// coverage bucket
	kind := "seq"
	if maxInflight >= 2 {
		kind = "concurrent"
	}
	for _, k := range []string{"full", "ipfull", "dup", "connecting", "self", "hsself", "peerip", "reserved", "dial", "hs"} {
		if rejKinds[k] {
			kind += "+" + k
			break
		}
	}
	if dupDial {
		kind += "+dupdial"
	}
	if nStale > 0 {
		kind += "+again"
	}
	if staleLive {
		kind += "+stalelive"
	}
	if res.Class != "" {
		kind = "VIOLATED:" + res.Class
	}
	res.Kind = kind
	if maxInflight >= 2 || len(rejKinds) > 0 {
		res.Key = line
	}
	return res
}

func main() {
	hx.Main(hx.Prop{
		ID:     "C36",
		Rule:   "schedules over 2-7 connections (inbound from 1-3 remote IPs, outbound dials, shared/duplicate addresses, listen-address clashes, repeated peer ids, self handshakes, reserved-peer filters, handshake and dial failures) with limits 0-3; every op advances one connection of the REAL controller to its next I/O point through net.Pipe handshakes held by the harness. Non-trivial = two or more connections in flight at once, or a rejection branch reached",
		Gen:    gen,
		Exec:   exec,
		Corpus: corpus,
		N:      map[string]int{"quick": 4000, "thorough": 120000},
	})
}
