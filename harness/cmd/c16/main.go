// C16 harness: validation.VerifyTransaction on really signed Ontology-format transactions (all key types, 1..16
// signature sets, 1-of-1 .. m-of-16), raw-script variants, single-byte and structural mutations, malformed scripts.
//
// Output line (compared with the Lean model `ontdrv C16`):
//
//	deser-err | eip
//	code=<ok|sig|payload|PANIC> signed=<sorted SignedAddr|-> sets=<set/set/...|->
//	set = s<#sigs|x>:p<m>.<kid_kid..>|px:v<o|r|p|->:a<addr|x|->     (exported stage functions, same inputs)
//
// Predicate (evaluated on the implementation's outputs only, with the harness' own script grammar and matching):
// accepted => every set has m signatures verifying under m DISTINCT KEYS of its script over sha256d(unsigned bytes),
// payer is one of the derived accounts, SignedAddr is exactly the derived set; a single-byte mutant (claim on the
// line) of an accepted exact-m transaction in the signed content / payer / a signature is rejected; no panic.
package main

import (
	"bytes"
	"encoding/hex"
	"fmt"
	"strings"

	"github.com/ontio/ontology-crypto/ec"
	"github.com/ontio/ontology-crypto/keypair"
	s "github.com/ontio/ontology-crypto/signature"
	"github.com/ontio/ontology/common"
	"github.com/ontio/ontology/common/log"
	"github.com/ontio/ontology/core/program"
	"github.com/ontio/ontology/core/signature"
	"github.com/ontio/ontology/core/types"
	"github.com/ontio/ontology/core/validation"
	ontErrors "github.com/ontio/ontology/errors"
	"verif/harness/internal/hx"
	sg "verif/harness/internal/siggen"
)

type runRes struct {
	out      string
	decoded  bool
	code     string
	tx       *types.Transaction
	signed   []common.Address
	setDiags []string
	preOut   string
	broken   string
	seen     []common.Address
}

func verifyTx(tx *types.Transaction) (code string) {
	defer func() {
		if e := recover(); e != nil {
			code = "PANIC"
		}
	}()
	switch validation.VerifyTransaction(tx) {
	case ontErrors.ErrNoError:
		return "ok"
	case ontErrors.ErrVerifySignature:
		return "sig"
	case ontErrors.ErrTransactionPayload:
		return "payload"
	}
	return "other"
}

// stage diagnostics through the exported functions the validator itself calls
func setDiag(rs types.RawSig, hash []byte, kid map[string]int) string {
	sigs, perr := program.GetParamInfo(rs.Invoke)
	info, ierr := program.GetProgramInfo(rs.Verify)
	sPart := "sx"
	if perr == nil {
		sPart = fmt.Sprintf("s%d", len(sigs))
	}
	if ierr != nil {
		return sPart + ":px:v-:a-"
	}
	var ids []string
	for _, k := range info.PubKeys {
		ids = append(ids, fmt.Sprint(kidOf(k, kid)))
	}
	pPart := fmt.Sprintf("p%d.%s", info.M, strings.Join(ids, "_"))
	m, kn := int(info.M), len(info.PubKeys)
	aPart := "a"
	if kn == 1 {
		a := types.AddressFromPubKey(info.PubKeys[0])
		aPart += hex.EncodeToString(a[:])
	} else {
		keys := append([]keypair.PublicKey{}, info.PubKeys...) // AddressFromMultiPubKeys sorts its argument in place
		a, err := types.AddressFromMultiPubKeys(keys, m)
		if err != nil {
			aPart += "x"
		} else {
			aPart += hex.EncodeToString(a[:])
		}
	}
	vPart := "v-"
	if perr == nil && !(kn > 16 || len(sigs) < m || m > kn || m <= 0) {
		vPart = "v" + func() (r string) {
			defer func() {
				if e := recover(); e != nil {
					r = "p"
				}
			}()
			var err error
			if kn == 1 {
				err = signature.Verify(info.PubKeys[0], hash, sigs[0])
			} else {
				err = signature.VerifyMultiSignature(hash, info.PubKeys, m, sigs)
			}
			if err != nil {
				return "r"
			}
			return "o"
		}()
	}
	return sPart + ":" + pPart + ":" + vPart + ":" + aPart
}

// the oracle's id of a parsed key (KeyID -> kid, built once per line from the K table)
func kidOf(k keypair.PublicKey, kid map[string]int) int {
	if id, ok := kid[sg.KeyID(k)]; ok {
		return id
	}
	return -1
}

func kidTable(byBytes map[string]int) map[string]int {
	out := map[string]int{}
	for kb, id := range byBytes {
		if pk, err := sg.ParseKey([]byte(kb)); err == nil {
			out[sg.KeyID(pk)] = id
		}
	}
	return out
}

func run(raw []byte, kid map[string]int, pre []string) runRes {
	tx, err := types.TransactionFromRawBytes(append([]byte{}, raw...))
	if err != nil {
		return runRes{out: "deser-err"}
	}
	if tx.TxType == types.EIP155 {
		return runRes{out: "eip", decoded: true, tx: tx}
	}
	h := tx.Hash()
	var diags []string
	for _, rs := range tx.Sigs {
		diags = append(diags, setDiag(rs, h[:], kid))
	}
	preOut, broken := sg.ApplyPre(tx, raw, pre)
	code := verifyTx(tx)
	r := runRes{decoded: true, code: code, tx: tx, setDiags: diags, preOut: preOut, broken: broken}
	signed := "-"
	if code == "ok" || code == "payload" {
		r.signed = tx.SignedAddr
		signed = sg.SortedAddrs(tx.SignedAddr)
	}
	ds := "-"
	if len(diags) > 0 {
		ds = strings.Join(diags, "/")
	}
	seen := "-"
	if code != "PANIC" {
		r.seen = tx.GetSignatureAddresses()
		seen = sg.SortedAddrs(r.seen)
	}
	r.out = fmt.Sprintf("code=%s signed=%s sets=%s pre=%s seen=%s", code, signed, ds, preOut, seen)
	return r
}

// ---------------------------------------------------------------------------------------------------------------
// property predicate

type setCheck struct {
	spec    sg.Spec
	sigs    [][]byte
	byIndex bool // m signatures can be matched to m distinct key indexes
	byKey   bool // ... to m distinct keys
	addr    common.Address
}

// matchable: is there an injective assignment of the rows to columns (rows[i] = admissible columns)?
func matchable(rows [][]int, ncol int) bool {
	owner := make([]int, ncol)
	for i := range owner {
		owner[i] = -1
	}
	var try func(i int, seen []bool) bool
	try = func(i int, seen []bool) bool {
		for _, c := range rows[i] {
			if seen[c] {
				continue
			}
			seen[c] = true
			if owner[c] < 0 || try(owner[c], seen) {
				owner[c] = i
				return true
			}
		}
		return false
	}
	for i := range rows {
		if !try(i, make([]bool, ncol)) {
			return false
		}
	}
	return true
}

func libVerify(pub keypair.PublicKey, msg, sigb []byte) (ok bool) {
	defer func() {
		if e := recover(); e != nil {
			ok = false
		}
	}()
	so, err := s.Deserialize(sigb)
	if err != nil {
		return false
	}
	return s.Verify(pub, msg, so)
}

func checkSet(rs types.RawSig, msg []byte) (setCheck, string) {
	var sc setCheck
	sc.spec = sg.SpecParse(rs.Verify)
	if !sc.spec.OK {
		return sc, "accepted-unparsable-verify-script"
	}
	toks, ok := sg.Tokens(rs.Invoke)
	if !ok {
		return sc, "accepted-unparsable-invoke-script"
	}
	for _, t := range toks {
		if t.Kind != 'd' {
			return sc, "accepted-unparsable-invoke-script"
		}
		sc.sigs = append(sc.sigs, t.Data)
	}
	m := sc.spec.M
	if len(sc.sigs) < m {
		return sc, "accepted-too-few-signatures"
	}
	ident := map[string]int{}
	var keyCol []int
	for _, k := range sc.spec.Keys {
		id := sg.KeyID(k)
		if _, ok := ident[id]; !ok {
			ident[id] = len(ident)
		}
		keyCol = append(keyCol, ident[id])
	}
	rowsIdx := make([][]int, m)
	rowsKey := make([][]int, m)
	for i := 0; i < m; i++ {
		seenKey := map[int]bool{}
		for j, k := range sc.spec.Keys {
			if libVerify(k, msg, sc.sigs[i]) {
				rowsIdx[i] = append(rowsIdx[i], j)
				if !seenKey[keyCol[j]] {
					seenKey[keyCol[j]] = true
					rowsKey[i] = append(rowsKey[i], keyCol[j])
				}
			}
		}
	}
	sc.byIndex = matchable(rowsIdx, len(sc.spec.Keys))
	sc.byKey = matchable(rowsKey, len(ident))
	if len(sc.spec.Keys) == 1 {
		sc.addr = types.AddressFromPubKey(sc.spec.Keys[0])
	} else {
		a, err := types.AddressFromMultiPubKeys(append([]keypair.PublicKey{}, sc.spec.Keys...), m)
		if err != nil {
			return sc, "accepted-underivable-address"
		}
		sc.addr = a
	}
	if !sc.byKey {
		if sc.byIndex {
			return sc, "multisig-duplicate-key-counts-twice"
		}
		return sc, "accepted-without-m-valid-signatures"
	}
	return sc, ""
}

// conditions the statement attaches to acceptance; returns (fail, class)
func acceptedConditions(raw []byte, r runRes) (string, string, []setCheck) {
	reg, tx2, ok := sg.Layout(raw)
	_ = reg
	if !ok {
		return "transaction hash is not sha256d of the unsigned bytes (or the layout could not be recomputed)", "hash-not-of-unsigned-bytes", nil
	}
	h := tx2.Hash()
	var checks []setCheck
	derived := map[common.Address]bool{}
	for i, rs := range r.tx.Sigs {
		sc, cls := checkSet(rs, h[:])
		if cls != "" {
			return fmt.Sprintf("accepted, but signature set %d: %s", i, cls), cls, nil
		}
		checks = append(checks, sc)
		derived[sc.addr] = true
	}
	if !derived[r.tx.Payer] {
		return "accepted, but the payer is not one of the derived signer accounts", "payer-not-a-signer", checks
	}
	got := map[common.Address]bool{}
	for _, a := range r.signed {
		got[a] = true
	}
	if len(got) != len(derived) {
		return "SignedAddr is not the set of derived signer accounts", "signedaddr-differs-from-derived", checks
	}
	for a := range derived {
		if !got[a] {
			return "SignedAddr is not the set of derived signer accounts", "signedaddr-differs-from-derived", checks
		}
	}
	return "", "", checks
}

func panicClass(tx *types.Transaction) string {
	for _, rs := range tx.Sigs {
		vt, _ := sg.Tokens(rs.Verify)
		eth, offCurve := false, false
		for _, t := range vt {
			if t.Kind != 'd' {
				continue
			}
			if len(t.Data) > 0 && t.Data[0] == byte(keypair.PK_ETHECDSA) {
				eth = true
			}
			if pk, err := sg.ParseKey(t.Data); err == nil {
				if k, ok := pk.(*ec.PublicKey); ok && !k.Curve.IsOnCurve(k.X, k.Y) {
					offCurve = true
				}
			}
		}
		it, _ := sg.Tokens(rs.Invoke)
		for _, t := range it {
			if eth && t.Kind == 'd' && len(t.Data) >= 2 && len(t.Data) < 65 && t.Data[0] == byte(s.KECCAK256WithECDSA) {
				return "panic:eth-key-short-keccak-signature"
			}
			if offCurve && t.Kind == 'd' && len(t.Data) >= 2 && t.Data[0] == byte(s.SM3withSM2) {
				return "panic:off-curve-key-sm2-signature"
			}
		}
	}
	return "panic"
}

func preShape(pre []string) string {
	var q []string
	for _, p := range pre {
		q = append(q, p[:1])
	}
	return strings.Join(q, ".")
}

// the verdict and the signer list must not depend on what happened to the object before validation
func statePredicate(pl sg.PLine, r runRes, sigsOK bool) (string, string) {
	if r.broken != "" {
		return r.broken, "read-only-getter-broken"
	}
	if sigsOK && sg.SortedAddrs(r.seen) != sg.SortedAddrs(r.signed) {
		return "GetSignatureAddresses() after an accepting validation differs from the validator's signer set", "seen-after-validation-differs"
	}
	if len(pl.Pre) == 0 {
		return "", ""
	}
	fresh, err := types.TransactionFromRawBytes(append([]byte{}, pl.Raw...))
	if err != nil {
		return "", ""
	}
	fc := verifyTx(fresh)
	if fc != r.code {
		return fmt.Sprintf("verdict %s after %s on the object, %s on a freshly decoded copy", r.code, preShape(pl.Pre), fc), "verdict-depends-on-object-state"
	}
	if sigsOK && sg.SortedAddrs(fresh.SignedAddr) != sg.SortedAddrs(r.signed) {
		return "signer set depends on the state of the object before validation", "signers-depend-on-object-state"
	}
	return "", ""
}

func tagBucket(tag string) string {
	q := strings.Split(tag, ":")
	if q[0] == "valid" && len(q) == 2 {
		n := 0
		fmt.Sscan(q[1], &n)
		switch {
		case n == 1:
			return "valid:1set"
		case n <= 3:
			return "valid:2-3sets"
		case n <= 8:
			return "valid:4-8sets"
		default:
			return "valid:9-16sets"
		}
	}
	if q[0] == "corpus" {
		return "corpus"
	}
	if q[0] == "raw" && strings.Contains(tag, "+") {
		return "raw:combined"
	}
	return tag
}

func exec(line string) hx.Result {
	res := exec1(line)
	sg.Limit(&res)
	return res
}

func exec1(line string) hx.Result {
	pl, ok := sg.ParseLine(line)
	if !ok {
		return hx.Result{Out: "bad-op", Kind: "bad-op"}
	}
	r := run(pl.Raw, kidTable(pl.KeyID), pl.Pre)
	res := hx.Result{Out: r.out}
	if !r.decoded {
		res.Kind = tagBucket(pl.Tag) + " -> deser-err"
		if pl.MutOff >= 0 {
			res.Key = "m" + hex.EncodeToString(sg.Sha256d(pl.Raw)[:8])
		}
		return res
	}
	if r.tx.TxType == types.EIP155 {
		res.Kind = tagBucket(pl.Tag) + " -> eip"
		return res
	}
	res.Kind = tagBucket(pl.Tag) + " -> " + r.code
	res.Key = hex.EncodeToString(sg.Sha256d(pl.Raw)[:8]) + strings.Join(pl.Pre, ".")
	if len(pl.Pre) > 0 {
		res.Kind += " [pre:" + pl.Pre[0][:1] + "]"
	}
	h := r.tx.Hash()
	if !bytes.Equal(h[:], pl.M) {
		res.Fail, res.Class = "line oracle is for another hash", "harness-oracle"
		return res
	}
	if r.code == "PANIC" {
		res.Class = panicClass(r.tx)
		res.Fail = "validation.VerifyTransaction panicked (" + res.Class + "): a remote peer can crash the validator worker"
		return res
	}
	accepted := r.code == "ok"
	sigsOK := r.code == "ok" || r.code == "payload" // signature stage passed
	var obs []string
	if sigsOK {
		fail, cls, checks := acceptedConditions(pl.Raw, r)
		if fail != "" {
			res.Fail, res.Class = fail, cls
			return res
		}
		for _, c := range checks {
			if len(c.sigs) > c.spec.M {
				obs = append(obs, "surplus-signature-tolerated")
				break
			}
		}
		if strings.HasPrefix(pl.Tag, "sigenc:3") {
			obs = append(obs, "malleated-(r,n-s)-accepted")
		} else if strings.HasPrefix(pl.Tag, "sigenc:") {
			obs = append(obs, "re-encoded-signature-accepted")
		}
	}
	if fail, cls := statePredicate(pl, r, sigsOK); fail != "" {
		res.Fail, res.Class = fail, cls
		return res
	}
	if pl.MutOff >= 0 {
		base := append([]byte{}, pl.Raw...)
		base[pl.MutOff] = pl.MutOld
		reg, btx, ok := sg.Layout(base)
		if !ok || verifyTx(btx) != "ok" {
			// the claim only binds for mutants of accepted transactions (wasm-deploy bases are rejected by the payload check)
			res.Kind += " (base not accepted)"
			return res
		}
		exact := true
		for _, rs := range btx.Sigs {
			sp := sg.SpecParse(rs.Verify)
			toks, _ := sg.Tokens(rs.Invoke)
			if !sp.OK || len(toks) != sp.M {
				exact = false
			}
		}
		g := reg[pl.MutOff]
		if sigsOK && exact && (g.Name == "signed" || g.Name == "payer" || g.Name == "sigdata") {
			cls := "mutation-accepted:" + g.Name
			if g.Name == "sigdata" {
				kind := "?"
				bh := btx.Hash()
				sp := sg.SpecParse(btx.Sigs[g.Set].Verify)
				toks, _ := sg.Tokens(btx.Sigs[g.Set].Invoke)
				for _, k := range sp.Keys {
					if libVerify(k, bh[:], toks[g.SigIndex].Data) {
						kind = sg.KeyKind(k)
					}
				}
				pos := "body"
				if g.SigOff == g.SigLen-1 {
					pos = "last-byte"
				} else if g.SigOff == 0 {
					pos = "first-byte"
				}
				cls += ":" + kind + ":" + pos
			}
			res.Fail = fmt.Sprintf("single-byte change at offset %d (%s) of an accepted transaction is still accepted", pl.MutOff, g.Name)
			res.Class = cls
			return res
		}
		if accepted {
			obs = append(obs, "mutation-outside-protected-bytes-accepted:"+g.Name)
		}
	}
	if len(obs) > 0 {
		res.Kind += " obs:" + strings.Join(obs, ",")
	}
	return res
}

func main() {
	log.InitLog(log.MaxLevelLog) // no writer = discard; the validator logs every rejected transaction at Info level
	hx.Main(hx.Prop{
		ID: "C16",
		Rule: "transactions signed with real keys (P-224/256/384/521, secp256k1, SM2, Ed25519, Ethereum-type), 1..16 signature sets, 1-of-1..m-of-16, " +
			"canonical and raw-script variants, single-byte mutants of accepted transactions (region-targeted), structural mutations, malformed scripts; " +
			"non-trivial = decodes to an Ontology-format transaction (signature stage reached); key = hash of the raw bytes",
		Gen:    sg.Gen,
		Exec:   exec,
		Corpus: sg.Corpus(),
		N:      map[string]int{"quick": 1500, "thorough": 40000},
	})
}
