// C05 harness: a failed invoke transaction changes nothing except the fee it is charged.
//
// Every case is one transaction executed by the repo's own ledger (ExecuteBlock + SubmitBlock on a solo ledger over
// LevelDB) inside the block [pre-tx, TEST-tx, follower-tx]:
//   - pre-tx (gas price 0) moves 1 unit of ONG between two bystanders: its writes must survive a failing TEST-tx;
//   - follower-tx (gas price 0, trivial script, succeeds and commits the shared transaction cache): if the failed
//     TEST-tx left anything in the cache (no per-tx Reset) it would be committed here and show up in the block's write set.
//
// The VM is the model's black box. Its behaviour for the case is measured on the real VM (ledgerkit.RunVM: the repo's
// execution engine set up exactly as HandleInvokeTransaction does, on the state before the block) and written on
// the op line by the generator; Exec re-measures it and refuses lines whose oracle fields do not reproduce.
//
// Line: T kind arg pad gasPrice gasLimit balUnits balFrac payerIsSigner codeLen vmRan given gasLeft ok internalErr payerAfterExecFine otherWrites execEvents
package main

import (
	"bytes"
	"fmt"
	"math/big"
	"os"
	"os/exec"
	"path/filepath"
	"strconv"
	"strings"
	"time"

	"github.com/ontio/ontology/account"
	"github.com/ontio/ontology/common"
	"github.com/ontio/ontology/core/types"
	"github.com/ontio/ontology/smartcontract/event"
	ninit "github.com/ontio/ontology/smartcontract/service/native/init"
	"github.com/ontio/ontology/smartcontract/service/native/ont"
	nutils "github.com/ontio/ontology/smartcontract/service/native/utils"
	"verif/harness/internal/hx"
	"verif/harness/internal/ledgerkit"
)

const (
	unit       = 1000000000
	minTxGas   = 20000
	loopGasCap = 400000 // generator never lets an endless-loop script start with more gas than this
)

type world struct {
	kit   *ledgerkit.Kit
	book  *account.Account
	x, y  *account.Account // bystanders of the pre-tx
	other *account.Account // receiver of the scripts' transfers / approvals
	nonce uint32
	dir   string
}

var theWorld *world

func getWorld() *world {
	if theWorld != nil {
		return theWorld
	}
	w := &world{}
	w.dir = ledgerkit.TmpDir("c05")
	w.book = ledgerkit.NewAccount()
	k, err := ledgerkit.Open(w.dir, w.book)
	if err != nil {
		panic(err)
	}
	w.kit = k
	w.x, w.y, w.other = ledgerkit.NewAccount(), ledgerkit.NewAccount(), ledgerkit.NewAccount()
	// give x something to move in the pre-txs
	tx, err := ledgerkit.TransferTx(w.book, w.x.Address, "ong", 1000000000, 0, 20000, w.nextNonce())
	if err != nil {
		panic(err)
	}
	w.mustAdd([]*types.Transaction{tx})
	if g := ledgerkit.GasTable()["Invoke.Code.Gas"]; g != 20000 {
		panic(fmt.Sprintf("unexpected Invoke.Code.Gas %d", g))
	}
	theWorld = w
	return w
}

func (w *world) nextNonce() uint32 { w.nonce++; return w.nonce }

func (w *world) mustAdd(txs []*types.Transaction) {
	blk, err := w.kit.MakeBlock(txs)
	if err != nil {
		panic(err)
	}
	if err := w.kit.Add(blk); err != nil {
		panic(err)
	}
}

type scen struct {
	kind             string
	arg              uint64
	pad              int
	gp, gl, bal, frc uint64
	wit              bool
}

type oracle struct {
	codeLen                    int
	vmRan                      bool
	given, left                uint64
	ok, ierr                   bool
	after                      *big.Int
	nw, nn                     int
}

func (s scen) String() string {
	return fmt.Sprintf("T %s %d %d %d %d %d %d %s", s.kind, s.arg, s.pad, s.gp, s.gl, s.bal, s.frc, hx.B(s.wit))
}
func (o oracle) String() string {
	return fmt.Sprintf("%d %s %d %d %s %s %s %d %d", o.codeLen, hx.B(o.vmRan), o.given, o.left, hx.B(o.ok), hx.B(o.ierr), o.after.String(), o.nw, o.nn)
}

// prepared: accounts funded and the transaction built for a scenario
type prepared struct {
	payer, signer *account.Account
	tx            *types.Transaction
	code          []byte
}

var prepCache = map[string]*prepared{}

// script builds the NeoVM code of a scenario. pad > 0 appends RET + pad bytes (never executed; only lengthens the code).
func (w *world) script(s scen, payer common.Address) []byte {
	var code []byte
	must := func(b []byte, err error) []byte {
		if err != nil {
			panic(err)
		}
		return b
	}
	switch s.kind {
	case "ok":
		code = []byte{0x51}
	case "nop": // arg NOPs then PUSH1
		code = append(bytes.Repeat([]byte{0x61}, int(s.arg)), 0x51)
	case "throw": // arg NOPs then THROW
		code = append(bytes.Repeat([]byte{0x61}, int(s.arg)), 0xf0)
	case "loop": // JMP +0: jumps to itself for ever
		code = []byte{0x62, 0x00, 0x00}
	case "badop":
		code = []byte{0x51, 0xff}
	case "xfer":
		code = must(ledgerkit.OngTransferCode(payer, w.other.Address, s.arg))
	case "xferthrow":
		code = append(must(ledgerkit.OngTransferCode(payer, w.other.Address, s.arg)), 0xf0)
	case "approve":
		code = must(ledgerkit.OngApproveCode(payer, w.other.Address, s.arg))
	case "approvethrow":
		code = append(must(ledgerkit.OngApproveCode(payer, w.other.Address, s.arg)), 0xf0)
	case "tfromdel": // ONG transferFrom(other <- payer, arg) by `other` with an allowance of exactly arg (set up before) and arg above
		// the payer's balance: the allowance is consumed (its key is DELETED in the cache), then the debit fails —
		// a failed execution whose only cache entry is a deletion
		code = must(ledgerkit.NativeCode(nutils.OngContractAddress, "transferFrom", []interface{}{ont.NewTransferFromState(w.other.Address, payer, w.other.Address, s.arg)}))
	case "steal": // transfer out of the bookkeeper's account, who does not sign
		code = must(ledgerkit.OngTransferCode(w.book.Address, w.other.Address, s.arg))
	case "ontxfer": // ONT transfer (payer has none): native error
		code = must(ledgerkit.NativeCode(nutils.OntContractAddress, "transfer", []interface{}{[]*ont.TransferState{{From: payer, To: w.other.Address, Value: s.arg}}}))
	case "dpos": // the system transaction code: never charged
		code = append([]byte{}, ninit.COMMIT_DPOS_BYTES...)
	default:
		panic("unknown kind " + s.kind)
	}
	if s.pad > 0 && s.kind != "dpos" {
		code = append(code, 0x66)
		code = append(code, make([]byte, s.pad)...)
	}
	return code
}

func (w *world) prepare(s scen) *prepared {
	p := &prepared{payer: ledgerkit.NewAccount()}
	p.signer = p.payer
	if !s.wit {
		p.signer = ledgerkit.NewAccount()
	}
	var fund []*types.Transaction
	if s.bal > 0 {
		tx, err := ledgerkit.TransferTx(w.book, p.payer.Address, "ong", s.bal, 0, 20000, w.nextNonce())
		if err != nil {
			panic(err)
		}
		fund = append(fund, tx)
	}
	if s.frc > 0 {
		tx, err := ledgerkit.OngTransferV2Tx(w.book, p.payer.Address, new(big.Int).SetUint64(s.frc), w.nextNonce())
		if err != nil {
			panic(err)
		}
		fund = append(fund, tx)
	}
	signers := []*account.Account{p.signer}
	if s.kind == "tfromdel" {
		ac, err := ledgerkit.OngApproveCode(p.payer.Address, w.other.Address, s.arg)
		if err != nil {
			panic(err)
		}
		atx, err := ledgerkit.InvokeTx(ac, 0, 30000, w.nextNonce(), nil, p.payer)
		if err != nil {
			panic(err)
		}
		fund = append(fund, atx)
		signers = append(signers, w.other)
	}
	if len(fund) > 0 {
		w.mustAdd(fund)
	}
	p.code = w.script(s, p.payer.Address)
	tx, err := ledgerkit.InvokeTx(p.code, s.gp, s.gl, w.nextNonce(), &p.payer.Address, signers...)
	if err != nil {
		panic(err)
	}
	p.tx = tx
	return p
}

// mirrorGiven is the generator's own computation of the gas the VM is started with. It only decides with how much gas
// the oracle run is made; the Lean model recomputes it on every line (`given-mismatch` otherwise) and the real
// transaction is compared with the model, so an error here cannot hide a defect of the code under check.
func mirrorGiven(s scen, codeLen int) (bool, uint64) {
	if s.kind == "dpos" || s.gp == 0 {
		return true, s.gl
	}
	codeGas := uint64(codeLen/1024) * 20000
	if s.bal < minTxGas*s.gp || s.bal < codeGas*s.gp || s.gl < codeGas {
		return false, 0
	}
	avail := s.gl
	if m := s.bal / s.gp; avail > m {
		avail = m
	}
	return true, avail - codeGas
}

func (w *world) testBlock(p *prepared) *types.Block {
	pre, err := ledgerkit.TransferTx(w.x, w.y.Address, "ong", 1, 0, 20000, w.nextNonce())
	if err != nil {
		panic(err)
	}
	fol, err := ledgerkit.InvokeTx([]byte{0x51}, 0, 20000, w.nextNonce(), nil, w.book)
	if err != nil {
		panic(err)
	}
	blk, err := w.kit.MakeBlock([]*types.Transaction{pre, p.tx, fol})
	if err != nil {
		panic(err)
	}
	return blk
}

// measure runs the VM oracle on the state before the block.
func (w *world) measure(s scen, p *prepared, blk *types.Block, vmRan bool, given uint64) oracle {
	o := oracle{codeLen: len(p.code), vmRan: vmRan, given: given, after: new(big.Int)}
	if !vmRan {
		return o
	}
	out := w.kit.RunVM(p.tx, blk, given)
	o.left, o.ok, o.ierr, o.nn = out.GasLeft, out.Err == nil, out.InternalErr, out.Notifs
	after, err := ledgerkit.OngFineCache(out.Cache, p.payer.Address)
	if err != nil {
		panic(err)
	}
	o.after = after
	// writes of the execution other than the payer's / governance ONG balance: probe the keys the scripts can touch
	probe := [][]byte{
		ongKey(w.other.Address), ongKey(w.book.Address),
		ont.GenApproveKey(nutils.OngContractAddress, p.payer.Address, w.other.Address),
	}
	fresh := w.kit.Store.GetCacheDB()
	for _, k := range probe {
		a, _ := out.Cache.Get(k)
		b, _ := fresh.Get(k)
		if !bytes.Equal(a, b) {
			o.nw++
		}
	}
	return o
}

func ongKey(a common.Address) []byte { return append(append([]byte{}, nutils.OngContractAddress[:]...), a[:]...) }

var pow2 = func(n uint) uint64 { return uint64(1) << n }

func genScen(r *hx.Rand) scen {
	s := scen{wit: !r.Chance(6)}
	// gas price
	switch r.Intn(14) {
	case 0:
		s.gp = 0
	case 1:
		s.gp = 1
	case 2:
		s.gp = 2
	case 3, 4:
		s.gp = 500
	case 5, 6:
		s.gp = 2500
	case 7:
		s.gp = uint64(1 + r.Intn(100000))
	case 8:
		s.gp = []uint64{pow2(59), pow2(60), pow2(63), 3 * pow2(59)}[r.Intn(4)] // 20000*gp == 0 mod 2^64
	case 9:
		s.gp = []uint64{pow2(59) + 1, pow2(63) + 1, pow2(63) - 1, ^uint64(0), pow2(32), pow2(50)}[r.Intn(6)]
	case 10:
		s.gp = []uint64{922337203685478, 922337203685477, 461168601842739, 461168601842738, 922337203685478 * 2}[r.Intn(5)] // around 2^64/20000, 2^64/40000
	case 11:
		s.gp = r.U64() >> uint(r.Intn(64))
	default:
		s.gp = uint64(1 + r.Intn(3000))
	}
	// script
	kinds := []string{"ok", "nop", "throw", "loop", "badop", "xfer", "xfer", "xferthrow", "approve", "approvethrow", "steal", "ontxfer", "dpos", "throw", "loop", "tfromdel"}
	s.kind = kinds[r.Intn(len(kinds))]
	if r.Chance(25) {
		s.pad = []int{1000, 1030, 2040, 2100, 3500}[r.Intn(5)]
	}
	// gas limit
	switch r.Intn(10) {
	case 0:
		s.gl = []uint64{0, 1, 19999, 20000, 20001, 39999, 40000, 40001}[r.Intn(8)]
	case 1:
		s.gl = []uint64{pow2(63), ^uint64(0), pow2(32), pow2(63) - 1}[r.Intn(4)]
	case 2:
		s.gl = r.U64() >> uint(r.Intn(64))
	default:
		s.gl = uint64(20000 + r.Intn(80000))
	}
	// balance: around the thresholds minGas, codeLenGas*gp, gl*gp, or plenty
	th := []uint64{minTxGas * s.gp, 40000 * s.gp, s.gl * s.gp, 2 * minTxGas * s.gp, 60000 * s.gp}
	switch r.Intn(8) {
	case 0:
		s.bal = 0
	case 1, 2, 3:
		t := th[r.Intn(len(th))]
		s.bal = t + uint64(r.Intn(5)) - 2
	case 4:
		s.bal = uint64(r.Intn(200000)) * (s.gp%100000 + 1)
	default:
		s.bal = 1000000 * unit / 1000 // 1000 ONG... plenty for ordinary prices
	}
	if s.bal > 2000000*unit { // keep the bookkeeper solvent over a long run
		s.bal = uint64(r.Intn(2000000)) * unit / 7
	}
	if r.Chance(30) {
		s.frc = uint64(r.Intn(unit))
	}
	// script argument
	switch s.kind {
	case "nop", "throw":
		s.arg = uint64([]int{0, 1, 5, 1000, 19999, 20000, 20001, 25000}[r.Intn(8)])
	case "tfromdel":
		s.arg = s.bal + uint64(1+r.Intn(1000)) // above the balance: the debit fails after the allowance was consumed
		if r.Chance(20) {
			s.arg = s.bal/2 + 1 // affordable: the transfer succeeds
		}
	case "xfer", "xferthrow", "approve", "approvethrow", "steal", "ontxfer":
		switch r.Intn(5) {
		case 0:
			s.arg = s.bal
		case 1:
			s.arg = s.bal + 1
		case 2:
			s.arg = s.bal - s.bal/3
		case 3:
			s.arg = s.bal - minTxGas*s.gp + uint64(r.Intn(3)) - 1 // leaves about the minimum fee
		default:
			s.arg = uint64(1 + r.Intn(1000))
		}
		if s.arg == 0 {
			s.arg = 1
		}
	}
	return s
}

func gen(r *hx.Rand, tier string, i int) string {
	w := getWorld()
	for {
		s := genScen(r)
		p := w.prepare(s)
		vmRan, given := mirrorGiven(s, len(p.code))
		if s.kind == "loop" && vmRan && given > loopGasCap {
			continue // would spin for ever (finding gaslimit-underflow: exercised by the time-bounded `U` corpus line); account stays funded, harmless
		}
		if (s.kind == "nop" || s.kind == "throw") && s.pad == 0 && false {
			continue
		}
		blk := w.testBlock(p)
		o := w.measure(s, p, blk, vmRan, given)
		line := s.String() + " " + o.String()
		prepCache[line] = p
		return line
	}
}

func parse(line string) (scen, oracle, bool) {
	f := strings.Fields(line)
	if len(f) != 18 || f[0] != "T" {
		return scen{}, oracle{}, false
	}
	u := func(s string) uint64 { v, err := strconv.ParseUint(s, 10, 64); if err != nil { panic("bad number " + s) }; return v }
	s := scen{kind: f[1], arg: u(f[2]), pad: int(u(f[3])), gp: u(f[4]), gl: u(f[5]), bal: u(f[6]), frc: u(f[7]), wit: f[8] == "1"}
	after, ok := new(big.Int).SetString(f[15], 10)
	if !ok {
		panic("bad number " + f[15])
	}
	o := oracle{codeLen: int(u(f[9])), vmRan: f[10] == "1", given: u(f[11]), left: u(f[12]), ok: f[13] == "1", ierr: f[14] == "1", after: after, nw: int(u(f[16])), nn: int(u(f[17]))}
	return s, o, true
}

func execLine(line string) (res hx.Result) {
	if strings.HasPrefix(line, "U ") {
		return execUnbounded(line)
	}
	s, o, ok := parse(line)
	if !ok {
		return hx.Result{Out: "bad-op", Kind: "bad-op"}
	}
	w := getWorld()
	p := prepCache[line]
	delete(prepCache, line)
	if p == nil {
		p = w.prepare(s)
	}
	blk := w.testBlock(p)
	if os.Getenv("C05_MKLINE") != "" { // corpus helper: complete a scenario (oracle fields ignored) into a full line
		vmRan, given := mirrorGiven(s, len(p.code))
		return hx.Result{Out: s.String() + " " + w.measure(s, p, blk, vmRan, given).String()}
	}
	// the oracle fields of the line must reproduce on the real VM (with the gas stated on the line)
	if o2 := w.measure(s, p, blk, o.vmRan, o.given); o2.String() != o.String() {
		return hx.Result{Out: "oracle-mismatch " + o2.String(), Kind: "oracle-mismatch", Fail: "VM oracle fields of the line do not reproduce: " + o2.String(), Class: "oracle-mismatch"}
	}
	kind := s.kind
	if !o.vmRan {
		kind += "/precheck"
	} else if o.ok {
		kind += "/vm-ok"
	} else {
		kind += "/vm-err"
	}
	defer func() {
		if e := recover(); e != nil {
			msg := fmt.Sprint(e)
			res = hx.Result{Out: "PANIC", Kind: kind + "/panic", Key: line, Fail: "go panic while executing the block: " + msg, Class: "panic"}
			if strings.Contains(msg, "divide by zero") {
				res.Class = "tune-gasround-zero-div" // repaired in /repo 5c254519; a reversion shows up under this class
			}
		}
	}()
	gov := nutils.GovernanceContractAddress
	payerBefore, _ := w.kit.OngFine(p.payer.Address)
	govBefore, _ := w.kit.OngFine(gov)
	yBefore, _ := w.kit.OngFine(w.y.Address)
	r, err := w.kit.Exec(blk)
	if err != nil {
		return hx.Result{Out: "BLOCKERR", Kind: kind + "/blockerr", Fail: "block rejected: " + err.Error(), Class: "block-rejected"}
	}
	if len(r.Notify) != 3 {
		return hx.Result{Out: "BLOCKERR", Kind: kind + "/notify-count", Fail: "notify count", Class: "notify-count"}
	}
	n := r.Notify[1]
	// classify the block's write set
	payerKey, govKey := string(ledgerkit.OngKey(p.payer.Address)), string(ledgerkit.OngKey(gov))
	preKeys := map[string]bool{string(ledgerkit.OngKey(w.x.Address)): true, string(ledgerkit.OngKey(w.y.Address)): true}
	payerAfter, govAfter := new(big.Int).Set(payerBefore), new(big.Int).Set(govBefore)
	otherWrites, preSeen := 0, 0
	var otherKeys []string
	r.WriteSet.ForEach(func(key, val []byte) {
		k := string(key)
		switch {
		case k == payerKey:
			payerAfter = itemBalance(val)
		case k == govKey:
			govAfter = itemBalance(val)
		case preKeys[k]:
			preSeen++
		default:
			otherWrites++
			otherKeys = append(otherKeys, fmt.Sprintf("%x", key))
		}
	})
	if err := w.kit.Submit(blk, r); err != nil {
		return hx.Result{Out: "BLOCKERR", Kind: kind + "/submit", Fail: "submit: " + err.Error(), Class: "submit-failed"}
	}
	// persisted state = write set
	pp, _ := w.kit.OngFine(p.payer.Address)
	gg, _ := w.kit.OngFine(gov)
	yAfter, _ := w.kit.OngFine(w.y.Address)
	st := 0
	if n.State == event.CONTRACT_STATE_SUCCESS {
		st = 1
	}
	govd := new(big.Int).Sub(govAfter, govBefore)
	res = hx.Result{Kind: fmt.Sprintf("%s/st%d", kind, st), Key: fmt.Sprintf("%s|%d|%d|%v|%d", kind, st, n.GasConsumed, s.wit, s.gp)}
	res.Out = fmt.Sprintf("st=%d gas=%d ev=%d payer=%s govd=%s rest=%d", st, n.GasConsumed, len(n.Notify), payerAfter, govd, otherWrites)
	fail := func(class, msg string) {
		if res.Fail == "" {
			res.Fail, res.Class = msg, class
		}
	}
	if pp.Cmp(payerAfter) != 0 || gg.Cmp(govAfter) != 0 {
		fail("persisted-ne-writeset", fmt.Sprintf("persisted balances %s/%s differ from the executed write set %s/%s", pp, gg, payerAfter, govAfter))
	}
	if preSeen != 2 || new(big.Int).Sub(yAfter, yBefore).Cmp(big.NewInt(unit)) != 0 {
		fail("earlier-tx-lost", "the writes of the transaction preceding the test transaction in the block are not in the result")
	}
	if st == 0 {
		moved := new(big.Int).Mul(new(big.Int).SetUint64(n.GasConsumed), big.NewInt(unit))
		paid := new(big.Int).Sub(payerBefore, payerAfter)
		if otherWrites != 0 {
			fail("fail-leaves-writes:"+strings.Split(kind, "/")[0], "failed transaction left storage writes other than the fee: "+strings.Join(otherKeys, ","))
		}
		if moved.Cmp(payerBefore) > 0 {
			fail("fee-exceeds-balance", fmt.Sprintf("reported fee %s exceeds the payer's balance %s", moved, payerBefore))
		}
		if paid.Cmp(moved) != 0 || govd.Cmp(moved) != 0 {
			fail("reported-ne-moved", fmt.Sprintf("GasConsumed*1e9=%s but payer paid %s and governance received %s", moved, paid, govd))
		}
	}
	return res
}

const unboundedWait = 4 * time.Second

// execUnbounded runs a `U` line (endless script in the gas-limit-underflow situation) in a child process with its own
// ledger and a time bound: executeBlock not returning is the observation UNBOUNDED.
func execUnbounded(line string) hx.Result {
	f := strings.Fields(line)
	if len(f) != 10 {
		return hx.Result{Out: "bad-op", Kind: "bad-op"}
	}
	tmp := filepath.Join(ledgerkit.TmpDir("c05u"), "child")
	defer os.RemoveAll(filepath.Dir(tmp))
	cmd := exec.Command(os.Args[0])
	cmd.Env = append(os.Environ(), "C05_CHILD="+line, "HX_TMP="+tmp)
	var out strings.Builder
	cmd.Stdout = &out
	if err := cmd.Start(); err != nil {
		panic(err)
	}
	done := make(chan error, 1)
	go func() { done <- cmd.Wait() }()
	select {
	case <-done:
		o := strings.TrimSpace(out.String())
		if !strings.HasPrefix(o, "st=") {
			return hx.Result{Out: "CHILD-FAILED " + o, Kind: "U/child-failed", Fail: "child process failed: " + o, Class: "child-failed"}
		}
		return hx.Result{Out: o, Kind: "U/returned", Key: line}
	case <-time.After(unboundedWait):
		cmd.Process.Kill()
		<-done
		return hx.Result{Out: "UNBOUNDED", Kind: "U/unbounded", Key: line, Class: "gaslimit-underflow",
			Fail: fmt.Sprintf("executeBlock did not return within %s: an endless script was started with ~2^64 gas although gasLimit/balance allow none (availableGasLimit - codeLenGasLimit underflowed)", unboundedWait)}
	}
}

// childMain executes one U line on a fresh ledger and prints the result line.
func childMain(line string) {
	f := strings.Fields(line)
	s, _, ok := parse("T " + strings.Join(f[1:9], " ") + " " + f[9] + " 0 0 0 0 0 0 0 0")
	if !ok {
		fmt.Println("bad-op")
		return
	}
	w := getWorld()
	defer func() { w.kit.Close(); os.RemoveAll(w.dir) }()
	p := w.prepare(s)
	blk := w.testBlock(p)
	govBefore, _ := w.kit.OngFine(nutils.GovernanceContractAddress)
	payerBefore, _ := w.kit.OngFine(p.payer.Address)
	r, err := w.kit.Exec(blk)
	if err != nil || len(r.Notify) != 3 {
		fmt.Println("BLOCKERR", err)
		return
	}
	n := r.Notify[1]
	payerAfter, govAfter, other := payerBefore, govBefore, 0
	payerKey, govKey := string(ledgerkit.OngKey(p.payer.Address)), string(ledgerkit.OngKey(nutils.GovernanceContractAddress))
	preKeys := map[string]bool{string(ledgerkit.OngKey(w.x.Address)): true, string(ledgerkit.OngKey(w.y.Address)): true}
	r.WriteSet.ForEach(func(key, val []byte) {
		switch k := string(key); {
		case k == payerKey:
			payerAfter = itemBalance(val)
		case k == govKey:
			govAfter = itemBalance(val)
		case preKeys[k]:
		default:
			other++
		}
	})
	st := 0
	if n.State == event.CONTRACT_STATE_SUCCESS {
		st = 1
	}
	fmt.Printf("st=%d gas=%d ev=%d payer=%s govd=%s rest=%d\n", st, n.GasConsumed, len(n.Notify), payerAfter, new(big.Int).Sub(govAfter, govBefore), other)
}

func itemBalance(raw []byte) *big.Int {
	if len(raw) == 0 {
		return new(big.Int)
	}
	// raw state-store value = serialized StorageItem
	b, err := ledgerkit.BalanceFromRawItem(raw)
	if err != nil {
		panic(err)
	}
	return b
}

func main() {
	if l := os.Getenv("C05_CHILD"); l != "" {
		childMain(l)
		return
	}
	defer func() {
		if theWorld != nil {
			theWorld.kit.Close()
			os.RemoveAll(theWorld.dir)
		}
	}()
	hx.Main(hx.Prop{
		ID:   "C05",
		Rule: "one NeoVM/native invoke transaction per case, executed by ExecuteBlock+SubmitBlock on a real solo ledger between a preceding and a following transaction; scripts: ok, NOP runs, THROW, endless loop, bad opcode, ONG transfer/approve (with and without a trailing THROW), transferFrom that consumes (deletes) its allowance and then fails on the debit, transfer from a non-signer, ONT transfer without funds, the system commitDpos code; code padded across the 1 KiB fee steps; gas price in {0,1,2,500,2500,random,2^59k (20000*p=0 mod 2^64), 2^63±1, 2^64-1, around 2^64/20000 and 2^64/40000}; gas limit in {0,1,19999..40001, 2^63, 2^64-1, random}; payer balance around 20000p, 40000p, limit*p, with sub-unit fractions; payer not among the signers in 6%. Non-trivial key = (script/branch, state, gas consumed, signer flag, price)",
		Gen:  gen,
		Exec: execLine,
		N:    map[string]int{"quick": 700, "thorough": 12000},
	})
}
