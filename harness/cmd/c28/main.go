// C28 harness: behavioural tie for the quorum formulas that factgen extracts from source.
//   CC N C k dup : k distinct signer indexes recorded for one proposer (dup=1: the proposer itself is one of them)
//                  -> does the real getCommitConsensus declare consensus?
//   AB n         : which m does AddressFromBookkeepers use for n real keys?
package main

import (
	"fmt"
	"math"
	"strings"

	"github.com/ontio/ontology-crypto/keypair"
	"github.com/ontio/ontology/consensus/vbft"
	"github.com/ontio/ontology/core/types"
	"verif/harness/internal/hx"
)

var keys []keypair.PublicKey

func initKeys() {
	for i := 0; i < 20; i++ {
		_, pub, err := keypair.GenerateKeyPair(keypair.PK_ECDSA, keypair.P256)
		if err != nil {
			panic(err)
		}
		keys = append(keys, pub)
	}
}

func gen(r *hx.Rand, tier string, i int) string {
	if r.Chance(8) {
		return fmt.Sprintf("AB %d", r.Intn(19))
	}
	N := 1 + r.Intn(40)
	if r.Chance(30) {
		N = 3*(1+r.Intn(12)) + 1
	}
	C := (N - 1) / 3
	if r.Chance(20) && C > 0 {
		C = r.Intn(C + 1)
	}
	q := N - (N-1)/3
	k := q - 2 + r.Intn(4)
	if k < 0 || r.Chance(15) {
		k = r.Intn(N + 1)
	}
	return fmt.Sprintf("CC %d %d %d %d", N, C, k, r.Intn(2))
}

func exec(line string) hx.Result {
	f := strings.Fields(line)
	switch f[0] {
	case "CC":
		var N, C, k, dup int
		fmt.Sscan(f[1], &N)
		fmt.Sscan(f[2], &C)
		fmt.Sscan(f[3], &k)
		fmt.Sscan(f[4], &dup)
		const proposer = 1000
		// k distinct signer indexes, spread over commit messages: half as committers, half claimed as endorsers
		var signers []uint32
		for i := 0; i < k; i++ {
			signers = append(signers, uint32(i))
		}
		if dup == 1 && k > 0 {
			signers[0] = proposer
		}
		var msgs []vbft.VerifCommit
		i := 0
		for i < len(signers) {
			m := vbft.VerifCommit{Committer: signers[i], Proposer: proposer}
			i++
			if i < len(signers) {
				m.Endorsers = append(m.Endorsers, signers[i])
				i++
			}
			msgs = append(msgs, m)
		}
		p, _ := vbft.VerifGetCommitConsensus(msgs, C, N)
		reached := p != math.MaxUint32
		res := hx.Result{Out: hx.B(reached), Key: line, Kind: fmt.Sprintf("cc-reached=%v-dup=%d", reached, dup)}
		if reached {
			distinct := k + 1
			if dup == 1 && k > 0 {
				distinct = k
			}
			// the property's threshold: two such sets must intersect outside C faulty peers: need 2*distinct >= N + C + 1 for N >= 3C+1
			if N >= 3*C+1 && 2*distinct < N+C+1 && C == (N-1)/3 {
				res.Fail = fmt.Sprintf("commit consensus declared with %d distinct vouching peers (N=%d, C=%d): two such sets need not share an honest peer", distinct, N, C)
				if dup == 1 {
					res.Class = "commit-consensus-proposer-counted-twice"
				} else {
					res.Class = "commit-consensus-threshold-too-low"
				}
			}
		}
		return res
	case "AB":
		var n int
		fmt.Sscan(f[1], &n)
		addr, err := types.AddressFromBookkeepers(keys[:n])
		if n == 1 {
			if err != nil || addr != types.AddressFromPubKey(keys[0]) {
				return hx.Result{Out: "err", Key: line}
			}
			return hx.Result{Out: "single", Key: line, Kind: "ab-single"}
		}
		if err != nil {
			return hx.Result{Out: "err", Key: line, Kind: "ab-err"}
		}
		for m := 1; m <= n; m++ {
			a, e := types.AddressFromMultiPubKeys(keys[:n], m)
			if e == nil && a == addr {
				res := hx.Result{Out: fmt.Sprint(m), Key: line, Kind: "ab-multi"}
				C := (n - 1) / 3
				if 2*m < n+C+1 {
					res.Fail = fmt.Sprintf("bookkeeper address threshold m=%d of n=%d is not a quorum", m, n)
					res.Class = "bookkeeper-address-threshold-too-low"
				}
				return res
			}
		}
		return hx.Result{Out: "nomatch", Key: line, Fail: "no m reproduces the bookkeeper address", Class: "bookkeeper-address-unexplained"}
	}
	return hx.Result{Out: "bad-op"}
}

func main() {
	var corpus []string
	for n := 0; n <= 18; n++ {
		corpus = append(corpus, fmt.Sprintf("AB %d", n))
	}
	for _, N := range []int{1, 2, 3, 4, 7, 10, 13, 31} {
		q := N - (N-1)/3
		for k := q - 2; k <= q; k++ {
			if k >= 0 {
				corpus = append(corpus, fmt.Sprintf("CC %d %d %d 0", N, (N-1)/3, k), fmt.Sprintf("CC %d %d %d 1", N, (N-1)/3, k))
			}
		}
	}
	hx.Main(hx.Prop{
		ID:     "C28",
		Rule:   "CC: (N,C,k,dup) around the commit threshold k+1 >= N-(N-1)/3 through the real getCommitConsensus (verif hook), messages mixing committers and claimed endorsers; AB: every bookkeeper-set size 0..18 with real P-256 keys. Non-trivial = distinct line",
		Gen:    gen,
		Exec:   exec,
		Init:   initKeys,
		Corpus: corpus,
		N:      map[string]int{"quick": 3000, "thorough": 200000},
	})
}
