// C03 harness: histories of Put/Delete/Reset on a real OverlayDB (skip-list MemDB) over a PRE-POPULATED memory LevelDB
// (`s:k:v` = store.Put before/while the overlay exists; the generator is biased towards writing the value that is
// currently visible through the overlay, incl. values that only exist in the backing store).
// Output = ForEach dump, Len, Size, MemDB.Get probes, OverlayDB.Get probes (compared with the Lean model). Predicate on the implementation's own
// outputs: dump strictly sorted and equal to the final content; ChangeHash = sha256 over the dump; and three OTHER
// operation orders reaching the same final content (ascending, descending, scrambled with redundant overwrites and
// delete-then-recreate) give the same ChangeHash and the same write set.
package main

import (
	"bytes"
	"crypto/sha256"
	"hash/fnv"
	"sort"
	"strconv"
	"strings"

	"github.com/ontio/ontology/core/store/leveldbstore"
	"github.com/ontio/ontology/core/store/overlaydb"
	"verif/harness/internal/hx"
)

var keyAlphabet = []string{"-", "00", "0000", "00ff", "01", "0100", "05", "0500", "0501", "05ff", "ff", "ff00", "ffff", "fe", "7f", "80", "0500ff", "ffffff"}
var valAlphabet = []string{"-", "00", "01", "ff", "0000", "-"}

func genKey(r *hx.Rand, wide bool) string {
	if wide {
		return hx.Hex(r.Bytes(1 + r.Intn(3)))
	}
	switch r.Intn(10) {
	case 0:
		return hx.Hex(r.Bytes(r.Intn(4)))
	case 1:
		n := 5 + r.Intn(60)
		b := bytes.Repeat([]byte{byte(r.Intn(3)) * 0x7f}, n)
		return hx.Hex(b)
	default:
		return r.Pick(keyAlphabet)
	}
}

func genVal(r *hx.Rand) string {
	switch r.Intn(8) {
	case 0:
		return hx.Hex(r.Bytes(1 + r.Intn(40)))
	case 1, 2:
		return hx.Hex(r.Bytes(1 + r.Intn(3)))
	default:
		return r.Pick(valAlphabet)
	}
}

func gen(r *hx.Rand, tier string, i int) string {
	n := 1 + r.Intn(30)
	wide := false
	if r.Chance(2) { // long history over many keys: grows kvData/nodeData beyond the initial capacity (4 KiB / 128 nodes)
		n = 150 + r.Intn(300)
		wide = true
	}
	ops := make([]string, 0, n+8)
	visible := map[string]string{} // what OverlayDB.Get shows for a key right now ("" / absent = nothing)
	stored := map[string]string{}
	touched := map[string]bool{}
	if r.Chance(70) { // pre-populated backing store
		for j := 1 + r.Intn(7); j > 0; j-- {
			k := genKey(r, wide)
			v := genVal(r)
			if v == "-" && r.Chance(80) {
				v = "5a"
			}
			ops = append(ops, "s:"+k+":"+v)
			stored[k] = v
			visible[k] = v
		}
	}
	storedKeys := make([]string, 0, len(stored))
	for k := range stored {
		storedKeys = append(storedKeys, k)
	}
	sort.Strings(storedKeys)
	var last string
	for j := 0; j < n; j++ {
		k := genKey(r, wide)
		if last != "" && r.Chance(25) {
			k = last // same key again: overwrite / delete-then-recreate / double delete
		} else if len(storedKeys) > 0 && r.Chance(35) {
			k = storedKeys[r.Intn(len(storedKeys))] // a key that lives in the backing store
		}
		last = k
		switch x := r.Intn(20); {
		case x < 13:
			v := genVal(r)
			if cur, ok := visible[k]; ok && cur != "-" && r.Chance(45) {
				v = cur // write back exactly what is visible (redundant write: must still be recorded)
			}
			ops = append(ops, "p:"+k+":"+v)
			visible[k] = v
			touched[k] = true
		case x < 19:
			ops = append(ops, "d:"+k)
			visible[k] = "-"
			touched[k] = true
		default:
			if r.Chance(30) {
				ops = append(ops, "r")
				for kk := range touched {
					if sv, ok := stored[kk]; ok {
						visible[kk] = sv
					} else {
						delete(visible, kk)
					}
				}
				touched = map[string]bool{}
			} else {
				v := genVal(r)
				ops = append(ops, "p:"+k+":"+v)
				visible[k] = v
				touched[k] = true
			}
		}
	}
	return "H " + strings.Join(ops, ";")
}

type op struct {
	kind byte // 'p' 'd' 'r' on the overlay, 's' = store.Put
	k, v []byte
}

func parse(s string) ([]op, bool) {
	var out []op
	for _, o := range strings.Split(s, ";") {
		f := strings.Split(o, ":")
		switch {
		case len(f) == 3 && f[0] == "p":
			k, e1 := hx.Unhex(f[1])
			v, e2 := hx.Unhex(f[2])
			if e1 != nil || e2 != nil {
				return nil, false
			}
			out = append(out, op{'p', k, v})
		case len(f) == 3 && f[0] == "s":
			k, e1 := hx.Unhex(f[1])
			v, e2 := hx.Unhex(f[2])
			if e1 != nil || e2 != nil {
				return nil, false
			}
			out = append(out, op{'s', k, v})
		case len(f) == 2 && f[0] == "d":
			k, e1 := hx.Unhex(f[1])
			if e1 != nil {
				return nil, false
			}
			out = append(out, op{'d', k, nil})
		case len(f) == 1 && f[0] == "r":
			out = append(out, op{kind: 'r'})
		default:
			return nil, false
		}
	}
	return out, true
}

// One memory LevelDB per run of `apply` would cost ~5 ms to open: a small pool is reused, each store is emptied before use
// and replaced every 200 uses (old versions pile up in its memtable).
type pooled struct {
	st   *leveldbstore.LevelDBStore
	uses int
}

var pool [1]pooled

func freshStore(slot int) *leveldbstore.LevelDBStore {
	p := &pool[slot]
	if p.st != nil && p.uses >= 200 {
		p.st.Close()
		p.st = nil
	}
	if p.st == nil {
		p.st = leveldbstore.NewMemLevelDBStore()
		p.uses = 0
	}
	p.uses++
	it := p.st.NewIterator(nil)
	var ks [][]byte
	for has := it.First(); has; has = it.Next() {
		ks = append(ks, append([]byte{}, it.Key()...))
	}
	it.Release()
	for _, k := range ks {
		if err := p.st.Delete(k); err != nil {
			panic(err)
		}
	}
	return p.st
}

// apply runs ops on a fresh overlay over an emptied store (pre-populated by the 's' ops of the history) or, for the
// replays of the final content in other orders, over the store as the history left it (they never write to it).
// Arguments are passed in scratch buffers that are clobbered after each call ("it is safe to modify the contents of
// the arguments after Put returns").
func apply(reuse *leveldbstore.LevelDBStore, ops []op) (*overlaydb.OverlayDB, *leveldbstore.LevelDBStore) {
	store := reuse
	if store == nil {
		store = freshStore(0)
	}
	ov := overlaydb.NewOverlayDB(store)
	var ks, vs []byte
	for _, o := range ops {
		ks = append(ks[:0], o.k...)
		vs = append(vs[:0], o.v...)
		switch o.kind {
		case 's':
			if err := store.Put(ks, vs); err != nil {
				panic(err)
			}
		case 'p':
			ov.Put(ks, vs)
		case 'd':
			ov.Delete(ks)
		case 'r':
			ov.Reset()
		}
		for i := range ks {
			ks[i] ^= 0xa5
		}
		for i := range vs {
			vs[i] ^= 0x5a
		}
	}
	return ov, store
}

type kv struct{ k, v []byte }

func dump(ov *overlaydb.OverlayDB) []kv {
	var out []kv
	ov.GetWriteSet().ForEach(func(k, v []byte) {
		out = append(out, kv{append([]byte{}, k...), append([]byte{}, v...)})
	})
	return out
}

func showKVs(l []kv) string {
	if len(l) == 0 {
		return "-"
	}
	s := make([]string, len(l))
	for i, e := range l {
		s[i] = hx.Hex(e.k) + "=" + hx.Hex(e.v)
	}
	return strings.Join(s, ",")
}

func exec(line string) hx.Result {
	f := strings.Fields(line)
	if len(f) != 2 || f[0] != "H" {
		return hx.Result{Out: "bad-op"}
	}
	ops, ok := parse(f[1])
	if !ok {
		return hx.Result{Out: "bad-op"}
	}
	ov, store := apply(nil, ops)
	ws := ov.GetWriteSet()
	d := dump(ov)
	// probes
	var probes [][]byte
	for _, o := range ops {
		if o.kind != 'r' {
			probes = append(probes, o.k)
		}
	}
	probes = append(probes, []byte{}, []byte{0}, []byte{255})
	gets := make([]string, len(probes))
	getOf := func(k []byte) string {
		v, unknown := ws.Get(k)
		if unknown {
			return "?"
		}
		return hx.Hex(v)
	}
	for i, k := range probes {
		gets[i] = hx.Hex(k) + "=" + getOf(k)
	}
	ogets := make([]string, len(probes))
	ogetOf := func(k []byte) string {
		v, err := ov.Get(k)
		if err != nil {
			return "err"
		}
		return hx.Hex(v)
	}
	for i, k := range probes {
		ogets[i] = hx.Hex(k) + "=" + ogetOf(k)
	}
	out := showKVs(d) + " n=" + strconv.Itoa(ws.Len()) + " sz=" + strconv.Itoa(ws.Size()) + " g=" + strings.Join(gets, ",") + " og=" + strings.Join(ogets, ",")
	res := hx.Result{Out: out}

	// reference final content: last write wins, deletion = empty, Reset forgets
	final := map[string][]byte{}
	stored := map[string][]byte{}
	feat := map[string]bool{}
	everDeleted := map[string]bool{}
	for _, o := range ops {
		switch o.kind {
		case 's':
			stored[string(o.k)] = o.v
			feat["store"] = true
		case 'p':
			if _, ok := final[string(o.k)]; !ok {
				if sv, ok := stored[string(o.k)]; ok && len(sv) > 0 && bytes.Equal(sv, o.v) {
					feat["samestore"] = true // first write of a key writes the value the backing store already holds
				}
			}
			if old, ok := final[string(o.k)]; ok {
				if bytes.Equal(old, o.v) {
					feat["same"] = true
				} else {
					feat["ow"] = true
				}
				if len(old) == 0 && everDeleted[string(o.k)] && len(o.v) > 0 {
					feat["recreate"] = true
				}
			}
			if len(o.v) == 0 {
				feat["putempty"] = true
			}
			final[string(o.k)] = o.v
		case 'd':
			if _, ok := final[string(o.k)]; !ok {
				feat["tomb"] = true // delete of an untouched key inserts a tombstone node
			} else {
				feat["del"] = true
			}
			everDeleted[string(o.k)] = true
			final[string(o.k)] = []byte{}
		case 'r':
			final = map[string][]byte{}
			everDeleted = map[string]bool{}
			feat["reset"] = true
		}
	}
	if len(ops) > 128 {
		feat["grow"] = true
	}
	var fl []string
	for k := range feat {
		fl = append(fl, k)
	}
	sort.Strings(fl)
	res.Kind = strings.Join(fl, "+")
	if res.Kind == "" {
		res.Kind = "plain"
	}
	if len(final) >= 2 || len(feat) > 0 {
		res.Key = line
	}
	keys := make([]string, 0, len(final))
	for k := range final {
		keys = append(keys, k)
	}
	sort.Strings(keys) // byte-wise = bytes.Compare
	fail := func(class, msg string) hx.Result {
		res.Fail, res.Class = msg, class
		return res
	}
	for i := 1; i < len(d); i++ {
		if bytes.Compare(d[i-1].k, d[i].k) >= 0 {
			return fail("foreach-not-strictly-sorted", "ForEach yields "+hx.Hex(d[i-1].k)+" before "+hx.Hex(d[i].k))
		}
	}
	if len(d) < len(keys) {
		have := map[string]bool{}
		for _, e := range d {
			have[string(e.k)] = true
		}
		for _, k := range keys {
			if !have[k] {
				if sv, ok := stored[k]; ok && bytes.Equal(sv, final[k]) {
					return fail("writeset-misses-write-equal-to-persisted-value", "key "+hx.Hex([]byte(k))+" was written with "+hx.Hex(final[k])+" (the value the backing store holds) and is not in the write set")
				}
				return fail("writeset-misses-touched-key", "key "+hx.Hex([]byte(k))+" was touched and is not in the write set "+showKVs(d))
			}
		}
	}
	if len(d) != len(keys) {
		return fail("writeset-differs-from-final-content", "write set has "+strconv.Itoa(len(d))+" entries, final content "+strconv.Itoa(len(keys)))
	}
	size := 0
	for i, k := range keys {
		if k != string(d[i].k) || !bytes.Equal(final[k], d[i].v) {
			return fail("writeset-differs-from-final-content", "entry "+strconv.Itoa(i)+" is "+hx.Hex(d[i].k)+"="+hx.Hex(d[i].v)+" expected "+hx.Hex([]byte(k))+"="+hx.Hex(final[k]))
		}
		if g := getOf([]byte(k)); g != hx.Hex(final[k]) {
			return fail("get-differs-from-final-content", "Get("+hx.Hex([]byte(k))+")="+g)
		}
		size += len(k) + len(final[k])
	}
	for _, k := range probes {
		fv, touched := final[string(k)]
		if !touched && getOf(k) != "?" {
			return fail("get-differs-from-final-content", "Get of untouched key "+hx.Hex(k)+" is known")
		}
		want := fv
		if !touched {
			want = stored[string(k)]
		}
		if g := ogetOf(k); g != hx.Hex(want) {
			layer := "store"
			if touched {
				layer = "writeset"
			}
			return fail("overlay-get-wrong-truth-"+layer, "OverlayDB.Get("+hx.Hex(k)+")="+g+" expected "+hx.Hex(want))
		}
	}
	if ws.Len() != len(keys) {
		return fail("len-mismatch", "Len()="+strconv.Itoa(ws.Len()))
	}
	if ws.Size() != size {
		return fail("size-mismatch", "Size()="+strconv.Itoa(ws.Size())+" expected "+strconv.Itoa(size))
	}
	h := sha256.New()
	for _, e := range d {
		h.Write(e.k)
		h.Write(e.v)
	}
	ch := ov.ChangeHash()
	if !bytes.Equal(h.Sum(nil), ch[:]) {
		return fail("changehash-not-sha256-of-foreach", "ChangeHash is not sha256(key||value …) over ForEach")
	}
	// other orders reaching the same final content
	asc := make([]op, 0, len(keys))
	for _, k := range keys {
		asc = append(asc, op{'p', []byte(k), final[k]})
	}
	desc := make([]op, 0, len(keys))
	for i := len(keys) - 1; i >= 0; i-- {
		desc = append(desc, asc[i])
	}
	hs := fnv.New64a()
	hs.Write([]byte(line))
	r := hx.NewRand(hs.Sum64())
	perm := append([]op{}, asc...)
	for i := len(perm) - 1; i > 0; i-- {
		j := r.Intn(i + 1)
		perm[i], perm[j] = perm[j], perm[i]
	}
	var scr []op
	for _, o := range perm {
		switch r.Intn(5) {
		case 0:
			scr = append(scr, op{'p', o.k, []byte{0xee, 0xee}}, o) // overwritten junk
		case 1:
			scr = append(scr, o, op{'d', o.k, nil}, o) // delete then recreate
		case 2:
			scr = append(scr, op{'d', o.k, nil}, o) // tombstone first
		case 3:
			scr = append(scr, o, o) // same value twice
		default:
			scr = append(scr, o)
		}
	}
	for i := range scr { // a deletion in the final content may be replayed as Delete or as Put(k, empty)
		if scr[i].kind == 'p' && len(scr[i].v) == 0 && r.Bool() {
			scr[i].kind = 'd'
		}
	}
	for _, name := range []string{"ascending", "descending", "scrambled"} {
		alt := map[string][]op{"ascending": asc, "descending": desc, "scrambled": scr}[name]
		ov2, _ := apply(store, alt)
		d2 := dump(ov2)
		if showKVs(d2) != showKVs(d) {
			return fail("writeset-order-dependent", name+" replay of the final content leaves "+showKVs(d2))
		}
		if ov2.ChangeHash() != ch {
			return fail("changehash-order-dependent", name+" replay of the final content hashes differently")
		}
	}
	return res
}

func main() {
	hx.Main(hx.Prop{
		ID:   "C03",
		Rule: "histories of Put/Delete/Reset (1–30 ops; 2% with 150–450 ops over wide keys to outgrow the initial buffers) on a real OverlayDB over a memory LevelDB pre-populated with 0-7 entries (70% of cases), keys from an alphabet sharing prefixes (empty key, 00…, ff…, 64-byte keys); 25% of ops reuse the previous key, 35% hit a key of the backing store, 45% of those puts write back exactly the currently visible value (incl. a value only the store holds: kind samestore). Non-trivial = history with >=2 touched keys or an overwrite/delete/reset feature; kinds = feature set (ow overwrite, same same-value, del, tomb delete-untouched, recreate, putempty, reset, grow)",
		Gen:  gen,
		Exec: exec,
		Corpus: []string{
			"H p:01:07;p:00ff:08;d:01;p:-:09;p:01:05",
			"H d:05", "H p:05:-", "H p:05:01;p:05:-", "H p:05:01;d:05;p:05:01", "H p:05:01;p:05:01",
			"H p:-:-;p:00:-;p:0000:01;d:-", "H p:ff:01;p:ffff:02;p:fe:03;r;p:ff:04", "H r", "H p:01:02;r;d:01",
			"H p:02:aa;p:01:bb;p:03:cc;p:02:dddddddd;p:02:ee",
			"H s:05:64;s:0501:1e;p:05:64;p:0501:1e", "H s:05:64;p:05:63;p:05:64", "H s:05:64;d:05;p:05:64", "H s:05:64;p:05:64;r;p:05:64",
			"H s:-:01;s:ff:02;p:-:01;d:ff;p:ff:02;s:00:07;p:00:07",
		},
		N: map[string]int{"quick": 15000, "thorough": 400000},
	})
}
