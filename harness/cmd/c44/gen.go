package main

import (
	"strconv"
	"strings"

	"verif/harness/internal/hx"
)

// addresses for the helper-level cases: neighbours that share long prefixes, the extreme addresses (the range limit of
// ST_STORAGE ++ ff…ff is the bare byte 06 = ST_DESTROYED)
var helperAddrs = []string{
	strings.Repeat("aa", 19) + "00",
	strings.Repeat("aa", 19) + "01",
	strings.Repeat("aa", 18) + "a9ff",
	strings.Repeat("aa", 19) + "ff",
	strings.Repeat("ab", 1) + strings.Repeat("00", 19),
	strings.Repeat("00", 20),
	strings.Repeat("ff", 20),
	strings.Repeat("ff", 19) + "fe",
}
var suffixes = []string{"", "00", "0000", "00ff", "01", "ff", "ffff", "fe", "aa", "aa00", "0001"}
var vals = []string{"01", "02", "ff", "aa55", "00", "7e"}
var netHeights = map[int][]string{
	1: {"0", "1", "11699999", "11700000", "11700001", "4294967295"},
	2: {"0", "1", "4294967295"},
	3: {"0", "7", "4294967295"},
}

func pickNet(r *hx.Rand) int {
	switch x := r.Intn(10); {
	case x < 6:
		return 1
	case x < 8:
		return 2
	}
	return 3
}

func height(r *hx.Rand, net int) string {
	hs := netHeights[net]
	if net == 1 && r.Chance(50) {
		return r.Pick([]string{"11700000", "11700001", "4294967295"})
	}
	return hs[r.Intn(len(hs))]
}

func suffix(r *hx.Rand) string {
	if r.Chance(10) {
		return strings.ReplaceAll(hx.Hex(r.Bytes(1+r.Intn(3))), "-", "")
	}
	return r.Pick(suffixes)
}

func val(r *hx.Rand, emptyPct int) string {
	if r.Chance(emptyPct) {
		return "-"
	}
	if r.Chance(15) {
		return hx.Hex(r.Bytes(1 + r.Intn(4)))
	}
	return r.Pick(vals)
}

// populate: entries under the given addresses in the three layers (store first, then overlay, then transaction cache),
// with overwrites and tombstones across layers and raw neighbours of the ST_STORAGE ranges
func populate(r *hx.Rand, addrs []string, dense bool) []string {
	var ops []string
	key := func() string { return r.Pick(addrs) + suffix(r) }
	n := 1 + r.Intn(5)
	if dense {
		n = 3 + r.Intn(8)
	}
	for j := r.Intn(n + 1); j > 0; j-- {
		ops = append(ops, "s:05"+key()+":"+val(r, 3))
	}
	if r.Chance(30) {
		ops = append(ops, "s:"+r.Pick([]string{"06", "05", "0600", "04ff"})+r.Pick(addrs)+":"+"09")
	}
	for j := r.Intn(n + 1); j > 0; j-- {
		if r.Chance(20) {
			ops = append(ops, "bd:05"+key())
		} else {
			ops = append(ops, "bp:05"+key()+":"+val(r, 8))
		}
	}
	if r.Chance(25) {
		ops = append(ops, "bc")
		for j := r.Intn(3); j > 0; j-- {
			ops = append(ops, "bp:05"+key()+":"+val(r, 8))
		}
	}
	for j := r.Intn(n + 1); j > 0; j-- {
		if r.Chance(20) {
			ops = append(ops, "d:"+key())
		} else {
			ops = append(ops, "p:"+key()+":"+val(r, 8))
		}
	}
	if r.Chance(25) {
		ops = append(ops, "c")
		for j := r.Intn(3); j > 0; j-- {
			ops = append(ops, "p:"+key()+":"+val(r, 8))
		}
	}
	return ops
}

// a small real contract for PutContract at helper level (address = hash of the code, so it is not one of helperAddrs)
func helperContract(nonce byte) *contract {
	dc, _ := compile(nonce, false, nil, nil)
	return &contract{addr: addrHex(dc), val: serialize(dc), dc: dc}
}

func genHelper(r *hx.Rand) string {
	net := pickNet(r)
	k := 2 + r.Intn(2)
	perm := append([]string{}, helperAddrs...)
	for i := len(perm) - 1; i > 0; i-- {
		j := r.Intn(i + 1)
		perm[i], perm[j] = perm[j], perm[i]
	}
	addrs := perm[:k]
	hc := helperContract(byte(r.Intn(4)))
	if r.Chance(30) {
		addrs = append(addrs, hc.addr)
	}
	ops := populate(r, addrs, r.Chance(50))
	if r.Chance(30) {
		ops = append(ops, "pc:"+hc.addr+":"+hx.Hex(hc.val))
	}
	rounds := 1 + r.Intn(3)
	for ; rounds > 0; rounds-- {
		old := r.Pick(addrs)
		nw := r.Pick(addrs)
		if old == nw && !r.Chance(5) {
			nw = perm[k+r.Intn(len(perm)-k)]
		}
		h := height(r, net)
		switch x := r.Intn(100); {
		case x < 50:
			ops = append(ops, "mig:"+old+":"+nw+":"+h, "i:"+old, "i:"+nw)
		case x < 75:
			ops = append(ops, "cln:"+old+":"+h, "i:"+old)
		case x < 85:
			ops = append(ops, "cld:"+old, "i:"+old)
		case x < 90:
			ops = append(ops, "dc:"+old+":"+h)
		case x < 95:
			ops = append(ops, "sd:"+old+":"+h)
		default:
			ops = append(ops, "ud:"+old+":"+h)
		}
		if r.Chance(40) {
			ops = append(ops, "gc:"+old)
		}
		if r.Chance(30) {
			ops = append(ops, "g:"+old+suffix(r))
		}
		if r.Chance(35) {
			ops = append(ops, r.Pick([]string{"c", "c", "bc", "r", "br", "c;bc"}))
		}
		if r.Chance(40) {
			for j := 1 + r.Intn(3); j > 0; j-- {
				ops = append(ops, "p:"+r.Pick(addrs)+suffix(r)+":"+val(r, 10))
			}
		}
	}
	return "M " + strconv.Itoa(net) + " " + strings.Join(ops, ";")
}

func progString(p []pop) string {
	if len(p) == 0 {
		return "-"
	}
	var s []string
	for _, o := range p {
		switch o.op {
		case "P":
			s = append(s, "P."+hx.Hex(o.k)+"."+hx.Hex(o.v))
		case "D":
			s = append(s, "D."+hx.Hex(o.k))
		case "X":
			s = append(s, "X")
		default:
			s = append(s, o.op+"."+o.a)
		}
	}
	return strings.Join(s, ",")
}

// genTx: contracts compiled from random straight-line programs, deployed / pre-populated / invoked around the activation height
func genTx(r *hx.Rand, wasmPct int) string {
	net := pickNet(r)
	tbl := map[string]*contract{}
	var order []string
	var ops []string
	n := 2 + r.Intn(4)
	skey := func() []byte { return hx.MustUnhex(suffix(r)) }
	for i := 0; i < n; i++ {
		wasm := r.Chance(wasmPct)
		var same []string // earlier contracts of the same vm
		for _, a := range order {
			if tbl[a].wasm == wasm {
				same = append(same, a)
			}
		}
		var prog []pop
		for j := r.Intn(5); j > 0; j-- {
			switch x := r.Intn(100); {
			case x < 35:
				v := hx.MustUnhex(val(r, 10))
				prog = append(prog, pop{op: "P", k: skey(), v: v})
			case x < 45:
				prog = append(prog, pop{op: "D", k: skey()})
			case x < 58:
				prog = append(prog, pop{op: "X"})
			case x < 75 && len(same) > 0:
				prog = append(prog, pop{op: "G", a: r.Pick(same)})
			case x < 85 && len(same) > 0:
				prog = append(prog, pop{op: "C", a: r.Pick(same)})
			case x < 92 && len(same) > 0 && !wasm:
				prog = append(prog, pop{op: "S", a: r.Pick(same)})
			case len(same) > 0 && !wasm:
				prog = append(prog, pop{op: "A", a: r.Pick(same)})
			default:
				prog = append(prog, pop{op: "P", k: skey(), v: []byte{byte(i)}})
			}
		}
		dc, ok := compile(byte(i), wasm, prog, tbl)
		if !ok {
			continue
		}
		c := &contract{addr: addrHex(dc), val: serialize(dc), wasm: wasm, prog: prog, dc: dc}
		if tbl[c.addr] != nil {
			continue
		}
		tbl[c.addr] = c
		order = append(order, c.addr)
		vm := "n"
		if wasm {
			vm = "w"
		}
		ops = append(ops, "K:"+c.addr+":"+hx.Hex(c.val)+":"+vm+":"+progString(prog))
	}
	if len(order) == 0 {
		return genHelper(r)
	}
	// deploy most of them, pre-populate their storage in all layers
	for _, a := range order {
		if r.Chance(75) {
			if r.Chance(50) {
				ops = append(ops, "dep:"+height(r, net)+":"+a)
			} else {
				ops = append(ops, "pc:"+a+":"+hx.Hex(tbl[a].val), "c")
			}
		}
	}
	if r.Chance(40) {
		ops = append(ops, "bc")
	}
	ops = append(ops, populate(r, order, false)...)
	if r.Chance(50) {
		ops = append(ops, "c")
	}
	for j := 2 + r.Intn(6); j > 0; j-- {
		a := r.Pick(order)
		switch x := r.Intn(100); {
		case x < 60:
			ops = append(ops, "inv:"+height(r, net)+":"+a)
		case x < 80:
			ops = append(ops, "dep:"+height(r, net)+":"+a)
		case x < 88:
			ops = append(ops, "gc:"+a)
		case x < 94:
			ops = append(ops, "i:"+a)
		case x < 97:
			ops = append(ops, "bc")
		default:
			ops = append(ops, "p:"+a+suffix(r)+":"+val(r, 10))
		}
	}
	for _, a := range order {
		if r.Chance(40) {
			ops = append(ops, "gc:"+a)
		}
	}
	return "M " + strconv.Itoa(net) + " " + strings.Join(ops, ";")
}

func gen(r *hx.Rand, tier string, i int) string {
	switch x := r.Intn(100); {
	case x < 55:
		return genHelper(r)
	case x < 85:
		return genTx(r, 0)
	default:
		return genTx(r, wasmShare)
	}
}

var corpus = []string{
	// entries of the old contract in all three layers, a key equal to the bare prefix, neighbours with shared prefixes
	"M 1 s:05" + helperAddrs[0] + ":01;s:05" + helperAddrs[0] + "00:02;s:05" + helperAddrs[1] + ":03;bp:05" + helperAddrs[0] + "ff:04;bd:05" + helperAddrs[0] + "00;p:" + helperAddrs[0] + "0000:05;p:" + helperAddrs[0] + "aa:-;mig:" + helperAddrs[0] + ":" + helperAddrs[2] + ":11700000;i:" + helperAddrs[0] + ";i:" + helperAddrs[2] + ";gc:" + helperAddrs[0],
	// the extreme address: range limit = ST_DESTROYED
	"M 2 s:05" + helperAddrs[6] + "ff:01;s:06" + helperAddrs[6] + ":02;p:" + helperAddrs[6] + ":03;cln:" + helperAddrs[6] + ":5;i:" + helperAddrs[6] + ";gc:" + helperAddrs[6],
	// before the activation height no marker
	"M 1 s:05" + helperAddrs[0] + ":01;cln:" + helperAddrs[0] + ":11699999;gc:" + helperAddrs[0] + ";cln:" + helperAddrs[0] + ":11700000;gc:" + helperAddrs[0],
	// migration to itself
	"M 3 p:" + helperAddrs[0] + "01:01;s:05" + helperAddrs[0] + "02:02;mig:" + helperAddrs[0] + ":" + helperAddrs[0] + ":1;i:" + helperAddrs[0],
	"M 1 mig:" + helperAddrs[0] + ":" + helperAddrs[1] + ":0;cld:" + helperAddrs[0] + ";i:-",
}
