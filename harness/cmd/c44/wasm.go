package main

// A minimal wasm binary encoder: one exported function "invoke" () -> () whose body is the straight-line program
// (calls of the host functions ontio_storage_write / ontio_storage_delete / ontio_contract_create /
// ontio_contract_migrate / ontio_contract_destroy with constants pointing into one data segment).

const wasmShare = 60

func uleb(n uint32) []byte {
	var out []byte
	for {
		b := byte(n & 0x7f)
		n >>= 7
		if n != 0 {
			out = append(out, b|0x80)
		} else {
			return append(out, b)
		}
	}
}

func sleb(v int32) []byte {
	var out []byte
	for {
		b := byte(v & 0x7f)
		v >>= 7
		if (v == 0 && b&0x40 == 0) || (v == -1 && b&0x40 != 0) {
			return append(out, b)
		}
		out = append(out, b|0x80)
	}
}

func vecBytes(b []byte) []byte { return append(uleb(uint32(len(b))), b...) }

func section(id byte, body []byte) []byte { return append([]byte{id}, vecBytes(body)...) }

func funcType(params int, result bool) []byte {
	out := []byte{0x60}
	out = append(out, uleb(uint32(params))...)
	for i := 0; i < params; i++ {
		out = append(out, 0x7f)
	}
	if result {
		return append(out, 1, 0x7f)
	}
	return append(out, 0)
}

const (
	fWrite = iota
	fDelete
	fCreate
	fMigrate
	fDestroy
	fInvoke
)

func compileWasm(nonce byte, prog []pop, tbl map[string]*contract) []byte {
	// data segment at dataBase; [0,20) receives the new address of create/migrate
	const dataBase = 32
	data := []byte{0xC4, nonce}
	place := func(b []byte) (int32, int32) {
		off := dataBase + len(data)
		data = append(data, b...)
		return int32(off), int32(len(b))
	}
	var code []byte
	konst := func(v int32) { code = append(append(code, 0x41), sleb(v)...) }
	call := func(f uint32) { code = append(append(code, 0x10), uleb(f)...) }
	for _, o := range prog {
		switch o.op {
		case "P":
			kp, kl := place(o.k)
			vp, vl := place(o.v)
			konst(kp)
			konst(kl)
			konst(vp)
			konst(vl)
			call(fWrite)
		case "D":
			kp, kl := place(o.k)
			konst(kp)
			konst(kl)
			call(fDelete)
		case "X":
			call(fDestroy)
		case "G", "C":
			t := tbl[o.a]
			cp, cl := place(t.dc.GetRawCode())
			konst(cp)
			konst(cl)
			vt := int32(1)
			if t.wasm {
				vt = 3
			}
			konst(vt)
			for i := 0; i < 5; i++ { // name, version, author, email, desc: empty
				konst(dataBase)
				konst(0)
			}
			konst(0) // newAddressPtr
			if o.op == "G" {
				call(fMigrate)
			} else {
				call(fCreate)
			}
			code = append(code, 0x1a) // drop
		}
	}
	code = append(code, 0x0b)
	body := append([]byte{0x00}, code...) // no locals

	var types []byte
	types = append(types, uleb(5)...)
	types = append(types, funcType(4, false)...)  // 0 write
	types = append(types, funcType(2, false)...)  // 1 delete
	types = append(types, funcType(14, true)...)  // 2 create / migrate
	types = append(types, funcType(0, false)...)  // 3 destroy / invoke
	types = append(types, funcType(0, false)...)  // 4 (spare)
	imp := func(name string, typ uint32) []byte {
		out := vecBytes([]byte("env"))
		out = append(out, vecBytes([]byte(name))...)
		out = append(out, 0x00)
		return append(out, uleb(typ)...)
	}
	var imports []byte
	imports = append(imports, uleb(5)...)
	imports = append(imports, imp("ontio_storage_write", 0)...)
	imports = append(imports, imp("ontio_storage_delete", 1)...)
	imports = append(imports, imp("ontio_contract_create", 2)...)
	imports = append(imports, imp("ontio_contract_migrate", 2)...)
	imports = append(imports, imp("ontio_contract_destroy", 3)...)
	funcs := append(uleb(1), uleb(3)...)
	pages := uint32((dataBase+len(data))/65536 + 1)
	mem := append(uleb(1), append([]byte{0x00}, uleb(pages)...)...)
	exp := append(uleb(1), vecBytes([]byte("invoke"))...)
	exp = append(exp, 0x00)
	exp = append(exp, uleb(fInvoke)...)
	codeSec := append(uleb(1), vecBytes(body)...)
	seg := []byte{0x00, 0x41}
	seg = append(seg, sleb(dataBase)...)
	seg = append(seg, 0x0b)
	seg = append(seg, vecBytes(data)...)
	dataSec := append(uleb(1), seg...)

	out := []byte{0x00, 0x61, 0x73, 0x6d, 0x01, 0x00, 0x00, 0x00}
	out = append(out, section(1, types)...)
	out = append(out, section(2, imports)...)
	out = append(out, section(3, funcs)...)
	out = append(out, section(5, mem)...)
	out = append(out, section(7, exp)...)
	out = append(out, section(10, codeSec)...)
	out = append(out, section(11, dataSec)...)
	return out
}
