// C44 harness: contract migration / destruction on a real storage.CacheDB over a real overlaydb.OverlayDB over
// leveldbstore.NewMemLevelDBStore(), pre-populated at all three layers.
//
// Line:  M <networkId> op;op;…      (grammar: lean/OntVerif/OntVerif/Driver/C44.lean)
//   layer ops      s:k:v  bp:k:v  bd:k  p:k:v  d:k  c  r  bc  br  g:k  i:prefix
//   helpers        pc:addr:val  sd:addr:h  ud:addr:h  dc:addr:h  mig:old:new:h  cln:addr:h  cld:addr  gc:addr
//                  (the real CacheDB.PutContract / SetContractDestroyed / UnsetContractDestroyed / DeleteContract /
//                   MigrateContractStorage / CleanContractStorage / CleanContractStorageData / GetContract)
//   transactions   K:addr:val:vm:prog defines a contract whose code is COMPILED here from `prog` (NeoVM byte code calling
//                  System.Storage.Put/Delete, System.Contract.Destroy, Ontology.Contract.Migrate/Create/GetScript, APPCALL;
//                  or a wasm module importing ontio_storage_write/…); dep:h:addr = the real
//                  StateStore.HandleDeployTransaction; inv:h:addr = cache.Reset(), the real smartcontract.SmartContract
//                  engine on an entry script calling the contract, Commit() iff err == nil (what HandleInvokeTransaction does).
//
// Predicate (on the implementation's own Get / iterator / GetContract outputs, taken before and after the op):
//   mig  every entry that was readable under old is readable under new with the same value, nothing is readable under old,
//        nothing else changed, GetContract(old) = nil and the destroyed marker is set iff the height is >= the activation height
//   cln/cld  nothing is readable under addr, nothing else changed
//   dep/inv  for every address whose destroyed marker was readable before the transaction: still destroyed, the deploy of
//        it is refused, no storage value appeared or changed under it; a Go panic of the engine is a failure.
package main

import (
	"bytes"
	"fmt"
	"math/big"
	"sort"
	"strconv"
	"strings"

	"github.com/ontio/ontology/common"
	"github.com/ontio/ontology/common/config"
	"github.com/ontio/ontology/common/log"
	"github.com/ontio/ontology/core/payload"
	sstates "github.com/ontio/ontology/smartcontract/states"
	scommon "github.com/ontio/ontology/core/store/common"
	"github.com/ontio/ontology/core/store/ledgerstore"
	"github.com/ontio/ontology/core/store/leveldbstore"
	"github.com/ontio/ontology/core/store/overlaydb"
	"github.com/ontio/ontology/core/types"
	"github.com/ontio/ontology/smartcontract"
	"github.com/ontio/ontology/smartcontract/event"
	nvm "github.com/ontio/ontology/smartcontract/service/neovm"
	"github.com/ontio/ontology/smartcontract/storage"
	"github.com/ontio/ontology/vm/neovm"
	"verif/harness/internal/hx"
)

// ---------------------------------------------------------------------------------------------------------------------
// contracts compiled from a program

type pop struct {
	op   string // P D X G C S A
	k, v []byte
	a    string // hex address
}

type contract struct {
	addr string
	val  []byte
	wasm bool
	prog []pop
	dc   *payload.DeployCode
}

func parseProg(s string, tbl map[string]*contract) ([]pop, bool) {
	if s == "-" {
		return nil, true
	}
	var out []pop
	for _, o := range strings.Split(s, ",") {
		f := strings.Split(o, ".")
		switch {
		case f[0] == "P" && len(f) == 3:
			k, e1 := hx.Unhex(f[1])
			v, e2 := hx.Unhex(f[2])
			if e1 != nil || e2 != nil || len(v) >= 253 {
				return nil, false
			}
			out = append(out, pop{op: "P", k: k, v: v})
		case f[0] == "D" && len(f) == 2:
			k, e1 := hx.Unhex(f[1])
			if e1 != nil {
				return nil, false
			}
			out = append(out, pop{op: "D", k: k})
		case f[0] == "X" && len(f) == 1:
			out = append(out, pop{op: "X"})
		case (f[0] == "G" || f[0] == "C" || f[0] == "S" || f[0] == "A") && len(f) == 2:
			if _, ok := tbl[f[1]]; !ok {
				return nil, false
			}
			out = append(out, pop{op: f[0], a: f[1]})
		default:
			return nil, false
		}
	}
	return out, true
}

func emitSyscall(b *neovm.ParamsBuilder, name string) {
	b.Emit(neovm.SYSCALL)
	b.EmitPushByteArray([]byte(name))
}

func emitContractParams(b *neovm.ParamsBuilder, c *contract) {
	for i := 0; i < 5; i++ { // desc, email, author, version, name
		b.EmitPushByteArray(nil)
	}
	b.EmitPushInteger(big.NewInt(1))
	b.EmitPushByteArray(c.dc.GetRawCode())
}

// compileNeo: straight-line NeoVM code; every op leaves the evaluation stack as it found it.
func compileNeo(nonce byte, prog []pop, tbl map[string]*contract) []byte {
	bf := new(bytes.Buffer)
	b := neovm.NewParamsBuilder(bf)
	b.EmitPushByteArray([]byte{0xC4, nonce})
	b.Emit(neovm.DROP)
	for _, o := range prog {
		switch o.op {
		case "P":
			b.EmitPushByteArray(o.v)
			b.EmitPushByteArray(o.k)
			emitSyscall(b, nvm.STORAGE_GETCONTEXT_NAME)
			emitSyscall(b, nvm.STORAGE_PUT_NAME)
		case "D":
			b.EmitPushByteArray(o.k)
			emitSyscall(b, nvm.STORAGE_GETCONTEXT_NAME)
			emitSyscall(b, nvm.STORAGE_DELETE_NAME)
		case "X":
			emitSyscall(b, nvm.CONTRACT_DESTROY_NAME)
		case "G":
			emitContractParams(b, tbl[o.a])
			emitSyscall(b, nvm.CONTRACT_MIGRATE_NAME)
			b.Emit(neovm.DROP)
		case "C":
			emitContractParams(b, tbl[o.a])
			emitSyscall(b, nvm.CONTRACT_CREATE_NAME)
			b.Emit(neovm.DROP)
		case "S":
			emitContractParams(b, tbl[o.a])
			emitSyscall(b, nvm.CONTRACT_CREATE_NAME)
			emitSyscall(b, nvm.CONTRACT_GETSCRIPT_NAME)
			b.Emit(neovm.DROP)
		case "A":
			a, _ := hx.Unhex(o.a)
			b.EmitPushCall(a)
		}
	}
	return b.ToArray()
}

func compile(nonce byte, wasm bool, prog []pop, tbl map[string]*contract) (*payload.DeployCode, bool) {
	var code []byte
	vt := uint32(1)
	if wasm {
		for _, o := range prog {
			if o.op == "S" || o.op == "A" {
				return nil, false
			}
			if (o.op == "G" || o.op == "C") && !tbl[o.a].wasm {
				// a wasm contract can name any vm type in DeployContract, but the model restricts to wasm targets
			}
		}
		code = compileWasm(nonce, prog, tbl)
		vt = 3
	} else {
		code = compileNeo(nonce, prog, tbl)
	}
	dc, err := payload.CreateDeployCode(code, vt, nil, nil, nil, nil, nil)
	if err != nil {
		return nil, false
	}
	return dc, true
}

func serialize(dc *payload.DeployCode) []byte {
	sink := common.NewZeroCopySink(nil)
	dc.Serialization(sink)
	return sink.Bytes()
}

func addrHex(dc *payload.DeployCode) string {
	a := dc.Address()
	return hx.Hex(a[:])
}

// ---------------------------------------------------------------------------------------------------------------------
// store reuse (see c04)

var (
	curStore *leveldbstore.LevelDBStore
	curUses  int
)

func freshStore() *leveldbstore.LevelDBStore {
	if curStore != nil && curUses >= 40 {
		curStore.Close()
		curStore = nil
	}
	if curStore == nil {
		curStore = leveldbstore.NewMemLevelDBStore()
		curUses = 0
	}
	curUses++
	it := curStore.NewIterator(nil)
	var ks [][]byte
	for has := it.First(); has; has = it.Next() {
		ks = append(ks, append([]byte{}, it.Key()...))
	}
	it.Release()
	for _, k := range ks {
		if err := curStore.Delete(k); err != nil {
			panic(err)
		}
	}
	return curStore
}

type kv struct{ k, v []byte }

func showKVs(l []kv) string {
	if len(l) == 0 {
		return "-"
	}
	s := make([]string, len(l))
	for i, e := range l {
		s[i] = hx.Hex(e.k) + "=" + hx.Hex(e.v)
	}
	return strings.Join(s, ",")
}

func drain(it scommon.StoreIterator) []kv {
	var out []kv
	for has := it.First(); has; has = it.Next() {
		out = append(out, kv{append([]byte{}, it.Key()...), append([]byte{}, it.Value()...)})
	}
	it.Release()
	return out
}

var gasTable = func() map[string]uint64 {
	m := map[string]uint64{}
	nvm.GAS_TABLE.Range(func(k, v interface{}) bool { m[k.(string)] = v.(uint64); return true })
	return m
}()

// ---------------------------------------------------------------------------------------------------------------------

type world struct {
	store *leveldbstore.LevelDBStore
	ov    *overlaydb.OverlayDB
	cache *storage.CacheDB
	tbl   map[string]*contract
	order []string
	addrs map[string]bool // every address mentioned on the line
	txw   map[string]bool // raw keys written to the transaction cache by p/d since the last c/r (layout classification)
}

// view = every storage entry readable through the cache (iterator), cross-checked with Get
func (w *world) view(res *hx.Result) map[string][]byte {
	m := map[string][]byte{}
	for _, e := range drain(w.cache.NewIterator(nil)) {
		m[string(e.k)] = e.v
		g, err := w.cache.Get(e.k)
		if err != nil || !bytes.Equal(g, e.v) {
			setFail(res, "iterator-get-disagree", fmt.Sprintf("iterator yields %s=%s but Get returns %s", hx.Hex(e.k), hx.Hex(e.v), hx.Hex(g)))
		}
	}
	return m
}

func setFail(res *hx.Result, class, msg string) {
	if res.Fail == "" {
		res.Fail, res.Class = msg, class
	}
}

func (w *world) layerOf(key []byte) string {
	raw := append([]byte{5}, key...)
	if w.txw[string(raw)] {
		return "T"
	}
	if _, unknown := w.ov.GetWriteSet().Get(raw); !unknown {
		return "B"
	}
	return "P"
}

func (w *world) destroyed(a string) bool {
	var addr common.Address
	copy(addr[:], hx.MustUnhex(a))
	d, err := w.cache.IsContractDestroyed(addr)
	return err == nil && d
}

func (w *world) deadSet() map[string]bool {
	m := map[string]bool{}
	for a := range w.addrs {
		if w.destroyed(a) {
			m[a] = true
		}
	}
	return m
}

func toAddr(s string) (common.Address, bool) {
	var a common.Address
	b, err := hx.Unhex(s)
	if err != nil || len(b) != 20 {
		return a, false
	}
	copy(a[:], b)
	return a, true
}

func underAddr(view map[string][]byte, a common.Address) map[string][]byte {
	m := map[string][]byte{}
	for k, v := range view {
		if strings.HasPrefix(k, string(a[:])) {
			m[k] = v
		}
	}
	return m
}

func sortedKeys(m map[string][]byte) []string {
	var ks []string
	for k := range m {
		ks = append(ks, k)
	}
	sort.Strings(ks)
	return ks
}

// frame: nothing outside the given address prefixes changed
func checkFrame(res *hx.Result, what string, before, after map[string][]byte, except ...common.Address) {
	in := func(k string) bool {
		for _, a := range except {
			if strings.HasPrefix(k, string(a[:])) {
				return true
			}
		}
		return false
	}
	for _, k := range sortedKeys(before) {
		if in(k) {
			continue
		}
		if v, ok := after[k]; !ok || !bytes.Equal(v, before[k]) {
			setFail(res, what+"-frame-entry-changed", fmt.Sprintf("%s: unrelated entry %s=%s became %s", what, hx.Hex([]byte(k)), hx.Hex(before[k]), hx.Hex(v)))
		}
	}
	for _, k := range sortedKeys(after) {
		if in(k) {
			continue
		}
		if _, ok := before[k]; !ok {
			setFail(res, what+"-frame-entry-appeared", fmt.Sprintf("%s: unrelated entry %s appeared", what, hx.Hex([]byte(k))))
		}
	}
}

func (w *world) checkMarker(res *hx.Result, what string, a common.Address, h uint32, wasDead bool) {
	dc, destroyed, err := w.cache.GetContract(a)
	if err != nil {
		setFail(res, what+"-getcontract-error", err.Error())
		return
	}
	if dc != nil {
		setFail(res, what+"-contract-still-deployed", fmt.Sprintf("%s: GetContract(%x) still returns the contract", what, a[:]))
	}
	want := wasDead || config.GetTrackDestroyedContractHeight() <= h
	if want && !destroyed {
		setFail(res, what+"-destroyed-marker-missing", fmt.Sprintf("%s at height %d >= activation height: %x is not marked destroyed", what, h, a[:]))
	}
	if !want && destroyed {
		setFail(res, what+"-destroyed-marker-before-activation", fmt.Sprintf("%s at height %d < activation height marks %x destroyed", what, h, a[:]))
	}
}

func parseH(s string) (uint32, bool) {
	n, err := strconv.ParseUint(s, 10, 32)
	return uint32(n), err == nil
}

func (w *world) runEngine(code []byte, txType types.TransactionType, h uint32) (err error, panicked string) {
	defer func() {
		if e := recover(); e != nil {
			panicked = fmt.Sprint(e)
		}
	}()
	cfg := &smartcontract.Config{Time: 10, Height: h, Tx: &types.Transaction{TxType: txType}}
	sc := smartcontract.SmartContract{Config: cfg, CacheDB: w.cache, GasTable: gasTable, Gas: 1 << 50,
		WasmExecStep: config.DEFAULT_WASM_MAX_STEPCOUNT}
	eng, err := sc.NewExecuteEngine(code, txType)
	if err != nil {
		return err, ""
	}
	_, err = eng.Invoke()
	return err, ""
}

func exec(line string) hx.Result {
	f := strings.Fields(line)
	if len(f) != 3 || f[0] != "M" {
		return hx.Result{Out: "bad-op"}
	}
	net, err := strconv.Atoi(f[1])
	if err != nil || net < 1 || net > 3 {
		return hx.Result{Out: "bad-op"}
	}
	config.DefConfig.P2PNode.NetworkId = uint32(net)
	store := freshStore()
	w := &world{store: store, tbl: map[string]*contract{}, addrs: map[string]bool{}, txw: map[string]bool{}}
	w.ov = overlaydb.NewOverlayDB(store)
	w.cache = storage.NewCacheDB(w.ov)
	res := hx.Result{}
	kinds := map[string]bool{}
	var outs []string
	ops := strings.Split(f[2], ";")
	// every address mentioned anywhere on the line is watched
	for _, o := range ops {
		for _, x := range strings.FieldsFunc(o, func(r rune) bool { return r == ':' || r == '.' || r == ',' }) {
			if len(x) == 40 {
				if _, ok := toAddr(x); ok {
					w.addrs[x] = true
				}
			}
		}
	}
	bad := hx.Result{Out: "bad-op"}
	for _, o := range ops {
		a := strings.Split(o, ":")
		unhex := func(i int) ([]byte, bool) {
			if i >= len(a) {
				return nil, false
			}
			b, err := hx.Unhex(a[i])
			return b, err == nil
		}
		switch {
		case a[0] == "s" && len(a) == 3:
			k, ok1 := unhex(1)
			v, ok2 := unhex(2)
			if !ok1 || !ok2 || store.Put(k, v) != nil {
				return bad
			}
		case a[0] == "p" && len(a) == 3:
			k, ok1 := unhex(1)
			v, ok2 := unhex(2)
			if !ok1 || !ok2 {
				return bad
			}
			w.cache.Put(k, v)
			w.txw[string(append([]byte{5}, k...))] = true
		case a[0] == "d" && len(a) == 2:
			k, ok1 := unhex(1)
			if !ok1 {
				return bad
			}
			w.cache.Delete(k)
			w.txw[string(append([]byte{5}, k...))] = true
		case a[0] == "c" && len(a) == 1:
			w.cache.Commit()
			w.txw = map[string]bool{}
		case a[0] == "r" && len(a) == 1:
			w.cache.Reset()
			w.txw = map[string]bool{}
		case a[0] == "bp" && len(a) == 3:
			k, ok1 := unhex(1)
			v, ok2 := unhex(2)
			if !ok1 || !ok2 {
				return bad
			}
			w.ov.Put(k, v)
		case a[0] == "bd" && len(a) == 2:
			k, ok1 := unhex(1)
			if !ok1 {
				return bad
			}
			w.ov.Delete(k)
		case a[0] == "bc" && len(a) == 1:
			store.NewBatch()
			w.ov.CommitTo()
			if store.BatchCommit() != nil {
				return bad
			}
			w.ov.Reset()
		case a[0] == "br" && len(a) == 1:
			w.ov.Reset()
		case a[0] == "g" && len(a) == 2:
			k, ok1 := unhex(1)
			if !ok1 {
				return bad
			}
			v, err := w.cache.Get(k)
			if err != nil {
				return bad
			}
			outs = append(outs, "g="+hx.Hex(v))
		case a[0] == "i" && len(a) == 2:
			p, ok1 := unhex(1)
			if !ok1 {
				return bad
			}
			outs = append(outs, "i="+showKVs(drain(w.cache.NewIterator(p))))
		case a[0] == "pc" && len(a) == 3:
			addr, ok1 := toAddr(a[1])
			v, ok2 := unhex(2)
			if !ok1 || !ok2 || len(v) == 0 {
				return bad
			}
			dc := new(payload.DeployCode)
			if dc.Deserialization(common.NewZeroCopySource(v)) != nil || dc.Address() != addr || !bytes.Equal(serialize(dc), v) {
				return bad
			}
			w.cache.PutContract(dc)
		case (a[0] == "sd" || a[0] == "ud" || a[0] == "dc") && len(a) == 3:
			addr, ok1 := toAddr(a[1])
			h, ok2 := parseH(a[2])
			if !ok1 || !ok2 {
				return bad
			}
			switch a[0] {
			case "sd":
				w.cache.SetContractDestroyed(addr, h)
			case "ud":
				w.cache.UnsetContractDestroyed(addr, h)
			case "dc":
				wasDead := w.destroyed(a[1])
				w.cache.DeleteContract(addr, h)
				w.checkMarker(&res, "deletecontract", addr, h, wasDead)
			}
		case a[0] == "gc" && len(a) == 2:
			addr, ok1 := toAddr(a[1])
			if !ok1 {
				return bad
			}
			dc, destroyed, err := w.cache.GetContract(addr)
			switch {
			case err != nil:
				outs = append(outs, "gc=error")
			case destroyed:
				outs = append(outs, "gc=destroyed")
			case dc == nil:
				outs = append(outs, "gc=absent")
			default:
				outs = append(outs, "gc=present:"+hx.Hex(serialize(dc)))
			}
		case a[0] == "mig" && len(a) == 4:
			old, ok1 := toAddr(a[1])
			nw, ok2 := toAddr(a[2])
			h, ok3 := parseH(a[3])
			if !ok1 || !ok2 || !ok3 {
				return bad
			}
			before := w.view(&res)
			layers := map[string]string{}
			for k := range underAddr(before, old) {
				layers[k] = w.layerOf([]byte(k))
				kinds["mig-entry-in-"+layers[k]] = true
				if len(k) == 20 {
					kinds["mig-bare-prefix-key"] = true
				}
			}
			if len(layers) == 0 {
				kinds["mig-empty"] = true
			}
			wasDead := w.destroyed(a[1])
			if err := w.cache.MigrateContractStorage(old, nw, h); err != nil {
				setFail(&res, "migrate-error", err.Error())
			}
			after := w.view(&res)
			if old != nw {
				for _, k := range sortedKeys(underAddr(before, old)) {
					nk := string(nw[:]) + k[20:]
					if v, ok := after[nk]; !ok {
						setFail(&res, "migrate-entry-lost-layer-"+layers[k], fmt.Sprintf("entry %s=%s of the old contract is not readable under the new address", hx.Hex([]byte(k)), hx.Hex(before[k])))
					} else if !bytes.Equal(v, before[k]) {
						setFail(&res, "migrate-value-changed-layer-"+layers[k], fmt.Sprintf("entry %s=%s reads %s under the new address", hx.Hex([]byte(k)), hx.Hex(before[k]), hx.Hex(v)))
					}
				}
				for _, k := range sortedKeys(underAddr(after, nw)) {
					ok := string(old[:]) + k[20:]
					if _, m := before[ok]; m {
						continue
					}
					if v, was := before[k]; !was || !bytes.Equal(v, after[k]) {
						setFail(&res, "migrate-new-address-spurious-entry", fmt.Sprintf("entry %s under the new address comes from nowhere", hx.Hex([]byte(k))))
					}
				}
				for _, k := range sortedKeys(underAddr(before, nw)) {
					if _, ok := after[k]; !ok {
						setFail(&res, "migrate-new-address-entry-lost", fmt.Sprintf("entry %s of the new address disappeared", hx.Hex([]byte(k))))
					}
				}
			} else {
				kinds["mig-to-itself"] = true
			}
			for _, k := range sortedKeys(underAddr(after, old)) {
				if old == nw {
					setFail(&res, "migrate-self-entry-remains", "migration to the same address leaves "+hx.Hex([]byte(k)))
					break
				}
				l := layers[k]
				if l == "" {
					l = "new"
				}
				setFail(&res, "migrate-old-entry-remains-layer-"+l, fmt.Sprintf("entry %s=%s is still readable under the old address", hx.Hex([]byte(k)), hx.Hex(after[k])))
			}
			if it := drain(w.cache.NewIterator(old[:])); len(it) != 0 {
				setFail(&res, "migrate-old-iterator-not-empty", "prefix iterator of the old address yields "+showKVs(it))
			}
			checkFrame(&res, "migrate", before, after, old, nw)
			w.checkMarker(&res, "migrate", old, h, wasDead)
			kinds["mig"] = true
			for k := range layers {
				w.txw["\x05"+k] = true
				w.txw["\x05"+string(nw[:])+k[20:]] = true
			}
		case (a[0] == "cln" && len(a) == 3) || (a[0] == "cld" && len(a) == 2):
			addr, ok1 := toAddr(a[1])
			h := uint32(0)
			ok2 := true
			if a[0] == "cln" {
				h, ok2 = parseH(a[2])
			}
			if !ok1 || !ok2 {
				return bad
			}
			before := w.view(&res)
			layers := map[string]string{}
			for k := range underAddr(before, addr) {
				layers[k] = w.layerOf([]byte(k))
				kinds["clean-entry-in-"+layers[k]] = true
			}
			wasDead := w.destroyed(a[1])
			var err error
			if a[0] == "cln" {
				err = w.cache.CleanContractStorage(addr, h)
			} else {
				err = w.cache.CleanContractStorageData(addr)
			}
			if err != nil {
				setFail(&res, "clean-error", err.Error())
			}
			after := w.view(&res)
			for _, k := range sortedKeys(underAddr(after, addr)) {
				setFail(&res, "destroy-entry-remains-layer-"+layers[k], fmt.Sprintf("entry %s=%s is still readable after the clean-up", hx.Hex([]byte(k)), hx.Hex(after[k])))
			}
			if it := drain(w.cache.NewIterator(addr[:])); len(it) != 0 {
				setFail(&res, "destroy-iterator-not-empty", "prefix iterator of the address yields "+showKVs(it))
			}
			checkFrame(&res, "destroy", before, after, addr)
			if a[0] == "cln" {
				w.checkMarker(&res, "destroy", addr, h, wasDead)
			}
			kinds[a[0]] = true
			for k := range layers {
				w.txw["\x05"+k] = true
			}
		case a[0] == "K" && len(a) == 5:
			_, ok1 := toAddr(a[1])
			v, ok2 := unhex(2)
			if !ok1 || !ok2 || len(v) == 0 || (a[3] != "n" && a[3] != "w") || w.tbl[a[1]] != nil {
				return bad
			}
			prog, ok := parseProg(a[4], w.tbl)
			if !ok {
				return bad
			}
			dc, ok := compile(byte(len(w.order)), a[3] == "w", prog, w.tbl)
			if !ok || addrHex(dc) != a[1] || !bytes.Equal(serialize(dc), v) {
				return bad
			}
			w.tbl[a[1]] = &contract{addr: a[1], val: v, wasm: a[3] == "w", prog: prog, dc: dc}
			w.order = append(w.order, a[1])
		case (a[0] == "dep" || a[0] == "inv") && len(a) == 3:
			h, ok1 := parseH(a[1])
			c := w.tbl[a[2]]
			if !ok1 || c == nil {
				return bad
			}
			w.cache.Reset()
			w.txw = map[string]bool{}
			dead := w.deadSet()
			before := w.view(&res)
			alive := map[string]bool{} // contracts deployed before the transaction
			for x := range w.addrs {
				xa, _ := toAddr(x)
				if dc, _, err := w.cache.GetContract(xa); err == nil && dc != nil {
					alive[x] = true
				}
			}
			var out string
			if a[0] == "dep" {
				tx := &types.Transaction{TxType: types.Deploy, Payload: c.dc}
				blk := &types.Block{Header: &types.Header{Height: h}}
				notify := &event.ExecuteNotify{}
				err := (&ledgerstore.StateStore{}).HandleDeployTransaction(nil, w.ov, gasTable, w.cache, tx, blk, notify)
				if err != nil {
					out = "dep=err"
					w.cache.Reset()
				} else {
					out = "dep=ok"
				}
				if dead[a[2]] {
					kinds["redeploy-destroyed"] = true
					if err == nil {
						setFail(&res, "redeploy-destroyed-accepted", "deploy transaction for the destroyed contract "+a[2]+" succeeded")
					}
				}
			} else {
				var code []byte
				txType := types.InvokeNeo
				addr, _ := toAddr(a[2])
				if c.wasm {
					txType = types.InvokeWasm
					code = common.SerializeToBytes(&sstates.WasmContractParam{Address: addr, Args: nil})
				} else {
					bf := new(bytes.Buffer)
					b := neovm.NewParamsBuilder(bf)
					b.EmitPushCall(addr[:])
					code = b.ToArray()
				}
				err, panicked := w.runEngine(code, txType, h)
				switch {
				case panicked != "":
					out = "inv=panic"
					w.cache.Reset()
					cls := "engine-panic"
					if strings.Contains(panicked, "nil pointer") {
						cls = "engine-panic-nil-deref"
					}
					setFail(&res, cls, "the execution engine panicked (no recover on the block execution path): "+panicked)
				case err != nil:
					out = "inv=err"
					w.cache.Reset()
				default:
					out = "inv=ok"
					w.cache.Commit()
				}
				kinds[out+map[bool]string{false: "-neo", true: "-wasm"}[c.wasm]] = true
			}
			outs = append(outs, out)
			after := w.view(&res)
			vmName := map[bool]string{false: "neo", true: "wasm"}[c.wasm]
			var goneL []string
			for x := range alive {
				goneL = append(goneL, x)
			}
			sort.Strings(goneL)
			for _, x := range goneL {
				xa, _ := toAddr(x)
				if dc, _, err := w.cache.GetContract(xa); err == nil && dc == nil {
					// destroyed or migrated away by this transaction: none of its storage may remain
					kinds["contract-gone-in-tx"] = true
					for _, k := range sortedKeys(underAddr(after, xa)) {
						setFail(&res, "storage-left-under-contract-gone-in-tx-"+vmName, fmt.Sprintf("contract %s was destroyed or migrated away by %s but %s=%s is readable under its address afterwards", x, o, hx.Hex([]byte(k)), hx.Hex(after[k])))
						break
					}
				}
			}
			var deadL []string
			for d := range dead {
				deadL = append(deadL, d)
			}
			sort.Strings(deadL)
			vm := map[bool]string{false: "neo", true: "wasm"}[c.wasm]
			for _, d := range deadL {
				da, _ := toAddr(d)
				if !w.destroyed(d) {
					setFail(&res, "destroyed-marker-lost-"+a[0], "address "+d+" is no longer marked destroyed after "+o)
				}
				if dc, _, _ := w.cache.GetContract(da); dc != nil {
					setFail(&res, "destroyed-contract-deployed-again-"+a[0], "GetContract returns a contract for the destroyed address "+d)
				}
				ua := underAddr(after, da)
				for _, k := range sortedKeys(ua) {
					if v, ok := before[k]; !ok || !bytes.Equal(v, ua[k]) {
						setFail(&res, "write-after-destroy-"+a[0]+"-"+vm, fmt.Sprintf("storage entry %s=%s was written under the destroyed address %s", hx.Hex([]byte(k)), hx.Hex(ua[k]), d))
					}
				}
				kinds["tx-with-destroyed-address"] = true
			}
		default:
			return bad
		}
	}
	vt := drain(w.cache.NewIterator(nil))
	w.cache.Commit()
	var bd []kv
	w.ov.GetWriteSet().ForEach(func(k, v []byte) { bd = append(bd, kv{append([]byte{}, k...), append([]byte{}, v...)}) })
	pd := drain(store.NewIterator(nil))
	outs = append(outs, "VT="+showKVs(vt)+" B="+showKVs(bd)+" P="+showKVs(pd))
	res.Out = strings.Join(outs, " | ")
	var kl []string
	for k := range kinds {
		kl = append(kl, k)
	}
	sort.Strings(kl)
	res.Kind = strings.Join(kl, "+")
	if len(kl) > 0 {
		res.Key = line
	}
	return res
}

func main() {
	hx.Main(hx.Prop{
		ID:   "C44",
		Rule: "55% helper level: 2-3 addresses out of 8 (neighbours sharing 19 bytes, 00..00, ff..ff whose range limit is ST_DESTROYED) with 0-10 entries each spread over store / block overlay / transaction cache (overwrites and tombstones across layers, bare-prefix key, suffixes sharing prefixes, raw neighbours 04ff/05/06), commits in between, then 1-3 rounds of the real MigrateContractStorage / CleanContractStorage / CleanContractStorageData / DeleteContract / Set/UnsetContractDestroyed at heights around the activation height of the line's network, observations, commit/reset/block commit, further writes. 45% transaction level: 2-5 contracts COMPILED from random straight-line programs (Storage.Put/Delete, Contract.Destroy/Migrate/Create, Create+GetScript, APPCALL; 60% of the last third wasm modules run by wagon), deployed by the real HandleDeployTransaction or PutContract, storage pre-populated in all layers, then 2-7 invoke / deploy transactions through the real engines. Non-trivial = the line executes at least one migrate/clean/transaction; kinds = layers holding the migrated/cleaned entries, bare-prefix key, self-migration, transaction outcomes per VM, redeploy of a destroyed address, contract gone within a transaction",
		Gen:  gen,
		Exec: exec,
		Init: func() {
			log.InitLog(log.FatalLog)
			config.DefConfig.Common.WasmVerifyMethod = config.NoneVerifyMethod
		},
		Corpus: corpus,
		N:      map[string]int{"quick": 6000, "thorough": 150000},
	})
}
