// C37 harness: histories of Update/Remove/NearestPeers/Find on the real kbucket.RouteTable with adversarially close
// peer ids; after every mutating op the structural invariant is checked on rt.Buckets, and every NearestPeers answer
// is checked (distinct, members of the table, sorted by XOR distance, length) with an independent distance function.
package main

import (
	"bytes"
	"fmt"
	"strconv"
	"strings"

	"github.com/ontio/ontology/common"
	pc "github.com/ontio/ontology/p2pserver/common"
	kb "github.com/ontio/ontology/p2pserver/dht/kbucket"
	"verif/harness/internal/hx"
)

func mkID(b []byte) pc.PeerId {
	var id pc.PeerId
	if err := id.Deserialization(common.NewZeroCopySource(b)); err != nil {
		panic("bad id on op line")
	}
	return id
}

func idBytes(id pc.PeerId) []byte {
	s := common.NewZeroCopySink(nil)
	id.Serialization(s)
	return s.Bytes()
}

// independent re-implementation of XOR distance / common prefix length
func xor(a, b []byte) []byte {
	o := make([]byte, len(a))
	for i := range a {
		o[i] = a[i] ^ b[i]
	}
	return o
}

func cplOf(a, b []byte) int {
	n := 0
	for i := range a {
		x := a[i] ^ b[i]
		for bit := 7; bit >= 0; bit-- {
			if x>>uint(bit)&1 != 0 {
				return n
			}
			n++
		}
	}
	return n
}

// ---------- generator ----------

func idWithCpl(r *hx.Rand, local []byte, k int) []byte {
	id := make([]byte, 20)
	copy(id, local)
	if k >= 160 {
		return id
	}
	rnd := r.Bytes(20)
	for bit := k; bit < 160; bit++ {
		byteI, mask := bit/8, byte(0x80>>uint(bit%8))
		if bit == k {
			id[byteI] ^= mask
		} else {
			id[byteI] = id[byteI]&^mask | rnd[byteI]&mask
		}
	}
	return id
}

func genCpl(r *hx.Rand) int {
	switch r.Intn(20) {
	case 0, 1, 2, 3, 4, 5, 6:
		return r.Intn(6)
	case 7, 8, 9, 10:
		return r.Intn(20)
	case 11, 12, 13:
		return r.Intn(160)
	case 14, 15, 16:
		return 150 + r.Intn(10)
	case 17:
		return 160
	default:
		return 8*r.Intn(20) + []int{0, 7}[r.Intn(2)] // byte boundaries
	}
}

func gen(r *hx.Rand, tier string, i int) string {
	bs := []int{1, 1, 2, 2, 3, 4, 5, 20}[r.Intn(8)]
	local := r.Bytes(20)
	switch r.Intn(8) {
	case 0:
		local = make([]byte, 20)
	case 1:
		local = bytes.Repeat([]byte{0xff}, 20)
	}
	var pool [][]byte
	newID := func() []byte {
		id := idWithCpl(r, local, genCpl(r))
		if r.Chance(5) {
			id = r.Bytes(20)
		}
		pool = append(pool, id)
		return id
	}
	pick := func() []byte {
		if len(pool) == 0 || r.Chance(55) {
			return newID()
		}
		return pool[r.Intn(len(pool))]
	}
	n := 5 + r.Intn(60)
	if bs == 20 {
		n = 40 + r.Intn(80)
	}
	// a burst of deep ids forces repeated unfolding of the last bucket
	deep := r.Chance(30)
	var ops []string
	for j := 0; j < n; j++ {
		switch x := r.Intn(20); {
		case x < 11:
			id := pick()
			if deep && r.Chance(60) {
				id = idWithCpl(r, local, 100+r.Intn(61))
				pool = append(pool, id)
			}
			ops = append(ops, fmt.Sprintf("u:%s:a%d", hx.Hex(id), j))
		case x < 14:
			ops = append(ops, "r:"+hx.Hex(pick()))
		case x < 18:
			var tgt []byte
			switch r.Intn(3) {
			case 0:
				tgt = pick()
			case 1:
				tgt = idWithCpl(r, local, genCpl(r))
			default:
				tgt = r.Bytes(20)
			}
			cnt := []int{0, 1, 2, 3, bs, bs + 1, 2 * bs, 100}[r.Intn(8)]
			ops = append(ops, fmt.Sprintf("n:%s:%d", hx.Hex(tgt), cnt))
		default:
			ops = append(ops, "f:"+hx.Hex(pick()))
		}
	}
	return fmt.Sprintf("T %d %s %s", bs, hx.Hex(local), strings.Join(ops, ";"))
}

// ---------- execution ----------

func renderPeers(ps []pc.PeerIDAddressPair) string {
	if len(ps) == 0 {
		return "-"
	}
	var l []string
	for _, p := range ps {
		l = append(l, hx.Hex(idBytes(p.ID))+":"+p.Address)
	}
	return strings.Join(l, ",")
}

type verdict struct{ class, msg string }

func checkTable(rt *kb.RouteTable, local []byte, bs int) *verdict {
	seen := map[string]bool{}
	if len(rt.Buckets) == 0 {
		return &verdict{"no-buckets", "table has no bucket"}
	}
	last := len(rt.Buckets) - 1
	for i, b := range rt.Buckets {
		ps := b.Peers()
		if len(ps) > bs {
			return &verdict{"bucket-overfull", fmt.Sprintf("bucket %d holds %d > %d peers", i, len(ps), bs)}
		}
		for _, p := range ps {
			k := string(idBytes(p.ID))
			if seen[k] {
				return &verdict{"peer-twice", "peer " + hx.Hex([]byte(k)) + " appears twice"}
			}
			seen[k] = true
			want := cplOf([]byte(k), local)
			if want > last {
				want = last
			}
			if want != i {
				return &verdict{"peer-in-wrong-bucket", fmt.Sprintf("peer %s (cpl %d) sits in bucket %d of %d", hx.Hex([]byte(k)), cplOf([]byte(k), local), i, last+1)}
			}
		}
	}
	return nil
}

func checkNearest(rt *kb.RouteTable, tgt []byte, cnt int, out []pc.PeerIDAddressPair) *verdict {
	all := map[string]bool{}
	for _, p := range rt.ListPeers() {
		all[string(idBytes(p.ID))] = true
	}
	if len(out) > cnt {
		return &verdict{"nearest-too-many", "more peers than asked for"}
	}
	want := cnt
	if len(all) < want {
		want = len(all)
	}
	if len(out) < want {
		return &verdict{"nearest-too-few", fmt.Sprintf("%d peers returned, %d asked, %d in table", len(out), cnt, len(all))}
	}
	seen := map[string]bool{}
	var prev []byte
	for _, p := range out {
		k := string(idBytes(p.ID))
		if !all[k] {
			return &verdict{"nearest-not-in-table", "returned peer is not in the table"}
		}
		if seen[k] {
			return &verdict{"nearest-duplicate", "peer returned twice"}
		}
		seen[k] = true
		d := xor([]byte(k), tgt)
		if prev != nil && bytes.Compare(prev, d) > 0 {
			return &verdict{"nearest-unsorted", "result not sorted by XOR distance"}
		}
		prev = d
	}
	return nil
}

func exec(line string) hx.Result {
	f := strings.Fields(line)
	if len(f) != 4 || f[0] != "T" {
		return hx.Result{Out: "bad-op"}
	}
	bs, _ := strconv.Atoi(f[1])
	local := hx.MustUnhex(f[2])
	rt := kb.NewRoutingTable(bs, mkID(local))
	removed := false
	rt.PeerRemoved = func(pc.PeerId) { removed = true }
	res := hx.Result{Key: line}
	fail := func(v *verdict, op string) {
		if v != nil && res.Fail == "" {
			res.Fail, res.Class = v.msg+" (after "+op+")", v.class
		}
	}
	var outs []string
	kinds := map[string]bool{}
	for _, op := range strings.Split(f[3], ";") {
		p := strings.Split(op, ":")
		switch {
		case p[0] == "u" && len(p) == 3:
			id := hx.MustUnhex(p[1])
			before := len(rt.Buckets)
			had := false
			for _, q := range rt.ListPeers() {
				if bytes.Equal(idBytes(q.ID), id) {
					had = true
				}
			}
			err := rt.Update(mkID(id), p[2])
			o := "added"
			switch {
			case err != nil:
				o = "rejected"
			case had:
				o = "moved"
			}
			if len(rt.Buckets) > before+1 {
				kinds["multi-split"] = true
			} else if len(rt.Buckets) > before {
				kinds["split"] = true
			}
			kinds[o] = true
			outs = append(outs, o)
			fail(checkTable(rt, local, bs), op)
			if err == nil {
				// the peer just updated is at the front of its bucket
				found := false
				for _, b := range rt.Buckets {
					ps := b.Peers()
					if len(ps) > 0 && bytes.Equal(idBytes(ps[0].ID), id) {
						found = true
					}
				}
				if !found {
					fail(&verdict{"updated-peer-not-at-front", "peer is not at the front of a bucket after a successful Update"}, op)
				}
			}
		case p[0] == "r" && len(p) == 2:
			removed = false
			rt.Remove(mkID(hx.MustUnhex(p[1])))
			if removed {
				outs = append(outs, "removed")
			} else {
				outs = append(outs, "absent")
			}
			kinds[outs[len(outs)-1]] = true
			fail(checkTable(rt, local, bs), op)
			for _, q := range rt.ListPeers() {
				if bytes.Equal(idBytes(q.ID), hx.MustUnhex(p[1])) {
					fail(&verdict{"removed-peer-still-present", "peer still in table after Remove"}, op)
				}
			}
		case p[0] == "n" && len(p) == 3:
			tgt := hx.MustUnhex(p[1])
			cnt, _ := strconv.Atoi(p[2])
			out := rt.NearestPeers(mkID(tgt), cnt)
			outs = append(outs, renderPeers(out))
			fail(checkNearest(rt, tgt, cnt, out), op)
			kinds["nearest"] = true
		case p[0] == "f" && len(p) == 2:
			id := hx.MustUnhex(p[1])
			pr, ok := rt.Find(mkID(id))
			in := false
			for _, q := range rt.ListPeers() {
				if bytes.Equal(idBytes(q.ID), id) {
					in = true
				}
			}
			if ok != in {
				fail(&verdict{"find-wrong", fmt.Sprintf("Find=%v but membership=%v", ok, in)}, op)
			}
			if ok {
				outs = append(outs, renderPeers([]pc.PeerIDAddressPair{pr}))
				kinds["find-hit"] = true
			} else {
				outs = append(outs, "none")
				kinds["find-miss"] = true
			}
		default:
			return hx.Result{Out: "bad-op"}
		}
	}
	var bl []string
	for _, b := range rt.Buckets {
		bl = append(bl, renderPeers(b.Peers()))
	}
	res.Out = strings.Join(outs, "|") + " # " + strings.Join(bl, "/")
	nb := "buckets=1"
	switch n := len(rt.Buckets); {
	case n > 160:
		nb = "buckets>160"
	case n > 40:
		nb = "buckets=41..160"
	case n > 8:
		nb = "buckets=9..40"
	case n > 1:
		nb = "buckets=2..8"
	}
	ev := "plain"
	switch {
	case kinds["multi-split"] && kinds["rejected"]:
		ev = "multi-split+rejected"
	case kinds["multi-split"]:
		ev = "multi-split"
	case kinds["split"] && kinds["rejected"]:
		ev = "split+rejected"
	case kinds["split"]:
		ev = "split"
	case kinds["rejected"]:
		ev = "rejected"
	}
	res.Kind = nb + " " + ev
	return res
}

func main() {
	zero := strings.Repeat("00", 20)
	id := func(first string) string { return first + strings.Repeat("00", 19) }
	hx.Main(hx.Prop{
		ID:      "C37",
		Rule:    "histories of 5-120 ops (Update/Remove/NearestPeers/Find) on kbucket.RouteTable with bucketsize 1..5,20; peer ids drawn with a chosen common-prefix length to the local id (0..160 incl. the local id itself, byte boundaries, bursts of deep ids forcing repeated unfolding) and re-used from a pool. Non-trivial = distinct history; kinds = number of buckets reached + events seen",
		Gen:     gen,
		Exec:    exec,
		Isolate: true,
		Corpus: []string{
			"T 1 " + zero + " u:" + zero + ":self;u:" + id("80") + ":x;n:" + zero + ":5;f:" + zero,
			"T 1 " + zero + " u:" + id("80") + ":a;u:" + id("c0") + ":b;u:" + id("40") + ":c;u:" + id("20") + ":d;n:" + id("21") + ":3",
			"T 2 " + zero + " u:" + id("01") + ":a;u:" + id("02") + ":b;u:" + id("03") + ":c;r:" + id("02") + ";u:" + id("01") + ":z;f:" + id("03"),
			"T 3 " + zero + " n:" + id("01") + ":0;f:" + id("01") + ";r:" + id("01"),
		},
		N: map[string]int{"quick": 6000, "thorough": 150000},
	})
}
