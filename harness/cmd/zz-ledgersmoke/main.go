// smoke test of ledgerkit (not a property harness)
package main

import (
	"fmt"
	"os"

	"github.com/ontio/ontology/core/types"
	"verif/harness/internal/ledgerkit"
)

func main() {
	dir := ledgerkit.TmpDir("smoke")
	defer os.RemoveAll(dir)
	book := ledgerkit.NewAccount()
	k, err := ledgerkit.Open(dir, book)
	if err != nil {
		panic(err)
	}
	a := ledgerkit.NewAccount()
	for i := 0; i < 3; i++ {
		tx, err := ledgerkit.TransferTx(book, a.Address, "ont", uint64(10+i), 0, 20000, uint32(i))
		if err != nil {
			panic(err)
		}
		blk, err := k.MakeBlock([]*types.Transaction{tx})
		if err != nil {
			panic(err)
		}
		if err := k.Add(blk); err != nil {
			panic(err)
		}
		bal, err := k.Balance("ont", a.Address)
		fmt.Println("height", k.Ledger.GetCurrentBlockHeight(), "bal", bal, err)
	}
	k.Close()
	d, err := ledgerkit.DumpStores(dir)
	fmt.Println(d, err)
	k2, err := ledgerkit.Open(dir, book)
	fmt.Println("reopen", err, k2.Ledger.GetCurrentBlockHeight())
	k2.Close()
}
