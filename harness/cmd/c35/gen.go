package main

import (
	"fmt"
	"strings"

	"verif/harness/internal/hx"
)

var corpus = []string{
	// replacement threshold: 1000 -> 1010 refused (1000*101/100 = 1010), 1011 accepted
	"H 20 0,0,0,0,0 s:e0.0.1000.0:0;s:e0.0.1010.1:0;s:e0.0.1011.2:0;p:1:0:60000",
	// raw pool output has a gap after an expiry: nonce 0 verified at height 0 expires at height 1, nonce 1 stays
	"H 20 0,0,0,0,0 s:e0.0.1000.0:0;c:-;s:e0.1.1000.0:0;g:0:1:60000;p:1:1:60000",
	// commit, notify, clean, next nonces proposed from the validator's nonce cache
	"H 20 0,0,0,0,0 s:e0.0.1000.0:0;s:e0.1.1000.0:0;s:e0.2.1000.0:0;c:e0.0.1000.0;n:1;k:1;p:1:1:60000",
	// block not delivered to the pool: committed tx still pooled, the window filters it
	"H 20 0,0,0,0,0 s:e0.0.1000.0:0;n:0;c:e0.0.1000.0;n:1;p:1:1:60000",
	// nonce gap limit
	"H 20 7,0,0,0,0 s:e0.1006.1000.0:0;s:e0.1007.1000.0:0;s:e0.6.1000.0:0;p:1:0:60000",
	// uint32 wrap of tx.Nonce+1 in cleanCompletedEipTxPool
	"H 20 4294967295,0,0,0,0 s:e0.4294967295.1000.0:0;c:e0.4294967295.1000.0;n:1;k:1;p:1:1:60000;g:0:0:0",
	// uint64 wrap of old*101: a lower price replaces
	"H 20 0,0,0,0,0 s:e0.0.182641030432767838.0:0;s:e0.0.5.1:0;s:e0.0.182641030432767837.2:0;p:1:0:60000",
	// truncation
	"H 2 0,3,0,0,0 s:e0.0.1000000.0:0;s:e1.3.2000000.0:0;s:e1.4.2000000.0:0;s:o2.0.500.0:0;p:1:0:2;p:1:0:1;p:0:0:1",
	// CleanStaledEIPTx: acts only above 10000 pooled transactions; sender 0 committed at height 1, sender 1 never (recorded at 0)
	"H 20 0,0,0,0,0 s:e0.0.1000000.0:0;s:e0.1.1000000.0:0;s:e0.2.1000000.0:0;s:e1.0.2000000.0:0;c:e0.0.1000000.0;n:1;k:1;x:60;f:10001:500000000;q:0;q:1;x:50;q:0;x:51;q:0;q:1;p:1:1:4",
	"H 20 3,0,0,0,0 q:0;s:e0.4.1000000.0:0;q:0;s:e0.3.1000000.0:0;q:0;s:e0.5.1000000.0:0;q:0;r;q:0;s:e0.5.1000000.0:0;q:0;g:0:1:60000;q:0",
	// Verify alone: the transaction sits in the first / a later / no checked window block
	"H 20 0,0,0,0,0 n:0;c:e0.0.1000.0;n:1;c:e0.1.1000.1;n:2;y:e0.0.1000.0:0;y:e0.0.1000.0:1;y:e0.0.1000.0:2;y:e0.1.1000.1:2;y:e0.2.1000.2:1;y:e0.2.1000.2:3",
	"H 0 0,0,0,0,0 s:o1.5.700.0:0;s:o1.5.700.0:0;c:o1.5.700.0;s:o1.5.700.0:0;s:o1.5.700.0:1;p:1:1:60000;r;b:5;v",
}

const wrapEdge = ^uint64(0) / 101 // 182641030432767837: old > wrapEdge makes old*101 wrap

type genState struct {
	r        *hx.Rand
	acct     [nSenders]uint64   // coherent account nonce at the tip
	tip      int
	subm     [nSenders][]string // tokens submitted per sender
	all      []string
	onChain  map[string]bool
	uniq     uint64
	overflow bool
	ops      []string
}

func (g *genState) price(s int) uint64 {
	if g.overflow {
		switch g.r.Intn(4) {
		case 0:
			return wrapEdge + uint64(g.r.Intn(5)) - 2
		case 1:
			return ^uint64(0) - uint64(g.r.Intn(3))
		case 2:
			return wrapEdge*2 + uint64(g.r.Intn(1000))
		default:
			return uint64(g.r.Intn(2000))
		}
	}
	if s == 0 && g.r.Chance(10) {
		return uint64(g.r.Intn(4)) // 0..3 : old = 0 edge of the threshold
	}
	return uint64(s+1)*1000000 + uint64(g.r.Intn(1000))
}

func (g *genState) bump(tok string) (string, bool) {
	ti, _ := parseTok(tok)
	thr := ti.price * 101 / 100 // uint64, wraps like the code under test
	np := thr + uint64(g.r.Intn(4)) - 1
	if g.r.Chance(15) {
		np = ti.price
	}
	if !g.overflow && ti.price >= 1000000 && (np < uint64(ti.payer+1)*1000000 || np >= uint64(ti.payer+1)*1000000+900000) {
		return "", false
	}
	if !g.overflow && ti.price < 1000000 && np > 10 {
		return "", false
	}
	g.uniq++
	return fmt.Sprintf("e%d.%d.%d.%d", ti.payer, ti.nonce, np, g.uniq%1024), true
}

func (g *genState) submit() {
	r := g.r
	lag := 0
	if r.Chance(15) && g.tip > 0 {
		lag = 1 + r.Intn(g.tip)
		if lag > 3 {
			lag = 3
		}
	}
	if r.Chance(15) { // other-type transaction, unique price (sort ties are order dependent in Go)
		g.uniq++
		pr := 100000000 + g.uniq
		if r.Chance(30) {
			pr = 500 + g.uniq
		}
		tok := fmt.Sprintf("o%d.%d.%d.%d", r.Intn(nSenders), r.Intn(5), pr, g.uniq%1024)
		g.all = append(g.all, tok)
		g.ops = append(g.ops, fmt.Sprintf("s:%s:%d", tok, lag))
		return
	}
	s := r.Intn(nSenders)
	if g.overflow {
		s = 0
	}
	if len(g.all) > 0 && r.Chance(8) { // exact resubmission
		g.ops = append(g.ops, fmt.Sprintf("s:%s:%d", g.all[r.Intn(len(g.all))], lag))
		return
	}
	if n := len(g.subm[s]); n > 0 && r.Chance(30) { // same sender and nonce at the replacement threshold
		if tok, ok := g.bump(g.subm[s][r.Intn(n)]); ok {
			g.subm[s] = append(g.subm[s], tok)
			g.all = append(g.all, tok)
			g.ops = append(g.ops, fmt.Sprintf("s:%s:%d", tok, lag))
			return
		}
	}
	var nonce uint64
	base := g.acct[s]
	switch r.Intn(12) {
	case 0, 1, 2, 3, 4, 5: // next consecutive after what this sender already submitted
		nonce = base + uint64(len(g.subm[s]))
		if r.Chance(30) {
			nonce = base + uint64(r.Intn(3))
		}
	case 6, 7:
		nonce = base + uint64(r.Intn(6))
	case 8:
		nonce = base + 997 + uint64(r.Intn(6)) // around the 1000 gap limit
	case 9:
		if base > 0 {
			nonce = base - 1 - uint64(r.Intn(int(minU(base, 3))))
		}
	default:
		nonce = base + uint64(r.Intn(3))
	}
	if nonce > 0xffffffff {
		nonce = 0xffffffff
	}
	g.uniq++
	tok := fmt.Sprintf("e%d.%d.%d.%d", s, nonce, g.price(s), g.uniq%1024)
	g.subm[s] = append(g.subm[s], tok)
	g.all = append(g.all, tok)
	g.ops = append(g.ops, fmt.Sprintf("s:%s:%d", tok, lag))
}

func minU(a, b uint64) uint64 {
	if a < b {
		return a
	}
	return b
}

func (g *genState) commit() {
	r := g.r
	var blk []string
	acct := g.acct
	coherent := true
	ns := r.Intn(3)
	for j := 0; j < ns; j++ {
		s := r.Intn(nSenders)
		if g.overflow {
			s = 0
		}
		k := 1 + r.Intn(3)
		for i := 0; i < k; i++ {
			want := acct[s]
			if want > 0xffffffff {
				break
			}
			tok := ""
			if r.Chance(75) { // one of the submitted transactions at that nonce
				for _, c := range g.subm[s] {
					ti, _ := parseTok(c)
					if uint64(ti.nonce) == want && !g.onChain[c] && (tok == "" || r.Bool()) {
						tok = c
					}
				}
			}
			if tok == "" { // somebody else's transaction of that sender
				g.uniq++
				tok = fmt.Sprintf("e%d.%d.%d.%d", s, want, g.price(s), g.uniq%1024)
			}
			if r.Chance(4) { // incoherent nonce
				g.uniq++
				tok = fmt.Sprintf("e%d.%d.%d.%d", s, want+1+uint64(r.Intn(2)), g.price(s), g.uniq%1024)
				coherent = false
			}
			dup := false
			for _, b := range blk {
				if b == tok {
					dup = true
				}
			}
			if dup || g.onChain[tok] {
				coherent = false
			}
			blk = append(blk, tok)
			if !coherent {
				break
			}
			acct[s] = want + 1
		}
		if !coherent {
			break
		}
	}
	if coherent && r.Chance(25) && len(g.all) > 0 { // an other-type / arbitrary earlier transaction
		c := g.all[r.Intn(len(g.all))]
		if c[0] == 'o' {
			in := false
			for _, b := range blk {
				if b == c {
					in = true
				}
			}
			if g.onChain[c] || in {
				coherent = false
			}
			blk = append(blk, c)
		}
	}
	if len(blk) == 0 {
		g.ops = append(g.ops, "c:-")
	} else {
		g.ops = append(g.ops, "c:"+strings.Join(blk, ","))
	}
	if coherent {
		g.acct = acct
		g.tip++
		for _, b := range blk {
			g.onChain[b] = true
		}
		for s := range g.subm { // forget what can no longer be proposed (keeps "next consecutive" meaningful)
			var keep []string
			for _, c := range g.subm[s] {
				ti, _ := parseTok(c)
				if uint64(ti.nonce) >= g.acct[s] {
					keep = append(keep, c)
				}
			}
			g.subm[s] = keep
		}
		if r.Chance(88) {
			g.ops = append(g.ops, fmt.Sprintf("n:%d", g.tip))
		}
		if r.Chance(70) {
			g.ops = append(g.ops, fmt.Sprintf("k:%d", g.tip))
		}
	}
}

func (g *genState) maxTx() uint64 {
	switch g.r.Intn(6) {
	case 0:
		return uint64(1 + g.r.Intn(4))
	case 1:
		return 0
	default:
		return 60000
	}
}

func (g *genState) propose() {
	r := g.r
	h := g.tip
	if r.Chance(8) {
		h = g.tip + 1
	} else if r.Chance(8) && g.tip > 0 {
		h = g.tip - 1
	}
	g.ops = append(g.ops, fmt.Sprintf("p:%s:%d:%d", hx.B(!r.Chance(10)), h, g.maxTx()))
}

func gen(r *hx.Rand, tier string, i int) string {
	g := &genState{r: r, onChain: map[string]bool{}, overflow: r.Chance(6)}
	mb := []int{20, 20, 20, 0, 1, 2, 3}[r.Intn(7)]
	var accts []string
	for s := 0; s < nSenders; s++ {
		switch r.Intn(10) {
		case 0:
			g.acct[s] = uint64(1 + r.Intn(9))
		case 1:
			g.acct[s] = 0xffffffff - uint64(r.Intn(4))
		case 2:
			if s == 4 {
				g.acct[s] = ^uint64(0) - uint64(r.Intn(1200)) // txEntry.Nonce+1000 wraps; nothing can be submitted
			}
		}
		accts = append(accts, fmt.Sprint(g.acct[s]))
	}
	if r.Chance(50) { // window starts in sync with the genesis block
		g.ops = append(g.ops, "n:0")
	}
	n := 8 + r.Intn(32)
	for len(g.ops) < n {
		switch x := r.Intn(100); {
		case x < 50:
			g.submit()
		case x < 65:
			g.commit()
		case x < 82:
			g.propose()
		case x < 88:
			g.ops = append(g.ops, fmt.Sprintf("g:%s:%d:%d", hx.B(r.Bool()), r.Intn(g.tip+2), g.maxTx()))
		case x < 91:
			g.ops = append(g.ops, fmt.Sprintf("n:%d", r.Intn(g.tip+2)))
		case x < 93:
			g.ops = append(g.ops, fmt.Sprintf("k:%d", r.Intn(g.tip+2)))
		case x < 94 || (x < 97 && len(g.all) > 0 && g.tip > 0):
			if len(g.all) > 0 { // Verify on its own: mostly a committed transaction, any start height
				tok := g.all[r.Intn(len(g.all))]
				for try := 0; try < 6 && !g.onChain[tok]; try++ {
					tok = g.all[r.Intn(len(g.all))]
				}
				g.ops = append(g.ops, fmt.Sprintf("y:%s:%d", tok, r.Intn(g.tip+2)))
			}
		case x < 95:
			g.ops = append(g.ops, fmt.Sprintf("q:%d", r.Intn(nSenders)))
		case x < 96:
			g.ops = append(g.ops, "r")
			for s := range g.subm {
				g.subm[s] = nil
			}
		case x < 98:
			pr := uint64(r.Intn(6)) * 1000000
			g.ops = append(g.ops, fmt.Sprintf("b:%d", pr))
		default:
			g.ops = append(g.ops, "v")
		}
	}
	g.propose()
	return fmt.Sprintf("H %d %s %s", mb, strings.Join(accts, ","), strings.Join(g.ops, ";"))
}
