// C35 harness: the real TXPool (AddTxList / GetTxPool / CleanCompletedTransactionList / RemoveTxsBelowGasPrice / Remain),
// the real IncrementValidator and the real stateful validator, driven by histories of submit / replace / commit /
// notify / clean / expire / propose over a stub ledger (ledger.DefLedger = Ledger{LedgerStore: stub}: height,
// IsContainTransaction and GetEthAccount are answered from the harness's own chain; every other method is absent).
//
//	H <maxBlocks> <acct0,…> op;op;…      (see lean/OntVerif/OntVerif/Driver/C35.lean for the op grammar)
//
// Transaction token <e|o><payer>.<nonce>.<price>.<salt>: `e` = EIP-155 transaction built with go-ethereum
// types.NewTransaction + SignTx (secp256k1 key of sender <payer>) and wrapped by types.TransactionFromEIP155;
// `o` = InvokeNeo transaction built with MutableTransaction.IntoImmutable. <price> is the ontology-level GasPrice
// (GWei units for EIP-155). Prices that an EIP-155 transaction cannot carry (> (2^64-1)/10^9) are set on the exported
// GasPrice field after construction (kind `rawprice`), to reach the uint64 wrap of the replacement rule.
//
// The proposer glue (solo.go:makeBlock / vbft validHeight+makeProposal: BlockRange, Clean, GetTxPool, Verify loop) is
// transcribed in `propose` below; it is the only consensus code not executed from /repo.
package main

import (
	"crypto/ecdsa"
	"fmt"
	"math/big"
	"sort"
	"strconv"
	"strings"

	ethcomm "github.com/ethereum/go-ethereum/common"
	ethtypes "github.com/ethereum/go-ethereum/core/types"
	"github.com/ethereum/go-ethereum/crypto"
	"github.com/ontio/ontology/common"
	"github.com/ontio/ontology/common/config"
	"github.com/ontio/ontology/common/constants"
	"github.com/ontio/ontology/common/log"
	"github.com/ontio/ontology/core/ledger"
	"github.com/ontio/ontology/core/payload"
	"github.com/ontio/ontology/core/store"
	"github.com/ontio/ontology/core/types"
	"github.com/ontio/ontology/errors"
	"github.com/ontio/ontology/smartcontract/storage"
	tc "github.com/ontio/ontology/txnpool/common"
	"github.com/ontio/ontology/validator/increment"
	"github.com/ontio/ontology/validator/stateful"
	vt "github.com/ontio/ontology/validator/types"
	"verif/harness/internal/hx"
)

const nSenders = 5
const maxGweiPrice = ^uint64(0) / constants.GWei

// ---------- transactions ----------

var (
	ethKeys  []*ecdsa.PrivateKey
	payers   []common.Address
	payerIdx = map[common.Address]int{}
	txCache  = map[string]*types.Transaction{}
	tokOf    = map[common.Uint256]string{}
	statefulV *stateful.ValidatorPool
)

type txInfo struct {
	eip                       bool
	payer                     int
	nonce                     uint32
	price                     uint64
	salt                      int
}

func parseTok(tok string) (txInfo, bool) {
	var ti txInfo
	if len(tok) < 2 || (tok[0] != 'e' && tok[0] != 'o') {
		return ti, false
	}
	p := strings.Split(tok[1:], ".")
	if len(p) != 4 {
		return ti, false
	}
	a, e1 := strconv.ParseUint(p[0], 10, 8)
	n, e2 := strconv.ParseUint(p[1], 10, 32)
	g, e3 := strconv.ParseUint(p[2], 10, 64)
	s, e4 := strconv.ParseUint(p[3], 10, 16)
	if e1 != nil || e2 != nil || e3 != nil || e4 != nil || a >= 16 || s >= 1024 {
		return ti, false
	}
	return txInfo{tok[0] == 'e', int(a), uint32(n), g, int(s)}, true
}

func initOnce() {
	log.InitLog(log.MaxLevelLog)
	config.DefConfig.P2PNode.EVMChainId = 12345
	for i := 0; i < 16; i++ {
		k, err := crypto.ToECDSA(append(make([]byte, 31), byte(i+1)))
		if err != nil {
			panic(err)
		}
		ethKeys = append(ethKeys, k)
		a := common.Address(crypto.PubkeyToAddress(k.PublicKey))
		payers = append(payers, a)
		payerIdx[a] = i
	}
	statefulV = stateful.NewValidatorPool(1)
}

func getTx(tok string) *types.Transaction {
	if t, ok := txCache[tok]; ok {
		return t
	}
	ti, ok := parseTok(tok)
	if !ok {
		return nil
	}
	var tx *types.Transaction
	if ti.eip {
		key := ethKeys[ti.payer]
		price := ti.price
		raw := price > maxGweiPrice
		if raw {
			price = 1
		}
		gp := new(big.Int).Mul(new(big.Int).SetUint64(price), big.NewInt(constants.GWei))
		to := ethcomm.HexToAddress("0x4592d8f8d7b001e72cb26a73e4fa1806a51ac79d")
		etx := ethtypes.NewTransaction(uint64(ti.nonce), to, big.NewInt(1), 21000, gp, []byte(tok))
		signed, err := ethtypes.SignTx(etx, ethtypes.NewEIP155Signer(big.NewInt(int64(config.DefConfig.P2PNode.EVMChainId))), key)
		if err != nil {
			panic(err)
		}
		tx, err = types.TransactionFromEIP155(signed)
		if err != nil {
			panic(err)
		}
		if raw {
			tx.GasPrice = ti.price // exported field; the hash is already fixed by the signed payload
		}
		if tx.Payer != payers[ti.payer] || tx.Nonce != ti.nonce || tx.GasPrice != ti.price {
			panic("tx construction mismatch")
		}
	} else {
		m := &types.MutableTransaction{TxType: types.InvokeNeo, Nonce: ti.nonce, GasPrice: ti.price, GasLimit: 20000,
			Payer: payers[ti.payer], Payload: &payload.InvokeCode{Code: []byte(tok)}}
		var err error
		tx, err = m.IntoImmutable()
		if err != nil {
			panic(err)
		}
	}
	txCache[tok] = tx
	tokOf[tx.Hash()] = tok
	return tx
}

func tokens(txs []*types.Transaction) string {
	if len(txs) == 0 {
		return "-"
	}
	var s []string
	for _, t := range txs {
		s = append(s, tokOf[t.Hash()])
	}
	return strings.Join(s, ",")
}

func sortedTokens(hs []common.Uint256) string {
	if len(hs) == 0 {
		return "-"
	}
	var s []string
	for _, h := range hs {
		s = append(s, tokOf[h])
	}
	sort.Strings(s)
	return strings.Join(s, ",")
}

// ---------- stub ledger ----------

type stubStore struct {
	store.LedgerStore // nil: any method not overridden below would panic (none is reached)
	acct0             []uint64
	chain             [][]*types.Transaction
	view              int // number of visible blocks
}

func (s *stubStore) GetCurrentBlockHeight() uint32 {
	if s.view == 0 {
		return 0
	}
	return uint32(s.view - 1)
}

func (s *stubStore) IsContainTransaction(h common.Uint256) (bool, error) {
	for _, b := range s.chain[:s.view] {
		for _, t := range b {
			if t.Hash() == h {
				return true, nil
			}
		}
	}
	return false, nil
}

func (s *stubStore) acct(idx int, blocks [][]*types.Transaction, extra []*types.Transaction) uint64 {
	var last uint64
	scan := func(b []*types.Transaction) {
		for _, t := range b {
			if t.IsEipTx() && t.Payer == payers[idx] {
				last = uint64(t.Nonce) + 1
			}
		}
	}
	for _, b := range blocks {
		scan(b)
	}
	scan(extra)
	if last == 0 {
		if idx < len(s.acct0) {
			return s.acct0[idx]
		}
		return 0
	}
	return last
}

func (s *stubStore) GetEthAccount(a ethcomm.Address) (*storage.EthAccount, error) {
	idx, ok := payerIdx[common.Address(a)]
	if !ok {
		return &storage.EthAccount{}, nil
	}
	return &storage.EthAccount{Nonce: s.acct(idx, s.chain[:s.view], nil)}, nil
}

// ---------- execution ----------

type flags map[string]bool

var kindSet = []string{"wrap", "staled", "replaced", "expired", "truncated", "filtered-dup", "filtered-nonce"}

func exec(line string) hx.Result {
	f := strings.Fields(line)
	if len(f) != 4 || f[0] != "H" {
		return hx.Result{Out: "bad-op"}
	}
	mb, err := strconv.Atoi(f[1])
	if err != nil {
		return hx.Result{Out: "bad-op"}
	}
	st := &stubStore{chain: [][]*types.Transaction{nil}, view: 1}
	for _, a := range strings.Split(f[2], ",") {
		v, err := strconv.ParseUint(a, 10, 64)
		if err != nil {
			return hx.Result{Out: "bad-op"}
		}
		st.acct0 = append(st.acct0, v)
	}
	ledger.DefLedger = &ledger.Ledger{LedgerStore: st}
	pool := tc.NewTxPool()
	val := increment.NewIncrementValidator(mb)
	fl := flags{}
	res := hx.Result{}
	fail := func(class, msg string) {
		if res.Fail == "" {
			res.Fail, res.Class = msg, class
		}
	}
	var outs []string
	nontrivial := false
	for _, op := range strings.Split(f[3], ";") {
		p := strings.Split(op, ":")
		var o string
		switch {
		case p[0] == "s" && len(p) == 3:
			tx := getTx(p[1])
			lag, err := strconv.Atoi(p[2])
			if tx == nil || err != nil {
				return hx.Result{Out: "bad-op"}
			}
			st.view = len(st.chain) - lag
			if st.view < 1 {
				st.view = 1 // the ledger always holds the genesis block
			}
			ch := make(chan *vt.CheckResponse, 1)
			statefulV.SubmitVerifyTask(tx, ch)
			rsp := <-ch
			st.view = len(st.chain)
			switch rsp.ErrCode {
			case errors.ErrNoError:
				before := pool.GetTransactionHashList()
				code := pool.AddTxList(&tc.VerifiedTx{Tx: tx, VerifiedHeight: rsp.Height, Nonce: rsp.Nonce})
				switch code {
				case errors.ErrNoError:
					o = "ok"
				case errors.ErrETHTxNonceToobig:
					o = "toobig"
				case errors.ErrSameNonceExist:
					o = "same"
				case errors.ErrDuplicatedTx:
					o = "pdup"
				default:
					o = "code" + strconv.Itoa(int(code))
				}
				if o != "ok" {
					fl[o] = true
				}
				// which transaction left the pool? (the one replaced)
				after := map[common.Uint256]bool{}
				for _, h := range pool.GetTransactionHashList() {
					after[h] = true
				}
				for _, h := range before {
					if !after[h] || (h == tx.Hash() && code == errors.ErrNoError) {
						old := txCache[tokOf[h]]
						o += "+" + tokOf[h]
						fl["replaced"] = true
						if h == tx.Hash() {
							fl["self-replace"] = true
						}
						if old.GasPrice > maxGweiPrice || tx.GasPrice > maxGweiPrice {
							fl["rawprice-replace"] = true
						}
						// predicate: a replacement only happens with a higher gas price (exact threshold: new > old*101/100)
						if old.Payer != tx.Payer || old.Nonce != tx.Nonce {
							fail("replace-other-slot", fmt.Sprintf("%s evicted %s (different sender/nonce)", p[1], tokOf[h]))
						} else if old.GasPrice <= maxGweiPrice && !(tx.GasPrice > old.GasPrice) {
							fail("replace-not-higher", fmt.Sprintf("%s replaced %s without a higher gas price", p[1], tokOf[h]))
						} else if old.GasPrice <= maxGweiPrice && !(tx.GasPrice > old.GasPrice*101/100) {
							fail("replace-below-threshold", fmt.Sprintf("%s replaced %s below the 1%% bump", p[1], tokOf[h]))
						}
					}
				}
			case errors.ErrDuplicatedTx:
				o = "chain"
				fl["chain"] = true
			case errors.ErrHigherNonceExist:
				o = "low"
				fl["low"] = true
			default:
				o = "vcode" + strconv.Itoa(int(rsp.ErrCode))
			}
		case p[0] == "c" && len(p) == 2:
			var txs []*types.Transaction
			if p[1] != "-" {
				for _, t := range strings.Split(p[1], ",") {
					tx := getTx(t)
					if tx == nil {
						return hx.Result{Out: "bad-op"}
					}
					txs = append(txs, tx)
				}
			}
			o = "ok"
			seen := map[common.Uint256]bool{}
			for i, t := range txs {
				if c, _ := st.IsContainTransaction(t.Hash()); c || seen[t.Hash()] {
					o = "dup"
					break
				}
				if t.IsEipTx() && uint64(t.Nonce) != st.acct(payerIdx[t.Payer], st.chain, txs[:i]) {
					o = "badnonce"
					break
				}
				seen[t.Hash()] = true
			}
			if o == "ok" {
				st.chain = append(st.chain, txs)
				st.view = len(st.chain)
				for _, t := range txs {
					if t.IsEipTx() && t.Nonce == ^uint32(0) {
						fl["nonce-wrap"] = true
					}
				}
			} else {
				fl["commit-rejected"] = true
			}
		case p[0] == "n" && len(p) == 2:
			k, err := strconv.Atoi(p[1])
			if err != nil {
				return hx.Result{Out: "bad-op"}
			}
			if k < len(st.chain) {
				val.AddBlock(&types.Block{Header: &types.Header{Height: uint32(k)}, Transactions: st.chain[k]})
			}
			a, b := val.BlockRange()
			o = fmt.Sprintf("[%d,%d)", a, b)
		case p[0] == "k" && len(p) == 2:
			k, err := strconv.Atoi(p[1])
			if err != nil {
				return hx.Result{Out: "bad-op"}
			}
			if k < len(st.chain) {
				pool.CleanCompletedTransactionList(append([]*types.Transaction(nil), st.chain[k]...), uint32(k))
				o = "-"
			} else {
				o = "nochain"
			}
		case p[0] == "g" && len(p) == 4:
			h, e1 := strconv.ParseUint(p[2], 10, 32)
			m, e2 := strconv.ParseUint(p[3], 10, 64)
			if e1 != nil || e2 != nil {
				return hx.Result{Out: "bad-op"}
			}
			config.DefConfig.Consensus.MaxTxInBlock = uint(m)
			before := pool.GetTransactionCount()
			v, old := pool.GetTxPool(p[1] == "1", uint32(h))
			var vt []*types.Transaction
			for _, e := range v {
				vt = append(vt, e.Tx)
			}
			o = "v=" + tokens(vt) + "/o=" + tokens(old)
			fl["getpool"] = true
			if len(old) > 0 {
				fl["expired"] = true
			}
			if len(v)+len(old) < before {
				fl["truncated"] = true
			}
		case p[0] == "p" && len(p) == 4:
			h, e1 := strconv.ParseUint(p[2], 10, 32)
			m, e2 := strconv.ParseUint(p[3], 10, 64)
			if e1 != nil || e2 != nil {
				return hx.Result{Out: "bad-op"}
			}
			config.DefConfig.Consensus.MaxTxInBlock = uint(m)
			// --- transcription of solo.go:makeBlock / vbft validHeight + makeProposal ---
			height := uint32(h)
			validHeight := height
			start, end := val.BlockRange()
			if height+1 == end {
				validHeight = start
			} else {
				val.Clean()
				fl["window-clean"] = true
			}
			before := pool.GetTransactionCount()
			entries, old := pool.GetTxPool(p[1] == "1", validHeight)
			nonceCtx := make(map[common.Address]uint64)
			var out []*types.Transaction
			for _, e := range entries {
				if err := val.Verify(e.Tx, validHeight, nonceCtx); err == nil {
					out = append(out, e.Tx)
				} else {
					switch {
					case strings.HasPrefix(err.Error(), "tx duplicated"):
						fl["filtered-dup"] = true
					case strings.HasPrefix(err.Error(), "wrong nonce"):
						fl["filtered-nonce"] = true
					default:
						fl["filtered-base"] = true
					}
				}
			}
			// --- end of transcription ---
			o = fmt.Sprintf("vh=%d:%s", validHeight, tokens(out))
			fl["proposal"] = true
			if len(old) > 0 {
				fl["expired"] = true
			}
			if len(entries)+len(old) < before {
				fl["truncated"] = true
			}
			if len(out) > 0 {
				nontrivial = true
			}
			// predicate on the implementation's own output
			seen := map[common.Uint256]bool{}
			next := map[int]uint64{}
			for _, t := range out {
				if seen[t.Hash()] {
					fail("proposal-duplicate-hash", "proposal contains "+tokOf[t.Hash()]+" twice")
				}
				seen[t.Hash()] = true
				if int(height)+1 == len(st.chain) {
					if c, _ := st.IsContainTransaction(t.Hash()); c {
						fail("proposal-tx-on-chain", "proposal contains "+tokOf[t.Hash()]+" which is already in a block")
					}
					if t.IsEipTx() {
						idx := payerIdx[t.Payer]
						exp, started := next[idx]
						if !started {
							exp = st.acct(idx, st.chain, nil)
							if uint64(t.Nonce) != exp {
								fail("proposal-nonce-start", fmt.Sprintf("sender %d: first proposed nonce %d, account nonce %d", idx, t.Nonce, exp))
							}
						} else if uint64(t.Nonce) != exp {
							fail("proposal-nonce-gap", fmt.Sprintf("sender %d: proposed nonce %d after %d", idx, t.Nonce, exp-1))
						}
						next[idx] = uint64(t.Nonce) + 1
					}
				}
			}
		case p[0] == "r" && len(p) == 1:
			var hs []common.Uint256
			for _, t := range pool.Remain() {
				hs = append(hs, t.Hash())
			}
			o = sortedTokens(hs)
			fl["remain"] = true
		case p[0] == "b" && len(p) == 2:
			g, err := strconv.ParseUint(p[1], 10, 64)
			if err != nil {
				return hx.Result{Out: "bad-op"}
			}
			pool.RemoveTxsBelowGasPrice(g)
			o = "-"
			fl["below"] = true
		case p[0] == "v" && len(p) == 1:
			val.Clean()
			o = "-"
		case p[0] == "x" && len(p) == 2:
			h, err := strconv.ParseUint(p[1], 10, 32)
			if err != nil {
				return hx.Result{Out: "bad-op"}
			}
			n0 := pool.GetTransactionCount()
			pool.CleanStaledEIPTx(uint32(h))
			o = "-"
			if pool.GetTransactionCount() < n0 {
				fl["staled"] = true
			}
		case p[0] == "q" && len(p) == 2:
			a, err := strconv.Atoi(p[1])
			if err != nil || a >= len(payers) {
				return hx.Result{Out: "bad-op"}
			}
			o = strconv.FormatUint(pool.NextNonce(payers[a]), 10)
		case p[0] == "f" && len(p) == 3:
			n, e1 := strconv.Atoi(p[1])
			base, e2 := strconv.ParseUint(p[2], 10, 64)
			if e1 != nil || e2 != nil || n > 20000 {
				return hx.Result{Out: "bad-op"}
			}
			okc := 0
			for i := 0; i < n; i++ {
				m := &types.MutableTransaction{TxType: types.InvokeNeo, GasPrice: base + uint64(i), GasLimit: 20000, Payer: payers[0],
					Payload: &payload.InvokeCode{Code: []byte(fmt.Sprintf("o0.0.%d.0", base+uint64(i)))}}
				tx, err := m.IntoImmutable()
				if err != nil {
					panic(err)
				}
				tokOf[tx.Hash()] = fmt.Sprintf("o0.0.%d.0", base+uint64(i))
				ch := make(chan *vt.CheckResponse, 1)
				statefulV.SubmitVerifyTask(tx, ch)
				rsp := <-ch
				if rsp.ErrCode == errors.ErrNoError && pool.AddTxList(&tc.VerifiedTx{Tx: tx, VerifiedHeight: rsp.Height, Nonce: rsp.Nonce}) == errors.ErrNoError {
					okc++
				}
			}
			o = fmt.Sprintf("ok%d", okc)
		case p[0] == "y" && len(p) == 3:
			tx := getTx(p[1])
			start, err := strconv.ParseUint(p[2], 10, 32)
			if tx == nil || err != nil {
				return hx.Result{Out: "bad-op"}
			}
			b, e := val.BlockRange()
			verr := val.Verify(tx, uint32(start), make(map[common.Address]uint64))
			switch {
			case verr == nil:
				o = "ok"
				// predicate: an accepted transaction is in no window block from `start` on (the window is chain[b..e))
				for h := uint32(start); h >= b && h < e && int(h) < len(st.chain); h++ {
					for _, t := range st.chain[h] {
						if t.Hash() == tx.Hash() {
							fail("verify-accepts-tx-in-window", fmt.Sprintf("Verify(%s, %d) accepted a transaction of window block %d", p[1], start, h))
						}
					}
				}
			case strings.HasPrefix(verr.Error(), "can not do increment validation"):
				o = "base"
			case strings.HasPrefix(verr.Error(), "tx duplicated"):
				o = "dup"
				fl["filtered-dup"] = true
			default:
				o = "nonce"
			}
		default:
			return hx.Result{Out: "bad-op"}
		}
		outs = append(outs, o)
	}
	a, b := val.BlockRange()
	hl := pool.GetTransactionHashList()
	poolS := sortedTokens(hl)
	if len(hl) > 300 { // after a fill: count + the EIP-155 transactions only
		var eh []common.Uint256
		for _, h := range hl {
			if strings.HasPrefix(tokOf[h], "e") {
				eh = append(eh, h)
			}
		}
		poolS = fmt.Sprintf("#%d:%s", len(hl), sortedTokens(eh))
	}
	res.Out = strings.Join(outs, "|") + " # pool=" + poolS + fmt.Sprintf(" range=[%d,%d)", a, b)
	// histogram bucket: the combination of the branches that matter for the property (other flags are near-universal)
	fl["wrap"] = fl["nonce-wrap"] || fl["rawprice-replace"]
	var ks []string
	for _, k := range kindSet {
		if fl[k] {
			ks = append(ks, k)
		}
	}
	if len(ks) == 0 {
		ks = []string{"plain"}
	}
	res.Kind = strings.Join(ks, "+")
	if nontrivial {
		res.Key = line
	}
	return res
}

func main() {
	hx.Main(hx.Prop{
		ID: "C35",
		Rule: "histories (8-40 ops) over 5 EVM senders + other-type transactions on the real TXPool/IncrementValidator/stateful validator with a stub ledger: " +
			"submissions at/above/below the account nonce with gaps up to the 1000 limit, same-nonce resubmissions at the replacement threshold (old*101/100 -1/0/+1, uint64 wrap region), " +
			"coherent and incoherent block commits, validator/pool notifications delivered, dropped or reordered, expiry heights, MaxTxInBlock truncation, Remain/RemoveTxsBelowGasPrice, proposals at tip and off-tip. " +
			"Gas prices are tie-free across senders (Go map order would otherwise be observable). Non-trivial = a proposal with a non-empty filtered output",
		Gen:    gen,
		Exec:   exec,
		Init:   initOnce,
		Corpus: corpus,
		N:      map[string]int{"quick": 5000, "thorough": 150000},
	})
}
