// C29 harness: participant selection of one VBFT round through the real calcParticipantPeers / calcParticipant /
// getParticipantSelectionSeed (verif hook consensus/vbft/verif_export_c29.go).
//
//	P <vrf:128 hex> <C> <N> <posTable i,i,…|-> <peers i,i,…|->  -> p=…|e=…|c=…
//	K <vrf:128 hex> <k> <posTable>                               -> calcParticipant value
//	V <vrf:128 hex> <K> <C> <posTable> <peers>                   -> accept=0|1|p=…|e=…|c=…  (accept: does the real
//	                                                                 governance.CheckVBFTConfig accept N=K, C, K, L=16K with these peers?)
//	S <blockNum> <proposer> <vrfValue hex>                        -> ok   (seed: 64 bytes, non-nil, same on a second call,
//	                                                                 different from the seed of blockNum+1)
//
// Predicate (P lines with a valid configuration: C >= 1, distinct peer indexes, |peers| >= 3C+1, posTable ⊆ peers):
// |proposers| = C+1, endorsers / committers duplicate-free with >= 2C+1 members, every participant is a configured peer,
// and a second evaluation gives the same three lists. V lines: every configuration the code's own check accepts must give
// well-formed sets (it does not when K < 3C+1: known finding).
package main

import (
	"encoding/hex"
	"fmt"
	"strconv"
	"strings"

	"github.com/ontio/ontology-crypto/keypair"
	"github.com/ontio/ontology/common/config"
	"github.com/ontio/ontology/consensus/vbft"
	vconfig "github.com/ontio/ontology/consensus/vbft/config"
	"github.com/ontio/ontology/core/types"
	"github.com/ontio/ontology/smartcontract/service/native/governance"
	"verif/harness/internal/hx"
)

// real P-256 keys / addresses for CheckVBFTConfig (it validates key format, VRF suitability and address encoding)
var pubHex, addrB58 []string

func initKeys() {
	for i := 0; i < 64; i++ {
		_, pub, err := keypair.GenerateKeyPair(keypair.PK_ECDSA, keypair.P256)
		if err != nil {
			panic(err)
		}
		pubHex = append(pubHex, hex.EncodeToString(keypair.SerializePublicKey(pub)))
		a := types.AddressFromPubKey(pub)
		addrB58 = append(addrB58, a.ToBase58())
	}
}

// accepted runs the real governance.CheckVBFTConfig on a configuration that is valid in every respect that does not
// concern K, C and the peer indexes.
func accepted(K, C uint32, peers []uint32) bool {
	conf := &config.VBFTConfig{N: K, C: C, K: K, L: 16 * K, BlockMsgDelay: 10000, HashMsgDelay: 10000, PeerHandshakeTimeout: 10,
		MaxBlockChangeView: 1000, MinInitStake: 10000, VrfValue: strings.Repeat("a", 128), VrfProof: strings.Repeat("b", 128)}
	for i, idx := range peers {
		conf.Peers = append(conf.Peers, &config.VBFTPeerStakeInfo{Index: idx, PeerPubkey: pubHex[i%len(pubHex)], Address: addrB58[i%len(addrB58)], InitPos: 10000})
	}
	return governance.CheckVBFTConfig(conf) == nil
}

func u32s(s string) []uint32 {
	if s == "-" {
		return nil
	}
	var out []uint32
	for _, f := range strings.Split(s, ",") {
		v, err := strconv.ParseUint(f, 10, 32)
		if err != nil {
			panic("bad uint32 list on op line")
		}
		out = append(out, uint32(v))
	}
	return out
}

func show(l []uint32) string {
	if len(l) == 0 {
		return "-"
	}
	ss := make([]string, len(l))
	for i, v := range l {
		ss[i] = strconv.FormatUint(uint64(v), 10)
	}
	return strings.Join(ss, ",")
}

func vrfOf(h string) vconfig.VRFValue {
	b := hx.MustUnhex(h)
	if len(b) != vconfig.VRF_SIZE {
		panic("vrf must be 64 bytes")
	}
	var v vconfig.VRFValue
	copy(v[:], b)
	return v
}

func hasDup(l []uint32) bool {
	m := map[uint32]bool{}
	for _, v := range l {
		if m[v] {
			return true
		}
		m[v] = true
	}
	return false
}

func eq(a, b []uint32) bool {
	if len(a) != len(b) {
		return false
	}
	for i := range a {
		if a[i] != b[i] {
			return false
		}
	}
	return true
}

func exec(line string) hx.Result {
	f := strings.Fields(line)
	if len(f) == 0 {
		return hx.Result{Out: "bad-op"}
	}
	switch f[0] {
	case "P":
		if len(f) != 6 {
			return hx.Result{Out: "bad-op"}
		}
		vrf := vrfOf(f[1])
		C64, _ := strconv.ParseUint(f[2], 10, 32)
		N64, _ := strconv.ParseUint(f[3], 10, 32)
		C, N := int(C64), int(N64)
		pos, peers := u32s(f[4]), u32s(f[5])
		cp := func(l []uint32) []uint32 { return append([]uint32(nil), l...) }
		p, e, c := vbft.VerifCalcParticipantPeers(vrf, uint32(C), uint32(N), cp(pos), cp(peers))
		p, e, c = cp(p), cp(e), cp(c)
		res := hx.Result{Out: fmt.Sprintf("p=%s|e=%s|c=%s", show(p), show(e), show(c)), Key: line}

		member := map[uint32]bool{}
		for _, x := range peers {
			member[x] = true
		}
		distinctPos := map[uint32]bool{}
		posInPeers := true
		for _, x := range pos {
			distinctPos[x] = true
			if !member[x] {
				posInPeers = false
			}
		}
		valid := C >= 1 && !hasDup(peers) && len(peers) >= 3*C+1 && posInPeers
		all := map[uint32]bool{}
		for _, l := range [][]uint32{p, e, c} {
			for _, x := range l {
				all[x] = true
			}
		}
		kind := "valid"
		if !valid {
			kind = "invalid"
			switch {
			case C == 0:
				kind += "-c0"
			case len(peers) < 3*C+1:
				kind += "-fewpeers"
			case !posInPeers:
				kind += "-pos-outside"
			default:
				kind += "-duppeers"
			}
		}
		switch {
		case len(distinctPos) <= 3*C:
			kind += ",fill"
		case len(all) >= 5*C+4:
			kind += ",max"
		default:
			kind += ",table"
		}
		if len(pos) > 512 {
			kind += ",k512"
		}
		if len(all) >= 5*C+3 { // (n-C-1)/2 >= 2C+1: the initial endorser slice needs no top-up
			kind += ",e0-enough"
		}
		res.Kind = kind
		if !valid {
			return res
		}
		fail := func(class, msg string) hx.Result {
			res.Fail, res.Class = msg, class
			return res
		}
		if len(p) != C+1 {
			return fail("proposers-count", fmt.Sprintf("%d proposers, want C+1=%d", len(p), C+1))
		}
		if hasDup(p) {
			return fail("proposers-dup", "duplicate proposer")
		}
		if hasDup(e) {
			return fail("endorsers-dup", "duplicate endorser")
		}
		if len(e) < 2*C+1 {
			return fail("endorsers-short", fmt.Sprintf("%d endorsers, want >= 2C+1=%d", len(e), 2*C+1))
		}
		if hasDup(c) {
			return fail("committers-dup", "duplicate committer")
		}
		if len(c) < 2*C+1 {
			return fail("committers-short", fmt.Sprintf("%d committers, want >= 2C+1=%d", len(c), 2*C+1))
		}
		for x := range all {
			if !member[x] {
				return fail("participant-not-a-peer", fmt.Sprintf("participant %d is not a configured peer", x))
			}
		}
		p2, e2, c2 := vbft.VerifCalcParticipantPeers(vrf, uint32(C), uint32(N), cp(pos), cp(peers))
		if !eq(p, p2) || !eq(e, e2) || !eq(c, c2) {
			return fail("selection-nondeterministic", "second evaluation gives different participants")
		}
		return res
	case "V":
		if len(f) != 6 {
			return hx.Result{Out: "bad-op"}
		}
		vrf := vrfOf(f[1])
		K64, _ := strconv.ParseUint(f[2], 10, 32)
		C64, _ := strconv.ParseUint(f[3], 10, 32)
		K, C := int(K64), int(C64)
		pos, peers := u32s(f[4]), u32s(f[5])
		if len(peers) > 64 {
			return hx.Result{Out: "bad-op"}
		}
		cp := func(l []uint32) []uint32 { return append([]uint32(nil), l...) }
		acc := accepted(uint32(K), uint32(C), peers)
		p, e, c := vbft.VerifCalcParticipantPeers(vrf, uint32(C), uint32(K), cp(pos), cp(peers))
		p, e, c = cp(p), cp(e), cp(c)
		res := hx.Result{Out: fmt.Sprintf("accept=%s|p=%s|e=%s|c=%s", hx.B(acc), show(p), show(e), show(c)), Key: line}
		res.Kind = fmt.Sprintf("check-accept=%v,K>=3C+1=%v", acc, K >= 3*C+1)
		if !acc {
			return res
		}
		member := map[uint32]bool{}
		for _, x := range peers {
			member[x] = true
		}
		bad := ""
		switch {
		case len(p) != C+1 || hasDup(p):
			bad = "proposers"
		case len(e) < 2*C+1 || hasDup(e):
			bad = fmt.Sprintf("%d distinct endorsers, want >= 2C+1=%d", len(e), 2*C+1)
		case len(c) < 2*C+1 || hasDup(c):
			bad = fmt.Sprintf("%d distinct committers, want >= 2C+1=%d", len(c), 2*C+1)
		}
		for _, l := range [][]uint32{p, e, c} {
			for _, x := range l {
				if !member[x] {
					bad = "participant outside the configuration"
				}
			}
		}
		if bad != "" {
			res.Fail = fmt.Sprintf("CheckVBFTConfig accepts K=%d, C=%d but the round is not well formed: %s", K, C, bad)
			if K < 3*C+1 {
				res.Class = "config-check-admits-K-below-3C+1"
			} else {
				res.Class = "accepted-config-ill-formed-round"
			}
		}
		return res
	case "K":
		if len(f) != 4 {
			return hx.Result{Out: "bad-op"}
		}
		vrf := vrfOf(f[1])
		k, _ := strconv.ParseUint(f[2], 10, 32)
		pos := u32s(f[3])
		if len(pos) == 0 {
			return hx.Result{Out: "bad-op"}
		}
		v := vbft.VerifCalcParticipant(vrf, pos, uint32(k))
		kind := "k<512"
		if k >= 512 {
			kind = "k>=512"
		} else if k/8 == 63 {
			kind = "k-wraps-to-byte0"
		}
		res := hx.Result{Out: strconv.FormatUint(uint64(v), 10), Key: line, Kind: kind}
		if k < 512 {
			found := false
			for _, x := range pos {
				if x == v {
					found = true
				}
			}
			if !found {
				res.Fail, res.Class = "calcParticipant returned a value that is not in the position table", "pick-outside-table"
			}
		}
		return res
	case "S":
		if len(f) != 4 {
			return hx.Result{Out: "bad-op"}
		}
		bn, _ := strconv.ParseUint(f[1], 10, 32)
		pr, _ := strconv.ParseUint(f[2], 10, 32)
		vv := hx.MustUnhex(f[3])
		s1 := vbft.VerifSelectionSeed(uint32(bn), uint32(pr), vv)
		s2 := vbft.VerifSelectionSeed(uint32(bn), uint32(pr), append([]byte{}, vv...))
		s3 := vbft.VerifSelectionSeed(uint32(bn)+1, uint32(pr), vv)
		res := hx.Result{Out: "ok", Key: line, Kind: "seed"}
		if s1 != s2 {
			res.Fail, res.Class = "selection seed differs between two evaluations", "seed-nondeterministic"
		} else if s1.IsNil() || s1 == s3 {
			res.Fail, res.Class = "selection seed is nil or does not depend on the block number", "seed-degenerate"
		}
		return res
	}
	return hx.Result{Out: "bad-op"}
}

func genVrf(r *hx.Rand) string {
	switch r.Intn(10) {
	case 0:
		return strings.Repeat("00", 64)
	case 1:
		return strings.Repeat("ff", 64)
	case 2: // low-entropy: every pick lands on few table slots
		b := make([]byte, 64)
		x := byte(r.U64())
		for i := range b {
			b[i] = x
		}
		return hex.EncodeToString(b)
	case 3, 4, 5: // the real seed function
		s := vbft.VerifSelectionSeed(uint32(r.U64()), uint32(r.Intn(40)), r.Bytes(r.Intn(70)))
		return hex.EncodeToString(s[:])
	}
	return hex.EncodeToString(r.Bytes(64))
}

func genPeers(r *hx.Rand, n int) []uint32 {
	var out []uint32
	seen := map[uint32]bool{}
	mode := r.Intn(4)
	for len(out) < n {
		var x uint32
		switch mode {
		case 0:
			x = uint32(len(out) + 1)
		case 1:
			x = uint32(r.Intn(3 * n + 1))
		case 2:
			x = uint32(r.U64())
		default:
			x = uint32(len(out)) // includes index 0
		}
		if !seen[x] {
			seen[x] = true
			out = append(out, x)
		}
	}
	// configuration order is stake order, not index order
	for i := len(out) - 1; i > 0; i-- {
		j := r.Intn(i + 1)
		out[i], out[j] = out[j], out[i]
	}
	return out
}

func genPos(r *hx.Rand, peers []uint32, C int) []uint32 {
	var L int
	switch r.Intn(8) {
	case 0:
		L = 1 + r.Intn(8)
	case 1:
		L = 1 << uint(r.Intn(10))
	case 2:
		L = 500 + r.Intn(120) // crosses k = 512
	default:
		L = len(peers) * (2 + r.Intn(6))
	}
	pos := make([]uint32, 0, L)
	mode := []int{0, 0, 1, 1, 1, 1, 2, 3, 3, 4}[r.Intn(10)]
	d := 1 + r.Intn(len(peers)) // number of distinct peers in the table
	switch mode {
	case 0: // fewer than 3C+1 distinct peers in the table: the fill step must run
		if 3*C > 0 {
			d = 1 + r.Intn(3*C)
		}
	case 1:
		d = len(peers)
	}
	if d > len(peers) {
		d = len(peers)
	}
	for i := 0; i < L; i++ {
		switch mode {
		case 2: // heavily skewed: one peer owns most slots
			if r.Chance(85) {
				pos = append(pos, peers[0])
				continue
			}
		case 3: // round robin
			pos = append(pos, peers[i%d])
			continue
		}
		pos = append(pos, peers[r.Intn(d)])
	}
	return pos
}

func gen(r *hx.Rand, tier string, i int) string {
	if r.Chance(4) {
		return fmt.Sprintf("S %d %d %s", uint32(r.U64()), r.Intn(50), hx.Hex(r.Bytes(r.Intn(80))))
	}
	if r.Chance(8) {
		n := 1 + r.Intn(12)
		peers := genPeers(r, n)
		pos := genPos(r, peers, (n-1)/3)
		k := r.Intn(520)
		if r.Chance(30) {
			k = 496 + r.Intn(24)
		}
		return fmt.Sprintf("K %s %d %s", genVrf(r), k, show(pos))
	}
	if r.Chance(10) { // what the code's own configuration check lets through
		K := 5 + r.Intn(20)
		C := 1 + r.Intn((K+1)/2)
		if r.Chance(30) {
			C = (K - 1) / 2 // the largest C the check admits
		}
		if r.Chance(5) {
			C = 0
		}
		if C+1 > K {
			C = K - 1
		}
		peers := genPeers(r, K)
		if r.Chance(85) { // CheckVBFTConfig wants indexes > 0
			for j := range peers {
				peers[j] = uint32(j + 1)
			}
			for j := len(peers) - 1; j > 0; j-- {
				k := r.Intn(j + 1)
				peers[j], peers[k] = peers[k], peers[j]
			}
		}
		return fmt.Sprintf("V %s %d %d %s %s", genVrf(r), K, C, show(genPos(r, peers, C)), show(peers))
	}
	N := 3*(1+r.Intn(10)) + 1 // 4,7,…,31
	if r.Chance(35) {
		N = 4 + r.Intn(40)
	}
	C := (N - 1) / 3
	if r.Chance(25) {
		C = 1 + r.Intn(C)
	}
	peers := genPeers(r, N)
	pos := genPos(r, peers, C)
	nField := N
	switch {
	case r.Chance(6): // invalid: too few configured peers (but at least C+1, below that Go slices past the length)
		k := C + 1 + r.Intn(2*C)
		peers = peers[:k]
		pos = genPos(r, peers, C)
	case r.Chance(3): // invalid: C = 0
		C = 0
	case r.Chance(3): // table mentions a peer that is not configured
		pos[r.Intn(len(pos))] = 4000000000 + uint32(r.Intn(1000))
	case r.Chance(3): // MaxUint32 in the table stops the walk
		pos[r.Intn(len(pos))] = 4294967295
	case r.Chance(3): // duplicated peer index
		if len(peers) > 3*C+1 {
			peers[0] = peers[len(peers)-1]
		}
	case r.Chance(5): // N field smaller than the peer list: the walk stops early on len == N
		nField = 1 + r.Intn(N)
	}
	return fmt.Sprintf("P %s %d %d %s %s", genVrf(r), C, nField, show(pos), show(peers))
}

func main() {
	z := strings.Repeat("00", 64)
	ff := strings.Repeat("ff", 64)
	corpus := []string{
		// N = 4, C = 1, table with one peer: fill to 3C+1, both top-ups run
		"P " + z + " 1 4 1,1,1,1,1,1,1,1 1,2,3,4",
		"P " + ff + " 1 4 4,3,2,1 1,2,3,4",
		// N = 7, C = 2, rich table: 5C+4 > N, walk ends on len == N
		"P " + ff + " 2 7 1,2,3,4,5,6,7,1,2,3,4,5,6,7 7,6,5,4,3,2,1",
		// empty table: everything comes from the fill step
		"P " + z + " 2 7 - 1,2,3,4,5,6,7",
		// N = 31, C = 10
		"P " + z + " 10 31 1,2,3,4,5,6,7,8,9,10,11,12,13,14,15,16,17,18,19,20,21,22,23,24,25,26,27,28,29,30,31,1 1,2,3,4,5,6,7,8,9,10,11,12,13,14,15,16,17,18,19,20,21,22,23,24,25,26,27,28,29,30,31",
		"K " + ff + " 511 1,2,3",
		"K " + ff + " 512 1,2,3",
		"K " + z + " 504 5,6,7,8,9",
		// K = 7, C = 3 passes CheckVBFTConfig (K >= 2C+1, K >= 7) but 3C+1 = 10 > 7: 6 endorsers / committers instead of 7
		"V " + z + " 7 3 1,2,3,4,5,6,7,1,2,3,4,5,6,7 1,2,3,4,5,6,7",
		"V " + ff + " 7 2 1,2,3,4,5,6,7,1,2,3,4,5,6,7 1,2,3,4,5,6,7",
		"V " + ff + " 6 1 1,2,3,4,5,6 1,2,3,4,5,6",
		"S 0 0 -",
		"S 4294967295 7 00",
	}
	hx.Main(hx.Prop{
		ID:     "C29",
		Rule:   "P: random seeds (all-zero, all-ff, constant byte, SHA-512 seeds from the real getParticipantSelectionSeed, random), N in {4,7,…,31} and random N, C = (N-1)/3 or smaller, peer indexes dense/sparse/random uint32 in shuffled order, position tables short / power-of-two / longer than 512 / skewed / with fewer than 3C+1 distinct peers / empty, plus invalid configurations (too few peers, C=0, table entries outside the peer set, MaxUint32 entries, duplicated indexes, N field smaller than the peer list); K: calcParticipant alone incl. k around 504..519; V: K in 5..24, C up to (K-1)/2 (what governance.CheckVBFTConfig admits) and beyond, through the real CheckVBFTConfig with real P-256 keys, then the selection; S: seed function. Non-trivial = distinct line",
		Gen:    gen,
		Exec:   exec,
		Init:   initKeys,
		Corpus: corpus,
		N:      map[string]int{"quick": 6000, "thorough": 300000},
	})
}
